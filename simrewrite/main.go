// simrewrite instruments a scratch copy of bb-remote-execution for
// deterministic simulation. It never touches /repo itself.
//
//	T1  sync.Mutex / sync.RWMutex type occurrences -> simsync.Mutex / simsync.RWMutex
//	T2  `for k, v := range <map>` -> iteration over simsync.Keys(<map>) (a
//	    deterministic order that Go itself may legally pick) with a presence
//	    re-check
//	T3  `go func(){...}()` -> simsync.Go("<site>", func(){...})
//	T5  a scheduling point `simsync.AtomicPoint()` before every statement that calls a
//	    method of a sync/atomic type (off unless the world sets Kernel.AtomicPoints)
//	T4  &T{...} of struct types that are used as pointer map keys ->
//	    simsync.Tag(&T{...}) (gives pointers a reproducible order)
//
// usage: simrewrite <scratch repo dir> <package pattern>...
package main

import (
	"bytes"
	"fmt"
	"go/ast"
	"go/format"
	"go/token"
	"go/types"
	"os"
	"path/filepath"
	"strings"

	"golang.org/x/tools/go/ast/astutil"
	"golang.org/x/tools/go/packages"
)

const simsyncPath = "github.com/buildbarn/bb-remote-execution/pkg/verifsim/simsync"

type stats struct{ mutex, ranges, gos, tags, skipped, atomics int }

func main() {
	if len(os.Args) < 3 {
		fmt.Fprintln(os.Stderr, "usage: simrewrite <dir> <patterns>...")
		os.Exit(2)
	}
	dir := os.Args[1]
	cfg := &packages.Config{
		Mode:       packages.NeedName | packages.NeedFiles | packages.NeedSyntax | packages.NeedTypes | packages.NeedTypesInfo | packages.NeedImports | packages.NeedDeps,
		Dir:        dir,
		BuildFlags: []string{"-tags=verif"},
		Tests:      false,
	}
	pkgs, err := packages.Load(cfg, os.Args[2:]...)
	if err != nil {
		fmt.Fprintln(os.Stderr, "load:", err)
		os.Exit(2)
	}
	bad := false
	for _, p := range pkgs {
		for _, e := range p.Errors {
			fmt.Fprintln(os.Stderr, "package error:", e)
			bad = true
		}
	}
	if bad {
		os.Exit(2)
	}
	// Pass 1: which named struct types are used as pointer keys of maps?
	keyTypes := map[*types.TypeName]bool{}
	for _, p := range pkgs {
		for _, tv := range p.TypesInfo.Types {
			collectKeyTypes(tv.Type, keyTypes)
		}
		for _, obj := range p.TypesInfo.Defs {
			if obj != nil {
				collectKeyTypes(obj.Type(), keyTypes)
			}
		}
	}
	var st stats
	for _, p := range pkgs {
		if strings.Contains(p.PkgPath, "/pkg/proto/") || strings.Contains(p.PkgPath, "/verifsim/") {
			continue
		}
		for _, f := range p.Syntax {
			name := p.Fset.Position(f.Pos()).Filename
			if !strings.HasPrefix(name, dir) {
				continue
			}
			if rewriteFile(p, f, name, keyTypes, &st) {
				var buf bytes.Buffer
				if err := format.Node(&buf, p.Fset, f); err != nil {
					fmt.Fprintln(os.Stderr, "format", name, err)
					os.Exit(2)
				}
				if err := os.WriteFile(name, buf.Bytes(), 0o644); err != nil {
					fmt.Fprintln(os.Stderr, err)
					os.Exit(2)
				}
			}
		}
	}
	fmt.Printf("simrewrite: mutexes=%d map-ranges=%d go-stmts=%d tags=%d atomic-points=%d skipped=%d\n", st.mutex, st.ranges, st.gos, st.tags, st.atomics, st.skipped)
}

func collectKeyTypes(t types.Type, out map[*types.TypeName]bool) {
	seen := map[types.Type]bool{}
	var walk func(t types.Type)
	walk = func(t types.Type) {
		if t == nil || seen[t] {
			return
		}
		seen[t] = true
		switch u := t.(type) {
		case *types.Map:
			markKey(u.Key(), out)
			walk(u.Elem())
		case *types.Named:
			walk(u.Underlying())
		case *types.Pointer:
			walk(u.Elem())
		case *types.Slice:
			walk(u.Elem())
		case *types.Struct:
			for i := 0; i < u.NumFields(); i++ {
				walk(u.Field(i).Type())
			}
		}
	}
	walk(t)
}

func markKey(k types.Type, out map[*types.TypeName]bool) {
	switch u := k.(type) {
	case *types.Pointer:
		if n, ok := u.Elem().(*types.Named); ok {
			out[n.Origin().Obj()] = true
		}
	case *types.Named:
		if s, ok := u.Underlying().(*types.Struct); ok {
			for i := 0; i < s.NumFields(); i++ {
				markKey(s.Field(i).Type(), out)
			}
		}
	case *types.Struct:
		for i := 0; i < u.NumFields(); i++ {
			markKey(u.Field(i).Type(), out)
		}
	}
}

func isSyncMutex(info *types.Info, sel *ast.SelectorExpr) bool {
	obj, ok := info.Uses[sel.Sel].(*types.TypeName)
	if !ok || obj.Pkg() == nil || obj.Pkg().Path() != "sync" {
		return false
	}
	return obj.Name() == "Mutex" || obj.Name() == "RWMutex"
}

func pureExpr(e ast.Expr) bool {
	switch x := e.(type) {
	case *ast.Ident:
		return true
	case *ast.SelectorExpr:
		return pureExpr(x.X)
	case *ast.ParenExpr:
		return pureExpr(x.X)
	case *ast.StarExpr:
		return pureExpr(x.X)
	case *ast.IndexExpr:
		return pureExpr(x.X) && pureExpr(x.Index)
	case *ast.BasicLit:
		return true
	}
	return false
}

func rewriteFile(p *packages.Package, f *ast.File, name string, keyTypes map[*types.TypeName]bool, st *stats) bool {
	info := p.TypesInfo
	changed := false
	needImport := false
	counter := 0
	rel := filepath.Base(name)
	if insertAtomicPoints(info, f, st) {
		changed, needImport = true, true
	}
	astutil.Apply(f, func(c *astutil.Cursor) bool {
		switch n := c.Node().(type) {
		case *ast.SelectorExpr:
			if isSyncMutex(info, n) {
				n.X = ast.NewIdent("simsync")
				st.mutex++
				changed, needImport = true, true
			}
		}
		return true
	}, func(c *astutil.Cursor) bool {
		switch n := c.Node().(type) {
		case *ast.RangeStmt:
			t := info.TypeOf(n.X)
			if t == nil {
				return true
			}
			if _, ok := t.Underlying().(*types.Map); !ok {
				return true
			}
			if _, ok := t.(*types.TypeParam); ok {
				st.skipped++
				return true
			}
			if !pureExpr(n.X) || (n.Tok != token.DEFINE && (n.Key != nil || n.Value != nil)) {
				fmt.Fprintf(os.Stderr, "simrewrite: %s: map range left untouched\n", p.Fset.Position(n.Pos()))
				st.skipped++
				return true
			}
			counter++
			keyName := fmt.Sprintf("simK%d", counter)
			okName := fmt.Sprintf("simOk%d", counter)
			var keyIdent *ast.Ident
			if id, ok := n.Key.(*ast.Ident); ok && id.Name != "_" {
				keyIdent = id
			} else {
				keyIdent = ast.NewIdent(keyName)
			}
			var valExpr ast.Expr = ast.NewIdent("_")
			hasVal := false
			if id, ok := n.Value.(*ast.Ident); ok && id.Name != "_" {
				valExpr = id
				hasVal = true
			}
			lookup := &ast.IndexExpr{X: n.X, Index: ast.NewIdent(keyIdent.Name)}
			var pre []ast.Stmt
			if hasVal {
				pre = append(pre, &ast.AssignStmt{Lhs: []ast.Expr{valExpr, ast.NewIdent(okName)}, Tok: token.DEFINE, Rhs: []ast.Expr{lookup}})
				pre = append(pre, &ast.IfStmt{Cond: &ast.UnaryExpr{Op: token.NOT, X: ast.NewIdent(okName)}, Body: &ast.BlockStmt{List: []ast.Stmt{&ast.BranchStmt{Tok: token.CONTINUE}}}})
			} else {
				pre = append(pre, &ast.IfStmt{
					Init: &ast.AssignStmt{Lhs: []ast.Expr{ast.NewIdent("_"), ast.NewIdent(okName)}, Tok: token.DEFINE, Rhs: []ast.Expr{lookup}},
					Cond: &ast.UnaryExpr{Op: token.NOT, X: ast.NewIdent(okName)},
					Body: &ast.BlockStmt{List: []ast.Stmt{&ast.BranchStmt{Tok: token.CONTINUE}}},
				})
			}
			// Keep "declared and not used" away when the body does
			// not use the key.
			pre = append(pre, &ast.AssignStmt{Lhs: []ast.Expr{ast.NewIdent("_")}, Tok: token.ASSIGN, Rhs: []ast.Expr{ast.NewIdent(keyIdent.Name)}})
			n.Body.List = append(pre, n.Body.List...)
			n.Key = ast.NewIdent("_")
			n.Value = keyIdent
			n.Tok = token.DEFINE
			n.X = &ast.CallExpr{Fun: &ast.SelectorExpr{X: ast.NewIdent("simsync"), Sel: ast.NewIdent("Keys")}, Args: []ast.Expr{n.X}}
			st.ranges++
			changed, needImport = true, true
		case *ast.GoStmt:
			site := fmt.Sprintf("%s:%d", rel, p.Fset.Position(n.Pos()).Line)
			var fn ast.Expr
			if lit, ok := n.Call.Fun.(*ast.FuncLit); ok && len(n.Call.Args) == 0 {
				fn = lit
			} else {
				allPure := pureExpr(n.Call.Fun)
				for _, a := range n.Call.Args {
					if !pureExpr(a) {
						allPure = false
					}
				}
				if !allPure {
					fmt.Fprintf(os.Stderr, "simrewrite: %s: go statement left untouched\n", p.Fset.Position(n.Pos()))
					st.skipped++
					return true
				}
				fn = &ast.FuncLit{Type: &ast.FuncType{Params: &ast.FieldList{}}, Body: &ast.BlockStmt{List: []ast.Stmt{&ast.ExprStmt{X: n.Call}}}}
			}
			c.Replace(&ast.ExprStmt{X: &ast.CallExpr{
				Fun:  &ast.SelectorExpr{X: ast.NewIdent("simsync"), Sel: ast.NewIdent("Go")},
				Args: []ast.Expr{&ast.BasicLit{Kind: token.STRING, Value: fmt.Sprintf("%q", site)}, fn},
			}})
			st.gos++
			changed, needImport = true, true
		case *ast.UnaryExpr:
			if n.Op != token.AND {
				return true
			}
			cl, ok := n.X.(*ast.CompositeLit)
			if !ok {
				return true
			}
			t := info.TypeOf(cl)
			named, ok := t.(*types.Named)
			if !ok || !keyTypes[named.Origin().Obj()] {
				return true
			}
			if _, isCall := c.Parent().(*ast.CallExpr); isCall {
				if call := c.Parent().(*ast.CallExpr); isTagCall(call) {
					return true
				}
			}
			c.Replace(&ast.CallExpr{Fun: &ast.SelectorExpr{X: ast.NewIdent("simsync"), Sel: ast.NewIdent("Tag")}, Args: []ast.Expr{n}})
			st.tags++
			changed, needImport = true, true
		}
		return true
	})
	if needImport {
		astutil.AddImport(p.Fset, f, simsyncPath)
		if !astutil.UsesImport(f, "sync") {
			astutil.DeleteImport(p.Fset, f, "sync")
		}
	}
	return changed
}

func isTagCall(call *ast.CallExpr) bool {
	sel, ok := call.Fun.(*ast.SelectorExpr)
	if !ok {
		return false
	}
	id, ok := sel.X.(*ast.Ident)
	return ok && id.Name == "simsync" && sel.Sel.Name == "Tag"
}

// isAtomicMethodCall: x.Load(), x.Add(..), ... where x has a sync/atomic type.
func isAtomicMethodCall(info *types.Info, call *ast.CallExpr) bool {
	sel, ok := call.Fun.(*ast.SelectorExpr)
	if !ok {
		return false
	}
	t := info.TypeOf(sel.X)
	if t == nil {
		return false
	}
	if p, ok := t.(*types.Pointer); ok {
		t = p.Elem()
	}
	named, ok := t.(*types.Named)
	if !ok || named.Obj().Pkg() == nil || named.Obj().Pkg().Path() != "sync/atomic" {
		return false
	}
	switch sel.Sel.Name {
	case "Load", "Store", "Add", "Swap", "CompareAndSwap", "And", "Or":
		return true
	}
	return false
}

// insertAtomicPoints puts `simsync.AtomicPoint()` in front of every statement
// (directly inside a block or a case clause) that contains an atomic call.
func insertAtomicPoints(info *types.Info, f *ast.File, st *stats) bool {
	type site struct {
		parent ast.Node
		stmt   ast.Stmt
	}
	var sites []site
	seen := map[ast.Stmt]bool{}
	var stack []ast.Node
	ast.Inspect(f, func(n ast.Node) bool {
		if n == nil {
			stack = stack[:len(stack)-1]
			return true
		}
		stack = append(stack, n)
		call, ok := n.(*ast.CallExpr)
		if !ok || !isAtomicMethodCall(info, call) {
			return true
		}
		for i := len(stack) - 1; i > 0; i-- {
			stmt, ok := stack[i].(ast.Stmt)
			if !ok {
				continue
			}
			if _, isFuncLit := stack[i].(*ast.BlockStmt); isFuncLit {
				continue
			}
			switch stack[i-1].(type) {
			case *ast.BlockStmt, *ast.CaseClause, *ast.CommClause:
				if !seen[stmt] {
					seen[stmt] = true
					sites = append(sites, site{stack[i-1], stmt})
				}
				return true
			}
		}
		return true
	})
	for _, s := range sites {
		point := &ast.ExprStmt{X: &ast.CallExpr{Fun: &ast.SelectorExpr{X: ast.NewIdent("simsync"), Sel: ast.NewIdent("AtomicPoint")}}}
		var list *[]ast.Stmt
		switch p := s.parent.(type) {
		case *ast.BlockStmt:
			list = &p.List
		case *ast.CaseClause:
			list = &p.Body
		case *ast.CommClause:
			list = &p.Body
		}
		for i, x := range *list {
			if x == s.stmt {
				*list = append((*list)[:i], append([]ast.Stmt{point}, (*list)[i:]...)...)
				st.atomics++
				break
			}
		}
	}
	return len(sites) > 0
}

#!/usr/bin/env python3
"""store_round.py <suffixes> [notes.json]: copies confirmed seeded changes from /tmp/mut/out/<id> to /verif/seeded/<id> and
records the independent confirmation (/var/tmp/confirm-<id>.json) and the check's verdict (/var/tmp/try-<id>.txt) in meta.json."""
import json, os, re, shutil, sys, glob
suffixes = sys.argv[1]
notes = json.load(open(sys.argv[2])) if len(sys.argv) > 2 else {}
rows = []
for d in sorted(glob.glob("/tmp/mut/out/C??-[%s]" % suffixes)):
    mid = os.path.basename(d)
    conf = json.load(open("/var/tmp/confirm-%s.json" % mid))
    if not conf.get("confirmed"):
        print("NOT CONFIRMED", mid); continue
    tryf = open("/var/tmp/try-%s.txt" % mid).read()
    m = re.search(r"^rule=(.*)$", tryf, re.M)
    detected = "VIOLATION property=" in tryf
    dst = "/verif/seeded/" + mid
    shutil.rmtree(dst, ignore_errors=True)
    shutil.copytree(d, dst)
    meta = json.load(open(os.path.join(dst, "meta.json")))
    meta["independently_confirmed"] = {k: conf.get(k) for k in ("confirmed", "patch_applies", "builds_with_patch", "demo_without_patch", "demo_with_patch", "baseline_tests_with_patch")}
    meta["what_i_ran"] = ["/verif/confirm_mutant.py /tmp/mut/out/%s" % mid, "/verif/try_mutant.sh seeded/%s/patch.diff %s %s" % (mid, mid[:3], os.environ.get("TRY_ARGS", "40 12"))]
    rule = m.group(1).strip() if m else ""
    rp = re.search(r"replay=(\S+)", tryf)
    if not rule and rp and os.path.exists(rp.group(1)):
        rule = json.load(open(rp.group(1))).get("rule") or ""
    meta["detected_by"] = (rule or "VIOLATION") if detected else "not detected"
    if mid in notes:
        meta["detection_note"] = notes[mid]
    meta["origin"] = os.environ.get("ROUND_NAME", "third") + " round: written by a fresh sub-agent that saw only the property text, the list of earlier changes to avoid, and its own scratch worktree"
    json.dump(meta, open(os.path.join(dst, "meta.json"), "w"), indent=1)
    t = (meta.get("title") or "").replace("|", "/")
    n = (meta.get("needs_to_manifest") or "").replace("|", "/").replace("\n", " ")
    by = meta["detected_by"] + ((" (" + notes[mid] + ")") if mid in notes else "")
    rows.append("| %s %s | %s | %s |" % (mid, t[:115], n[:130], by))
print("\n".join(rows))

#!/usr/bin/env python3
"""confirm_mutant.py <mutant dir> : independently confirms a seeded change in a fresh scratch worktree of /repo:
(1) patch applies, (2) packages build, (3) the 39 baseline tests pass with it, (4) the demonstration passes without the
patch and fails with it. Prints a JSON summary. Removes the worktree afterwards."""
import json, os, re, shutil, subprocess, sys, glob
mdir = os.path.abspath(sys.argv[1]); mid = os.path.basename(mdir)
env = dict(os.environ, PATH="/opt/veriftools/go1.26.8/bin:" + os.environ["PATH"], GOFLAGS="-mod=mod", GOPROXY="off", GOSUMDB="off", GOTOOLCHAIN="local")
wt = "/tmp/confirm/" + mid
os.makedirs("/tmp/confirm", exist_ok=True)
subprocess.run(["git", "-C", "/repo", "worktree", "remove", "--force", wt], capture_output=True)
subprocess.run(["git", "-C", "/repo", "worktree", "add", "-q", "--detach", wt, "HEAD"], check=True)
res = {"id": mid}
def run(cmd, **kw):
    return subprocess.run(cmd, shell=True, cwd=wt, env=env, capture_output=True, text=True, **kw)
try:
    demo = os.path.join(mdir, "demo")
    runmd = open(os.path.join(demo, "RUN.md")).read() if os.path.exists(os.path.join(demo, "RUN.md")) else ""
    tests = [f for f in os.listdir(demo) if f.endswith("_test.go") or f.endswith(".go")]
    targets = set()
    for f in tests:
        m = re.search(r"((?:pkg|cmd|internal)/[\w/.-]*?)/?%s" % re.escape(f), runmd)
        if not m:
            # fall back: any pkg/... directory named in RUN.md together with 'cp'
            m = re.search(r"cp [^\n]*?((?:pkg|cmd)/[\w/.-]+)/?\s*$", runmd, re.M)
        if not m:
            res["error"] = "cannot find target dir for " + f; raise SystemExit
        tdir = m.group(1).rstrip("/")
        os.makedirs(os.path.join(wt, tdir), exist_ok=True)
        targets.add(tdir)
    for tdir in targets:
        # move pre-existing test files aside (they need generated mocks)
        for old in glob.glob(os.path.join(wt, tdir, "*_test.go")):
            os.rename(old, old + ".aside")
    for f in tests:
        m = re.search(r"((?:pkg|cmd|internal)/[\w/.-]*?)/?%s" % re.escape(f), runmd) or re.search(r"cp [^\n]*?((?:pkg|cmd)/[\w/.-]+)/?\s*$", runmd, re.M)
        shutil.copy(os.path.join(demo, f), os.path.join(wt, m.group(1).rstrip("/"), f))
    pk = " ".join("./" + t + "/" for t in sorted(targets))
    is_main = not any(f.endswith("_test.go") for f in tests)
    if is_main:
        # the demonstration is a small main program: judged by its exit code
        democmd = "(" + " && ".join("go run ./%s" % t for t in sorted(targets)) + ") > /tmp/confirm/%s.out 2>&1; echo exit=$?; tail -c 1500 /tmp/confirm/%s.out" % (mid, mid)
        r0 = run(democmd)
        res["demo_without_patch"] = "PASS" if "exit=0" in r0.stdout else "FAIL"
    else:
        r0 = run("go test -vet=off -count=1 %s 2>&1 | tail -15" % pk)
        res["demo_without_patch"] = "PASS" if re.search(r"^ok\s", r0.stdout, re.M) and "FAIL" not in r0.stdout else "FAIL"
    res["out_without"] = r0.stdout[-600:]
    ra = run("git apply %s" % os.path.join(mdir, "patch.diff"))
    res["patch_applies"] = ra.returncode == 0
    rb = run("go build ./pkg/... ./cmd/bb_scheduler ./cmd/bb_worker 2>&1 | tail -5")
    res["builds_with_patch"] = rb.stdout.strip() == ""
    if is_main:
        r1 = run(democmd)
        res["demo_with_patch"] = "PASS" if "exit=0" in r1.stdout else "FAIL"
    else:
        r1 = run("go test -vet=off -count=1 %s 2>&1 | tail -25" % pk)
        res["demo_with_patch"] = "FAIL" if "FAIL" in r1.stdout else "PASS"
    res["out_with"] = r1.stdout[-900:]
    rt = run("go test -vet=off -count=1 ./pkg/filesystem/access/... ./pkg/scheduler/invocation/... ./pkg/scheduler/platform/... 2>&1 | tail -5")
    res["baseline_tests_with_patch"] = "ok" if rt.stdout.count("ok ") >= 3 and "FAIL" not in rt.stdout else rt.stdout[-300:]
    res["confirmed"] = bool(res["patch_applies"] and res["builds_with_patch"] and res["demo_without_patch"] == "PASS" and res["demo_with_patch"] == "FAIL" and res["baseline_tests_with_patch"] == "ok")
finally:
    subprocess.run(["git", "-C", "/repo", "worktree", "remove", "--force", wt], capture_output=True)
    print(json.dumps(res, indent=1))

#!/bin/bash
# Builds the framework's own tool (simrewrite) from files on disk; offline.
set -eu
cd "$(dirname "$0")"
export PATH=/opt/veriftools/go1.26.8/bin:$PATH GOFLAGS=-mod=mod GOPROXY=off GOSUMDB=off GOTOOLCHAIN=local CGO_ENABLED=0
mkdir -p bin evidence replays
(cd simrewrite && go build -o ../bin/simrewrite .)
echo setup ok

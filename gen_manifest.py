#!/usr/bin/env python3
"""Regenerates MANIFEST.json from the table below (single source of truth)."""
import json, os
HERE = os.path.dirname(os.path.abspath(__file__))
props = [json.loads(l) for l in open(os.path.join(HERE, "properties.jsonl"))]

CHECKS = json.load(open(os.path.join(HERE, "checks.json")))
NA = {
 "C10": "pure function of inputs (command, file tree) -> ActionResult/Tree; no schedule, clock, fault or interleaving occurs in the property, so deterministic simulation has nothing to decide (DESIGN.md section 4); its storage-failure aspects are covered under C09",
}
hooks_commits = [l.strip() for l in open(os.path.join(HERE, "hook_commits.txt")) if l.strip()]
m = {
 "version": 1,
 "setup_cmd": "cd /verif && ./setup.sh",
 "hooks": {
  "guard": "verif",
  "enable": "go build tag: checks copy /repo's working tree to a scratch directory, instrument it with /verif/simrewrite and build it with `go test -c -tags verif`",
  "baseline_off_cmd": "cd /repo && export PATH=/opt/veriftools/go1.26.8/bin:$PATH GOFLAGS=-mod=mod GOPROXY=off GOSUMDB=off GOTOOLCHAIN=local && go test -json -vet=off -count=1 -timeout 25m ./...",
  "source_commits": hooks_commits,
  "add_only": True,
 },
 "engines": [
  {"name": "detsim", "path": "/verif/sim/simsync", "serves_properties": sorted(CHECKS.keys()),
   "kind_free_text": "deterministic simulation kernel: simulator-owned mutexes (source rewrite of a scratch copy), seeded choice tape, testing/synctest quiescence, simulated clock/transport/storage, fault injection, replay and tape minimisation"},
 ],
 "checks": [],
 "notes": "All checks: ./check <id> quick|thorough ; replay: ./check replay <file>. Exit 0 held, 1 violation (VIOLATION line), 2 build/harness trouble. See DESIGN.md.",
 "not_applicable": [],
}
for p in props:
    pid = p["id"]
    if pid in CHECKS:
        c = CHECKS[pid]
        m["checks"].append({
            "property_id": pid,
            "quick_cmd": "./check %s quick" % pid,
            "thorough_cmd": "./check %s thorough" % pid,
            "evidence_file": "/verif/evidence/%s.json" % pid,
            "replay_cmd_template": "./check replay {path}",
            "engine": "detsim",
            "level_claimed": {"category": c.get("level", "exploration"), "text": c["text"], "design_ref": c.get("design_ref", "DESIGN.md section 3")},
            "level_note": c["note"],
            "technique": c.get("technique", "deterministic simulation with fault injection: seeded schedule/fault search over the real code, oracle checked after every step and over the recorded history"),
        })
    else:
        m["not_applicable"].append({"property_id": pid, "reason": NA.get(pid, "check not built yet in this session (work in progress; design in DESIGN.md)")})
json.dump(m, open(os.path.join(HERE, "MANIFEST.json"), "w"), indent=1)
print("checks:", [c["property_id"] for c in m["checks"]], "not applicable:", [n["property_id"] for n in m["not_applicable"]])

#!/bin/bash
# try_mutant.sh <patch.diff> <property> [budget_s] [nproc]: applies the patch to a scratch copy of /repo and runs the property's
# quick check against it (evidence and replays go to /var/tmp/mutant-evidence, never to /verif/evidence).
set -u
PATCH=$(readlink -f $1); PROP=$2; BUDGET=${3:-20}; NPROC=${4:-8}
M=$(mktemp -d /var/tmp/mutrepo.XXXX); trap 'rm -rf $M' EXIT
rsync -a --exclude .git /repo/ $M/
( cd $M && patch -p1 -s < $PATCH ) || { echo "patch does not apply"; exit 3; }
mkdir -p /var/tmp/mutant-evidence
VERIF_REPO=$M VERIF_EVIDENCE_DIR=/var/tmp/mutant-evidence VERIF_REPLAY_DIR=/var/tmp/mutant-evidence VERIF_QUICK_S=$BUDGET VERIF_NPROC=$NPROC /verif/check $PROP quick 2>&1 | cut -c1-1200 | tail -6

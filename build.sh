#!/bin/bash
# build.sh <scratch dir> <world package>...: copies /repo's working tree to
# <scratch>/repo, instruments it and builds one test binary per world package
# as <scratch>/<world>.test. Exit 2 on any build trouble.
set -u
SCR=$1; shift
export PATH=/opt/veriftools/go1.26.8/bin:$PATH
export GOFLAGS=-mod=mod GOPROXY=off GOSUMDB=off GOTOOLCHAIN=local CGO_ENABLED=0
REPO=${VERIF_REPO:-/repo}
HERE=$(cd "$(dirname "$0")" && pwd)
mkdir -p "$SCR/repo" || exit 2
rsync -a --delete --exclude .git --exclude '*_test.go' --exclude node_modules --exclude bazel-'*' --exclude /pkg/verifsim "$REPO"/ "$SCR/repo/" || exit 2
mkdir -p "$SCR/repo/pkg/verifsim"
rsync -a "$HERE/sim/" "$SCR/repo/pkg/verifsim/" || exit 2
# Dependencies of the worlds that the repository itself does not have: they are
# added to the scratch copy's go.mod only (never to $REPO). The exact version is
# in the module cache; with -mod=mod and GOSUMDB=off the go command adds the
# go.sum lines from the cache, no network involved.
(cd "$SCR/repo" && go mod edit -require=github.com/anishathalye/porcupine@v1.3.0) || { echo "build.sh: cannot add the porcupine requirement to the scratch go.mod" >&2; exit 2; }
if [ ! -x "$HERE/bin/simrewrite" ] || [ "$HERE/simrewrite/main.go" -nt "$HERE/bin/simrewrite" ]; then
  (cd "$HERE/simrewrite" && go build -o "$HERE/bin/simrewrite" .) || { echo "build.sh: cannot build simrewrite" >&2; exit 2; }
fi
(cd "$SCR/repo" && "$HERE/bin/simrewrite" "$SCR/repo" ./pkg/scheduler/... ./pkg/builder/... ./pkg/blobstore/... ./pkg/cas/... ./pkg/cleaner/... ./pkg/clock/... ./pkg/sync/... ./pkg/filesystem/... ./pkg/runner/... ./pkg/util/...) || { echo "build.sh: simrewrite failed" >&2; exit 2; }
COVER=()
if [ -n "${VERIF_COVER:-}" ]; then
  # reach report: statement coverage of the repository's own packages (not of the simulator)
  COVER=(-cover -covermode=set -coverpkg=./pkg/scheduler/...,./pkg/builder/...,./pkg/blobstore/...,./pkg/cas/...,./pkg/cleaner/...,./pkg/clock/...,./pkg/sync/...,./pkg/filesystem/...,./pkg/runner/...,./pkg/util/...)
fi
for w in "$@"; do
  (cd "$SCR/repo" && go test -c -tags verif -vet=off "${COVER[@]}" -o "$SCR/$w.test" ./pkg/verifsim/$w) || { echo "build.sh: building world $w failed" >&2; exit 2; }
done

#!/bin/bash
# eval_mutant.sh <id>...: confirm each seeded change independently and run the property's quick check against it.
for m in "$@"; do
  p=${m%-*}
  /verif/confirm_mutant.py /tmp/mut/out/$m > /var/tmp/confirm-$m.json 2>&1
  conf=$(python3 -c "import json;print(json.load(open('/var/tmp/confirm-$m.json')).get('confirmed'))" 2>/dev/null)
  /verif/try_mutant.sh /tmp/mut/out/$m/patch.diff $p ${BUDGET:-25} ${NPROC:-8} > /var/tmp/try-$m.txt 2>&1
  rule=$(grep -m1 '^rule=' /var/tmp/try-$m.txt | cut -c1-120)
  res=$(grep -c '^VIOLATION' /var/tmp/try-$m.txt)
  echo "$m confirmed=$conf detected=$res $rule | $(tail -1 /var/tmp/try-$m.txt | cut -c1-160)" >> /var/tmp/mutant-results.txt
done

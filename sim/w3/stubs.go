package w3

import (
	"context"
	"fmt"
	"time"
	"unsafe"

	remoteexecution "github.com/bazelbuild/remote-apis/build/bazel/remote/execution/v2"
	"github.com/buildbarn/bb-remote-execution/pkg/builder"
	"github.com/buildbarn/bb-remote-execution/pkg/filesystem/access"
	"github.com/buildbarn/bb-remote-execution/pkg/filesystem/pool"
	"github.com/buildbarn/bb-remote-execution/pkg/proto/remoteworker"
	"github.com/buildbarn/bb-remote-execution/pkg/verifsim/simenv"
	"github.com/buildbarn/bb-remote-execution/pkg/verifsim/simsync"
	"github.com/buildbarn/bb-storage/pkg/clock"
	"github.com/buildbarn/bb-storage/pkg/digest"
	status_pb "google.golang.org/genproto/googleapis/rpc/status"
	"google.golang.org/grpc"
	"google.golang.org/grpc/codes"
	"google.golang.org/grpc/status"
	"google.golang.org/protobuf/proto"
	"google.golang.org/protobuf/types/known/anypb"
	"google.golang.org/protobuf/types/known/durationpb"
	"google.golang.org/protobuf/types/known/emptypb"
	"google.golang.org/protobuf/types/known/timestamppb"
	"google.golang.org/protobuf/types/known/wrapperspb"
)

// ---------------------------------------------------------------------------
// Clock: the worker's skewed view of simulated time. Timer.Stop() is a park
// point: Run() calls it right after it received an execution update and
// before it drains the update channel without blocking, so the executor
// goroutine that was woken by that receive (`updates <- completed;
// close(updates)` in build_client.go) has finished before the thread looks at
// the channel again. Without it the outcome of that look would depend on the
// Go scheduler.
// ---------------------------------------------------------------------------

type workerClock struct {
	*simenv.SimClock
	w *world
}

type workerTimer struct {
	clock.Timer
	w *world
}

func (c *workerClock) NewTimer(d time.Duration) (clock.Timer, <-chan time.Time) {
	t, ch := c.SimClock.NewTimer(d)
	c.w.inSelect = true
	c.w.orc.onTimer(d)
	return &workerTimer{Timer: t, w: c.w}, ch
}

func (t *workerTimer) Stop() bool {
	r := t.Timer.Stop()
	t.w.inSelect = false
	t.w.k.Yield("timer-stop")
	return r
}

// ---------------------------------------------------------------------------
// Scheduler: remoteworker.OperationQueueClient whose every reply comes from
// the tape.
// ---------------------------------------------------------------------------

type replyKind int

const (
	replyExecute replyKind = iota
	replyIdle
	replyNoChange
)

func (k replyKind) String() string {
	return [...]string{"execute", "idle", "no-change"}[k]
}

type outcomeKind int

const (
	outValid        outcomeKind = iota // reply delivered and well-formed
	outRPCError                        // transport error, reply (if any) lost
	outCtxError                        // the call's context was cancelled while in flight
	outBadTimestamp                    // reply with missing/invalid next_synchronization_at
	outUnknownState                    // DesiredState without a known worker_state
	outBadExecute                      // execute request the worker must reject (instance name / digest function)
)

func (k outcomeKind) String() string {
	return [...]string{"valid", "rpc-error", "ctx-cancelled", "bad-timestamp", "unknown-desired-state", "bad-execute"}[k]
}

type outcome struct {
	kind  outcomeKind
	reply replyKind
	nsa   time.Time
	exec  *remoteworker.DesiredState_Executing
	// sameDigest: the execute request is a new task for the action digest the
	// worker reported in the request being answered.
	sameDigest bool
}

type scriptedScheduler struct {
	w       *world
	actions int // distinct action digests handed out
	tasks   int // tasks handed out
}

// newExecute builds the execute request of a new task. Tasks are told apart by
// their serial number (carried in auxiliary_metadata and by the identity of
// the request message), never by digest: with again != nil the new task is for
// the very action the worker is reporting (the same uncacheable action handed
// to the same worker twice in a row).
func (s *scriptedScheduler) newExecute(valid bool, again *remoteexecution.Digest) *remoteworker.DesiredState_Executing {
	t := s.w.t
	s.tasks++
	d := again
	if d == nil {
		s.actions++
		d = &remoteexecution.Digest{Hash: fmt.Sprintf("%064x", s.actions), SizeBytes: int64(100 + s.actions)}
	}
	serial, err := anypb.New(wrapperspb.UInt32(uint32(s.tasks)))
	if err != nil {
		panic(simsync.HarnessError{Msg: err.Error()})
	}
	e := &remoteworker.DesiredState_Executing{
		ActionDigest:       d,
		AuxiliaryMetadata:  []*anypb.Any{serial},
		Action:             &remoteexecution.Action{Timeout: durationpb.New(time.Hour)},
		InstanceNameSuffix: pick(t, []string{"", "sfx", "a/b"}),
		DigestFunction:     remoteexecution.DigestFunction_SHA256,
		QueuedTimestamp:    timestamppb.New(s.w.root.Global()),
	}
	if !valid {
		switch t.Choice(3) {
		case 0:
			e.InstanceNameSuffix = "x//y"
		case 1:
			e.InstanceNameSuffix = "blobs"
		case 2:
			e.DigestFunction = remoteexecution.DigestFunction_Value(999)
		}
	}
	return e
}

func (s *scriptedScheduler) Synchronize(ctx context.Context, req *remoteworker.SynchronizeRequest, opts ...grpc.CallOption) (*remoteworker.SynchronizeResponse, error) {
	w := s.w
	t := w.t
	w.inSelect = false
	w.syncs++
	if w.syncs >= w.maxSyncs && !w.draining {
		w.k.StopRequested = true
	}
	snap := w.orc.onRequest(ctx, req)

	// The call is in flight; the controller decides when (and how) it ends.
	opt := w.k.SeamW("sync", w.syncWeight, w.faultWeight, "reply", "rpc-error", "bad-timestamp", "unknown-state", "bad-execute")
	if err := ctx.Err(); err != nil {
		// gRPC fails a call whose context is cancelled.
		w.orc.onOutcome(snap, outcome{kind: outCtxError})
		return nil, status.FromContextError(err).Err()
	}
	now := w.root.Global()
	out := outcome{kind: [...]outcomeKind{outValid, outRPCError, outBadTimestamp, outUnknownState, outBadExecute}[opt]}

	if w.draining {
		// Cooperative scheduler: let a finite action finish and report,
		// otherwise force idle.
		out.kind = outValid
		out.nsa = now.Add(time.Second)
		if snap.executing && !snap.completed && w.orc.curIsFinite() && w.drainReplies < 25 {
			out.reply = replyNoChange
		} else {
			out.reply = replyIdle
		}
		w.drainReplies++
		w.orc.onOutcome(snap, out)
		return s.build(out), nil
	}

	// What the scheduler wants.
	weights := []int{6, 3, 4} // execute, idle, no-change
	if snap.executing && !snap.completed {
		weights = []int{3, 2, 8}
	}
	if req.PreferBeingIdle {
		// A conforming scheduler does not hand work to a worker that asks
		// to be idle; a non-conforming one (fault) may.
		weights[0] = 0
		if !w.faultFree {
			weights[0] = 1
		}
	}
	out.reply = replyKind(t.Weighted(weights))
	if out.reply == replyExecute && req.PreferBeingIdle {
		w.k.FaultsFired["execute-despite-prefer-idle"]++
	}
	// When the worker should come back.
	deltas := []time.Duration{time.Second, 0, 10 * time.Second, 45 * time.Second, -5 * time.Second, 1000 * time.Hour}
	if w.faultFree {
		deltas = deltas[:4]
	}
	di := t.Weighted([]int{6, 2, 4, 2, 1, 1}[:len(deltas)])
	if di >= 4 {
		w.k.FaultsFired[[]string{"", "", "", "", "past-timestamp", "far-future-timestamp"}[di]]++
	}
	out.nsa = now.Add(deltas[di])

	switch out.kind {
	case outRPCError:
		w.orc.onOutcome(snap, out)
		return nil, status.Error(pick(t, []codes.Code{codes.Unavailable, codes.Internal, codes.DeadlineExceeded}), "injected transport failure")
	case outBadExecute:
		out.reply = replyExecute
		out.exec = s.newExecute(false, nil)
	case outUnknownState:
	default:
		if out.reply == replyExecute {
			// A new task may be for the action the worker is reporting
			// (running or completed) or for one it ran earlier.
			var again *remoteexecution.Digest
			if snap.digest != nil && t.Bool(2, 5) {
				again = proto.Clone(snap.digest).(*remoteexecution.Digest)
				out.sameDigest = true
			}
			out.exec = s.newExecute(true, again)
		}
	}
	resp := s.build(out)
	if out.kind == outBadTimestamp {
		switch t.Choice(3) {
		case 0:
			resp.NextSynchronizationAt = nil
		case 1:
			resp.NextSynchronizationAt = &timestamppb.Timestamp{Seconds: 1 << 40}
		case 2:
			resp.NextSynchronizationAt = &timestamppb.Timestamp{Seconds: now.Unix(), Nanos: -7}
		}
	}
	w.orc.onOutcome(snap, out)
	return resp, nil
}

func (s *scriptedScheduler) build(out outcome) *remoteworker.SynchronizeResponse {
	resp := &remoteworker.SynchronizeResponse{NextSynchronizationAt: timestamppb.New(out.nsa)}
	if out.kind == outUnknownState {
		resp.DesiredState = &remoteworker.DesiredState{}
		return resp
	}
	switch out.reply {
	case replyExecute:
		resp.DesiredState = &remoteworker.DesiredState{WorkerState: &remoteworker.DesiredState_Executing_{Executing: out.exec}}
	case replyIdle:
		resp.DesiredState = &remoteworker.DesiredState{WorkerState: &remoteworker.DesiredState_Idle{Idle: &emptypb.Empty{}}}
	}
	return resp
}

// ---------------------------------------------------------------------------
// Executor: instrumented builder.BuildExecutor.
// ---------------------------------------------------------------------------

type instrumentedExecutor struct {
	w *world
}

func (e *instrumentedExecutor) CheckReadiness(ctx context.Context) error {
	w := e.w
	w.orc.onReadinessCall()
	opt := w.k.SeamW("readiness", 10, 1+w.faultWeight, "ready", "not-ready")
	if err := ctx.Err(); err != nil {
		w.orc.onReadinessResult(false, "ctx-cancelled")
		return status.FromContextError(err).Err()
	}
	if opt == 1 {
		w.orc.onReadinessResult(false, "not-ready")
		return status.Error(codes.Unavailable, "injected: runner not ready")
	}
	w.orc.onReadinessResult(true, "ready")
	return nil
}

type execScript struct {
	updates     int
	result      int  // 0 ok, 1 exit code 1, 2 non-OK status
	untilCancel bool // after its updates the action runs until cancelled
	obey        int  // 0 stops promptly when cancelled, 1 slowly, 2 ignores cancellation (finite scripts only)
	latency     int
}

func (s execScript) String() string {
	return fmt.Sprintf("updates=%d result=%s untilCancel=%v obey=%s latency=%d", s.updates, [...]string{"ok", "exit1", "non-ok"}[s.result], s.untilCancel, [...]string{"prompt", "slow", "ignore"}[s.obey], s.latency)
}

var updateStates = []func() *remoteworker.CurrentState_Executing{
	func() *remoteworker.CurrentState_Executing {
		return &remoteworker.CurrentState_Executing{ExecutionState: &remoteworker.CurrentState_Executing_FetchingInputs{FetchingInputs: &emptypb.Empty{}}}
	},
	func() *remoteworker.CurrentState_Executing {
		return &remoteworker.CurrentState_Executing{ExecutionState: &remoteworker.CurrentState_Executing_Running{Running: &emptypb.Empty{}}}
	},
	func() *remoteworker.CurrentState_Executing {
		return &remoteworker.CurrentState_Executing{ExecutionState: &remoteworker.CurrentState_Executing_UploadingOutputs{UploadingOutputs: &emptypb.Empty{}}}
	},
}

func (e *instrumentedExecutor) Execute(ctx context.Context, filePool pool.FilePool, monitor access.UnreadDirectoryMonitor, digestFunction digest.Function, request *remoteworker.DesiredState_Executing, updates chan<- *remoteworker.CurrentState_Executing) *remoteexecution.ExecuteResponse {
	w := e.w
	t := w.t
	k := w.k
	// We were just resumed from the actor's "start" park point.
	if w.abandon {
		return builder.NewDefaultExecuteResponse(request)
	}
	var sc execScript
	sc.updates = pick(t, []int{2, 0, 1, 3, 5, 10, 11, 12})
	sc.result = t.Weighted([]int{6, 2, 5})
	sc.untilCancel = t.Bool(1, 4)
	sc.obey = t.Weighted([]int{4, 5, 1})
	sc.latency = 1 + t.Choice(6)
	if sc.untilCancel && sc.obey == 2 {
		sc.obey = 1
	}
	act := w.orc.onExecEnter(ctx, request, digestFunction, sc)
	// outer is the 10-slot channel BuildClient reads. Without the decorator
	// it is `updates` itself; with it, `updates` is the decorator's
	// unbuffered channel and its goroutine forwards to outer.
	outer := act.outer
	if outer == nil {
		outer = updates
	}
	abandoned := func() *remoteexecution.ExecuteResponse {
		return builder.NewDefaultExecuteResponse(request)
	}

	cancelled := func() bool {
		if ctx.Err() == nil {
			return false
		}
		if !act.seenCancel {
			act.seenCancel = true
			w.orc.note("executor #%d observes cancellation (reaction: %s)", act.n, [...]string{"prompt", "slow", "ignore"}[sc.obey])
			k.Probe("executor-observes-cancellation:" + [...]string{"prompt", "slow", "ignore"}[sc.obey])
		}
		return sc.obey != 2
	}
	stopping := cancelled()
	for i := 0; i < sc.updates && !stopping; i++ {
		k.SeamW("exec-step", w.execWeight, 0)
		if w.abandon {
			return abandoned()
		}
		if w.decorated && act.forwardMayBeBlocked && len(outer) == cap(outer) {
			// The decorator's goroutine may still sit in its forwarding
			// send of our previous update. A second update handed to it
			// now would be forwarded in the very step in which the thread
			// frees it, concurrently with the thread's non-blocking drain.
			k.SeamWhen("exec-forward-wait", func() bool { return len(outer) < cap(outer) || ctx.Err() != nil || w.abandon })
			if w.abandon {
				return abandoned()
			}
		}
		if stopping = cancelled(); stopping {
			break
		}
		u := updateStates[i%len(updateStates)]()
		u.ActionDigest = request.ActionDigest
		full := len(outer) == cap(outer)
		act.forwardMayBeBlocked = full
		w.orc.onUpdateSent(act, u, full)
		// May block while the 10-slot channel is full (directly, or in the
		// decorator's goroutine). Nothing below touches shared state before
		// the next park point.
		updates <- u
	}
	if !stopping {
		if sc.untilCancel {
			k.SeamWhen("exec-wait-cancel", func() bool { return ctx.Err() != nil || w.abandon })
		} else {
			k.SeamW("exec-finish", w.execWeight, 0)
		}
		if w.abandon {
			return abandoned()
		}
		stopping = cancelled()
	}
	if stopping && sc.obey == 1 {
		// Winding down (killing the process, cleaning the build directory)
		// takes a drawn number of steps.
		for i := 0; i < sc.latency; i++ {
			k.Yield("exec-stopping")
			if w.abandon {
				return abandoned()
			}
			act.windDownSteps++
			k.Probe("wind-down-step")
		}
	}
	cancelledNow := ctx.Err() != nil
	resp := builder.NewDefaultExecuteResponse(request)
	resp.Message = fmt.Sprintf("marker:act#%d", act.n)
	switch {
	case stopping:
		resp.Status = &status_pb.Status{Code: int32(codes.Canceled), Message: "cancelled " + resp.Message}
	case sc.result == 1:
		resp.Result.ExitCode = 1
	case sc.result == 2:
		resp.Status = &status_pb.Status{Code: int32(codes.Internal), Message: "failed " + resp.Message}
	}
	w.orc.onExecReturn(act, resp, cancelledNow, len(outer) == cap(outer))
	return resp
}

// ---------------------------------------------------------------------------
// stackExecutor is what BuildClient gets: a transparent shim around the
// executor stack (the real TimestampedBuildExecutor over the instrumented
// executor, or the instrumented executor alone). It records entry and return
// of the stack's Execute() and the channel BuildClient reads, and holds the
// gate of the return.
// ---------------------------------------------------------------------------

type stackExecutor struct {
	w    *world
	base builder.BuildExecutor
}

func (s *stackExecutor) CheckReadiness(ctx context.Context) error {
	return s.base.CheckReadiness(ctx)
}

func (s *stackExecutor) Execute(ctx context.Context, filePool pool.FilePool, monitor access.UnreadDirectoryMonitor, digestFunction digest.Function, request *remoteworker.DesiredState_Executing, updates chan<- *remoteworker.CurrentState_Executing) *remoteexecution.ExecuteResponse {
	w := s.w
	if w.abandon {
		return builder.NewDefaultExecuteResponse(request)
	}
	// Same channel, seen from the receiving side; only used by
	// world.cleanup() after the verdict is final.
	act := w.orc.onStackEnter(request, updates, *(*chan *remoteworker.CurrentState_Executing)(unsafe.Pointer(&updates)))
	resp := s.base.Execute(ctx, filePool, monitor, digestFunction, request, updates)
	w.orc.onStackReturn(act)
	// Gate of the return: build_client.go follows Execute() by `updates <-
	// completed; close(updates)` without a park point in between. If that
	// send blocked on a full channel while the thread sits between its first
	// receive and consumeExecutionUpdatesNonBlocking(), the close would race
	// with the thread's non-blocking drain (Go scheduler nondeterminism that
	// the simulator cannot own). All other positions of the thread are
	// deterministic (see meta.json assumptions).
	w.k.SeamWhen("exec-return", func() bool {
		return len(updates) < cap(updates) || w.thread.TicketLabel() != "timer-stop" || w.abandon
	})
	if !w.abandon {
		act.released = true
	}
	return resp
}

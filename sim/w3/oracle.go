package w3

import (
	"context"
	"fmt"
	"strings"
	"sync"
	"time"

	remoteexecution "github.com/bazelbuild/remote-apis/build/bazel/remote/execution/v2"
	"github.com/buildbarn/bb-remote-execution/pkg/proto/remoteworker"
	"github.com/buildbarn/bb-storage/pkg/digest"
	"google.golang.org/grpc/status"
)

// activation is one execute request the scheduler handed out in a well-formed
// reply, i.e. one executor goroutine the worker is expected to start.
type activation struct {
	n       int
	hash    string
	request *remoteworker.DesiredState_Executing
	script  execScript

	ctx         context.Context
	outer       chan<- *remoteworker.CurrentState_Executing // the channel BuildClient reads
	updatesRecv chan *remoteworker.CurrentState_Executing   // same, for cleanup()
	// stackEntered/stackReturned: Execute() of the executor stack handed to
	// BuildClient; entered/returned: Execute() of the innermost executor.
	stackEntered        bool
	stackReturned       bool
	released            bool // the stack's Execute() has passed the shim's return gate: the completion is on its way to BuildClient
	forwardMayBeBlocked bool
	windDownSteps       int
	entered             bool
	returned    bool
	// liveAtSupersede: the scheduler replaced this activation (execute or
	// idle reply) while it had not returned yet, so the worker must cancel it.
	superseded      bool
	liveAtSupersede bool
	seenCancel      bool
	resp            *remoteexecution.ExecuteResponse
	nonOK           bool

	updates           map[*remoteworker.CurrentState_Executing]int
	sent              int
	lastReported      int // -1: the worker's own "started"
	completedReported bool
	requestsSinceDone int
}

type requestSnap struct {
	seq         int
	idle        bool
	executing   bool
	completed   bool
	completedOK bool
	preferIdle  bool
	digest      *remoteexecution.Digest // action digest of a reported executing state
	afterSD     bool
	desc        string
}

func (s requestSnap) solicits() bool { return !s.preferIdle && (s.idle || s.completed) }

// oracle is the reference automaton for C08. All its methods are called by
// exactly one running actor at a time (see the concurrency notes in stubs.go);
// the mutex only guards the history log against the executor goroutine's tail.
type oracle struct {
	w  *world
	mu sync.Mutex

	history []string

	acts []*activation
	// cur is the activation the scheduler last asked for in a well-formed
	// reply and has not replaced by idle; nil means "told to be idle / never
	// given work".
	cur *activation

	// belief: may the scheduler think the worker is executing something?
	belief bool
	// lastNSA is the next_synchronization_at of the last well-formed reply
	// (initially the construction time of the client).
	lastNSA time.Time

	// needReadiness: a non-OK completion has been reported and no successful
	// readiness check has happened since.
	needReadiness   bool
	needReadinessBy int

	lastOutcome string

	// statistics
	requests            int
	started             int
	preemptions         int
	shutdownWhileBelief bool
	requestsAfterSD     int
}

func newOracle(w *world) *oracle {
	return &oracle{w: w, lastOutcome: "none"}
}

func (o *oracle) note(format string, args ...interface{}) {
	s := fmt.Sprintf(format, args...)
	o.mu.Lock()
	o.history = append(o.history, fmt.Sprintf("[step %d t=+%s] %s", o.w.k.Step, o.w.root.Global().Sub(startTime), s))
	o.mu.Unlock()
	o.w.k.Annotate("%s", s)
}

func (o *oracle) historyTail(n int) string {
	o.mu.Lock()
	defer o.mu.Unlock()
	h := o.history
	if len(h) > n {
		h = h[len(h)-n:]
	}
	return "  " + strings.Join(h, "\n  ")
}

func (o *oracle) liveCount() int {
	n := 0
	for _, a := range o.acts {
		if a.entered && !a.returned {
			n++
		}
	}
	return n
}

func (o *oracle) curIsFinite() bool {
	return o.cur != nil && !(o.cur.entered && o.cur.script.untilCancel)
}

func (a *activation) String() string {
	st := "not-entered"
	switch {
	case a.returned:
		st = "returned"
	case a.entered:
		st = "running"
	}
	return fmt.Sprintf("task#%d(%s..,%s)", a.n, a.hash[56:], st)
}

// ---------------------------------------------------------------------------
// Executor events
// ---------------------------------------------------------------------------

func (o *oracle) onExecEnter(ctx context.Context, request *remoteworker.DesiredState_Executing, df digest.Function, sc execScript) *activation {
	w := o.w
	var act *activation
	for _, a := range o.acts {
		if a.request == request {
			act = a
		}
	}
	if act == nil || act.n >= 1000 {
		// Execute() for something the scheduler never handed out in a
		// well-formed reply (rejected or duplicated request).
		if act == nil {
			act = &activation{n: 1000 + len(o.acts), hash: request.GetActionDigest().GetHash() + strings.Repeat("?", 64), request: request, updates: map[*remoteworker.CurrentState_Executing]int{}, lastReported: -1}
			o.acts = append(o.acts, act)
		}
		w.violate("C08/executes-unrequested", fmt.Sprintf("the executor was started for action %s, which the worker had to reject or was never asked to run", request.GetActionDigest().GetHash()))
	}
	if act.entered {
		w.violate("C08/executed-twice", fmt.Sprintf("the executor was started a second time for %s", act))
	}
	act.entered = true
	act.ctx = ctx
	act.script = sc
	o.started++
	o.note("executor ENTER %s ctx-cancelled=%v script{%s}", act, ctx.Err() != nil, sc)
	for _, a := range o.acts {
		if a != act && a.entered && !a.returned {
			w.violate("C08/executions-overlap", fmt.Sprintf("Execute() of %s was entered while %s had not returned: the worker runs two actions at once", act, a))
		}
	}
	for _, a := range o.acts {
		if a.n < act.n && !a.returned {
			w.violate("C08/started-before-previous-stopped", fmt.Sprintf("Execute() of %s was entered although the earlier %s has not fully stopped", act, a))
		}
		if a.n < act.n && a.liveAtSupersede && a.ctx != nil && a.ctx.Err() == nil {
			w.violate("C08/previous-not-cancelled", fmt.Sprintf("Execute() of %s was entered, but the context of %s, which was still running when the scheduler replaced it, was never cancelled", act, a))
		}
	}
	if ctx.Err() != nil {
		w.k.Probe("executor-entered-already-cancelled")
	}
	return act
}

// onStackEnter/onStackReturn are called by the shim BuildClient talks to.
func (o *oracle) onStackEnter(request *remoteworker.DesiredState_Executing, outer chan<- *remoteworker.CurrentState_Executing, recv chan *remoteworker.CurrentState_Executing) *activation {
	var act *activation
	for _, a := range o.acts {
		if a.request == request {
			act = a
		}
	}
	if act == nil {
		// The innermost executor reports C08/executes-unrequested.
		act = &activation{n: 1000 + len(o.acts), hash: request.GetActionDigest().GetHash() + strings.Repeat("?", 64), request: request, updates: map[*remoteworker.CurrentState_Executing]int{}, lastReported: -1}
		o.acts = append(o.acts, act)
	}
	act.outer = outer
	act.updatesRecv = recv
	act.stackEntered = true
	o.note("executor stack ENTER %s", act)
	return act
}

func (o *oracle) onStackReturn(act *activation) {
	if o.w.abandon {
		return
	}
	act.stackReturned = true
	o.note("executor stack RETURN %s", act)
	if act.entered && !act.returned {
		// Only a broken stack does this; the rules fire at the next
		// Execute entry / request.
		o.w.k.Probe("stack-returned-before-inner-executor")
	}
}

func (o *oracle) onUpdateSent(act *activation, u *remoteworker.CurrentState_Executing, full bool) {
	act.updates[u] = act.sent
	o.note("executor %s sends update %d%s", act, act.sent, map[bool]string{true: " (channel full: send blocks)", false: ""}[full])
	act.sent++
	if full {
		o.w.k.Probe("update-channel-full")
	}
	if act.sent > 10 {
		o.w.k.Probe("more-than-10-updates")
	}
}

func (o *oracle) onExecReturn(act *activation, resp *remoteexecution.ExecuteResponse, cancelled, full bool) {
	act.returned = true
	act.resp = resp
	act.nonOK = status.ErrorProto(resp.Status) != nil
	o.note("executor RETURN %s status=%s exit=%d ctx-cancelled=%v", act, status.FromProto(resp.Status).Code(), resp.Result.ExitCode, cancelled)
	if !cancelled {
		o.w.k.Probe("executor-finished-naturally")
	}
	if act.liveAtSupersede {
		o.w.k.Probe("preempted-action-fully-stopped")
		if act.windDownSteps > 0 {
			o.w.k.Probe("preempted-action-fully-stopped-after-slow-wind-down")
		}
		if o.w.thread.Blocked() && !o.w.inSelect {
			o.w.k.Probe("thread-was-waiting-for-preempted-action-to-stop")
		}
	}
	if full {
		o.w.k.Probe("completion-send-blocks-on-full-channel")
	}
}

// ---------------------------------------------------------------------------
// Readiness
// ---------------------------------------------------------------------------

func (o *oracle) onReadinessCall() {
	o.w.inSelect = false
}

func (o *oracle) onReadinessResult(ok bool, why string) {
	o.note("readiness check -> %s", why)
	if ok {
		if o.needReadiness {
			o.w.k.Probe("readiness-rechecked-after-failure")
		}
		o.needReadiness = false
	} else {
		o.w.k.Probe("readiness-failed:" + why)
	}
}

// ---------------------------------------------------------------------------
// Synchronize
// ---------------------------------------------------------------------------

func (o *oracle) onTimer(d time.Duration) {
	if d <= 0 {
		o.w.k.Probe("timer-already-due")
	}
}

func describeState(cs *remoteworker.CurrentState) string {
	switch st := cs.GetWorkerState().(type) {
	case *remoteworker.CurrentState_Idle:
		return "idle"
	case *remoteworker.CurrentState_Executing_:
		h := st.Executing.GetActionDigest().GetHash()
		if len(h) > 8 {
			h = h[len(h)-8:]
		}
		switch es := st.Executing.ExecutionState.(type) {
		case *remoteworker.CurrentState_Executing_Started:
			return "executing(" + h + ",started)"
		case *remoteworker.CurrentState_Executing_FetchingInputs:
			return "executing(" + h + ",fetching)"
		case *remoteworker.CurrentState_Executing_Running:
			return "executing(" + h + ",running)"
		case *remoteworker.CurrentState_Executing_UploadingOutputs:
			return "executing(" + h + ",uploading)"
		case *remoteworker.CurrentState_Executing_Completed:
			return fmt.Sprintf("executing(%s,completed{%s %s})", h, es.Completed.GetMessage(), status.FromProto(es.Completed.GetStatus()).Code())
		}
		return "executing(" + h + ",?)"
	}
	return "none"
}

func (o *oracle) onRequest(ctx context.Context, req *remoteworker.SynchronizeRequest) requestSnap {
	w := o.w
	k := w.k
	o.requests++
	snap := requestSnap{seq: o.requests, preferIdle: req.PreferBeingIdle, afterSD: w.shutdown, desc: describeState(req.CurrentState)}
	o.note("REQUEST %d state=%s prefer_being_idle=%v ctx-cancelled=%v (model: cur=%v belief=%v)", snap.seq, snap.desc, req.PreferBeingIdle, ctx.Err() != nil, o.cur, o.belief)

	// --- one action at a time: whatever the scheduler replaced has fully stopped
	for _, a := range o.acts {
		if a == o.cur {
			continue
		}
		if !a.returned {
			w.violate("C08/not-stopped", fmt.Sprintf("request %d was sent while %s, which the scheduler replaced by another action or by idle, has not fully stopped", snap.seq, a))
		} else if a.liveAtSupersede && a.ctx != nil && a.ctx.Err() == nil {
			w.violate("C08/previous-not-cancelled", fmt.Sprintf("request %d: %s was still running when the scheduler replaced it, but its context was never cancelled", snap.seq, a))
		}
	}

	// --- honest state
	switch st := req.CurrentState.GetWorkerState().(type) {
	case *remoteworker.CurrentState_Idle:
		snap.idle = true
		if cur := o.cur; cur != nil {
			switch {
			case cur.completedReported:
				// Reported and acknowledged; calling that idle is honest.
				o.cur = nil
			case !cur.released:
				w.violate("C08/reports-idle-while-running", fmt.Sprintf("request %d claims the worker is idle, but the scheduler asked for %s, never withdrew it, and it has not finished", snap.seq, cur))
			default:
				w.violate("C08/completion-lost", fmt.Sprintf("request %d claims the worker is idle, but %s finished and its completion was never reported", snap.seq, cur))
			}
		}
		if n := o.liveCount(); n > 0 && !k.Failed() {
			w.violate("C08/reports-idle-while-running", fmt.Sprintf("request %d claims the worker is idle while %d executor activation(s) are running", snap.seq, n))
		}
	case *remoteworker.CurrentState_Executing_:
		snap.executing = true
		ex := st.Executing
		snap.digest = ex.GetActionDigest()
		cur := o.cur
		if cur == nil {
			w.violate("C08/reports-executing-while-idle", fmt.Sprintf("request %d reports %s, but the scheduler's last instruction was to be idle (or it never gave work)", snap.seq, snap.desc))
			break
		}
		if ex.GetActionDigest().GetHash() != cur.hash {
			w.violate("C08/reports-wrong-action", fmt.Sprintf("request %d reports %s, but the action the worker was last told to run is %s", snap.seq, snap.desc, cur))
			break
		}
		if completed, ok := ex.ExecutionState.(*remoteworker.CurrentState_Executing_Completed); ok {
			snap.completed = true
			snap.completedOK = status.ErrorProto(completed.Completed.GetStatus()) == nil
			var other *activation
			for _, a := range o.acts {
				if a != cur && a.resp != nil && a.resp == completed.Completed {
					other = a
				}
			}
			switch {
			case other != nil:
				w.violate("C08/completion-of-another-execution", fmt.Sprintf("request %d reports %s as the completion of task %s, but that response was returned by the execution of task %s (same digest or not, the scheduler handed %s out as a new task)", snap.seq, snap.desc, cur, other, cur))
			case !cur.entered:
				w.violate("C08/completion-of-task-never-run", fmt.Sprintf("request %d reports %s although the executor was never started for task %s", snap.seq, snap.desc, cur))
			case !cur.returned:
				w.violate("C08/completion-before-finish", fmt.Sprintf("request %d reports %s although %s has not returned", snap.seq, snap.desc, cur))
			case completed.Completed != cur.resp:
				w.violate("C08/completion-of-another-execution", fmt.Sprintf("request %d reports completion %q for %s, whose executor returned %q", snap.seq, completed.Completed.GetMessage(), cur, cur.resp.GetMessage()))
			default:
				if !cur.completedReported {
					k.Probe(map[bool]string{true: "completion-reported-ok", false: "completion-reported-non-ok"}[snap.completedOK])
				}
				if !snap.completedOK && !cur.completedReported {
					// First report of a failure with a non-OK status.
					o.needReadiness = true
					o.needReadinessBy = cur.n
				}
				cur.completedReported = true
			}
			break
		}
		// A progress report: the worker's own "started" or one of the
		// updates this activation emitted, never older than the previous
		// report.
		idx, mine := cur.updates[ex]
		if !mine {
			idx = -1
			if _, ok := ex.ExecutionState.(*remoteworker.CurrentState_Executing_Started); !ok {
				foreign := false
				for _, a := range o.acts {
					if _, ok := a.updates[ex]; ok {
						foreign = true
						w.violate("C08/foreign-update", fmt.Sprintf("request %d reports %s using an update emitted by %s, not by the current %s", snap.seq, snap.desc, a, cur))
					}
				}
				if !foreign {
					w.violate("C08/invented-update", fmt.Sprintf("request %d reports %s, which the executor of %s never emitted", snap.seq, snap.desc, cur))
				}
			}
		}
		if cur.completedReported || idx < cur.lastReported {
			w.violate("C08/report-regressed", fmt.Sprintf("request %d reports %s (update index %d) after a later state of %s (index %d, completed=%v) had been reported", snap.seq, snap.desc, idx, cur, cur.lastReported, cur.completedReported))
		}
		cur.lastReported = idx
		if cur.released {
			cur.requestsSinceDone++
			if cur.requestsSinceDone >= 2 {
				w.violate("C08/completion-not-reported", fmt.Sprintf("%s returned, but %d requests issued since still report it as running (%s)", cur, cur.requestsSinceDone, snap.desc))
			}
		}
	default:
		w.violate("C08/no-state", fmt.Sprintf("request %d carries no worker state", snap.seq))
	}

	// --- non-OK completion: stay idle until readiness was re-checked
	if o.needReadiness && !req.PreferBeingIdle {
		w.violate("C08/solicits-work-after-failure", fmt.Sprintf("request %d (%s) has prefer_being_idle=false although the completion of #%d with a non-OK status was reported and readiness has not been re-checked successfully since", snap.seq, snap.desc, o.needReadinessBy))
	}

	// --- shutdown: never solicit, and use a context that still works
	if w.shutdown {
		o.requestsAfterSD++
		k.Probe("request-after-shutdown")
		if !req.PreferBeingIdle {
			w.violate("C08/solicits-work-after-shutdown", fmt.Sprintf("request %d (%s) was issued after shutdown began but has prefer_being_idle=false", snap.seq, snap.desc))
		}
		if ctx.Err() != nil {
			w.violate("C08/shutdown-request-on-cancelled-context", fmt.Sprintf("request %d (%s) was issued after shutdown began on the cancelled context: the call cannot reach the scheduler", snap.seq, snap.desc))
		}
		if snap.executing && !snap.completed {
			k.Probe("keeps-synchronizing-while-executing-after-shutdown")
		}
	}
	if snap.solicits() {
		k.Probe("request-solicits-work")
	}
	return snap
}

func (o *oracle) supersede(snap requestSnap, by string) {
	if cur := o.cur; cur != nil {
		cur.superseded = true
		if !cur.returned {
			cur.liveAtSupersede = true
			o.preemptions++
			if cur.entered {
				o.w.k.Probe("running-action-replaced-by-" + by)
			} else {
				o.w.k.Probe("unstarted-action-replaced-by-" + by)
			}
		} else if !cur.completedReported {
			o.w.k.Probe("finished-action-discarded-by-" + by)
		}
	}
}

func (o *oracle) onOutcome(snap requestSnap, out outcome) {
	w := o.w
	k := w.k
	o.lastOutcome = out.kind.String()
	if out.kind == outValid {
		o.lastOutcome = out.reply.String()
	}
	switch out.kind {
	case outValid:
		o.lastNSA = out.nsa
		switch out.reply {
		case replyExecute:
			if out.sameDigest {
				switch {
				case snap.completed:
					k.Probe("same-digest-handed-out-again-after-its-completion")
				default:
					k.Probe("same-digest-handed-out-again-while-running")
				}
			}
			o.supersede(snap, "execute")
			act := &activation{n: len(o.acts) + 1, hash: out.exec.ActionDigest.Hash, request: out.exec, updates: map[*remoteworker.CurrentState_Executing]int{}, lastReported: -1}
			o.acts = append(o.acts, act)
			o.cur = act
			o.belief = true
			if o.needReadiness {
				// The scheduler forced work upon a worker that asked to
				// be idle; the obligation is void.
				o.needReadiness = false
			}
		case replyIdle:
			o.supersede(snap, "idle")
			o.cur = nil
			o.belief = false
		case replyNoChange:
			o.belief = snap.executing && !snap.completed
		}
	default:
		// The worker cannot know what the scheduler did with the request.
		if !snap.preferIdle || (snap.executing && !snap.completed) || (out.kind != outRPCError && out.kind != outCtxError && out.reply == replyExecute) {
			o.belief = true
		}
	}
	desc := o.lastOutcome
	if out.kind != outValid && out.kind != outCtxError {
		desc += "(" + out.reply.String() + ")"
	}
	if out.exec != nil {
		h := out.exec.GetActionDigest().GetHash()
		desc += fmt.Sprintf(" digest=..%s", h[len(h)-8:])
		if out.sameDigest {
			desc += " (NEW task for the digest just reported)"
		}
	}
	if out.kind != outCtxError {
		desc += fmt.Sprintf(" next_sync=+%s", out.nsa.Sub(startTime))
	}
	o.note("REPLY to %d: %s (model: cur=%v belief=%v lastNSA=+%s)", snap.seq, desc, o.cur, o.belief, o.lastNSA.Sub(startTime))
	k.Probe("reply:" + o.lastOutcome)
}

// ---------------------------------------------------------------------------
// Shutdown and termination
// ---------------------------------------------------------------------------

func (o *oracle) onShutdown(where string) {
	o.note("SHUTDOWN begins (thread %s, belief=%v)", where, o.belief)
	o.w.k.Probe("shutdown:" + where)
	if o.belief {
		o.shutdownWhileBelief = true
		o.w.k.Probe("shutdown-while-scheduler-may-think-executing")
	}
	if o.liveCount() > 0 {
		o.w.k.Probe("shutdown-while-action-running")
	}
}

func (o *oracle) onRunReturn(mayTerminate bool, err error) {
	o.note("Run() = (%v, %v)", mayTerminate, status.Code(err))
}

func (o *oracle) onTerminate(err error) {
	w := o.w
	k := w.k
	now := w.wclock.SimClock.Now()
	expired := now.After(o.lastNSA.Add(time.Minute))
	o.note("TERMINATE err=%v shutdown=%v belief=%v worker-clock=+%s lastNSA=+%s expired=%v", err, w.shutdown, o.belief, now.Sub(startTime), o.lastNSA.Sub(startTime), expired)
	w.terminated = true
	k.StopRequested = true
	if !w.shutdown {
		w.violate("C08/terminated-without-shutdown", "the worker thread terminated although shutdown never began")
		return
	}
	if o.belief && !expired {
		w.violate("C08/terminated-while-scheduler-may-think-executing", fmt.Sprintf("the worker thread terminated at worker time +%s, but the scheduler may still think it is executing: the last exchange did not establish idleness and the last well-formed reply asked for the next synchronization at +%s, which is not more than one minute ago", now.Sub(startTime), o.lastNSA.Sub(startTime)))
		return
	}
	switch {
	case !o.belief && o.requestsAfterSD == 0:
		k.Probe("terminated-immediately")
	case !o.belief:
		k.Probe("terminated-after-scheduler-acknowledged-idle")
	default:
		k.Probe("terminated-by-timeout")
	}
	if o.liveCount() > 0 {
		k.Probe("terminated-with-action-still-running")
	}
}

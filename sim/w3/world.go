// Package w3 is the worker-client world: the real builder.BuildClient (and, in
// one of its two configurations, the real builder.LaunchWorkerThread) talks to
// a tape-scripted scheduler and an instrumented BuildExecutor under a skewed
// simulated clock. Oracles for property C08.
package w3

import (
	"context"
	"fmt"
	"io"
	"log"
	"testing/synctest"
	"time"

	remoteexecution "github.com/bazelbuild/remote-apis/build/bazel/remote/execution/v2"
	"github.com/buildbarn/bb-remote-execution/pkg/builder"
	"github.com/buildbarn/bb-remote-execution/pkg/verifsim/simenv"
	"github.com/buildbarn/bb-remote-execution/pkg/verifsim/simrun"
	"github.com/buildbarn/bb-remote-execution/pkg/verifsim/simsync"
	"github.com/buildbarn/bb-storage/pkg/digest"
	"github.com/buildbarn/bb-storage/pkg/program"
)

var startTime = time.Unix(1700000000, 0).UTC()

// backoffMax is the upper bound of the random back-off of LaunchWorkerThread
// (build_client.go: random.Duration(generator, 5*time.Second)). The drawn
// value itself comes from an unseeded RNG and must never influence the trace:
// the controller always lets the full bound elapse in one event.
const backoffMax = 5 * time.Second

func pick[T any](t *simsync.Tape, xs []T) T { return xs[t.Choice(len(xs))] }

type world struct {
	r    *simrun.Run
	k    *simsync.Kernel
	t    *simsync.Tape
	prop string

	root   *simenv.SimClock // global ("scheduler") time
	wclock *workerClock     // the worker's skewed view
	bc     *builder.BuildClient
	sched  *scriptedScheduler
	exec   *instrumentedExecutor
	stack  *stackExecutor
	orc    *oracle

	thread *simsync.Actor
	ctx    context.Context
	cancel context.CancelFunc

	// configuration of this run
	direct       bool // drive Run() from a harness loop instead of LaunchWorkerThread
	decorated    bool // the real TimestampedBuildExecutor sits between BuildClient and the instrumented executor (as in cmd/bb_worker)
	faultFree    bool
	skew         time.Duration
	timePressure int
	shutdownAt   int // number of Synchronize calls after which shutdown may begin
	execWeight   int // scheduling weight of executor steps
	syncWeight   int // scheduling weight of "the scheduler's reply arrives"
	faultWeight  int
	maxSyncs     int

	// dynamic state
	shutdown     bool
	draining     bool
	terminated   bool
	abandon      bool // verdict final: executors left behind finish at once (cleanup)
	inSelect     bool // the thread created a timer and has not yet left Run's select
	syncs        int
	drainReplies int
}

// group is the harness implementation of program.Group: the routine becomes
// the simulated actor "thread".
type group struct{ w *world }

func (g group) Go(routine program.Routine) {
	w := g.w
	w.thread = w.k.Spawn("thread", func() {
		err := routine(w.ctx, g, g)
		w.orc.onTerminate(err)
	})
}

func newWorld(r *simrun.Run, prop string) *world {
	log.SetOutput(io.Discard)
	w := &world{r: r, k: r.K, t: r.T, prop: prop}
	t := w.t
	w.faultFree = t.Bool(1, 4)
	w.direct = t.Bool(1, 4)
	w.decorated = t.Bool(3, 4)
	w.skew = pick(t, []time.Duration{0, 0, 3 * time.Second, -3 * time.Second, 45 * time.Second, -45 * time.Second, 3 * time.Minute})
	if w.faultFree {
		w.skew = 0
		w.k.FaultsOn = false
	} else if w.skew != 0 {
		w.k.FaultsFired["clock-skew"]++
	}
	w.timePressure = pick(t, []int{2, 0, 1, 4, 8})
	w.execWeight = pick(t, []int{10, 40, 3, 100})
	w.syncWeight = pick(t, []int{10, 3, 30})
	w.faultWeight = pick(t, []int{1, 2})
	w.maxSyncs = 6 + t.Choice(35)
	w.shutdownAt = t.Choice(w.maxSyncs + 1)
	w.root = simenv.NewSimClock(w.k, startTime)
	w.wclock = &workerClock{SimClock: w.root.View(w.skew), w: w}
	w.ctx, w.cancel = context.WithCancel(context.Background())
	w.orc = newOracle(w)
	w.sched = &scriptedScheduler{w: w}
	w.exec = &instrumentedExecutor{w: w}
	prefix, err := digest.NewInstanceName("main")
	if err != nil {
		panic(simsync.HarnessError{Msg: err.Error()})
	}
	var base builder.BuildExecutor = w.exec
	if w.decorated {
		base = builder.NewTimestampedBuildExecutor(base, w.wclock, "w3")
	}
	w.stack = &stackExecutor{w: w, base: base}
	w.bc = builder.NewBuildClient(w.sched, w.stack, nil, w.wclock, map[string]string{"host": "w3", "thread": "0"}, prefix,
		&remoteexecution.Platform{Properties: []*remoteexecution.Platform_Property{{Name: "os", Value: "linux"}}}, 0)
	w.orc.lastNSA = w.wclock.Now()
	r.Logf("config: direct=%v decorated=%v faultFree=%v skew=%s timePressure=%d maxSyncs=%d shutdownAt=%d execWeight=%d syncWeight=%d faultWeight=%d", w.direct, w.decorated, w.faultFree, w.skew, w.timePressure, w.maxSyncs, w.shutdownAt, w.execWeight, w.syncWeight, w.faultWeight)
	return w
}

func (w *world) violate(rule, msg string) {
	w.k.Annotate("VIOLATION %s: %s", rule, msg)
	w.k.Violate(rule, msg+"\nhistory (most recent last):\n"+w.orc.historyTail(40))
}

func (w *world) run() {
	k := w.k
	if w.direct {
		w.thread = k.Spawn("thread", w.directLoop)
	} else {
		builder.LaunchWorkerThread(group{w}, w.bc, "w3")
	}
	k.AddSource(w.events)
	k.AfterStep = w.afterStep
	budget := 80 + 40*w.t.Choice(8)
	if w.r.Tier == "thorough" {
		budget *= 2
	}
	k.Run(budget)
	if k.Failed() {
		return
	}
	w.drain()
}

// directLoop is configuration B: the harness replicates the loop of
// LaunchWorkerThread so that Run()'s return values are observed directly.
func (w *world) directLoop() {
	for {
		mayTerminate, err := w.bc.Run(w.ctx)
		w.orc.onRunReturn(mayTerminate, err)
		if mayTerminate && w.ctx.Err() != nil {
			w.orc.onTerminate(nil)
			return
		}
		if err != nil {
			w.k.Yield("backoff")
		}
	}
}

func (w *world) beginShutdown(where string) {
	w.shutdown = true
	w.orc.onShutdown(where)
	w.cancel()
}

func (w *world) threadLocation() string {
	a := w.thread
	switch {
	case a == nil:
		return "unstarted"
	case a.Done():
		return "done"
	case a.Parked():
		return "at-" + a.TicketLabel()
	case w.inSelect:
		return "in-select"
	case w.orc.liveCount() > 0:
		return "blocked-with-live-executor"
	}
	return "in-backoff"
}

// events is the world's controller event source: the clock, the shutdown
// instant and the elapsing of LaunchWorkerThread's back-off.
func (w *world) events() []simsync.Event {
	if w.terminated {
		return nil
	}
	var jumps []simenv.Jump
	tp := w.timePressure
	if w.draining {
		tp = 1
	}
	if tp > 0 {
		jumps = []simenv.Jump{{D: time.Second, Weight: tp}, {D: 20 * time.Second, Weight: tp}, {D: 70 * time.Second, Weight: (tp + 1) / 2}}
	}
	evs := w.root.ClockEvents(10, 3, nil, jumps)
	if !w.shutdown && !w.draining && w.syncs >= w.shutdownAt {
		evs = append(evs, simsync.Event{Key: "shutdown", Weight: 4, Fire: func() { w.beginShutdown(w.threadLocation()) }})
	}
	if !w.direct && w.thread != nil && w.thread.Blocked() && !w.inSelect {
		// The thread is blocked either in the back-off sleep of
		// LaunchWorkerThread (time.Sleep / time.NewTimer of the bubble's
		// fake clock) or in stopExecution's drain loop. Let the full
		// back-off bound elapse; for the drain loop this is a no-op.
		evs = append(evs, simsync.Event{Key: "backoff-elapse", Weight: 6, Fire: func() {
			w.root.Advance(backoffMax)
			time.Sleep(backoffMax)
		}})
	}
	return evs
}

func (w *world) afterStep() {
	o := w.orc
	cur := "-"
	if o.cur != nil {
		cur = "e"
		if o.cur.entered {
			cur = "r"
		}
		if o.cur.returned {
			cur = "d"
		}
		if o.cur.completedReported {
			cur = "c"
		}
	}
	w.r.State(fmt.Sprintf("%s|cur=%s|live=%d|bel=%v|sd=%v|nr=%v|%s", w.threadLocation(), cur, o.liveCount(), o.belief, w.shutdown, o.needReadiness, o.lastOutcome))
}

// drain is the end-of-run protocol: faults stop, the scheduler lets the
// current action finish (or forces idle), shutdown begins if it has not yet,
// and the thread must terminate.
func (w *world) drain() {
	k := w.k
	if w.terminated {
		w.finish()
		return
	}
	k.Note("drain: faults off, scheduler cooperative")
	k.FaultsOn = false
	w.draining = true
	if !w.shutdown {
		k.Note("drain: shutdown begins")
		w.beginShutdown(w.threadLocation() + "(drain)")
	}
	k.StopRequested = false
	for i := 0; i < 40 && !w.terminated; i++ {
		k.Run(40)
		if k.Failed() {
			return
		}
	}
	if !w.terminated {
		lockWaiters, blocked, seam := k.Stuck()
		w.violate("C08/never-terminates", fmt.Sprintf("shutdown began, faults stopped and the scheduler answered every request with idle or (while a finite action was running) no-change, but the worker thread did not terminate within 1600 steps: blocked=%v parked=%v lock-waiters=%v thread=%s", blocked, seam, lockWaiters, w.threadLocation()))
		return
	}
	w.finish()
}

func (w *world) finish() {
	o := w.orc
	r := w.r
	r.SimTime = w.root.Global().Sub(startTime)
	faults := 0
	for _, n := range w.k.FaultsFired {
		faults += n
	}
	r.NonTrivial = o.started >= 1 && o.requests >= 2 && (o.preemptions >= 1 || faults >= 1 || o.shutdownWhileBelief)
	r.Count("requests", o.requests)
	r.Count("activations", o.started)
	r.Count("preemptions", o.preemptions)
	r.Count("terminations", 1)
}

// World is the entry point registered for property C08.
func World(prop string) simrun.World {
	return func(r *simrun.Run) {
		w := newWorld(r, prop)
		w.run()
		w.cleanup()
		if r.SimTime == 0 {
			r.SimTime = w.root.Global().Sub(startTime)
		}
	}
}

// cleanup runs after the verdict of the run is final. A worker thread that
// terminated by time-out leaves its executor goroutines behind: the
// instrumented executor parked at a seam, the decorator's goroutine in its
// select or in a send on the full update channel. So that none of them
// outlives the bubble, the instrumented executor is told to finish at once
// (abandon), the update channels are drained and the remaining actors are
// stepped until they have exited. Oracles are off.
func (w *world) cleanup() {
	if !w.terminated || w.k.Failed() {
		return
	}
	w.abandon = true
	w.k.AfterStep = nil
	for round := 0; round < 400; round++ {
		synctest.Wait()
		drained := false
		for again := true; again; {
			again = false
			for _, a := range w.orc.acts {
				if a.updatesRecv == nil {
					continue
				}
				select {
				case _, open := <-a.updatesRecv:
					if open {
						again, drained = true, true
					} else {
						a.updatesRecv = nil
					}
				default:
				}
			}
			if again {
				synctest.Wait()
			}
		}
		w.k.StopRequested = false
		quiet := w.k.Run(16)
		if quiet && !drained {
			return
		}
	}
}

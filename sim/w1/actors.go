package w1

import (
	"context"
	"fmt"
	"time"

	remoteexecution "github.com/bazelbuild/remote-apis/build/bazel/remote/execution/v2"
	"github.com/buildbarn/bb-remote-execution/pkg/proto/buildqueuestate"
	"github.com/buildbarn/bb-remote-execution/pkg/proto/remoteworker"
	"github.com/buildbarn/bb-remote-execution/pkg/scheduler"
	"github.com/buildbarn/bb-remote-execution/pkg/verifsim/simsync"

	"cloud.google.com/go/longrunning/autogen/longrunningpb"
	status_pb "google.golang.org/genproto/googleapis/rpc/status"
	"google.golang.org/grpc/codes"
	"google.golang.org/grpc/metadata"
	"google.golang.org/grpc/status"
	"google.golang.org/protobuf/proto"
	"google.golang.org/protobuf/types/known/anypb"
	"google.golang.org/protobuf/types/known/durationpb"
	"google.golang.org/protobuf/types/known/emptypb"
)

// ---------------------------------------------------------------------------
// Streams
// ---------------------------------------------------------------------------

type sentMessage struct {
	step     int
	name     string
	stage    remoteexecution.ExecutionStage_Value
	done     bool
	response *remoteexecution.ExecuteResponse
}

type stream struct {
	w         *world
	id        string
	client    *client
	kind      string // "Execute" or "WaitExecution"
	action    *actionSpec
	waitName  string
	ctx       context.Context
	cancel    context.CancelFunc
	cancelled bool
	sendErr   bool
	sent      []sentMessage
	ended     bool
	err       error
	keys      []string
	priority  int32
}

func (s *stream) Context() context.Context     { return s.ctx }
func (s *stream) SetHeader(metadata.MD) error  { return nil }
func (s *stream) SendHeader(metadata.MD) error { return nil }
func (s *stream) SetTrailer(metadata.MD)       {}
func (s *stream) SendMsg(m interface{}) error  { return nil }
func (s *stream) RecvMsg(m interface{}) error  { return nil }

func (s *stream) Send(op *longrunningpb.Operation) error {
	w := s.w
	// The message was built under the scheduler's lock in this very step;
	// hand it to the oracle before anybody else can move.
	msg := sentMessage{name: op.Name, done: op.Done}
	var md remoteexecution.ExecuteOperationMetadata
	if err := op.Metadata.UnmarshalTo(&md); err != nil {
		w.k.Violate("C02/bad-metadata", err.Error())
	}
	msg.stage = md.Stage
	if r := op.GetResponse(); r != nil {
		var er remoteexecution.ExecuteResponse
		if err := r.UnmarshalTo(&er); err != nil {
			w.k.Violate("C02/bad-response", err.Error())
		}
		msg.response = &er
	}
	w.orc.post(observation{kind: obsSend, stream: s, msg: msg})
	opt := w.k.SeamW("send:"+s.id, 10, w.faultWeight(), "ok", "send-error")
	if err := s.ctx.Err(); err != nil {
		return status.FromContextError(err).Err()
	}
	if opt == 1 {
		s.sendErr = true
		return status.Error(codes.Unavailable, "injected transport failure")
	}
	return nil
}

// ---------------------------------------------------------------------------
// Clients
// ---------------------------------------------------------------------------

type client struct {
	w       *world
	idx     int
	name    string
	actor   *simsync.Actor
	cur     *stream
	streams int
}

var (
	correlatedIDs = []string{"", "build-A", "build-B"}
	toolIDs       = []string{"", "inv-1", "inv-2", "inv-3"}
	mnemonics     = []string{"", "Cc", "Java"}
	// The two extreme values are more than 2^31 apart: REv2 priorities are
	// arbitrary int32 values.
	priorities = []int32{0, 0, -100, 7, 100, -2147483600, 2147483000}
)

// termRecord is a TerminateWorkers call that returned successfully.
type termRecord struct {
	pattern   map[string]string
	start     *scheduler.VerifSnapshot
	startStep int
}

func newClient(w *world, idx int) *client {
	c := &client{w: w, idx: idx, name: fmt.Sprintf("client%d", idx)}
	c.actor = w.k.Spawn(c.name, c.loop)
	return c
}

func (c *client) cancellable() bool {
	s := c.cur
	if s == nil || s.cancelled || s.ended {
		return false
	}
	a := c.actor
	if a.Blocked() {
		return true
	}
	if a.ParkedAtSeam() {
		l := a.TicketLabel()
		return hasAnyPrefix(l, "send:", "cas-get", "auth-", "analyze")
	}
	return false
}

func hasAnyPrefix(s string, ps ...string) bool {
	for _, p := range ps {
		if len(s) >= len(p) && s[:len(p)] == p {
			return true
		}
	}
	return false
}

func (c *client) cancelNow() {
	c.cur.cancelled = true
	c.cur.cancel()
}

func (c *client) loop() {
	w := c.w
	for n := 0; n < w.maxOps; n++ {
		w.k.Yield("c-next")
		if w.stopping {
			return
		}
		t := w.t
		switch t.Weighted([]int{14, 4, 1}) {
		case 0:
			a := pick(t, w.actions)
			s := c.newStream("Execute")
			s.action = a
			rm := &remoteexecution.RequestMetadata{
				CorrelatedInvocationsId: pick(t, correlatedIDs),
				ToolInvocationId:        pick(t, toolIDs),
				ActionMnemonic:          pick(t, mnemonics),
				TargetId:                "//t",
			}
			if w.mixedDepth {
				rm.TargetId = pick(t, []string{"//t", "//t", "//depth1", "//depth2"})
			}
			s.keys = []string{rm.CorrelatedInvocationsId, rm.ToolInvocationId, rm.ActionMnemonic}
			s.priority = pick(t, priorities)
			if w.fair && t.Bool(3, 4) {
				// Equal priorities make ties, which is where the
				// tie-breaking rules of the policy become visible.
				s.priority = 0
			}
			bin, _ := proto.Marshal(rm)
			s.ctx = metadata.NewIncomingContext(s.ctx, metadata.Pairs("build.bazel.remote.execution.v2.requestmetadata-bin", string(bin)))
			req := &remoteexecution.ExecuteRequest{
				InstanceName:    a.instance,
				ActionDigest:    proto.Clone(a.pb).(*remoteexecution.Digest),
				DigestFunction:  remoteexecution.DigestFunction_SHA256,
				ExecutionPolicy: &remoteexecution.ExecutionPolicy{Priority: s.priority},
			}
			w.r.Logf("%s: Execute action#%d keys=%v prio=%d", s.id, a.idx, s.keys, s.priority)
			w.orc.post(observation{kind: obsStreamStart, stream: s})
			err := w.bq.Execute(req, s)
			c.finish(s, err)
		case 1:
			s := c.newStream("WaitExecution")
			if len(w.knownNames) > 0 && t.Bool(9, 10) {
				s.waitName = pick(t, w.knownNames)
			} else {
				s.waitName = "no-such-operation"
			}
			w.r.Logf("%s: WaitExecution %s", s.id, s.waitName)
			w.orc.post(observation{kind: obsStreamStart, stream: s})
			err := w.bq.WaitExecution(&remoteexecution.WaitExecutionRequest{Name: s.waitName}, s)
			c.finish(s, err)
		case 2:
			return
		}
	}
}

func (c *client) newStream(kind string) *stream {
	c.streams++
	s := &stream{w: c.w, client: c, kind: kind, id: fmt.Sprintf("%s.s%d", c.name, c.streams)}
	s.ctx, s.cancel = context.WithCancel(context.Background())
	c.cur = s
	return s
}

func (c *client) finish(s *stream, err error) {
	s.err = err
	s.ended = true
	c.w.orc.post(observation{kind: obsStreamEnd, stream: s})
	c.w.k.Yield("c-ret")
	s.cancel()
}

// ---------------------------------------------------------------------------
// Workers (scripted, adversarial until the drain phase)
// ---------------------------------------------------------------------------

type workerActor struct {
	w         *world
	idx       int
	name      string
	actor     *simsync.Actor
	queue     *queueSpec
	sizeClass uint32
	id        map[string]string
	keyJSON   string

	// What the worker believes it is doing.
	executing *remoteexecution.Digest
	action    *remoteexecution.Action
	started   bool

	ctx       context.Context
	cancel    context.CancelFunc
	inCall    bool
	cancelled bool
	req       *remoteworker.SynchronizeRequest
	wakeAt    time.Time
	syncs     int
	// sawBlocked: during the current call the worker was seen waiting for work.
	sawBlocked bool
}

func newWorkerActor(w *world, idx int) *workerActor {
	t := w.t
	wa := &workerActor{w: w, idx: idx, name: fmt.Sprintf("worker%d", idx)}
	wa.queue = pick(t, w.queues)
	wa.sizeClass = pick(t, wa.queue.sizeClasses)
	if n := len(wa.queue.sizeClasses); n > 1 {
		// Spread the workers of a multi-size-class queue so that the
		// smallest and the largest class are both staffed early: the
		// fail-on-small / retry-on-largest path needs both.
		switch w.staffed[wa.queue] {
		case 0:
			wa.sizeClass = wa.queue.sizeClasses[0]
		case 1:
			wa.sizeClass = wa.queue.sizeClasses[n-1]
		}
		w.staffed[wa.queue]++
	}
	if wa.queue.predeclared && len(wa.queue.sizeClasses) > 1 && t.Bool(1, 8) {
		// A size class the queue was not predeclared with.
		wa.sizeClass = pick(t, []uint32{2, 3, 9})
	}
	wa.id = map[string]string{"host": wa.name}
	if t.Bool(1, 3) {
		wa.id["rack"] = pick(t, []string{"r1", "r2"})
	}
	w.r.Logf("%s: queue prefix=%q platform=%s sizeClass=%d id=%v", wa.name, wa.queue.prefix, wa.queue.key.GetPlatformString(), wa.sizeClass, wa.id)
	wa.actor = w.k.Spawn(wa.name, wa.loop)
	return wa
}

func (wa *workerActor) cancellable() bool {
	return wa.inCall && !wa.cancelled && (wa.actor.Blocked() || (wa.actor.ParkedAtSeam() && hasAnyPrefix(wa.actor.TicketLabel(), "auth-")))
}

func (wa *workerActor) cancelNow() {
	wa.cancelled = true
	wa.cancel()
}

func (wa *workerActor) nextMarker() string {
	wa.w.markerSeq++
	return fmt.Sprintf("marker:%s#%d", wa.name, wa.w.markerSeq)
}

func (wa *workerActor) loop() {
	w := wa.w
	t := w.t
	for {
		// Sleep until the controller lets us continue. While adversarial
		// the wake-up time may be early, on time or far too late (which is
		// how a crashed or partitioned worker looks to the scheduler).
		now := w.clock.Global()
		wakeAt := wa.wakeAt
		if !w.honest {
			switch t.Weighted([]int{6, 3, 2}) {
			case 1:
				wakeAt = now
			case 2:
				wakeAt = now.Add(pick(t, []time.Duration{5 * time.Second, 25 * time.Second, 2 * time.Minute, 30 * time.Minute}))
				w.k.FaultsFired["worker-late-or-crashed"]++
			}
		}
		if wakeAt.After(now) {
			w.clock.AddWake(wakeAt)
		}
		w.k.SeamWhen("w-next", func() bool { return w.exiting || !w.clock.Global().Before(wakeAt) })
		if w.exiting {
			return
		}
		req := &remoteworker.SynchronizeRequest{
			WorkerId:           wa.id,
			InstanceNamePrefix: wa.queue.prefix,
			Platform:           proto.Clone(wa.queue.platform).(*remoteexecution.Platform),
			SizeClass:          wa.sizeClass,
		}
		req.CurrentState = wa.chooseState(req)
		wa.req = req
		wa.ctx, wa.cancel = context.WithCancel(context.Background())
		wa.cancelled = false
		wa.sawBlocked = false
		wa.inCall = true
		wa.syncs++
		w.orc.post(observation{kind: obsSyncStart, worker: wa, req: req})
		resp, err := w.bq.Synchronize(wa.ctx, req)
		wa.inCall = false
		w.orc.post(observation{kind: obsSyncEnd, worker: wa, req: req, resp: resp, err: err})
		w.k.Yield("w-ret")
		wa.cancel()
		wa.apply(req, resp, err)
	}
}

// chooseState picks what the worker reports.
func (wa *workerActor) chooseState(req *remoteworker.SynchronizeRequest) *remoteworker.CurrentState {
	w := wa.w
	t := w.t
	idle := &remoteworker.CurrentState{WorkerState: &remoteworker.CurrentState_Idle{Idle: &emptypb.Empty{}}}
	if wa.executing == nil {
		if w.honest {
			return idle
		}
		switch t.Weighted([]int{20, 1, 1, 1}) {
		case 1:
			// Claims to execute something it was never given.
			w.k.FaultsFired["worker-wrong-digest"]++
			return executingState(pick(t, w.actions).pb, nil)
		case 2:
			w.k.FaultsFired["worker-no-state"]++
			return wa.malformedState()
		case 3:
			req.PreferBeingIdle = true
			return idle
		}
		return idle
	}
	d := wa.executing
	if w.honest {
		// In the policy runs (C04) a well-behaved worker still reports
		// genuine failures now and then, so that retries on the largest
		// size class re-enter the queues under the policy's eyes.
		return executingState(d, wa.completion(!(w.fair && !w.draining && t.Bool(1, 4))))
	}
	restart := 2
	if w.flaky {
		restart = 9
	}
	switch t.Weighted([]int{6, 10, restart, 1, 1, 1}) {
	case 5:
		// Malformed request while executing: no current state at all.
		w.k.FaultsFired["worker-no-state"]++
		return wa.malformedState()
	case 0:
		return executingState(d, nil) // progress update
	case 1:
		return executingState(d, wa.completion(false))
	case 2:
		// Crash-restart: the worker forgot what it was doing.
		w.k.FaultsFired["worker-restart-idle"]++
		wa.executing = nil
		return idle
	case 3:
		w.k.FaultsFired["worker-wrong-digest"]++
		return executingState(pick(t, w.actions).pb, wa.completion(false))
	case 4:
		req.PreferBeingIdle = true
		return executingState(d, wa.completion(false))
	}
	return idle
}

// malformedState: the three shapes of a request the scheduler must reject
// with INVALID_ARGUMENT after it re-armed the worker's expiry: no current
// state, a current state that is neither idle nor executing, and an executing
// state that names no action.
func (wa *workerActor) malformedState() *remoteworker.CurrentState {
	switch wa.w.t.Choice(3) {
	case 1:
		wa.w.k.Probe("worker-sends-unknown-state")
		return &remoteworker.CurrentState{}
	case 2:
		wa.w.k.Probe("worker-sends-executing-without-digest")
		return &remoteworker.CurrentState{WorkerState: &remoteworker.CurrentState_Executing_{Executing: &remoteworker.CurrentState_Executing{ExecutionState: &remoteworker.CurrentState_Executing_Started{Started: &emptypb.Empty{}}}}}
	}
	return nil
}

func executingState(d *remoteexecution.Digest, completed *remoteexecution.ExecuteResponse) *remoteworker.CurrentState {
	e := &remoteworker.CurrentState_Executing{ActionDigest: proto.Clone(d).(*remoteexecution.Digest)}
	if completed != nil {
		e.ExecutionState = &remoteworker.CurrentState_Executing_Completed{Completed: completed}
	} else {
		e.ExecutionState = &remoteworker.CurrentState_Executing_Started{Started: &emptypb.Empty{}}
	}
	return &remoteworker.CurrentState{WorkerState: &remoteworker.CurrentState_Executing_{Executing: e}}
}

// completion builds an ExecuteResponse carrying a unique marker.
func (wa *workerActor) completion(success bool) *remoteexecution.ExecuteResponse {
	t := wa.w.t
	marker := wa.nextMarker()
	kind := 0
	if !success {
		kind = t.Weighted([]int{6, 2, 2, 1, 1})
	}
	resp := &remoteexecution.ExecuteResponse{Message: marker, Result: &remoteexecution.ActionResult{
		ExecutionMetadata: &remoteexecution.ExecutedActionMetadata{VirtualExecutionDuration: durationpb.New(pick(t, []time.Duration{time.Second, 7 * time.Second}))},
	}}
	switch kind {
	case 1:
		resp.Result.ExitCode = 1
	case 2:
		resp.Status = &status_pb.Status{Code: int32(codes.DeadlineExceeded), Message: "timed out " + marker}
	case 3:
		resp.Status = &status_pb.Status{Code: int32(codes.Internal), Message: "worker failure " + marker}
	case 4:
		// A completion report that carries no ActionResult at all.
		resp.Result = nil
	}
	return resp
}

// apply updates the worker's belief from the scheduler's reply.
func (wa *workerActor) apply(req *remoteworker.SynchronizeRequest, resp *remoteworker.SynchronizeResponse, err error) {
	w := wa.w
	now := w.clock.Global()
	if err != nil {
		wa.wakeAt = now.Add(time.Second)
		return
	}
	if ts := resp.NextSynchronizationAt; ts != nil {
		wa.wakeAt = ts.AsTime()
	} else {
		wa.wakeAt = now
	}
	// A worker that reported completion is done with that action.
	if ex := req.CurrentState.GetExecuting(); ex != nil && ex.GetCompleted() != nil {
		wa.executing = nil
	}
	if ds := resp.DesiredState; ds != nil {
		switch s := ds.WorkerState.(type) {
		case *remoteworker.DesiredState_Idle:
			wa.executing = nil
		case *remoteworker.DesiredState_Executing_:
			wa.executing = proto.Clone(s.Executing.ActionDigest).(*remoteexecution.Digest)
		}
	}
}

// ---------------------------------------------------------------------------
// Operator
// ---------------------------------------------------------------------------

type operatorActor struct {
	w           *world
	actor       *simsync.Actor
	ctx         context.Context
	cancel      context.CancelFunc
	cancelled   bool
	blocking    bool
	termPattern map[string]string
	termTasks   map[string]uintptr
	termDone    []termRecord // successful TerminateWorkers calls not yet seen by the oracle
	killSeq     int
	ops         int
}

func newOperator(w *world) *operatorActor {
	o := &operatorActor{w: w}
	o.actor = w.k.Spawn("operator", o.loop)
	return o
}

func (o *operatorActor) cancellable() bool {
	return o.blocking && !o.cancelled && o.actor.Blocked()
}

func (o *operatorActor) cancelNow() {
	o.cancelled = true
	o.cancel()
}

func (o *operatorActor) queueName(q *queueSpec, sizeClass uint32) *buildqueuestate.SizeClassQueueName {
	return &buildqueuestate.SizeClassQueueName{
		PlatformQueueName: &buildqueuestate.PlatformQueueName{InstanceNamePrefix: q.prefix, Platform: proto.Clone(q.platform).(*remoteexecution.Platform)},
		SizeClass:         sizeClass,
	}
}

func (o *operatorActor) loop() {
	w := o.w
	t := w.t
	max := 2 + t.Choice(12)
	for n := 0; n < max; n++ {
		w.k.SeamW("o-next", 4, 0)
		if w.stopping {
			return
		}
		o.ctx, o.cancel = context.WithCancel(context.Background())
		o.cancelled = false
		q := pick(t, w.queues)
		sc := pick(t, q.sizeClasses)
		qn := o.queueName(q, sc)
		var pattern map[string]string
		switch t.Choice(4) {
		case 0:
			pattern = map[string]string{}
		case 1:
			pattern = map[string]string{"host": fmt.Sprintf("worker%d", t.Choice(4))}
		case 2:
			pattern = map[string]string{"rack": "r1"}
		case 3:
			pattern = map[string]string{"host": "worker0", "rack": "r2"}
		}
		kind := t.Weighted([]int{3, 1, 3, 3, 2, 2, 2, 2, 2, 1, 1, 1, 2, 4, 1})
		if w.faultFree && (kind < 2 || kind == 4) && w.prop == "C04" {
			// No kills or terminations in the policy check; drains stay
			// (a drained worker must get nothing, an undrained one must be
			// woken for queued work).
			kind = 5 + t.Choice(7)
		}
		var err error
		desc := ""
		switch kind {
		case 0:
			name := "no-such-operation"
			if len(w.knownNames) > 0 {
				name = pick(t, w.knownNames)
			}
			o.killSeq++
			st := &status_pb.Status{Code: int32(codes.Aborted), Message: fmt.Sprintf("kill#%d", o.killSeq)}
			desc = fmt.Sprintf("KillOperations name=%s %s", name, st.Message)
			w.orc.post(observation{kind: obsKill, killStatus: st})
			_, err = w.bq.KillOperations(o.ctx, &buildqueuestate.KillOperationsRequest{
				Filter: &buildqueuestate.KillOperationsRequest_Filter{Type: &buildqueuestate.KillOperationsRequest_Filter_OperationName{OperationName: name}},
				Status: st,
			})
		case 1:
			o.killSeq++
			st := &status_pb.Status{Code: int32(codes.Aborted), Message: fmt.Sprintf("kill#%d", o.killSeq)}
			desc = fmt.Sprintf("KillOperations queue-without-workers %s", st.Message)
			w.orc.post(observation{kind: obsKill, killStatus: st})
			_, err = w.bq.KillOperations(o.ctx, &buildqueuestate.KillOperationsRequest{
				Filter: &buildqueuestate.KillOperationsRequest_Filter{Type: &buildqueuestate.KillOperationsRequest_Filter_SizeClassQueueWithoutWorkers{SizeClassQueueWithoutWorkers: qn}},
				Status: st,
			})
		case 2:
			desc = fmt.Sprintf("AddDrain %q/%d %v", q.prefix, sc, pattern)
			_, err = w.bq.AddDrain(o.ctx, &buildqueuestate.AddOrRemoveDrainRequest{SizeClassQueueName: qn, WorkerIdPattern: pattern})
		case 3:
			desc = fmt.Sprintf("RemoveDrain %q/%d %v", q.prefix, sc, pattern)
			_, err = w.bq.RemoveDrain(o.ctx, &buildqueuestate.AddOrRemoveDrainRequest{SizeClassQueueName: qn, WorkerIdPattern: pattern})
		case 4:
			desc = fmt.Sprintf("TerminateWorkers %v", pattern)
			o.termPattern = pattern
			o.termTasks = nil
			o.blocking = true
			// The scheduler's state as of the last quiescent point, i.e.
			// before this call began.
			startSnap, startStep := w.orc.snap, w.k.Step
			_, err = w.bq.TerminateWorkers(o.ctx, &buildqueuestate.TerminateWorkersRequest{WorkerIdPattern: pattern})
			o.blocking = false
			if err == nil {
				o.termDone = append(o.termDone, termRecord{pattern: pattern, start: startSnap, startStep: startStep})
			}
		case 5:
			desc = "ListOperations"
			var lr *buildqueuestate.ListOperationsResponse
			lr, err = w.bq.ListOperations(o.ctx, &buildqueuestate.ListOperationsRequest{PageSize: 100})
			// Names an operator can see are names anybody may pass to
			// WaitExecution, including those of operations no client
			// started (background runs on another size class).
			if err == nil {
				for _, op := range lr.Operations {
					known := false
					for _, n := range w.knownNames {
						known = known || n == op.Name
					}
					if !known {
						w.knownNames = append(w.knownNames, op.Name)
					}
				}
			}
		case 6:
			desc = "ListWorkers"
			_, err = w.bq.ListWorkers(o.ctx, &buildqueuestate.ListWorkersRequest{PageSize: 100, Filter: &buildqueuestate.ListWorkersRequest_Filter{Type: &buildqueuestate.ListWorkersRequest_Filter_All{All: qn}}})
		case 7:
			desc = "ListInvocationChildren(QUEUED)"
			_, err = w.bq.ListInvocationChildren(o.ctx, &buildqueuestate.ListInvocationChildrenRequest{InvocationName: &buildqueuestate.InvocationName{SizeClassQueueName: qn}, Filter: buildqueuestate.ListInvocationChildrenRequest_QUEUED})
		case 8:
			desc = "ListQueuedOperations"
			_, err = w.bq.ListQueuedOperations(o.ctx, &buildqueuestate.ListQueuedOperationsRequest{InvocationName: &buildqueuestate.InvocationName{SizeClassQueueName: qn}, PageSize: 100})
		case 9:
			desc = "ListPlatformQueues"
			_, err = w.bq.ListPlatformQueues(o.ctx, &emptypb.Empty{})
		case 10:
			desc = "ListDrains"
			_, err = w.bq.ListDrains(o.ctx, &buildqueuestate.ListDrainsRequest{SizeClassQueueName: qn})
		case 12:
			// An operator drains by mistake and undoes it at once: workers
			// parked idle are woken by the first call and may only get back
			// to the scheduler's lock after the second one.
			desc = fmt.Sprintf("AddDrain+RemoveDrain %q/%d %v", q.prefix, sc, pattern)
			_, err = w.bq.AddDrain(o.ctx, &buildqueuestate.AddOrRemoveDrainRequest{SizeClassQueueName: qn, WorkerIdPattern: pattern})
			if err == nil {
				_, err = w.bq.RemoveDrain(o.ctx, &buildqueuestate.AddOrRemoveDrainRequest{SizeClassQueueName: qn, WorkerIdPattern: pattern})
			}
		case 13:
			desc, err = o.inspectDeep(qn)
		case 14:
			// A configuration reload gone wrong: a predeclared queue is
			// registered again (under its own size classes or others), or
			// with a malformed list of size classes. All of it must be
			// refused and leave the queues as they are.
			desc = "RegisterPredeclaredPlatformQueue again"
			if !q.predeclared {
				break
			}
			scs := q.sizeClasses
			switch t.Choice(4) {
			case 1:
				scs = []uint32{1, 2, 4}
			case 2:
				scs = []uint32{4, 2}
			case 3:
				scs = nil
			}
			desc = fmt.Sprintf("RegisterPredeclaredPlatformQueue again %q %v", q.prefix, scs)
			err = w.bq.RegisterPredeclaredPlatformQueue(mustInstanceName(q.prefix), q.platform, q.stickiness, q.maxBG, q.bgPriority, scs)
			if err == nil {
				w.violate("C05/duplicate-registration-accepted", fmt.Sprintf("registering the predeclared platform queue %q %s a second time (size classes %v) succeeded; the queue that workers and clients are using would be replaced", q.prefix, q.key.GetPlatformString(), scs))
			}
			w.k.Probe("operator-registers-queue-again")
		case 11:
			desc = "ListInvocationChildren(ALL)"
			_, err = w.bq.ListInvocationChildren(o.ctx, &buildqueuestate.ListInvocationChildrenRequest{InvocationName: &buildqueuestate.InvocationName{SizeClassQueueName: qn}, Filter: buildqueuestate.ListInvocationChildrenRequest_ALL})
		}
		o.ops++
		w.r.Logf("operator: %s -> %v", desc, status.Code(err))
		w.orc.post(observation{kind: obsOperatorEnd})
		w.k.Yield("o-ret")
		o.cancel()
	}
}

// inspectDeep is what an operator clicking through bb_scheduler's web pages
// does: descend into the invocation tree of a size class queue through the
// names the listings return, and list queued operations, executing and idle
// workers of a nested invocation page by page; look up single operations;
// list operations filtered by invocation or stage. The listings of nested
// invocations sort those invocations' heaps in place, so they are part of the
// workload of every scheduler property, not only an observation channel.
func (o *operatorActor) inspectDeep(qn *buildqueuestate.SizeClassQueueName) (string, error) {
	w := o.w
	t := w.t
	name := &buildqueuestate.InvocationName{SizeClassQueueName: qn}
	desc := "inspect"
	// Descend up to three levels, each level one ListInvocationChildren call.
	for depth := 0; depth < 3; depth++ {
		filter := pick(t, []buildqueuestate.ListInvocationChildrenRequest_Filter{buildqueuestate.ListInvocationChildrenRequest_ALL, buildqueuestate.ListInvocationChildrenRequest_ACTIVE, buildqueuestate.ListInvocationChildrenRequest_QUEUED})
		lr, err := w.bq.ListInvocationChildren(o.ctx, &buildqueuestate.ListInvocationChildrenRequest{InvocationName: name, Filter: filter})
		desc += fmt.Sprintf(" children(depth=%d,%v)=%d", depth, filter, len(lr.GetChildren()))
		if err != nil {
			return desc, err
		}
		if len(lr.Children) == 0 || t.Bool(1, 4) {
			break
		}
		w.k.Yield("o-inspect")
		child := lr.Children[t.Choice(len(lr.Children))]
		name = &buildqueuestate.InvocationName{SizeClassQueueName: qn, Ids: append(append([]*anypb.Any(nil), name.Ids...), child.Id)}
		w.k.Probe("operator-descends-into-invocation")
	}
	var err error
	switch t.Choice(6) {
	case 0:
		// Queued operations of that invocation, in pages of one or two.
		var after *buildqueuestate.ListQueuedOperationsRequest_StartAfter
		for page := 0; page < 4; page++ {
			var lr *buildqueuestate.ListQueuedOperationsResponse
			lr, err = w.bq.ListQueuedOperations(o.ctx, &buildqueuestate.ListQueuedOperationsRequest{InvocationName: name, PageSize: uint32(1 + t.Choice(2)), StartAfter: after})
			desc += fmt.Sprintf(" queued-page=%d", len(lr.GetQueuedOperations()))
			if err != nil || len(lr.QueuedOperations) == 0 {
				break
			}
			last := lr.QueuedOperations[len(lr.QueuedOperations)-1]
			after = &buildqueuestate.ListQueuedOperationsRequest_StartAfter{Priority: last.Priority, ExpectedDuration: last.ExpectedDuration, QueuedTimestamp: last.QueuedTimestamp}
			if page > 0 {
				w.k.Probe("operator-pages-through-queued-operations")
			}
			w.k.Yield("o-inspect")
		}
	case 1, 2:
		// Workers executing for / parked at that invocation, one per page.
		var after *buildqueuestate.ListWorkersRequest_StartAfter
		executing := t.Bool(1, 2)
		for page := 0; page < 3; page++ {
			f := &buildqueuestate.ListWorkersRequest_Filter{Type: &buildqueuestate.ListWorkersRequest_Filter_IdleSynchronizing{IdleSynchronizing: name}}
			if executing {
				f = &buildqueuestate.ListWorkersRequest_Filter{Type: &buildqueuestate.ListWorkersRequest_Filter_Executing{Executing: name}}
			}
			var lr *buildqueuestate.ListWorkersResponse
			lr, err = w.bq.ListWorkers(o.ctx, &buildqueuestate.ListWorkersRequest{Filter: f, PageSize: 1, StartAfter: after})
			desc += fmt.Sprintf(" workers(executing=%v)=%d", executing, len(lr.GetWorkers()))
			if err != nil || len(lr.Workers) == 0 {
				break
			}
			if executing && len(lr.Workers) > 0 {
				w.k.Probe("operator-lists-executing-workers-of-invocation")
			}
			after = &buildqueuestate.ListWorkersRequest_StartAfter{WorkerId: lr.Workers[len(lr.Workers)-1].Id}
			w.k.Yield("o-inspect")
		}
	case 3:
		opName := "no-such-operation"
		if len(w.knownNames) > 0 && !t.Bool(1, 5) {
			opName = pick(t, w.knownNames)
		}
		var gr *buildqueuestate.GetOperationResponse
		gr, err = w.bq.GetOperation(o.ctx, &buildqueuestate.GetOperationRequest{OperationName: opName})
		desc += fmt.Sprintf(" GetOperation(%s)=%v", opName, gr.GetOperation().GetStage())
		if err == nil {
			w.k.Probe("operator-gets-operation")
		}
	case 4:
		// All operations, in small pages, optionally of one stage.
		stage := pick(t, []remoteexecution.ExecutionStage_Value{remoteexecution.ExecutionStage_UNKNOWN, remoteexecution.ExecutionStage_QUEUED, remoteexecution.ExecutionStage_EXECUTING, remoteexecution.ExecutionStage_COMPLETED})
		var after *buildqueuestate.ListOperationsRequest_StartAfter
		for page := 0; page < 4; page++ {
			var lr *buildqueuestate.ListOperationsResponse
			lr, err = w.bq.ListOperations(o.ctx, &buildqueuestate.ListOperationsRequest{PageSize: uint32(1 + t.Choice(3)), StartAfter: after, FilterStage: stage})
			desc += fmt.Sprintf(" operations(stage=%v)=%d", stage, len(lr.GetOperations()))
			if err != nil || len(lr.Operations) == 0 {
				break
			}
			after = &buildqueuestate.ListOperationsRequest_StartAfter{OperationName: lr.Operations[len(lr.Operations)-1].Name}
			w.k.Yield("o-inspect")
		}
	case 5:
		// Operations of the invocation reached above (any level).
		var id *anypb.Any
		if len(name.Ids) > 0 {
			id = name.Ids[len(name.Ids)-1]
		}
		var lr *buildqueuestate.ListOperationsResponse
		lr, err = w.bq.ListOperations(o.ctx, &buildqueuestate.ListOperationsRequest{PageSize: 100, FilterInvocationId: id})
		desc += fmt.Sprintf(" operations(invocation filter=%v)=%d", id != nil, len(lr.GetOperations()))
		if err == nil && id != nil && len(lr.Operations) > 0 {
			w.k.Probe("operator-filters-operations-by-invocation")
		}
	}
	return desc, err
}

package w1

import (
	"testing"

	"github.com/buildbarn/bb-remote-execution/pkg/verifsim/simrun"
)

func TestSim(t *testing.T) {
	worlds := map[string]simrun.World{}
	for _, p := range []string{"C01", "C02", "C03", "C04", "C05", "C06", "C07", "C14"} {
		worlds[p] = World(p)
	}
	simrun.Main(t, worlds)
}

package w1

import (
	"context"
	"fmt"
	"time"

	remoteexecution "github.com/bazelbuild/remote-apis/build/bazel/remote/execution/v2"
	"github.com/buildbarn/bb-remote-execution/pkg/scheduler/initialsizeclass"
	"github.com/buildbarn/bb-storage/pkg/digest"
	"google.golang.org/grpc/codes"
	"google.golang.org/grpc/status"
)

// scriptedAnalyzer is a tape-driven initialsizeclass.Analyzer that records
// every protocol call, so that linearity (C07) can be judged and so that the
// retry-on-largest and background-learning paths are exercised in most runs.
type scriptedAnalyzer struct {
	w         *world
	selectors []*selRec
	learners  []*learnRec
	// retryEvents counts Failed() calls that asked for a retry, per action hash.
	retryEvents map[string]int
	// lastSelect remembers the most recent Select per action hash.
	lastSelect map[string]*selRec
	calls      []learnerCall // terminal learner calls of the current step
	// real, when set, is the repository's own FallbackAnalyzer: the scripted
	// analyzer then only records and judges what the real one decides
	// (smallest size class first, the action's timeout, one retry on the
	// largest size class, never any background learning).
	real initialsizeclass.Analyzer
}

type selRec struct {
	id          int
	action      *actionSpec
	state       string // "", "selected", "abandoned"
	step        int
	sizeClasses []uint32
	index       int
	timeout     time.Duration
	expected    time.Duration
}

type learnRec struct {
	id       int
	action   *actionSpec
	kind     string // "fg", "fg-largest", "bg"
	largest  bool
	terminal string // "", "succeeded", "failed", "abandoned"
	origTO   time.Duration
	classIdx int
}

type learnerCall struct {
	rec      *learnRec
	call     string
	duration time.Duration
	timedOut bool
	retry    bool
	bg       *learnRec
}

func newScriptedAnalyzer(w *world) *scriptedAnalyzer {
	return &scriptedAnalyzer{w: w, retryEvents: map[string]int{}, lastSelect: map[string]*selRec{}}
}

func (a *scriptedAnalyzer) actionOf(action *remoteexecution.Action) *actionSpec {
	for _, as := range a.w.actions {
		if as.action.CommandDigest.Hash == action.CommandDigest.GetHash() && as.action.DoNotCache == action.DoNotCache {
			return as
		}
	}
	return nil
}

func (a *scriptedAnalyzer) Analyze(ctx context.Context, digestFunction digest.Function, action *remoteexecution.Action) (initialsizeclass.Selector, error) {
	opt := a.w.k.SeamW("analyze", 10, a.w.faultWeight(), "ok", "analyze-error")
	if err := ctx.Err(); err != nil {
		return nil, status.FromContextError(err).Err()
	}
	if opt == 1 {
		return nil, status.Error(codes.Unavailable, "injected analyzer failure")
	}
	as := a.actionOf(action)
	if as == nil {
		panic(fmt.Sprintf("harness: analyzer got unknown action %v", action))
	}
	rec := &selRec{id: len(a.selectors), action: as}
	sel := &selector{a: a, rec: rec}
	if a.real != nil {
		rs, err := a.real.Analyze(ctx, digestFunction, action)
		if err != nil {
			a.w.violate("C07/fallback-analyzer-wrong-choice", fmt.Sprintf("FallbackAnalyzer.Analyze failed for action#%d whose timeout %v is within the permitted range: %v", as.idx, as.action.Timeout, err))
			return nil, err
		}
		sel.real = rs
	}
	a.selectors = append(a.selectors, rec)
	return sel, nil
}

type selector struct {
	a    *scriptedAnalyzer
	rec  *selRec
	real initialsizeclass.Selector
}

func (s *selector) checkLock(what string) {
	if !s.a.w.lock.Held() {
		s.a.w.violate("C07/call-without-lock", what+" called without holding the scheduler lock")
	}
}

func actionTimeout(as *actionSpec) time.Duration {
	if as.action.Timeout != nil {
		return as.action.Timeout.AsDuration()
	}
	return 30 * time.Minute
}

func (s *selector) Select(sizeClasses []uint32) (int, time.Duration, time.Duration, initialsizeclass.Learner) {
	a := s.a
	s.checkLock("Selector.Select")
	if s.rec.state != "" {
		a.w.violate("C07/selector-called-twice", fmt.Sprintf("selector #%d for action#%d: Select after %s", s.rec.id, s.rec.action.idx, s.rec.state))
	}
	t := a.w.t
	s.rec.state = "selected"
	s.rec.step = a.w.k.Step
	s.rec.sizeClasses = append([]uint32(nil), sizeClasses...)
	full := actionTimeout(s.rec.action)
	if s.real != nil {
		idx, expected, timeout, rl := s.real.Select(sizeClasses)
		s.rec.index, s.rec.expected, s.rec.timeout = idx, expected, timeout
		if idx != 0 || expected != full || timeout != full || rl == nil {
			a.w.violate("C07/fallback-analyzer-wrong-choice", fmt.Sprintf("FallbackAnalyzer chose size class index %d, expected duration %s, timeout %s (learner %v) for action#%d with timeout %s on size classes %v; documented: smallest size class, the action's timeout for both", idx, expected, timeout, rl != nil, s.rec.action.idx, full, sizeClasses))
		}
		a.lastSelect[s.rec.action.hash] = s.rec
		a.w.k.Probe("real_fallback_analyzer_selected")
		l := a.newLearner(s.rec.action, "fg", idx == len(sizeClasses)-1, full, idx)
		l.real = rl
		return idx, expected, timeout, l
	}
	s.rec.index = t.Choice(len(sizeClasses))
	s.rec.timeout = pick(t, []time.Duration{full, full / 2, 10 * time.Second})
	if s.rec.timeout > full {
		s.rec.timeout = full
	}
	s.rec.expected = pick(t, []time.Duration{time.Second, 5 * time.Second, 30 * time.Second})
	a.lastSelect[s.rec.action.hash] = s.rec
	l := a.newLearner(s.rec.action, "fg", s.rec.index == len(sizeClasses)-1, full, s.rec.index)
	return s.rec.index, s.rec.expected, s.rec.timeout, l
}

func (s *selector) Abandoned() {
	s.checkLock("Selector.Abandoned")
	if s.rec.state != "" {
		s.a.w.violate("C07/selector-called-twice", fmt.Sprintf("selector #%d for action#%d: Abandoned after %s", s.rec.id, s.rec.action.idx, s.rec.state))
	}
	s.rec.state = "abandoned"
	if s.real != nil {
		s.real.Abandoned()
	}
}

func (a *scriptedAnalyzer) newLearner(as *actionSpec, kind string, largest bool, origTO time.Duration, classIdx int) *learner {
	rec := &learnRec{id: len(a.learners), action: as, kind: kind, largest: largest, origTO: origTO, classIdx: classIdx}
	a.learners = append(a.learners, rec)
	return &learner{a: a, rec: rec}
}

type learner struct {
	a    *scriptedAnalyzer
	rec  *learnRec
	real initialsizeclass.Learner
}

func (l *learner) terminal(call string) {
	if !l.a.w.lock.Held() {
		l.a.w.violate("C07/call-without-lock", "Learner."+call+" called without holding the scheduler lock")
	}
	if l.rec.terminal != "" {
		l.a.w.violate("C07/learner-called-twice", fmt.Sprintf("learner #%d (%s) of action#%d: %s after %s", l.rec.id, l.rec.kind, l.rec.action.idx, call, l.rec.terminal))
	}
	l.rec.terminal = call
}

func (l *learner) Succeeded(duration time.Duration, sizeClasses []uint32) (int, time.Duration, time.Duration, initialsizeclass.Learner) {
	l.terminal("succeeded")
	t := l.a.w.t
	c := learnerCall{rec: l.rec, call: "succeeded", duration: duration}
	if l.real != nil {
		idx, expected, timeout, bgl := l.real.Succeeded(duration, sizeClasses)
		if bgl != nil {
			l.a.w.violate("C07/fallback-analyzer-wrong-choice", fmt.Sprintf("FallbackAnalyzer asked for background learning (index %d) after action#%d succeeded", idx, l.rec.action.idx))
			bg := l.a.newLearner(l.rec.action, "bg", idx == len(sizeClasses)-1, l.rec.origTO, idx)
			bg.real = bgl
			c.bg = bg.rec
			l.a.calls = append(l.a.calls, c)
			return idx, expected, timeout, bg
		}
		l.a.calls = append(l.a.calls, c)
		return 0, 0, 0, nil
	}
	if l.rec.kind != "bg" && t.Bool(1, 3) {
		idx := t.Choice(len(sizeClasses))
		bg := l.a.newLearner(l.rec.action, "bg", idx == len(sizeClasses)-1, l.rec.origTO, idx)
		c.bg = bg.rec
		l.a.calls = append(l.a.calls, c)
		l.a.w.k.Probe("background_learning_requested")
		return idx, 3 * time.Second, l.rec.origTO / 2, bg
	}
	l.a.calls = append(l.a.calls, c)
	return 0, 0, 0, nil
}

func (l *learner) Failed(timedOut bool) (time.Duration, time.Duration, initialsizeclass.Learner) {
	l.terminal("failed")
	t := l.a.w.t
	c := learnerCall{rec: l.rec, call: "failed", timedOut: timedOut}
	if l.real != nil {
		expected, timeout, nl := l.real.Failed(timedOut)
		if (nl != nil) != !l.rec.largest || (nl != nil && (expected != l.rec.origTO || timeout != l.rec.origTO)) {
			l.a.w.violate("C07/fallback-analyzer-wrong-choice", fmt.Sprintf("FallbackAnalyzer answered the failure of action#%d on size class index %d (largest=%v) with retry=%v expected duration %s timeout %s; documented: retry exactly when it did not run on the largest size class, with the action's timeout %s", l.rec.action.idx, l.rec.classIdx, l.rec.largest, nl != nil, expected, timeout, l.rec.origTO))
		}
		if nl != nil {
			c.retry = true
			l.a.retryEvents[l.rec.action.hash]++
			l.a.calls = append(l.a.calls, c)
			l.a.w.k.Probe("retry_on_largest")
			l.a.w.k.Probe("real_fallback_analyzer_retry")
			next := l.a.newLearner(l.rec.action, "fg-largest", true, l.rec.origTO, -1)
			next.real = nl
			return expected, timeout, next
		}
		l.a.calls = append(l.a.calls, c)
		return 0, 0, nil
	}
	if !l.rec.largest && l.rec.kind == "fg" && (l.a.w.fair || t.Bool(3, 4)) {
		c.retry = true
		l.a.retryEvents[l.rec.action.hash]++
		l.a.calls = append(l.a.calls, c)
		l.a.w.k.Probe("retry_on_largest")
		return 11 * time.Second, l.rec.origTO, l.a.newLearner(l.rec.action, "fg-largest", true, l.rec.origTO, -1)
	}
	l.a.calls = append(l.a.calls, c)
	return 0, 0, nil
}

func (l *learner) Abandoned() {
	l.terminal("abandoned")
	if l.real != nil {
		l.real.Abandoned()
	}
	l.a.calls = append(l.a.calls, learnerCall{rec: l.rec, call: "abandoned"})
}

package w1

import (
	"fmt"
	"math"
	"sort"
	"strings"
	"time"

	remoteexecution "github.com/bazelbuild/remote-apis/build/bazel/remote/execution/v2"
	"github.com/buildbarn/bb-remote-execution/pkg/scheduler"
)

// fairness is the executable reference of the documented scheduling policy
// (C04). It is deliberately naive: no heaps, no incremental state except the
// two things that are history (when an invocation last had an operation
// started, and since when a worker serves an invocation at each level), which
// it maintains from observed events, never from the scheduler's own fields.
type fairness struct {
	o *oracles
	// When did an invocation (identified by object identity, so that removal
	// and re-creation are seen) last have an operation started. An interval,
	// because cancelling a queued task also counts as a start in the
	// implementation, which the documented policy does not say.
	lastStarted map[uintptr]*interval
	sticky      map[uintptr]*stickyState
	checkedPull int
	checkedPush int
	stickyTurns int
	ambiguous   int
}

type interval struct{ lo, hi time.Time }

type stickyState struct {
	start []time.Time
	known bool
}

func newFairness(o *oracles) *fairness {
	return &fairness{o: o, lastStarted: map[uintptr]*interval{}, sticky: map[uintptr]*stickyState{}}
}

type mNode struct {
	path     []string
	id       uintptr
	direct   []*scheduler.VerifOperation
	children map[string]*mNode
	exec     map[string]bool
	ls       *interval
	wbLS     time.Time // white-box value, for diagnostics only
}

func pathKey(p []string) string { return strings.Join(p, "\x00") }

type tree struct {
	nodes map[string]*mNode
	root  *mNode
}

func (f *fairness) buildTree(q scheduler.VerifQueueKey, snap *scheduler.VerifSnapshot, asQueued uintptr) *tree {
	t := &tree{nodes: map[string]*mNode{}}
	for i := range snap.Invocations {
		inv := &snap.Invocations[i]
		if inv.Queue != q {
			continue
		}
		n := &mNode{path: inv.Path, id: inv.ID, children: map[string]*mNode{}, exec: map[string]bool{}, ls: f.lastStarted[inv.ID], wbLS: inv.LastOperationStarted}
		t.nodes[pathKey(inv.Path)] = n
	}
	get := func(p []string) *mNode {
		n := t.nodes[pathKey(p)]
		if n == nil {
			// Node that existed before the decision but was removed by it
			// (it cannot have had queued operations).
			n = &mNode{path: p, children: map[string]*mNode{}, exec: map[string]bool{}}
			t.nodes[pathKey(p)] = n
		}
		return n
	}
	t.root = get(nil)
	// Link children (all prefixes exist because nodes are only kept while
	// something lives below them).
	keys := make([]string, 0, len(t.nodes))
	for k := range t.nodes {
		keys = append(keys, k)
	}
	sort.Strings(keys)
	for _, k := range keys {
		n := t.nodes[k]
		if len(n.path) > 0 {
			get(n.path[:len(n.path)-1]).children[n.path[len(n.path)-1]] = n
		}
	}
	for i := range snap.Operations {
		op := &snap.Operations[i]
		if op.Queue != q || op.Stage == remoteexecution.ExecutionStage_COMPLETED {
			continue
		}
		if op.Stage == remoteexecution.ExecutionStage_QUEUED || op.TaskID == asQueued {
			n := get(op.Invocation)
			for d := len(op.Invocation); d > 0; d-- {
				p := get(op.Invocation[:d-1])
				p.children[op.Invocation[d-1]] = get(op.Invocation[:d])
			}
			n.direct = append(n.direct, op)
			continue
		}
		for d := len(op.Invocation); d >= 0; d-- {
			get(op.Invocation[:d]).exec[op.WorkerKey] = true
		}
	}
	return t
}

func (n *mNode) queued() bool {
	if len(n.direct) > 0 {
		return true
	}
	for _, c := range n.children {
		if c.queued() {
			return true
		}
	}
	return false
}

// opLess is the documented order of operations queued in one invocation.
func opLess(a, b *scheduler.VerifOperation) bool {
	if a.Priority != b.Priority {
		return a.Priority < b.Priority
	}
	if a.ExpectedDuration != b.ExpectedDuration {
		return a.ExpectedDuration > b.ExpectedDuration
	}
	return a.QueuedAt.Before(b.QueuedAt)
}

func (n *mNode) bestDirect() []*scheduler.VerifOperation {
	var best []*scheduler.VerifOperation
	for _, op := range n.direct {
		switch {
		case len(best) == 0 || opLess(op, best[0]):
			best = []*scheduler.VerifOperation{op}
		case !opLess(best[0], op):
			best = append(best, op)
		}
	}
	return best
}

const scoreTolerance = 1e-9

func (n *mNode) queuedChildren() []*mNode {
	names := make([]string, 0, len(n.children))
	for k, c := range n.children {
		if c.queued() {
			names = append(names, k)
		}
	}
	sort.Strings(names)
	out := make([]*mNode, 0, len(names))
	for _, k := range names {
		out = append(out, n.children[k])
	}
	return out
}

// firstPriorities returns the priorities the invocation's next operation may
// have (more than one only in case of ties).
func (n *mNode) firstPriorities() []int32 {
	if len(n.direct) > 0 {
		return []int32{n.bestDirect()[0].Priority}
	}
	var out []int32
	for _, c := range n.preferredChildren() {
		out = append(out, c.firstPriorities()...)
	}
	return out
}

func (n *mNode) scoreRange() (float64, float64) {
	lo, hi := math.Inf(1), math.Inf(-1)
	for _, p := range n.firstPriorities() {
		s := float64(len(n.exec)+1) * math.Pow(2, float64(p)/100)
		lo, hi = math.Min(lo, s), math.Max(hi, s)
	}
	return lo, hi
}

// scoreLess reports whether an invocation with e executing workers whose next
// operation has priority p certainly has a lower score
// (executing workers + 1) * 2^(priority/100) than one with (e2, p2). Only the
// ratio of the two scores is ever formed, so that priorities anywhere in the
// int32 range compare correctly (2^(p/100) itself overflows a float64 beyond
// |p| of about 10^5).
func scoreLess(e int, p int32, e2 int, p2 int32) bool {
	a, b := float64(e+1), float64(e2+1)
	switch {
	case p == p2:
		return a < b
	case p < p2:
		b *= math.Pow(2, (float64(p2)-float64(p))/100)
	default:
		a *= math.Pow(2, (float64(p)-float64(p2))/100)
	}
	return a*(1+scoreTolerance) < b
}

// certainlyBefore: whichever of their possible next operations is taken, d's
// score is lower than c's.
func certainlyBefore(d, c *mNode) bool {
	pd, pc := d.firstPriorities(), c.firstPriorities()
	if len(pd) == 0 || len(pc) == 0 {
		return false
	}
	for _, x := range pd {
		for _, y := range pc {
			if !scoreLess(len(d.exec), x, len(c.exec), y) {
				return false
			}
		}
	}
	return true
}

// minimalByScore returns the queued children whose score may be the lowest.
func (n *mNode) minimalByScore() ([]*mNode, float64) {
	kids := n.queuedChildren()
	var out []*mNode
	for _, c := range kids {
		beaten := false
		for _, d := range kids {
			if d != c && certainlyBefore(d, c) {
				beaten = true
				break
			}
		}
		if !beaten {
			out = append(out, c)
		}
	}
	return out, 0
}

// preferredChildren: lowest score, ties to the least recently started.
func (n *mNode) preferredChildren() []*mNode {
	m, _ := n.minimalByScore()
	var out []*mNode
	for _, c := range m {
		dominated := false
		for _, d := range m {
			// The tie-break is only enforceable for exact ties, i.e. equal
			// priorities (scores are then small integers); with different
			// priorities a near-tie is decided by floating-point rounding.
			if d != c && d.ls != nil && c.ls != nil && d.ls.hi.Before(c.ls.lo) && samePriority(c, d) {
				dominated = true
			}
		}
		if !dominated {
			out = append(out, c)
		}
	}
	return out
}

func samePriority(a, b *mNode) bool {
	pa, pb := a.firstPriorities(), b.firstPriorities()
	if len(pa) == 0 || len(pb) == 0 {
		return false
	}
	for _, x := range pa {
		if x != pa[0] {
			return false
		}
	}
	for _, x := range pb {
		if x != pa[0] {
			return false
		}
	}
	return true
}

// acceptable computes the set of operations the documented policy allows a
// worker to be given next.
func (f *fairness) acceptable(n *mNode, now time.Time, keys []string, limits []time.Duration, st *stickyState, level int, stickyOn bool, out map[string]bool, why *[]string) {
	if len(n.direct) > 0 {
		for _, op := range n.bestDirect() {
			out[op.Name] = true
		}
		return
	}
	m, _ := n.minimalByScore()
	chosen := n.preferredChildren()
	{
		var desc []string
		for _, c := range n.queuedChildren() {
			lo, hi := c.scoreRange()
			ls := "?"
			if c.ls != nil {
				ls = fmt.Sprintf("%s..%s", c.ls.lo.Sub(startTime), c.ls.hi.Sub(startTime))
			}
			desc = append(desc, fmt.Sprintf("%s{exec=%d prio=%v score=%.4g..%.4g lastStarted=%s (scheduler's own field: %s)}", c.path[len(c.path)-1], len(c.exec), c.firstPriorities(), lo, hi, ls, c.wbLS.Sub(startTime)))
		}
		*why = append(*why, fmt.Sprintf("level %d candidates: %v", level, desc))
	}
	var s *mNode
	if stickyOn && level < len(keys) && level < len(limits) {
		s = n.children[keys[level]]
		if s != nil && s.queued() {
			inM := false
			for _, c := range m {
				if c == s {
					inM = true
				}
			}
			if inM && len(m) > 1 {
				exact := true
				for _, c := range m {
					if !samePriority(c, s) {
						exact = false
					}
				}
				switch {
				case !exact:
					chosen = append(append([]*mNode(nil), chosen...), s)
					f.ambiguous++
				case !st.known:
					chosen = append(append([]*mNode(nil), chosen...), s)
					f.ambiguous++
				case st.start[level].Add(limits[level]).After(now):
					chosen = []*mNode{s}
					*why = append(*why, fmt.Sprintf("level %d: tie turned to sticky invocation %q (serving since %s, limit %s)", level, keys[level], st.start[level].Sub(startTime), limits[level]))
				default:
					*why = append(*why, fmt.Sprintf("level %d: stickiness for %q expired (serving since %s, limit %s, now %s)", level, keys[level], st.start[level].Sub(startTime), limits[level], now.Sub(startTime)))
				}
			}
		} else {
			s = nil
		}
	}
	seen := map[*mNode]bool{}
	for _, c := range chosen {
		if seen[c] {
			continue
		}
		seen[c] = true
		f.acceptable(c, now, keys, limits, st, level+1, stickyOn && s != nil && c == s, out, why)
	}
}

func lcp(a, b []string) int {
	n := 0
	for n < len(a) && n < len(b) && a[n] == b[n] {
		n++
	}
	return n
}

func (f *fairness) touch(snap *scheduler.VerifSnapshot, q scheduler.VerifQueueKey, path []string, now time.Time, definite bool) {
	byPath := map[string]uintptr{}
	for i := range snap.Invocations {
		inv := &snap.Invocations[i]
		if inv.Queue == q {
			byPath[pathKey(inv.Path)] = inv.ID
		}
	}
	for d := len(path); d >= 0; d-- {
		if id, ok := byPath[pathKey(path[:d])]; ok {
			iv := f.lastStarted[id]
			if iv == nil {
				iv = &interval{lo: now, hi: now}
				f.lastStarted[id] = iv
			}
			iv.hi = now
			if definite {
				iv.lo = now
			}
		}
	}
}

// step advances the model by one controller step and judges the
// assignments made in it.
func (f *fairness) step(prev, snap *scheduler.VerifSnapshot, actingWorker *workerActor, completedByWorker bool) {
	w := f.o.w
	if prev == nil {
		prev = &scheduler.VerifSnapshot{Now: startTime}
	}
	now := snap.Now
	// Invocation identities: creation sets "last started" to now.
	live := map[uintptr]bool{}
	for i := range snap.Invocations {
		id := snap.Invocations[i].ID
		live[id] = true
		if f.lastStarted[id] == nil {
			f.lastStarted[id] = &interval{lo: now, hi: now}
		}
	}
	for id := range f.lastStarted {
		if !live[id] {
			delete(f.lastStarted, id)
		}
	}
	liveW := map[uintptr]bool{}
	for i := range snap.Workers {
		wk := &snap.Workers[i]
		liveW[wk.ID] = true
		if f.sticky[wk.ID] == nil {
			f.sticky[wk.ID] = &stickyState{start: make([]time.Time, len(wk.StickinessLimits)), known: true}
		}
	}
	for id := range f.sticky {
		if !liveW[id] {
			delete(f.sticky, id)
		}
	}

	// Operations that left the QUEUED stage without being started: the
	// implementation accounts for them as if started (widen the interval).
	for i := range prev.Operations {
		pop := &prev.Operations[i]
		if pop.Stage != remoteexecution.ExecutionStage_QUEUED {
			continue
		}
		if op := findOp(snap, pop.Name); op == nil || op.Stage == remoteexecution.ExecutionStage_COMPLETED {
			f.touch(snap, pop.Queue, pop.Invocation, now, false)
		}
	}
	// Operations attached to an already executing task.
	prevTasks := map[uintptr]bool{}
	for i := range prev.Operations {
		if prev.Operations[i].Stage == remoteexecution.ExecutionStage_EXECUTING {
			prevTasks[prev.Operations[i].TaskID] = true
		}
	}
	for i := range snap.Operations {
		op := &snap.Operations[i]
		if op.Stage == remoteexecution.ExecutionStage_EXECUTING && findOp(prev, op.Name) == nil && prevTasks[op.TaskID] {
			f.touch(snap, op.Queue, op.Invocation, now, true)
		}
	}

	// New assignments.
	for i := range snap.Workers {
		nw := &snap.Workers[i]
		if nw.TaskID == 0 {
			continue
		}
		pw := findWorker(prev, nw.Queue, nw.WorkerKey)
		if pw != nil && pw.ID == nw.ID && pw.TaskID == nw.TaskID {
			continue
		}
		var ops []*scheduler.VerifOperation
		for j := range snap.Operations {
			if snap.Operations[j].TaskID == nw.TaskID {
				ops = append(ops, &snap.Operations[j])
			}
		}
		if len(ops) == 0 {
			continue
		}
		st := f.sticky[nw.ID]
		push := pw != nil && pw.ID == nw.ID && pw.Blocked
		retained := 0
		if push {
			f.checkedPush++
			f.checkHandoff(prev, nw, ops)
		} else {
			// The worker pulled the task itself. Where did it last work?
			var last []string
			switch {
			case pw != nil && pw.ID == nw.ID && pw.TaskID == 0:
				last = pw.LastInvocation
			case pw != nil && pw.ID == nw.ID && completedByWorker:
				// It just completed its previous task: lowest common
				// ancestor of that task's invocations.
				first := true
				for j := range prev.Operations {
					if prev.Operations[j].TaskID == pw.TaskID {
						if first {
							last = prev.Operations[j].Invocation
							first = false
						} else {
							last = last[:lcp(last, prev.Operations[j].Invocation)]
						}
					}
				}
			}
			t := f.buildTree(nw.Queue, snap, nw.TaskID)
			out := map[string]bool{}
			var why []string
			f.acceptable(t.root, now, last, nw.StickinessLimits, st, 0, true, out, &why)
			ok := false
			for _, op := range ops {
				if out[op.Name] {
					ok = true
				}
			}
			f.checkedPull++
			for _, l := range why {
				if strings.Contains(l, "tie turned") {
					f.stickyTurns++
					w.k.Probe("stickiness_decided")
					break
				}
			}
			if !ok {
				for j := range prev.Invocations {
					if pi := &prev.Invocations[j]; pi.Queue == nw.Queue && len(pi.QueuedChildren) > 0 {
						why = append(why, fmt.Sprintf("scheduler's heap before the step at %s: %s priorities %v", shortInv(pi.Path), shortInv(pi.QueuedChildren), pi.QueuedChildrenPriorities))
					}
				}
				var acc []string
				for name := range out {
					o2 := findOp(snap, name)
					acc = append(acc, fmt.Sprintf("%s{inv=%v prio=%d exp=%s queued=%s}", name[30:], o2.Invocation, o2.Priority, o2.ExpectedDuration, o2.QueuedAt.Sub(startTime)))
				}
				sort.Strings(acc)
				got := ops[0]
				w.violate("C04/wrong-task-selected", fmt.Sprintf("worker %s (last invocation %v, stickiness limits %v) was given operation %s{inv=%v prio=%d exp=%s queued=%s}; the documented policy allows only %v. %s",
					nw.WorkerKey, last, nw.StickinessLimits, got.Name[30:], got.Invocation, got.Priority, got.ExpectedDuration, got.QueuedAt.Sub(startTime), acc, strings.Join(why, "; ")))
			}
			if len(ops) == 1 {
				p := ops[0].Invocation
				for retained < len(p) && retained < len(last) && retained < len(nw.StickinessLimits) && p[retained] == last[retained] {
					retained++
				}
			} else {
				st.known = false
			}
		}
		if len(ops) == 1 || push {
			for l := retained; l < len(st.start); l++ {
				st.start[l] = now
			}
			if push {
				st.known = true
			}
		}
		for _, op := range ops {
			f.touch(snap, op.Queue, op.Invocation, now, true)
		}
	}
}

// checkHandoff: a task arriving while workers wait goes to a worker that last
// served the most closely related invocation.
func (f *fairness) checkHandoff(prev *scheduler.VerifSnapshot, nw *scheduler.VerifWorker, ops []*scheduler.VerifOperation) {
	w := f.o.w
	best := math.MaxInt32
	for i := range prev.Workers {
		c := &prev.Workers[i]
		if c.Queue != nw.Queue || !c.Blocked {
			continue
		}
		for _, op := range ops {
			if d := len(op.Invocation) - lcp(c.LastInvocation, op.Invocation); d < best {
				best = d
			}
		}
	}
	pw := findWorker(prev, nw.Queue, nw.WorkerKey)
	mine := math.MaxInt32
	for _, op := range ops {
		if d := len(op.Invocation) - lcp(pw.LastInvocation, op.Invocation); d < mine {
			mine = d
		}
	}
	if mine != best {
		w.violate("C04/handoff-not-closest", fmt.Sprintf("task %s (invocation %v) was handed to waiting worker %s, which last served %v (distance %d), although a waiting worker at distance %d exists", short(nw.ActionDigest), ops[0].Invocation, nw.WorkerKey, pw.LastInvocation, mine, best))
	}
	if best > 0 {
		w.k.Probe("handoff_to_related_worker")
	}
}

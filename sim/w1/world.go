// Package w1 is the scheduler world: a real InMemoryBuildQueue driven by
// simulated clients, adversarial scripted workers and an operator, under a
// simulated clock, with oracles for properties C01-C07.
package w1

import (
	"context"
	"crypto/sha256"
	"encoding/hex"
	"fmt"
	"sort"
	"strings"
	"time"

	remoteexecution "github.com/bazelbuild/remote-apis/build/bazel/remote/execution/v2"
	"github.com/buildbarn/bb-remote-execution/pkg/scheduler"
	"github.com/buildbarn/bb-remote-execution/pkg/scheduler/initialsizeclass"
	"github.com/buildbarn/bb-remote-execution/pkg/scheduler/invocation"
	"github.com/buildbarn/bb-remote-execution/pkg/scheduler/platform"
	"github.com/buildbarn/bb-remote-execution/pkg/scheduler/routing"
	"github.com/buildbarn/bb-remote-execution/pkg/verifsim/simenv"
	"github.com/buildbarn/bb-remote-execution/pkg/verifsim/simrun"
	"github.com/buildbarn/bb-remote-execution/pkg/verifsim/simsync"
	"github.com/buildbarn/bb-storage/pkg/blobstore/buffer"
	"github.com/buildbarn/bb-storage/pkg/blobstore/slicing"
	"github.com/buildbarn/bb-storage/pkg/digest"
	"github.com/google/uuid"
	"google.golang.org/grpc/codes"
	"google.golang.org/grpc/status"
	"google.golang.org/protobuf/proto"
	"google.golang.org/protobuf/types/known/anypb"
	"google.golang.org/protobuf/types/known/durationpb"
	"google.golang.org/protobuf/types/known/wrapperspb"
)

var startTime = time.Unix(1700000000, 0).UTC()

type queueSpec struct {
	prefix      string
	platform    *remoteexecution.Platform
	key         platform.Key
	predeclared bool
	sizeClasses []uint32
	stickiness  []time.Duration
	maxBG       int
	bgPriority  int32
}

func (q *queueSpec) String() string {
	return fmt.Sprintf("queue{prefix=%q platform=%s predeclared=%v sizes=%v stick=%v maxBG=%d}", q.prefix, q.key.GetPlatformString(), q.predeclared, q.sizeClasses, q.stickiness, q.maxBG)
}

type actionSpec struct {
	idx      int
	instance string
	action   *remoteexecution.Action
	digest   digest.Digest
	pb       *remoteexecution.Digest
	hash     string
}

type world struct {
	r     *simrun.Run
	k     *simsync.Kernel
	t     *simsync.Tape
	prop  string
	clock *simenv.SimClock
	bq    *scheduler.InMemoryBuildQueue
	cfg   scheduler.InMemoryBuildQueueConfiguration
	lock  *simsync.Mutex

	queues  []*queueSpec
	actions []*actionSpec
	byHash  map[string]*actionSpec

	clients  []*client
	workers  []*workerActor
	operator *operatorActor

	stopping  bool // no new client/operator operations
	honest    bool // workers behave
	draining  bool // the end-of-run protocol has begun
	exiting   bool // workers leave their loops
	leaving   bool // clients and operator abandon whatever they wait for
	uuidSeq   uint64
	markerSeq int

	analyzer *scriptedAnalyzer
	orc      *oracles

	knownNames []string // operation names seen by clients
	mixedDepth bool     // invocation key lists of different lengths occur
	maxOps     int
	faultFree  bool
	fair       bool // C04 workload shape
	sequential bool
	// staffed counts the workers placed on each multi-size-class queue;
	// flaky runs have workers that forget their task often.
	staffed map[*queueSpec]int
	flaky   bool
	// demux: routers registered with the DemultiplexingActionRouter.
	demux   []demuxEntry
	demuxOn bool
	// timePressure weights clock advances against actor progress.
	timePressure int
}

// --- fake CAS holding Action messages -------------------------------------

type fakeCAS struct{ w *world }

func (c *fakeCAS) Get(ctx context.Context, d digest.Digest) buffer.Buffer {
	opt := c.w.k.SeamW("cas-get", 10, c.w.faultWeight(), "ok", "cas-unavailable")
	if err := ctx.Err(); err != nil {
		return buffer.NewBufferFromError(status.FromContextError(err).Err())
	}
	if opt == 1 {
		return buffer.NewBufferFromError(status.Error(codes.Unavailable, "injected CAS failure"))
	}
	a, ok := c.w.byHash[d.GetHashString()]
	if !ok || a.digest != d {
		return buffer.NewBufferFromError(status.Error(codes.NotFound, "no such action"))
	}
	return buffer.NewProtoBufferFromProto(proto.Clone(a.action), buffer.UserProvided)
}

func (c *fakeCAS) GetFromComposite(ctx context.Context, parentDigest, childDigest digest.Digest, slicer slicing.BlobSlicer) buffer.Buffer {
	return buffer.NewBufferFromError(status.Error(codes.Unimplemented, "not used"))
}

func (c *fakeCAS) Put(ctx context.Context, d digest.Digest, b buffer.Buffer) error {
	b.Discard()
	return status.Error(codes.Unimplemented, "not used")
}

func (c *fakeCAS) FindMissing(ctx context.Context, digests digest.Set) (digest.Set, error) {
	return digest.EmptySet, status.Error(codes.Unimplemented, "not used")
}

func (c *fakeCAS) GetCapabilities(ctx context.Context, instanceName digest.InstanceName) (*remoteexecution.ServerCapabilities, error) {
	return nil, status.Error(codes.Unimplemented, "not used")
}

// --- authorizer -------------------------------------------------------------

type simAuthorizer struct {
	w    *world
	name string
}

func (a *simAuthorizer) Authorize(ctx context.Context, instanceNames []digest.InstanceName) []error {
	opt := a.w.k.SeamW("auth-"+a.name, 10, a.w.faultWeight(), "ok", "auth-deny")
	errs := make([]error, len(instanceNames))
	if err := ctx.Err(); err != nil {
		for i := range errs {
			errs[i] = status.FromContextError(err).Err()
		}
		return errs
	}
	if opt == 1 {
		for i := range errs {
			errs[i] = status.Error(codes.PermissionDenied, "injected denial")
		}
	}
	return errs
}

func (w *world) faultWeight() int {
	if w.faultFree {
		return 0
	}
	return 1
}

// --- invocation key extractor for a third level ------------------------------

type mnemonicKeyExtractor struct{}

func (mnemonicKeyExtractor) ExtractKey(ctx context.Context, requestMetadata *remoteexecution.RequestMetadata) (invocation.Key, error) {
	id, err := anypb.New(wrapperspb.String("m:" + requestMetadata.GetActionMnemonic()))
	if err != nil {
		return "", err
	}
	return invocation.NewKey(id)
}

type demuxEntry struct {
	prefix, platform, marker string
}

// constKeyExtractor yields a constant invocation key.
type constKeyExtractor struct{ value string }

func (e constKeyExtractor) ExtractKey(ctx context.Context, requestMetadata *remoteexecution.RequestMetadata) (invocation.Key, error) {
	id, err := anypb.New(wrapperspb.String(e.value))
	if err != nil {
		return "", err
	}
	return invocation.NewKey(id)
}

// expectedRouterMarker: the router registered under the longest instance
// name prefix with an equal platform handles the request ("" = default).
func (w *world) expectedRouterMarker(instance, platformStr string) string {
	best, marker := -1, ""
	for _, e := range w.demux {
		if e.platform != platformStr {
			continue
		}
		if e.prefix == "" || instance == e.prefix || strings.HasPrefix(instance, e.prefix+"/") {
			if len(e.prefix) > best {
				best, marker = len(e.prefix), e.marker
			}
		}
	}
	return marker
}

// --- setup -------------------------------------------------------------------

var platforms = []*remoteexecution.Platform{
	{},
	{Properties: []*remoteexecution.Platform_Property{{Name: "os", Value: "linux"}}},
	{Properties: []*remoteexecution.Platform_Property{{Name: "arch", Value: "arm"}, {Name: "os", Value: "linux"}}},
}

var (
	prefixes  = []string{"", "a", "a/b"}
	instances = []string{"", "a", "a/b", "a/b/c", "x", "ab"}
)

func pick[T any](t *simsync.Tape, xs []T) T { return xs[t.Choice(len(xs))] }

func newWorld(r *simrun.Run, prop string) *world {
	w := &world{r: r, k: r.K, t: r.T, prop: prop, byHash: map[string]*actionSpec{}, staffed: map[*queueSpec]int{}}
	t := w.t
	w.clock = simenv.NewSimClock(w.k, startTime)

	// Per-property workload shaping.
	switch prop {
	case "C04":
		// The policy check wants deep queues and few, well-behaved workers.
		w.faultFree = true
		w.fair = true
		w.honest = true
	}

	w.cfg = scheduler.InMemoryBuildQueueConfiguration{
		ExecutionUpdateInterval:             pick(t, []time.Duration{10 * time.Second, time.Second, time.Minute}),
		OperationWithNoWaitersTimeout:       pick(t, []time.Duration{time.Minute, 5 * time.Second}),
		PlatformQueueWithNoWorkersTimeout:   pick(t, []time.Duration{15 * time.Minute, 30 * time.Second}),
		BusyWorkerSynchronizationInterval:   10 * time.Second,
		WorkerTaskRetryCount:                pick(t, []int{9, 0, 1, 2}),
		WorkerWithNoSynchronizationsTimeout: pick(t, []time.Duration{time.Minute, 20 * time.Second}),
	}
	w.timePressure = pick(t, []int{1, 0, 2, 4, 8})
	idle := pick(t, []time.Duration{time.Minute, 15 * time.Second})
	w.cfg.GetIdleWorkerSynchronizationInterval = func() time.Duration { return idle }

	// Queues.
	nq := 1 + t.Choice(3)
	if w.fair {
		nq = 1
	}
	seen := map[string]bool{}
	for len(w.queues) < nq {
		q := &queueSpec{prefix: pick(t, prefixes), platform: pick(t, platforms)}
		q.key = platform.MustNewKey(q.prefix, q.platform)
		id := q.prefix + "|" + q.key.GetPlatformString()
		if seen[id] {
			// Draw again; bounded because the tape eventually yields
			// distinct values in generation mode, and in replay mode
			// exhausted tapes yield 0, so fall back deterministically.
			if t.Exhausted() {
				break
			}
			continue
		}
		seen[id] = true
		q.predeclared = t.Bool(2, 3) || w.fair
		if q.predeclared {
			q.sizeClasses = pick(t, [][]uint32{{0}, {1, 4}, {1, 2, 8}, {3}})
			q.stickiness = pick(t, [][]time.Duration{nil, {30 * time.Second}, {30 * time.Second, 5 * time.Second}, {time.Second, time.Minute, time.Minute}})
			if w.fair && t.Bool(3, 4) {
				q.stickiness = pick(t, [][]time.Duration{{30 * time.Second, 5 * time.Second}, {time.Second, time.Minute, time.Minute}, {15 * time.Second, 45 * time.Second, 15 * time.Second}, {time.Minute, 25 * time.Second}})
			}
			q.maxBG = t.Choice(3)
			q.bgPriority = int32(pick(t, []int{0, 50, -50}))
		} else {
			q.sizeClasses = []uint32{uint32(t.Choice(2) * 5)}
		}
		w.queues = append(w.queues, q)
	}

	// Actions.
	na := 2 + t.Choice(4)
	for i := 0; i < na; i++ {
		var inst string
		var plat *remoteexecution.Platform
		if t.Bool(3, 4) || w.fair {
			// Derived from a queue: instance name has the queue's prefix.
			q := pick(t, w.queues)
			plat = q.platform
			inst = pick(t, []string{q.prefix, strings.TrimPrefix(q.prefix+"/c", "/"), strings.TrimPrefix(q.prefix+"/b", "/")})
		} else {
			inst = pick(t, instances)
			plat = pick(t, platforms)
		}
		a := &remoteexecution.Action{
			CommandDigest:   &remoteexecution.Digest{Hash: strings.Repeat(fmt.Sprintf("%02x", i), 32), SizeBytes: int64(10 + i)},
			InputRootDigest: &remoteexecution.Digest{Hash: strings.Repeat("ab", 32), SizeBytes: 5},
			DoNotCache:      t.Bool(1, 4),
			Platform:        proto.Clone(plat).(*remoteexecution.Platform),
		}
		if to := pick(t, []time.Duration{0, time.Minute, 5 * time.Minute}); to != 0 {
			a.Timeout = durationpb.New(to)
		}
		data, err := proto.MarshalOptions{Deterministic: true}.Marshal(a)
		if err != nil {
			panic(simsync.HarnessError{Msg: err.Error()})
		}
		sum := sha256.Sum256(data)
		df := digest.MustNewFunction(inst, remoteexecution.DigestFunction_SHA256)
		d, err := df.NewDigest(hex.EncodeToString(sum[:]), int64(len(data)))
		if err != nil {
			panic(simsync.HarnessError{Msg: err.Error()})
		}
		if _, dup := w.byHash[d.GetHashString()]; dup {
			continue
		}
		as := &actionSpec{idx: len(w.actions), instance: inst, action: a, digest: d, pb: d.GetProto(), hash: d.GetHashString()}
		w.actions = append(w.actions, as)
		w.byHash[as.hash] = as
	}

	w.analyzer = newScriptedAnalyzer(w)
	if !w.fair && t.Bool(1, 5) {
		// One run in five decides size classes with the repository's own
		// FallbackAnalyzer instead of the scripted one.
		w.analyzer.real = initialsizeclass.NewFallbackAnalyzer(initialsizeclass.NewActionTimeoutExtractor(30*time.Minute, 24*time.Hour))
	}
	baseExtractors := []invocation.KeyExtractor{invocation.CorrelatedInvocationsIDKeyExtractor, invocation.ToolInvocationIDKeyExtractor, mnemonicKeyExtractor{}}
	var router routing.ActionRouter = routing.NewSimpleActionRouter(platform.ActionKeyExtractor, baseExtractors, w.analyzer)
	if !w.fair && t.Bool(1, 2) {
		// Half of the runs route through the real DemultiplexingActionRouter:
		// 1-3 (prefix, platform) pairs get a router of their own that marks
		// its requests with a constant first invocation key, so that the
		// oracle can tell which router handled a request.
		demux := routing.NewDemultiplexingActionRouter(platform.ActionKeyExtractor, router)
		n := 1 + t.Choice(3)
		seenR := map[string]bool{}
		for i := 0; i < n; i++ {
			prefix, plat := pick(t, prefixes), pick(t, platforms)
			ps := platformKeyString(plat)
			if seenR[prefix+"|"+ps] {
				continue
			}
			seenR[prefix+"|"+ps] = true
			marker := fmt.Sprintf("router:%d", len(w.demux))
			sub := routing.NewSimpleActionRouter(platform.ActionKeyExtractor, append([]invocation.KeyExtractor{constKeyExtractor{marker}}, baseExtractors...), w.analyzer)
			if err := demux.RegisterActionRouter(mustInstanceName(prefix), plat, sub); err != nil {
				panic(simsync.HarnessError{Msg: "RegisterActionRouter: " + err.Error()})
			}
			w.demux = append(w.demux, demuxEntry{prefix: prefix, platform: ps, marker: marker})
			r.Logf("demultiplexing router %s for prefix=%q platform=%s", marker, prefix, ps)
		}
		w.demuxOn = true
		router = demux
	}
	if t.Bool(1, 2) {
		// Invocation key lists of different lengths: requests whose target
		// is "//depth1" or "//depth2" keep only their first one or two
		// keys, so that invocations hold directly queued operations and
		// nested invocations at the same time.
		w.mixedDepth = true
		router = depthRouter{router}
	}
	w.bq = scheduler.NewInMemoryBuildQueue(
		&fakeCAS{w}, w.clock, w.newUUID, &w.cfg, 1<<20, router,
		&simAuthorizer{w, "exec"}, &simAuthorizer{w, "drain"}, &simAuthorizer{w, "kill"}, &simAuthorizer{w, "sync"},
	)
	w.lock = w.bq.VerifLock().(*simsync.Mutex)
	r.Logf("config: update=%s noWaiters=%s queueTimeout=%s retries=%d workerTimeout=%s idleSync=%s timePressure=%d", w.cfg.ExecutionUpdateInterval, w.cfg.OperationWithNoWaitersTimeout, w.cfg.PlatformQueueWithNoWorkersTimeout, w.cfg.WorkerTaskRetryCount, w.cfg.WorkerWithNoSynchronizationsTimeout, idle, w.timePressure)
	for _, q := range w.queues {
		r.Logf("%s", q)
		if q.predeclared {
			if err := w.bq.RegisterPredeclaredPlatformQueue(mustInstanceName(q.prefix), q.platform, q.stickiness, q.maxBG, q.bgPriority, q.sizeClasses); err != nil {
				panic(simsync.HarnessError{Msg: "RegisterPredeclaredPlatformQueue: " + err.Error()})
			}
		}
	}
	for _, a := range w.actions {
		r.Logf("action#%d instance=%q platform=%v dnc=%v timeout=%v hash=%s", a.idx, a.instance, a.action.Platform.GetProperties(), a.action.DoNotCache, a.action.Timeout.AsDuration(), a.hash[:8])
	}
	w.orc = newOracles(w)
	return w
}

func (w *world) newUUID() (uuid.UUID, error) {
	w.uuidSeq++
	var u uuid.UUID
	for i := 0; i < 8; i++ {
		u[15-i] = byte(w.uuidSeq >> (8 * i))
	}
	u[6] = 0x40
	u[8] = 0x80
	return u, nil
}

// run executes one complete simulated history.
func (w *world) run() {
	t := w.t
	k := w.k
	nc := 1 + t.Choice(4)
	nw := 1 + t.Choice(4)
	w.flaky = t.Bool(1, 3)
	w.maxOps = 3 + t.Choice(10)
	if w.fair {
		nc = 3 + t.Choice(6)
		nw = 1 + t.Choice(3)
		if t.Bool(1, 4) {
			// Light load: more workers than work, so that workers park
			// idle and are woken by drains, hand-offs and new tasks.
			nc = 1 + t.Choice(2)
			nw = 2 + t.Choice(3)
		}
	}
	for i := 0; i < nc; i++ {
		c := newClient(w, i)
		w.clients = append(w.clients, c)
	}
	for i := 0; i < nw; i++ {
		wa := newWorkerActor(w, i)
		w.workers = append(w.workers, wa)
	}
	w.operator = newOperator(w)

	k.AddSource(w.events)
	k.AfterStep = w.orc.afterStep

	budget := 150 + 50*t.Choice(8)
	if w.r.Tier == "thorough" {
		budget *= 3
	}
	k.Run(budget)
	if k.Failed() {
		return
	}
	w.drain()
}

// events is the world's controller event source: clock, cancellations.
func (w *world) events() []simsync.Event {
	var evs []simsync.Event
	var jumps []simenv.Jump
	wd, wa := 8, 3
	if !w.honest {
		jumps = []simenv.Jump{{D: time.Second, Weight: w.timePressure}, {D: 30 * time.Second, Weight: w.timePressure / 2}, {D: 20 * time.Minute, Weight: w.timePressure / 4}}
		wa = 1 + w.timePressure
	}
	evs = append(evs, w.clock.ClockEvents(wd, wa, nil, jumps)...)
	if (!w.faultFree && !w.stopping) || w.leaving {
		cw := 1
		if w.leaving {
			cw = 200
		}
		for _, c := range w.clients {
			if c.cancellable() {
				c := c
				evs = append(evs, simsync.Event{Key: "cancel " + c.name, Weight: cw, Fire: func() {
					w.k.FaultsFired["client-cancel"]++
					c.cancelNow()
				}})
			}
		}
		for _, wa := range w.workers {
			if wa.cancellable() && (!w.leaving || w.exiting) {
				wa := wa
				evs = append(evs, simsync.Event{Key: "cancel " + wa.name, Weight: cw, Fire: func() {
					w.k.FaultsFired["worker-cancel"]++
					wa.cancelNow()
				}})
			}
		}
		if w.operator.cancellable() {
			evs = append(evs, simsync.Event{Key: "cancel operator", Weight: cw, Fire: func() {
				w.k.FaultsFired["operator-cancel"]++
				w.operator.cancelNow()
			}})
		}
	}
	return evs
}

// drain is the end-of-run protocol: faults stop, honest workers finish
// outstanding work, then every party disappears and all timeouts pass.
func (w *world) drain() {
	k := w.k
	k.Note("drain: faults off, honest workers")
	w.draining = true
	k.FaultsOn = false
	w.faultFree = true
	w.stopping = true
	w.honest = true
	for i := 0; i < 12; i++ {
		k.Run(40)
		if k.Failed() {
			return
		}
		done := true
		for _, c := range w.clients {
			if !c.actor.Done() {
				done = false
			}
		}
		if done {
			break
		}
	}
	// Whoever is still waiting now (e.g. for a queue without workers) is
	// abandoned by its client.
	k.Note("drain: clients and operator leave")
	// From here on the schedule no longer comes from the tape (see
	// Kernel.RunFair): cancellations first, then actors round-robin, then
	// timers, then the clock.
	fair := func(key string) int {
		switch {
		case strings.HasPrefix(key, "cancel "):
			return 0
		case strings.HasPrefix(key, "lock "), strings.HasPrefix(key, "go "), strings.HasPrefix(key, "rlock "), strings.HasPrefix(key, "trylock "):
			return 1
		case strings.HasPrefix(key, "timer "), strings.HasPrefix(key, "ctx-deadline "):
			return 2
		case strings.HasPrefix(key, "advance"):
			return 3
		}
		return -1
	}
	w.leaving = true
	for i := 0; i < 40; i++ {
		k.RunFair(40, fair)
		if k.Failed() {
			return
		}
		done := w.operator.actor.Done()
		for _, c := range w.clients {
			if !c.actor.Done() {
				done = false
			}
		}
		if done {
			break
		}
	}
	k.Note("drain: workers leave")
	w.exiting = true
	for i := 0; i < 40; i++ {
		k.RunFair(40, fair)
		if k.Failed() {
			return
		}
		done := true
		for _, wa := range w.workers {
			if !wa.actor.Done() {
				done = false
			}
		}
		if done {
			break
		}
	}
	lockWaiters, blocked, seam := k.Stuck()
	if len(lockWaiters)+len(blocked)+len(seam) > 0 {
		w.violate("C06/call-never-returned", fmt.Sprintf("after all clients, workers and the operator left and all wake-up conditions occurred, these calls have still not returned: lock-waiters=%v blocked=%v parked=%v held=%v", lockWaiters, blocked, seam, k.HeldLocks()))
		return
	}
	w.orc.finalChecks()
}

// queueFor returns the queue spec a (instance name, platform) pair must be
// routed to according to the documented rule, among the given registered
// queue keys.
func longestPrefixQueue(instance string, platformStr string, registered []scheduler.VerifQueue) (string, bool) {
	best := ""
	found := false
	for _, q := range registered {
		if q.Key.Platform != platformStr {
			continue
		}
		p := q.Key.InstanceNamePrefix
		if p == "" || instance == p || strings.HasPrefix(instance, p+"/") {
			if !found || len(p) > len(best) {
				best = p
				found = true
			}
		}
	}
	return best, found
}

func sortedKeys[V any](m map[string]V) []string {
	out := make([]string, 0, len(m))
	for k := range m {
		out = append(out, k)
	}
	sort.Strings(out)
	return out
}

// World is the entry point registered for properties C01-C07.
func World(prop string) simrun.World {
	return func(r *simrun.Run) {
		w := newWorld(r, prop)
		w.run()
		r.SimTime = w.clock.Global().Sub(startTime)
		w.orc.finish()
	}
}

func platformKeyString(p *remoteexecution.Platform) string {
	return platform.MustNewKey("", p).GetPlatformString()
}

func mustInstanceName(s string) digest.InstanceName {
	in, err := digest.NewInstanceName(s)
	if err != nil {
		panic(simsync.HarnessError{Msg: err.Error()})
	}
	return in
}

// depthRouter shortens the invocation key list of requests that ask for it
// through their target ID.
type depthRouter struct{ base routing.ActionRouter }

func (r depthRouter) RouteAction(ctx context.Context, digestFunction digest.Function, action *remoteexecution.Action, requestMetadata *remoteexecution.RequestMetadata) (*remoteexecution.Action, platform.Key, []invocation.Key, initialsizeclass.Selector, error) {
	a, pk, keys, sel, err := r.base.RouteAction(ctx, digestFunction, action, requestMetadata)
	if err == nil {
		switch requestMetadata.GetTargetId() {
		case "//depth1":
			if len(keys) > 1 {
				keys = keys[:1]
			}
		case "//depth2":
			if len(keys) > 2 {
				keys = keys[:2]
			}
		}
	}
	return a, pk, keys, sel, err
}

package w1

import (
	"fmt"
	"runtime/debug"
	"sort"
	"strings"
	"sync"
	"time"

	remoteexecution "github.com/bazelbuild/remote-apis/build/bazel/remote/execution/v2"
	"github.com/buildbarn/bb-remote-execution/pkg/proto/remoteworker"
	"github.com/buildbarn/bb-remote-execution/pkg/scheduler"
	"github.com/buildbarn/bb-remote-execution/pkg/verifsim/simsync"
	status_pb "google.golang.org/genproto/googleapis/rpc/status"
	"google.golang.org/grpc/codes"
	"google.golang.org/grpc/status"
	"google.golang.org/protobuf/proto"
	"google.golang.org/protobuf/types/known/emptypb"
)

type obsKind int

const (
	obsSend obsKind = iota
	obsStreamStart
	obsStreamEnd
	obsSyncStart
	obsSyncEnd
	obsKill
	obsOperatorEnd
)

type observation struct {
	kind       obsKind
	stream     *stream
	msg        sentMessage
	worker     *workerActor
	req        *remoteworker.SynchronizeRequest
	resp       *remoteworker.SynchronizeResponse
	err        error
	killStatus *status_pb.Status
	seq        int
}

func (o observation) sortKey() string {
	switch {
	case o.stream != nil:
		return "s:" + o.stream.id
	case o.worker != nil:
		return "w:" + o.worker.name
	}
	return "o"
}

type streamTrack struct {
	lastStage    remoteexecution.ExecutionStage_Value
	doneSeen     bool
	retriesAtMsg int
	opName       string
}

type workerTrack struct {
	// Scheduler time at the end of the last Synchronize call.
	expected  time.Time
	hasSynced bool
	// model is the removal deadline according to the harness's own model:
	// end of the last Synchronize call that looked at the worker's state,
	// plus the configured timeout.
	model time.Time
	// Independent count of redundant re-issues of the current assignment.
	assignedTask uintptr
	reissues     int
}

type oracles struct {
	w       *world
	mu      sync.Mutex
	pending []observation
	seq     int

	prev *scheduler.VerifSnapshot
	snap *scheduler.VerifSnapshot

	streams map[*stream]*streamTrack
	wtrack  map[string]*workerTrack
	// mustTerminate: workers (by object identity) that existed when a
	// TerminateWorkers call matching them began and that call has returned
	// successfully: they may never be given a task again. Kept by the
	// oracle itself, not read from the scheduler's terminating flag.
	mustTerminate map[uintptr]string
	// workerBorn: the step at which each live worker object was first seen
	// (object identities are addresses, which may be reused once a worker
	// is gone).
	workerBorn map[uintptr]int
	// kill statuses issued by the operator so far
	kills        map[string]bool
	inFlightKill *status_pb.Status

	// statistics for non-triviality
	maxConcurrentStreams int
	assignments          int
	completionsByWorker  int
	completionsByOther   int
	dedupAttaches        int
	overlap              bool
	skippedSteps         int
	checkedSteps         int
	lastCounts           scheduler.VerifCounts
	fair                 *fairness
}

func newOracles(w *world) *oracles {
	o := &oracles{w: w, streams: map[*stream]*streamTrack{}, wtrack: map[string]*workerTrack{}, kills: map[string]bool{}}
	o.fair = newFairness(o)
	return o
}

// violate reports a violation if it belongs to the property this run checks
// (or is a panic); violations of other properties are only counted, so that
// each check reports its own property.
func (w *world) violate(rule, msg string) {
	if w.prop == "C14" {
		// Runs made on behalf of C14 (no lock left behind, every call
		// terminates) for the scheduler: only the kernel-level facts count.
		if rule == "C06/call-never-returned" {
			w.k.Violate("C14/call-never-returned", "[scheduler] "+msg)
		} else if strings.HasPrefix(rule, "panic:") {
			w.k.Violate(rule, msg)
		} else {
			w.r.Count("other_property_rule:"+rule, 1)
		}
		return
	}
	if strings.HasPrefix(rule, w.prop+"/") || strings.HasPrefix(rule, "panic:") {
		w.k.Violate(rule, msg)
		return
	}
	w.r.Count("other_property_rule:"+rule, 1)
}

func (o *oracles) post(obs observation) {
	o.mu.Lock()
	o.seq++
	obs.seq = o.seq
	o.pending = append(o.pending, obs)
	o.mu.Unlock()
}

func findOp(s *scheduler.VerifSnapshot, name string) *scheduler.VerifOperation {
	if s == nil {
		return nil
	}
	i := sort.Search(len(s.Operations), func(i int) bool { return s.Operations[i].Name >= name })
	if i < len(s.Operations) && s.Operations[i].Name == name {
		return &s.Operations[i]
	}
	return nil
}

func findWorker(s *scheduler.VerifSnapshot, q scheduler.VerifQueueKey, key string) *scheduler.VerifWorker {
	if s == nil {
		return nil
	}
	for i := range s.Workers {
		if s.Workers[i].WorkerKey == key && s.Workers[i].Queue == q {
			return &s.Workers[i]
		}
	}
	return nil
}

func findQueue(s *scheduler.VerifSnapshot, q scheduler.VerifQueueKey) *scheduler.VerifQueue {
	if s == nil {
		return nil
	}
	for i := range s.Queues {
		if s.Queues[i].Key == q {
			return &s.Queues[i]
		}
	}
	return nil
}

func (wa *workerActor) queueKey() scheduler.VerifQueueKey {
	return scheduler.VerifQueueKey{InstanceNamePrefix: wa.queue.prefix, Platform: wa.queue.key.GetPlatformString(), SizeClass: wa.sizeClass}
}

func (wa *workerActor) workerKey() string {
	if wa.keyJSON == "" {
		// Same encoding as the scheduler uses (encoding/json of the map,
		// which sorts keys).
		keys := sortedKeys(wa.id)
		parts := make([]string, 0, len(keys))
		for _, k := range keys {
			parts = append(parts, fmt.Sprintf("%q:%q", k, wa.id[k]))
		}
		wa.keyJSON = "{" + strings.Join(parts, ",") + "}"
	}
	return wa.keyJSON
}

func matchesPattern(id, pattern map[string]string) bool {
	for k, v := range pattern {
		if id[k] != v {
			return false
		}
	}
	return true
}

func isDrained(s *scheduler.VerifSnapshot, wk *scheduler.VerifWorker) bool {
	if wk.Terminating {
		return true
	}
	q := findQueue(s, wk.Queue)
	if q == nil {
		return false
	}
	for _, d := range q.Drains {
		if matchesPattern(wk.WorkerID, d) {
			return true
		}
	}
	return false
}

// afterStep runs at quiescence after every controller decision.
func (o *oracles) afterStep() {
	w := o.w
	if w.lock.Held() {
		o.skippedSteps++
		return
	}
	o.checkedSteps++
	counts, viol := w.bq.VerifCheckInvariantsUnlocked()
	o.lastCounts = counts
	for _, v := range viol {
		rule := "C01/structure"
		switch {
		case strings.HasPrefix(v, "cleanup heap"):
			rule = "C06/structure"
		case strings.Contains(v, "queued operations heap out of order"):
			rule = "C04/structure"
		case strings.HasPrefix(v, "deduplication map") || strings.Contains(v, "in-flight deduplication map"):
			rule = "C03/structure"
		}
		w.violate(rule, v)
	}
	snap := w.bq.VerifSnapshotUnlocked()
	o.snap = snap
	w.r.State(fmt.Sprintf("q%d/e%d/c%d/w%d/i%d", counts.TasksQueued, counts.TasksExecuting, counts.TasksCompleted, counts.Workers, counts.IdleSynchronizing))

	o.mu.Lock()
	pending := o.pending
	o.pending = nil
	o.mu.Unlock()
	sort.SliceStable(pending, func(i, j int) bool {
		if a, b := pending[i].sortKey(), pending[j].sortKey(); a != b {
			return a < b
		}
		return pending[i].seq < pending[j].seq
	})

	if w.k.TraceOn {
		o.annotate(o.prev, snap, pending)
	}
	o.snapshotInvariants(snap)
	o.diff(o.prev, snap, pending)
	o.fairnessStep(snap)
	for _, obs := range pending {
		o.process(obs, snap)
	}
	// Between Synchronize calls a worker's removal deadline never moves.
	for i := range snap.Workers {
		nw := &snap.Workers[i]
		if tr := o.wtrack[nw.WorkerKey+"|"+fmt.Sprint(nw.Queue)]; tr != nil && tr.hasSynced && !nw.InSync && !nw.Timeout.Equal(tr.expected) {
			w.violate("C06/wrong-worker-timeout", fmt.Sprintf("worker %s: removal deadline moved from %s to %s outside of a Synchronize call", nw.WorkerKey, tr.expected.Format(time.RFC3339), nw.Timeout.Format(time.RFC3339)))
		}
	}
	o.wakeupInvariants(snap)
	w.analyzer.calls = nil
	o.prev = snap
}

// snapshotInvariants checks state predicates that must hold whenever the
// scheduler's lock is free.
func (o *oracles) snapshotInvariants(s *scheduler.VerifSnapshot) {
	w := o.w
	// C03: at most one live task per cacheable action; do_not_cache tasks
	// are never shared.
	type liveKey struct{ instance, hash string }
	live := map[liveKey]uintptr{}
	active := 0
	for i := range s.Operations {
		op := &s.Operations[i]
		if op.Stage == remoteexecution.ExecutionStage_COMPLETED {
			continue
		}
		active++
		if op.DoNotCache {
			if op.TaskOps > 1 {
				w.violate("C03/do-not-cache-merged", fmt.Sprintf("uncacheable task %s (%s) is shared by %d operations", op.ActionDigest[:8], op.Name, op.TaskOps))
			}
			continue
		}
		k := liveKey{op.InstanceName, op.ActionDigest}
		if id, ok := live[k]; ok && id != op.TaskID {
			w.violate("C03/two-live-tasks", fmt.Sprintf("two tasks for cacheable action %s (instance %q) are in flight at the same time", op.ActionDigest[:8], op.InstanceName))
		}
		live[k] = op.TaskID
		if op.TaskOps > 1 {
			o.dedupAttaches++
			w.k.Probe("dedup_shared_task")
		}
	}
	// C01 (black-box restatement): no two workers hold the same task, and
	// no cacheable digest is executing on two workers.
	holders := map[uintptr]string{}
	for i := range s.Workers {
		wk := &s.Workers[i]
		if wk.TaskID == 0 {
			continue
		}
		if other, ok := holders[wk.TaskID]; ok {
			w.violate("C01/task-on-two-workers", fmt.Sprintf("task %s is assigned to workers %s and %s", wk.ActionDigest[:8], other, wk.WorkerKey))
		}
		holders[wk.TaskID] = wk.WorkerKey
	}
	// C04 hand-off invariant: no task stays queued while an undrained
	// worker of its queue is blocked waiting for work.
	queued := map[scheduler.VerifQueueKey]string{}
	for i := range s.Operations {
		op := &s.Operations[i]
		if op.Stage == remoteexecution.ExecutionStage_QUEUED {
			queued[op.Queue] = op.Name
		}
	}
	for i := range s.Workers {
		wk := &s.Workers[i]
		if wk.Blocked && !isDrained(s, wk) {
			if name, ok := queued[wk.Queue]; ok {
				w.violate("C04/queued-while-worker-waits", fmt.Sprintf("operation %s is queued in %v although undrained worker %s is blocked waiting for work", name, wk.Queue, wk.WorkerKey))
			}
		}
	}
}

func isSuccess(r *remoteexecution.ExecuteResponse) bool {
	return status.FromProto(r.GetStatus()).Code() == codes.OK && r.GetResult().GetExitCode() == 0
}

// diff validates every state change of this step against its cause.
func (o *oracles) diff(prev, snap *scheduler.VerifSnapshot, pending []observation) {
	w := o.w
	if prev == nil {
		prev = &scheduler.VerifSnapshot{Now: startTime}
	}
	acting := w.k.LastActor
	var actingWorker *workerActor
	for _, wa := range w.workers {
		if acting != nil && wa.actor == acting {
			actingWorker = wa
		}
	}
	actingOperator := acting != nil && acting == w.operator.actor

	// Accepted completion of the acting worker, if any.
	var submitted *remoteexecution.ExecuteResponse
	var submittedHash string
	if actingWorker != nil && actingWorker.req != nil && actingWorker.inCallOrJustReturned() {
		if ex := actingWorker.req.CurrentState.GetExecuting(); ex != nil {
			submittedHash = ex.ActionDigest.GetHash()
			submitted = ex.GetCompleted()
		}
	}

	prevTasks := map[uintptr]*scheduler.VerifOperation{}
	for i := range prev.Operations {
		prevTasks[prev.Operations[i].TaskID] = &prev.Operations[i]
	}
	o.checkLearnerCalls(prev, snap, actingWorker, submitted, submittedHash)

	for i := range snap.Operations {
		op := &snap.Operations[i]
		pop := findOp(prev, op.Name)
		// --- new operations -------------------------------------------------
		if pop == nil {
			_, taskExisted := prevTasks[op.TaskID]
			if !op.Background && !taskExisted && op.Stage != remoteexecution.ExecutionStage_COMPLETED {
				o.checkRouting(op, snap)
			}
			if op.Background {
				o.checkBackground(op, snap)
			}
		}
		// --- operation timeouts ---------------------------------------------
		if op.HasTimeout && (pop == nil || !pop.HasTimeout) {
			if want := snap.Now.Add(w.cfg.OperationWithNoWaitersTimeout); !op.Timeout.Equal(want) {
				w.violate("C06/wrong-operation-timeout", fmt.Sprintf("operation %s lost its last waiter at %s but is scheduled for removal at %s instead of %s", op.Name, snap.Now.Format(time.RFC3339), op.Timeout.Format(time.RFC3339), want.Format(time.RFC3339)))
			}
		}
		// --- stage regressions ------------------------------------------------
		if pop != nil && pop.TaskID == op.TaskID && pop.Stage == remoteexecution.ExecutionStage_EXECUTING && op.Stage == remoteexecution.ExecutionStage_QUEUED {
			// Only legal as retry on the largest size class.
			retried := false
			for _, c := range w.analyzer.calls {
				if c.call == "failed" && c.retry && c.rec.action.hash == op.ActionDigest {
					retried = true
				}
			}
			if !retried {
				w.violate("C02/stage-regressed", fmt.Sprintf("operation %s went from EXECUTING back to QUEUED without a size class retry", op.Name))
				if submitted != nil && isSuccess(submitted) && submittedHash == op.ActionDigest {
					// The worker's successful completion was the end of
					// the task: queueing it again restarts a completed task.
					w.violate("C01/restarted-after-completion", fmt.Sprintf("worker %s reported the successful completion of action %s (%q) and operation %s of that task is QUEUED again instead of COMPLETED: a completed task is about to be started again", actingWorker.name, short(submittedHash), submitted.Message, op.Name))
				}
			}
		}
		if pop != nil && pop.TaskID == op.TaskID && pop.Stage != remoteexecution.ExecutionStage_COMPLETED && pop.Queue != op.Queue && op.Stage != remoteexecution.ExecutionStage_COMPLETED {
			pq := findQueue(prev, pop.Queue)
			if pq != nil {
				largest := pq.SizeClasses[len(pq.SizeClasses)-1]
				if op.Queue.SizeClass != largest || op.Queue.Platform != pop.Queue.Platform || op.Queue.InstanceNamePrefix != pop.Queue.InstanceNamePrefix {
					w.violate("C05/retry-not-on-largest", fmt.Sprintf("operation %s moved from %v to %v, largest size class is %d", op.Name, pop.Queue, op.Queue, largest))
				}
				w.k.Probe("retried_on_largest")
			}
		}
		// --- completions --------------------------------------------------------
		if op.Stage == remoteexecution.ExecutionStage_COMPLETED && (pop == nil || pop.Stage != remoteexecution.ExecutionStage_COMPLETED) {
			o.checkCompletionCause(op, pop, prev, snap, actingWorker, actingOperator, submitted, submittedHash)
		}
		if pop != nil && pop.Stage == remoteexecution.ExecutionStage_COMPLETED {
			if op.Stage != remoteexecution.ExecutionStage_COMPLETED || !proto.Equal(op.Response, pop.Response) {
				w.violate("C02/completed-not-absorbing", fmt.Sprintf("operation %s was COMPLETED and changed afterwards (stage now %s)", op.Name, op.Stage))
			}
		}
	}

	// --- disappearances ---------------------------------------------------------
	for i := range prev.Operations {
		pop := &prev.Operations[i]
		if findOp(snap, pop.Name) == nil {
			if !pop.HasTimeout || pop.Timeout.After(snap.Now) {
				w.violate("C06/operation-removed-early", fmt.Sprintf("operation %s (waiters=%d, removal due %v/%s) disappeared at %s", pop.Name, pop.Waiters, pop.HasTimeout, pop.Timeout.Format(time.RFC3339), snap.Now.Format(time.RFC3339)))
			}
			w.k.Probe("operation_removed_after_timeout")
		}
	}
	for i := range prev.Workers {
		pw := &prev.Workers[i]
		nw := findWorker(snap, pw.Queue, pw.WorkerKey)
		if nw == nil {
			if pw.InSync || pw.Timeout.After(snap.Now) {
				w.violate("C06/worker-removed-early", fmt.Sprintf("worker %s (in Synchronize=%v, removal due %s) disappeared at %s", pw.WorkerKey, pw.InSync, pw.Timeout.Format(time.RFC3339), snap.Now.Format(time.RFC3339)))
			}
			w.k.Probe("worker_timed_out")
			if pw.ActionDigest != "" {
				w.k.Probe("worker_timed_out_with_task")
			}
			continue
		}
		// New assignments.
		if nw.TaskID != 0 && nw.TaskID != pw.TaskID {
			o.checkNewAssignment(pw, nw, prev, snap)
		}
	}
	for i := range snap.Workers {
		nw := &snap.Workers[i]
		if findWorker(prev, nw.Queue, nw.WorkerKey) == nil && nw.TaskID != 0 {
			o.checkNewAssignment(nil, nw, prev, snap)
		}
	}
	for i := range prev.Queues {
		pq := &prev.Queues[i]
		if findQueue(snap, pq.Key) == nil {
			due := o.queueRemovalDue(prev, pq, snap.Now)
			if !pq.MayBeRemoved || (pq.Workers == 0 && !pq.HasTimeout) || due.After(snap.Now) {
				w.violate("C06/queue-removed-early", fmt.Sprintf("queue %v (dynamic=%v removal due %v/%s) disappeared at %s", pq.Key, pq.MayBeRemoved, pq.HasTimeout, pq.Timeout.Format(time.RFC3339), snap.Now.Format(time.RFC3339)))
			}
			w.k.Probe("queue_removed")
		}
	}
	for i := range snap.Queues {
		nq := &snap.Queues[i]
		if pq := findQueue(prev, nq.Key); nq.HasTimeout && (pq == nil || !pq.HasTimeout) {
			// The queue just lost its last worker at that worker's
			// scheduled removal time.
			var last time.Time
			for j := range prev.Workers {
				pw := &prev.Workers[j]
				if pw.Queue == nq.Key && findWorker(snap, pw.Queue, pw.WorkerKey) == nil && pw.Timeout.After(last) {
					last = pw.Timeout
				}
			}
			if want := last.Add(w.cfg.PlatformQueueWithNoWorkersTimeout); !last.IsZero() && !nq.Timeout.Equal(want) {
				w.violate("C06/wrong-queue-timeout", fmt.Sprintf("queue %v lost its last worker (due %s) but is scheduled for removal at %s instead of %s", nq.Key, last.Format(time.RFC3339), nq.Timeout.Format(time.RFC3339), want.Format(time.RFC3339)))
			}
		}
	}
}

func (wa *workerActor) inCallOrJustReturned() bool { return true }

// fairnessStep feeds the C04 policy model.
func (o *oracles) fairnessStep(snap *scheduler.VerifSnapshot) {
	w := o.w
	var actingWorker *workerActor
	for _, wa := range w.workers {
		if w.k.LastActor != nil && wa.actor == w.k.LastActor {
			actingWorker = wa
		}
	}
	completedByWorker := false
	if actingWorker != nil && actingWorker.req != nil && o.prev != nil {
		if ex := actingWorker.req.CurrentState.GetExecuting(); ex != nil && ex.GetCompleted() != nil {
			if pw := findWorker(o.prev, actingWorker.queueKey(), actingWorker.workerKey()); pw != nil && pw.ActionDigest == ex.ActionDigest.GetHash() {
				completedByWorker = true
			}
		}
	}
	o.fair.step(o.prev, snap, actingWorker, completedByWorker)
}

// checkLearnerCalls: every terminal learner call must match what happened
// (C07): Succeeded only for a worker's successful completion with the duration
// the worker reported, Failed only for a worker-reported failure with the
// right timed-out flag, and an accepted completion is learned exactly once.
func (o *oracles) checkLearnerCalls(prev, snap *scheduler.VerifSnapshot, actingWorker *workerActor, submitted *remoteexecution.ExecuteResponse, submittedHash string) {
	w := o.w
	learned := 0
	for _, c := range w.analyzer.calls {
		if c.call == "abandoned" {
			continue
		}
		if c.rec.action.hash == submittedHash {
			learned++
		}
		switch {
		case submitted == nil || actingWorker == nil || c.rec.action.hash != submittedHash:
			w.violate("C07/learner-call-without-completion", fmt.Sprintf("learner #%d (%s) of action#%d received %s although no worker reported the completion of that action in this step", c.rec.id, c.rec.kind, c.rec.action.idx, c.call))
			if c.call == "failed" && c.retry {
				// C02: the only documented way back to QUEUED is the retry of an
				// action that a worker reported as failed; a task ended by the
				// scheduler itself (kill, lost worker, retry limit, queue
				// removal) owes its waiters the final error instead.
				w.violate("C02/requeued-without-worker-failure", fmt.Sprintf("action#%d was put back in the queue for a retry on the largest size class although no worker reported its failure in this step: its waiters get QUEUED instead of the final error the scheduler produced", c.rec.action.idx))
			}
		case c.call == "succeeded":
			if !isSuccess(submitted) {
				w.violate("C07/learner-call-mismatch", fmt.Sprintf("learner #%d of action#%d received Succeeded for a response with status %s exit code %d", c.rec.id, c.rec.action.idx, status.FromProto(submitted.Status).Code(), submitted.GetResult().GetExitCode()))
			} else if want := submitted.GetResult().GetExecutionMetadata().GetVirtualExecutionDuration().AsDuration(); c.duration != want {
				w.violate("C07/learner-call-mismatch", fmt.Sprintf("learner #%d of action#%d received Succeeded(%s), the worker reported a virtual execution duration of %s", c.rec.id, c.rec.action.idx, c.duration, want))
			}
		case c.call == "failed":
			if isSuccess(submitted) {
				w.violate("C07/learner-call-mismatch", fmt.Sprintf("learner #%d of action#%d received Failed for a successful response", c.rec.id, c.rec.action.idx))
			} else if want := status.FromProto(submitted.Status).Code() == codes.DeadlineExceeded; c.timedOut != want {
				w.violate("C07/learner-call-mismatch", fmt.Sprintf("learner #%d of action#%d received Failed(timedOut=%v) for a response with status %s", c.rec.id, c.rec.action.idx, c.timedOut, status.FromProto(submitted.Status).Code()))
			}
		}
	}
	// Converse: was the acting worker's completion accepted?
	if submitted == nil || actingWorker == nil {
		return
	}
	pw := findWorker(prev, actingWorker.queueKey(), actingWorker.workerKey())
	if pw == nil || pw.TaskID == 0 || pw.ActionDigest != submittedHash {
		return
	}
	accepted := false
	for i := range snap.Operations {
		op := &snap.Operations[i]
		if op.TaskID != pw.TaskID {
			continue
		}
		if op.Stage == remoteexecution.ExecutionStage_COMPLETED && proto.Equal(op.Response, submitted) {
			accepted = true
		}
		if pop := findOp(prev, op.Name); pop != nil && op.Stage != remoteexecution.ExecutionStage_COMPLETED && pop.Queue != op.Queue {
			accepted = true
		}
	}
	if accepted && learned != 1 {
		w.violate("C07/completion-not-learned-once", fmt.Sprintf("worker %s completed action %s and the scheduler accepted it, but %d Succeeded/Failed calls were made for it", actingWorker.name, short(submittedHash), learned))
	}
	if accepted {
		w.k.Probe("completion_learned")
	}
}

// queueRemovalDue computes when a worker-created queue may be removed: the
// removal deadline of its last worker plus the configured timeout.
func (o *oracles) queueRemovalDue(prev *scheduler.VerifSnapshot, pq *scheduler.VerifQueue, now time.Time) time.Time {
	if pq.HasTimeout {
		return pq.Timeout
	}
	// Its last workers may have timed out in this very step.
	var due time.Time
	for j := range prev.Workers {
		pw := &prev.Workers[j]
		if pw.Queue == pq.Key {
			if pw.InSync {
				return now.Add(time.Hour)
			} else if pw.Timeout.After(due) {
				due = pw.Timeout
			}
		}
	}
	return due.Add(o.w.cfg.PlatformQueueWithNoWorkersTimeout)
}

func platformStringOf(as *actionSpec) string {
	return platformKeyString(as.action.Platform)
}

// checkRouting validates the queue a freshly created task was placed in (C05).
func (o *oracles) checkRouting(op *scheduler.VerifOperation, snap *scheduler.VerifSnapshot) {
	w := o.w
	as := w.byHash[op.ActionDigest]
	if as == nil {
		return
	}
	plat := platformStringOf(as)
	prefix, ok := longestPrefixQueue(op.InstanceName, plat, snap.Queues)
	if !ok {
		w.violate("C05/queued-without-matching-queue", fmt.Sprintf("operation %s for instance %q platform %s was accepted into %v although no registered queue matches", op.Name, op.InstanceName, plat, op.Queue))
		return
	}
	if op.Queue.InstanceNamePrefix != prefix || op.Queue.Platform != plat {
		w.violate("C05/wrong-queue", fmt.Sprintf("operation %s for instance %q platform %s was placed in %v; the longest matching registered prefix is %q", op.Name, op.InstanceName, plat, op.Queue, prefix))
	}
	if w.demuxOn {
		want := w.expectedRouterMarker(op.InstanceName, plat)
		got := ""
		if len(op.Invocation) > 0 && strings.Contains(op.Invocation[0], "router:") {
			got = op.Invocation[0][strings.Index(op.Invocation[0], "router:"):]
			got = strings.TrimRight(got, "\"}")
		}
		if got != want {
			w.violate("C05/wrong-action-router", fmt.Sprintf("operation %s for instance %q platform %s was routed by %q; the router registered under the longest matching prefix is %q", op.Name, op.InstanceName, plat, got, want))
		}
		if want != "" {
			w.k.Probe("routed_by_registered_router")
		}
	}
	wantSuffix := strings.TrimPrefix(strings.TrimPrefix(op.InstanceName, prefix), "/")
	if op.InstanceNameSuffix != wantSuffix {
		w.violate("C05/wrong-instance-name-suffix", fmt.Sprintf("operation %s: instance %q prefix %q, suffix sent to worker is %q", op.Name, op.InstanceName, prefix, op.InstanceNameSuffix))
	}
	if sel := w.analyzer.lastSelect[op.ActionDigest]; sel != nil && sel.step == w.k.Step {
		if want := sel.sizeClasses[sel.index]; op.Queue.SizeClass != want {
			w.violate("C05/wrong-size-class", fmt.Sprintf("operation %s: selector chose size class %d of %v, task placed in %d", op.Name, want, sel.sizeClasses, op.Queue.SizeClass))
		}
		if op.ActionTimeout != sel.timeout {
			w.violate("C07/wrong-timeout", fmt.Sprintf("operation %s: selector chose timeout %s, action sent to worker has %s", op.Name, sel.timeout, op.ActionTimeout))
		}
		if op.ExpectedDuration != sel.expected {
			w.violate("C07/wrong-expected-duration", fmt.Sprintf("operation %s: selector expected %s, task has %s", op.Name, sel.expected, op.ExpectedDuration))
		}
	} else {
		w.violate("C07/task-without-select", fmt.Sprintf("operation %s: a new task was created without a Select call in the same step", op.Name))
	}
}

func (o *oracles) checkBackground(op *scheduler.VerifOperation, snap *scheduler.VerifSnapshot) {
	w := o.w
	w.k.Probe("background_task_created")
	if !op.DoNotCache {
		w.violate("C07/background-cacheable", fmt.Sprintf("background learning operation %s does not have do_not_cache set", op.Name))
	}
	var spec *queueSpec
	for _, q := range w.queues {
		if q.prefix == op.Queue.InstanceNamePrefix && q.key.GetPlatformString() == op.Queue.Platform {
			spec = q
		}
	}
	if spec == nil {
		return
	}
	n := 0
	for i := range snap.Operations {
		x := &snap.Operations[i]
		if x.Background && x.Queue == op.Queue && x.Stage == remoteexecution.ExecutionStage_QUEUED {
			n++
		}
	}
	if n > spec.maxBG {
		w.violate("C07/background-limit-exceeded", fmt.Sprintf("%d background learning operations queued in %v, limit %d", n, op.Queue, spec.maxBG))
	}
}

// checkNewAssignment validates a task newly handed to a worker (C05 drains).
func (o *oracles) checkNewAssignment(pw, nw *scheduler.VerifWorker, prev, snap *scheduler.VerifSnapshot) {
	w := o.w
	o.assignments++
	key := nw.WorkerKey + "|" + fmt.Sprint(nw.Queue)
	tr := o.wtrack[key]
	if tr == nil {
		tr = &workerTrack{}
		o.wtrack[key] = tr
	}
	tr.assignedTask, tr.reissues = nw.TaskID, 0
	if why, ok := o.mustTerminate[nw.ID]; ok {
		w.violate("C05/assigned-to-terminated-worker", fmt.Sprintf("worker %s in %v received task %s although %s returned successfully before and the worker existed when that call began", nw.WorkerKey, nw.Queue, nw.ActionDigest[:8], why))
	}
	if pw != nil && isDrained(prev, pw) && isDrained(snap, nw) {
		w.violate("C05/assigned-to-drained-worker", fmt.Sprintf("worker %s in %v received task %s although it is drained or terminating", nw.WorkerKey, nw.Queue, nw.ActionDigest[:8]))
	}
}

func (o *oracles) checkCompletionCause(op, pop *scheduler.VerifOperation, prev, snap *scheduler.VerifSnapshot, actingWorker *workerActor, actingOperator bool, submitted *remoteexecution.ExecuteResponse, submittedHash string) {
	w := o.w
	r := op.Response
	if r == nil {
		w.violate("C02/completed-without-response", fmt.Sprintf("operation %s is COMPLETED without a response", op.Name))
		return
	}
	if strings.HasPrefix(r.Message, "marker:") {
		// Worker-provided: must be what the acting worker just submitted
		// for the task it was assigned.
		ok := actingWorker != nil && submitted != nil && proto.Equal(submitted, r) && submittedHash == op.ActionDigest
		if ok && pop != nil {
			pw := findWorker(prev, actingWorker.queueKey(), actingWorker.workerKey())
			ok = pw != nil && pw.TaskID == op.TaskID
		}
		if !ok {
			w.violate("C02/unfaithful-response", fmt.Sprintf("operation %s (%s) completed with worker response %q, which is not what the worker assigned to it submitted in this step", op.Name, op.ActionDigest[:8], r.Message))
		}
		o.completionsByWorker++
		return
	}
	o.completionsByOther++
	st := status.FromProto(r.Status)
	switch {
	case st.Code() == codes.Aborted && strings.HasPrefix(st.Message(), "kill#"):
		if !actingOperator || o.inFlightKill == nil || !proto.Equal(o.inFlightKill, r.Status) {
			w.violate("C02/unexplained-kill", fmt.Sprintf("operation %s completed with %q but the operator is not killing with that status now", op.Name, st.Message()))
		}
		w.k.Probe("killed_by_operator")
	case st.Code() == codes.Unavailable && strings.Contains(st.Message(), "disappeared while task was executing"):
		okCause := false
		if pop != nil && pop.WorkerKey != "" {
			pw := findWorker(prev, pop.Queue, pop.WorkerKey)
			okCause = pw != nil && !pw.InSync && !pw.Timeout.After(snap.Now)
			if tr := o.wtrack[pop.WorkerKey+"|"+fmt.Sprint(pop.Queue)]; okCause && tr != nil && tr.hasSynced && tr.model.After(snap.Now) {
				okCause = false
			}
		}
		if !okCause {
			w.violate("C02/false-cause:worker-disappeared", fmt.Sprintf("operation %s was failed with %q although its worker synchronized recently enough", op.Name, st.Message()))
			w.violate("C06/premature-worker-timeout", fmt.Sprintf("operation %s failed with %q although its worker's timeout has not passed", op.Name, st.Message()))
		}
		w.k.Probe("task_failed_worker_disappeared")
	case st.Code() == codes.Unavailable && strings.Contains(st.Message(), "disappeared while task was queued"):
		// The queue may have been re-created in the same step by the very
		// worker whose Synchronize call ran the cleanup, so judge by the
		// deadline, not by the queue's absence.
		okCause := false
		if pop != nil {
			if pq := findQueue(prev, pop.Queue); pq != nil && pq.MayBeRemoved && !(pq.Workers == 0 && !pq.HasTimeout) {
				okCause = !o.queueRemovalDue(prev, pq, snap.Now).After(snap.Now)
			}
		}
		if !okCause {
			w.violate("C02/false-cause:queue-removed", fmt.Sprintf("operation %s was failed with %q before its queue's removal was due", op.Name, st.Message()))
			w.violate("C06/premature-queue-removal", fmt.Sprintf("operation %s failed with %q before its queue's removal was due", op.Name, st.Message()))
		}
		w.k.Probe("task_failed_queue_removed")
	case st.Code() == codes.Canceled && strings.Contains(st.Message(), "no longer has any waiting clients"):
		okCause := pop != nil && pop.HasTimeout && !pop.Timeout.After(snap.Now)
		if pop != nil && pop.TaskOps > 1 {
			// Another operation still referred to the task; it may only be
			// cancelled if all of them expired in this step.
			for i := range prev.Operations {
				x := &prev.Operations[i]
				if x.TaskID == pop.TaskID && (!x.HasTimeout || x.Timeout.After(snap.Now)) {
					w.violate("C02/false-cause:no-waiting-clients", fmt.Sprintf("operation %s was cancelled for lack of waiting clients although operation %s of the same task is still in use", op.Name, x.Name))
					w.violate("C03/cancelled-with-remaining-operations", fmt.Sprintf("task %s was cancelled when operation %s was abandoned, although operation %s still uses it", op.ActionDigest[:8], op.Name, x.Name))
				}
			}
		}
		if !okCause {
			w.violate("C02/false-cause:no-waiting-clients", fmt.Sprintf("operation %s was cancelled for lack of waiting clients before its timeout", op.Name))
			w.violate("C06/premature-abandonment", fmt.Sprintf("operation %s was cancelled for lack of waiters before its timeout", op.Name))
		}
		w.k.Probe("task_cancelled_no_waiters")
	case st.Code() == codes.Internal && strings.Contains(st.Message(), "but it never completed"):
		okCause := actingWorker != nil && pop != nil && pop.RetryCount == w.cfg.WorkerTaskRetryCount
		if okCause {
			pw := findWorker(prev, actingWorker.queueKey(), actingWorker.workerKey())
			okCause = pw != nil && pw.TaskID == op.TaskID
			// Independent count: how often was this very assignment handed
			// to this worker again?
			if tr := o.wtrack[actingWorker.workerKey()+"|"+fmt.Sprint(actingWorker.queueKey())]; okCause && tr != nil && (tr.assignedTask != op.TaskID || tr.reissues != w.cfg.WorkerTaskRetryCount) {
				okCause = false
			}
		}
		if !okCause {
			rc := -1
			if pop != nil {
				rc = pop.RetryCount
			}
			w.violate("C02/false-cause:retry-limit", fmt.Sprintf("operation %s failed with %q after %d re-issues (limit %d)", op.Name, st.Message(), rc, w.cfg.WorkerTaskRetryCount))
			w.violate("C06/retry-limit-miscounted", fmt.Sprintf("operation %s failed with %q after %d re-issues (limit %d)", op.Name, st.Message(), rc, w.cfg.WorkerTaskRetryCount))
		}
		w.k.Probe("task_failed_retry_limit")
	default:
		w.violate("C02/unexplained-final-status", fmt.Sprintf("operation %s completed with status %s %q, which is neither a worker's response nor a documented scheduler-made error", op.Name, st.Code(), st.Message()))
	}
}

// process handles one observation posted by an actor in this step.
func (o *oracles) process(obs observation, snap *scheduler.VerifSnapshot) {
	switch obs.kind {
	case obsKill:
		o.inFlightKill = obs.killStatus
	case obsOperatorEnd:
		o.inFlightKill = nil
	case obsStreamStart:
		o.streams[obs.stream] = &streamTrack{}
		n := 0
		for s := range o.streams {
			if !s.ended {
				n++
			}
		}
		if n > o.maxConcurrentStreams {
			o.maxConcurrentStreams = n
		}
	case obsSend:
		o.processSend(obs, snap)
	case obsStreamEnd:
		o.processStreamEnd(obs, snap)
	case obsSyncStart:
	case obsSyncEnd:
		o.processSyncEnd(obs, snap)
	}
}

func (o *oracles) processSend(obs observation, snap *scheduler.VerifSnapshot) {
	w := o.w
	s := obs.stream
	tr := o.streams[s]
	m := obs.msg
	m.step = w.k.Step
	s.sent = append(s.sent, m)
	found := false
	for _, n := range w.knownNames {
		if n == m.name {
			found = true
		}
	}
	if !found {
		w.knownNames = append(w.knownNames, m.name)
	}
	if tr.doneSeen {
		w.violate("C02/send-after-done", fmt.Sprintf("stream %s: message sent after the final one", s.id))
	}
	if tr.opName != "" && tr.opName != m.name {
		w.violate("C02/name-changed", fmt.Sprintf("stream %s: operation name changed from %s to %s", s.id, tr.opName, m.name))
	}
	tr.opName = m.name
	if s.kind == "WaitExecution" && m.name != s.waitName {
		w.violate("C02/wrong-operation", fmt.Sprintf("stream %s: waited for %s, got %s", s.id, s.waitName, m.name))
	}
	op := findOp(snap, m.name)
	if op == nil {
		w.violate("C02/message-for-unknown-operation", fmt.Sprintf("stream %s: message for %s, which the scheduler does not know", s.id, m.name))
		return
	}
	if s.kind == "Execute" && op.ActionDigest != s.action.hash {
		w.violate("C02/wrong-action", fmt.Sprintf("stream %s: executes action %s but was attached to operation %s of action %s", s.id, s.action.hash[:8], m.name, op.ActionDigest[:8]))
	}
	if m.stage != op.Stage {
		w.violate("C02/stage-mismatch", fmt.Sprintf("stream %s: reported stage %s, task is %s", s.id, m.stage, op.Stage))
	}
	if m.done != (m.stage == remoteexecution.ExecutionStage_COMPLETED) || m.done != (m.response != nil) {
		w.violate("C02/done-inconsistent", fmt.Sprintf("stream %s: done=%v stage=%s response=%v", s.id, m.done, m.stage, m.response != nil))
	}
	if m.done && !proto.Equal(m.response, op.Response) {
		w.violate("C02/final-differs-from-stored", fmt.Sprintf("stream %s: final response %q differs from the task's result %q", s.id, m.response.GetMessage()+m.response.GetStatus().GetMessage(), op.Response.GetMessage()+op.Response.GetStatus().GetMessage()))
	}
	// Stage order.
	retries := w.analyzer.retryEvents[op.ActionDigest]
	if len(s.sent) > 1 {
		if m.stage < tr.lastStage {
			if !(m.stage == remoteexecution.ExecutionStage_QUEUED && tr.lastStage == remoteexecution.ExecutionStage_EXECUTING && retries > tr.retriesAtMsg) {
				w.violate("C02/stage-went-backwards", fmt.Sprintf("stream %s: stage %s after %s", s.id, m.stage, tr.lastStage))
			} else {
				w.k.Probe("client_saw_requeue")
			}
		}
	} else if s.kind == "Execute" && m.stage == remoteexecution.ExecutionStage_COMPLETED {
		w.violate("C03/execute-attached-to-completed", fmt.Sprintf("stream %s: a fresh Execute request was answered with an already completed task", s.id))
	}
	tr.lastStage = m.stage
	tr.retriesAtMsg = retries
	if m.done {
		tr.doneSeen = true
	}
	if op.Waiters == 0 {
		w.violate("C02/waiter-not-counted", fmt.Sprintf("stream %s is being served by operation %s, which has no registered waiters", s.id, m.name))
	}
}

func (o *oracles) processStreamEnd(obs observation, snap *scheduler.VerifSnapshot) {
	w := o.w
	s := obs.stream
	tr := o.streams[s]
	if s.err == nil {
		if !tr.doneSeen {
			w.violate("C02/ended-without-final", fmt.Sprintf("stream %s returned success after %d messages without a final one", s.id, len(s.sent)))
		}
		return
	}
	code := status.Code(s.err)
	if s.cancelled || s.sendErr {
		return
	}
	if len(s.sent) > 0 {
		w.violate("C02/ended-without-final", fmt.Sprintf("stream %s was not cancelled, yet ended with %v after %d messages without a final one", s.id, s.err, len(s.sent)))
		return
	}
	// Rejected before anything was sent: check the documented reasons.
	if s.kind == "Execute" && strings.Contains(s.err.Error(), "No workers exist") {
		as := s.action
		plat := platformStringOf(as)
		if _, ok := longestPrefixQueue(as.instance, plat, snap.Queues); ok {
			w.violate("C05/rejected-despite-matching-queue", fmt.Sprintf("stream %s: rejected with %v although a matching queue is registered", s.id, s.err))
		}
		hard := !snap.Now.Before(startTime.Add(w.cfg.PlatformQueueWithNoWorkersTimeout))
		if (code == codes.FailedPrecondition) != hard || (code != codes.FailedPrecondition && code != codes.Unavailable) {
			w.violate("C05/wrong-rejection-code", fmt.Sprintf("stream %s: rejected with %s at %s after start (grace period %s)", s.id, code, snap.Now.Sub(startTime), w.cfg.PlatformQueueWithNoWorkersTimeout))
		}
		w.k.Probe("rejected_no_queue")
	}
}

func (o *oracles) processSyncEnd(obs observation, snap *scheduler.VerifSnapshot) {
	w := o.w
	wa := obs.worker
	key := wa.workerKey() + "|" + fmt.Sprint(wa.queueKey())
	tr := o.wtrack[key]
	if tr == nil {
		tr = &workerTrack{}
		o.wtrack[key] = tr
	}
	wk := findWorker(snap, wa.queueKey(), wa.workerKey())
	if wk != nil && !wk.InSync {
		// The removal deadline is re-armed at the end of every call that
		// got as far as looking at the worker's state.
		want := snap.Now.Add(w.cfg.WorkerWithNoSynchronizationsTimeout)
		if !wk.Timeout.Equal(want) && (obs.err == nil || !tr.hasSynced || !wk.Timeout.Equal(tr.expected)) {
			w.violate("C06/wrong-worker-timeout", fmt.Sprintf("worker %s finished synchronizing at %s (err=%v) but is scheduled for removal at %s instead of %s", wa.name, snap.Now.Format(time.RFC3339), obs.err, wk.Timeout.Format(time.RFC3339), want.Format(time.RFC3339)))
		}
		if obs.err == nil || wk.Timeout.Equal(want) || !tr.hasSynced {
			tr.model = want
		}
		tr.expected = wk.Timeout
		tr.hasSynced = true
	}
	o.checkSizeClassRegistration(obs, snap)
	if obs.err != nil {
		return
	}
	resp := obs.resp
	assigned := ""
	if wk != nil {
		assigned = wk.ActionDigest
	}
	switch ds := resp.GetDesiredState().GetWorkerState().(type) {
	case *remoteworker.DesiredState_Executing_:
		if wk != nil && wk.TaskID != 0 {
			// Was this a redundant re-issue? Yes if the task was already
			// assigned before this step and the call did not get it by
			// being woken up while waiting for work.
			pw := findWorker(o.prev, wa.queueKey(), wa.workerKey())
			if pw != nil && pw.ID == wk.ID && pw.TaskID == wk.TaskID && !wa.sawBlocked && tr.assignedTask == wk.TaskID {
				tr.reissues++
			}
		}
		got := ds.Executing.GetActionDigest().GetHash()
		if wk == nil || assigned != got {
			w.violate("C01/response-not-assigned", fmt.Sprintf("worker %s was told to execute %s, but the task assigned to it is %q", wa.name, got[:8], assigned))
		}
		if ds.Executing.Action == nil {
			w.violate("C01/execute-without-action", fmt.Sprintf("worker %s was told to execute %s without an action (completed task?)", wa.name, got[:8]))
		}
		w.k.Probe("worker_told_to_execute")
	case *remoteworker.DesiredState_Idle:
		if assigned != "" {
			w.violate("C01/idle-response-but-assigned", fmt.Sprintf("worker %s was told to go idle, but task %s is still assigned to it", wa.name, assigned[:8]))
		}
	case nil:
		// No change: only when the worker reported the assigned task.
		reported := obs.req.GetCurrentState().GetExecuting().GetActionDigest().GetHash()
		if reported == "" || assigned != reported {
			w.violate("C01/no-change-but-not-assigned", fmt.Sprintf("worker %s reported %q and was told to carry on, but the task assigned to it is %q", wa.name, reported, assigned))
		}
	}
	_ = emptypb.Empty{}
}

// wakeupInvariants: a call that is still blocked must still have something
// to wait for (C06: every blocked call returns once its condition occurred).
func (o *oracles) wakeupInvariants(snap *scheduler.VerifSnapshot) {
	w := o.w
	op := w.operator
	// Completed TerminateWorkers calls: remember whom they covered.
	if o.mustTerminate == nil {
		o.mustTerminate = map[uintptr]string{}
	}
	if o.workerBorn == nil {
		o.workerBorn = map[uintptr]int{}
	}
	liveNow := map[uintptr]bool{}
	for i := range snap.Workers {
		id := snap.Workers[i].ID
		liveNow[id] = true
		if _, ok := o.workerBorn[id]; !ok {
			o.workerBorn[id] = w.k.Step
		}
	}
	for id := range o.workerBorn {
		if !liveNow[id] {
			delete(o.workerBorn, id)
		}
	}
	for _, rec := range op.termDone {
		if rec.start == nil {
			continue
		}
		for i := range rec.start.Workers {
			wk := &rec.start.Workers[i]
			if born, ok := o.workerBorn[wk.ID]; !ok || born > rec.startStep {
				// Gone, or a new object at a reused address.
				continue
			}
			if matchesPattern(wk.WorkerID, rec.pattern) {
				o.mustTerminate[wk.ID] = fmt.Sprintf("TerminateWorkers(%v)", rec.pattern)
				w.k.Probe("worker_terminated_by_operator")
			}
		}
	}
	op.termDone = nil
	if len(o.mustTerminate) > 0 {
		live := map[uintptr]bool{}
		for i := range snap.Workers {
			live[snap.Workers[i].ID] = true
		}
		for id := range o.mustTerminate {
			if !live[id] {
				delete(o.mustTerminate, id)
			}
		}
	}
	if op.blocking && op.actor.Blocked() {
		if op.termTasks == nil {
			// First quiescent point inside TerminateWorkers: remember which
			// tasks it waits for.
			op.termTasks = map[string]uintptr{}
			for i := range snap.Workers {
				wk := &snap.Workers[i]
				if wk.TaskID != 0 && matchesPattern(wk.WorkerID, op.termPattern) {
					op.termTasks[wk.WorkerKey+"|"+fmt.Sprint(wk.Queue)] = wk.TaskID
				}
			}
		} else {
			waiting := false
			for i := range snap.Workers {
				wk := &snap.Workers[i]
				if id, ok := op.termTasks[wk.WorkerKey+"|"+fmt.Sprint(wk.Queue)]; ok && id == wk.TaskID {
					waiting = true
				}
			}
			if !waiting {
				w.violate("C06/terminate-workers-not-woken", fmt.Sprintf("TerminateWorkers(%v) is still blocked although none of the workers it waits for runs the task it had any more", op.termPattern))
			}
			w.k.Probe("terminate_workers_blocked")
		}
	}
	// A worker is exempt from expiry only while one of its Synchronize calls
	// is in progress.
	for i := range snap.Workers {
		wk := &snap.Workers[i]
		if !wk.InSync {
			continue
		}
		inCall := false
		for _, wa := range w.workers {
			if wa.inCall && wa.workerKey() == wk.WorkerKey && wa.queueKey() == wk.Queue {
				inCall = true
			}
		}
		if !inCall {
			msg := fmt.Sprintf("worker %s in %v is exempt from expiry (as if synchronizing) although none of its Synchronize calls is in progress: it can never time out, and its task %q can never fail over", wk.WorkerKey, wk.Queue, short(wk.ActionDigest))
			w.violate("C06/worker-never-expires", msg)
			w.violate("C02/worker-never-expires", msg)
			w.violate("C01/worker-never-expires", msg)
		}
	}
	// A worker parked in the "drained" wait of Synchronize must be woken when
	// its last matching drain is removed (C05: removing the drain makes it
	// eligible again; C06: blocked calls return once their condition occurs).
	for _, wa := range w.workers {
		if wa.inCall {
			if wk := findWorker(snap, wa.queueKey(), wa.workerKey()); wk != nil && wk.Blocked {
				wa.sawBlocked = true
			}
		}
		if !wa.inCall || !wa.actor.Blocked() {
			continue
		}
		wk := findWorker(snap, wa.queueKey(), wa.workerKey())
		if wk == nil || !wk.InSync || wk.Blocked || wk.TaskID != 0 {
			continue
		}
		if !isDrained(snap, wk) {
			msg := fmt.Sprintf("worker %s is still blocked in Synchronize waiting to be undrained, although no drain matches it any more and it is not terminating (drains of its queue: %v)", wa.name, findQueue(snap, wk.Queue).Drains)
			for i := range snap.Operations {
				if op := &snap.Operations[i]; op.Stage == remoteexecution.ExecutionStage_QUEUED && op.Queue == wk.Queue {
					w.violate("C04/queued-while-undrained-worker-waits", msg+"; operation "+op.Name+" is queued there")
					break
				}
			}
			w.violate("C05/undrained-worker-not-woken", msg)
			w.violate("C06/undrained-worker-not-woken", msg)
		} else {
			w.k.Probe("worker_waiting_while_drained")
		}
	}
	for _, c := range w.clients {
		s := c.cur
		if s == nil || s.ended || !c.actor.Blocked() || len(s.sent) == 0 {
			continue
		}
		tr := o.streams[s]
		if tr == nil || tr.doneSeen {
			continue
		}
		if sop := findOp(snap, tr.opName); sop != nil && sop.Stage == remoteexecution.ExecutionStage_COMPLETED {
			w.violate("C06/waiter-not-woken", fmt.Sprintf("stream %s is still blocked although operation %s has completed", s.id, tr.opName))
		}
	}
}

// checkSizeClassRegistration: workers may add size classes only to
// predeclared platform queues and only up to the declared maximum (C05).
func (o *oracles) checkSizeClassRegistration(obs observation, snap *scheduler.VerifSnapshot) {
	w := o.w
	wa := obs.worker
	prev := o.prev
	if prev == nil {
		return
	}
	key := wa.queueKey()
	if findQueue(prev, key) != nil {
		return // the size class queue existed already
	}
	var sibling *scheduler.VerifQueue
	for i := range prev.Queues {
		q := &prev.Queues[i]
		if q.Key.InstanceNamePrefix == key.InstanceNamePrefix && q.Key.Platform == key.Platform {
			sibling = q
		}
	}
	if sibling == nil {
		return // brand-new platform queue: always allowed
	}
	// Is the platform queue predeclared? Its largest size class queue is
	// then not removable.
	var largest *scheduler.VerifQueue
	for i := range prev.Queues {
		q := &prev.Queues[i]
		if q.Key.InstanceNamePrefix == key.InstanceNamePrefix && q.Key.Platform == key.Platform && (largest == nil || q.Key.SizeClass > largest.Key.SizeClass) {
			largest = q
		}
	}
	mustReject := largest.MayBeRemoved || key.SizeClass > largest.Key.SizeClass || (largest.Key.SizeClass > 0 && key.SizeClass < 1)
	// Cleanup at the start of the call may have removed the platform queue
	// altogether, in which case the worker legitimately re-creates it.
	stillThere := false
	for i := range snap.Queues {
		q := &snap.Queues[i]
		if q.Key.InstanceNamePrefix == key.InstanceNamePrefix && q.Key.Platform == key.Platform && q.Key != key {
			stillThere = true
		}
	}
	if !stillThere {
		return
	}
	created := findQueue(snap, key) != nil
	switch {
	case mustReject && (created || status.Code(obs.err) != codes.InvalidArgument) && status.Code(obs.err) != codes.PermissionDenied && status.Code(obs.err) != codes.Canceled:
		w.violate("C05/size-class-accepted", fmt.Sprintf("worker %s registered size class %d on platform queue %q %s (largest %d, predeclared=%v); the call returned %v and the queue exists=%v", wa.name, key.SizeClass, key.InstanceNamePrefix, key.Platform, largest.Key.SizeClass, !largest.MayBeRemoved, obs.err, created))
	case mustReject:
		w.k.Probe("size_class_registration_rejected")
	case !mustReject && created:
		w.k.Probe("size_class_added_by_worker")
	}
}

// finalChecks runs after every party has left.
func (o *oracles) finalChecks() {
	w := o.w
	total := w.cfg.ExecutionUpdateInterval + w.cfg.OperationWithNoWaitersTimeout + w.cfg.PlatformQueueWithNoWorkersTimeout + w.cfg.WorkerWithNoSynchronizationsTimeout + time.Hour
	for i := 0; i < 4; i++ {
		w.clock.Advance(total)
		// The scheduler's own code runs on the controller goroutine here (the
		// call performs the clean-ups that have become due): a panic in it
		// is the scheduler's, not the harness's.
		func() {
			defer func() {
				if r := recover(); r != nil {
					if _, ok := r.(simsync.HarnessError); ok {
						panic(r)
					}
					msg := fmt.Sprint(r)
					w.violate("panic:"+strings.SplitN(msg, "\n", 2)[0], fmt.Sprintf("ListPlatformQueues, called on the idle scheduler after all timeouts passed, panicked: %s\n%s", msg, debug.Stack()))
				}
			}()
			if _, err := w.bq.ListPlatformQueues(nil, &emptypb.Empty{}); err != nil {
				w.violate("C06/list-failed", err.Error())
			}
		}()
		if w.k.Failed() {
			return
		}
		o.afterStep()
		if w.k.Failed() {
			return
		}
	}
	c := o.lastCounts
	s := o.snap
	bg := 0
	for i := range s.Operations {
		op := &s.Operations[i]
		if op.Background && op.Stage == remoteexecution.ExecutionStage_QUEUED {
			bg++
			continue
		}
		w.violate("C06/leaked-operation", fmt.Sprintf("operation %s (%s, stage %s, background=%v) is retained after all clients and workers left and all timeouts passed", op.Name, op.ActionDigest[:8], op.Stage, op.Background))
	}
	if c.Workers != 0 {
		w.violate("C06/leaked-worker", fmt.Sprintf("%d workers retained", c.Workers))
	}
	if c.DynamicQueues != 0 {
		w.violate("C06/leaked-queue", fmt.Sprintf("%d worker-created queues retained", c.DynamicQueues))
	}
	if c.DedupEntries != 0 {
		w.violate("C06/leaked-dedup-entry", fmt.Sprintf("%d in-flight deduplication entries retained", c.DedupEntries))
	}
	if c.PendingCleanups != 0 {
		w.violate("C06/leaked-cleanup", fmt.Sprintf("%d cleanups still pending", c.PendingCleanups))
	}
	if c.TasksExecuting != 0 || c.TasksCompleted != 0 || c.TasksQueued > bg {
		w.violate("C06/leaked-task", fmt.Sprintf("tasks retained: queued=%d executing=%d completed=%d (background backlog %d)", c.TasksQueued, c.TasksExecuting, c.TasksCompleted, bg))
	}
	if c.NonRootInvocations > bg {
		w.violate("C06/leaked-invocation", fmt.Sprintf("%d invocations retained for a background backlog of %d", c.NonRootInvocations, bg))
	}
	// C07: protocol linearity at the end of the history.
	for _, sr := range w.analyzer.selectors {
		if sr.state == "" {
			w.violate("C07/selector-leaked", fmt.Sprintf("selector #%d for action#%d received neither Select nor Abandoned", sr.id, sr.action.idx))
		}
	}
	open := 0
	for _, lr := range w.analyzer.learners {
		if lr.terminal == "" {
			open++
			if lr.kind != "bg" {
				w.violate("C07/learner-leaked", fmt.Sprintf("learner #%d (%s) for action#%d never received a terminal call", lr.id, lr.kind, lr.action.idx))
			}
		}
	}
	if open != bg {
		w.violate("C07/learner-leaked", fmt.Sprintf("%d learners without terminal call, but %d background tasks remain queued", open, bg))
	}
}

// finish records statistics of the run.
func (o *oracles) finish() {
	w := o.w
	r := w.r
	r.Count("assignments", o.assignments)
	r.Count("completions_by_worker", o.completionsByWorker)
	r.Count("completions_by_scheduler", o.completionsByOther)
	r.Count("steps_checked", o.checkedSteps)
	r.Count("steps_skipped_lock_held", o.skippedSteps)
	nstreams := 0
	for range o.streams {
		nstreams++
	}
	r.Count("streams", nstreams)
	r.Count("fairness_pull_assignments_checked", o.fair.checkedPull)
	r.Count("fairness_handoffs_checked", o.fair.checkedPush)
	r.Count("fairness_stickiness_decisions", o.fair.stickyTurns)
	r.NonTrivial = o.assignments > 0 && (o.maxConcurrentStreams >= 2 || len(w.k.FaultsFired) > 0)
}

// shortInv renders invocation keys compactly.
func shortInv(keys []string) string {
	var out []string
	for _, k := range keys {
		switch {
		case strings.Contains(k, "correlatedInvocationsId"):
			out = append(out, k[strings.Index(k, "correlatedInvocationsId")+26:len(k)-2])
		case strings.Contains(k, "toolInvocationId"):
			out = append(out, k[strings.Index(k, "toolInvocationId")+19:len(k)-2])
		case strings.Contains(k, "\"value\":"):
			out = append(out, k[strings.Index(k, "\"value\":")+9:len(k)-2])
		case strings.Contains(k, "BackgroundLearning"):
			out = append(out, "<bg>")
		default:
			out = append(out, "-")
		}
	}
	return "[" + strings.Join(out, " ") + "]"
}

func short(s string) string {
	if len(s) > 8 {
		return s[:8]
	}
	return s
}

// annotate describes the state changes of this step in the decision trace.
func (o *oracles) annotate(prev, snap *scheduler.VerifSnapshot, pending []observation) {
	k := o.w.k
	if prev == nil {
		prev = &scheduler.VerifSnapshot{Now: startTime}
	}
	if !snap.Now.Equal(prev.Now) {
		k.Annotate("scheduler time %s", snap.Now.Sub(startTime))
	}
	for i := range snap.Operations {
		op := &snap.Operations[i]
		pop := findOp(prev, op.Name)
		switch {
		case pop == nil:
			k.Annotate("new operation %s action=%s stage=%s queue=%v inv=%s prio=%d expected=%s ops-of-task=%d bg=%v dnc=%v", op.Name[30:], short(op.ActionDigest), op.Stage, op.Queue, shortInv(op.Invocation), op.Priority, op.ExpectedDuration, op.TaskOps, op.Background, op.DoNotCache)
		case pop.Stage != op.Stage || pop.Queue != op.Queue || pop.WorkerKey != op.WorkerKey:
			msg := ""
			if op.Response != nil {
				msg = op.Response.Message + " " + op.Response.GetStatus().GetMessage()
			}
			k.Annotate("operation %s %s->%s worker=%s queue=%v %s", op.Name[30:], pop.Stage, op.Stage, op.WorkerKey, op.Queue, msg)
		case pop.Waiters != op.Waiters || pop.HasTimeout != op.HasTimeout:
			k.Annotate("operation %s waiters=%d removal-pending=%v", op.Name[30:], op.Waiters, op.HasTimeout)
		}
	}
	for i := range prev.Operations {
		if findOp(snap, prev.Operations[i].Name) == nil {
			k.Annotate("operation %s removed", prev.Operations[i].Name[30:])
		}
	}
	for i := range snap.Workers {
		nw := &snap.Workers[i]
		pw := findWorker(prev, nw.Queue, nw.WorkerKey)
		if pw == nil {
			k.Annotate("new worker %s in %v task=%s", nw.WorkerKey, nw.Queue, short(nw.ActionDigest))
		} else if pw.ActionDigest != nw.ActionDigest || pw.Blocked != nw.Blocked || pw.Terminating != nw.Terminating || pw.TaskID != nw.TaskID {
			k.Annotate("worker %s task=%s blocked=%v terminating=%v", nw.WorkerKey, short(nw.ActionDigest), nw.Blocked, nw.Terminating)
		}
	}
	for i := range prev.Workers {
		if findWorker(snap, prev.Workers[i].Queue, prev.Workers[i].WorkerKey) == nil {
			k.Annotate("worker %s removed", prev.Workers[i].WorkerKey)
		}
	}
	for i := range snap.Queues {
		nq := &snap.Queues[i]
		pq := findQueue(prev, nq.Key)
		if pq == nil {
			k.Annotate("new queue %v dynamic=%v", nq.Key, nq.MayBeRemoved)
		} else if len(pq.Drains) != len(nq.Drains) || pq.HasTimeout != nq.HasTimeout {
			k.Annotate("queue %v drains=%v removal-pending=%v", nq.Key, nq.Drains, nq.HasTimeout)
		}
	}
	for i := range prev.Queues {
		if findQueue(snap, prev.Queues[i].Key) == nil {
			k.Annotate("queue %v removed", prev.Queues[i].Key)
		}
	}
	for i := range snap.Invocations {
		ni := &snap.Invocations[i]
		var pi *scheduler.VerifInvocation
		for j := range prev.Invocations {
			if prev.Invocations[j].ID == ni.ID {
				pi = &prev.Invocations[j]
			}
		}
		if len(ni.QueuedChildren) > 0 && (pi == nil || fmt.Sprint(pi.QueuedChildren, pi.QueuedChildrenPriorities) != fmt.Sprint(ni.QueuedChildren, ni.QueuedChildrenPriorities)) {
			k.Annotate("heap of queued children at %s: %s first priorities %v", shortInv(ni.Path), shortInv(ni.QueuedChildren), ni.QueuedChildrenPriorities)
		}
	}
	for _, obs := range pending {
		switch obs.kind {
		case obsSend:
			k.Annotate("%s <- message stage=%s done=%v", obs.stream.id, obs.msg.stage, obs.msg.done)
		case obsStreamEnd:
			k.Annotate("%s ended: %v", obs.stream.id, obs.stream.err)
		case obsSyncStart:
			k.Annotate("%s -> Synchronize %s", obs.worker.name, describeState(obs.req))
		case obsSyncEnd:
			k.Annotate("%s <- %s err=%v", obs.worker.name, describeDesired(obs.resp), obs.err)
		}
	}
	for _, c := range o.w.analyzer.calls {
		k.Annotate("learner #%d (%s action#%d) %s retry=%v bg=%v", c.rec.id, c.rec.kind, c.rec.action.idx, c.call, c.retry, c.bg != nil)
	}
}

func describeState(req *remoteworker.SynchronizeRequest) string {
	cs := req.GetCurrentState()
	if cs == nil {
		return "<no state>"
	}
	if cs.GetIdle() != nil {
		return fmt.Sprintf("idle preferIdle=%v", req.PreferBeingIdle)
	}
	ex := cs.GetExecuting()
	if c := ex.GetCompleted(); c != nil {
		return fmt.Sprintf("completed %s %s status=%s exit=%d", short(ex.ActionDigest.GetHash()), c.Message, codes.Code(c.GetStatus().GetCode()), c.GetResult().GetExitCode())
	}
	return "executing " + short(ex.ActionDigest.GetHash())
}

func describeDesired(resp *remoteworker.SynchronizeResponse) string {
	if resp == nil {
		return "<nil>"
	}
	switch ds := resp.GetDesiredState().GetWorkerState().(type) {
	case *remoteworker.DesiredState_Executing_:
		return "execute " + short(ds.Executing.GetActionDigest().GetHash())
	case *remoteworker.DesiredState_Idle:
		return "go idle"
	}
	return "carry on"
}

package w11

import (
	"context"
	"encoding/binary"
	"fmt"
	"os"
	"time"

	nfsv4srv "github.com/buildbarn/bb-remote-execution/pkg/filesystem/virtual/nfsv4"
	"github.com/buildbarn/bb-remote-execution/pkg/verifsim/simenv"
	"github.com/buildbarn/bb-remote-execution/pkg/verifsim/simsync"
	"github.com/buildbarn/bb-storage/pkg/filesystem/path"
	"github.com/buildbarn/go-xdr/pkg/protocols/nfsv4"
)

// Configuration 2: NFSv4.0 and NFSv4.1 servers sharing one OpenedFilesPool.

// The enforced lease time is not a whole number of seconds while every clock
// jump is, so "idle for exactly the lease time" never occurs.
const leaseTime = 10*time.Second + 500*time.Millisecond

type openOwner struct {
	c     *nfsClient
	name  []byte
	seqid uint32 // last open-owner seqid the server accepted (NFSv4.0)
	opens map[int]*nfsv4.Stateid4
}

type lockOwner struct {
	c      *nfsClient
	oo     *openOwner
	name   []byte
	id     int    // owner id in the model
	seqid  uint32 // last lock-owner seqid the server accepted (NFSv4.0)
	lockSt map[int]*nfsv4.Stateid4
}

func (lo *lockOwner) String() string { return fmt.Sprintf("%s/%s(o%d)", lo.c.name, lo.name, lo.id) }

type nfsClient struct {
	w        *nfsWorld
	idx      int
	name     string
	minor    uint32
	observer bool
	lazy     bool
	longID   []byte
	verifier uint64

	// What a client implementation keeps.
	registered bool
	clientID   uint64
	sessionID  [16]byte
	slotSeq    uint32
	oos        []*openOwner
	los        []*lockOwner

	// What the model knows about the server's view of this client.
	mRegistered bool      // the server was told about this incarnation
	mGone       bool      // ... and is known to have discarded it again
	mLastSeen   time.Time // last lease renewal
	mClientID   uint64    // client id of the incarnation the server knows
	mExpired    bool      // mGone because the lease ran out and a request entered the client's program afterwards
	mExpiredAt  time.Time
	mNoticedBy  string

	// A silent client sends nothing until the run has at most wakeAt turns left.
	silent bool
	wakeAt int

	actor *simsync.Actor
}

func (c *nfsClient) isSilent() bool { return c.silent && c.w.turnsLeft > c.wakeAt }

type nfsWorld struct {
	*world
	clock   *simenv.SimClock
	fs      *stubFS
	program nfsv4.Nfs4Program
	files   []*fileModel
	clients []*nfsClient // regular clients
	obs     []*nfsClient // observer identities: [0] NFSv4.0, [1] NFSv4.1
	owners  []*lockOwner

	busy      bool
	turnsLeft int
	phase     int // 0 main, 1 final phase by the observer, 2 everybody leaves
	finalDone bool
	known41   bool
	freeHeld  bool

	strays                   []*strayRecord
	strayExpired, straysSent int
	// pastIDs remembers the client ids of incarnations whose lease expired.
	pastIDs map[uint64]*nfsClient
	// expiredRanges are the locks clients held when their lease expired.
	expiredRanges []expiredRange

	spoiled, nonCompleting, expiredHolding, postExpiryLock, postExpiryLockt int

	compounds, granted, denied, locktConflicts, locktClear int
	unlocks, closes, sweeps, setupFailed, known41Hits      int
	version                                                [2]int // granted locks per minor version
}

// strayRecord is an unconfirmed registration (SETCLIENTID never followed by
// SETCLIENTID_CONFIRM, EXCHANGE_ID never followed by CREATE_SESSION) that
// carries the id string of client c.
type strayRecord struct {
	c       *nfsClient
	at      time.Time
	counted bool
}

type expiredRange struct {
	c  *nfsClient
	f  int
	iv ival
}

func (w *nfsWorld) now() time.Time { return w.clock.Global() }

// enterProgram mirrors what both servers document for enter(), which every
// request passes before it is processed: "Remove clients that have not renewed
// their state in some time. Close all of the files and release all locks owned
// by these clients." A request to the NFSv4.m program therefore discards every
// NFSv4.m client that has been idle for more than the enforced lease time
// (the world never has a request of the client itself in flight at that
// moment). From then on the locks of such a client are gone for certain.
func (w *nfsWorld) enterProgram(minor uint32, by *nfsClient) {
	// Unconfirmed records of this program that are older than the lease
	// time disappear now; by RFC 7530 section 16.33.5 (and RFC 8881 section
	// 18.35.5) such a record never touches the state of the confirmed
	// client, so the model does nothing. Only count the interesting case.
	for _, sr := range w.strays {
		if sr.c.minor == minor && !sr.counted && w.now().Sub(sr.at) > leaseTime {
			sr.counted = true
			c := sr.c
			if c.mRegistered && !c.mGone && !c.zombie() {
				w.k.Probe("stray_unconfirmed_record_expired_while_client_alive")
				for _, lo := range c.los {
					if c.holdsAnywhere(lo) {
						w.strayExpired++
						w.k.Probe("stray_unconfirmed_record_expired_while_client_held_locks")
						break
					}
				}
			}
		}
	}
	for _, c := range w.allClients() {
		if c.minor != minor || !c.zombie() {
			continue
		}
		held := false
		for _, lo := range c.los {
			for f, fm := range w.files {
				for _, iv := range fm.owners[lo.id] {
					held = true
					w.expiredRanges = append(w.expiredRanges, expiredRange{c, f, iv})
				}
			}
		}
		c.mExpired, c.mExpiredAt, c.mNoticedBy = true, w.now(), by.name
		w.pastIDs[c.mClientID] = c
		if held {
			w.expiredHolding++
			w.k.Probe("client_expired_holding_locks")
		}
		w.markGone(c, fmt.Sprintf("idle for %s > lease %s when a request of %s entered the %s program", w.now().Sub(c.mLastSeen), leaseTime, by.name, c.vers()))
	}
}

// overExpired reports whether [s, e) of file f touches a lock that a client
// other than c held when its lease expired.
func (w *nfsWorld) overExpired(c *nfsClient, f int, s, e uint64) bool {
	for _, x := range w.expiredRanges {
		if x.c != c && x.f == f && x.iv.e > s && x.iv.s < e {
			return true
		}
	}
	return false
}

func (c *nfsClient) vers() string { return fmt.Sprintf("nfs4.%d", c.minor) }

// zombie: the lease of the client has run out, so the server may discard its
// state at any moment (the real servers do so lazily, the next time a request
// enters the same program), but need not have done so.
func (c *nfsClient) zombie() bool {
	return c.mRegistered && !c.mGone && c.w.now().Sub(c.mLastSeen) > leaseTime
}

func (w *nfsWorld) allClients() []*nfsClient {
	return append(append([]*nfsClient(nil), w.clients...), w.obs...)
}

func (w *nfsWorld) zombieOwners() map[int]bool {
	z := map[int]bool{}
	for _, c := range w.clients {
		if c.zombie() {
			for _, lo := range c.los {
				z[lo.id] = true
			}
		}
	}
	return z
}

// markGone records that the server has discarded every state of c.
func (w *nfsWorld) markGone(c *nfsClient, why string) {
	if c.mGone || !c.mRegistered {
		return
	}
	held := false
	for _, lo := range c.los {
		for _, f := range w.files {
			if f.holds(lo.id) {
				held = true
			}
			f.drop(lo.id)
		}
	}
	c.mGone = true
	w.k.Annotate("model: state of %s is gone (%s)", c.name, why)
	w.k.FaultsFired["lease-expiry"]++
	if held {
		w.k.Probe("lease_expiry_released_locks")
	}
}

func (c *nfsClient) resetClientSide() {
	c.registered = false
	for _, oo := range c.oos {
		oo.opens = map[int]*nfsv4.Stateid4{}
	}
	for _, lo := range c.los {
		lo.lockSt = map[int]*nfsv4.Stateid4{}
	}
}

// --- wire helpers ---------------------------------------------------------------

func statusName(st nfsv4.Nfsstat4) string {
	if n, ok := nfsv4.Nfsstat4_name[st]; ok {
		return n
	}
	return fmt.Sprintf("status %d", st)
}

func rangeOf(off, length uint64) (uint64, uint64, bool) {
	switch {
	case length == 0:
		return 0, 0, false
	case length == maxOff:
		return off, maxOff, true
	case length > maxOff-off:
		return 0, 0, false
	}
	return off, off + length, true
}

func typeOf(lt nfsv4.NfsLockType4) ltype {
	switch lt {
	case nfsv4.READ_LT, nfsv4.READW_LT:
		return tShared
	case nfsv4.WRITE_LT, nfsv4.WRITEW_LT:
		return tExcl
	}
	return tUnlock
}

func ltName(lt nfsv4.NfsLockType4) string {
	switch lt {
	case nfsv4.READ_LT:
		return "READ"
	case nfsv4.READW_LT:
		return "READW"
	case nfsv4.WRITE_LT:
		return "WRITE"
	case nfsv4.WRITEW_LT:
		return "WRITEW"
	}
	return "?"
}

func rangeStr(off, length uint64) string {
	l := offStr(length)
	if length == maxOff {
		l = "ALL-ONES"
	}
	return fmt.Sprintf("off=%s len=%s", offStr(off), l)
}

// seqidAdvances: RFC 7530 section 9.1.7, last paragraph.
func seqidAdvances(st nfsv4.Nfsstat4) bool {
	switch st {
	case nfsv4.NFS4ERR_STALE_CLIENTID, nfsv4.NFS4ERR_STALE_STATEID, nfsv4.NFS4ERR_BAD_STATEID, nfsv4.NFS4ERR_BAD_SEQID,
		nfsv4.NFS4ERR_BADXDR, nfsv4.NFS4ERR_RESOURCE, nfsv4.NFS4ERR_NOFILEHANDLE, nfsv4.NFS4ERR_MOVED:
		return false
	}
	return true
}

func isLostStatus(st nfsv4.Nfsstat4) bool {
	switch st {
	case nfsv4.NFS4ERR_STALE_CLIENTID, nfsv4.NFS4ERR_STALE_STATEID, nfsv4.NFS4ERR_BAD_STATEID, nfsv4.NFS4ERR_EXPIRED,
		nfsv4.NFS4ERR_BADSESSION, nfsv4.NFS4ERR_DEADSESSION:
		return true
	}
	return false
}

// call sends one COMPOUND. For NFSv4.1 a SEQUENCE operation is prepended and
// its result stripped. seqOK is false when SEQUENCE itself failed.
func (c *nfsClient) call(ops ...nfsv4.NfsArgop4) (res []nfsv4.NfsResop4, status nfsv4.Nfsstat4, seqOK bool) {
	w := c.w
	w.compounds++
	args := &nfsv4.Compound4args{Tag: c.name, Minorversion: c.minor}
	if c.minor == 1 {
		args.Argarray = append(args.Argarray, &nfsv4.NfsArgop4_OP_SEQUENCE{Opsequence: nfsv4.Sequence4args{
			SaSessionid: c.sessionID, SaSequenceid: c.slotSeq + 1, SaSlotid: 0, SaHighestSlotid: 0, SaCachethis: false,
		}})
	}
	args.Argarray = append(args.Argarray, ops...)
	w.enterProgram(c.minor, c)
	reply, err := w.program.NfsV4Nfsproc4Compound(context.Background(), args)
	if err != nil {
		harness("COMPOUND returned a transport error: %v", err)
	}
	res, status = reply.Resarray, reply.Status
	if c.minor == 1 {
		if len(res) == 0 {
			harness("NFSv4.1 COMPOUND reply without SEQUENCE result")
		}
		sr, ok := res[0].(*nfsv4.NfsResop4_OP_SEQUENCE)
		if !ok || sr.Opsequence.GetSrStatus() != nfsv4.NFS4_OK {
			return nil, status, false
		}
		c.slotSeq++
		res = res[1:]
	}
	return res, status, true
}

// rawCall sends a COMPOUND without SEQUENCE (registration operations).
func (c *nfsClient) rawCall(ops ...nfsv4.NfsArgop4) ([]nfsv4.NfsResop4, nfsv4.Nfsstat4) {
	w := c.w
	w.compounds++
	w.enterProgram(c.minor, c)
	reply, err := w.program.NfsV4Nfsproc4Compound(context.Background(), &nfsv4.Compound4args{Tag: c.name, Minorversion: c.minor, Argarray: ops})
	if err != nil {
		harness("COMPOUND returned a transport error: %v", err)
	}
	return reply.Resarray, reply.Status
}

// served is called when the server processed a request of c normally: the
// lease is renewed; and the server must not have discarded c before.
func (c *nfsClient) served(what string) bool {
	w := c.w
	if c.mGone && c.mExpired {
		w.violate("C20/expired-client-state-kept", "[%s] %s of %s was processed normally although the lease of this client (%s) ran out: it had been idle for more than the lease time at %s, when a request of %s entered the %s program, which is documented to discard such clients and release their locks. Its open files and byte-range locks were therefore never released. model:%s",
			c.vers(), what, c.name, leaseTime, c.mExpiredAt.Sub(startTime), c.mNoticedBy, c.vers(), w.modelString())
		return false
	}
	if c.mGone {
		w.violate("C20/lock-lost-while-client-alive", "[%s] %s of %s was processed normally, but locks of this client had been released earlier: a conflicting request of another owner was granted over them (history in the trace)", c.vers(), what, c.name)
		return false
	}
	c.mLastSeen = w.now()
	return true
}

// stateLost handles a status that says the server no longer knows c (or its
// state ids). That is legitimate iff the lease of c had run out.
func (c *nfsClient) stateLost(what string, st nfsv4.Nfsstat4) bool {
	if !isLostStatus(st) {
		return false
	}
	if c.mGone || c.zombie() {
		c.w.markGone(c, what+" answered "+statusName(st))
		c.resetClientSide()
		return true
	}
	return false
}

// unexpected reports a reply that no rule of the model explains.
func (c *nfsClient) unexpected(rule, what string, st nfsv4.Nfsstat4, expect string) {
	if c.stateLost(what, st) {
		return
	}
	w := c.w
	idle := w.now().Sub(c.mLastSeen)
	if isLostStatus(st) && c.mRegistered {
		w.violate("C20/state-lost-early", "[%s] %s by %s answered %s although the client renewed its lease %s ago (lease %s): its locks were discarded early", c.vers(), what, c.name, statusName(st), idle, leaseTime)
		return
	}
	w.violate(rule, "[%s] %s by %s answered %s; expected %s. model of file states:%s", c.vers(), what, c.name, statusName(st), expect, w.modelString())
}

func (w *nfsWorld) modelString() string {
	s := ""
	for i, f := range w.files {
		s += fmt.Sprintf(" f%d{%s }", i, f)
	}
	return s
}

func (w *nfsWorld) putfh(f int) nfsv4.NfsArgop4 {
	return &nfsv4.NfsArgop4_OP_PUTFH{Opputfh: nfsv4.Putfh4args{Object: w.fs.leaves[f].handle}}
}

// --- registration ------------------------------------------------------------------

func (c *nfsClient) setupFailed(what string, st nfsv4.Nfsstat4) {
	c.w.setupFailed++
	c.w.k.Annotate("%s: %s failed with %s", c.name, what, statusName(st))
}

func (c *nfsClient) register() bool {
	w := c.w
	c.resetClientSide()
	c.verifier++
	var verifier [8]byte
	binary.BigEndian.PutUint64(verifier[:], c.verifier)
	if c.minor == 0 {
		res, st := c.rawCall(&nfsv4.NfsArgop4_OP_SETCLIENTID{Opsetclientid: nfsv4.Setclientid4args{
			Client:   nfsv4.NfsClientId4{Verifier: verifier, Id: c.longID},
			Callback: nfsv4.CbClient4{CbLocation: nfsv4.Netaddr4{NaRNetid: "tcp", NaRAddr: "0.0.0.0.0.0"}},
		}})
		if st != nfsv4.NFS4_OK {
			c.setupFailed("SETCLIENTID", st)
			return false
		}
		ok := res[0].(*nfsv4.NfsResop4_OP_SETCLIENTID).Opsetclientid.(*nfsv4.Setclientid4res_NFS4_OK)
		c.clientID = ok.Resok4.Clientid
		_, st = c.rawCall(&nfsv4.NfsArgop4_OP_SETCLIENTID_CONFIRM{OpsetclientidConfirm: nfsv4.SetclientidConfirm4args{
			Clientid: ok.Resok4.Clientid, SetclientidConfirm: ok.Resok4.SetclientidConfirm,
		}})
		if st != nfsv4.NFS4_OK {
			c.setupFailed("SETCLIENTID_CONFIRM", st)
			return false
		}
	} else {
		res, st := c.rawCall(&nfsv4.NfsArgop4_OP_EXCHANGE_ID{OpexchangeId: nfsv4.ExchangeId4args{
			EiaClientowner:  nfsv4.ClientOwner4{CoVerifier: verifier, CoOwnerid: c.longID},
			EiaStateProtect: &nfsv4.StateProtect4A_SP4_NONE{},
		}})
		if st != nfsv4.NFS4_OK {
			c.setupFailed("EXCHANGE_ID", st)
			return false
		}
		ok := res[0].(*nfsv4.NfsResop4_OP_EXCHANGE_ID).OpexchangeId.(*nfsv4.ExchangeId4res_NFS4_OK)
		c.clientID = ok.EirResok4.EirClientid
		attrs := nfsv4.ChannelAttrs4{CaMaxrequestsize: 1 << 20, CaMaxresponsesize: 1 << 20, CaMaxresponsesizeCached: 1 << 16, CaMaxoperations: 16, CaMaxrequests: 1}
		res, st = c.rawCall(&nfsv4.NfsArgop4_OP_CREATE_SESSION{OpcreateSession: nfsv4.CreateSession4args{
			CsaClientid: c.clientID, CsaSequence: ok.EirResok4.EirSequenceid, CsaForeChanAttrs: attrs, CsaBackChanAttrs: attrs,
		}})
		if st != nfsv4.NFS4_OK {
			c.setupFailed("CREATE_SESSION", st)
			return false
		}
		cs := res[0].(*nfsv4.NfsResop4_OP_CREATE_SESSION).OpcreateSession.(*nfsv4.CreateSession4res_NFS4_OK)
		c.sessionID = cs.CsrResok4.CsrSessionid
		c.slotSeq = 0
	}
	// Confirming a new incarnation discards whatever the previous one held.
	if c.mRegistered && !c.mGone {
		held := false
		for _, lo := range c.los {
			for _, f := range w.files {
				if f.holds(lo.id) {
					held = true
				}
				f.drop(lo.id)
			}
		}
		if held {
			w.k.Probe("reboot_released_locks")
		}
	}
	c.mRegistered, c.mGone, c.mExpired, c.mLastSeen, c.mClientID = true, false, false, w.now(), c.clientID
	c.registered = true
	w.k.Annotate("%s registered (%s, clientid %x)", c.name, c.vers(), c.clientID)
	return true
}

// --- OPEN / CLOSE --------------------------------------------------------------------

func (c *nfsClient) open(oo *openOwner, f int) bool {
	w := c.w
	seq := oo.seqid + 1
	what := fmt.Sprintf("OPEN(%s, f%d)", oo.name, f)
	res, st, seqOK := c.call(
		&nfsv4.NfsArgop4_OP_PUTROOTFH{},
		&nfsv4.NfsArgop4_OP_OPEN{Opopen: nfsv4.Open4args{
			Seqid: seq, ShareAccess: nfsv4.OPEN4_SHARE_ACCESS_BOTH, ShareDeny: nfsv4.OPEN4_SHARE_DENY_NONE,
			Owner:   nfsv4.StateOwner4{Clientid: c.clientID, Owner: oo.name},
			Openhow: &nfsv4.Openflag4_default{Opentype: nfsv4.OPEN4_NOCREATE},
			Claim:   &nfsv4.OpenClaim4_CLAIM_NULL{File: w.fs.leaves[f].name},
		}},
	)
	if st != nfsv4.NFS4_OK || !seqOK {
		if seqOK && seqidAdvances(st) && len(res) >= 2 {
			oo.seqid = seq
		}
		if !c.stateLost(what, st) {
			c.setupFailed(what, st)
		}
		return false
	}
	oo.seqid = seq
	ok := res[1].(*nfsv4.NfsResop4_OP_OPEN).Opopen.(*nfsv4.Open4res_NFS4_OK)
	sid := ok.Resok4.Stateid
	if !c.served(what) {
		return false
	}
	if c.minor == 0 && ok.Resok4.Rflags&nfsv4.OPEN4_RESULT_CONFIRM != 0 {
		seq = oo.seqid + 1
		res, st, _ = c.call(w.putfh(f), &nfsv4.NfsArgop4_OP_OPEN_CONFIRM{OpopenConfirm: nfsv4.OpenConfirm4args{OpenStateid: sid, Seqid: seq}})
		if st != nfsv4.NFS4_OK {
			if seqidAdvances(st) && len(res) >= 2 {
				oo.seqid = seq
			}
			if !c.stateLost("OPEN_CONFIRM", st) {
				c.setupFailed("OPEN_CONFIRM", st)
			}
			return false
		}
		oo.seqid = seq
		sid = res[1].(*nfsv4.NfsResop4_OP_OPEN_CONFIRM).OpopenConfirm.(*nfsv4.OpenConfirm4res_NFS4_OK).Resok4.OpenStateid
	}
	oo.opens[f] = &sid
	w.k.Annotate("%s opened f%d as %s", c.name, f, oo.name)
	return true
}

func (c *nfsClient) close(oo *openOwner, f int) {
	w := c.w
	sid := oo.opens[f]
	if sid == nil {
		return
	}
	seq := oo.seqid + 1
	what := fmt.Sprintf("CLOSE(%s, f%d)", oo.name, f)
	w.k.Note(fmt.Sprintf("%s %s", c.name, what))
	res, st, seqOK := c.call(w.putfh(f), &nfsv4.NfsArgop4_OP_CLOSE{Opclose: nfsv4.Close4args{Seqid: seq, OpenStateid: *sid}})
	if seqOK && seqidAdvances(st) && len(res) >= 2 {
		oo.seqid = seq
	}
	if st != nfsv4.NFS4_OK {
		c.unexpected("C20/close-refused", what, st, "NFS4_OK")
		return
	}
	if !c.served(what) {
		return
	}
	w.closes++
	released := false
	for _, lo := range c.los {
		if lo.oo == oo {
			if w.files[f].holds(lo.id) {
				released = true
			}
			w.files[f].drop(lo.id)
			delete(lo.lockSt, f)
		}
	}
	delete(oo.opens, f)
	if released {
		w.k.Probe("close_released_locks")
	}
	w.k.Annotate("-> OK; model f%d:%s", f, w.files[f])
}

// --- evaluation of LOCK / LOCKT replies -----------------------------------------------

func (w *nfsWorld) findOwner(clientID uint64, name []byte) *lockOwner {
	for _, c := range w.allClients() {
		if c.mRegistered && c.mClientID == clientID {
			for _, lo := range c.los {
				if string(lo.name) == string(name) {
					return lo
				}
			}
		}
	}
	return nil
}

// partition splits the model's conflicts into those of owners whose lease is
// intact (hard: the request must be denied) and those of zombie clients
// (soft: the server may or may not have discarded them already).
func (w *nfsWorld) partition(owner, f int, s, e uint64, t ltype) (hard, soft []conflict) {
	z := w.zombieOwners()
	for _, c := range w.files[f].conflicts(owner, s, e, t, nil) {
		if z[c.owner] {
			soft = append(soft, c)
		} else {
			hard = append(hard, c)
		}
	}
	return
}

func (w *nfsWorld) softGone(soft []conflict, why string) {
	for _, c := range soft {
		w.k.Probe("expired_client_conflict_ignored")
		w.markGone(w.owners[c.owner].c, why)
	}
}

type lockReq struct {
	c      *nfsClient
	lo     *lockOwner // nil: a stranger that owns nothing
	name   string     // owner name for messages
	f      int
	off    uint64
	length uint64
	lt     nfsv4.NfsLockType4
	what   string
}

func (q *lockReq) ownerID() int {
	if q.lo == nil {
		return -1
	}
	return q.lo.id
}

// outcome: 0 granted/no conflict, 1 denied/conflict, 2 invalid range rejected, -1 evaluation ended (violation,
// lost state or known finding).
func (w *nfsWorld) evaluate(q *lockReq, st nfsv4.Nfsstat4, denied *nfsv4.Lock4denied, isTest bool) int {
	c := q.c
	s, e, valid := rangeOf(q.off, q.length)
	t := typeOf(q.lt)
	if !valid {
		w.k.Probe("invalid_range")
		if st == nfsv4.NFS4_OK || st == nfsv4.NFS4ERR_DENIED {
			w.violate("C20/invalid-range-accepted", "[%s] %s with a range that is empty or exceeds 2^64-1 answered %s", c.vers(), q.what, statusName(st))
			return -1
		}
		if isLostStatus(st) {
			c.unexpected("C20/lock-refused", q.what, st, "NFS4ERR_INVAL")
			return -1
		}
		if !c.served(q.what) {
			return -1
		}
		return 2
	}
	hard, soft := w.partition(q.ownerID(), q.f, s, e, t)
	switch st {
	case nfsv4.NFS4_OK:
		if len(hard) > 0 {
			rule, verb := "C20/lock-granted-despite-conflict", "was granted"
			if isTest {
				rule, verb = "C20/lockt-missed-conflict", "reported no conflict"
			}
			h := hard[0]
			w.violate(rule, "[%s] %s %s although %s holds %s on f%d (its client renewed its lease %s ago). model:%s",
				c.vers(), q.what, verb, w.owners[h.owner], h.iv, q.f, w.now().Sub(w.owners[h.owner].c.mLastSeen), w.modelString())
			return -1
		}
		if !c.served(q.what) {
			return -1
		}
		w.softGone(soft, q.what+" succeeded over its locks")
		return 0
	case nfsv4.NFS4ERR_DENIED:
		if denied == nil {
			harness("DENIED without lock4denied")
		}
		d := w.findOwner(denied.Owner.Clientid, denied.Owner.Owner)
		ds, de, dvalid := rangeOf(denied.Offset, denied.Length)
		dt := typeOf(denied.Locktype)
		dstr := fmt.Sprintf("owner (clientid %x, %q) %s %s", denied.Owner.Clientid, denied.Owner.Owner, rangeStr(denied.Offset, denied.Length), ltName(denied.Locktype))
		if x := w.pastIDs[denied.Owner.Clientid]; x != nil {
			verb := "LOCK was denied because of"
			if isTest {
				verb = "LOCKT reported a conflict with"
			}
			w.violate("C20/lock-of-expired-client-still-blocks", "[%s] %s: %s a lock of %s, whose lease (%s) had expired: %s had been idle for more than the lease time at %s, when a request of %s entered the %s program, which is documented to discard such clients and release their locks; nobody holds that lock in the model. model:%s",
				c.vers(), q.what, verb, dstr, leaseTime, x.name, x.mExpiredAt.Sub(startTime), x.mNoticedBy, x.vers(), w.modelString())
			return -1
		}
		if q.lo != nil && d == q.lo {
			if c.minor == 1 && w.known41 {
				w.known41Hits++
				w.k.Probe("known_nfs41_own_lock_conflict")
				w.k.Annotate("-> DENIED by its own lock (known NFSv4.1 lock-owner identity defect, tolerated by VERIF_W11_KNOWN41)")
				c.served(q.what)
				return -1
			}
			w.violate("C20/own-lock-conflict", "[%s] %s was answered NFS4ERR_DENIED naming the requesting lock-owner itself as the conflicting owner: %s. An owner's own locks must never block it. model:%s",
				c.vers(), q.what, dstr, w.modelString())
			return -1
		}
		if len(hard)+len(soft) == 0 {
			rule := "C20/lock-denied-without-conflict"
			if isTest {
				rule = "C20/lockt-false-conflict"
			}
			w.violate(rule, "[%s] %s was answered NFS4ERR_DENIED (%s) but no other owner holds a conflicting lock on f%d. model:%s", c.vers(), q.what, dstr, q.f, w.modelString())
			return -1
		}
		lo, hi := max(s, ds), min(e, de)
		if d == nil || !dvalid || dt == tUnlock || lo >= hi || !(dt == tExcl || t == tExcl) || !w.files[q.f].covered(d.id, lo, hi, dt) {
			w.violate("C20/denied-range-bogus", "[%s] %s was answered NFS4ERR_DENIED naming %s, which is not a lock that is held and conflicts with the request. model:%s", c.vers(), q.what, dstr, w.modelString())
			return -1
		}
		if !c.served(q.what) {
			return -1
		}
		return 1
	}
	expect := "NFS4_OK"
	if len(hard) > 0 {
		expect = "NFS4ERR_DENIED"
	}
	c.unexpected("C20/lock-refused", q.what, st, expect)
	return -1
}

// --- LOCK / LOCKT / LOCKU ------------------------------------------------------------

func (c *nfsClient) lock(lo *lockOwner, f int, off, length uint64, lt nfsv4.NfsLockType4, forceOpenToLock bool) {
	w := c.w
	oo := lo.oo
	if oo.opens[f] == nil {
		if !c.open(oo, f) {
			return
		}
	}
	args := nfsv4.Lock4args{Locktype: lt, Offset: off, Length: length}
	existing := lo.lockSt[f] != nil && !forceOpenToLock
	pathName := "open-to-lock-owner"
	if existing {
		pathName = "existing-lock-owner"
		args.Locker = &nfsv4.Locker4_FALSE{LockOwner: nfsv4.ExistLockOwner4{LockStateid: *lo.lockSt[f], LockSeqid: lo.seqid + 1}}
	} else {
		args.Locker = &nfsv4.Locker4_TRUE{OpenOwner: nfsv4.OpenToLockOwner4{
			OpenSeqid: oo.seqid + 1, OpenStateid: *oo.opens[f], LockSeqid: lo.seqid + 1,
			LockOwner: nfsv4.StateOwner4{Clientid: c.clientID, Owner: lo.name},
		}}
	}
	q := &lockReq{c: c, lo: lo, f: f, off: off, length: length, lt: lt,
		what: fmt.Sprintf("LOCK(%s, f%d, %s, %s, %s)", lo, f, rangeStr(off, length), ltName(lt), pathName)}
	w.k.Note(q.what)
	res, st, seqOK := c.call(w.putfh(f), &nfsv4.NfsArgop4_OP_LOCK{Oplock: args})
	if !seqOK || len(res) < 2 {
		c.unexpected("C20/lock-refused", q.what, st, "a LOCK result")
		return
	}
	if seqidAdvances(st) {
		lo.seqid++
		if !existing {
			oo.seqid++
		}
	}
	r := res[1].(*nfsv4.NfsResop4_OP_LOCK).Oplock
	var denied *nfsv4.Lock4denied
	if dr, ok := r.(*nfsv4.Lock4res_NFS4ERR_DENIED); ok {
		denied = &dr.Denied
	}
	s, e, _ := rangeOf(off, length)
	t := typeOf(lt)
	ownOverlap := len(w.files[f].owners[lo.id]) > 0 && func() bool {
		for _, iv := range w.files[f].owners[lo.id] {
			if iv.e > s && iv.s < e {
				return true
			}
		}
		return false
	}()
	switch w.evaluate(q, st, denied, false) {
	case 0:
		okr := r.(*nfsv4.Lock4res_NFS4_OK)
		sid := okr.Resok4.LockStateid
		lo.lockSt[f] = &sid
		w.files[f].set(lo.id, s, e, t)
		w.granted++
		w.version[c.minor]++
		if w.overExpired(c, f, s, e) {
			w.postExpiryLock++
			w.k.Probe("post_expiry_lock_by_other_granted")
		}
		w.k.Probe(fmt.Sprintf("nfs4%d_lock_granted", c.minor))
		w.k.Probe("lock_path_" + pathName)
		if ownOverlap {
			w.k.Probe("own_relock_granted")
		}
		if e == maxOff {
			w.k.Probe("range_to_max_offset")
		}
		if length == maxOff {
			w.k.Probe("length_all_ones")
		}
		other := 0
		for fi, fm := range w.files {
			if fi != f && fm.holds(lo.id) {
				other++
			}
		}
		if other > 0 {
			w.k.Probe("same_owner_two_files")
		}
		if t == tShared && len(w.files[f].conflicts(lo.id, s, e, tExcl, nil)) > 0 {
			w.k.Probe("shared_overlap")
		}
		w.k.Annotate("-> granted; model f%d:%s", f, w.files[f])
	case 1:
		w.denied++
		w.k.Probe("lock_denied")
		if denied != nil {
			if d := w.findOwner(denied.Owner.Clientid, denied.Owner.Owner); d != nil && d.c.minor != c.minor {
				w.k.Probe("cross_version_conflict")
			}
		}
		w.k.Annotate("-> %s; model f%d:%s", statusName(st), f, w.files[f])
	}
}

func (c *nfsClient) lockt(lo *lockOwner, name []byte, f int, off, length uint64, lt nfsv4.NfsLockType4) int {
	w := c.w
	q := &lockReq{c: c, lo: lo, f: f, off: off, length: length, lt: lt}
	if lo != nil {
		q.what = fmt.Sprintf("LOCKT(%s, f%d, %s, %s)", lo, f, rangeStr(off, length), ltName(lt))
	} else {
		q.what = fmt.Sprintf("LOCKT(%s/%s (stranger), f%d, %s, %s)", c.name, name, f, rangeStr(off, length), ltName(lt))
	}
	w.k.Note(q.what)
	res, st, seqOK := c.call(w.putfh(f), &nfsv4.NfsArgop4_OP_LOCKT{Oplockt: nfsv4.Lockt4args{
		Locktype: lt, Offset: off, Length: length, Owner: nfsv4.StateOwner4{Clientid: c.clientID, Owner: name},
	}})
	if !seqOK || len(res) < 2 {
		c.unexpected("C20/lock-refused", q.what, st, "a LOCKT result")
		return -1
	}
	r := res[1].(*nfsv4.NfsResop4_OP_LOCKT).Oplockt
	var denied *nfsv4.Lock4denied
	if dr, ok := r.(*nfsv4.Lockt4res_NFS4ERR_DENIED); ok {
		denied = &dr.Denied
	}
	out := w.evaluate(q, st, denied, true)
	switch out {
	case 0:
		w.locktClear++
		if s, e, ok := rangeOf(off, length); ok && w.overExpired(c, f, s, e) {
			w.postExpiryLockt++
			w.k.Probe("post_expiry_lockt_by_other_clear")
		}
		if lo != nil {
			s, e, _ := rangeOf(off, length)
			for _, iv := range w.files[f].owners[lo.id] {
				if iv.e > s && iv.s < e {
					w.k.Probe("lockt_over_own_lock_clear")
					break
				}
			}
		}
		w.k.Annotate("-> no conflict")
	case 1:
		w.locktConflicts++
		w.k.Probe("lockt_conflict")
		w.k.Annotate("-> %s", statusName(st))
	}
	return out
}

func (c *nfsClient) locku(lo *lockOwner, f int, off, length uint64, lt nfsv4.NfsLockType4) {
	w := c.w
	sid := lo.lockSt[f]
	what := fmt.Sprintf("LOCKU(%s, f%d, %s)", lo, f, rangeStr(off, length))
	w.k.Note(what)
	res, st, seqOK := c.call(w.putfh(f), &nfsv4.NfsArgop4_OP_LOCKU{Oplocku: nfsv4.Locku4args{
		Locktype: lt, Seqid: lo.seqid + 1, LockStateid: *sid, Offset: off, Length: length,
	}})
	if !seqOK || len(res) < 2 {
		c.unexpected("C20/unlock-refused", what, st, "a LOCKU result")
		return
	}
	if seqidAdvances(st) {
		lo.seqid++
	}
	s, e, valid := rangeOf(off, length)
	if !valid {
		w.k.Probe("invalid_range")
		if st == nfsv4.NFS4_OK {
			w.violate("C20/invalid-range-accepted", "[%s] %s with a range that is empty or exceeds 2^64-1 answered NFS4_OK", c.vers(), what)
		} else if isLostStatus(st) {
			c.unexpected("C20/unlock-refused", what, st, "NFS4ERR_INVAL")
		} else {
			c.served(what)
		}
		return
	}
	if st != nfsv4.NFS4_OK {
		c.unexpected("C20/unlock-refused", what, st, "NFS4_OK")
		return
	}
	if !c.served(what) {
		return
	}
	nsid := res[1].(*nfsv4.NfsResop4_OP_LOCKU).Oplocku.(*nfsv4.Locku4res_NFS4_OK).LockStateid
	lo.lockSt[f] = &nsid
	before := len(w.files[f].owners[lo.id])
	delta := w.files[f].set(lo.id, s, e, tUnlock)
	w.unlocks++
	if delta > 0 {
		w.k.Probe("unlock_split_own_lock")
	}
	if before > 0 {
		w.k.Probe("unlock_of_lock_holder")
	}
	w.k.Annotate("-> OK; model f%d:%s", f, w.files[f])
}

// --- requests that must fail and change nothing ------------------------------------------

const (
	spoilNone = iota
	spoilWrongFH
	spoilNoFH
	spoilFutureStateSeq
	spoilOldStateSeq
	spoilBadSeqid
	spoilUnknownOther
)

var spoilNames = []string{"", "wrong-current-filehandle", "no-current-filehandle", "future-stateid-seqid", "old-stateid-seqid", "bad-owner-seqid", "unknown-stateid"}

// spoiledRequest sends a LOCK or LOCKU of lock-owner lo on file f that is
// wrong in exactly one way. With a lock state id it takes the
// existing-lock-owner path, otherwise (LOCK only, wrong file handle only) the
// open-to-lock-owner path. The request must fail, must not touch any lock
// table, and - where the outcome is one of the errors of RFC 7530 section
// 9.1.7 - must not advance the owner's seqid. It returns true when the
// request failed in the predicted way.
func (c *nfsClient) spoiledRequest(lo *lockOwner, f int, unlock bool, kind int, off, length uint64, lt nfsv4.NfsLockType4) bool {
	w := c.w
	oo := lo.oo
	existing := lo.lockSt[f] != nil
	if !existing {
		unlock, kind = false, spoilWrongFH
	}
	var sid nfsv4.Stateid4
	if existing {
		sid = *lo.lockSt[f]
	} else {
		sid = *oo.opens[f]
	}
	if kind == spoilOldStateSeq && sid.Seqid < 2 {
		kind = spoilFutureStateSeq
	}
	if kind == spoilBadSeqid && c.minor != 0 {
		kind = spoilUnknownOther
	}
	prefix := []nfsv4.NfsArgop4{w.putfh(f)}
	seq := lo.seqid + 1
	expect := nfsv4.NFS4ERR_BAD_STATEID
	// certain: the request reaches the point where the server knows which
	// client it is dealing with, so the lease is renewed like by any request.
	certain := true
	switch kind {
	case spoilWrongFH:
		if len(w.files) > 1 {
			prefix = []nfsv4.NfsArgop4{w.putfh((f + 1) % len(w.files))}
		} else {
			prefix = []nfsv4.NfsArgop4{&nfsv4.NfsArgop4_OP_PUTROOTFH{}}
		}
	case spoilNoFH:
		prefix = nil
		expect = nfsv4.NFS4ERR_NOFILEHANDLE
	case spoilFutureStateSeq:
		sid.Seqid++
	case spoilOldStateSeq:
		sid.Seqid--
		expect = nfsv4.NFS4ERR_OLD_STATEID
	case spoilBadSeqid:
		seq = lo.seqid + 3
		expect = nfsv4.NFS4ERR_BAD_SEQID
		certain = false
	case spoilUnknownOther:
		if c.minor == 0 {
			sid.Other[11] ^= 0x5a
			certain = false
		} else {
			sid.Other[3] ^= 0x5a
		}
	}
	var op nfsv4.NfsArgop4
	name := "LOCK"
	switch {
	case unlock:
		name = "LOCKU"
		op = &nfsv4.NfsArgop4_OP_LOCKU{Oplocku: nfsv4.Locku4args{Locktype: lt, Seqid: seq, LockStateid: sid, Offset: off, Length: length}}
	case existing:
		op = &nfsv4.NfsArgop4_OP_LOCK{Oplock: nfsv4.Lock4args{Locktype: lt, Offset: off, Length: length,
			Locker: &nfsv4.Locker4_FALSE{LockOwner: nfsv4.ExistLockOwner4{LockStateid: sid, LockSeqid: seq}}}}
	default:
		name = "LOCK(open-to-lock-owner)"
		op = &nfsv4.NfsArgop4_OP_LOCK{Oplock: nfsv4.Lock4args{Locktype: lt, Offset: off, Length: length,
			Locker: &nfsv4.Locker4_TRUE{OpenOwner: nfsv4.OpenToLockOwner4{
				OpenSeqid: oo.seqid + 1, OpenStateid: sid, LockSeqid: seq,
				LockOwner: nfsv4.StateOwner4{Clientid: c.clientID, Owner: lo.name},
			}}}}
	}
	what := fmt.Sprintf("spoiled %s(%s, f%d, %s, %s): %s", name, lo, f, rangeStr(off, length), ltName(lt), spoilNames[kind])
	w.k.Note(what)
	w.spoiled++
	_, st, seqOK := c.call(append(prefix, op)...)
	if !seqOK {
		c.unexpected("C20/bad-request-accepted", what, st, statusName(expect))
		return false
	}
	if c.mGone {
		// The server has forgotten the client: it cannot know the state id.
		if !c.stateLost(what, st) {
			c.served(what) // reports that the state of an expired client was kept
		}
		return false
	}
	if st == nfsv4.NFS4_OK || st == nfsv4.NFS4ERR_DENIED {
		w.violate("C20/bad-request-accepted", "[%s] %s answered %s; expected %s and no effect on any lock table. model:%s", c.vers(), what, statusName(st), statusName(expect), w.modelString())
		return false
	}
	if st != expect {
		// Another error: nothing the property speaks about, but the client
		// no longer knows what the server remembers; it starts over.
		w.k.Probe("spoiled_request_other_error")
		w.k.Annotate("-> %s (predicted %s); client starts over", statusName(st), statusName(expect))
		c.register()
		return false
	}
	if seqidAdvances(st) {
		// NFS4ERR_OLD_STATEID: the seqid of the owner advances (RFC 7530, 9.1.7).
		lo.seqid++
		if !existing {
			oo.seqid++
		}
	} else {
		w.nonCompleting++
		w.k.Probe("failed_noncompleting_lockowner_request")
		w.k.Probe(fmt.Sprintf("failed_noncompleting_nfs4%d_%s", c.minor, spoilNames[kind]))
	}
	w.k.Annotate("-> %s as predicted; lock tables must be unchanged", statusName(st))
	if certain {
		c.mLastSeen = w.now()
	} else {
		// Whether such a request renews the lease is not for the model to
		// say; a RENEW settles it.
		c.ping()
		return !w.failed && c.registered
	}
	return true
}

// stray sends a registration request that carries the id string of c but is
// never confirmed: with a verifier c never used (an aborted boot, a delayed
// duplicate of another boot), or with c's current verifier and another
// callback. Neither may have any effect on the confirmed client: not now,
// and not when the unconfirmed record is garbage collected a lease time
// later. So the model does not change (not even the lease of c is renewed).
func (c *nfsClient) stray(sameVerifier bool) {
	w := c.w
	var verifier [8]byte
	if sameVerifier && c.registered {
		binary.BigEndian.PutUint64(verifier[:], c.verifier)
	} else {
		sameVerifier = false
		w.straysSent++
		binary.BigEndian.PutUint64(verifier[:], 1<<63|uint64(w.straysSent))
	}
	var st nfsv4.Nfsstat4
	if c.minor == 0 {
		w.k.Note(fmt.Sprintf("stray SETCLIENTID with the id of %s (same verifier: %v), never confirmed", c.name, sameVerifier))
		_, st = c.rawCall(&nfsv4.NfsArgop4_OP_SETCLIENTID{Opsetclientid: nfsv4.Setclientid4args{
			Client:        nfsv4.NfsClientId4{Verifier: verifier, Id: c.longID},
			Callback:      nfsv4.CbClient4{CbProgram: 99, CbLocation: nfsv4.Netaddr4{NaRNetid: "tcp", NaRAddr: "10.0.0.9.3.9"}},
			CallbackIdent: 7,
		}})
	} else {
		w.k.Note(fmt.Sprintf("stray EXCHANGE_ID with the id of %s (same verifier: %v), no CREATE_SESSION", c.name, sameVerifier))
		_, st = c.rawCall(&nfsv4.NfsArgop4_OP_EXCHANGE_ID{OpexchangeId: nfsv4.ExchangeId4args{
			EiaClientowner:  nfsv4.ClientOwner4{CoVerifier: verifier, CoOwnerid: c.longID},
			EiaStateProtect: &nfsv4.StateProtect4A_SP4_NONE{},
		}})
	}
	if st != nfsv4.NFS4_OK {
		c.setupFailed("stray registration", st)
		return
	}
	w.k.FaultsFired["stray-unconfirmed-registration"]++
	if !sameVerifier {
		w.strays = append(w.strays, &strayRecord{c: c, at: w.now()})
	}
}

func (c *nfsClient) goSilent(length int, why string) {
	w := c.w
	c.silent = true
	c.wakeAt = max(0, w.turnsLeft-6-length)
	w.k.Note(fmt.Sprintf("%s goes silent %s until %d turns are left", c.name, why, c.wakeAt))
	w.k.FaultsFired["client-silent"]++
}

func (c *nfsClient) holdsAnywhere(lo *lockOwner) bool {
	for _, f := range c.w.files {
		if f.holds(lo.id) {
			return true
		}
	}
	return false
}

func (c *nfsClient) releaseLockowner(lo *lockOwner) {
	w := c.w
	what := fmt.Sprintf("RELEASE_LOCKOWNER(%s)", lo)
	w.k.Note(what)
	res, st, _ := c.call(&nfsv4.NfsArgop4_OP_RELEASE_LOCKOWNER{OpreleaseLockowner: nfsv4.ReleaseLockowner4args{
		LockOwner: nfsv4.StateOwner4{Clientid: c.clientID, Owner: lo.name},
	}})
	if len(res) < 1 {
		harness("empty RELEASE_LOCKOWNER reply")
	}
	held := c.holdsAnywhere(lo)
	switch {
	case st == nfsv4.NFS4ERR_LOCKS_HELD && held:
		if c.served(what) {
			w.k.Probe("release_lockowner_locks_held")
			w.k.Annotate("-> LOCKS_HELD")
		}
	case st == nfsv4.NFS4_OK && !held:
		if c.served(what) {
			w.k.Probe("release_lockowner_ok")
			lo.lockSt = map[int]*nfsv4.Stateid4{}
			w.k.Annotate("-> OK")
		}
	case st == nfsv4.NFS4_OK || st == nfsv4.NFS4ERR_LOCKS_HELD:
		w.violate("C20/locks-held-mismatch", "[%s] %s answered %s, but according to the model the owner holds bytes: %v. model:%s", c.vers(), what, statusName(st), held, w.modelString())
	default:
		c.unexpected("C20/locks-held-mismatch", what, st, "NFS4_OK or NFS4ERR_LOCKS_HELD")
	}
}

func (c *nfsClient) freeStateid(lo *lockOwner, f int) {
	w := c.w
	sid := lo.lockSt[f]
	what := fmt.Sprintf("FREE_STATEID(%s, f%d)", lo, f)
	w.k.Note(what)
	res, st, seqOK := c.call(&nfsv4.NfsArgop4_OP_FREE_STATEID{OpfreeStateid: nfsv4.FreeStateid4args{FsaStateid: *sid}})
	if !seqOK || len(res) < 1 {
		c.unexpected("C20/locks-held-mismatch", what, st, "a FREE_STATEID result")
		return
	}
	held := w.files[f].holds(lo.id)
	switch {
	case st == nfsv4.NFS4ERR_LOCKS_HELD && held:
		if c.served(what) {
			w.k.Probe("free_stateid_locks_held")
		}
	case st == nfsv4.NFS4_OK && !held:
		if c.served(what) {
			w.k.Probe("free_stateid_ok")
			delete(lo.lockSt, f)
			w.k.Annotate("-> OK")
		}
	case st == nfsv4.NFS4_OK || st == nfsv4.NFS4ERR_LOCKS_HELD:
		w.violate("C20/locks-held-mismatch", "[%s] %s answered %s, but according to the model the owner holds bytes on the file: %v. model:%s", c.vers(), what, statusName(st), held, w.modelString())
	default:
		c.unexpected("C20/locks-held-mismatch", what, st, "NFS4_OK or NFS4ERR_LOCKS_HELD")
	}
}

func (c *nfsClient) ping() {
	w := c.w
	what := "RENEW"
	var st nfsv4.Nfsstat4
	if c.minor == 1 {
		what = "SEQUENCE"
	}
	w.k.Note(c.name + " " + what)
	if c.minor == 0 {
		_, st, _ = c.call(&nfsv4.NfsArgop4_OP_RENEW{Oprenew: nfsv4.Renew4args{Clientid: c.clientID}})
	} else {
		_, st, _ = c.call()
	}
	if st != nfsv4.NFS4_OK {
		c.unexpected("C20/state-lost-early", what, st, "NFS4_OK")
		return
	}
	c.served(what)
	w.k.Annotate("-> OK")
}

// --- turns ----------------------------------------------------------------------------

type choices struct {
	idle      bool
	kind      int
	f         int
	lo        int
	oo        int
	s, e      uint64
	allOnes   bool
	lt        nfsv4.NfsLockType4
	invalid   int
	forceO2L  bool
	sweepAs   int
	prefer    bool // prefer a (lock-owner, file) pair that has lock state
	preferIdx int
	spoil     int // which way a LOCK/LOCKU request is made to fail (0: not at all)
	silence   int // 0: no; 1: go silent after this turn; 2: only after a spoiled request
	silentLen int
}

const (
	opLock = iota
	opLocku
	opLockt
	opClose
	opRelease
	opPing
	opReboot
	opStray
)

var lockTypes = []nfsv4.NfsLockType4{nfsv4.WRITE_LT, nfsv4.READ_LT, nfsv4.WRITE_LT, nfsv4.READ_LT, nfsv4.WRITEW_LT, nfsv4.READW_LT}

func (c *nfsClient) draw() choices {
	w := c.w
	t := w.t
	var ch choices
	ch.idle = t.Bool(1, 2) // lazy clients and the observer skip half of their turns
	ch.kind = t.Weighted([]int{10, 5, 5, 2, 2, 1, 1, 2})
	ch.f = t.Choice(len(w.files))
	ch.lo = t.Choice(max(1, len(c.los)))
	ch.oo = t.Choice(max(1, len(c.oos)))
	ch.s, ch.e = pickRange(t)
	ch.allOnes = t.Bool(1, 2)
	ch.lt = pick(t, lockTypes)
	ch.invalid = t.Weighted([]int{30, 1, 1, 1})
	ch.forceO2L = t.Bool(1, 6)
	ch.sweepAs = t.Choice(2)
	ch.prefer = t.Bool(1, 2)
	ch.preferIdx = t.Choice(8)
	ch.spoil = t.Weighted([]int{30, 2, 1, 1, 1, 1, 1})
	ch.silence = t.Weighted([]int{20, 1, 6})
	ch.silentLen = t.Choice(20)
	return ch
}

// encode turns a model range into an (offset, length) pair.
func (ch *choices) encode() (uint64, uint64) {
	switch ch.invalid {
	case 1:
		return ch.s, 0
	case 2:
		return maxOff - 1, 5
	case 3:
		return maxOff, 1
	}
	if ch.e == maxOff && (ch.allOnes || ch.s == 0) {
		return ch.s, maxOff
	}
	return ch.s, ch.e - ch.s
}

func (c *nfsClient) turn(ch choices) {
	w := c.w
	if !c.registered {
		if ch.forceO2L {
			// An aborted registration attempt precedes the real one.
			c.stray(false)
		}
		if !c.register() {
			return
		}
	}
	lo := c.los[ch.lo]
	if ch.prefer {
		type pair struct {
			lo *lockOwner
			f  int
		}
		var have []pair
		for _, l := range c.los {
			for f := range w.files {
				if l.lockSt[f] != nil {
					have = append(have, pair{l, f})
				}
			}
		}
		if len(have) > 0 {
			p := have[ch.preferIdx%len(have)]
			lo, ch.f = p.lo, p.f
		}
	}
	off, length := ch.encode()
	kind := ch.kind
	if kind == opLocku && lo.lockSt[ch.f] == nil {
		kind = opLock
	}
	if (kind == opLock || kind == opLocku) && ch.spoil != spoilNone && (lo.lockSt[ch.f] != nil || lo.oo.opens[ch.f] != nil) {
		if ch.invalid != 0 {
			off, length = ch.s, ch.e-ch.s
		}
		ok := c.spoiledRequest(lo, ch.f, kind == opLocku, ch.spoil, off, length, ch.lt)
		if ok && ch.silence != 0 && !c.observer {
			c.goSilent(ch.silentLen, "right after the failed request")
			w.k.Probe("client_silent_after_failed_request")
		}
		return
	}
	switch kind {
	case opLock:
		force := ch.forceO2L && c.minor == 1 && !w.known41
		c.lock(lo, ch.f, off, length, ch.lt, force)
	case opLocku:
		c.locku(lo, ch.f, off, length, ch.lt)
	case opLockt:
		c.lockt(lo, lo.name, ch.f, off, length, ch.lt)
	case opClose:
		oo := c.oos[ch.oo]
		if oo.opens[ch.f] != nil {
			c.close(oo, ch.f)
		} else {
			c.lockt(lo, lo.name, ch.f, off, length, ch.lt)
		}
	case opRelease:
		if c.minor == 0 {
			c.releaseLockowner(lo)
		} else if lo.lockSt[ch.f] != nil {
			// FREE_STATEID is only legal once the owner holds nothing on the file.
			if (!w.freeHeld || ch.allOnes) && w.files[ch.f].holds(lo.id) {
				c.locku(lo, ch.f, 0, maxOff, ch.lt)
			}
			if !w.failed && c.registered && lo.lockSt[ch.f] != nil && (w.freeHeld || !w.files[ch.f].holds(lo.id)) {
				c.freeStateid(lo, ch.f)
			}
		} else {
			c.lockt(lo, lo.name, ch.f, off, length, ch.lt)
		}
	case opPing:
		c.ping()
	case opReboot:
		w.k.Note(c.name + " reboots")
		w.k.FaultsFired["client-reboot"]++
		c.register()
	case opStray:
		c.stray(ch.allOnes)
		// The client itself carries on (and so keeps its lease alive).
		c.lockt(lo, lo.name, ch.f, off, length, ch.lt)
	}
	if ch.silence == 1 && !w.failed && !c.observer {
		c.goSilent(ch.silentLen, "")
	}
}

func (c *nfsClient) loop() {
	w := c.w
	k := w.k
	for {
		k.SeamWhen("turn", func() bool { return !w.busy && ((w.phase == 0 && w.turnsLeft > 0 && !c.isSilent()) || w.phase == 2) })
		if w.phase == 2 {
			return
		}
		w.busy = true
		w.turnsLeft--
		if c.silent {
			c.silent = false
			k.Note(c.name + " is back")
		}
		ch := c.draw()
		if !(c.lazy && ch.idle) && !w.failed {
			c.turn(ch)
		}
		w.busy = false
	}
}

// --- observer ---------------------------------------------------------------------------

var strangerName = []byte("observer")

// sweep asks, for every elementary segment of file f, whether a stranger
// could lock it exclusively and shared, and compares with the model.
func (w *nfsWorld) sweep(o *nfsClient, f int) bool {
	w.sweeps++
	for i := 0; i+1 < len(points); i++ {
		for _, lt := range []nfsv4.NfsLockType4{nfsv4.WRITE_LT, nfsv4.READ_LT} {
			if w.failed {
				return false
			}
			// The shared probe only tells something new where somebody holds a lock.
			if lt == nfsv4.READ_LT && i != 0 && len(w.files[f].conflicts(-1, points[i], points[i+1], tExcl, nil)) == 0 {
				continue
			}
			if !o.registered && !o.register() {
				return false
			}
			off, length := points[i], points[i+1]-points[i]
			if points[i+1] == maxOff && i%2 == 0 {
				length = maxOff
			}
			o.lockt(nil, strangerName, f, off, length, lt)
			if w.failed {
				return false
			}
		}
	}
	return true
}

func (w *nfsWorld) observerLoop() {
	k := w.k
	t := w.t
	for {
		k.SeamWhen("turn", func() bool { return !w.busy && ((w.phase == 0 && w.turnsLeft > 0) || w.phase >= 1) })
		if w.phase == 2 {
			return
		}
		w.busy = true
		if w.phase == 0 {
			w.turnsLeft--
			ch := w.obs[0].draw()
			if !ch.idle && !w.failed {
				w.sweep(w.obs[ch.sweepAs], ch.f)
			}
			w.busy = false
			continue
		}
		// Final phase.
		k.Note("final phase: sweep")
		as := t.Choice(2)
		for f := range w.files {
			if !w.sweep(w.obs[(as+f)%2], f) {
				break
			}
		}
		if !w.failed {
			k.Yield("final-teardown")
			for _, c := range w.clients {
				switch t.Choice(3) {
				case 0:
					if c.registered {
						for _, oo := range c.oos {
							for f := range w.files {
								if !w.failed && c.registered {
									c.close(oo, f)
								}
							}
						}
					}
				case 2:
					if !w.failed {
						k.Note(c.name + " reboots")
						k.FaultsFired["client-reboot"]++
						c.register()
					}
				}
			}
		}
		if !w.failed {
			k.Yield("final-expiry")
			if t.Bool(2, 3) {
				k.Note("clock +11s")
				w.clock.Advance(11 * time.Second)
			}
			// Every client contacts its server once: either its lease is
			// intact and it is served, or it learns that its state is gone.
			for _, c := range w.clients {
				if !w.failed && c.registered {
					c.ping()
				}
			}
		}
		if !w.failed {
			k.Note("final sweep")
			for f := range w.files {
				if !w.sweep(w.obs[(as+f+1)%2], f) {
					break
				}
			}
		}
		if !w.failed {
			for _, f := range w.files {
				if msg := f.checkInvariant(); msg != "" {
					harness("model invariant broken: %s", msg)
				}
			}
		}
		if !w.failed {
			// Everybody falls silent for longer than the lease time. Then one
			// request enters each program (the observers register anew),
			// after which no client is left: nobody may hold a lock any
			// more, and a fresh client can lock every file entirely.
			k.Yield("final-all-expire")
			k.Note("all clients silent, clock +11s, one request enters each program")
			w.clock.Advance(11 * time.Second)
			for _, o := range w.obs {
				if !w.failed && !o.register() {
					harness("observer cannot register")
				}
			}
			for _, c := range w.clients {
				if c.mRegistered && !c.mGone {
					harness("client %s not expired after the final silence", c.name)
				}
			}
			for f, fm := range w.files {
				if len(fm.owners) != 0 {
					harness("model of f%d not empty after all leases expired:%s", f, fm)
				}
			}
			for f := range w.files {
				if !w.sweep(w.obs[(as+f)%2], f) {
					break
				}
			}
			for f := range w.files {
				o := w.obs[(as+f+1)%2]
				if w.failed || (!o.registered && !o.register()) {
					break
				}
				w.k.Probe("final_whole_file_lock_by_fresh_client")
				o.lock(o.los[0], f, 0, maxOff, nfsv4.WRITE_LT, false)
				if !w.failed && o.registered {
					o.close(o.oos[0], f)
				}
			}
		}
		w.finalDone = true
		w.busy = false
		k.SeamWhen("leave", func() bool { return w.phase == 2 })
		return
	}
}

// --- the run ----------------------------------------------------------------------------

func runNFS(base *world) {
	w := &nfsWorld{world: base, known41: envKnown41(), freeHeld: os.Getenv("VERIF_W11_FREE_HELD") != "0"}
	t := w.t
	k := w.k
	w.clock = simenv.NewSimClock(k, startTime)
	nFiles := 1 + t.Weighted([]int{2, 3, 1})
	w.fs = newStubFS(nFiles)
	for i := 0; i < nFiles; i++ {
		w.files = append(w.files, newFileModel())
	}
	pool := nfsv4srv.NewOpenedFilesPool(w.fs.resolve)
	var rebootVerifier nfsv4.Verifier4
	copy(rebootVerifier[:], "verifsim")
	p41 := nfsv4srv.NewNFS41Program(w.fs.root, pool,
		nfsv4.ServerOwner4{SoMinorId: 1, SoMajorId: []byte("w11")}, []byte("w11scope"),
		&nfsv4.ChannelAttrs4{CaMaxrequestsize: 1 << 21, CaMaxresponsesize: 1 << 21, CaMaxresponsesizeCached: 1 << 16, CaMaxoperations: 100, CaMaxrequests: 4},
		&seqRNG{x: 41}, rebootVerifier, w.clock, leaseTime, 2*time.Minute, path.LocalFormat, nil)
	p40 := nfsv4srv.NewNFS40Program(w.fs.root, pool, &seqRNG{x: 40}, rebootVerifier, [4]byte{0x77, 0x31, 0x31, 0x00},
		w.clock, leaseTime, 2*time.Minute, path.LocalFormat, nil)
	w.program = nfsv4srv.NewMinorVersionFallbackProgram([]nfsv4.Nfs4Program{p41, p40})

	// Clients.
	nClients := 2 + t.Choice(2)
	versions := pick(t, [][]uint32{{0, 1, 0}, {1, 0, 1}, {0, 0, 0}, {1, 1, 1}})
	for i := 0; i < nClients; i++ {
		c := &nfsClient{w: w, idx: i, name: fmt.Sprintf("c%d", i), minor: versions[i], longID: []byte(fmt.Sprintf("client-%d", i))}
		c.lazy = t.Bool(1, 3)
		nOO := 1 + t.Choice(2)
		for j := 0; j < nOO; j++ {
			c.oos = append(c.oos, &openOwner{c: c, name: []byte(fmt.Sprintf("O%d", j)), opens: map[int]*nfsv4.Stateid4{}})
		}
		nLO := 1 + t.Choice(3)
		for j := 0; j < nLO; j++ {
			lo := &lockOwner{c: c, oo: c.oos[j%nOO], name: []byte(fmt.Sprintf("L%d", j)), id: len(w.owners), lockSt: map[int]*nfsv4.Stateid4{}}
			c.los = append(c.los, lo)
			w.owners = append(w.owners, lo)
		}
		w.clients = append(w.clients, c)
		w.r.Logf("%s: %s lazy=%v open-owners=%d lock-owners=%d", c.name, c.vers(), c.lazy, nOO, nLO)
	}
	for m := uint32(0); m < 2; m++ {
		o := &nfsClient{w: w, idx: 100 + int(m), name: fmt.Sprintf("obs4%d", m), minor: m, observer: true, longID: []byte(fmt.Sprintf("observer-%d", m))}
		// Only used at the very end, when the observer locks whole files.
		o.oos = []*openOwner{{c: o, name: []byte("OF"), opens: map[int]*nfsv4.Stateid4{}}}
		o.los = []*lockOwner{{c: o, oo: o.oos[0], name: []byte("LF"), id: len(w.owners), lockSt: map[int]*nfsv4.Stateid4{}}}
		w.owners = append(w.owners, o.los[0])
		w.obs = append(w.obs, o)
	}
	w.pastIDs = map[uint64]*nfsClient{}
	w.turnsLeft = 20 + 5*t.Choice(10)
	if w.r.Tier == "thorough" {
		w.turnsLeft *= 2
	}
	w.r.Logf("config=nfs files=%d clients=%d turns=%d lease=%s known41=%v", nFiles, nClients, w.turnsLeft, leaseTime, w.known41)

	for _, c := range w.clients {
		c.actor = k.Spawn(c.name, c.loop)
	}
	obsActor := k.Spawn("observer", w.observerLoop)

	// Clock jumps happen between requests only.
	k.AddSource(func() []simsync.Event {
		if w.busy || w.phase != 0 || w.turnsLeft <= 0 {
			return nil
		}
		var evs []simsync.Event
		for _, j := range []struct {
			d time.Duration
			w int
		}{{time.Second, 3}, {4 * time.Second, 3}, {11 * time.Second, 1}} {
			j := j
			evs = append(evs, simsync.Event{Key: fmt.Sprintf("clock +%s", j.d), Weight: j.w, Fire: func() {
				if j.d > leaseTime {
					k.FaultsFired["clock-jump-past-lease"]++
				}
				w.clock.Advance(j.d)
			}})
		}
		return evs
	})

	k.Run(200000)
	if k.Failed() {
		return
	}
	w.phase = 1
	k.Run(200000)
	if k.Failed() {
		return
	}
	if !w.finalDone {
		lw, bl, sp := k.Stuck()
		harness("final phase did not complete: lock-waiters=%v blocked=%v parked=%v held=%v", lw, bl, sp, k.HeldLocks())
	}
	w.phase = 2
	k.Run(1000)
	if k.Failed() {
		return
	}
	for _, a := range append([]*simsync.Actor{obsActor}, actorsOf(w.clients)...) {
		if !a.Done() {
			lw, bl, sp := k.Stuck()
			harness("actors did not leave: lock-waiters=%v blocked=%v parked=%v", lw, bl, sp)
		}
	}
	if held := k.HeldLocks(); len(held) > 0 {
		w.violate("C20/lock-leaked", "simulated mutexes still held after all requests returned: %v", held)
		return
	}
	if w.fs.negativeClose != "" {
		w.k.Probe("stub_leaf_closed_more_than_opened")
	}

	r := w.r
	r.SimTime = w.now().Sub(startTime)
	r.Count("nfs_compounds", w.compounds)
	r.Count("nfs_locks_granted", w.granted)
	r.Count("nfs_locks_granted_v40", w.version[0])
	r.Count("nfs_locks_granted_v41", w.version[1])
	r.Count("nfs_locks_denied", w.denied)
	r.Count("nfs_lockt_conflict", w.locktConflicts)
	r.Count("nfs_lockt_clear", w.locktClear)
	r.Count("nfs_unlocks", w.unlocks)
	r.Count("nfs_closes", w.closes)
	r.Count("nfs_sweeps", w.sweeps)
	r.Count("nfs_setup_failed", w.setupFailed)
	r.Count("nfs_stray_unconfirmed_registrations", w.straysSent)
	r.Count("nfs_stray_records_expired_while_client_held_locks", w.strayExpired)
	r.Count("nfs_spoiled_requests", w.spoiled)
	r.Count("nfs_failed_noncompleting_lockowner_requests", w.nonCompleting)
	r.Count("nfs_clients_expired_holding_locks", w.expiredHolding)
	r.Count("nfs_post_expiry_lock_by_other_granted", w.postExpiryLock)
	r.Count("nfs_post_expiry_lockt_by_other_clear", w.postExpiryLockt)
	r.Count("nfs_known41_tolerated", w.known41Hits)
	r.State(fmt.Sprintf("nfs granted=%d denied=%d expiry=%d", min(w.granted, 4), min(w.denied, 3), min(k.FaultsFired["lease-expiry"], 2)))
	r.NonTrivial = w.granted >= 2 && w.denied+w.locktConflicts >= 1
}

func actorsOf(cs []*nfsClient) []*simsync.Actor {
	var out []*simsync.Actor
	for _, c := range cs {
		out = append(out, c.actor)
	}
	return out
}

package w11

import (
	"fmt"
	"sync"

	"github.com/buildbarn/bb-remote-execution/pkg/filesystem/virtual/nfsv4"
	nfsv4_xdr "github.com/buildbarn/go-xdr/pkg/protocols/nfsv4"
)

// Concurrent configuration (1/5 of the runs): 2-4 lock-owners call
// OpenedFile.Lock / Unlock / UnlockAll and OpenedFilesPool.TestLock on one
// opened file *concurrently*, with the controller choosing every interleaving
// at the file's lock table mutex. NFSv4.1 serialises per client only and both
// NFS programs share one OpenedFilesPool, so concurrent LOCKs on one file are
// what production sees. Each owner applies a granted lock to a per-byte model
// of its own holdings when the call returns; the oracle is the core of C20:
// at no time do two different owners hold a common byte unless both hold it
// shared, and a lock that the model says is free of conflicts for the whole
// duration of the call is not denied.

const concDomain = 12            // bytes 0..11 are tracked individually
const concCells = concDomain + 1 // cell 12 stands for every byte from 12 up to the maximum offset

type concOwner struct {
	w     *concWorld
	idx   int
	owner *nfsv4_xdr.LockOwner4
	// held[b]: 0 nothing, 1 shared, 2 exclusive
	held [concCells]int
}

type concWorld struct {
	*world
	of           *nfsv4.OpenedFile
	pool         *nfsv4.OpenedFilesPool
	owners       []*concOwner
	mu           sync.Mutex
	grants       int
	denied       int
	overlapCalls int
	inCall       int
	gen          int // bumped whenever any owner's holdings change
}

func runConcurrent(base *world) {
	w := &concWorld{world: base}
	t := w.t
	w.pool = nfsv4.NewOpenedFilesPool(nil)
	handle := nfsv4_xdr.NfsFh4([]byte{1, 2, 3, 4})
	w.of = w.pool.Open(handle, nil)
	n := 2 + t.Choice(3)
	ops := 4 + t.Choice(10)
	w.r.Logf("concurrent lock table: %d owners, %d calls each", n, ops)
	for i := 0; i < n; i++ {
		o := &concOwner{w: w, idx: i, owner: &nfsv4_xdr.LockOwner4{Clientid: uint64(100 + i), Owner: []byte(fmt.Sprintf("owner%d", i))}}
		w.owners = append(w.owners, o)
		w.k.Spawn(fmt.Sprintf("owner%d", i), func() { o.loop(ops) })
	}
	w.k.AfterStep = w.check
	w.k.Run(4000)
	if w.k.Failed() {
		return
	}
	lockWaiters, blocked, parked := w.k.Stuck()
	if len(lockWaiters)+len(blocked)+len(parked) > 0 {
		w.violate("C20/call-never-returned", "concurrent lock calls did not all return: lock-waiters=%v blocked=%v parked=%v held=%v", lockWaiters, blocked, parked, w.k.HeldLocks())
		return
	}
	// Everybody releases everything; afterwards a stranger must be able to
	// lock the whole file exclusively.
	for _, o := range w.owners {
		w.of.UnlockAll(o.owner)
	}
	stranger := &nfsv4_xdr.LockOwner4{Clientid: 999, Owner: []byte("stranger")}
	if _, res := w.of.Lock(stranger, 0, ^uint64(0), nfsv4_xdr.WRITE_LT); res != nil {
		w.violate("C20/lock-leaked", "after every owner released all its locks a stranger is still denied the whole file: %v", res)
	}
	w.of.UnlockAll(stranger)
	w.of.Close()
	w.r.Count("concurrent_grants", w.grants)
	w.r.Count("concurrent_denials", w.denied)
	w.r.NonTrivial = w.grants > 0 && w.overlapCalls > 0
	if w.overlapCalls > 0 {
		w.k.Probe("concurrent_lock_calls_overlapped")
	}
}

func (o *concOwner) loop(ops int) {
	w := o.w
	t := w.t
	for n := 0; n < ops; n++ {
		w.k.Yield("next")
		start := t.Choice(concDomain)
		length := 1 + t.Choice(concDomain-start)
		toEnd := t.Bool(1, 8)
		kind := t.Weighted([]int{6, 3, 1, 2})
		exclusive := t.Bool(1, 2)
		w.mu.Lock()
		w.inCall++
		if w.inCall > 1 {
			w.overlapCalls++
		}
		w.mu.Unlock()
		switch kind {
		case 0:
			lt := nfsv4_xdr.READ_LT
			if exclusive {
				lt = nfsv4_xdr.WRITE_LT
			}
			l := uint64(length)
			if toEnd {
				l = ^uint64(0)
			}
			// Snapshot of what others hold when the call starts; if nothing
			// conflicts now and nothing conflicting is granted until the call
			// returns, a denial would be wrong. (Checked conservatively: only
			// when no other call overlapped this one.)
			w.mu.Lock()
			alone := w.inCall == 1
			gen0 := w.gen
			conflictBefore := o.conflicts(start, length, toEnd, exclusive)
			w.mu.Unlock()
			_, res := w.of.Lock(o.owner, uint64(start), l, lt)
			w.mu.Lock()
			stillAlone := alone && w.inCall == 1 && w.gen == gen0
			if res == nil {
				w.grants++
				w.gen++
				end := start + length
				if toEnd {
					end = concCells
				}
				for b := start; b < end; b++ {
					if exclusive {
						o.held[b] = 2
					} else {
						o.held[b] = 1
					}
				}
				w.k.Annotate("%s granted %s [%d,+%d toEnd=%v)", o.owner.Owner, lockTypeName(exclusive), start, length, toEnd)
			} else {
				w.denied++
				if stillAlone && !conflictBefore {
					w.mu.Unlock()
					w.violate("C20/lock-denied-without-conflict", "[concurrent] %s was denied %s [%d,+%d) although no other owner holds a conflicting byte and no other call was in progress: %v", o.owner.Owner, lockTypeName(exclusive), start, length, res)
					w.mu.Lock()
				}
			}
			w.mu.Unlock()
		case 1:
			l := uint64(length)
			if toEnd {
				l = ^uint64(0)
			}
			w.of.Unlock(o.owner, uint64(start), l)
			w.mu.Lock()
			w.gen++
			end := start + length
			if toEnd {
				end = concCells
			}
			for b := start; b < end; b++ {
				o.held[b] = 0
			}
			w.mu.Unlock()
		case 2:
			w.of.UnlockAll(o.owner)
			w.mu.Lock()
			w.gen++
			o.held = [concCells]int{}
			w.mu.Unlock()
		case 3:
			lt := nfsv4_xdr.READ_LT
			if exclusive {
				lt = nfsv4_xdr.WRITE_LT
			}
			w.pool.TestLock(nfsv4_xdr.NfsFh4([]byte{1, 2, 3, 4}), o.owner, uint64(start), uint64(length), lt)
		}
		w.mu.Lock()
		w.inCall--
		w.mu.Unlock()
	}
}

func lockTypeName(exclusive bool) string {
	if exclusive {
		return "WRITE"
	}
	return "READ"
}

// conflicts reports whether another owner holds a byte of the range in a
// conflicting mode. Caller holds w.mu.
func (o *concOwner) conflicts(start, length int, toEnd, exclusive bool) bool {
	end := start + length
	if toEnd {
		end = concCells
	}
	for _, p := range o.w.owners {
		if p == o {
			continue
		}
		for b := start; b < end; b++ {
			if p.held[b] == 2 || (exclusive && p.held[b] != 0) {
				return true
			}
		}
	}
	return false
}

// check is the invariant evaluated at every quiescent point.
func (w *concWorld) check() {
	w.mu.Lock()
	defer w.mu.Unlock()
	for b := 0; b < concCells; b++ {
		excl, any := -1, 0
		for _, o := range w.owners {
			if o.held[b] != 0 {
				any++
				if o.held[b] == 2 {
					excl = o.idx
				}
			}
		}
		if excl >= 0 && any > 1 {
			var holders []string
			for _, o := range w.owners {
				if o.held[b] != 0 {
					holders = append(holders, fmt.Sprintf("%s:%s", o.owner.Owner, lockTypeName(o.held[b] == 2)))
				}
			}
			w.mu.Unlock()
			w.violate("C20/lock-granted-despite-conflict", "[concurrent] byte %d is held by %v at the same time", b, holders)
			w.mu.Lock()
			return
		}
	}
}

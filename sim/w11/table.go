package w11

import (
	"fmt"

	"github.com/buildbarn/bb-remote-execution/pkg/filesystem/virtual"
)

// Configuration 1: the lock table itself, sequential, fault-free.

const strangerOwner = 1000

func toVirtualType(t ltype) virtual.ByteRangeLockType {
	switch t {
	case tExcl:
		return virtual.ByteRangeLockTypeLockedExclusive
	case tShared:
		return virtual.ByteRangeLockTypeLockedShared
	}
	return virtual.ByteRangeLockTypeUnlocked
}

func fromVirtualType(t virtual.ByteRangeLockType) ltype {
	switch t {
	case virtual.ByteRangeLockTypeLockedExclusive:
		return tExcl
	case virtual.ByteRangeLockTypeLockedShared:
		return tShared
	}
	return tUnlock
}

type tableWorld struct {
	*world
	ls      virtual.ByteRangeLockSet[int]
	m       *fileModel
	nOwners int
	entries int // sum of all deltas returned by Set

	sets, tests, sweeps     int
	merges, splits, maxoffs int
	denied, sharedOverlap   int
}

// testOnce calls Test and compares the answer with the model.
func (w *tableWorld) testOnce(owner int, s, e uint64, t ltype, what string) bool {
	w.tests++
	got := w.ls.Test(&virtual.ByteRangeLock[int]{Owner: owner, Start: s, End: e, Type: toVirtualType(t)})
	want := w.m.conflicts(owner, s, e, t, nil)
	if (got != nil) != (len(want) > 0) {
		w.violate("C20/table-test-mismatch", "%s: Test(owner=o%d %s type=%s) reported conflict=%v (%s) but the model has conflicts=%v; model:%s",
			what, owner, ival{s, e, t}, t, got != nil, describeLock(got), want, w.m)
		return false
	}
	if got != nil {
		gt := fromVirtualType(got.Type)
		ok := got.Owner != owner && got.End > s && got.Start < e && (gt == tExcl || t == tExcl) && gt != tUnlock &&
			w.m.covered(got.Owner, got.Start, got.End, gt)
		if !ok {
			w.violate("C20/table-conflict-bogus", "%s: Test(owner=o%d %s type=%s) returned %s, which is not a lock that is held and conflicts; model:%s",
				what, owner, ival{s, e, t}, t, describeLock(got), w.m)
			return false
		}
	}
	return true
}

func describeLock(l *virtual.ByteRangeLock[int]) string {
	if l == nil {
		return "none"
	}
	return fmt.Sprintf("o%d%s", l.Owner, ival{l.Start, l.End, fromVirtualType(l.Type)})
}

// sweep compares table and model on every elementary segment, for every
// owner and a stranger, for both lock types.
func (w *tableWorld) sweep(what string) bool {
	w.sweeps++
	reqs := []int{strangerOwner}
	for o := 0; o < w.nOwners; o++ {
		reqs = append(reqs, o)
	}
	for i := 0; i+1 < len(points); i++ {
		for _, o := range reqs {
			for _, t := range []ltype{tExcl, tShared} {
				if !w.testOnce(o, points[i], points[i+1], t, what+" sweep") {
					return false
				}
			}
		}
	}
	// And a few wide ranges.
	for _, o := range reqs {
		if !w.testOnce(o, 0, maxOff, tShared, what+" sweep") || !w.testOnce(o, 1, maxOff-1, tExcl, what+" sweep") {
			return false
		}
	}
	if msg := w.m.checkInvariant(); msg != "" {
		harness("table model invariant broken: %s", msg)
	}
	return true
}

func (w *tableWorld) doSet(owner int, s, e uint64, t ltype) bool {
	w.sets++
	before := len(w.m.owners[owner])
	got := w.ls.Set(&virtual.ByteRangeLock[int]{Owner: owner, Start: s, End: e, Type: toVirtualType(t)})
	want := w.m.set(owner, s, e, t)
	w.entries += got
	w.k.Annotate("Set(o%d %s) delta=%d model-delta=%d model:%s", owner, ival{s, e, t}, got, want, w.m)
	if got != want {
		w.violate("C20/table-delta", "Set(owner=o%d %s) returned delta %d, the model's interval count of that owner changed by %d (%d -> %d); model now:%s",
			owner, ival{s, e, t}, got, want, before, before+want, w.m)
		return false
	}
	if e == maxOff {
		w.maxoffs++
	}
	if t != tUnlock && want < 1 {
		w.merges++
	}
	if (t == tUnlock && want > 0) || want > 1 {
		w.splits++
	}
	return w.sweep(fmt.Sprintf("after Set(o%d %s)", owner, ival{s, e, t}))
}

func runTable(base *world) {
	w := &tableWorld{world: base, m: newFileModel()}
	t := w.t
	w.ls.Initialize()
	w.nOwners = 2 + t.Choice(3)
	nOps := 8 + 4*t.Choice(10)
	w.r.Logf("config=table owners=%d ops=%d", w.nOwners, nOps)
	done := false
	w.k.Spawn("table", func() {
		for i := 0; i < nOps && !w.failed; i++ {
			w.k.Yield("op")
			owner := t.Choice(w.nOwners)
			kind := t.Weighted([]int{4, 4, 3, 2}) // lock X, lock S, unlock, test only
			s, e := pickRange(t)
			testType := pick(t, []ltype{tExcl, tShared})
			w.k.Note(fmt.Sprintf("op kind=%d owner=o%d range=[%s,%s) test=%s", kind, owner, offStr(s), offStr(e), testType))
			switch kind {
			case 0, 1:
				lt := tExcl
				if kind == 1 {
					lt = tShared
				}
				// The documented contract: Set only after Test found no conflict.
				if !w.testOnce(owner, s, e, lt, "before Set") {
					return
				}
				if c := w.m.conflicts(owner, s, e, lt, nil); len(c) > 0 {
					w.denied++
					w.k.Annotate("lock o%d %s conflicts with %v: not set", owner, ival{s, e, lt}, c)
					continue
				}
				if !w.doSet(owner, s, e, lt) {
					return
				}
			case 2:
				if !w.doSet(owner, s, e, tUnlock) {
					return
				}
			case 3:
				if !w.testOnce(owner, s, e, testType, "test") {
					return
				}
			}
			// Shared locks of different owners on a common byte?
			for a := 0; a < w.nOwners; a++ {
				for _, iv := range w.m.owners[a] {
					if iv.t == tShared && len(w.m.conflicts(a, iv.s, iv.e, tExcl, nil)) > 0 {
						w.sharedOverlap++
					}
				}
			}
		}
		if w.failed {
			return
		}
		// Release everything, owner by owner, the way UnlockAll does.
		for o := 0; o < w.nOwners; o++ {
			if !w.doSet(o, 0, maxOff, tUnlock) {
				return
			}
		}
		if w.entries != 0 {
			w.violate("C20/table-delta", "after unlocking [0,M) for every owner the deltas returned by Set sum to %d instead of 0", w.entries)
			return
		}
		done = true
	})
	w.k.Run(100000)
	if w.k.Failed() {
		return
	}
	if !done {
		lw, bl, sp := w.k.Stuck()
		harness("table actor did not finish: %v %v %v", lw, bl, sp)
	}
	r := w.r
	r.Count("table_sets", w.sets)
	r.Count("table_tests", w.tests)
	r.Count("table_sweeps", w.sweeps)
	for name, n := range map[string]int{"table_merge": w.merges, "table_split": w.splits, "table_range_to_max_offset": w.maxoffs, "table_lock_conflict": w.denied, "table_shared_overlap": w.sharedOverlap} {
		if n > 0 {
			w.k.Probe(name)
		}
	}
	r.State(fmt.Sprintf("table merges=%d splits=%d", min(w.merges, 3), min(w.splits, 3)))
	r.NonTrivial = w.sets >= 4 && (w.merges > 0 || w.splits > 0)
}

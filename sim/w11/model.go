package w11

import (
	"fmt"
	"math"
	"sort"
	"strings"
)

// The reference model of byte-range locks ("per-byte" ownership, stored as
// intervals). Ranges are half-open [s, e) over uint64, exactly like
// virtual.ByteRangeLock; e == maxOff stands for "to end of file". For every
// owner the model keeps a canonical list: sorted, pairwise disjoint, and with
// adjacent intervals of equal type merged. Every operation is implemented in
// the most naive way possible: subtract the range from every interval of the
// owner, add the new interval, sort, merge.

const maxOff = uint64(math.MaxUint64)

type ltype int

const (
	tUnlock ltype = 0
	tExcl   ltype = 1 // exclusive / write lock
	tShared ltype = 2 // shared / read lock
)

func (t ltype) String() string {
	switch t {
	case tUnlock:
		return "U"
	case tExcl:
		return "X"
	case tShared:
		return "S"
	}
	return "?"
}

type ival struct {
	s, e uint64
	t    ltype
}

func offStr(v uint64) string {
	if v > maxOff-16 {
		if v == maxOff {
			return "M"
		}
		return fmt.Sprintf("M-%d", maxOff-v)
	}
	return fmt.Sprintf("%d", v)
}

func (i ival) String() string { return fmt.Sprintf("[%s,%s)%s", offStr(i.s), offStr(i.e), i.t) }

// fileModel is the lock state of one file: owner id -> canonical intervals.
type fileModel struct {
	owners map[int][]ival
}

func newFileModel() *fileModel { return &fileModel{owners: map[int][]ival{}} }

func (f *fileModel) ownerIDs() []int {
	ids := make([]int, 0, len(f.owners))
	for id := range f.owners {
		ids = append(ids, id)
	}
	sort.Ints(ids)
	return ids
}

// set gives bytes [s, e) of owner the type t (tUnlock removes them) and
// returns the change of the number of canonical intervals of that owner.
func (f *fileModel) set(owner int, s, e uint64, t ltype) int {
	before := len(f.owners[owner])
	if s >= e {
		return 0
	}
	var out []ival
	for _, iv := range f.owners[owner] {
		// Keep the parts of iv outside [s, e).
		if iv.s < s {
			end := iv.e
			if end > s {
				end = s
			}
			out = append(out, ival{iv.s, end, iv.t})
		}
		if iv.e > e {
			start := iv.s
			if start < e {
				start = e
			}
			out = append(out, ival{start, iv.e, iv.t})
		}
	}
	if t != tUnlock {
		out = append(out, ival{s, e, t})
	}
	sort.Slice(out, func(i, j int) bool { return out[i].s < out[j].s })
	var merged []ival
	for _, iv := range out {
		if n := len(merged); n > 0 && merged[n-1].t == iv.t && merged[n-1].e == iv.s {
			merged[n-1].e = iv.e
			continue
		}
		merged = append(merged, iv)
	}
	if len(merged) == 0 {
		delete(f.owners, owner)
	} else {
		f.owners[owner] = merged
	}
	return len(merged) - before
}

type conflict struct {
	owner int
	iv    ival
}

// conflicts lists every interval of an owner other than `owner` (and not in
// `ignore`) that shares a byte with [s, e) where at least one side is
// exclusive. owner < 0 denotes a stranger that owns nothing.
func (f *fileModel) conflicts(owner int, s, e uint64, t ltype, ignore map[int]bool) []conflict {
	var out []conflict
	if s >= e {
		return nil
	}
	for _, id := range f.ownerIDs() {
		if id == owner || ignore[id] {
			continue
		}
		for _, iv := range f.owners[id] {
			if iv.e > s && iv.s < e && (iv.t == tExcl || t == tExcl) {
				out = append(out, conflict{id, iv})
			}
		}
	}
	return out
}

// holds reports whether owner holds at least one byte of the file.
func (f *fileModel) holds(owner int) bool { return len(f.owners[owner]) > 0 }

// covered reports whether owner holds every byte of [s, e) with type t.
func (f *fileModel) covered(owner int, s, e uint64, t ltype) bool {
	if s >= e {
		return false
	}
	pos := s
	for _, iv := range f.owners[owner] {
		if iv.e <= pos {
			continue
		}
		if iv.s > pos {
			return false
		}
		if iv.t != t {
			return false
		}
		pos = iv.e
		if pos >= e {
			return true
		}
	}
	return false
}

func (f *fileModel) drop(owner int) { delete(f.owners, owner) }

func (f *fileModel) String() string {
	var sb strings.Builder
	for _, id := range f.ownerIDs() {
		fmt.Fprintf(&sb, " o%d:%v", id, f.owners[id])
	}
	if sb.Len() == 0 {
		return " (no locks)"
	}
	return sb.String()
}

// checkInvariant verifies the model's own global invariant (two owners never
// share a byte unless both locks are shared). A failure is a harness bug or
// the consequence of an earlier missed violation.
func (f *fileModel) checkInvariant() string {
	ids := f.ownerIDs()
	for _, a := range ids {
		for _, iv := range f.owners[a] {
			if c := f.conflicts(a, iv.s, iv.e, iv.t, nil); len(c) > 0 {
				return fmt.Sprintf("owner o%d %v overlaps owner o%d %v", a, iv, c[0].owner, c[0].iv)
			}
		}
	}
	return ""
}

// Package w11 is the byte-range lock world (property C20). One run is one of
// two configurations, chosen from the tape:
//
//  1. "table": virtual.ByteRangeLockSet driven directly and sequentially by
//     a single actor (Set/Test over overlapping, adjacent, nested ranges and
//     ranges ending at 2^64-1), compared after every call with an interval
//     ("per-byte") ownership model, including the returned entry-count delta.
//  2. "nfs": the production composition NewMinorVersionFallbackProgram(
//     NFSv4.1, NFSv4.0) sharing one OpenedFilesPool on top of a stub file
//     system, driven by simulated NFSv4.0 and NFSv4.1 clients (several
//     lock-owners, 1-3 files) that issue OPEN / LOCK (open-to-lock-owner and
//     existing-lock-owner) / LOCKT / LOCKU / CLOSE / RELEASE_LOCKOWNER /
//     FREE_STATEID COMPOUNDs, reboot, and let their lease expire under a
//     simulated clock. Every reply is compared with the same model; an
//     observer client sweeps all elementary segments with LOCKT.
//
// Requests are issued one COMPOUND at a time (the property quantifies over
// request sequences, not over races); the seeded controller chooses which
// client acts next, what it does, and when the clock jumps.
package w11

import (
	"encoding/json"
	"fmt"
	"os"
	"time"

	"github.com/buildbarn/bb-remote-execution/pkg/verifsim/simrun"
	"github.com/buildbarn/bb-remote-execution/pkg/verifsim/simsync"
)

var startTime = time.Unix(1700000000, 0).UTC()

// points is the set of offsets all generated ranges start and end at; it is
// small so that overlap, adjacency and nesting are the common case, and it
// contains the top of the 64-bit range.
var points = []uint64{0, 1, 2, 3, 4, 6, 9, maxOff - 3, maxOff - 2, maxOff - 1, maxOff}

func pick[T any](t *simsync.Tape, xs []T) T { return xs[t.Choice(len(xs))] }

// pickRange draws a non-empty range with both ends in points.
func pickRange(t *simsync.Tape) (uint64, uint64) {
	i := t.Choice(len(points) - 1)
	j := i + 1 + t.Choice(len(points)-1-i)
	return points[i], points[j]
}

type world struct {
	r *simrun.Run
	k *simsync.Kernel
	t *simsync.Tape

	failed bool
}

func (w *world) violate(rule, format string, args ...interface{}) {
	if w.failed {
		return
	}
	w.failed = true
	msg := fmt.Sprintf(format, args...)
	w.k.Annotate("VIOLATION %s: %s", rule, msg)
	w.k.Violate(rule, msg)
}

func harness(format string, args ...interface{}) {
	panic(simsync.HarnessError{Msg: fmt.Sprintf(format, args...)})
}

// envKnown41 is the switch that lets the world carry on past the known
// NFSv4.1 lock-owner identity defect (see meta.json): replies in which an
// NFSv4.1 owner is reported to conflict with itself are counted instead of
// reported, and NFSv4.1 clients do not repeat open-to-lock-owner LOCKs.
func envKnown41() bool { return known41 }

var known41 = func() bool {
	if os.Getenv("VERIF_W11_KNOWN41") == "1" {
		return true
	}
	// The same tolerance is switched on by recording the defect in
	// /verif/known_findings.json (the driver passes its path in VERIF_KNOWN):
	// an entry {"property": "C20", "rule": "C20/own-lock-conflict", ...}.
	data, err := os.ReadFile(os.Getenv("VERIF_KNOWN"))
	if err != nil {
		return false
	}
	var file struct {
		Findings []struct {
			Property string `json:"property"`
			Rule     string `json:"rule"`
		} `json:"findings"`
	}
	if json.Unmarshal(data, &file) != nil {
		return false
	}
	for _, f := range file.Findings {
		if f.Property == "C20" && f.Rule == "C20/own-lock-conflict" {
			return true
		}
	}
	return false
}()

// envConfig forces one configuration ("table" or "nfs"); default: mixed.
func envConfig() string { return os.Getenv("VERIF_W11_CONFIG") }

// World is the entry point registered for property C20.
func World(prop string) simrun.World {
	return func(r *simrun.Run) {
		w := &world{r: r, k: r.K, t: r.T}
		cfg := w.t.Choice(5) // 0: table, 1..3: nfs, 4: concurrent lock table
		switch envConfig() {
		case "table":
			cfg = 0
		case "nfs":
			cfg = 1
		case "concurrent":
			cfg = 4
		}
		if cfg == 4 {
			r.Count("runs_concurrent", 1)
			runConcurrent(w)
		} else if cfg == 0 {
			r.Count("runs_table", 1)
			runTable(w)
		} else {
			r.Count("runs_nfs", 1)
			runNFS(w)
		}
	}
}

package w11

import (
	"context"
	"io"

	"github.com/buildbarn/bb-remote-execution/pkg/filesystem/virtual"
	"github.com/buildbarn/bb-storage/pkg/filesystem"
	"github.com/buildbarn/bb-storage/pkg/filesystem/path"
)

// A minimal stub file system: one root directory with a fixed set of regular
// files. C20 is about the lock tables, not about the tree, so nothing here
// is code under test.

type stubLeaf struct {
	fs     *stubFS
	idx    int
	name   string
	handle []byte
	opens  [2]int // per share bit: opens - closes
}

type stubFS struct {
	root   *stubDir
	leaves []*stubLeaf
	// negativeClose is set when a leaf was closed more often than opened.
	negativeClose string
}

type stubDir struct {
	fs     *stubFS
	handle []byte
}

func newStubFS(nFiles int) *stubFS {
	fs := &stubFS{}
	fs.root = &stubDir{fs: fs, handle: []byte{0xD0, 0x00}}
	for i := 0; i < nFiles; i++ {
		fs.leaves = append(fs.leaves, &stubLeaf{fs: fs, idx: i, name: "f" + string(rune('0'+i)), handle: []byte{0xF0, byte(i)}})
	}
	return fs
}

func (fs *stubFS) resolve(r io.ByteReader) (virtual.DirectoryChild, virtual.Status) {
	b0, err := r.ReadByte()
	if err != nil {
		return virtual.DirectoryChild{}, virtual.StatusErrBadHandle
	}
	b1, err := r.ReadByte()
	if err != nil {
		return virtual.DirectoryChild{}, virtual.StatusErrBadHandle
	}
	switch {
	case b0 == 0xD0 && b1 == 0:
		return virtual.DirectoryChild{}.FromDirectory(fs.root), virtual.StatusOK
	case b0 == 0xF0 && int(b1) < len(fs.leaves):
		return virtual.DirectoryChild{}.FromLeaf(fs.leaves[b1]), virtual.StatusOK
	}
	return virtual.DirectoryChild{}, virtual.StatusErrStale
}

func fillAttributes(requested virtual.AttributesMask, out *virtual.Attributes, handle []byte, ft filesystem.FileType, inode uint64) {
	out.SetFileHandle(handle)
	out.SetFileType(ft)
	out.SetInodeNumber(inode)
	out.SetChangeID(1)
	out.SetLinkCount(1)
	out.SetSizeBytes(0)
	out.SetPermissions(virtual.PermissionsRead | virtual.PermissionsWrite | virtual.PermissionsExecute)
	out.SetHasNamedAttributes(false)
	out.SetIsInNamedAttributeDirectory(false)
}

// --- leaf ---------------------------------------------------------------------

func (l *stubLeaf) VirtualGetAttributes(ctx context.Context, requested virtual.AttributesMask, attributes *virtual.Attributes) {
	fillAttributes(requested, attributes, l.handle, filesystem.FileTypeRegularFile, uint64(100+l.idx))
}

func (l *stubLeaf) VirtualSetAttributes(ctx context.Context, in *virtual.Attributes, requested virtual.AttributesMask, attributes *virtual.Attributes) virtual.Status {
	l.VirtualGetAttributes(ctx, requested, attributes)
	return virtual.StatusOK
}

func (l *stubLeaf) VirtualApply(data any) bool { return false }

func (l *stubLeaf) VirtualOpenNamedAttributes(ctx context.Context, createDirectory bool, requested virtual.AttributesMask, attributes *virtual.Attributes) (virtual.Directory, virtual.Status) {
	return nil, virtual.StatusErrNoEnt
}

func (l *stubLeaf) VirtualAllocate(ctx context.Context, off, size uint64) virtual.Status {
	return virtual.StatusOK
}

func (l *stubLeaf) VirtualSeek(ctx context.Context, offset uint64, regionType filesystem.RegionType) (*uint64, virtual.Status) {
	return nil, virtual.StatusErrNXIO
}

func (l *stubLeaf) open(shareAccess virtual.ShareMask) {
	if shareAccess&virtual.ShareMaskRead != 0 {
		l.opens[0]++
	}
	if shareAccess&virtual.ShareMaskWrite != 0 {
		l.opens[1]++
	}
}

func (l *stubLeaf) VirtualOpenSelf(ctx context.Context, shareAccess virtual.ShareMask, options *virtual.OpenExistingOptions, requested virtual.AttributesMask, attributes *virtual.Attributes) virtual.Status {
	l.open(shareAccess)
	l.VirtualGetAttributes(ctx, requested, attributes)
	return virtual.StatusOK
}

func (l *stubLeaf) VirtualRead(ctx context.Context, buf []byte, offset uint64) (int, bool, virtual.Status) {
	return 0, true, virtual.StatusOK
}

func (l *stubLeaf) VirtualClose(shareAccess virtual.ShareMask) {
	if shareAccess&virtual.ShareMaskRead != 0 {
		l.opens[0]--
	}
	if shareAccess&virtual.ShareMaskWrite != 0 {
		l.opens[1]--
	}
	if l.opens[0] < 0 || l.opens[1] < 0 {
		l.fs.negativeClose = l.name
	}
}

func (l *stubLeaf) VirtualWrite(ctx context.Context, buf []byte, offset uint64) (int, virtual.Status) {
	return len(buf), virtual.StatusOK
}

// --- directory ----------------------------------------------------------------

func (d *stubDir) VirtualGetAttributes(ctx context.Context, requested virtual.AttributesMask, attributes *virtual.Attributes) {
	fillAttributes(requested, attributes, d.handle, filesystem.FileTypeDirectory, 1)
}

func (d *stubDir) VirtualSetAttributes(ctx context.Context, in *virtual.Attributes, requested virtual.AttributesMask, attributes *virtual.Attributes) virtual.Status {
	return virtual.StatusErrPerm
}

func (d *stubDir) VirtualApply(data any) bool { return false }

func (d *stubDir) VirtualOpenNamedAttributes(ctx context.Context, createDirectory bool, requested virtual.AttributesMask, attributes *virtual.Attributes) (virtual.Directory, virtual.Status) {
	return nil, virtual.StatusErrNoEnt
}

func (d *stubDir) find(name path.Component) *stubLeaf {
	for _, l := range d.fs.leaves {
		if l.name == name.String() {
			return l
		}
	}
	return nil
}

func (d *stubDir) VirtualOpenChild(ctx context.Context, name path.Component, shareAccess virtual.ShareMask, createAttributes *virtual.Attributes, existingOptions *virtual.OpenExistingOptions, requested virtual.AttributesMask, openedFileAttributes *virtual.Attributes) (virtual.Leaf, virtual.AttributesMask, virtual.ChangeInfo, virtual.Status) {
	l := d.find(name)
	if l == nil {
		return nil, 0, virtual.ChangeInfo{}, virtual.StatusErrNoEnt
	}
	if existingOptions == nil {
		return nil, 0, virtual.ChangeInfo{}, virtual.StatusErrExist
	}
	l.open(shareAccess)
	l.VirtualGetAttributes(ctx, requested, openedFileAttributes)
	return l, 0, virtual.ChangeInfo{Before: 1, After: 1}, virtual.StatusOK
}

func (d *stubDir) VirtualLink(ctx context.Context, name path.Component, leaf virtual.Leaf, requested virtual.AttributesMask, attributes *virtual.Attributes) (virtual.ChangeInfo, virtual.Status) {
	return virtual.ChangeInfo{}, virtual.StatusErrPerm
}

func (d *stubDir) VirtualLookup(ctx context.Context, name path.Component, requested virtual.AttributesMask, out *virtual.Attributes) (virtual.DirectoryChild, virtual.Status) {
	l := d.find(name)
	if l == nil {
		return virtual.DirectoryChild{}, virtual.StatusErrNoEnt
	}
	l.VirtualGetAttributes(ctx, requested, out)
	return virtual.DirectoryChild{}.FromLeaf(l), virtual.StatusOK
}

func (d *stubDir) VirtualMkdir(ctx context.Context, name path.Component, createAttributes *virtual.Attributes, requested virtual.AttributesMask, createdDirectoryAttributes *virtual.Attributes) (virtual.Directory, virtual.ChangeInfo, virtual.Status) {
	return nil, virtual.ChangeInfo{}, virtual.StatusErrPerm
}

func (d *stubDir) VirtualMknod(ctx context.Context, name path.Component, createAttributes *virtual.Attributes, requested virtual.AttributesMask, createdFileAttributes *virtual.Attributes) (virtual.Leaf, virtual.ChangeInfo, virtual.Status) {
	return nil, virtual.ChangeInfo{}, virtual.StatusErrPerm
}

func (d *stubDir) VirtualReadDir(ctx context.Context, firstCookie uint64, requested virtual.AttributesMask, reporter virtual.DirectoryEntryReporter) virtual.Status {
	return virtual.StatusOK
}

func (d *stubDir) VirtualRename(ctx context.Context, oldName path.Component, newDirectory virtual.Directory, newName path.Component) (virtual.ChangeInfo, virtual.ChangeInfo, virtual.Status) {
	return virtual.ChangeInfo{}, virtual.ChangeInfo{}, virtual.StatusErrPerm
}

func (d *stubDir) VirtualRemove(ctx context.Context, name path.Component, removeDirectory, removeLeaf bool) (virtual.ChangeInfo, virtual.Status) {
	return virtual.ChangeInfo{}, virtual.StatusErrPerm
}

// --- deterministic "random" numbers for the servers ------------------------------

// seqRNG implements random.SingleThreadedGenerator with a splitmix64
// sequence: deterministic and, for the handful of values a run needs,
// collision free.
type seqRNG struct{ x uint64 }

func (g *seqRNG) Uint64() uint64 {
	g.x += 0x9e3779b97f4a7c15
	z := g.x
	z = (z ^ (z >> 30)) * 0xbf58476d1ce4e5b9
	z = (z ^ (z >> 27)) * 0x94d049bb133111eb
	return z ^ (z >> 31)
}
func (g *seqRNG) Uint32() uint32       { return uint32(g.Uint64() >> 32) }
func (g *seqRNG) Float64() float64     { return float64(g.Uint64()>>11) / (1 << 53) }
func (g *seqRNG) Int64N(n int64) int64 { return int64(g.Uint64() % uint64(n)) }
func (g *seqRNG) IntN(n int) int       { return int(g.Uint64() % uint64(n)) }
func (g *seqRNG) Read(p []byte) (int, error) {
	for i := range p {
		p[i] = byte(g.Uint64() >> 56)
	}
	return len(p), nil
}
func (g *seqRNG) Shuffle(n int, swap func(i, j int)) {
	for i := n - 1; i > 0; i-- {
		swap(i, g.IntN(i+1))
	}
}

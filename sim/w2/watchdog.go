package w2

import (
	"encoding/json"
	"fmt"
	"hash/fnv"
	"os"
	"sync/atomic"
	"time"

	"github.com/buildbarn/bb-remote-execution/pkg/verifsim/simrun"
	"github.com/buildbarn/bb-remote-execution/pkg/verifsim/simsync"
)

// A call into the analyzer that never returns (e.g. a power iteration that
// does not converge) cannot be interrupted from inside the bubble: no
// goroutine is ever durably blocked, so neither the controller nor simulated
// time moves. A goroutine started outside the bubble (real clock) watches the
// calls of part (b) and, when one has been running for several seconds of
// real time, reports it as a violation in the format the driver expects for
// the current mode and ends the process.

var (
	wdCallSeq atomic.Int64 // number of analyzer calls started
	wdInCall  atomic.Int64 // 1 while a call is in progress
	wdTape    atomic.Pointer[simsync.Tape]
	wdWhat    atomic.Pointer[string]
	wdRuns    atomic.Int64
)

const wdRule = "C07/analyzer-call-does-not-return"

func wdEnter(what string) {
	wdWhat.Store(&what)
	wdCallSeq.Add(1)
	wdInCall.Store(1)
}

func wdLeave() { wdInCall.Store(0) }

// StartWatchdog must be called outside any synctest bubble.
func StartWatchdog(limit time.Duration) {
	go func() {
		last, since := int64(-1), time.Now()
		for {
			time.Sleep(500 * time.Millisecond)
			seq := wdCallSeq.Load()
			if wdInCall.Load() == 0 || seq != last {
				last, since = seq, time.Now()
				continue
			}
			if time.Since(since) < limit {
				continue
			}
			wdReport(time.Since(since))
			os.Exit(0)
		}
	}()
}

func wdReport(d time.Duration) {
	out := os.Getenv("VERIF_OUT")
	if out == "" {
		fmt.Fprintln(os.Stderr, "w2 watchdog: analyzer call does not return")
		os.Exit(3)
	}
	what := ""
	if p := wdWhat.Load(); p != nil {
		what = *p
	}
	var tape []uint32
	if t := wdTape.Load(); t != nil {
		tape = append(tape, t.Rec...)
	}
	h := fnv.New64a()
	for _, v := range tape {
		fmt.Fprintf(h, "%d,", v)
	}
	v := simsync.Violation{Rule: wdRule, Msg: fmt.Sprintf("%s has not returned after %s of real time (the computation does not terminate, e.g. the power iteration does not converge); reported by the out-of-bubble watchdog, the process was ended", what, d.Round(time.Second))}
	res := simrun.Result{Seed: int64(h.Sum64() >> 1), Tape: tape, Violations: []simsync.Violation{v}, Sample: []string{"watchdog report; the history up to the hanging call is determined by the tape"}, Trace: []string{"(no decision trace: the run hangs inside the analyzer before the first decision)"}}
	var data []byte
	switch os.Getenv("VERIF_MODE") {
	case "replay":
		data, _ = json.MarshalIndent(res, "", " ")
	case "minimise":
		// Minimisation needs repeated executions, which is impossible
		// here: hand the recorded failure back unchanged.
		data, _ = os.ReadFile(os.Getenv("VERIF_REPLAY"))
	case "hashes":
		os.Exit(3)
	default:
		po := simrun.ProcessOutput{Prop: os.Getenv("VERIF_PROP"), Runs: int(wdRuns.Load()), Counters: map[string]int{}, Faults: map[string]int{}, Probes: map[string]int{}, Known: map[string]int{}, Failure: &res}
		data, _ = json.MarshalIndent(po, "", " ")
	}
	if err := os.WriteFile(out, data, 0o644); err != nil {
		fmt.Fprintln(os.Stderr, "w2 watchdog:", err)
		os.Exit(3)
	}
}

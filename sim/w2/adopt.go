package w2

import (
	"runtime"
	"strconv"

	"github.com/buildbarn/bb-remote-execution/pkg/verifsim/simsync"
)

// Adoption of goroutines that the code under test starts through a library
// (golang.org/x/sync/errgroup in blobAccessMutableProtoStore.Get). simrewrite
// only names goroutines started by `go` statements of the repository itself,
// so errgroup workers reach our fake ISCC as goroutines the kernel does not
// know; they are registered at their first seam with Kernel.AdoptCurrent and
// retired with Kernel.Retire when the store's Get call that owns them has
// returned.
//
// An adopted goroutine has no recover frame of the kernel below it and is
// never poisoned by Kernel.Teardown: persist.windDown lets every adopted
// goroutine run to completion before the world function returns and, where
// the code under test is deadlocked, retires the remaining ones (they stay
// blocked in the dead bubble, which simrun counts as a leaked bubble).

type adopted struct {
	actor   *simsync.Actor
	goid    int64
	name    string
	retired bool
}

func curGoid() int64 {
	var buf [64]byte
	n := runtime.Stack(buf[:], false)
	s := buf[10:n] // after "goroutine "
	i := 0
	for i < len(s) && s[i] >= '0' && s[i] <= '9' {
		i++
	}
	id, _ := strconv.ParseInt(string(s[:i]), 10, 64)
	return id
}

type kernelGuts struct{ k *simsync.Kernel }

func gutsOf(k *simsync.Kernel) kernelGuts { return kernelGuts{k: k} }

// adoptCurrent registers the calling goroutine as an actor with the given
// (unique, deterministic) name.
func adoptCurrent(g kernelGuts, name string) *adopted {
	a := g.k.AdoptCurrent(name)
	return &adopted{actor: a, goid: curGoid(), name: name}
}

// retire marks an adopted goroutine as finished (its function has returned
// to errgroup, or it is being abandoned in a dead bubble).
func retire(g kernelGuts, ad *adopted) {
	if !ad.retired {
		ad.retired = true
		g.k.Retire(ad.actor)
	}
}

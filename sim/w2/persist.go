package w2

import (
	"context"
	"fmt"
	"os"
	"strings"
	"sync"

	remoteexecution "github.com/bazelbuild/remote-apis/build/bazel/remote/execution/v2"
	re_blobstore "github.com/buildbarn/bb-remote-execution/pkg/blobstore"
	"github.com/buildbarn/bb-remote-execution/pkg/verifsim/simsync"
	"github.com/buildbarn/bb-storage/pkg/digest"
	"github.com/buildbarn/bb-storage/pkg/proto/iscc"
	"google.golang.org/protobuf/proto"
)

// Part (c) of C07: statistics persistence. The real
// BlobAccessMutableProtoStore[iscc.PreviousExecutionStats] runs on top of a
// simulator-owned ISCC; 2-4 actors obtain handles, mutate the shared message
// under a harness-global lock (the role bq.lock plays in the scheduler) by
// appending unique tokens, and release the handles.

// Interleavings in which the design of the store itself (not a coding slip)
// can lose or reorder an update are recognised from the outside and reported
// under their own rule ids, so that they can be told apart from everything
// else. See meta.json "assumptions" and the final report of this world.
const (
	// A reference to a handle was given back (Release, dirty or not, or a
	// failing Get) while a write of that same handle was in flight. A dirty
	// release then gets the version number of the write in flight
	// (blob_access_mutable_proto_store.go:284) and any release re-queues the
	// handle although it is being written (:260-274); when the write
	// completes the handle is dropped from the map while still queued.
	taintReleaseDuringWrite = 1 << iota
	// Two ISCC writes for the same digest were in flight at the same time;
	// the backend may apply them in either order.
	taintOverlap
	// The ISCC value for a digest changed between the moment a Get() call
	// read it and the moment that call returned (the call may install a
	// handle based on the stale value).
	taintStaleRead
)

func taintName(t int) string {
	switch {
	case t&taintReleaseDuringWrite != 0:
		return "release-during-write"
	case t&taintOverlap != 0:
		return "overlapping-writes"
	case t&taintStaleRead != 0:
		return "stale-read"
	}
	return ""
}

type statsStore = re_blobstore.MutableProtoStore[*iscc.PreviousExecutionStats]
type statsHandle = re_blobstore.MutableProtoHandle[*iscc.PreviousExecutionStats]

type persist struct {
	w     *world
	guts  kernelGuts
	store map[int][]byte // the ISCC: digest index -> marshalled message
	mss   statsStore
	// glock plays the role of the scheduler lock: every handle method is
	// called while holding it.
	glock simsync.Mutex

	digests     []digest.Digest
	dnames      []string
	digestIndex map[string]int
	dummy       int // index of the digest the drainer uses

	mu           sync.Mutex // protects everything below against racy phases
	live         []*adopted
	adoptions    int
	livePuts     map[int]int
	putByActor   map[*simsync.Actor]*putRec
	readers      map[int][]*callInfo
	taints       map[int]int
	putsStarted  int
	putsLanded   int
	backingReads int

	// Model (only touched by the single running actor / the controller).
	tokSeq      int64
	tokenDigest map[int64]int
	released    map[int][]int64 // per digest: tokens released dirty, in order
	stored      map[int][]int64 // tokens of the current ISCC value
	broken      map[int]bool    // a tolerated finding hit this digest: model no longer applies

	actors      []*pactor
	drainer     *simsync.Actor
	drainRounds int
	drained     bool

	faultWeight int
	sequential  bool
	faultFree   bool
	stopping    bool
	winding     bool
	maxOps      int

	// sequential mode bookkeeping
	getsInProgress int
	inSection      int

	// statistics
	nGets, nGetErrors, nDirty, nClean, nObservations int
	nPreCancelled, nDisconnects                      int
	maxHolders                                       int
	holders                                          map[int]int
	overlapGets                                      bool
}

type pactor struct {
	p     *persist
	idx   int
	name  string
	actor *simsync.Actor
	calls int
}

func hashFor(i int) string { return strings.Repeat(fmt.Sprintf("%02x", 0xa0+i), 32) }

func newPersist(w *world) *persist {
	t := w.t
	p := &persist{
		w: w, guts: gutsOf(w.k),
		store: map[int][]byte{}, digestIndex: map[string]int{},
		livePuts: map[int]int{}, putByActor: map[*simsync.Actor]*putRec{}, readers: map[int][]*callInfo{}, taints: map[int]int{},
		tokenDigest: map[int64]int{}, released: map[int][]int64{}, stored: map[int][]int64{}, broken: map[int]bool{}, holders: map[int]int{},
	}
	nd := 1 + t.Choice(3)
	for i := 0; i <= nd; i++ {
		d := digest.MustNewDigest("", remoteexecution.DigestFunction_SHA256, hashFor(i), int64(100+i))
		p.digests = append(p.digests, d)
		p.digestIndex[d.GetHashString()] = i
		if i == nd {
			p.dnames = append(p.dnames, "dz")
			p.dummy = i
		} else {
			p.dnames = append(p.dnames, fmt.Sprintf("d%d", i))
		}
	}
	p.faultFree = t.Bool(1, 4)
	p.sequential = t.Bool(1, 3)
	if !p.faultFree {
		p.faultWeight = 1 + t.Choice(3)
	}
	p.maxOps = 3 + t.Choice(8)
	// Some digests start with stats already present in the ISCC.
	for i := 0; i < nd; i++ {
		if t.Bool(1, 3) {
			m := &iscc.PreviousExecutionStats{}
			p.tokSeq++
			appendToken(m, p.tokSeq)
			p.tokenDigest[p.tokSeq] = i
			p.released[i] = append(p.released[i], p.tokSeq)
			data, _ := proto.Marshal(m)
			p.store[i] = data
			p.stored[i] = []int64{p.tokSeq}
		}
	}
	p.mss = re_blobstore.NewBlobAccessMutableProtoStore[iscc.PreviousExecutionStats](&fakeISCC{p}, 1<<20)
	w.r.Logf("persistence: digests=%d faultFree=%v faultWeight=%d sequential=%v maxOps=%d preloaded=%v", nd, p.faultFree, p.faultWeight, p.sequential, p.maxOps, len(p.store))
	return p
}

// seam parks the calling ISCC operation; fault options are only offered in
// runs that are not fault free.
func (p *persist) seam(label string, options ...string) int {
	if p.faultWeight <= 0 {
		return p.w.k.Seam(label, options[0])
	}
	return p.w.k.SeamW(label, 10, p.faultWeight, options...)
}

// taint must be called with p.mu held.
func (p *persist) taint(di, what int) {
	// Since /repo commits 9157dd9 and fd95cae (see known_findings.json) a
	// release during an in-flight write and overlapping writes no longer
	// excuse anything: only the stale read that is inherent in Get's design
	// (and that the property text allows) is still set apart.
	if what != taintStaleRead && os.Getenv("VERIF_W2_TOLERATE_WRITE_RACES") != "1" {
		return
	}
	p.taints[di] |= what
}

func (p *persist) violate(di int, rule, msg string) {
	w := p.w
	t := 0
	if di >= 0 {
		p.mu.Lock()
		t = p.taints[di]
		p.mu.Unlock()
	}
	if t == 0 {
		w.k.Violate("C07/"+rule, msg)
		return
	}
	// The history contains one of the interleavings in which the store's
	// design is known to lose or reorder updates. Report it under a rule of
	// its own; by default these are recorded as findings (probes) and the
	// model stops following this digest, VERIF_W2_STRICT=<cause>[,...] or
	// =all turns them into violations.
	cause := taintName(t)
	full := rule + "-after-" + cause
	if w.strict["all"] || w.strict[cause] {
		w.k.Violate("C07/"+full, msg+fmt.Sprintf(" [history of this digest contains: %s]", p.taintList(t)))
		return
	}
	w.k.Probe("finding:" + full)
	w.k.Annotate("TOLERATED FINDING %s: %s", full, msg)
	p.broken[di] = true
}

func (p *persist) taintList(t int) string {
	var out []string
	if t&taintReleaseDuringWrite != 0 {
		out = append(out, "a handle reference was released while a write of the same digest was in flight")
	}
	if t&taintOverlap != 0 {
		out = append(out, "two writes of the same digest in flight at once")
	}
	if t&taintStaleRead != 0 {
		out = append(out, "ISCC value changed between a Get's read and that Get's return")
	}
	return strings.Join(out, "; ")
}

// applyPut makes an ISCC write take effect. Called by the (only running)
// errgroup worker right after it was resumed.
func (p *persist) applyPut(pr *putRec) {
	di := pr.di
	p.mu.Lock()
	for _, ci := range p.readers[di] {
		if !ci.returned {
			p.taint(di, taintStaleRead)
		}
	}
	prev := p.stored[di]
	p.store[di] = pr.data
	p.stored[di] = pr.tokens
	p.putsLanded++
	p.mu.Unlock()
	p.w.k.Annotate("ISCC[%s] := %v", p.dnames[di], pr.tokens)
	if p.broken[di] {
		return
	}
	for _, tok := range pr.tokens {
		if d, ok := p.tokenDigest[tok]; !ok || d != di {
			p.violate(-1, "foreign-token", fmt.Sprintf("the message written to the ISCC for digest %s contains outcome token %d, which was never recorded for that digest (tokens written: %v)", p.dnames[di], tok, pr.tokens))
			return
		}
	}
	if lost := missingFrom(prev, pr.tokens); len(lost) > 0 {
		p.violate(di, "store-regressed", fmt.Sprintf("ISCC write for digest %s replaces a value containing updates %v by a value without them (new value has %v): a later update was overwritten in favour of an earlier one", p.dnames[di], lost, pr.tokens))
	}
}

// afterStep runs on the controller after every decision.
func (p *persist) afterStep() {
	k := p.w.k
	if a := k.LastActor; a != nil {
		p.mu.Lock()
		if pr := p.putByActor[a]; pr != nil && !pr.finished {
			if pr.awaitingLock {
				pr.finished = true
				p.livePuts[pr.di]--
				delete(p.putByActor, a)
			} else if pr.returned {
				pr.awaitingLock = true
			}
		}
		p.mu.Unlock()
	}
}

func (p *persist) finishCall(ci *callInfo) {
	p.mu.Lock()
	ci.returned = true
	for _, di := range ci.reads {
		rs := p.readers[di][:0]
		for _, c := range p.readers[di] {
			if c != ci {
				rs = append(rs, c)
			}
		}
		p.readers[di] = rs
	}
	p.mu.Unlock()
	ci.mu.Lock()
	children := ci.children
	ci.mu.Unlock()
	for _, ad := range children {
		retire(p.guts, ad)
		// Whatever path the worker took, its write is no longer in flight.
		p.mu.Lock()
		if pr := p.putByActor[ad.actor]; pr != nil && !pr.finished {
			pr.finished = true
			p.livePuts[pr.di]--
			delete(p.putByActor, ad.actor)
		}
		p.mu.Unlock()
	}
	p.mu.Lock()
	live := p.live[:0]
	for _, ad := range p.live {
		if !ad.retired {
			live = append(live, ad)
		}
	}
	p.live = live
	p.mu.Unlock()
}

func (p *persist) liveAdopted() int {
	p.mu.Lock()
	defer p.mu.Unlock()
	return len(p.live)
}

// get performs one MutableProtoStore.Get as actor `name`.
// mode 0: live context; 1: the context is already cancelled when Get is
// called; 2: the controller may cancel it at an ISCC seam of the call.
func (p *persist) get(name string, seq, di, mode int) (statsHandle, error, *callInfo) {
	ci := &callInfo{parent: name, seq: seq, mode: mode}
	base, cancel := context.WithCancel(context.Background())
	defer cancel()
	ci.cancel = cancel
	ctx := context.WithValue(base, ctxKey{}, ci)
	if mode == 1 {
		ci.gone = true
		cancel()
	}
	h, err := p.mss.Get(ctx, p.digests[di])
	// All errgroup workers of the call have returned.
	p.finishCall(ci)
	return h, err, ci
}

// pendingDigests counts, from the token model alone, the digests that have
// released updates which are not in the ISCC, are held by nobody and are not
// being written: those are waiting in the store's write queue.
func (p *persist) pendingDigests() int {
	p.mu.Lock()
	defer p.mu.Unlock()
	n := 0
	for di := 0; di < p.dummy; di++ {
		if p.holders[di] == 0 && p.livePuts[di] == 0 && len(missingFrom(p.released[di], p.stored[di])) > 0 {
			n++
		}
	}
	return n
}

// observe checks what is visible through a handle. The caller holds glock
// and has just been resumed.
func (p *persist) observe(who string, h statsHandle, di int) {
	p.nObservations++
	if p.broken[di] {
		return
	}
	toks := tokensOf(h.GetMutableProto())
	for _, tok := range toks {
		if d, ok := p.tokenDigest[tok]; !ok || d != di {
			p.violate(-1, "foreign-token", fmt.Sprintf("%s sees outcome token %d through its handle for digest %s, but that token was never recorded for this digest (visible: %v)", who, tok, p.dnames[di], toks))
			return
		}
	}
	if lost := missingFrom(p.released[di], toks); len(lost) > 0 {
		p.violate(di, "stale-handle", fmt.Sprintf("%s holds a handle for digest %s whose message lacks updates %v although they were released (dirty) earlier; visible %v, released so far %v, ISCC has %v", who, p.dnames[di], lost, toks, p.released[di], p.stored[di]))
	}
}

func (a *pactor) run() {
	p := a.p
	k := p.w.k
	t := p.w.t
	for op := 0; op < p.maxOps; op++ {
		if p.sequential {
			k.SeamWhen("next", func() bool { return p.inSection == 0 || p.winding })
		} else {
			k.Yield("next")
		}
		if p.stopping || p.winding {
			return
		}
		// All choices of this operation are drawn here, right after a park.
		di := t.Choice(len(p.digests) - 1)
		nsec := 1 + t.Choice(3)
		appendIn := make([]bool, nsec)
		for s := range appendIn {
			appendIn[s] = t.Bool(2, 3)
		}
		mode := 0
		if !p.faultFree {
			// A client that is gone before its request reaches the store,
			// or that disconnects while the store talks to the ISCC.
			mode = t.Weighted([]int{6, 1, 1})
		}
		p.getsInProgress++
		if p.getsInProgress > 1 {
			p.overlapGets = true
		}
		p.nGets++
		pending := 0
		if mode == 1 {
			p.nPreCancelled++
			pending = p.pendingDigests()
			if pending > 0 {
				k.Probe("precancelled_get_while_updates_awaited_writing")
			}
		}
		h, err, ci := p.get(a.name, op, di, mode)
		if mode == 1 && ci.puts > 0 {
			k.Probe("precancelled_get_dequeued_dirty_handles")
		}
		if mode == 1 && err == nil {
			k.Probe("precancelled_get_succeeded_without_io")
		}
		if mode == 2 && ci.gone {
			p.nDisconnects++
		}
		p.getsInProgress--
		if err != nil {
			// A failing Get gives back its reference to an existing
			// handle, which is a (clean) release.
			p.mu.Lock()
			if p.livePuts[di] > 0 {
				p.taint(di, taintReleaseDuringWrite)
				k.Probe("failed_get_while_write_in_flight")
			}
			p.mu.Unlock()
		}
		k.Yield("got")
		if p.winding {
			return
		}
		if err != nil {
			p.nGetErrors++
			k.Annotate("%s: Get(%s) failed: %v", a.name, p.dnames[di], err)
			continue
		}
		p.holders[di]++
		if p.holders[di] > p.maxHolders {
			p.maxHolders = p.holders[di]
		}
		var mine []int64
		for s := 0; s < nsec; s++ {
			if p.sequential {
				k.SeamWhen("enter-section", func() bool { return p.getsInProgress == 0 || p.winding })
				p.inSection++
			}
			p.glock.Lock()
			// Holding the global lock; just resumed from a park point.
			who := fmt.Sprintf("%s (call %d, section %d)", a.name, op, s)
			p.observe(who, h, di)
			if appendIn[s] {
				p.tokSeq++
				tok := p.tokSeq
				p.tokenDigest[tok] = di
				appendToken(h.GetMutableProto(), tok)
				mine = append(mine, tok)
			}
			if s == nsec-1 {
				dirty := len(mine) > 0
				if dirty {
					p.released[di] = append(p.released[di], mine...)
					p.nDirty++
				} else {
					p.nClean++
				}
				k.Annotate("%s: Release(%s, dirty=%v) tokens=%v", a.name, p.dnames[di], dirty, mine)
				p.holders[di]--
				h.Release(dirty)
				// Back from Release (resumed from the ss.lock ticket): a
				// write of this digest that is still in flight now was in
				// flight while Release ran.
				p.mu.Lock()
				if p.livePuts[di] > 0 {
					p.taint(di, taintReleaseDuringWrite)
					if dirty {
						k.Probe("dirty_release_while_write_in_flight")
					} else {
						k.Probe("clean_release_while_write_in_flight")
					}
				}
				p.mu.Unlock()
			}
			p.glock.Unlock()
			if p.sequential {
				p.inSection--
			}
		}
	}
}

func (p *persist) spawnActors() {
	n := 2 + p.w.t.Choice(3)
	for i := 0; i < n; i++ {
		a := &pactor{p: p, idx: i, name: fmt.Sprintf("user%d", i)}
		a.actor = p.w.k.Spawn(a.name, a.run)
		p.actors = append(p.actors, a)
	}
}

func (p *persist) actorsDone() bool {
	for _, a := range p.actors {
		if !a.actor.Done() {
			return false
		}
	}
	return true
}

// drainLoop is the body of the drainer actor: extra Gets (of a digest nobody
// else uses) until a Get finds nothing left to write back.
func (p *persist) drainLoop() {
	k := p.w.k
	const maxRounds = 12
	for i := 0; i < maxRounds; i++ {
		k.Yield("drain-next")
		if p.winding {
			return
		}
		p.drainRounds++
		h, err, ci := p.get("drainer", i, p.dummy, 0)
		k.Yield("drain-got")
		if p.winding {
			return
		}
		if err != nil {
			// No faults are injected any more; an error here is an error
			// of the store itself.
			p.violate(-1, "drain-get-failed", fmt.Sprintf("Get() failed although the ISCC no longer fails: %v", err))
			return
		}
		p.glock.Lock()
		h.Release(false)
		p.glock.Unlock()
		if ci.puts == 0 {
			p.drained = true
			return
		}
	}
}

// run executes the persistence scenario, including drain and final oracle.
func (p *persist) run() {
	w := p.w
	k := w.k
	t := w.t
	p.spawnActors()
	k.AfterStep = p.afterStep
	budget := 150 + 50*t.Choice(10)
	if w.r.Tier == "thorough" {
		budget *= 2
	}
	k.Run(budget)
	if k.Failed() {
		return
	}
	// Drain: no new operations, no more faults.
	k.Note("drain: users finish their current operation, faults off")
	p.stopping = true
	k.FaultsOn = false
	for i := 0; i < 40 && !p.actorsDone(); i++ {
		k.Run(50)
		if k.Failed() {
			return
		}
	}
	if !p.actorsDone() {
		p.stuck("users")
		return
	}
	k.Note("drain: extra Gets until nothing is left to write")
	p.drainer = k.Spawn("drainer", p.drainLoop)
	for i := 0; i < 40 && !p.drainer.Done(); i++ {
		k.Run(50)
		if k.Failed() {
			return
		}
	}
	if !p.drainer.Done() {
		p.stuck("drainer")
		return
	}
	if !p.drained {
		p.violate(-1, "write-queue-never-drains", fmt.Sprintf("after all users stopped and the ISCC stopped failing, %d further Get() calls each still found handles to write back; ISCC writes started %d, landed %d", p.drainRounds, p.putsStarted, p.putsLanded))
		return
	}
	if held := k.HeldLocks(); len(held) > 0 {
		p.violate(-1, "lock-leaked", fmt.Sprintf("all calls returned but locks are still held: %v", held))
		return
	}
	// Final oracle: the ISCC holds every update that was released.
	for di := 0; di < p.dummy; di++ {
		if p.broken[di] || len(p.released[di]) == 0 {
			continue
		}
		if lost := missingFrom(p.released[di], p.stored[di]); len(lost) > 0 {
			p.violate(di, "lost-update", fmt.Sprintf("after draining (faults off, extra Gets until the write queue was empty) the ISCC value for digest %s lacks updates %v; released %v, ISCC has %v", p.dnames[di], lost, p.released[di], p.stored[di]))
			return
		}
	}
}

func (p *persist) stuck(who string) {
	lw, bl, sp := p.w.k.Stuck()
	p.violate(-1, "call-never-returned", fmt.Sprintf("%s did not finish after faults stopped: lock-waiters=%v blocked=%v parked=%v held=%v", who, lw, bl, sp, p.w.k.HeldLocks()))
}

// windDown makes sure no adopted goroutine is parked when the kernel is torn
// down (see adopt.go). It runs on every exit path of the world function.
func (p *persist) windDown() {
	k := p.w.k
	if p.liveAdopted() == 0 {
		return
	}
	p.winding = true
	p.stopping = true
	k.FaultsOn = false
	k.AfterStep = nil
	saved := k.Violations
	k.Violations = nil
	for i := 0; i < 60 && p.liveAdopted() > 0; i++ {
		if k.Run(50) {
			break // nothing enabled any more
		}
		if k.HarnessErr() != nil {
			break
		}
	}
	k.Violations = append(saved, k.Violations...)
	p.mu.Lock()
	rest := append([]*adopted(nil), p.live...)
	p.live = nil
	p.mu.Unlock()
	for _, ad := range rest {
		// The code under test is stuck (deadlock): abandon the goroutine
		// in the bubble instead of poisoning it.
		retire(p.guts, ad)
		p.w.r.Count("abandoned_errgroup_workers", 1)
	}
}

func (p *persist) finish() {
	r := p.w.r
	r.Count("store_gets", p.nGets)
	r.Count("store_get_errors", p.nGetErrors)
	r.Count("store_gets_context_already_cancelled", p.nPreCancelled)
	r.Count("store_gets_client_disconnected_during_io", p.nDisconnects)
	r.Count("releases_dirty", p.nDirty)
	r.Count("releases_clean", p.nClean)
	r.Count("handle_observations", p.nObservations)
	r.Count("iscc_reads", p.backingReads)
	r.Count("iscc_writes_started", p.putsStarted)
	r.Count("iscc_writes_landed", p.putsLanded)
	r.Count("errgroup_workers_adopted", p.adoptions)
	r.Count("drain_rounds", p.drainRounds)
	if p.sequential {
		r.Count("runs_sequential_mode", 1)
	}
	if p.faultFree {
		r.Count("runs_fault_free", 1)
	}
	if p.maxHolders >= 2 {
		p.w.k.Probe("handle_shared_by_two_holders")
	}
	if p.overlapGets {
		p.w.k.Probe("concurrent_store_gets")
	}
	for di, t := range p.taints {
		_ = di
		if t&taintReleaseDuringWrite != 0 {
			r.Count("digests_with_release_during_write", 1)
		}
		if t&taintOverlap != 0 {
			r.Count("digests_with_overlapping_writes", 1)
		}
		if t&taintStaleRead != 0 {
			r.Count("digests_with_stale_read_window", 1)
		}
	}
	r.State(fmt.Sprintf("seq=%v ff=%v holders=%d dirty=%d landed=%d", p.sequential, p.faultFree, p.maxHolders, min(p.nDirty, 6), min(p.putsLanded, 6)))
}

func (p *persist) nonTrivial() bool {
	return p.nDirty >= 2 && p.putsLanded >= 1 && (p.overlapGets || p.maxHolders >= 2 || len(p.w.k.FaultsFired) > 0)
}

// Package w2 is the size-class statistics world: parts (b) "well-formed
// choices" and (c) "statistics persistence" of property C07.
//
//	(b) the real FeedbackDrivenAnalyzer + PageRankStrategyCalculator are
//	    driven on the controller through tape-chosen histories of outcomes,
//	    adversarial stored messages and changing size-class lists; a proxy
//	    StrategyCalculator and the driver check every choice (choices.go).
//	(c) the real BlobAccessMutableProtoStore runs over a simulator-owned,
//	    faulty ISCC; 2-4 actors Get / mutate / Release handles while ISCC
//	    writes are parked in flight (persist.go, iscc.go).
package w2

import (
	"encoding/json"
	"fmt"
	"os"
	"strings"
	"time"

	"github.com/buildbarn/bb-remote-execution/pkg/verifsim/simenv"
	"github.com/buildbarn/bb-remote-execution/pkg/verifsim/simrun"
	"github.com/buildbarn/bb-remote-execution/pkg/verifsim/simsync"
)

var startTime = time.Unix(1700000000, 0).UTC()

type world struct {
	r     *simrun.Run
	k     *simsync.Kernel
	t     *simsync.Tape
	clock *simenv.SimClock
	// strict lists the known findings (by cause) that are to be reported as
	// violations instead of being recorded as probes: VERIF_W2_STRICT is a
	// comma separated list of release-during-write, overlapping-writes,
	// stale-read, size-class-change, or "all".
	strict map[string]bool
}

var knownCauses = []string{"release-during-write", "overlapping-writes", "stale-read", "size-class-change"}

// strictCauses returns the known findings that are to be reported as
// violations: those named in VERIF_W2_STRICT and, when a recorded failure is
// being replayed or minimised, the one named by the recorded rule (so that
// `check replay <file>` needs no extra environment).
func strictCauses() []string {
	var out []string
	for _, s := range strings.Split(os.Getenv("VERIF_W2_STRICT"), ",") {
		if s != "" {
			out = append(out, s)
		}
	}
	if m := os.Getenv("VERIF_MODE"); m == "replay" || m == "minimise" {
		if data, err := os.ReadFile(os.Getenv("VERIF_REPLAY")); err == nil {
			var rf struct {
				Rule string `json:"rule"`
			}
			if json.Unmarshal(data, &rf) == nil {
				for _, c := range knownCauses {
					if strings.HasSuffix(rf.Rule, "-after-"+c) {
						out = append(out, c)
					}
				}
			}
		}
	}
	return out
}

func pick[T any](t *simsync.Tape, xs []T) T { return xs[t.Choice(len(xs))] }

// World is the entry point registered for property C07.
func World(prop string) simrun.World {
	return func(r *simrun.Run) {
		w := &world{r: r, k: r.K, t: r.T, strict: map[string]bool{}}
		for _, s := range strictCauses() {
			w.strict[s] = true
		}
		w.clock = simenv.NewSimClock(w.k, startTime)
		wdTape.Store(r.T)
		wdRuns.Add(1)

		// Part (b): sequential, on the controller.
		c := &choices{w: w, k: w.k, t: w.t}
		c.run()
		c.finish()
		w.k.Note(fmt.Sprintf("choices: selects=%d outcomes=%d digest=%x", c.nSelects, c.nOutcomes, c.hash))
		if w.k.Failed() {
			return
		}

		// Part (c): concurrent.
		p := newPersist(w)
		defer p.windDown()
		p.run()
		p.finish()
		r.SimTime = w.clock.Global().Sub(startTime)
		r.NonTrivial = p.nonTrivial() && c.nMulti > 0
	}
}

package w2

import (
	"testing"
	"time"

	"github.com/buildbarn/bb-remote-execution/pkg/verifsim/simrun"
)

func TestSim(t *testing.T) {
	StartWatchdog(8 * time.Second)
	simrun.Main(t, map[string]simrun.World{"C07": World("C07")})
}

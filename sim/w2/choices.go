package w2

import (
	"context"
	"fmt"
	"hash/fnv"
	"math"
	"strings"
	"time"

	remoteexecution "github.com/bazelbuild/remote-apis/build/bazel/remote/execution/v2"
	"github.com/buildbarn/bb-remote-execution/pkg/scheduler/initialsizeclass"
	"github.com/buildbarn/bb-remote-execution/pkg/verifsim/simsync"
	"github.com/buildbarn/bb-storage/pkg/blobstore"
	"github.com/buildbarn/bb-storage/pkg/digest"
	"github.com/buildbarn/bb-storage/pkg/proto/iscc"
	"google.golang.org/protobuf/proto"
	"google.golang.org/protobuf/types/known/durationpb"
	"google.golang.org/protobuf/types/known/emptypb"
	"google.golang.org/protobuf/types/known/timestamppb"
)

// Part (b) of C07: every choice of the real FeedbackDrivenAnalyzer with the
// real PageRankStrategyCalculator is well formed, for statistics that evolve
// through a history of outcomes and for adversarial stored messages. This
// part is sequential (the analyzer's methods are always called under the
// scheduler lock), so it runs on the controller; every value comes from the
// tape.

// memStore is a trivially correct MutableProtoStore: one shared message per
// digest, handles must be released exactly once.
type memStore struct {
	c    *choices
	msgs map[string]*iscc.PreviousExecutionStats
	open int
}

type memHandle struct {
	s        *memStore
	key      string
	released bool
	// recorded is what the message held, in terms of recorded statistics,
	// when the handle was obtained. Part (b) has one request in flight at a
	// time, so every later difference was made through this handle.
	recorded     *iscc.PreviousExecutionStats
	recordedFull *iscc.PreviousExecutionStats
}

// recordedStats reduces a message to the statistics recorded for the action:
// the outcome histories and the time of the last failure. The cached PageRank
// start values and the empty per-size-class entries that GetStrategies leaves
// behind are working state, not statistics: Select followed by Abandoned
// legitimately changes those and releases the handle clean.
func recordedStats(m *iscc.PreviousExecutionStats) *iscc.PreviousExecutionStats {
	out := &iscc.PreviousExecutionStats{}
	if m.GetLastSeenFailure() != nil {
		out.LastSeenFailure = proto.Clone(m.LastSeenFailure).(*timestamppb.Timestamp)
	}
	for sc, pcs := range m.GetSizeClasses() {
		if len(pcs.GetPreviousExecutions()) == 0 {
			continue
		}
		if out.SizeClasses == nil {
			out.SizeClasses = map[uint32]*iscc.PerSizeClassStats{}
		}
		c := proto.Clone(pcs).(*iscc.PerSizeClassStats)
		c.InitialPageRankProbability = 0
		out.SizeClasses[sc] = c
	}
	return out
}

func (s *memStore) Get(ctx context.Context, d digest.Digest) (statsHandle, error) {
	key := d.GetHashString()
	if _, ok := s.msgs[key]; !ok {
		s.msgs[key] = &iscc.PreviousExecutionStats{}
	}
	s.open++
	return &memHandle{s: s, key: key, recorded: recordedStats(s.msgs[key]), recordedFull: proto.Clone(s.msgs[key]).(*iscc.PreviousExecutionStats)}, nil
}

func (h *memHandle) GetMutableProto() *iscc.PreviousExecutionStats {
	if h.released {
		h.s.c.violate("handle-used-after-release", "the analyzer accessed the statistics message of a handle it had already released")
	}
	return h.s.msgs[h.key]
}

func (h *memHandle) Release(isDirty bool) {
	if h.released {
		h.s.c.violate("handle-released-twice", "the analyzer released the same statistics handle twice; "+h.s.c.where)
		return
	}
	h.released = true
	h.s.open--
	c := h.s.c
	if isDirty {
		c.dirtyReleases++
		return
	}
	if now := recordedStats(h.s.msgs[h.key]); !proto.Equal(now, h.recorded) {
		c.violate("recorded-statistics-dropped", fmt.Sprintf("the analyzer recorded statistics in the message of a handle and then released the handle with isDirty=false, so they are never written to the ISCC; when obtained: %s, at Release(false): %s; %s", compactStats(h.recorded), compactStats(now), c.where))
		return
	}
	if !proto.Equal(h.s.msgs[h.key], h.recordedFull) {
		c.k.Probe("working_state_changed_but_released_clean")
	}
}

// tapeRNG is a random.SingleThreadedGenerator whose values come from the tape.
type tapeRNG struct{ t *simsync.Tape }

func (g tapeRNG) Float64() float64 {
	switch v := g.t.Choice(20); v {
	case 0:
		return 0
	case 1:
		return 1e-12
	case 18:
		return 0.999999999
	case 19:
		return math.Nextafter(1, 0)
	default:
		return float64(v-1) / 17.0 * 0.98
	}
}
func (g tapeRNG) Int64N(n int64) int64               { return int64(g.t.Choice(int(min(n, 1<<20)))) }
func (g tapeRNG) IntN(n int) int                     { return g.t.Choice(n) }
func (g tapeRNG) Read(p []byte) (int, error)         { return len(p), nil }
func (g tapeRNG) Shuffle(n int, swap func(i, j int)) {}
func (g tapeRNG) Uint32() uint32                     { return uint32(g.t.Choice(1 << 16)) }
func (g tapeRNG) Uint64() uint64                     { return uint64(g.t.Choice(1 << 16)) }

// checkingCalculator wraps the real StrategyCalculator and checks each result.
type checkingCalculator struct {
	c    *choices
	base initialsizeclass.StrategyCalculator
}

func (cc *checkingCalculator) GetStrategies(m map[uint32]*iscc.PerSizeClassStats, sizeClasses []uint32, originalTimeout time.Duration) []initialsizeclass.Strategy {
	c := cc.c
	res := cc.base.GetStrategies(m, sizeClasses, originalTimeout)
	c.nStrategies++
	sum := 0.0
	for i, s := range res {
		if math.IsNaN(s.Probability) || s.Probability < 0 || s.Probability > 1 {
			c.violate("probability-out-of-range", fmt.Sprintf("GetStrategies(sizeClasses=%v, timeout=%s) returned probability %v for strategy %d (all: %s); %s", sizeClasses, originalTimeout, s.Probability, i, fmtStrategies(res), c.where))
			return res
		}
		sum += s.Probability
		if s.Probability > 0 && !s.RunInBackground && (s.ForegroundExecutionTimeout < 0 || s.ForegroundExecutionTimeout > originalTimeout) {
			c.violate("timeout-out-of-range", fmt.Sprintf("GetStrategies(sizeClasses=%v, timeout=%s) returned foreground timeout %s for strategy %d, outside [0, %s]; %s", sizeClasses, originalTimeout, s.ForegroundExecutionTimeout, i, originalTimeout, c.where))
			return res
		}
	}
	if sum > 1+1e-9 {
		c.violate("probabilities-sum-exceeds-one", fmt.Sprintf("GetStrategies(sizeClasses=%v, timeout=%s) returned probabilities summing to %v (%s); %s", sizeClasses, originalTimeout, sum, fmtStrategies(res), c.where))
	}
	if len(res) > 0 {
		c.nNonEmptyStrategies++
		if len(res) >= len(sizeClasses) {
			c.k.Probe("strategies_list_as_long_as_size_class_list")
		}
		if sum < 1-1e-9 && sum > 0 {
			c.k.Probe("pagerank_probabilities_computed")
		}
	}
	c.mix(uint64(len(res)), math.Float64bits(sum))
	return res
}

func (cc *checkingCalculator) GetBackgroundExecutionTimeout(m map[uint32]*iscc.PerSizeClassStats, sizeClasses []uint32, sizeClassIndex int, originalTimeout time.Duration) time.Duration {
	c := cc.c
	d := cc.base.GetBackgroundExecutionTimeout(m, sizeClasses, sizeClassIndex, originalTimeout)
	if d < 0 || d > originalTimeout {
		c.violate("timeout-out-of-range", fmt.Sprintf("GetBackgroundExecutionTimeout(sizeClasses=%v, index=%d, timeout=%s) returned %s, outside [0, %s]; %s", sizeClasses, sizeClassIndex, originalTimeout, d, originalTimeout, c.where))
	}
	c.k.Probe("background_timeout_computed")
	return d
}

func fmtStrategies(ss []initialsizeclass.Strategy) string {
	var sb strings.Builder
	for i, s := range ss {
		if i > 0 {
			sb.WriteString(" ")
		}
		fmt.Fprintf(&sb, "{p=%v bg=%v to=%s}", s.Probability, s.RunInBackground, s.ForegroundExecutionTimeout)
	}
	return sb.String()
}

type choices struct {
	w     *world
	k     *simsync.Kernel
	t     *simsync.Tape
	where string // description of the current point of the history
	hash  uint64

	store *memStore

	nSelects, nMulti, nStrategies, nNonEmptyStrategies, nOutcomes, nBackground, nRetries, nAdversarial, dirtyReleases, nChangedLists int
	stopped                                                                                                                          bool
	listChanged                                                                                                                      bool
}

// reportPanic reports a panic of the analyzer. Panics that need the list of
// size classes to change between Select and the completion of the action are
// a known finding of their own (see meta.json); they end part (b) of the run.
func (c *choices) reportPanic(rule, msg string) {
	if c.listChanged && !c.w.strict["all"] && !c.w.strict["size-class-change"] {
		c.k.Probe("finding:" + rule)
		c.k.Annotate("TOLERATED FINDING %s: %s", rule, msg)
		c.stopped = true
		return
	}
	c.violate(rule, msg)
}

func (c *choices) mix(vs ...uint64) {
	h := fnv.New64a()
	var b [8]byte
	for _, v := range append([]uint64{c.hash}, vs...) {
		for i := range b {
			b[i] = byte(v >> (8 * i))
		}
		h.Write(b[:])
	}
	c.hash = h.Sum64()
}

func (c *choices) violate(rule, msg string) {
	c.k.Violate("C07/"+rule, msg)
	c.stopped = true
}

var sizeClassLists = [][]uint32{
	{1, 2},
	{1, 4, 8},
	{1, 2, 4, 8},
	{2, 4, 8, 16, 32},
	{4},
	{1, 1000},
	{3, 8, 9},
}

var durationsPool = []time.Duration{0, time.Millisecond, time.Second, 7 * time.Second, 30 * time.Second, 5 * time.Minute, time.Hour, 100 * time.Hour}

func (c *choices) advDuration() *durationpb.Duration {
	t := c.t
	switch t.Choice(12) {
	case 0:
		return nil
	case 1:
		return durationpb.New(-time.Second)
	case 2:
		return &durationpb.Duration{Seconds: 1 << 40}
	case 3:
		return &durationpb.Duration{Seconds: 5, Nanos: -7}
	case 4:
		return &durationpb.Duration{Seconds: -(1 << 40)}
	default:
		return durationpb.New(pick(t, durationsPool))
	}
}

// adversarialStats builds an arbitrary (but decodable) stored message.
func (c *choices) adversarialStats(sizeClasses []uint32, now time.Time) *iscc.PreviousExecutionStats {
	t := c.t
	m := &iscc.PreviousExecutionStats{}
	if t.Bool(1, 6) {
		return m
	}
	m.SizeClasses = map[uint32]*iscc.PerSizeClassStats{}
	cands := append([]uint32{}, sizeClasses...)
	cands = append(cands, 5, 64)
	if t.Bool(1, 3) && len(cands) > 2 {
		// Largest size class missing from the stored message.
		cands = append(cands[:len(sizeClasses)-1], cands[len(sizeClasses):]...)
	}
	for _, sc := range cands {
		if t.Bool(1, 4) {
			continue
		}
		pcs := &iscc.PerSizeClassStats{}
		n := pick(t, []int{0, 1, 2, 3, 6, 40})
		kind := t.Choice(4) // 0 mixed, 1 all succeeded, 2 all failed, 3 all timed out
		for j := 0; j < n; j++ {
			pe := &iscc.PreviousExecution{}
			o := kind
			if kind == 0 {
				o = 1 + t.Choice(4)
			}
			switch o {
			case 1:
				pe.Outcome = &iscc.PreviousExecution_Succeeded{Succeeded: c.advDuration()}
			case 2:
				pe.Outcome = &iscc.PreviousExecution_Failed{Failed: &emptypb.Empty{}}
			case 3:
				pe.Outcome = &iscc.PreviousExecution_TimedOut{TimedOut: c.advDuration()}
			}
			pcs.PreviousExecutions = append(pcs.PreviousExecutions, pe)
		}
		pcs.InitialPageRankProbability = pick(t, []float64{0, 0.5, 0.9, 0.999, 1, -0.5, 2, math.NaN(), math.Inf(1), 1e-300, 0.3})
		m.SizeClasses[sc] = pcs
	}
	switch t.Choice(5) {
	case 1:
		m.LastSeenFailure = timestamppb.New(now.Add(-time.Hour))
	case 2:
		m.LastSeenFailure = timestamppb.New(now.Add(100 * time.Hour))
	case 3:
		m.LastSeenFailure = &timestamppb.Timestamp{Seconds: 1 << 50}
	case 4:
		m.LastSeenFailure = &timestamppb.Timestamp{Seconds: 10, Nanos: -5}
	}
	// Only what can actually come out of the ISCC: round-trip through the
	// wire format.
	data, err := proto.Marshal(m)
	if err != nil {
		panic(simsync.HarnessError{Msg: "adversarialStats: " + err.Error()})
	}
	out := &iscc.PreviousExecutionStats{}
	if err := proto.Unmarshal(data, out); err != nil {
		panic(simsync.HarnessError{Msg: "adversarialStats: " + err.Error()})
	}
	return out
}

// safely runs f, turning a panic of the code under test into a violation.
func (c *choices) safely(what string, f func()) (ok bool) {
	wdEnter(what + "; " + c.where)
	defer wdLeave()
	defer func() {
		if r := recover(); r != nil {
			if he, isHE := r.(simsync.HarnessError); isHE {
				panic(he)
			}
			rule := "analyzer-panic"
			if c.listChanged {
				rule = "analyzer-panic-after-size-class-change"
			}
			c.reportPanic(rule, fmt.Sprintf("%s panicked: %v; %s", what, r, c.where))
			ok = false
		}
	}()
	f()
	return true
}

func (c *choices) checkChoice(what string, idx int, sizeClasses []uint32, timeout, actionTimeout time.Duration) {
	if idx < 0 || idx >= len(sizeClasses) {
		c.violate("index-out-of-range", fmt.Sprintf("%s returned size class index %d for size classes %v; %s", what, idx, sizeClasses, c.where))
		return
	}
	if timeout < 0 || timeout > actionTimeout {
		c.violate("timeout-out-of-range", fmt.Sprintf("%s returned timeout %s, outside [0, %s] (the action's own timeout); size classes %v index %d; %s", what, timeout, actionTimeout, sizeClasses, idx, c.where))
	}
}

func (c *choices) run() {
	w := c.w
	t := c.t
	clk := w.clock
	c.store = &memStore{c: c, msgs: map[string]*iscc.PreviousExecutionStats{}}

	minTimeout := pick(t, []time.Duration{10 * time.Second, time.Second, 0, 10 * time.Minute})
	exponent := pick(t, []float64{0.7, 1.0, 0.0, 0.3})
	multiplier := pick(t, []float64{1.5, 1.0, 3.0})
	convergence := pick(t, []float64{0.002, 0.05, 1e-6})
	historySize := pick(t, []int{32, 1, 2, 5})
	failureCache := pick(t, []time.Duration{24 * time.Hour, 0, time.Hour})
	defaultTimeout := 30 * time.Minute
	maxTimeout := pick(t, []time.Duration{time.Hour, 2 * time.Hour})
	calc := &checkingCalculator{c: c, base: initialsizeclass.NewPageRankStrategyCalculator(minTimeout, exponent, multiplier, convergence)}
	analyzer := initialsizeclass.NewFeedbackDrivenAnalyzer(c.store, tapeRNG{t}, clk, initialsizeclass.NewActionTimeoutExtractor(defaultTimeout, maxTimeout), failureCache, calc, historySize)
	w.r.Logf("choices: minTimeout=%s exponent=%v multiplier=%v convergence=%v history=%d failureCache=%s maxTimeout=%s", minTimeout, exponent, multiplier, convergence, historySize, failureCache, maxTimeout)

	df := digest.MustNewFunction("", remoteexecution.DigestFunction_SHA256)
	type actionSpec struct {
		action  *remoteexecution.Action
		timeout time.Duration
		valid   bool
		key     string
		lists   [][]uint32 // [0] is the usual list of this action's platform
	}
	var actions []*actionSpec
	na := 1 + t.Choice(2)
	for i := 0; i < na; i++ {
		a := &remoteexecution.Action{
			CommandDigest:   &remoteexecution.Digest{Hash: strings.Repeat(fmt.Sprintf("%02x", 0x10+i), 32), SizeBytes: int64(20 + i)},
			InputRootDigest: &remoteexecution.Digest{Hash: strings.Repeat("cd", 32), SizeBytes: 3},
		}
		as := &actionSpec{action: a, timeout: defaultTimeout, valid: true}
		switch t.Choice(20) {
		case 0, 6, 7:
		case 1:
			as.timeout = 0
			a.Timeout = durationpb.New(0)
		case 2:
			as.timeout = maxTimeout
			a.Timeout = durationpb.New(maxTimeout)
		case 3:
			a.Timeout = durationpb.New(-time.Second)
			as.valid = false
		case 4:
			a.Timeout = durationpb.New(maxTimeout + time.Nanosecond)
			as.valid = false
		default:
			as.timeout = pick(t, []time.Duration{time.Second, 5 * time.Second, time.Minute, 10 * time.Minute})
			a.Timeout = durationpb.New(as.timeout)
		}
		rd, err := blobstore.GetReducedActionDigest(df, a)
		if err != nil {
			panic(simsync.HarnessError{Msg: err.Error()})
		}
		as.key = rd.GetHashString()
		main := pick(t, sizeClassLists)
		as.lists = [][]uint32{main}
		// Variants used when the set of size classes changes over time.
		hi := len(main) - 1 + t.Choice(2) // with or without the largest
		lo := 0
		if t.Bool(1, 2) && hi > 1 {
			lo = 1 // without the smallest
		}
		if hi > lo {
			as.lists = append(as.lists, main[lo:hi])
		}
		as.lists = append(as.lists, append(append([]uint32{}, main...), main[len(main)-1]+7))
		actions = append(actions, as)
		w.r.Logf("choices: action%d timeout=%v valid=%v sizeClasses=%v", i, a.Timeout.AsDuration(), as.valid, main)
	}
	for _, as := range actions {
		if t.Bool(1, 2) {
			c.store.msgs[as.key] = c.adversarialStats(as.lists[0], clk.Now())
			c.nAdversarial++
		}
	}

	iterations := 8 + t.Choice(25)
	for it := 0; it < iterations && !c.stopped; it++ {
		as := pick(t, actions)
		ai := 0
		for i := range actions {
			if actions[i] == as {
				ai = i
			}
		}
		if t.Bool(1, 12) {
			c.store.msgs[as.key] = c.adversarialStats(as.lists[0], clk.Now())
			c.nAdversarial++
		}
		if t.Bool(1, 4) {
			clk.Advance(pick(t, []time.Duration{time.Second, time.Hour, 25 * time.Hour}))
		}
		sizeClasses := as.lists[0]
		if t.Bool(1, 10) {
			sizeClasses = pick(t, as.lists)
		}
		if len(sizeClasses) == 0 {
			sizeClasses = as.lists[0]
		}
		c.listChanged = false
		c.where = fmt.Sprintf("iteration %d action%d sizeClasses=%v stored=%s", it, ai, sizeClasses, compactStats(c.store.msgs[as.key]))

		var sel initialsizeclass.Selector
		var err error
		if !c.safely("Analyze", func() { sel, err = analyzer.Analyze(context.Background(), df, as.action) }) {
			return
		}
		if err != nil {
			if as.valid {
				c.violate("analyze-failed", fmt.Sprintf("Analyze failed for a valid action: %v; %s", err, c.where))
				return
			}
			c.k.Probe("invalid_timeout_rejected")
			continue
		}
		if !as.valid {
			// The extractor accepted a timeout outside [0, max]; from here
			// on the ordinary checks apply with the action's own value.
			as.timeout = as.action.Timeout.AsDuration()
			c.k.Probe("invalid_timeout_accepted")
		}
		if t.Bool(1, 10) {
			if !c.safely("Selector.Abandoned", func() { sel.Abandoned() }) {
				return
			}
			continue
		}
		var idx int
		var expected, timeout time.Duration
		var learner initialsizeclass.Learner
		if !c.safely("Selector.Select", func() { idx, expected, timeout, learner = sel.Select(sizeClasses) }) {
			return
		}
		c.nSelects++
		if len(sizeClasses) > 1 {
			c.nMulti++
		}
		if c.stopped {
			return
		}
		c.checkChoice("Select", idx, sizeClasses, timeout, as.timeout)
		if learner == nil {
			c.violate("no-learner", "Select returned a nil Learner; "+c.where)
		}
		if c.stopped {
			return
		}
		c.mix(uint64(idx), uint64(timeout), uint64(expected))
		if idx < len(sizeClasses)-1 {
			c.k.Probe("smaller_size_class_chosen")
		}

		// Follow the learner chain.
		curIdx, curTimeout := idx, timeout
		for hop := 0; learner != nil && hop < 6 && !c.stopped; hop++ {
			c.nOutcomes++
			c.where = fmt.Sprintf("iteration %d action%d sizeClasses=%v learner=%T hop=%d stored=%s", it, ai, sizeClasses, learner, hop, compactStats(c.store.msgs[as.key]))
			kind := fmt.Sprintf("%T", learner)
			kind = kind[strings.LastIndex(kind, ".")+1:]
			trained := kind == "smallerBackgroundLearner" // the success on the largest class is already in the message
			switch o := t.Choice(8); {
			case o == 0 || (trained && o == 1):
				if trained {
					c.k.Probe("smaller_background_learner_abandoned")
				}
				if !c.safely(kind+".Abandoned", func() { learner.Abandoned() }) {
					return
				}
				learner = nil
			case o <= 4:
				dur := pick(t, []time.Duration{time.Second, 0, time.Millisecond, curTimeout / 2, curTimeout, 7 * time.Second, time.Hour})
				lists := sizeClasses
				if t.Bool(1, 8) {
					lists = pick(t, as.lists)
					if len(lists) == 0 {
						lists = sizeClasses
					}
					if fmt.Sprint(lists) != fmt.Sprint(sizeClasses) {
						c.listChanged = true
						c.nChangedLists++
						c.where += fmt.Sprintf(" sizeClassesAtCompletion=%v", lists)
					}
				}
				var i2 int
				var e2, t2 time.Duration
				var l2 initialsizeclass.Learner
				cur := learner
				if trained {
					c.k.Probe("smaller_background_learner_succeeded")
				}
				if !c.safely(fmt.Sprintf("%T.Succeeded(%s, %v)", cur, dur, lists), func() { i2, e2, t2, l2 = cur.Succeeded(dur, lists) }) {
					return
				}
				if l2 != nil {
					c.nBackground++
					c.k.Probe("background_learning_requested")
					c.checkChoice(fmt.Sprintf("%T.Succeeded", cur), i2, lists, t2, as.timeout)
					c.mix(uint64(i2), uint64(t2), uint64(e2))
					sizeClasses = lists
					curIdx, curTimeout = i2, t2
				}
				learner = l2
			default:
				timedOut := o >= 7
				var e2, t2 time.Duration
				var l2 initialsizeclass.Learner
				cur := learner
				if trained {
					c.k.Probe("smaller_background_learner_failed")
				}
				if !c.safely(fmt.Sprintf("%T.Failed(%v)", cur, timedOut), func() { e2, t2, l2 = cur.Failed(timedOut) }) {
					return
				}
				if l2 != nil {
					c.nRetries++
					c.k.Probe("retry_on_largest_requested")
					if t2 < 0 || t2 > as.timeout {
						c.violate("timeout-out-of-range", fmt.Sprintf("%T.Failed returned retry timeout %s, outside [0, %s]; %s", cur, t2, as.timeout, c.where))
					}
					c.mix(uint64(t2), uint64(e2))
					curIdx, curTimeout = len(sizeClasses)-1, t2
				}
				learner = l2
			}
		}
		_ = curIdx
		if learner != nil && !c.stopped {
			cur := learner
			if !c.safely("Learner.Abandoned", func() { cur.Abandoned() }) {
				return
			}
		}
		if c.stopped {
			return
		}
		if c.store.open != 0 {
			c.violate("handle-not-released", fmt.Sprintf("after the selector and all learners of a request received their terminal call, %d statistics handle(s) are still not released; %s", c.store.open, c.where))
			return
		}
	}
}

func (c *choices) finish() {
	r := c.w.r
	r.Count("choices_selects", c.nSelects)
	r.Count("choices_selects_multiple_size_classes", c.nMulti)
	r.Count("choices_strategy_lists", c.nStrategies)
	r.Count("choices_strategy_lists_non_empty", c.nNonEmptyStrategies)
	r.Count("choices_outcomes", c.nOutcomes)
	r.Count("choices_background_runs", c.nBackground)
	r.Count("choices_retries_on_largest", c.nRetries)
	r.Count("choices_adversarial_messages", c.nAdversarial)
	r.Count("choices_size_class_list_changed", c.nChangedLists)
}

func compactStats(m *iscc.PreviousExecutionStats) string {
	if m == nil {
		return "<none>"
	}
	var sb strings.Builder
	sb.WriteString("{")
	keys := make([]uint32, 0, len(m.SizeClasses))
	for k := range m.SizeClasses {
		keys = append(keys, k)
	}
	for i := range keys {
		for j := i + 1; j < len(keys); j++ {
			if keys[j] < keys[i] {
				keys[i], keys[j] = keys[j], keys[i]
			}
		}
	}
	for _, k := range keys {
		pcs := m.SizeClasses[k]
		fmt.Fprintf(&sb, "%d:[", k)
		n := len(pcs.GetPreviousExecutions())
		for i, pe := range pcs.GetPreviousExecutions() {
			if i >= 8 {
				fmt.Fprintf(&sb, "..%d more", n-i)
				break
			}
			switch o := pe.Outcome.(type) {
			case *iscc.PreviousExecution_Succeeded:
				fmt.Fprintf(&sb, "S%s ", o.Succeeded.AsDuration())
			case *iscc.PreviousExecution_TimedOut:
				fmt.Fprintf(&sb, "T%s ", o.TimedOut.AsDuration())
			case *iscc.PreviousExecution_Failed:
				sb.WriteString("F ")
			default:
				sb.WriteString("? ")
			}
		}
		fmt.Fprintf(&sb, "]p=%v ", pcs.GetInitialPageRankProbability())
	}
	if m.LastSeenFailure != nil {
		fmt.Fprintf(&sb, "lastFailure=%d.%d", m.LastSeenFailure.Seconds, m.LastSeenFailure.Nanos)
	}
	sb.WriteString("}")
	return sb.String()
}

package w2

import (
	"context"
	"fmt"
	"sort"
	"sync"
	"time"

	remoteexecution "github.com/bazelbuild/remote-apis/build/bazel/remote/execution/v2"
	"github.com/buildbarn/bb-remote-execution/pkg/verifsim/simsync"
	"github.com/buildbarn/bb-storage/pkg/blobstore/buffer"
	"github.com/buildbarn/bb-storage/pkg/blobstore/slicing"
	"github.com/buildbarn/bb-storage/pkg/digest"
	"github.com/buildbarn/bb-storage/pkg/proto/iscc"
	"google.golang.org/grpc/codes"
	"google.golang.org/grpc/status"
	"google.golang.org/protobuf/proto"
	"google.golang.org/protobuf/types/known/durationpb"
)

// tokenClass is the size class whose outcome history carries the harness'
// unique tokens (a Succeeded outcome of <token> nanoseconds).
const tokenClass = 7

type ctxKey struct{}

// callInfo describes one MutableProtoStore.Get call of a harness actor; it
// travels in the context so that the errgroup workers of that call can be
// named after it.
type callInfo struct {
	parent   string
	seq      int
	mu       sync.Mutex
	children []*adopted
	names    map[string]int
	puts     int   // ISCC writes started on behalf of this call
	reads    []int // digest indices whose backing value this call has read
	returned bool
	// The caller's context: mode 1 = already cancelled when Get is called (a
	// client that has gone away), mode 2 = may be cancelled by the controller
	// at one of the call's ISCC seams (client disconnects during the I/O).
	mode   int
	cancel context.CancelFunc
	gone   bool
}

// disconnectOption is appended to the options of an ISCC seam of a call whose
// client may still disconnect.
const disconnectOption = "client-disconnects-during-io"

func (ci *callInfo) options(base ...string) []string {
	ci.mu.Lock()
	defer ci.mu.Unlock()
	if ci.mode == 2 && !ci.gone {
		return append(base, disconnectOption)
	}
	return base
}

// disconnect cancels the caller's context (the calling worker is the only
// goroutine running).
func (ci *callInfo) disconnect() {
	ci.mu.Lock()
	ci.gone = true
	ci.mu.Unlock()
	ci.cancel()
}

// putRec is one ISCC write (one errgroup worker inside the code under test).
type putRec struct {
	di     int
	tokens []int64
	data   []byte
	ad     *adopted
	call   *callInfo
	// state machine driven by persist.afterStep: a write is "in flight" from
	// the moment the store dequeued the handle until its completion handler
	// (writtenVersion = writingVersion under ss.lock) has run.
	returned     bool
	awaitingLock bool
	finished     bool
}

// fakeISCC is the simulator-owned Initial Size Class Cache.
type fakeISCC struct {
	p *persist
}

func tokensOf(m *iscc.PreviousExecutionStats) []int64 {
	pcs := m.GetSizeClasses()[tokenClass]
	if pcs == nil {
		return nil
	}
	out := make([]int64, 0, len(pcs.PreviousExecutions))
	for _, pe := range pcs.PreviousExecutions {
		if s, ok := pe.Outcome.(*iscc.PreviousExecution_Succeeded); ok {
			out = append(out, int64(s.Succeeded.AsDuration()))
		}
	}
	return out
}

func appendToken(m *iscc.PreviousExecutionStats, tok int64) {
	if m.SizeClasses == nil {
		m.SizeClasses = map[uint32]*iscc.PerSizeClassStats{}
	}
	pcs := m.SizeClasses[tokenClass]
	if pcs == nil {
		pcs = &iscc.PerSizeClassStats{}
		m.SizeClasses[tokenClass] = pcs
	}
	pcs.PreviousExecutions = append(pcs.PreviousExecutions, &iscc.PreviousExecution{
		Outcome: &iscc.PreviousExecution_Succeeded{Succeeded: durationpb.New(time.Duration(tok))},
	})
}

func missingFrom(want, have []int64) []int64 {
	set := make(map[int64]struct{}, len(have))
	for _, t := range have {
		set[t] = struct{}{}
	}
	var out []int64
	for _, t := range want {
		if _, ok := set[t]; !ok {
			out = append(out, t)
		}
	}
	return out
}

func (f *fakeISCC) enter(ctx context.Context, d digest.Digest, op string) (*callInfo, int, *adopted) {
	p := f.p
	ci, _ := ctx.Value(ctxKey{}).(*callInfo)
	if ci == nil {
		panic(simsync.HarnessError{Msg: "fake ISCC called without call info in the context"})
	}
	di, ok := p.digestIndex[d.GetHashString()]
	if !ok {
		panic(simsync.HarnessError{Msg: "fake ISCC called with unknown digest " + d.String()})
	}
	if p.w.k.IsController() {
		panic(simsync.HarnessError{Msg: "fake ISCC called on the controller"})
	}
	// The code under test calls the ISCC from errgroup workers, i.e. from
	// goroutines the kernel has never seen.
	// Names must be unique and must not depend on which worker happens to
	// get here first: they are derived from the call, the operation, the
	// digest and (for writes) the content. Only two writes with identical
	// content for the same digest in the same call share a base name; those
	// are interchangeable, so numbering them in arrival order is harmless.
	base := fmt.Sprintf("%s/c%d-%s-%s", ci.parent, ci.seq, op, p.dnames[di])
	ci.mu.Lock()
	if ci.names == nil {
		ci.names = map[string]int{}
	}
	n := ci.names[base]
	ci.names[base] = n + 1
	ci.mu.Unlock()
	if n > 0 {
		base = fmt.Sprintf("%s~%d", base, n)
	}
	ad := adoptCurrent(p.guts, base)
	ci.mu.Lock()
	ci.children = append(ci.children, ad)
	ci.mu.Unlock()
	p.mu.Lock()
	p.adoptions++
	p.live = append(p.live, ad)
	p.mu.Unlock()
	return ci, di, ad
}

func (f *fakeISCC) Get(ctx context.Context, d digest.Digest) buffer.Buffer {
	p := f.p
	ci, di, _ := f.enter(ctx, d, "get")
	opts := ci.options("ok", "iscc-get-unavailable")
	opt := p.seam("iscc-get "+p.dnames[di], opts...)
	// Resumed: this goroutine is the only one running.
	if opts[opt] == disconnectOption {
		ci.disconnect()
	}
	if err := ctx.Err(); err != nil {
		p.w.k.Probe("iscc_get_saw_cancelled_context")
		return buffer.NewBufferFromError(status.Error(codes.Canceled, "context cancelled (client gone or sibling operation failed)"))
	}
	if opt == 1 {
		return buffer.NewBufferFromError(status.Error(codes.Unavailable, "injected ISCC read failure"))
	}
	p.mu.Lock()
	data, ok := p.store[di]
	ci.reads = append(ci.reads, di)
	p.readers[di] = append(p.readers[di], ci)
	p.backingReads++
	p.mu.Unlock()
	if !ok {
		return buffer.NewBufferFromError(status.Error(codes.NotFound, "no stats stored"))
	}
	return buffer.NewProtoBufferFromByteSlice(&iscc.PreviousExecutionStats{}, append([]byte(nil), data...), buffer.UserProvided)
}

func (f *fakeISCC) Put(ctx context.Context, d digest.Digest, b buffer.Buffer) error {
	p := f.p
	m, err := b.ToProto(&iscc.PreviousExecutionStats{}, 1<<24)
	if err != nil {
		panic(simsync.HarnessError{Msg: "fake ISCC Put: unreadable buffer: " + err.Error()})
	}
	data, err := proto.Marshal(m)
	if err != nil {
		panic(simsync.HarnessError{Msg: "fake ISCC Put: " + err.Error()})
	}
	toks := tokensOf(m.(*iscc.PreviousExecutionStats))
	last := int64(0)
	if len(toks) > 0 {
		last = toks[len(toks)-1]
	}
	ci, di, ad := f.enter(ctx, d, fmt.Sprintf("put[%d:%d]", len(toks), last))
	pr := &putRec{di: di, tokens: toks, data: data, ad: ad, call: ci}
	ci.mu.Lock()
	ci.puts++
	ci.mu.Unlock()
	p.mu.Lock()
	if p.livePuts[di] > 0 {
		// A second write of the same key starts while an earlier one has
		// not completed: the ISCC may apply them in either order.
		p.taint(di, taintOverlap)
	}
	p.livePuts[di]++
	p.putByActor[ad.actor] = pr
	p.putsStarted++
	p.mu.Unlock()

	opts := ci.options("ok", "iscc-put-fails-before-effect", "iscc-put-fails-after-effect")
	opt := p.seam("iscc-put "+p.dnames[di], opts...)
	// Resumed: this goroutine is the only one running.
	defer func() { pr.returned = true }()
	if opts[opt] == disconnectOption {
		ci.disconnect()
	}
	if err := ctx.Err(); err != nil {
		p.w.k.Probe("iscc_put_saw_cancelled_context")
		return status.Error(codes.Canceled, "context cancelled (client gone or sibling operation failed)")
	}
	if opt == 1 {
		return status.Error(codes.Unavailable, "injected ISCC write failure (nothing written)")
	}
	p.applyPut(pr)
	if opt == 2 {
		return status.Error(codes.Unavailable, "injected ISCC write failure (data was written)")
	}
	return nil
}

func (f *fakeISCC) GetFromComposite(ctx context.Context, parentDigest, childDigest digest.Digest, slicer slicing.BlobSlicer) buffer.Buffer {
	return buffer.NewBufferFromError(status.Error(codes.Unimplemented, "not used"))
}

func (f *fakeISCC) FindMissing(ctx context.Context, digests digest.Set) (digest.Set, error) {
	return digest.EmptySet, status.Error(codes.Unimplemented, "not used")
}

func (f *fakeISCC) GetCapabilities(ctx context.Context, instanceName digest.InstanceName) (*remoteexecution.ServerCapabilities, error) {
	return nil, status.Error(codes.Unimplemented, "not used")
}

func fmtTokens(ts []int64) string {
	c := append([]int64(nil), ts...)
	sort.Slice(c, func(i, j int) bool { return c[i] < c[j] })
	return fmt.Sprint(c)
}

// Package simenv holds the simulator-owned implementations of the seams the
// code under test takes as constructor arguments: clock, UUIDs, RNG, storage.
package simenv

import (
	"context"
	"fmt"
	"sort"
	"sync"
	"time"

	"github.com/buildbarn/bb-remote-execution/pkg/verifsim/simsync"
	"github.com/buildbarn/bb-storage/pkg/clock"
)

// SimClock implements clock.Clock. Time only moves by controller decisions.
type SimClock struct {
	K  *simsync.Kernel
	mu *sync.Mutex
	// now is the global simulated time; Offset is this node's skew.
	now    *time.Time
	Offset time.Duration
	timers *[]*SimTimer
	seq    *int
	// Late, if true, lets timers be delivered after the clock moved past
	// their deadline by more than zero (always possible); Exact makes
	// "advance" stop exactly at each deadline.
	NowReads int
}

// SimTimer is a pending timer or context deadline.
type SimTimer struct {
	c        *SimClock
	Deadline time.Time // in global time
	ch       chan time.Time
	Owner    string // actor name, "" if created by the controller
	Seq      int
	stopped  bool
	fired    bool
	ctx      *simCtx
	wake     bool
}

// NewSimClock creates the root clock of a run.
func NewSimClock(k *simsync.Kernel, start time.Time) *SimClock {
	now := start
	var timers []*SimTimer
	seq := 0
	return &SimClock{K: k, mu: &sync.Mutex{}, now: &now, timers: &timers, seq: &seq}
}

// View returns a clock sharing time and timers with c but skewed by offset.
func (c *SimClock) View(offset time.Duration) *SimClock {
	return &SimClock{K: c.K, mu: c.mu, now: c.now, Offset: offset, timers: c.timers, seq: c.seq}
}

// Global returns the unskewed simulated time.
func (c *SimClock) Global() time.Time {
	c.mu.Lock()
	defer c.mu.Unlock()
	return *c.now
}

// Now implements clock.Clock.
func (c *SimClock) Now() time.Time {
	c.mu.Lock()
	defer c.mu.Unlock()
	c.NowReads++
	return c.now.Add(c.Offset)
}

func (c *SimClock) owner() string {
	if c.K.IsController() {
		return ""
	}
	return c.K.Me().Name
}

// NewTimer implements clock.Clock.
func (c *SimClock) NewTimer(d time.Duration) (clock.Timer, <-chan time.Time) {
	owner := c.owner()
	c.mu.Lock()
	defer c.mu.Unlock()
	*c.seq++
	t := &SimTimer{c: c, Deadline: c.now.Add(d), ch: make(chan time.Time, 1), Owner: owner, Seq: *c.seq}
	*c.timers = append(*c.timers, t)
	return t, t.ch
}

// Stop implements clock.Timer.
func (t *SimTimer) Stop() bool {
	t.c.mu.Lock()
	defer t.c.mu.Unlock()
	was := !t.fired && !t.stopped
	t.stopped = true
	return was
}

type simTicker struct{ t *SimTimer }

func (t simTicker) Stop() { t.t.Stop() }

// NewTicker implements clock.Clock (single shot; nothing under test uses
// tickers for correctness).
func (c *SimClock) NewTicker(d time.Duration) (clock.Ticker, <-chan time.Time) {
	t, ch := c.NewTimer(d)
	return simTicker{t.(*SimTimer)}, ch
}

type simCtx struct {
	context.Context
	cancel   context.CancelFunc
	deadline time.Time
	mu       sync.Mutex
	timedOut bool
}

func (x *simCtx) Deadline() (time.Time, bool) { return x.deadline, true }

func (x *simCtx) Err() error {
	x.mu.Lock()
	to := x.timedOut
	x.mu.Unlock()
	if to {
		return context.DeadlineExceeded
	}
	return x.Context.Err()
}

// NewContextWithTimeout implements clock.Clock.
func (c *SimClock) NewContextWithTimeout(parent context.Context, d time.Duration) (context.Context, context.CancelFunc) {
	owner := c.owner()
	inner, cancel := context.WithCancel(parent)
	c.mu.Lock()
	defer c.mu.Unlock()
	*c.seq++
	x := &simCtx{Context: inner, cancel: cancel, deadline: c.now.Add(c.Offset).Add(d)}
	t := &SimTimer{c: c, Deadline: c.now.Add(d), Owner: owner, Seq: *c.seq, ctx: x}
	*c.timers = append(*c.timers, t)
	return x, func() {
		t.Stop()
		cancel()
	}
}

// AddWake registers a point in time the controller should be able to advance
// to (used for gated tickets such as "worker sleeps until T").
func (c *SimClock) AddWake(at time.Time) {
	c.mu.Lock()
	defer c.mu.Unlock()
	*c.seq++
	*c.timers = append(*c.timers, &SimTimer{c: c, Deadline: at, Seq: *c.seq, wake: true})
}

// pending returns live timers sorted by (deadline, seq).
func (c *SimClock) pending() []*SimTimer {
	live := (*c.timers)[:0]
	for _, t := range *c.timers {
		if t.wake && !t.Deadline.After(*c.now) {
			continue
		}
		if !t.stopped && !t.fired {
			live = append(live, t)
		}
	}
	*c.timers = live
	out := append([]*SimTimer(nil), live...)
	sort.Slice(out, func(i, j int) bool {
		if !out[i].Deadline.Equal(out[j].Deadline) {
			return out[i].Deadline.Before(out[j].Deadline)
		}
		return out[i].Seq < out[j].Seq
	})
	return out
}

// Advance moves global time forward.
func (c *SimClock) Advance(d time.Duration) {
	c.mu.Lock()
	*c.now = c.now.Add(d)
	c.mu.Unlock()
}

// NextDeadline returns the earliest pending deadline.
func (c *SimClock) NextDeadline() (time.Time, bool) {
	c.mu.Lock()
	defer c.mu.Unlock()
	p := c.pending()
	if len(p) == 0 {
		return time.Time{}, false
	}
	return p[0].Deadline, true
}

// HasDue reports whether some live timer or context deadline is due (its
// deadline is not after the current time) and its owner still exists, whether
// or not it can be delivered right now. Worlds that want exact timer delivery
// keep time still while this holds.
func (c *SimClock) HasDue() bool {
	c.mu.Lock()
	p := c.pending()
	now := *c.now
	c.mu.Unlock()
	for _, t := range p {
		if t.Deadline.After(now) {
			break
		}
		if t.wake {
			continue
		}
		if t.Owner != "" {
			if a := c.K.Actor(t.Owner); a == nil || a.Done() {
				continue
			}
		}
		return true
	}
	return false
}

// PendingCount returns the number of live timers.
func (c *SimClock) PendingCount() int {
	c.mu.Lock()
	defer c.mu.Unlock()
	return len(c.pending())
}

// Jump is a clock advance offered to the controller with a given weight.
type Jump struct {
	D      time.Duration
	Weight int
}

// ClockEvents is the controller event source of the clock: deliver one due
// timer to a blocked owner, or advance time. ctxQuiet decides whether a
// context deadline of the given owner may be delivered now (context rule).
// jumps are extra advance amounts offered (besides "to next deadline").
func (c *SimClock) ClockEvents(weightDeliver, weightAdvance int, ctxQuiet func(owner string) bool, jumps []Jump) []simsync.Event {
	c.mu.Lock()
	p := c.pending()
	now := *c.now
	c.mu.Unlock()
	var evs []simsync.Event
	for _, t := range p {
		if t.Deadline.After(now) {
			break
		}
		t := t
		if t.ctx != nil {
			if ctxQuiet != nil && !ctxQuiet(t.Owner) {
				continue
			}
			evs = append(evs, simsync.Event{Key: fmt.Sprintf("ctx-deadline %s#%d", t.Owner, t.Seq), Weight: weightDeliver, Fire: func() {
				c.mu.Lock()
				t.fired = true
				c.mu.Unlock()
				t.ctx.mu.Lock()
				t.ctx.timedOut = true
				t.ctx.mu.Unlock()
				t.ctx.cancel()
			}})
			continue
		}
		if t.Owner != "" {
			a := c.K.Actor(t.Owner)
			if a == nil || a.Done() {
				continue
			}
			if !a.Blocked() {
				continue
			}
		}
		evs = append(evs, simsync.Event{Key: fmt.Sprintf("timer %s#%d", t.Owner, t.Seq), Weight: weightDeliver, Fire: func() {
			c.mu.Lock()
			t.fired = true
			v := t.Deadline.Add(t.c.Offset)
			c.mu.Unlock()
			t.ch <- v
		}})
	}
	if weightAdvance > 0 {
		// Advance to the next future deadline.
		for _, t := range p {
			if t.Deadline.After(now) {
				d := t.Deadline.Sub(now)
				evs = append(evs, simsync.Event{Key: fmt.Sprintf("advance-to-next %v", d), Weight: weightAdvance, Fire: func() { c.Advance(d) }})
				break
			}
		}
	}
	for _, j := range jumps {
		j := j
		if j.Weight > 0 {
			evs = append(evs, simsync.Event{Key: fmt.Sprintf("advance %v", j.D), Weight: j.Weight, Fire: func() { c.Advance(j.D) }})
		}
	}
	return evs
}

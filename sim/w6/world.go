// Package w6 is the world for property C12: real IdleInvoker,
// CleanBuildDirectoryCreator, SharedBuildDirectoryCreator,
// RootBuildDirectoryCreator and CleanRunner, driven by concurrent worker
// threads and runner calls over a fault-injecting in-memory root build
// directory, with instrumented cleaners that park inside and may fail.
package w6

import (
	"context"
	"fmt"
	"io"
	"log"
	"strings"
	"sync"
	"sync/atomic"

	remoteexecution "github.com/bazelbuild/remote-apis/build/bazel/remote/execution/v2"
	"github.com/buildbarn/bb-remote-execution/pkg/builder"
	"github.com/buildbarn/bb-remote-execution/pkg/cleaner"
	runner_pb "github.com/buildbarn/bb-remote-execution/pkg/proto/runner"
	"github.com/buildbarn/bb-remote-execution/pkg/runner"
	"github.com/buildbarn/bb-remote-execution/pkg/verifsim/simrun"
	"github.com/buildbarn/bb-remote-execution/pkg/verifsim/simsync"
	"github.com/buildbarn/bb-storage/pkg/digest"
)

type world struct {
	r    *simrun.Run
	k    *simsync.Kernel
	t    *simsync.Tape
	prop string

	// mu protects all oracle and fake-environment state. It is a real
	// mutex, never held across a park point.
	mu sync.Mutex

	faultFree         bool
	orderB            bool // Clean(Shared(Root)) instead of the production order Shared(Clean(Root))
	cleanerHonoursCtx bool
	chainMode         int // 0: plain cleaner, 1: [cleaner, extra stage], 2: [extra stage, cleaner]
	runLong           bool
	normW             int
	cycles            int

	fs      *fakeFS
	tmp     map[string]bool // the runner's temporary directory
	excused map[*fsNode]bool

	mA, mB  *invModel
	creator builder.BuildDirectoryCreator
	runner  runner_pb.RunnerServer
	nextID  atomic.Uint64

	agents   []*agent
	byName   map[string]*agent
	ctl      *agent
	digests  []digest.Digest
	stopping bool

	gets, getErrors, got, gotCounter, gotDigest int
	closes, closeErrors, filesWritten           int
	runnerCalls, runnerOK                       int
	cancels, cancelsWhileWaiting                int
	waits                                       int
}

// violate reports a violation. In runs made on behalf of C14 (no call may
// block forever or leave a lock held, pkg/cleaner's idle invoker included)
// only the kernel-level rules count, under C14's name; the others are C12's
// and merely counted.
func (w *world) violate(rule, msg string) {
	if w.prop == "C14" {
		switch {
		case rule == "C12/call-never-returned" && strings.HasPrefix(msg, "all calls returned but locks"):
			w.k.Violate("C14/mutex-held-at-idle", "[idle invoker] "+msg)
		case rule == "C12/call-never-returned":
			w.k.Violate("C14/call-never-returned", "[idle invoker] "+msg)
		case strings.HasPrefix(rule, "panic:"):
			w.k.Violate(rule, msg)
		default:
			w.r.Count("other_property_rule:"+rule, 1)
		}
		return
	}
	w.k.Violate(rule, msg)
}

// me returns the agent on whose goroutine the caller runs.
func (w *world) me() *agent {
	a := w.k.Me()
	if a == nil {
		return w.ctl
	}
	x := w.byName[a.Name]
	if x == nil {
		harness("goroutine of actor %s is not an agent of this world", a.Name)
	}
	return x
}

func (w *world) allAgents() []*agent { return w.agents }

// seam is a park point with fault options that exist only in faulty runs.
func (w *world) seam(label string, faults ...string) int {
	if w.faultFree {
		w.k.SeamW(label, w.normW, 0, "ok")
		return 0
	}
	return w.k.SeamW(label, w.normW, 1, append([]string{"ok"}, faults...)...)
}

func hexDigest(prefix16 string, tail byte) digest.Digest {
	h := prefix16 + strings.Repeat(string([]byte{tail}), 64-len(prefix16))
	return digest.MustNewDigest("w6", remoteexecution.DigestFunction_SHA256, h, 123)
}

func newWorld(r *simrun.Run, prop string) *world {
	w := &world{r: r, k: r.K, t: r.T, prop: prop, byName: map[string]*agent{}, tmp: map[string]bool{}, excused: map[*fsNode]bool{}}
	t := w.t
	log.SetOutput(io.Discard)

	w.faultFree = !t.Bool(3, 4)
	w.orderB = t.Bool(2, 5)
	w.cleanerHonoursCtx = t.Bool(1, 2)
	w.runLong = t.Bool(1, 2)
	w.normW = []int{10, 20, 40}[t.Choice(3)]
	w.cycles = 2 + t.Choice(4)
	nWorkers := 2 + t.Choice(3)
	nRunners := 1 + t.Choice(2)

	w.digests = []digest.Digest{
		hexDigest("aaaaaaaaaaaaaaaa", '0'),
		hexDigest("bbbbbbbbbbbbbbbb", '1'),
		hexDigest("cccccccccccccccc", '2'),
		// Differs from the first one only beyond the 16 characters used
		// for the directory name.
		hexDigest("aaaaaaaaaaaaaaaa", '3'),
	}

	w.fs = newFakeFS()
	w.mA = &invModel{w: w, idx: 0, name: "builddir"}
	w.mB = &invModel{w: w, idx: 1, name: "runner"}
	w.mA.dirty = func() string {
		if names := w.fs.root.names(); len(names) > 0 {
			return fmt.Sprintf("root build directory contains %v", names)
		}
		return ""
	}
	w.mB.dirty = func() string {
		if len(w.tmp) > 0 {
			return fmt.Sprintf("temporary directory contains %d file(s)", len(w.tmp))
		}
		return ""
	}

	// In two runs of three the cleaners are chains built by the real
	// cleaner.NewChainedCleaner, as cmd/bb_runner composes them: the
	// instrumented cleaner plus a stage that never fails, in either order.
	// The chain fails exactly when the instrumented cleaner does.
	w.chainMode = t.Choice(3)
	invA := cleaner.NewIdleInvoker(w.chain("builddir", w.newCleaner(w.mA, func() {
		n := w.fs.wipe()
		for k := range w.excused {
			delete(w.excused, k)
		}
		if n > 0 {
			w.k.Probe("cleaner-removed-leftovers")
		}
	})))
	invB := cleaner.NewIdleInvoker(w.chain("runner", w.newCleaner(w.mB, func() {
		for k := range w.tmp {
			delete(w.tmp, k)
		}
	})))

	rootDir := &faultDir{w: w, node: w.fs.root}
	root := &probeCreator{w: w, base: builder.NewRootBuildDirectoryCreator(rootDir)}
	if w.orderB {
		w.creator = builder.NewCleanBuildDirectoryCreator(builder.NewSharedBuildDirectoryCreator(root, &w.nextID), invA)
	} else {
		w.creator = builder.NewSharedBuildDirectoryCreator(builder.NewCleanBuildDirectoryCreator(root, invA), &w.nextID)
	}
	w.runner = runner.NewCleanRunner(&baseRunner{w: w}, invB)

	w.ctl = &agent{w: w, name: "ctl", kind: "ctl"}
	w.agents = append(w.agents, w.ctl)
	for i := 0; i < nWorkers; i++ {
		x := &agent{w: w, name: fmt.Sprintf("worker%d", i), kind: "worker"}
		w.agents = append(w.agents, x)
		w.byName[x.name] = x
	}
	for i := 0; i < nRunners; i++ {
		x := &agent{w: w, name: fmt.Sprintf("runner%d", i), kind: "runner"}
		w.agents = append(w.agents, x)
		w.byName[x.name] = x
	}
	order := "Shared(Clean(Root)) [production]"
	if w.orderB {
		order = "Clean(Shared(Root))"
	}
	r.Logf("config: faults=%v order=%s cleanerHonoursCtx=%v runLong=%v seamWeight=%d cycles=%d workers=%d runners=%d", !w.faultFree, order, w.cleanerHonoursCtx, w.runLong, w.normW, w.cycles, nWorkers, nRunners)
	return w
}

// events: context cancellations, delivered only to agents that are blocked
// inside the code under test (waiting for a cleaner call of somebody else to
// finish) or parked at one of the world's own seams.
func (w *world) events() []simsync.Event {
	if w.faultFree || !w.k.FaultsOn {
		return nil
	}
	var evs []simsync.Event
	for _, x := range w.agents {
		if x.actor == nil || !x.inCycle || x.cancelled || !x.mayCancel {
			continue
		}
		blocked := x.actor.Blocked()
		if !blocked {
			if !x.actor.ParkedAtSeam() {
				continue
			}
			l := x.actor.TicketLabel()
			if l == "w-next" || l == "r-next" || l == "start" {
				continue
			}
		}
		x := x
		weight := 1
		if blocked {
			weight = 3
		}
		evs = append(evs, simsync.Event{Key: "cancel " + x.name, Weight: weight, Fire: func() {
			w.k.FaultsFired["ctx-cancel"]++
			w.cancels++
			if blocked {
				w.cancelsWhileWaiting++
				w.k.Probe("cancel-while-waiting-for-cleaning")
			}
			x.cancelled = true
			x.cancel()
		}})
	}
	return evs
}

func (w *world) afterStep() {
	w.mu.Lock()
	defer w.mu.Unlock()
	for _, m := range []*invModel{w.mA, w.mB} {
		if m.inClean > 1 {
			w.violate("C12/concurrent-cleaning", m.describe())
		}
	}
	waiting := 0
	for _, x := range w.agents {
		if x.actor == nil {
			continue
		}
		if x.actor.Blocked() {
			waiting++
			for i := range x.inv {
				s := &x.inv[i]
				if s.inCall && !s.holding && !s.waitNoted {
					s.waitNoted = true
					w.waits++
					w.k.Probe("acquire-waits-for-cleaning-in-flight")
				}
			}
		}
		// Global view of isolation: every running action's directory is
		// in place with exactly its own contents.
		if x.phase == "running" && x.node != nil {
			if !x.node.attached(w.fs.root) {
				w.violate("C12/directory-removed-under-running-action", fmt.Sprintf("the build directory %q (node %d) of the running action of %s is gone from the root %v. %s", x.node.name, x.node.id, x.name, w.fs.root.names(), w.mA.describe()))
			} else if got := strings.Join(x.node.names(), ","); got != strings.Join(x.files, ",") {
				w.violate("C12/directory-disturbed", fmt.Sprintf("the build directory %q of %s contains [%s] but the action itself created %v", x.node.name, x.name, got, x.files))
			}
		}
	}
	w.r.State(fmt.Sprintf("A%d/%d B%d/%d w%d r%d", w.mA.count, w.mA.inClean, w.mB.count, w.mB.inClean, waiting, len(w.fs.root.children)))
}

func (w *world) allDone() bool {
	for _, x := range w.agents {
		if x.actor != nil && !x.actor.Done() {
			return false
		}
	}
	return true
}

func (w *world) run() {
	k := w.k
	for _, x := range w.agents {
		x := x
		switch x.kind {
		case "worker":
			x.actor = k.Spawn(x.name, func() { w.workerLoop(x) })
		case "runner":
			x.actor = k.Spawn(x.name, func() { w.runnerLoop(x) })
		}
	}
	k.AddSource(w.events)
	k.AfterStep = w.afterStep

	budget := 200 + 100*w.t.Choice(5)
	if w.r.Tier == "thorough" {
		budget *= 2
	}
	k.Run(budget)
	if k.Failed() {
		return
	}

	// Drain: no more faults, no new cycles; everything in flight finishes.
	k.Note("drain")
	k.FaultsOn = false
	w.stopping = true
	for i := 0; i < 40 && !w.allDone(); i++ {
		k.Run(50)
		if k.Failed() {
			return
		}
	}
	if !w.allDone() {
		lockWaiters, blocked, seam := k.Stuck()
		w.violate("C12/call-never-returned", fmt.Sprintf("faults are off and every other call was allowed to finish, yet these calls have not returned: lock-waiters=%v blocked=%v parked=%v held=%v. %s; %s", lockWaiters, blocked, seam, k.HeldLocks(), w.mA.describe(), w.mB.describe()))
		return
	}
	if held := k.HeldLocks(); len(held) > 0 {
		w.violate("C12/call-never-returned", fmt.Sprintf("all calls returned but locks are still held: %v", held))
		return
	}
	w.finalChecks()
}

// finalChecks: the system is idle. One more action and one more runner call
// are performed by the controller itself; they must see clean shared state,
// be preceded and followed by cleaning, and leave nothing behind.
func (w *world) finalChecks() {
	for _, m := range []*invModel{w.mA, w.mB} {
		if m.count != 0 || m.inClean != 0 {
			harness("model not idle at the end: %s", m.describe())
		}
	}
	k := w.k
	k.Note("final probe")
	x := w.ctl
	preA, postA := w.mA.preCleans, w.mA.postCleans
	preB, postB := w.mB.preCleans, w.mB.postCleans
	w.newCycle(x)
	w.workerCycle(x, plan{steps: []int{0, 1}})
	w.endCycle(x)
	if k.Failed() {
		return
	}
	if w.mA.preCleans != preA+1 || w.mA.postCleans != postA+1 || w.mB.preCleans != preB+1 || w.mB.postCleans != postB+1 {
		w.violate("C12/missing-clean-before-first-action", fmt.Sprintf("a single action on the idle system caused %d/%d cleaner calls before/after it on the build directory invoker and %d/%d on the runner invoker; expected 1/1 and 1/1", w.mA.preCleans-preA, w.mA.postCleans-postA, w.mB.preCleans-preB, w.mB.postCleans-postB))
		return
	}
	if names := w.fs.root.names(); len(names) > 0 {
		w.violate("C12/left-behind", fmt.Sprintf("after the last action ended and the cleaner ran, the root build directory still contains %v", names))
	}
	if len(w.tmp) > 0 {
		w.violate("C12/left-behind", fmt.Sprintf("after the last runner call ended and the cleaner ran, the temporary directory still contains %d entries", len(w.tmp)))
	}
}

func (w *world) finish() {
	r := w.r
	r.Count("getbuilddirectory_calls", w.gets)
	r.Count("getbuilddirectory_errors", w.getErrors)
	r.Count("directories_handed_out", w.got)
	r.Count("directories_counter_named", w.gotCounter)
	r.Count("directories_digest_named", w.gotDigest)
	r.Count("close_calls", w.closes)
	r.Count("close_errors", w.closeErrors)
	r.Count("files_written_by_actions", w.filesWritten)
	r.Count("runner_calls", w.runnerCalls)
	r.Count("runner_calls_ok", w.runnerOK)
	r.Count("cleaner_calls_before_action", w.mA.preCleans+w.mB.preCleans)
	r.Count("cleaner_calls_after_action", w.mA.postCleans+w.mB.postCleans)
	r.Count("cleaner_failures_before_action", w.mA.failedPre+w.mB.failedPre)
	r.Count("cleaner_failures_after_action", w.mA.failedPost+w.mB.failedPost)
	r.Count("acquisitions_joining_busy", w.mA.joins+w.mB.joins)
	r.Count("releases_leaving_busy", w.mA.leaves+w.mB.leaves)
	r.Count("acquisitions_that_waited_for_cleaning", w.waits)
	r.Count("context_cancellations", w.cancels)
	r.Count("context_cancellations_while_waiting", w.cancelsWhileWaiting)
	if w.faultFree {
		r.Count("fault_free_runs", 1)
	}
	if w.orderB {
		r.Count("runs_order_clean_over_shared", 1)
	} else {
		r.Count("runs_order_production", 1)
	}
	cleans := w.mA.preCleans + w.mA.postCleans + w.mB.preCleans + w.mB.postCleans
	overlap := w.mA.maxCount >= 2 || w.mB.maxCount >= 2
	r.NonTrivial = w.got > 0 && cleans > 0 && (overlap || len(w.k.FaultsFired) > 0)
}

// World is the entry point registered for property C12.
func World(prop string) simrun.World {
	return func(r *simrun.Run) {
		w := newWorld(r, prop)
		w.run()
		w.finish()
	}
}

// chain composes the instrumented cleaner with a stage that parks and always
// succeeds, through the real ChainedCleaner.
func (w *world) chain(name string, c cleaner.Cleaner) cleaner.Cleaner {
	extra := func(ctx context.Context) error {
		w.k.Yield("clean-extra:" + name)
		w.k.Probe("chained-cleaner-stage-ran")
		return nil
	}
	switch w.chainMode {
	case 1:
		return cleaner.NewChainedCleaner([]cleaner.Cleaner{c, extra})
	case 2:
		return cleaner.NewChainedCleaner([]cleaner.Cleaner{extra, c})
	}
	return c
}

package w6

import (
	"context"
	"os"
	"sort"
	"syscall"

	"github.com/buildbarn/bb-remote-execution/pkg/builder"
	"github.com/buildbarn/bb-remote-execution/pkg/filesystem/access"
	"github.com/buildbarn/bb-remote-execution/pkg/filesystem/pool"
	"github.com/buildbarn/bb-remote-execution/pkg/verifsim/simsync"
	"github.com/buildbarn/bb-storage/pkg/digest"
	"github.com/buildbarn/bb-storage/pkg/filesystem"
	"github.com/buildbarn/bb-storage/pkg/filesystem/path"
	"github.com/buildbarn/bb-storage/pkg/util"
)

// fsNode is one entry of the trivially correct in-memory file hierarchy that
// stands in for the worker's root build directory.
type fsNode struct {
	id       int
	name     string
	isDir    bool
	parent   *fsNode
	children map[string]*fsNode
	creator  *agent // who created it with Mkdir on the root (nil below the root)
	cycle    int    // creator's cycle number
	removed  bool
}

func (n *fsNode) attached(root *fsNode) bool {
	return !n.removed && n.parent == root && root.children[n.name] == n
}

func (n *fsNode) names() []string {
	out := make([]string, 0, len(n.children))
	for name := range n.children {
		out = append(out, name)
	}
	sort.Strings(out)
	return out
}

// detach removes the subtree rooted at n from the hierarchy.
func (n *fsNode) detach() {
	if n.parent != nil {
		delete(n.parent.children, n.name)
		n.parent = nil
	}
	n.markRemoved()
}

func (n *fsNode) markRemoved() {
	n.removed = true
	for _, c := range n.children {
		c.markRemoved()
	}
}

// faultDir implements builder.BuildDirectory on top of fsNode. Operations on
// the root (depth 0) are the ones the code under test performs; they are park
// points and may fail on the controller's demand. Operations below the root
// are performed by the simulated actions and never fail.
type faultDir struct {
	w      *world
	node   *fsNode
	depth  int
	closed int
}

var _ builder.BuildDirectory = (*faultDir)(nil)

func unsupported(what string) simsync.HarnessError {
	return simsync.HarnessError{Msg: "faultDir: unsupported operation " + what}
}

func (d *faultDir) Mkdir(name path.Component, perm os.FileMode) error {
	return d.create(name, true, "fs-mkdir", "mkdir-fail")
}

func (d *faultDir) Mknod(name path.Component, perm os.FileMode, deviceNumber filesystem.DeviceNumber) error {
	return d.create(name, false, "fs-mknod", "mknod-fail")
}

func (d *faultDir) create(name path.Component, isDir bool, label, fault string) error {
	w := d.w
	x := w.me()
	fail := false
	if d.depth == 0 {
		fail = w.seam(label, fault) == 1
	}
	w.mu.Lock()
	defer w.mu.Unlock()
	if fail {
		x.fsFault = true
		w.k.Annotate("%s: %s(%s) fails (injected)", x.name, label, name.String())
		return syscall.EIO
	}
	if d.node.removed {
		return syscall.ENOENT
	}
	if _, ok := d.node.children[name.String()]; ok {
		if d.depth == 0 {
			x.mkdirExist = true
			w.k.Annotate("%s: %s(%s): already exists", x.name, label, name.String())
		}
		return syscall.EEXIST
	}
	w.fs.nextID++
	n := &fsNode{id: w.fs.nextID, name: name.String(), isDir: isDir, parent: d.node}
	if isDir {
		n.children = map[string]*fsNode{}
	}
	d.node.children[n.name] = n
	if d.depth == 0 {
		n.creator = x
		n.cycle = x.cycle
		x.created = append(x.created, n)
		w.k.Annotate("%s: created %q (node %d) in the root", x.name, n.name, n.id)
	}
	return nil
}

func (d *faultDir) EnterBuildDirectory(name path.Component) (builder.BuildDirectory, error) {
	w := d.w
	x := w.me()
	fail := false
	if d.depth == 0 {
		fail = w.seam("fs-enter", "enter-fail") == 1
	}
	w.mu.Lock()
	defer w.mu.Unlock()
	if fail {
		x.fsFault = true
		w.k.Annotate("%s: enter(%s) fails (injected)", x.name, name.String())
		return nil, syscall.EIO
	}
	c, ok := d.node.children[name.String()]
	if !ok || d.node.removed {
		return nil, syscall.ENOENT
	}
	if !c.isDir {
		return nil, syscall.ENOTDIR
	}
	if d.depth == 0 {
		x.node = c
		x.entered++
	}
	return &faultDir{w: w, node: c, depth: d.depth + 1}, nil
}

func (d *faultDir) EnterParentPopulatableDirectory(name path.Component) (builder.ParentPopulatableDirectory, error) {
	return d.EnterBuildDirectory(name)
}

func (d *faultDir) EnterUploadableDirectory(name path.Component) (builder.UploadableDirectory, error) {
	return d.EnterBuildDirectory(name)
}

func (d *faultDir) Remove(name path.Component) error {
	w := d.w
	x := w.me()
	fail := false
	if d.depth == 0 {
		fail = w.seam("fs-remove", "remove-fail") == 1
	}
	w.mu.Lock()
	defer w.mu.Unlock()
	if fail {
		x.removeFault = true
		w.k.Annotate("%s: remove(%s) fails (injected)", x.name, name.String())
		return syscall.EIO
	}
	c, ok := d.node.children[name.String()]
	if !ok || d.node.removed {
		return syscall.ENOENT
	}
	if len(c.children) > 0 {
		return syscall.ENOTEMPTY
	}
	c.detach()
	return nil
}

func (d *faultDir) RemoveAll(name path.Component) error {
	w := d.w
	x := w.me()
	fail := false
	if d.depth == 0 {
		fail = w.seam("fs-removeall", "removeall-fail") == 1
	}
	w.mu.Lock()
	defer w.mu.Unlock()
	if fail {
		x.removeFault = true
		w.k.Annotate("%s: removeAll(%s) fails (injected)", x.name, name.String())
		return syscall.EIO
	}
	if c, ok := d.node.children[name.String()]; ok && !d.node.removed {
		c.detach()
	}
	return nil
}

func (d *faultDir) Close() error {
	d.w.mu.Lock()
	d.closed++
	d.w.mu.Unlock()
	return nil
}

func (d *faultDir) Lstat(name path.Component) (filesystem.FileInfo, error) {
	d.w.mu.Lock()
	defer d.w.mu.Unlock()
	c, ok := d.node.children[name.String()]
	if !ok || d.node.removed {
		return filesystem.FileInfo{}, syscall.ENOENT
	}
	return fileInfoOf(c), nil
}

func fileInfoOf(c *fsNode) filesystem.FileInfo {
	ft := filesystem.FileTypeRegularFile
	if c.isDir {
		ft = filesystem.FileTypeDirectory
	}
	return filesystem.NewFileInfo(path.MustNewComponent(c.name), ft, false)
}

func (d *faultDir) ReadDir() ([]filesystem.FileInfo, error) {
	d.w.mu.Lock()
	defer d.w.mu.Unlock()
	if d.node.removed {
		return nil, syscall.ENOENT
	}
	var out []filesystem.FileInfo
	for _, name := range d.node.names() {
		out = append(out, fileInfoOf(d.node.children[name]))
	}
	return out, nil
}

func (d *faultDir) Readlink(name path.Component) (path.Parser, error) {
	panic(unsupported("Readlink"))
}

func (d *faultDir) UploadFile(ctx context.Context, name path.Component, digestFunction digest.Function, writableFileUploadDelay <-chan struct{}) (digest.Digest, error) {
	panic(unsupported("UploadFile"))
}

func (d *faultDir) InstallHooks(filePool pool.FilePool, errorLogger util.ErrorLogger) {}

func (d *faultDir) MergeDirectoryContents(ctx context.Context, errorLogger util.ErrorLogger, digest digest.Digest, monitor access.UnreadDirectoryMonitor) error {
	panic(unsupported("MergeDirectoryContents"))
}

type fakeFS struct {
	root   *fsNode
	nextID int
}

func newFakeFS() *fakeFS {
	return &fakeFS{root: &fsNode{id: 0, name: "/", isDir: true, children: map[string]*fsNode{}}}
}

// wipe is what a successful build directory cleaner does: it removes every
// child of the root (cleaner.NewDirectoryCleaner / RemoveAllChildren).
func (fs *fakeFS) wipe() int {
	n := 0
	for _, name := range fs.root.names() {
		fs.root.children[name].detach()
		n++
	}
	return n
}

package w6

import (
	"fmt"
	"strings"

	"github.com/buildbarn/bb-remote-execution/pkg/verifsim/simsync"
)

// agentInv is what the oracle knows about one agent with respect to one
// IdleInvoker.
type agentInv struct {
	inCall         bool // inside an outer call that may acquire or release
	cleanedInCall  bool // the cleaner ran on this agent's goroutine in this call, before acquisition
	preCleanFailed bool // ... and reported an error
	holding        bool // acquired; the model's holder count includes this agent
	releasing      bool // the action is over, the release is imminent
	waitNoted      bool
}

// invModel is the reference model of one IdleInvoker: a holder count and the
// number of cleaner invocations in flight. All observation points lie in the
// same uninterrupted stretch of execution as the corresponding change of the
// real use count (there is no park point between them), so the model count
// equals the real use count at every quiescent state.
type invModel struct {
	w       *world
	idx     int
	name    string
	count   int
	inClean int
	cleaner *agent

	// dirty describes shared state that a cleaner should have removed.
	dirty func() string

	maxCount   int
	preCleans  int
	postCleans int
	failedPre  int
	failedPost int
	joins      int
	leaves     int
	acquired   int
	lastEvent  string
}

func (m *invModel) st(x *agent) *agentInv { return &x.inv[m.idx] }

func (m *invModel) holders() string {
	var hs []string
	for _, y := range m.w.allAgents() {
		s := m.st(y)
		switch {
		case s.holding && s.releasing:
			hs = append(hs, y.name+"(releasing)")
		case s.holding:
			hs = append(hs, y.name+"(running)")
		}
	}
	return "[" + strings.Join(hs, " ") + "]"
}

func (m *invModel) describe() string {
	by := ""
	if m.cleaner != nil {
		by = " by " + m.cleaner.name
	}
	return fmt.Sprintf("invoker %s: model holder count=%d holders=%s cleaner calls in flight=%d%s", m.name, m.count, m.holders(), m.inClean, by)
}

func harness(format string, args ...interface{}) {
	panic(simsync.HarnessError{Msg: fmt.Sprintf(format, args...)})
}

// beginCall: agent x is about to call into code that may Acquire (fresh
// call) or Release (x is holding).
func (m *invModel) beginCall(x *agent) {
	m.w.mu.Lock()
	defer m.w.mu.Unlock()
	s := m.st(x)
	if s.inCall {
		harness("%s: nested call on invoker %s", x.name, m.name)
	}
	s.inCall = true
	s.cleanedInCall = false
	s.preCleanFailed = false
	s.waitNoted = false
}

// keepHolding: the outer call returned successfully and the agent keeps what
// it acquired (GetBuildDirectory succeeded).
func (m *invModel) keepHolding(x *agent) {
	m.w.mu.Lock()
	defer m.w.mu.Unlock()
	s := m.st(x)
	s.inCall = false
}

// onAcquired: the wrapped base object was invoked on behalf of x, i.e.
// Acquire returned nil in this very stretch of execution.
func (m *invModel) onAcquired(x *agent) {
	w := m.w
	w.mu.Lock()
	defer w.mu.Unlock()
	s := m.st(x)
	if !s.inCall {
		harness("%s: base of invoker %s invoked outside a call", x.name, m.name)
	}
	if s.holding {
		harness("%s: acquired invoker %s twice", x.name, m.name)
	}
	if m.inClean > 0 {
		w.violate("C12/action-started-during-cleaning", fmt.Sprintf("%s was let through to its action while a cleaner call is still in flight. %s", x.name, m.describe()))
	}
	if s.preCleanFailed {
		w.violate("C12/started-after-failed-clean", fmt.Sprintf("the cleaning that preceded the action of %s returned an error, yet the action was started. %s", x.name, m.describe()))
	}
	if !s.cleanedInCall && m.count == 0 {
		w.violate("C12/missing-clean-before-first-action", fmt.Sprintf("%s starts an action while no other action is running (transition idle->busy), but no cleaner call preceded it. %s; last event: %s", x.name, m.describe(), m.lastEvent))
	}
	if m.count == 0 {
		if d := m.dirty(); d != "" {
			w.violate("C12/dirty-start", fmt.Sprintf("%s starts the first action after an idle period but shared state is not clean: %s. %s", x.name, d, m.describe()))
		}
	}
	if s.cleanedInCall {
		w.k.Probe(m.name + ":start-after-clean(0->1)")
	} else {
		m.joins++
		w.k.Probe(m.name + ":start-joins-busy(no-clean)")
	}
	m.count++
	m.acquired++
	if m.count > m.maxCount {
		m.maxCount = m.count
	}
	if m.count >= 2 {
		w.k.Probe(m.name + ":concurrent-holders>=2")
	}
	s.holding = true
	s.releasing = false
	m.lastEvent = fmt.Sprintf("%s acquired (count=%d)", x.name, m.count)
	w.k.Annotate("%s: %s acquired, count=%d cleaned-first=%v", m.name, x.name, m.count, s.cleanedInCall)
}

// onReleasing: the action of x is over; the Release call follows without any
// park point in between.
func (m *invModel) onReleasing(x *agent) {
	m.w.mu.Lock()
	defer m.w.mu.Unlock()
	s := m.st(x)
	if !s.holding {
		harness("%s: releasing invoker %s without holding it", x.name, m.name)
	}
	s.releasing = true
}

// onCleanEnter: the cleaner function was invoked on x's goroutine.
func (m *invModel) onCleanEnter(x *agent) (post bool) {
	w := m.w
	w.mu.Lock()
	defer w.mu.Unlock()
	s := m.st(x)
	if !s.inCall {
		harness("%s: cleaner of invoker %s invoked outside a call", x.name, m.name)
	}
	if m.inClean > 0 {
		w.violate("C12/concurrent-cleaning", fmt.Sprintf("%s enters the cleaner while another cleaner call is in flight. %s", x.name, m.describe()))
	}
	for _, y := range w.allAgents() {
		ys := m.st(y)
		if y != x && ys.holding && !ys.releasing {
			w.violate("C12/clean-while-action-running", fmt.Sprintf("cleaner invoked (by %s) while the action of %s is running. %s", x.name, y.name, m.describe()))
			break
		}
	}
	if s.holding {
		// Release path: the use count was decremented just now.
		post = true
		s.holding = false
		m.count--
		m.postCleans++
		w.k.Probe(m.name + ":clean-after-last-action(1->0)")
	} else {
		s.cleanedInCall = true
		m.preCleans++
		if strings.HasPrefix(m.lastEvent, "clean-exit post") {
			w.k.Probe(m.name + ":back-to-back-cleans")
		}
	}
	if m.count != 0 {
		w.violate("C12/clean-not-at-transition", fmt.Sprintf("cleaner invoked by %s (after-release=%v) although %d action(s) still hold the invoker. %s", x.name, post, m.count, m.describe()))
	}
	m.inClean++
	m.cleaner = x
	m.lastEvent = fmt.Sprintf("clean-enter post=%v by %s", post, x.name)
	w.k.Annotate("%s: cleaner entered by %s (after-release=%v) count=%d", m.name, x.name, post, m.count)
	return post
}

// onCleanExit: the cleaner is about to return. wipe is executed for
// successful cleanings, atomically with the exit.
func (m *invModel) onCleanExit(x *agent, post, failed bool, wipe func()) {
	w := m.w
	w.mu.Lock()
	defer w.mu.Unlock()
	s := m.st(x)
	m.inClean--
	m.cleaner = nil
	if failed {
		if post {
			m.failedPost++
			w.k.Probe(m.name + ":failed-clean-after-last-action")
		} else {
			s.preCleanFailed = true
			m.failedPre++
			w.k.Probe(m.name + ":failed-clean-before-action")
		}
	} else {
		wipe()
	}
	kind := "pre"
	if post {
		kind = "post"
	}
	m.lastEvent = fmt.Sprintf("clean-exit %s by %s failed=%v", kind, x.name, failed)
	w.k.Annotate("%s: cleaner left by %s failed=%v", m.name, x.name, failed)
}

// callReturned: the outer call that could release returned.
func (m *invModel) callReturned(x *agent) {
	w := m.w
	w.mu.Lock()
	defer w.mu.Unlock()
	s := m.st(x)
	if !s.inCall {
		harness("%s: return from a call on invoker %s that never began", x.name, m.name)
	}
	s.inCall = false
	if s.holding {
		// The use count was decremented (or should have been) without a
		// cleaner call.
		s.holding = false
		m.count--
		if m.count == 0 {
			w.violate("C12/missing-clean-after-last-action", fmt.Sprintf("the call of %s returned; its action was the last one running (transition busy->idle) but no cleaner call was made. %s; last event: %s", x.name, m.describe(), m.lastEvent))
		} else {
			m.leaves++
			w.k.Probe(m.name + ":end-leaves-busy(no-clean)")
		}
		m.lastEvent = fmt.Sprintf("%s released without clean (count=%d)", x.name, m.count)
		w.k.Annotate("%s: %s released without cleaning, count=%d", m.name, x.name, m.count)
	}
	s.releasing = false
}

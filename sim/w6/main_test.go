package w6

import (
	"testing"

	"github.com/buildbarn/bb-remote-execution/pkg/verifsim/simrun"
)

func TestSim(t *testing.T) {
	simrun.Main(t, map[string]simrun.World{"C12": World("C12"), "C14": World("C14")})
}

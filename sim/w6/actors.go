package w6

import (
	"context"
	"fmt"
	"sort"
	"strings"

	"github.com/buildbarn/bb-remote-execution/pkg/builder"
	"github.com/buildbarn/bb-remote-execution/pkg/cleaner"
	runner_pb "github.com/buildbarn/bb-remote-execution/pkg/proto/runner"
	"github.com/buildbarn/bb-remote-execution/pkg/verifsim/simsync"
	"github.com/buildbarn/bb-storage/pkg/digest"
	"github.com/buildbarn/bb-storage/pkg/filesystem"
	"github.com/buildbarn/bb-storage/pkg/filesystem/path"

	"google.golang.org/grpc/codes"
	"google.golang.org/grpc/status"
	"google.golang.org/protobuf/types/known/emptypb"
)

// agent is a caller of the code under test: a worker thread, a runner-call
// actor, or the controller itself during the final probe.
type agent struct {
	w     *world
	name  string
	kind  string // "worker", "runner", "ctl"
	actor *simsync.Actor
	inv   [2]agentInv

	// Current cycle.
	cycle     int
	inCycle   bool
	ctx       context.Context
	cancel    context.CancelFunc
	cancelled bool
	mayCancel bool // this cycle's context may be cancelled by the controller

	// Worker cycle state (build directory side).
	phase       string // "", "getting", "running", "closing"
	wantName    string // digest-derived directory name, "" for counter-named
	node        *fsNode
	entered     int
	created     []*fsNode
	files       []string
	fsFault     bool
	removeFault bool
	mkdirExist  bool
	fileSeq     int

	// Runner side.
	runSeq int
	tmpKey string
}

// --- probe between the clean creator and the root creator ---------------------

// probeCreator is a transparent BuildDirectoryCreator decorator placed
// directly under the CleanBuildDirectoryCreator (order A) or under the
// SharedBuildDirectoryCreator (order B). It is invoked right after
// IdleInvoker.Acquire succeeded and its directory's Close is invoked right
// before IdleInvoker.Release.
type probeCreator struct {
	w    *world
	base builder.BuildDirectoryCreator
}

func (p *probeCreator) GetBuildDirectory(ctx context.Context, actionDigestIfNotRunInParallel *digest.Digest) (builder.BuildDirectory, *path.Trace, error) {
	x := p.w.me()
	p.w.mA.onAcquired(x)
	d, t, err := p.base.GetBuildDirectory(ctx, actionDigestIfNotRunInParallel)
	if err != nil {
		harness("root build directory creator failed: %v", err)
	}
	return &probeDir{BuildDirectory: d, w: p.w}, t, nil
}

type probeDir struct {
	builder.BuildDirectory
	w *world
}

func (d *probeDir) Close() error {
	x := d.w.me()
	d.w.mA.onReleasing(x)
	return d.BuildDirectory.Close()
}

// --- cleaners -------------------------------------------------------------------

func (w *world) newCleaner(m *invModel, wipe func()) cleaner.Cleaner {
	return func(ctx context.Context) error {
		x := w.me()
		post := m.onCleanEnter(x)
		opt := w.seam("clean:"+m.name, "clean-fail")
		w.k.Yield("clean2:" + m.name)
		var err error
		if opt == 1 {
			err = status.Error(codes.Internal, "injected cleaner failure")
		} else if w.cleanerHonoursCtx && ctx.Err() != nil {
			err = status.FromContextError(ctx.Err()).Err()
			w.k.Probe(m.name + ":cleaner-fails-on-cancelled-context")
		}
		m.onCleanExit(x, post, err != nil, wipe)
		return err
	}
}

// --- fake runner underneath CleanRunner ------------------------------------------

type baseRunner struct {
	w *world
}

func (b *baseRunner) use(x *agent, what string) error {
	w := b.w
	w.mB.onAcquired(x)
	w.mu.Lock()
	x.runSeq++
	key := fmt.Sprintf("%s.%d", x.name, x.runSeq)
	x.tmpKey = key
	w.tmp[key] = true
	w.mu.Unlock()
	opt := w.seam(what, "run-fail")
	w.checkTmp(x, key)
	if w.runLong {
		w.k.Yield(what + "2")
		w.checkTmp(x, key)
	}
	w.mB.onReleasing(x)
	if opt == 1 {
		return status.Error(codes.Unavailable, "injected runner failure")
	}
	return nil
}

func (w *world) checkTmp(x *agent, key string) {
	w.mu.Lock()
	defer w.mu.Unlock()
	if !w.tmp[key] {
		w.violate("C12/shared-state-cleaned-under-running-action", fmt.Sprintf("the temporary file %s of the running runner call of %s disappeared: the cleaner ran while the action was running. %s", key, x.name, w.mB.describe()))
	}
}

func (b *baseRunner) Run(ctx context.Context, request *runner_pb.RunRequest) (*runner_pb.RunResponse, error) {
	if err := b.use(b.w.me(), "run"); err != nil {
		return nil, err
	}
	return &runner_pb.RunResponse{}, nil
}

func (b *baseRunner) CheckReadiness(ctx context.Context, request *runner_pb.CheckReadinessRequest) (*emptypb.Empty, error) {
	if err := b.use(b.w.me(), "readiness"); err != nil {
		return nil, err
	}
	return &emptypb.Empty{}, nil
}

// callRunner performs one call through the real CleanRunner.
func (w *world) callRunner(x *agent, readiness bool) {
	m := w.mB
	m.beginCall(x)
	var err error
	var ok bool
	if readiness {
		var resp *emptypb.Empty
		resp, err = w.runner.CheckReadiness(x.ctx, &runner_pb.CheckReadinessRequest{})
		ok = resp != nil
	} else {
		var resp *runner_pb.RunResponse
		resp, err = w.runner.Run(x.ctx, &runner_pb.RunRequest{})
		ok = resp != nil
	}
	w.mu.Lock()
	preFailed := m.st(x).preCleanFailed
	w.mu.Unlock()
	if preFailed && (err == nil || ok) {
		w.violate("C12/started-after-failed-clean", fmt.Sprintf("the runner call of %s reports success although the cleaning before it failed", x.name))
	}
	w.runnerCalls++
	if err == nil {
		w.runnerOK++
	}
	m.callReturned(x)
}

// --- worker cycle ---------------------------------------------------------------

type plan struct {
	dg    *digest.Digest
	name  string
	steps []int // 0 = write a file, 1 = call the runner, 2 = only look
}

func (w *world) drawPlan(x *agent) plan {
	t := w.t
	var p plan
	if t.Bool(3, 5) {
		// Digest-named directory. The scheduler guarantees that such
		// actions do not run in parallel; mostly respect that.
		inUse := map[string]bool{}
		for _, y := range w.allAgents() {
			if y != x && y.inCycle && y.wantName != "" {
				inUse[y.wantName] = true
			}
		}
		var free []int
		for i := range w.digests {
			if !inUse[w.digests[i].GetHashString()[:16]] {
				free = append(free, i)
			}
		}
		var i int
		if len(free) > 0 && !t.Bool(1, 8) {
			i = free[t.Choice(len(free))]
		} else {
			i = t.Choice(len(w.digests))
		}
		d := w.digests[i]
		p.dg = &d
		p.name = d.GetHashString()[:16]
		if inUse[p.name] {
			w.k.Probe("same-directory-name-requested-concurrently")
		}
	}
	n := 1 + t.Choice(3)
	for i := 0; i < n; i++ {
		p.steps = append(p.steps, t.Weighted([]int{3, 2, 1}))
	}
	return p
}

func (w *world) newCycle(x *agent) {
	// Drawn right after the park point that precedes every cycle.
	mayCancel := !w.faultFree && w.t.Bool(1, 3)
	w.mu.Lock()
	defer w.mu.Unlock()
	x.mayCancel = mayCancel
	x.cycle++
	x.inCycle = true
	x.ctx, x.cancel = context.WithCancel(context.Background())
	x.cancelled = false
	x.node, x.entered, x.created, x.files = nil, 0, nil, nil
	x.fsFault, x.removeFault, x.mkdirExist = false, false, false
	x.wantName = ""
}

func (w *world) endCycle(x *agent) {
	w.mu.Lock()
	x.inCycle = false
	x.phase = ""
	x.wantName = ""
	cancel := x.cancel
	w.mu.Unlock()
	cancel()
}

// settle is evaluated when an outer call of a worker cycle has returned and
// the action is over (GetBuildDirectory failed or Close returned): nothing of
// the action may remain in the root build directory.
func (w *world) settle(x *agent, when string) {
	w.mu.Lock()
	defer w.mu.Unlock()
	for _, n := range x.created {
		if !n.attached(w.fs.root) {
			continue
		}
		if x.removeFault {
			w.excused[n] = true
			w.k.Probe("leftover-after-injected-removal-failure")
			w.k.Annotate("%s: %q stays behind because its removal failed (injected)", x.name, n.name)
			continue
		}
		w.violate("C12/left-behind", fmt.Sprintf("%s of %s (cycle %d) returned, but its build directory %q (node %d, entries %v) is still present in the root build directory %v and no removal fault was injected. %s", when, x.name, x.cycle, n.name, n.id, n.names(), w.fs.root.names(), w.mA.describe()))
	}
	x.created = nil
	x.node = nil
	x.files = nil
}

func (w *world) workerCycle(x *agent, p plan) {
	k := w.k
	mA := w.mA
	w.mu.Lock()
	x.phase = "getting"
	x.wantName = p.name
	w.mu.Unlock()
	w.r.Logf("%s cycle %d: dir=%s steps=%v", x.name, x.cycle, dirLabel(p), p.steps)

	mA.beginCall(x)
	dir, trace, err := w.creator.GetBuildDirectory(x.ctx, p.dg)
	w.gets++
	if err != nil {
		w.getFailed(x, p, err)
		mA.callReturned(x)
		w.settle(x, "the failed GetBuildDirectory call")
		return
	}
	mA.keepHolding(x)
	w.gotDirectory(x, p, dir, trace)

	for i, step := range p.steps {
		k.Yield("w-hold")
		if !w.checkOwnDirectory(x, dir) {
			break
		}
		switch step {
		case 0:
			w.mu.Lock()
			x.fileSeq++
			name := fmt.Sprintf("%s-c%d-f%d", x.name, x.cycle, x.fileSeq)
			w.mu.Unlock()
			var err error
			if i%2 == 0 {
				err = dir.Mkdir(path.MustNewComponent(name), 0o777)
			} else {
				err = dir.Mknod(path.MustNewComponent(name), 0o666, filesystem.DeviceNumber{})
			}
			if err != nil {
				w.violate("C12/directory-disturbed", fmt.Sprintf("%s cannot create %q inside its own build directory: %v", x.name, name, err))
				break
			}
			w.mu.Lock()
			x.files = append(x.files, name)
			sort.Strings(x.files)
			w.mu.Unlock()
			w.filesWritten++
		case 1:
			w.callRunner(x, false)
			w.checkOwnDirectory(x, dir)
		}
	}
	k.Yield("w-close")
	w.checkOwnDirectory(x, dir)

	w.mu.Lock()
	x.phase = "closing"
	w.mu.Unlock()
	mA.beginCall(x)
	cerr := dir.Close()
	w.closes++
	if cerr != nil {
		w.closeErrors++
	}
	mA.callReturned(x)
	w.settle(x, "Close")
}

func dirLabel(p plan) string {
	if p.dg == nil {
		return "<counter>"
	}
	return p.name
}

// getFailed judges a failed GetBuildDirectory call: every action must get a
// directory unless something the environment did explains the failure.
func (w *world) getFailed(x *agent, p plan, err error) {
	w.mu.Lock()
	defer w.mu.Unlock()
	w.getErrors++
	s := w.mA.st(x)
	var why []string
	if x.cancelled {
		why = append(why, "context cancelled")
	}
	if s.preCleanFailed {
		why = append(why, "cleaning failed")
	}
	if x.fsFault {
		why = append(why, "injected mkdir/enter failure")
	}
	if x.mkdirExist && p.dg != nil {
		// Either another action with the same digest-derived name is
		// active (the workload broke the scheduler's guarantee on
		// purpose) or a directory with that name stayed behind after an
		// injected removal failure.
		why = append(why, "directory name in use")
		w.k.Probe("digest-named-directory-already-exists->action-refused")
	}
	if x.mkdirExist && p.dg == nil {
		w.violate("C12/name-collision", fmt.Sprintf("%s asked for a directory for an action that may run in parallel (no digest), and the counter-derived name already existed in the root %v: names are not unique. error: %v", x.name, w.fs.root.names(), err))
		return
	}
	w.k.Annotate("%s: GetBuildDirectory failed (%s): %v", x.name, strings.Join(why, ", "), err)
	if len(why) == 0 {
		w.violate("C12/no-directory", fmt.Sprintf("%s did not get a build directory although nothing failed in its environment (no cancellation, no cleaner failure, no directory fault, name free): %v. root=%v %s", x.name, err, w.fs.root.names(), w.mA.describe()))
	}
	if s.holding && !s.releasing {
		// Reported by callReturned as a missing transition if it matters.
		w.k.Annotate("%s: GetBuildDirectory failed without closing its parent directory", x.name)
	}
}

// gotDirectory checks the directory at the moment it is handed out.
func (w *world) gotDirectory(x *agent, p plan, dir builder.BuildDirectory, trace *path.Trace) {
	entries, rerr := dir.ReadDir()
	w.mu.Lock()
	defer w.mu.Unlock()
	x.phase = "running"
	w.got++
	if p.dg == nil {
		w.gotCounter++
	} else {
		w.gotDigest++
	}
	s := w.mA.st(x)
	if !s.holding {
		w.violate("C12/missing-clean-before-first-action", fmt.Sprintf("%s got a build directory without going through the idle invoker", x.name))
	}
	if x.node == nil {
		w.violate("C12/shared-directory", fmt.Sprintf("%s was handed a build directory although no per-action subdirectory was entered for it (root entries: %v)", x.name, w.fs.root.names()))
		return
	}
	w.k.Annotate("%s: got directory %q (node %d) path=%s", x.name, x.node.name, x.node.id, trace.GetUNIXString())
	if rerr != nil {
		w.violate("C12/directory-disturbed", fmt.Sprintf("%s cannot list its fresh build directory %q: %v", x.name, x.node.name, rerr))
		return
	}
	if len(entries) != 0 || len(x.node.children) != 0 {
		w.violate("C12/directory-not-empty-at-start", fmt.Sprintf("%s was handed build directory %q (node %d, created by %s) that already contains %v", x.name, x.node.name, x.node.id, creatorName(x.node), x.node.names()))
	}
	if !x.node.attached(w.fs.root) {
		w.violate("C12/directory-disturbed", fmt.Sprintf("%s was handed build directory %q (node %d) that is not present in the root %v", x.name, x.node.name, x.node.id, w.fs.root.names()))
	}
	if x.node.creator != x || x.node.cycle != x.cycle {
		w.violate("C12/shared-directory", fmt.Sprintf("%s (cycle %d) was handed build directory %q (node %d) that was created by %s in its cycle %d, not for this action", x.name, x.cycle, x.node.name, x.node.id, creatorName(x.node), x.node.cycle))
	}
	for _, y := range w.allAgents() {
		if y != x && y.node == x.node {
			w.violate("C12/shared-directory", fmt.Sprintf("%s and %s were both handed build directory %q (node %d)", x.name, y.name, x.node.name, x.node.id))
		}
	}
}

func creatorName(n *fsNode) string {
	if n.creator == nil {
		return "nobody"
	}
	return n.creator.name
}

// checkOwnDirectory: while the action runs, its directory exists and holds
// exactly what the action itself put there.
func (w *world) checkOwnDirectory(x *agent, dir builder.BuildDirectory) bool {
	entries, rerr := dir.ReadDir()
	w.mu.Lock()
	defer w.mu.Unlock()
	if rerr != nil || !x.node.attached(w.fs.root) {
		w.violate("C12/directory-removed-under-running-action", fmt.Sprintf("the build directory %q (node %d) of the running action of %s was removed (readdir error: %v; root now %v). %s", x.node.name, x.node.id, x.name, rerr, w.fs.root.names(), w.mA.describe()))
		return false
	}
	var names []string
	for _, e := range entries {
		names = append(names, e.Name().String())
	}
	if strings.Join(names, ",") != strings.Join(x.files, ",") {
		w.violate("C12/directory-disturbed", fmt.Sprintf("the build directory %q of %s contains %v but the action itself created %v", x.node.name, x.name, names, x.files))
		return false
	}
	return true
}

// --- actor bodies -----------------------------------------------------------------

func (w *world) workerLoop(x *agent) {
	for c := 0; c < w.cycles; c++ {
		w.k.Yield("w-next")
		if w.stopping {
			return
		}
		w.newCycle(x)
		p := w.drawPlan(x)
		w.workerCycle(x, p)
		w.endCycle(x)
	}
}

func (w *world) runnerLoop(x *agent) {
	for c := 0; c < w.cycles+1; c++ {
		w.k.Yield("r-next")
		if w.stopping {
			return
		}
		w.newCycle(x)
		readiness := w.t.Bool(1, 3)
		w.r.Logf("%s cycle %d: readiness=%v", x.name, x.cycle, readiness)
		w.callRunner(x, readiness)
		w.endCycle(x)
	}
}

package w7

import (
	"fmt"
	"sort"
	"strings"
	"syscall"

	"github.com/buildbarn/bb-remote-execution/pkg/filesystem/virtual"
	"github.com/buildbarn/bb-remote-execution/pkg/verifsim/simrun"
	"github.com/buildbarn/bb-remote-execution/pkg/verifsim/simsync"
	"github.com/buildbarn/bb-storage/pkg/filesystem/path"
)

// Concurrent "presence" configuration of C13: 3-4
// callers interleave at every lock acquisition, and an oracle that is sound
// under concurrency judges what by-name calls and listings say about the
// presence of names.
//
// For every (directory object, normalised name) the oracle keeps the set of
// states the name can be in (bound, unbound) given all calls that have
// returned; calls in flight that may bind or unbind the name add to that
// set. A call declares at its invocation which names it may bind or unbind.
// A name is certainly bound during a call if it could only be bound when the
// call was invoked and no call that may unbind it was in flight at any time
// since (replacing what a name is bound to - CreateChildren with overwrite,
// CreateAndEnterPrepopulatedDirectory over a leaf - never unbinds it);
// certainly unbound likewise. Answering "no such entry" for a certainly bound
// name, or finding a certainly unbound one, cannot be explained by any order
// of the calls involved.
//
// The workload is shaped so that the declarations are exact where it
// matters: three directories ("top": the root and two protected
// subdirectories) are never removed, moved or emptied as part of a subtree,
// so only calls that name them can change their entries. Everything else
// ("low" directories) may additionally lose entries to every bulk removal in
// flight. There are no hard links, so a successful rename always unbinds its
// source.

var (
	pDirNames  = []string{"s", "t"}
	pLeafNames = []string{"a", "b"}
	pAllNames  = []string{"s", "t", "a", "b", "S", "T", "A", "B"}
)

const (
	pB uint8 = 1 // may be bound
	pU uint8 = 2 // may be unbound
)

type pkey struct {
	dir  int
	name string // normalised
}

type kstate struct {
	base                       uint8
	activeBind, activeUnbind   int
	lastBindEnd, lastUnbindEnd int
}

type pdir struct {
	id               int
	obj              virtual.PrepopulatedDirectory
	top              bool
	activeUnbindAll  int
	lastUnbindAllEnd int
}

func (d *pdir) String() string {
	if d.top {
		return fmt.Sprintf("T%d", d.id)
	}
	return fmt.Sprintf("L%d", d.id)
}

type pobs struct {
	k   pkey
	val uint8 // pB: was bound at some instant of the call; pU: was unbound
}

type pcall struct {
	seq       int
	desc      string
	binds     []pkey
	unbinds   []pkey
	unbindAll *pdir
	lowUnbind bool
	possAt    map[pkey]uint8
	backoffs  int
}

type pworld struct {
	e    *env
	r    *simrun.Run
	k    *simsync.Kernel
	t    *simsync.Tape
	prop string // property the run is judged for

	dirs    []*pdir // [0..2] top, then low directories in order of discovery
	byObj   map[virtual.PrepopulatedDirectory]*pdir
	keys    map[pkey]*kstate
	seq     int
	callers []*pcaller

	lowUnbindActive  int
	lastLowUnbindEnd int

	stopping bool
	overlap  bool
	track    map[string]*lockTrack
	calls    int
	judged   int
}

type pcaller struct {
	w     *pworld
	name  string
	actor *simsync.Actor
	cur   *pcall
	last  string
	n     int
}

// violate reports a violation; the caller stops here and the run ends at the
// next step.
func (w *pworld) violate(rule, msg string) {
	w.k.Violate("C13/"+rule, msg)
	panic(simsync.Poison{})
}

func runPresence(r *simrun.Run) {
	t := r.T
	nCallers := 3 + t.Choice(2)
	e := newEnv(r, "C13", false)
	e.parkFetch = true
	w := &pworld{e: e, r: r, k: e.k, t: t, prop: r.Prop, byObj: map[virtual.PrepopulatedDirectory]*pdir{}, keys: map[pkey]*kstate{}, track: map[string]*lockTrack{}}
	w.build()
	maxOps := 8 + t.Choice(12)
	if r.Tier == "thorough" {
		maxOps *= 2
	}
	r.Logf("presence configuration: %d callers, up to %d calls each", nCallers, maxOps)
	for i := 0; i < nCallers; i++ {
		c := &pcaller{w: w, name: fmt.Sprintf("caller%d", i)}
		c.actor = e.k.Spawn(c.name, func() { c.loop(maxOps) })
		w.callers = append(w.callers, c)
		w.track[c.name] = &lockTrack{}
	}
	e.k.AfterStep = w.afterStep
	idle := e.k.Run(2500 + 500*t.Choice(8))
	if !e.k.Failed() && !(idle && !w.allDone()) {
		e.k.Note("drain: no new calls, faults off")
		e.k.FaultsOn = false
		w.stopping = true
		idle = e.k.Run(80000)
	}
	r.Count("presence_calls_returned", w.calls)
	r.Count("presence_answers_judged", w.judged)
	r.State(fmt.Sprintf("presence/callers=%d/overlap=%v/dirs=%d", nCallers, w.overlap, len(w.dirs)))
	if e.k.Failed() {
		return
	}
	if !w.allDone() {
		lw, bl, sp := e.k.Stuck()
		rule, what := "C14/call-never-returned", "calls are still in progress after the step budget of the drain phase"
		if idle {
			rule, what = "C14/deadlock", "no caller can make progress"
		}
		var parts []string
		for _, c := range w.callers {
			if c.cur != nil {
				parts = append(parts, c.name+": "+c.cur.desc)
			}
		}
		e.k.Violate(rule, fmt.Sprintf("%s; calls in progress: %s; lock-waiters=%v blocked=%v parked=%v held=%v", what, strings.Join(parts, "; "), lw, bl, sp, e.k.HeldLocks()))
		return
	}
	if held := e.k.HeldLocks(); len(held) > 0 {
		e.k.Violate("C14/mutex-held-at-idle", fmt.Sprintf("all callers have finished but simulated mutexes are still held: %v", held))
		return
	}
	r.NonTrivial = w.calls >= 6 && w.overlap && w.judged >= 3
}

func (w *pworld) allDone() bool {
	for _, c := range w.callers {
		if !c.actor.Done() {
			return false
		}
	}
	return true
}

// build creates the initial tree from the controller: the root with the
// protected directories "p" and "q" (no call ever uses these two names), and
// a few entries in each of the three.
func (w *pworld) build() {
	e := w.e
	root := e.roots[0]
	p1, err := root.CreateAndEnterPrepopulatedDirectory(comp("p"))
	mustNil(err, "initial tree")
	p2, err := root.CreateAndEnterPrepopulatedDirectory(comp("q"))
	mustNil(err, "initial tree")
	for _, obj := range []virtual.PrepopulatedDirectory{root, p1, p2} {
		d := &pdir{id: len(w.dirs), obj: obj, top: true}
		w.dirs = append(w.dirs, d)
		w.byObj[obj] = d
		for _, n := range pAllNames {
			w.state(pkey{d.id, e.norm(n)}).base = pU
		}
	}
	for _, d := range w.dirs {
		spec := w.newSpec([]string{"s", "a", pick(w.t, []string{"t", "b"})}, 0)
		children, _ := e.buildChildren(spec)
		mustNil(d.obj.CreateChildren(children, false), "initial tree")
		for _, ch := range spec.children {
			w.state(pkey{d.id, e.norm(ch.name)}).base = pB
		}
	}
}

func (w *pworld) state(k pkey) *kstate {
	s := w.keys[k]
	if s == nil {
		s = &kstate{base: pB | pU}
		w.keys[k] = s
	}
	return s
}

// register adds a directory object a call returned; created means that the
// call made it, in which case it is empty unless somebody got to it first.
func (w *pworld) register(obj virtual.Directory, created bool) *pdir {
	pd, ok := obj.(virtual.PrepopulatedDirectory)
	if !ok || pd == nil {
		return nil
	}
	if d := w.byObj[pd]; d != nil {
		return d
	}
	d := &pdir{id: len(w.dirs), obj: pd}
	w.dirs = append(w.dirs, d)
	w.byObj[pd] = d
	if created {
		for _, n := range pAllNames {
			w.state(pkey{d.id, w.e.norm(n)}).base = pU
		}
	}
	return d
}

// --- the presence oracle ------------------------------------------------------

func (w *pworld) bindSince(k pkey, since int) bool {
	s := w.state(k)
	return s.activeBind > 0 || s.lastBindEnd > since
}

func (w *pworld) unbindSince(k pkey, since int) bool {
	s := w.state(k)
	d := w.dirs[k.dir]
	return s.activeUnbind > 0 || s.lastUnbindEnd > since ||
		d.activeUnbindAll > 0 || d.lastUnbindAllEnd > since ||
		(!d.top && (w.lowUnbindActive > 0 || w.lastLowUnbindEnd > since))
}

// poss is what the name can be right now.
func (w *pworld) poss(k pkey) uint8 {
	p := w.state(k).base
	if w.bindSince(k, w.seq) {
		p |= pB
	}
	if w.unbindSince(k, w.seq) {
		p |= pU
	}
	return p
}

// invoke records the invocation of a call with what it may do to which names;
// observed lists the names the call's answer will say something about.
func (c *pcaller) invoke(call *pcall, observed []pkey, format string, args ...interface{}) {
	w := c.w
	call.desc = fmt.Sprintf(format, args...)
	call.possAt = map[pkey]uint8{}
	for _, k := range observed {
		call.possAt[k] = w.poss(k)
	}
	w.seq++
	call.seq = w.seq
	for _, k := range call.binds {
		w.state(k).activeBind++
	}
	for _, k := range call.unbinds {
		w.state(k).activeUnbind++
	}
	if call.unbindAll != nil {
		call.unbindAll.activeUnbindAll++
	}
	if call.lowUnbind {
		w.lowUnbindActive++
	}
	c.cur = call
	w.r.Logf("%s #%d %s", c.name, c.n, call.desc)
	w.k.Annotate("%s #%d begins %s", c.name, c.n, call.desc)
}

// ret records the return of the call: its answer is checked against what the
// names could be during the call, and what it established is remembered.
func (c *pcaller) ret(result string, obs []pobs, outcomes []pobs) {
	w := c.w
	call := c.cur
	w.calls++
	w.k.Probe("presence:" + strings.SplitN(call.desc, "(", 2)[0] + ":" + result)
	w.k.Annotate("%s #%d returned %s", c.name, c.n, result)
	suffix := " held by " + c.name
	for _, h := range w.k.HeldLocks() {
		if strings.HasSuffix(h, suffix) {
			w.k.Violate("C14/mutex-held-at-idle", fmt.Sprintf("%s: the call has returned %s but a simulated mutex is still held: %s", call.desc, result, h))
			panic(simsync.Poison{})
		}
	}
	// The call is no longer in flight.
	for _, k := range call.binds {
		w.state(k).activeBind--
	}
	for _, k := range call.unbinds {
		w.state(k).activeUnbind--
	}
	if call.unbindAll != nil {
		call.unbindAll.activeUnbindAll--
	}
	if call.lowUnbind {
		w.lowUnbindActive--
	}
	for _, o := range obs {
		at, known := call.possAt[o.k]
		if !known {
			panic(harness("observation of an undeclared name"))
		}
		w.judged++
		d := w.dirs[o.k.dir]
		if o.val == pB && at&pB == 0 && !w.bindSince(o.k, call.seq) {
			w.violate("found-missing-name", fmt.Sprintf("%s returned %s, i.e. found %q in %s, although that name was certainly unbound during the whole call: it could only be unbound when the call was invoked and no call that may bind it was in flight since", call.desc, result, o.k.name, d))
		}
		if o.val == pU && at&pU == 0 && !w.unbindSince(o.k, call.seq) {
			w.violate("enoent-for-existing-name", fmt.Sprintf("%s returned %s, i.e. did not find %q in %s, although that name was certainly bound during the whole call: it could only be bound when the call was invoked and no call that may unbind it (remove, rename away, bulk removal) was in flight since; replacing what a name is bound to does not unbind it", call.desc, result, o.k.name, d))
		}
		if call.backoffs > 0 && o.val == pB && w.bindSince(o.k, call.seq) {
			w.k.Probe("presence_lookup_waited_for_busy_child_lock_while_name_was_rebound")
		}
	}
	if call.backoffs > 0 {
		w.k.Probe("presence_call_backed_off_for_busy_child_lock")
	}
	// What the call established: at one instant of the call the name had
	// the given state; since then only calls in flight since the
	// invocation can have changed it.
	settle := func(o pobs) {
		n := o.val
		if o.val == pB && w.unbindSince(o.k, call.seq) {
			n |= pU
		}
		if o.val == pU && w.bindSince(o.k, call.seq) {
			n |= pB
		}
		w.state(o.k).base = n
	}
	for _, o := range obs {
		settle(o)
	}
	for _, o := range outcomes {
		settle(o)
	}
	if call.lowUnbind {
		// Whatever was below the removed entries is gone; which low
		// directories that were is not known.
		ks := make([]pkey, 0, len(w.keys))
		for k := range w.keys {
			ks = append(ks, k)
		}
		for _, k := range ks {
			if !w.dirs[k.dir].top {
				w.keys[k].base |= pU
			}
		}
	}
	w.seq++
	for _, k := range call.binds {
		w.state(k).lastBindEnd = w.seq
	}
	for _, k := range call.unbinds {
		w.state(k).lastUnbindEnd = w.seq
	}
	if call.unbindAll != nil {
		call.unbindAll.lastUnbindAllEnd = w.seq
	}
	if call.lowUnbind {
		w.lastLowUnbindEnd = w.seq
	}
	c.last = call.desc + " = " + result
	c.cur = nil
}

// afterStep: overlap and LockPile back-off detection (as in the C14 world).
func (w *pworld) afterStep() {
	k := w.k
	busy := 0
	for _, c := range w.callers {
		if c.cur != nil && !c.actor.Done() {
			busy++
		}
	}
	if busy >= 2 && !w.overlap {
		w.overlap = true
		k.Probe("presence_runs_with_overlapping_calls")
	}
	a := k.LastActor
	if a == nil {
		return
	}
	tr := w.track[a.Name]
	if tr == nil {
		return
	}
	n := 0
	suffix := " held by " + a.Name
	for _, h := range k.HeldLocks() {
		if strings.HasSuffix(h, suffix) {
			n++
		}
	}
	switch {
	case strings.HasPrefix(k.LastKey, "trylock "):
		tr.tryPending = tr.heldPrev >= 1 && n == 0 && a.Parked() && !a.ParkedAtSeam()
	case strings.HasPrefix(k.LastKey, "lock "):
		if tr.tryPending {
			for _, c := range w.callers {
				if c.name == a.Name && c.cur != nil {
					c.cur.backoffs++
				}
			}
			k.Annotate("%s: waited for a busy lock with everything else released (LockPile back-off)", a.Name)
		}
		tr.tryPending = false
	default:
		tr.tryPending = false
	}
	tr.heldPrev = n
}

// --- callers ---------------------------------------------------------------------

func (c *pcaller) loop(maxOps int) {
	w := c.w
	for c.n = 0; c.n < maxOps; c.n++ {
		w.k.Yield("next")
		if w.stopping {
			return
		}
		c.call()
	}
}

// preporter collects a listing; it may park with the directory's lock held.
type preporter struct {
	w      *pworld
	max    int
	park   bool
	names  []string
	dirs   []virtual.Directory
	last   uint64
	backTo string
}

func (r *preporter) ReportEntry(nextCookie uint64, name path.Component, child virtual.DirectoryChild, attributes *virtual.Attributes) bool {
	if len(r.names) >= r.max {
		return false
	}
	if len(r.names) > 0 && nextCookie <= r.last && r.backTo == "" {
		r.backTo = fmt.Sprintf("entry %q was reported with resume cookie %d after an entry with resume cookie %d", name.String(), nextCookie, r.last)
	}
	r.last = nextCookie
	r.names = append(r.names, name.String())
	if d, _ := child.GetPair(); d != nil {
		r.dirs = append(r.dirs, d)
	}
	if r.park {
		r.w.k.Yield("report")
	}
	return true
}

func (w *pworld) pickDir() *pdir {
	if n := len(w.dirs); n > 3 && w.t.Bool(2, 5) {
		// Prefer recently discovered low directories.
		lo := 3
		if n > 9 {
			lo = n - 6
		}
		return w.dirs[lo+w.t.Choice(n-lo)]
	}
	return w.dirs[w.t.Choice(3)]
}

func (w *pworld) key(d *pdir, name string) pkey { return pkey{d.id, w.e.norm(name)} }

func (w *pworld) newSpec(names []string, depth int) *lazySpec {
	t := w.t
	w.e.specSeq++
	spec := &lazySpec{id: w.e.specSeq}
	used := map[string]bool{}
	for _, name := range names {
		if used[strings.ToLower(name)] {
			continue
		}
		used[strings.ToLower(name)] = true
		ch := &lazyChild{name: name}
		isDirName := strings.EqualFold(name, "s") || strings.EqualFold(name, "t")
		switch k := t.Weighted([]int{3, 1, 5}); {
		case k == 2 && isDirName && depth < 2:
			n := t.Choice(4)
			var sub []string
			for i := 0; i < n; i++ {
				sub = append(sub, pick(t, pAllNames[:4]))
			}
			ch.sub = w.newSpec(sub, depth+1)
		case k == 1:
			ch.kind, ch.target = lkSymlink, w.e.newTarget()
		default:
			ch.kind, ch.size = lkFile, 2
		}
		spec.children = append(spec.children, ch)
	}
	return spec
}

func errnoIs(err error, e syscall.Errno) bool { return err == error(e) }

// call draws one call with all its parameters (the caller was just resumed)
// and performs it.
func (c *pcaller) call() {
	w := c.w
	t := w.t
	d := w.pickDir()
	name := pick(t, pAllNames[:4])
	dirName := pick(t, pDirNames)
	if t.Bool(1, 2) {
		// Directory names are where the contention is.
		name = dirName
	}
	if w.e.cfg.caseInsensitive && t.Bool(1, 6) {
		name, dirName = strings.ToUpper(name), strings.ToUpper(dirName)
	}
	k := w.key(d, name)
	mask := lockedMask
	if t.Bool(1, 4) {
		mask = baseMask
	}
	switch t.Weighted([]int{18, 16, 16, 8, 5, 5, 7, 3, 2, 4, 3}) {
	case 0: // lookup
		call := &pcall{}
		c.invoke(call, []pkey{k}, "VirtualLookup(%s, %q, mask=%#x)", d, name, mask)
		var out virtual.Attributes
		child, st := d.obj.VirtualLookup(ctx, comp(name), mask, &out)
		var obs []pobs
		switch st {
		case virtual.StatusOK:
			obs = []pobs{{k, pB}}
			if cd, _ := child.GetPair(); cd != nil {
				w.register(cd, false)
			}
		case virtual.StatusErrNoEnt:
			obs = []pobs{{k, pU}}
		}
		c.ret(stName(st), obs, nil)
	case 1: // listing
		rep := &preporter{w: w, max: pick(t, []int{100, 100, 1, 2}), park: t.Bool(1, 2)}
		cookie := uint64(0)
		if t.Bool(1, 5) {
			cookie = uint64(1 + t.Choice(4))
		}
		var observed []pkey
		for _, n := range pAllNames {
			observed = append(observed, w.key(d, n))
		}
		call := &pcall{}
		c.invoke(call, observed, "VirtualReadDir(%s, cookie=%d, mask=%#x, page=%d, parking=%v)", d, cookie, mask, rep.max, rep.park)
		st := d.obj.VirtualReadDir(ctx, cookie, mask, rep)
		for _, x := range rep.dirs {
			w.register(x, false)
		}
		c.listingReturned(d, cookie, rep, st)
	case 2: // bulk creation, mostly replacing
		overwrite := t.Bool(3, 4)
		names := []string{name}
		if t.Bool(1, 3) {
			names = append(names, pick(t, pAllNames[:4]))
		}
		spec := w.newSpec(names, 1)
		call := &pcall{lowUnbind: overwrite}
		for _, ch := range spec.children {
			call.binds = append(call.binds, w.key(d, ch.name))
		}
		c.invoke(call, call.binds, "CreateChildren(%s, %s, overwrite=%v)", d, spec, overwrite)
		children, _ := w.e.buildChildren(spec)
		err := d.obj.CreateChildren(children, overwrite)
		var obs, outcomes []pobs
		switch {
		case err == nil:
			for _, bk := range call.binds {
				outcomes = append(outcomes, pobs{bk, pB})
			}
		case errnoIs(err, syscall.EEXIST) && len(call.binds) == 1:
			obs = []pobs{{call.binds[0], pB}}
		case errnoIs(err, syscall.ENOENT):
			for _, bk := range call.binds {
				obs = append(obs, pobs{bk, pU})
			}
		}
		if err != nil {
			for _, ch := range spec.children {
				if ch.leaf != nil {
					ch.leaf.Unlink()
				}
			}
		}
		c.ret(errName(err), obs, outcomes)
	case 3: // open, with or without creation
		var create *virtual.Attributes
		var existing *virtual.OpenExistingOptions
		mode := t.Choice(3)
		if mode != 1 {
			create = (&virtual.Attributes{}).SetPermissions(virtual.PermissionsRead | virtual.PermissionsWrite)
		}
		if mode != 0 {
			existing = &virtual.OpenExistingOptions{}
		}
		call := &pcall{}
		if create != nil {
			call.binds = []pkey{k}
		}
		c.invoke(call, []pkey{k}, "VirtualOpenChild(%s, %q, create=%v, existing=%v)", d, name, create != nil, existing != nil)
		var out virtual.Attributes
		share := virtual.ShareMaskRead
		leaf, _, _, st := d.obj.VirtualOpenChild(ctx, comp(name), share, create, existing, mask, &out)
		var obs, outcomes []pobs
		switch st {
		case virtual.StatusOK:
			leaf.VirtualClose(share)
			if existing == nil {
				obs = []pobs{{k, pU}}
			}
			if create != nil {
				outcomes = []pobs{{k, pB}}
			} else {
				obs = []pobs{{k, pB}}
			}
		case virtual.StatusErrExist, virtual.StatusErrIsDir, virtual.StatusErrSymlink:
			obs = []pobs{{k, pB}}
		case virtual.StatusErrNoEnt:
			obs = []pobs{{k, pU}}
		}
		c.ret(stName(st), obs, outcomes)
	case 4: // mkdir
		dk := w.key(d, dirName)
		call := &pcall{binds: []pkey{dk}}
		c.invoke(call, []pkey{dk}, "VirtualMkdir(%s, %q)", d, dirName)
		var out virtual.Attributes
		child, _, st := d.obj.VirtualMkdir(ctx, comp(dirName), &virtual.Attributes{}, mask, &out)
		var obs, outcomes []pobs
		switch st {
		case virtual.StatusOK:
			w.register(child, true)
			obs, outcomes = []pobs{{dk, pU}}, []pobs{{dk, pB}}
		case virtual.StatusErrExist:
			obs = []pobs{{dk, pB}}
		case virtual.StatusErrNoEnt:
			obs = []pobs{{dk, pU}}
		}
		c.ret(stName(st), obs, outcomes)
	case 5: // remove one entry
		call := &pcall{unbinds: []pkey{k}}
		var result string
		var obs, outcomes []pobs
		if t.Bool(1, 2) {
			flags := pick(t, [][2]bool{{true, true}, {true, false}, {false, true}})
			c.invoke(call, []pkey{k}, "VirtualRemove(%s, %q, %v, %v)", d, name, flags[0], flags[1])
			_, st := d.obj.VirtualRemove(ctx, comp(name), flags[0], flags[1])
			result = stName(st)
			switch st {
			case virtual.StatusOK:
				obs, outcomes = []pobs{{k, pB}}, []pobs{{k, pU}}
			case virtual.StatusErrNoEnt:
				obs = []pobs{{k, pU}}
			case virtual.StatusErrNotEmpty, virtual.StatusErrPerm, virtual.StatusErrNotDir:
				obs = []pobs{{k, pB}}
			}
		} else {
			c.invoke(call, []pkey{k}, "Remove(%s, %q)", d, name)
			err := d.obj.Remove(comp(name))
			result = errName(err)
			switch {
			case err == nil:
				obs, outcomes = []pobs{{k, pB}}, []pobs{{k, pU}}
			case errnoIs(err, syscall.ENOENT):
				obs = []pobs{{k, pU}}
			case errnoIs(err, syscall.ENOTEMPTY):
				obs = []pobs{{k, pB}}
			}
		}
		c.ret(result, obs, outcomes)
	case 6: // rename
		d2 := d
		if t.Bool(1, 2) {
			d2 = w.pickDir()
		}
		n1, n2 := pick(t, pLeafNames), pick(t, pLeafNames)
		if t.Bool(1, 4) {
			// Possibly a directory: those only move to top
			// directories, which are never below anything that
			// moves, so no directory can become its own ancestor.
			n1, n2 = dirName, pick(t, pDirNames)
			if !d2.top {
				d2 = w.dirs[t.Choice(3)]
			}
		}
		k1, k2 := w.key(d, n1), w.key(d2, n2)
		call := &pcall{}
		if k1 != k2 {
			call.unbinds, call.binds = []pkey{k1}, []pkey{k2}
		}
		c.invoke(call, []pkey{k1, k2}, "VirtualRename(%s, %q -> %s, %q)", d, n1, d2, n2)
		_, _, st := d.obj.VirtualRename(ctx, comp(n1), d2.obj, comp(n2))
		var obs, outcomes []pobs
		switch st {
		case virtual.StatusOK:
			obs = []pobs{{k1, pB}}
			if k1 != k2 {
				outcomes = []pobs{{k1, pU}, {k2, pB}}
			}
		case virtual.StatusErrNoEnt:
			// Either the source is missing or the target
			// directory was removed; the latter cannot happen
			// to a top directory.
			if d2.top {
				obs = []pobs{{k1, pU}}
			}
		case virtual.StatusErrIsDir, virtual.StatusErrNotDir, virtual.StatusErrNotEmpty:
			obs = []pobs{{k1, pB}, {k2, pB}}
		}
		c.ret(stName(st), obs, outcomes)
	case 7: // remove a subtree
		call := &pcall{unbinds: []pkey{k}, lowUnbind: true}
		c.invoke(call, []pkey{k}, "RemoveAll(%s, %q)", d, name)
		err := d.obj.RemoveAll(comp(name))
		var obs, outcomes []pobs
		switch {
		case err == nil:
			obs, outcomes = []pobs{{k, pB}}, []pobs{{k, pU}}
		case errnoIs(err, syscall.ENOENT):
			obs = []pobs{{k, pU}}
		}
		c.ret(errName(err), obs, outcomes)
	case 8: // empty a directory (never the root: "p" and "q" live there)
		if d.id == 0 {
			d = w.dirs[1+t.Choice(2)]
		}
		deleteSelf := !d.top && t.Bool(1, 2)
		call := &pcall{unbindAll: d, lowUnbind: true}
		c.invoke(call, nil, "RemoveAllChildren(%s, %v)", d, deleteSelf)
		err := d.obj.RemoveAllChildren(deleteSelf)
		var outcomes []pobs
		if err == nil {
			ks := make([]pkey, 0, 8)
			for kk := range w.keys {
				if kk.dir == d.id {
					ks = append(ks, kk)
				}
			}
			sort.Slice(ks, func(i, j int) bool { return ks[i].name < ks[j].name })
			for _, kk := range ks {
				outcomes = append(outcomes, pobs{kk, pU})
			}
		}
		c.ret(errName(err), nil, outcomes)
	case 9: // enter, creating or replacing a leaf if need be
		dk := w.key(d, dirName)
		call := &pcall{binds: []pkey{dk}}
		c.invoke(call, []pkey{dk}, "CreateAndEnterPrepopulatedDirectory(%s, %q)", d, dirName)
		child, err := d.obj.CreateAndEnterPrepopulatedDirectory(comp(dirName))
		var obs, outcomes []pobs
		switch {
		case err == nil:
			w.register(child, false)
			outcomes = []pobs{{dk, pB}}
		case errnoIs(err, syscall.ENOENT):
			obs = []pobs{{dk, pU}}
		}
		c.ret(errName(err), obs, outcomes)
	case 10: // worker-facing lookups (each atomic under the directory's lock)
		if t.Bool(1, 2) {
			call := &pcall{}
			c.invoke(call, []pkey{k}, "LookupChild(%s, %q)", d, name)
			child, err := d.obj.LookupChild(comp(name))
			var obs []pobs
			switch {
			case err == nil:
				obs = []pobs{{k, pB}}
				if cd, _ := child.GetPair(); cd != nil {
					w.register(cd, false)
				}
			case errnoIs(err, syscall.ENOENT):
				obs = []pobs{{k, pU}}
			}
			c.ret(errName(err), obs, nil)
		} else {
			var observed []pkey
			for _, n := range pAllNames {
				observed = append(observed, w.key(d, n))
			}
			call := &pcall{}
			c.invoke(call, observed, "LookupAllChildren(%s)", d)
			dirs, leaves, err := d.obj.LookupAllChildren()
			rep := &preporter{w: w, max: 1000}
			for _, x := range dirs {
				rep.names = append(rep.names, x.Name.String())
				w.register(x.Child, false)
			}
			for _, x := range leaves {
				rep.names = append(rep.names, x.Name.String())
			}
			if err != nil {
				c.ret(errName(err), nil, nil)
			} else {
				c.listingReturned(d, 0, rep, virtual.StatusOK)
			}
		}
	}
}

// listingReturned judges a listing: no name twice unless it was rebound
// meanwhile, nothing certainly unbound, and - if the listing started at the
// beginning and reached the end - everything certainly bound.
func (c *pcaller) listingReturned(d *pdir, cookie uint64, rep *preporter, st virtual.Status) {
	w := c.w
	call := c.cur
	if st != virtual.StatusOK {
		c.ret(stName(st), nil, nil)
		return
	}
	if call.backoffs > 0 {
		w.k.Probe("presence_listing_met_busy_child_lock")
	}
	if rep.backTo != "" {
		w.violate("readdir-duplicate", fmt.Sprintf("%s: %s: the listing went backwards and reports entries twice", call.desc, rep.backTo))
	}
	count := map[string]int{}
	for _, n := range rep.names {
		count[w.e.norm(n)]++
	}
	complete := cookie == 0 && len(rep.names) < rep.max
	var obs []pobs
	seen := map[pkey]bool{}
	for _, n := range pAllNames {
		k := w.key(d, n)
		if seen[k] {
			continue
		}
		seen[k] = true
		switch cnt := count[k.name]; {
		case cnt > 1 && !w.bindSinceOthers(k, call):
			w.violate("readdir-duplicate", fmt.Sprintf("%s lists %q %d times although no call that binds that name was in flight during the listing; listed: %q", call.desc, k.name, cnt, rep.names))
		case cnt >= 1:
			if call.possAt[k]&pB == 0 && !w.bindSince(k, call.seq) {
				w.violate("readdir-phantom", fmt.Sprintf("%s lists %q, which was certainly unbound in %s during the whole call; listed: %q", call.desc, k.name, d, rep.names))
			}
			obs = append(obs, pobs{k, pB})
		case complete:
			if call.possAt[k]&pU == 0 && !w.unbindSince(k, call.seq) {
				if call.backoffs > 0 {
					w.k.Probe("presence_incomplete_listing_after_busy_child_lock")
				}
				w.violate("readdir-missing", fmt.Sprintf("%s reached the end of %s without listing %q, which was certainly bound there during the whole call (bound when the call was invoked, and no remove, rename away or bulk removal of it in flight since); listed: %q; the listing waited %d time(s) for a busy child directory lock", call.desc, d, k.name, rep.names, call.backoffs))
			}
			obs = append(obs, pobs{k, pU})
		}
	}
	if complete {
		w.k.Probe("presence_complete_listing_judged")
	}
	w.k.Annotate("  listed %q", rep.names)
	c.ret("OK", obs, nil)
}

// bindSinceOthers: a listing declares no effects, so every binder is another call.
func (w *pworld) bindSinceOthers(k pkey, call *pcall) bool { return w.bindSince(k, call.seq) }

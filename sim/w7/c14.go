package w7

import (
	"fmt"
	"os"
	"strings"

	"github.com/buildbarn/bb-remote-execution/pkg/filesystem/virtual"
	"github.com/buildbarn/bb-remote-execution/pkg/verifsim/simrun"
	"github.com/buildbarn/bb-remote-execution/pkg/verifsim/simsync"
	"github.com/buildbarn/bb-storage/pkg/filesystem"
	"github.com/buildbarn/bb-storage/pkg/filesystem/path"
)

// C14: 1-4 callers issue file system calls concurrently. Every Lock, TryLock
// and RLock of the code under test is a scheduling point of the kernel, so
// calls interleave at lock granularity. There is no result model here; the
// oracles are the kernel's: a caller whose call has returned holds no
// simulated mutex, there is never a state in which unfinished callers have
// nothing enabled, and once no new calls are issued every call returns.

// Directories are only ever created under the names of dirNames14, and a
// rename never changes the class of a name, so a rename of a leafNames14 name
// can only move a leaf. Renames of dirNames14 names obey the rank rule of
// renameAllowed, which keeps the tree free of cycles whatever the
// interleaving (VirtualRename documents that it does not check for them).
var (
	dirNames14  = []string{"s", "t", "z"}
	leafNames14 = []string{"a", "b", ".hid"}
	names14     = []string{"a", "b", "s", "t", "z", ".hid"}
)

type c14 struct {
	e *env
	k *simsync.Kernel
	t *simsync.Tape

	dirs    []virtual.PrepopulatedDirectory
	leaves  []virtual.LinkableLeaf
	callers []*caller
	// rank is the depth at which a directory was created, where known;
	// rankLB is a lower bound of it for every registered directory.
	rank   map[virtual.PrepopulatedDirectory]int
	rankLB map[virtual.PrepopulatedDirectory]int
	// attrDir marks named attribute directories and what was created
	// below them. Unless W7_EXOTIC=attrdir-links, leaves are not moved or
	// linked across the border of such a hierarchy (see meta.json).
	attrDir map[virtual.PrepopulatedDirectory]bool
	// attrOwner: the leaf whose named attribute hierarchy a directory
	// belongs to (only for attribute directories opened through a leaf).
	attrOwner       map[virtual.PrepopulatedDirectory]virtual.Leaf
	ownAttrDirCycle bool // some leaf was hard-linked into its own attribute hierarchy
	exotic          bool
	exoticLink      bool

	stopping  bool
	overlap   bool
	backoffs  int
	track     map[string]*lockTrack
	calls     int
	errReturn int
}

type lockTrack struct {
	heldPrev   int
	tryPending bool
}

type caller struct {
	w     *c14
	idx   int
	name  string
	actor *simsync.Actor
	cur   string // description of the call in progress, "" between calls
	last  string
	n     int
}

func runC14(r *simrun.Run) {
	t := r.T
	nCallers := 1 + t.Choice(4)
	e := newEnv(r, "C14", false)
	w := &c14{e: e, k: e.k, t: t, track: map[string]*lockTrack{}, rank: map[virtual.PrepopulatedDirectory]int{}, rankLB: map[virtual.PrepopulatedDirectory]int{}, attrDir: map[virtual.PrepopulatedDirectory]bool{}}
	w.exotic = strings.Contains(os.Getenv("W7_EXOTIC"), "attrdir-links")
	// One run in ten also links leaves into named attribute directories:
	// that path has a recorded genuine defect (see known_findings.json), so it
	// is kept rare, and the call is labelled so that the finding is
	// recognisable.
	w.exoticLink = t.Bool(1, 10)
	if r.Prop == "C13" {
		// The recorded finding on that path is C14's; C13 runs stay off it.
		w.exoticLink = false
	}
	w.exoticLink = w.exoticLink || w.exotic
	w.build()
	maxOps := 4 + t.Choice(12)
	if r.Prop == "C13" {
		maxOps += 10
		if nCallers < 3 {
			nCallers = 3
		}
	}
	if r.Tier == "thorough" {
		maxOps *= 2
	}
	r.Logf("%d callers, up to %d calls each", nCallers, maxOps)
	for i := 0; i < nCallers; i++ {
		c := &caller{w: w, idx: i, name: fmt.Sprintf("caller%d", i)}
		c.actor = e.k.Spawn(c.name, func() { c.loop(maxOps) })
		w.callers = append(w.callers, c)
		w.track[c.name] = &lockTrack{}
	}
	e.k.AfterStep = w.afterStep

	idle := e.k.Run(1500 + 500*t.Choice(8))
	if !e.k.Failed() && !(idle && !w.allDone()) {
		// Drain: no faults, no new calls; whatever is in progress has
		// to return.
		e.k.Note("drain: no new calls, faults off")
		e.k.FaultsOn = false
		w.stopping = true
		idle = e.k.Run(60000)
	}
	r.Count("c14_calls_returned", w.calls)
	r.Count("c14_error_returns", w.errReturn)
	r.Count("c14_lockpile_backoffs", w.backoffs)
	r.Count("c14_pool_files_created", e.pool.created)
	r.State(fmt.Sprintf("callers=%d/overlap=%v/backoff=%v", nCallers, w.overlap, w.backoffs > 0))
	if e.k.Failed() {
		return
	}
	if !w.allDone() {
		lw, bl, sp := e.k.Stuck()
		rule, what := "C14/call-never-returned", "calls are still in progress after the step budget of the drain phase (no new calls were issued)"
		if idle {
			rule, what = "C14/deadlock", "no caller can make progress: every unfinished caller waits for a mutex that is held"
		}
		history := ""
		if w.ownAttrDirCycle {
			history = " [history: a leaf was hard-linked into its own named attribute directory]"
		}
		e.k.Violate(rule, fmt.Sprintf("%s; calls in progress: %s; lock-waiters=%v blocked=%v parked=%v held=%v%s", what, w.inProgress(), lw, bl, sp, e.k.HeldLocks(), history))
		return
	}
	if held := e.k.HeldLocks(); len(held) > 0 {
		e.k.Violate("C14/mutex-held-at-idle", fmt.Sprintf("all callers have finished but simulated mutexes are still held: %v", held))
		return
	}
	r.NonTrivial = w.calls >= 4 && (w.overlap || w.errReturn > 0)
}

func (w *c14) allDone() bool {
	for _, c := range w.callers {
		if !c.actor.Done() {
			return false
		}
	}
	return true
}

func (w *c14) inProgress() string {
	var parts []string
	for _, c := range w.callers {
		if c.cur != "" {
			parts = append(parts, c.name+": "+c.cur)
		}
	}
	return strings.Join(parts, "; ")
}

func mustNil(err error, what string) {
	if err != nil {
		panic(harness(what + ": " + err.Error()))
	}
}

// build creates the initial tree from the controller goroutine (nothing
// else runs yet, so no lock is contended).
func (w *c14) build() {
	e := w.e
	root := e.roots[0]
	a, err := root.CreateAndEnterPrepopulatedDirectory(comp("s"))
	mustNil(err, "initial tree")
	b, err := root.CreateAndEnterPrepopulatedDirectory(comp("z"))
	mustNil(err, "initial tree")
	s, err := a.CreateAndEnterPrepopulatedDirectory(comp("t"))
	mustNil(err, "initial tree")
	e.specSeq++
	spec := &lazySpec{id: e.specSeq, children: []*lazyChild{
		{name: "a", kind: lkFile, size: 3},
		{name: "b", kind: lkSymlink, target: e.newTarget()},
		{name: ".hid", kind: lkFile},
	}}
	children, _ := e.buildChildren(spec)
	mustNil(a.CreateChildren(children, false), "initial tree")
	e.specSeq += 3
	lazy := &lazySpec{id: e.specSeq - 2, children: []*lazyChild{
		{name: "t", sub: &lazySpec{id: e.specSeq - 1, children: []*lazyChild{
			{name: "a", kind: lkFile},
			{name: "s", sub: &lazySpec{id: e.specSeq, children: []*lazyChild{{name: "b", kind: lkExecFile, size: 2}}}},
		}}},
		{name: "b", kind: lkFile, size: 1},
	}}
	children, _ = e.buildChildren(lazy)
	mustNil(b.CreateChildren(children, false), "initial tree")
	z, err := b.LookupChild(comp("t"))
	mustNil(err, "initial tree")
	zd, _ := z.GetPair()
	other, err := e.roots[1].CreateAndEnterPrepopulatedDirectory(comp("s"))
	mustNil(err, "initial tree")
	w.dirs = []virtual.PrepopulatedDirectory{a, b, s, root, zd, other, e.roots[1]}
	for i, rank := range []int{1, 1, 2, 0, 2, 1, 0} {
		w.rank[w.dirs[i]] = rank
		w.rankLB[w.dirs[i]] = rank
	}
	for _, c := range spec.children {
		w.leaves = append(w.leaves, c.leaf)
	}
	for _, c := range lazy.children {
		if c.leaf != nil {
			w.leaves = append(w.leaves, c.leaf)
		}
	}
}

func (w *c14) dirName(d virtual.PrepopulatedDirectory) string {
	for i, x := range w.dirs {
		if x == d {
			if w.attrDir[d] {
				// Calls on named attribute directories are labelled, so
				// that the recorded findings on that path match only
				// histories that go through it.
				return fmt.Sprintf("D%d[named-attribute-directory]", i)
			}
			return fmt.Sprintf("D%d", i)
		}
	}
	return "D?"
}

// register adds a directory that a call on parent returned to the shared set
// of handles. created says that the call has just created it, in which case
// its rank is exact if the parent's is.
func (w *c14) register(d virtual.Directory, parent virtual.PrepopulatedDirectory, created bool) {
	pd, ok := d.(virtual.PrepopulatedDirectory)
	if !ok || pd == nil {
		return
	}
	if _, ok := w.rankLB[pd]; !ok {
		w.rankLB[pd] = w.rankLB[parent] + 1
		if r, ok := w.rank[parent]; ok && created {
			w.rank[pd] = r + 1
		}
		if w.attrDir[parent] {
			w.attrDir[pd] = true
			if o, ok := w.attrOwner[parent]; ok {
				w.attrOwner[pd] = o
			}
		}
	}
	for _, x := range w.dirs {
		if x == pd {
			return
		}
	}
	if len(w.dirs) < 24 {
		w.dirs = append(w.dirs, pd)
	}
}

// registerAttrDir adds a named attribute directory, which is the root of a
// little hierarchy of its own.
func (w *c14) registerAttrDir(d virtual.Directory) {
	if pd, ok := d.(virtual.PrepopulatedDirectory); ok && pd != nil {
		if _, ok := w.rankLB[pd]; !ok {
			w.rankLB[pd] = 0
		}
		w.attrDir[pd] = true
		w.register(pd, pd, false)
	}
}

// renameAllowed: a directory may only be moved to a directory whose rank
// does not exceed that of its present parent (sideways or upwards). Ranks
// never change, every parent has a smaller rank than its children, hence no
// interleaving of such renames can make a directory its own ancestor.
func (w *c14) renameAllowed(dOld, dNew virtual.PrepopulatedDirectory) bool {
	r, ok := w.rank[dNew]
	return ok && r <= w.rankLB[dOld]
}

func (w *c14) registerLeaf(l virtual.Leaf) {
	ll, ok := l.(virtual.LinkableLeaf)
	if !ok || ll == nil {
		return
	}
	for _, x := range w.leaves {
		if x == ll {
			return
		}
	}
	if len(w.leaves) < 24 {
		w.leaves = append(w.leaves, ll)
	}
}

// pickDir prefers the directories of the initial tree, so that callers meet.
func (w *c14) pickDir() virtual.PrepopulatedDirectory {
	if n := len(w.dirs); n > 5 && w.t.Bool(1, 4) {
		return w.dirs[w.t.Choice(n)]
	}
	return w.dirs[w.t.Choice(5)]
}

// afterStep holds the kernel-level oracles and the coverage probes.
func (w *c14) afterStep() {
	k := w.k
	held := k.HeldLocks()
	busy := 0
	for _, c := range w.callers {
		if c.cur != "" && !c.actor.Done() {
			busy++
		}
	}
	if busy >= 2 && !w.overlap {
		w.overlap = true
		k.Probe("c14_runs_with_overlapping_calls")
	}
	if busy == 0 && len(held) > 0 {
		k.Violate("C14/mutex-held-at-idle", fmt.Sprintf("no call is in progress but simulated mutexes are still held: %v; last calls: %s", held, w.lastCalls()))
		return
	}
	// LockPile back-off: a TryLock step after which the caller holds
	// nothing and blocks on a mutex, followed by that blocking Lock.
	if a := k.LastActor; a != nil {
		if tr := w.track[a.Name]; tr != nil {
			n := 0
			suffix := " held by " + a.Name
			for _, h := range held {
				if strings.HasSuffix(h, suffix) {
					n++
				}
			}
			switch {
			case strings.HasPrefix(k.LastKey, "trylock "):
				tr.tryPending = tr.heldPrev >= 1 && n == 0 && a.Parked() && !a.ParkedAtSeam()
			case strings.HasPrefix(k.LastKey, "lock "):
				if tr.tryPending {
					w.backoffs++
					k.Probe("c14_lockpile_backoff")
					k.Annotate("%s: LockPile backed off and re-acquired", a.Name)
				}
				tr.tryPending = false
			default:
				tr.tryPending = false
			}
			tr.heldPrev = n
		}
	}
}

func (w *c14) lastCalls() string {
	var parts []string
	for _, c := range w.callers {
		parts = append(parts, c.name+": "+c.last)
	}
	return strings.Join(parts, "; ")
}

// --- callers -----------------------------------------------------------------

func (c *caller) begin(format string, args ...interface{}) {
	c.cur = fmt.Sprintf(format, args...)
	c.w.e.r.Logf("%s #%d %s", c.name, c.n, c.cur)
	c.w.k.Annotate("%s #%d begins %s", c.name, c.n, c.cur)
}

// end is called when the call has returned: the caller must not hold any
// simulated mutex any more.
func (c *caller) end(op, result string) {
	w := c.w
	w.calls++
	if result != "OK" && result != "nil" {
		w.errReturn++
	}
	w.k.Probe("c14:" + op + ":" + result)
	w.k.Annotate("%s #%d %s returned %s", c.name, c.n, op, result)
	suffix := " held by " + c.name
	var mine []string
	for _, h := range w.k.HeldLocks() {
		if strings.HasSuffix(h, suffix) {
			mine = append(mine, h)
		}
	}
	if len(mine) > 0 {
		w.k.Violate("C14/mutex-held-at-idle", fmt.Sprintf("%s: the call has returned %s but %d simulated mutex(es) are still held: %v", c.cur, result, len(mine), mine))
		panic(simsync.Poison{})
	}
	c.last = c.cur + " = " + result
	c.cur = ""
}

func (c *caller) loop(maxOps int) {
	w := c.w
	for c.n = 0; c.n < maxOps; c.n++ {
		w.k.Yield("next")
		if w.stopping {
			return
		}
		c.call()
	}
}

type reporter14 struct {
	w     *c14
	max   int
	n     int
	last  uint64
	what  string
	dirs  []virtual.Directory
	leafs []virtual.Leaf
}

func (r *reporter14) ReportEntry(nextCookie uint64, name path.Component, child virtual.DirectoryChild, attributes *virtual.Attributes) bool {
	if r.n >= r.max {
		return false
	}
	// Within one listing call entries come in cookie order, whatever other
	// callers do meanwhile: a cookie that does not increase means entries are
	// being reported again (C13: nothing is reported twice). Only judged when
	// the run is made on behalf of C13.
	if r.w.e.r.Prop == "C13" {
		if r.n > 0 && nextCookie <= r.last {
			r.w.k.Violate("C13/readdir-duplicate", fmt.Sprintf("%s: entry %q was reported with resume cookie %d after an entry with resume cookie %d: the listing went backwards and reports entries twice", r.what, name.String(), nextCookie, r.last))
		}
		r.w.k.Probe("c13_concurrent_listing_entry")
	}
	r.last = nextCookie
	r.n++
	d, l := child.GetPair()
	if d != nil {
		r.dirs = append(r.dirs, d)
	} else {
		r.leafs = append(r.leafs, l)
	}
	return true
}

const lockedMask = baseMask | virtual.AttributesMaskChangeID | virtual.AttributesMaskHasNamedAttributes

// call draws one call with all its parameters from the tape (the caller was
// just resumed) and performs it.
func (c *caller) call() {
	w := c.w
	t := w.t
	d := w.pickDir()
	dn := w.dirName(d)
	name := pick(t, names14)
	dirName := pick(t, dirNames14)
	if w.e.cfg.caseInsensitive && t.Bool(1, 6) {
		name, dirName = strings.ToUpper(name), strings.ToUpper(dirName)
	}
	mask := baseMask
	if t.Bool(2, 3) {
		mask = lockedMask
	}
	weights := []int{20, 8, 5, 6, 4, 8, 8, 8, 6, 6, 3, 4, 6, 3, 4, 2, 0}
	if w.e.cfg.namedAttrs {
		weights[16] = 4
	}
	if w.e.r.Prop == "C13" {
		// Listings racing renames and removals are what this
		// configuration is for.
		weights[7] = 40
	}
	switch t.Weighted(weights) {
	case 0:
		d2 := d
		if t.Bool(2, 3) {
			d2 = w.pickDir()
		}
		name, name2 := pick(t, leafNames14), pick(t, leafNames14)
		if (w.attrDir[d] || w.attrDir[d2]) && !w.exotic {
			d2 = d
		}
		if t.Bool(2, 5) {
			// Move (what may be) a directory.
			switch {
			case w.renameAllowed(d, d2):
				name, name2 = dirName, pick(t, dirNames14)
			case w.renameAllowed(d2, d):
				d, d2, dn = d2, d, w.dirName(d2)
				name, name2 = dirName, pick(t, dirNames14)
			default:
				w.k.Probe("c14_directory_rename_not_issued")
			}
		}
		c.begin("VirtualRename(%s, %q -> %s, %q)", dn, name, w.dirName(d2), name2)
		_, _, st := d.VirtualRename(ctx, comp(name), d2, comp(name2))
		c.end("VirtualRename", stName(st))
	case 1:
		flags := pick(t, [][2]bool{{true, true}, {true, false}, {false, true}})
		c.begin("VirtualRemove(%s, %q, %v, %v)", dn, name, flags[0], flags[1])
		_, st := d.VirtualRemove(ctx, comp(name), flags[0], flags[1])
		c.end("VirtualRemove", stName(st))
	case 2:
		c.begin("Remove(%s, %q)", dn, name)
		err := d.Remove(comp(name))
		c.end("Remove", errName(err))
	case 3:
		c.begin("RemoveAll(%s, %q)", dn, name)
		err := d.RemoveAll(comp(name))
		c.end("RemoveAll", errName(err))
	case 4:
		deleteSelf := t.Bool(1, 2)
		if isRoot := d == w.e.roots[0] || d == w.e.roots[1]; isRoot && (w.e.avoidKnown || t.Bool(7, 8)) {
			deleteSelf = false
		}
		c.begin("RemoveAllChildren(%s, %v)", dn, deleteSelf)
		err := d.RemoveAllChildren(deleteSelf)
		c.end("RemoveAllChildren", errName(err))
	case 5:
		if w.e.avoidKnown && d != w.e.roots[0] && d != w.e.roots[1] {
			d, dn = w.e.roots[0], w.dirName(w.e.roots[0])
		}
		c.begin("CreateAndEnterPrepopulatedDirectory(%s, %q)", dn, dirName)
		child, err := d.CreateAndEnterPrepopulatedDirectory(comp(dirName))
		c.end("CreateAndEnterPrepopulatedDirectory", errName(err))
		if err == nil {
			w.register(child, d, false)
		}
	case 6:
		c.begin("VirtualLookup(%s, %q, mask=%#x)", dn, name, mask)
		var out virtual.Attributes
		child, st := d.VirtualLookup(ctx, comp(name), mask, &out)
		c.end("VirtualLookup", stName(st))
		if st == virtual.StatusOK {
			cd, cl := child.GetPair()
			if cd != nil {
				w.register(cd, d, false)
			} else {
				w.registerLeaf(cl)
			}
		}
	case 7:
		rep := &reporter14{w: w, max: pick(t, []int{100, 1, 2})}
		cookie := uint64(t.Choice(3)) * 2
		rep.what = fmt.Sprintf("VirtualReadDir(%s, cookie=%d, mask=%#x)", dn, cookie, mask)
		c.begin("VirtualReadDir(%s, cookie=%d, mask=%#x, page=%d)", dn, cookie, mask, rep.max)
		st := d.VirtualReadDir(ctx, cookie, mask, rep)
		c.end("VirtualReadDir", stName(st))
		for _, x := range rep.dirs {
			w.register(x, d, false)
		}
	case 8:
		c.begin("VirtualMkdir(%s, %q)", dn, dirName)
		var out virtual.Attributes
		child, _, st := d.VirtualMkdir(ctx, comp(dirName), &virtual.Attributes{}, mask, &out)
		c.end("VirtualMkdir", stName(st))
		if st == virtual.StatusOK {
			w.register(child, d, true)
		}
	case 9:
		var create *virtual.Attributes
		var existing *virtual.OpenExistingOptions
		mode := t.Choice(3)
		if mode != 1 {
			create = (&virtual.Attributes{}).SetPermissions(virtual.PermissionsRead | virtual.PermissionsWrite)
		}
		if mode != 0 {
			existing = &virtual.OpenExistingOptions{Truncate: t.Bool(1, 2)}
		}
		fileOps := make([]int, t.Choice(4))
		for i := range fileOps {
			fileOps[i] = t.Choice(6)
		}
		c.begin("VirtualOpenChild(%s, %q, create=%v, existing=%v) + file calls %v + close", dn, name, create != nil, existing != nil, fileOps)
		var out virtual.Attributes
		share := virtual.ShareMaskRead | virtual.ShareMaskWrite
		leaf, _, _, st := d.VirtualOpenChild(ctx, comp(name), share, create, existing, mask, &out)
		if st == virtual.StatusOK {
			// The file is held open, so it exists whatever the other
			// callers do to its names.
			for _, op := range fileOps {
				var fs virtual.Status
				var a virtual.Attributes
				switch op {
				case 0:
					_, fs = leaf.VirtualWrite(ctx, []byte("data"), 2)
				case 1:
					_, _, fs = leaf.VirtualRead(ctx, make([]byte, 8), 0)
				case 2:
					_, fs = leaf.VirtualSeek(ctx, 1, filesystem.Data)
				case 3:
					fs = leaf.VirtualAllocate(ctx, 0, 12)
				case 4:
					fs = leaf.VirtualSetAttributes(ctx, (&virtual.Attributes{}).SetSizeBytes(3), mask, &a)
				case 5:
					leaf.VirtualGetAttributes(ctx, mask, &a)
				}
				w.k.Probe("c14:file-call-" + itoa(op) + ":" + stName(fs))
			}
			leaf.VirtualClose(share)
			w.registerLeaf(leaf)
		}
		c.end("VirtualOpenChild", stName(st))
	case 10:
		ft := pick(t, []filesystem.FileType{filesystem.FileTypeSymlink, filesystem.FileTypeFIFO, filesystem.FileTypeBlockDevice})
		attrs := (&virtual.Attributes{}).SetFileType(ft)
		if ft == filesystem.FileTypeSymlink {
			attrs.SetSymlinkTarget(path.UNIXFormat.NewParser(w.e.newTarget()))
		}
		c.begin("VirtualMknod(%s, %q, %s)", dn, name, fileTypeNames[ft])
		var out virtual.Attributes
		leaf, _, st := d.VirtualMknod(ctx, comp(name), attrs, mask, &out)
		c.end("VirtualMknod", stName(st))
		if st == virtual.StatusOK {
			w.registerLeaf(leaf)
		}
	case 11:
		l := pick(t, w.leaves)
		if w.attrDir[d] && !w.exoticLink {
			d = w.dirs[t.Choice(5)]
			dn = w.dirName(d)
		}
		if w.attrDir[d] {
			w.k.Probe("c14_link_into_named_attribute_directory")
		}
		c.begin("VirtualLink(%s, %q, leaf)", dn, name)
		var out virtual.Attributes
		_, st := d.VirtualLink(ctx, comp(name), l, mask, &out)
		c.end("VirtualLink", stName(st))
		if st == virtual.StatusOK && w.attrOwner[d] == l && l != nil {
			// The leaf now lives inside the attribute directory it owns:
			// the history of the second recorded finding.
			w.ownAttrDirCycle = true
			w.k.Probe("c14_leaf_linked_into_its_own_named_attribute_directory")
		}
	case 12:
		overwrite := t.Bool(1, 2)
		spec := c.newSpec(0)
		if w.attrDir[d] && !w.exotic {
			d = w.dirs[t.Choice(5)]
			dn = w.dirName(d)
		}
		c.begin("CreateChildren(%s, %s, overwrite=%v)", dn, spec, overwrite)
		children, _ := w.e.buildChildren(spec)
		err := d.CreateChildren(children, overwrite)
		if err != nil {
			for _, ch := range spec.children {
				if ch.leaf != nil {
					ch.leaf.Unlink()
				}
			}
		} else {
			for _, ch := range spec.children {
				if ch.leaf != nil {
					w.registerLeaf(ch.leaf)
				}
			}
		}
		c.end("CreateChildren", errName(err))
	case 13:
		decisions := make([]int, 6)
		for i := range decisions {
			decisions[i] = t.Weighted([]int{4, 4, 2, 1})
		}
		c.begin("FilterChildren(%s, decisions=%v)", dn, decisions)
		i := 0
		var later []virtual.ChildRemover
		err := d.FilterChildren(func(node virtual.InitialChild, remove virtual.ChildRemover) bool {
			dec := decisions[i%len(decisions)]
			i++
			switch dec {
			case fRemoveNow:
				remove()
			case fRemoveLater:
				later = append(later, remove)
			case fStop:
				return false
			}
			return true
		})
		for _, r := range later {
			r()
		}
		c.end("FilterChildren", errName(err))
	case 14:
		switch t.Choice(3) {
		case 0:
			c.begin("LookupChild(%s, %q)", dn, name)
			child, err := d.LookupChild(comp(name))
			c.end("LookupChild", errName(err))
			if err == nil {
				if cd, _ := child.GetPair(); cd != nil {
					w.register(cd, d, false)
				}
			}
		case 1:
			c.begin("LookupAllChildren(%s)", dn)
			dirs, _, err := d.LookupAllChildren()
			c.end("LookupAllChildren", errName(err))
			for _, x := range dirs {
				w.register(x.Child, d, false)
			}
		default:
			c.begin("ReadDir(%s)", dn)
			_, err := d.ReadDir()
			c.end("ReadDir", errName(err))
		}
	case 15:
		var out virtual.Attributes
		switch t.Choice(4) {
		case 0:
			c.begin("VirtualGetAttributes(%s, mask=%#x)", dn, mask)
			d.VirtualGetAttributes(ctx, mask, &out)
			c.end("VirtualGetAttributes", "OK")
		case 1:
			in := &virtual.Attributes{}
			if t.Bool(1, 3) {
				in.SetSizeBytes(0)
			}
			c.begin("VirtualSetAttributes(%s)", dn)
			st := d.VirtualSetAttributes(ctx, in, mask, &out)
			c.end("VirtualSetAttributes", stName(st))
		case 2:
			c.begin("VirtualApply(%s)", dn)
			d.VirtualApply(&struct{}{})
			c.end("VirtualApply", "OK")
		default:
			c.begin("InstallHooks(%s)", dn)
			d.InstallHooks(w.e.files, w.e.symlinks, w.e.logger, noDefaultAttributes, w.e.attrFactory)
			c.end("InstallHooks", "OK")
		}
	case 16:
		var out virtual.Attributes
		if t.Bool(1, 2) {
			c.begin("VirtualOpenNamedAttributes(%s, create)", dn)
			ad, st := d.VirtualOpenNamedAttributes(ctx, t.Bool(3, 4), mask, &out)
			c.end("VirtualOpenNamedAttributes", stName(st))
			if st == virtual.StatusOK {
				w.registerAttrDir(ad)
			}
		} else {
			l := pick(t, w.leaves)
			c.begin("VirtualOpenNamedAttributes(leaf, create)")
			ad, st := l.VirtualOpenNamedAttributes(ctx, t.Bool(3, 4), mask, &out)
			c.end("VirtualOpenNamedAttributes(leaf)", stName(st))
			if st == virtual.StatusOK {
				w.registerAttrDir(ad)
				if pd, ok := ad.(virtual.PrepopulatedDirectory); ok && pd != nil {
					if w.attrOwner == nil {
						w.attrOwner = map[virtual.PrepopulatedDirectory]virtual.Leaf{}
					}
					w.attrOwner[pd] = l
				}
			}
		}
	}
}

func (c *caller) newSpec(depth int) *lazySpec {
	w := c.w
	t := w.t
	w.e.specSeq++
	spec := &lazySpec{id: w.e.specSeq}
	n := t.Choice(3)
	used := map[string]bool{}
	for i := 0; i < n; i++ {
		name := pick(t, names14)
		k := t.Weighted([]int{4, 2, 4})
		if k == 2 && depth < 2 {
			name = pick(t, dirNames14)
		}
		if used[name] {
			continue
		}
		used[name] = true
		ch := &lazyChild{name: name}
		switch {
		case k == 2 && depth < 2:
			ch.sub = c.newSpec(depth + 1)
		case k == 1:
			ch.kind, ch.target = lkSymlink, w.e.newTarget()
		default:
			ch.kind, ch.size = lkFile, 2
		}
		spec.children = append(spec.children, ch)
	}
	return spec
}

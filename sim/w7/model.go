package w7

import (
	"fmt"
	"sort"
	"strings"

	"github.com/buildbarn/bb-remote-execution/pkg/filesystem/virtual"
	"github.com/buildbarn/bb-remote-execution/pkg/verifsim/simsync"
	"github.com/buildbarn/bb-storage/pkg/filesystem"
)

// Reference model of C13: a plain tree of nodes. Directories hold a list of
// entries, a "removed" flag and the last change counter value seen; leaves
// hold a link count and, for regular files, the bytes written. Nothing here
// depends on how the code under test indexes, orders or numbers entries.

type nodeKind int

const (
	kDir nodeKind = iota
	kFile
	kSymlink
	kFifo
	kSocket
)

var kindNames = []string{"dir", "file", "symlink", "fifo", "socket"}

func (k nodeKind) fileType() filesystem.FileType {
	switch k {
	case kDir:
		return filesystem.FileTypeDirectory
	case kFile:
		return filesystem.FileTypeRegularFile
	case kSymlink:
		return filesystem.FileTypeSymlink
	case kFifo:
		return filesystem.FileTypeFIFO
	}
	return filesystem.FileTypeSocket
}

type mNode struct {
	id   int
	kind nodeKind

	// Directories.
	fs      int
	entries []*mEntry
	deleted bool
	lazy    *lazySpec // contents not materialised yet
	dir     virtual.PrepopulatedDirectory
	change  uint64 // change counter as last observed
	fresh   bool   // change counter not observed yet

	// Leaves.
	nlink  int
	exec   bool
	data   []byte
	target string
	leaf   virtual.LinkableLeaf

	// What the "kernel" of the FUSE front end knows: node ID (0 if it
	// does not know the object) and the lookups it holds; ino is the
	// inode number, once anybody has seen it.
	fuseID  uint64
	nlookup uint64
	ino     uint64
}

func (n *mNode) String() string {
	if n == nil {
		return "<nil>"
	}
	if n.kind == kDir {
		s := fmt.Sprintf("d%d", n.id)
		if n.deleted {
			s += "[removed]"
		}
		if n.lazy != nil {
			s += "[lazy]"
		}
		return s
	}
	return fmt.Sprintf("%s%d(nlink=%d)", kindNames[n.kind], n.id, n.nlink)
}

type mEntry struct {
	eid  int
	name string
	norm string
	node *mNode
}

// session is one paginated listing of a directory in progress.
type session struct {
	id      int
	d       *mNode
	mask    virtual.AttributesMask
	page    int
	alive   map[int]string // entries that exist since the listing began: eid -> name
	recs    []cookieRec
	pages   int
	mutated bool
	fuse    bool // paged through READDIR (plus: READDIRPLUS) of the FUSE front end
	plus    bool
}

// cookieRec is a cookie returned by some page together with everything the
// logical listing that leads to it has reported so far.
type cookieRec struct {
	cookie uint64
	seen   []int
}

type ciCheck struct {
	what string
	d    *mNode
	info virtual.ChangeInfo
}

type c13 struct {
	e *env
	k *simsync.Kernel
	t *simsync.Tape

	nodeSeq  int
	entrySeq int
	dirs     []*mNode
	leaves   []*mNode
	specs    []*lazySpec
	sessions []*session
	sessSeq  int

	// Per operation.
	desc       string
	lastResult string
	modified   map[*mNode]bool
	lazyBefore map[*mNode]bool
	ci         []ciCheck

	f *fuseFront // FUSE front end, nil in two runs out of three

	ops, mutations, errors int
	writeSeq               int
}

// fail records a violation and ends the driver: once the real tree and the
// model disagree, nothing that follows can be judged.
func (w *c13) fail(rule, format string, args ...interface{}) {
	w.k.Violate("C13/"+rule, w.desc+": "+fmt.Sprintf(format, args...)+"\nmodel: "+w.dump())
	panic(simsync.Poison{})
}

func (w *c13) dump() string {
	var sb strings.Builder
	for _, d := range w.dirs {
		fmt.Fprintf(&sb, "%s{", d)
		for i, en := range d.entries {
			if i > 0 {
				sb.WriteString(" ")
			}
			fmt.Fprintf(&sb, "%s->%s", en.name, en.node)
		}
		sb.WriteString("} ")
	}
	return sb.String()
}

func (w *c13) newDir(fs int, lazy *lazySpec, real virtual.PrepopulatedDirectory) *mNode {
	w.nodeSeq++
	n := &mNode{id: w.nodeSeq, kind: kDir, fs: fs, lazy: lazy, dir: real, fresh: true}
	if lazy != nil {
		lazy.node = n
		w.specs = append(w.specs, lazy)
	}
	w.dirs = append(w.dirs, n)
	return n
}

func (w *c13) newLeaf(kind nodeKind, real virtual.LinkableLeaf) *mNode {
	w.nodeSeq++
	n := &mNode{id: w.nodeSeq, kind: kind, nlink: 1, leaf: real}
	w.leaves = append(w.leaves, n)
	return n
}

func (w *c13) find(d *mNode, name string) *mEntry {
	norm := w.e.norm(name)
	for _, en := range d.entries {
		if en.norm == norm {
			return en
		}
	}
	return nil
}

func (w *c13) attach(d *mNode, name string, n *mNode) *mEntry {
	if d.deleted || w.find(d, name) != nil {
		panic(harness("model attach precondition"))
	}
	w.entrySeq++
	en := &mEntry{eid: w.entrySeq, name: name, norm: w.e.norm(name), node: n}
	d.entries = append(d.entries, en)
	w.modified[d] = true
	for _, s := range w.sessions {
		if s.d == d {
			s.mutated = true
		}
	}
	return en
}

func (w *c13) detach(d *mNode, en *mEntry) {
	for i, x := range d.entries {
		if x == en {
			d.entries = append(d.entries[:i:i], d.entries[i+1:]...)
			w.modified[d] = true
			for _, s := range w.sessions {
				if s.d == d {
					delete(s.alive, en.eid)
					s.mutated = true
				}
			}
			return
		}
	}
	panic(harness("model detach of an entry that is not attached"))
}

func (w *c13) unlink(n *mNode) {
	if n.nlink <= 0 {
		panic(harness("model unlink below zero"))
	}
	n.nlink--
}

// listed reports whether a listing shows the entry: directories always,
// leaves unless their name matches the hidden-files pattern.
func (w *c13) listed(en *mEntry) bool {
	return en.node.kind == kDir || !w.e.isHidden(en.name)
}

// deletable: a directory can be removed when nothing but hidden leaves is in it.
func (w *c13) deletable(d *mNode) bool {
	for _, en := range d.entries {
		if w.listed(en) {
			return false
		}
	}
	return true
}

// markDeleted removes an (apart from hidden leaves) empty directory.
func (w *c13) markDeleted(d *mNode) {
	if d.deleted {
		return
	}
	for len(d.entries) > 0 {
		en := d.entries[0]
		w.detach(d, en)
		w.unlink(en.node)
	}
	d.deleted = true
}

// removeChildren removes everything below d, and d itself if asked to.
func (w *c13) removeChildren(d *mNode, deleteSelf bool) {
	if d.lazy != nil {
		// Contents that were never looked at simply never come
		// into existence.
		d.lazy = nil
	}
	for len(d.entries) > 0 {
		en := d.entries[0]
		w.detach(d, en)
		w.removeNode(en.node)
	}
	if deleteSelf {
		d.deleted = true
	}
}

func (w *c13) removeNode(n *mNode) {
	if n.kind == kDir {
		w.removeChildren(n, true)
	} else {
		w.unlink(n)
	}
}

// need reports whether the contents of d are available to the operation.
// It returns false when they are not because the injected fetch failure
// applies; the operation then has to fail without any effect.
func (w *c13) need(d *mNode) bool {
	if d.lazy == nil {
		return true
	}
	if w.e.armed == faultFetch {
		return false
	}
	w.fail("lazy-contents-not-fetched", "the operation cannot be answered without the initial contents of %s, but they were never fetched", d)
	return false
}

// adopt materialises in the model every directory whose initial contents the
// code under test has fetched during the operation just performed.
func (w *c13) adopt() {
	for i := 0; i < len(w.specs); i++ {
		spec := w.specs[i]
		if spec.fetched && spec.node != nil && spec.node.lazy == spec {
			w.materialise(spec.node)
		}
	}
}

func (w *c13) materialise(d *mNode) {
	spec := d.lazy
	d.lazy = nil
	w.k.Probe("c13_lazy_directory_materialised")
	for _, c := range spec.children {
		if c.sub != nil {
			// The real object of the new directory is bound when it
			// is first seen (bindUnbound).
			w.attach(d, c.name, w.newDir(d.fs, c.sub, nil))
			continue
		}
		w.attach(d, c.name, w.leafFromSpec(c))
	}
}

// bindUnbound gives every directory the model has learnt about without
// seeing its real object (children of materialised or bulk-created
// directories) that object, by looking it up where the model now has it. A
// directory that is no longer attached anywhere was never seen by anybody and
// is forgotten.
func (w *c13) bindUnbound() {
	for progress := true; progress; {
		progress = false
		for _, n := range w.dirs {
			if n.dir != nil {
				continue
			}
			for _, p := range w.dirs {
				if p.dir == nil {
					continue
				}
				for _, en := range p.entries {
					if en.node == n && n.dir == nil {
						n.dir = w.realDir(p, en.name)
						w.verifyIno(n)
						progress = true
					}
				}
			}
		}
	}
	for _, n := range w.leaves {
		if n.leaf != nil {
			continue
		}
		for _, p := range w.dirs {
			if p.dir == nil {
				continue
			}
			for _, en := range p.entries {
				if en.node == n && n.leaf == nil {
					child, err := p.dir.LookupChild(comp(en.name))
					if err != nil {
						w.fail("created-directory-missing", "%q was just created in %s but LookupChild says %v", en.name, p, err)
					}
					if _, l := child.GetPair(); l != nil {
						n.leaf = l
						w.verifyIno(n)
					}
				}
			}
		}
	}
	kept := w.dirs[:0]
	for _, n := range w.dirs {
		if n.dir == nil {
			if n.lazy != nil {
				n.lazy.node = nil
			}
			continue
		}
		kept = append(kept, n)
	}
	w.dirs = kept
}

func (w *c13) leafFromSpec(c *lazyChild) *mNode {
	if c.kind == lkSymlink {
		n := w.newLeaf(kSymlink, c.leaf)
		n.target = c.target
		return n
	}
	n := w.newLeaf(kFile, c.leaf)
	n.exec = c.kind == lkExecFile
	n.data = make([]byte, c.size)
	return n
}

// verifyIno: an object first seen through a FUSE reply must be the one
// that sits in the tree.
func (w *c13) verifyIno(n *mNode) {
	if n.ino != 0 {
		if ino := w.directIno(n); ino != n.ino {
			w.fail("wrong-object", "the FUSE reply that created %s carried inode number %d, but the object in the tree has %d", n, n.ino, ino)
		}
	}
}

// realDir fetches the real object of a directory the model just learnt
// about through a call that does not return it.
func (w *c13) realDir(parent *mNode, name string) virtual.PrepopulatedDirectory {
	child, err := parent.dir.LookupChild(comp(name))
	if err != nil {
		w.fail("created-directory-missing", "directory %q was just created in %s but LookupChild says %v", name, parent, err)
	}
	d, _ := child.GetPair()
	if d == nil {
		w.fail("created-directory-missing", "directory %q was just created in %s but LookupChild returns a leaf", name, parent)
	}
	return d
}

// isBelow reports whether d is x or lies somewhere below x.
func (w *c13) isBelow(d, x *mNode) bool {
	if d == x {
		return true
	}
	for _, en := range x.entries {
		if en.node.kind == kDir && w.isBelow(d, en.node) {
			return true
		}
	}
	return false
}

func (w *c13) sortedEntries(d *mNode, pred func(*mEntry) bool) []*mEntry {
	var out []*mEntry
	for _, en := range d.entries {
		if pred(en) {
			out = append(out, en)
		}
	}
	sort.Slice(out, func(i, j int) bool { return out[i].name < out[j].name })
	return out
}

package w7

import (
	"errors"
	"io"
	"sync/atomic"

	"github.com/buildbarn/bb-remote-execution/pkg/filesystem/pool"
	"github.com/buildbarn/bb-remote-execution/pkg/filesystem/virtual"
	"github.com/buildbarn/bb-storage/pkg/filesystem"
	"github.com/buildbarn/bb-storage/pkg/filesystem/path"
)

// Simulator-owned seams of the virtual file system: file pool, random number
// generator, error logger, lazily fetched directory contents and a failing
// symlink factory. Everything here is single threaded in practice: in this
// world there are no channels, so exactly one actor runs between two
// controller steps.

// --- fault plumbing ---------------------------------------------------------

type faultKind int

const (
	faultNone faultKind = iota
	faultFetch
	faultAlloc
	faultSymlink
	faultTruncate
)

var faultNames = []string{"none", "fetch-fail", "alloc-fail", "symlink-fail", "truncate-fail"}

var (
	errFetch    = errors.New("injected: initial contents could not be fetched")
	errAlloc    = errors.New("injected: file pool is out of space")
	errSymlink  = errors.New("injected: symlink factory failed")
	errTruncate = errors.New("injected: truncate failed")
)

// --- trivial in-memory file pool -------------------------------------------

type memPool struct {
	e       *env
	created int
	closed  int
}

type memFile struct {
	p      *memPool
	data   []byte
	closed bool
}

func (p *memPool) NewFile(holeSource pool.HoleSource, size uint64) (filesystem.FileReadWriter, error) {
	if p.e.inject(faultAlloc) {
		return nil, errAlloc
	}
	p.created++
	return &memFile{p: p, data: make([]byte, size)}, nil
}

func (f *memFile) ReadAt(b []byte, off int64) (int, error) {
	if off >= int64(len(f.data)) {
		return 0, io.EOF
	}
	n := copy(b, f.data[off:])
	if n < len(b) {
		return n, io.EOF
	}
	return n, nil
}

func (f *memFile) WriteAt(b []byte, off int64) (int, error) {
	if end := int(off) + len(b); end > len(f.data) {
		f.data = append(f.data, make([]byte, end-len(f.data))...)
	}
	copy(f.data[off:], b)
	return len(b), nil
}

func (f *memFile) Truncate(size int64) error {
	if f.p.e.inject(faultTruncate) {
		return errTruncate
	}
	if int(size) <= len(f.data) {
		f.data = f.data[:size]
	} else {
		f.data = append(f.data, make([]byte, int(size)-len(f.data))...)
	}
	return nil
}

func (f *memFile) Sync() error { return nil }

func (f *memFile) Len() (int64, error) { return int64(len(f.data)), nil }

func (f *memFile) Close() error {
	if f.closed {
		f.p.e.k.Violate("panic:pool file closed twice", "the backing file of a pool-backed file was closed twice")
	}
	f.closed = true
	f.p.closed++
	return nil
}

func (f *memFile) GetNextRegionOffset(off int64, regionType filesystem.RegionType) (int64, error) {
	if off >= int64(len(f.data)) {
		return 0, io.EOF
	}
	if regionType == filesystem.Data {
		return off, nil
	}
	return int64(len(f.data)), nil
}

// --- random number generator for the handle allocators ---------------------

// seqRNG hands out distinct 64-bit values (splitmix64 of a counter): inode
// numbers must never collide, and their values must not depend on anything
// but the order of calls.
type seqRNG struct{ n atomic.Uint64 }

func (g *seqRNG) Uint64() uint64 {
	z := g.n.Add(1) * 0x9e3779b97f4a7c15
	z = (z ^ (z >> 30)) * 0xbf58476d1ce4e5b9
	z = (z ^ (z >> 27)) * 0x94d049bb133111eb
	return z ^ (z >> 31)
}
func (g *seqRNG) Uint32() uint32       { return uint32(g.Uint64() >> 32) }
func (g *seqRNG) Float64() float64     { return float64(g.Uint64()>>11) / (1 << 53) }
func (g *seqRNG) Int64N(n int64) int64 { return int64(g.Uint64() % uint64(n)) }
func (g *seqRNG) IntN(n int) int       { return int(g.Uint64() % uint64(n)) }
func (g *seqRNG) IsThreadSafe()        {}
func (g *seqRNG) Shuffle(n int, swap func(i, j int)) {
	for i := n - 1; i > 0; i-- {
		swap(i, g.IntN(i+1))
	}
}

func (g *seqRNG) Read(p []byte) (int, error) {
	for i := range p {
		p[i] = byte(g.Uint64())
	}
	return len(p), nil
}

// --- error logger -------------------------------------------------------------

type errLogger struct {
	e      *env
	logged int
}

func (l *errLogger) Log(err error) { l.logged++ }

// --- symlink factory that can fail -----------------------------------------

type faultySymlinkFactory struct {
	e    *env
	base virtual.SymlinkFactory
}

func (f *faultySymlinkFactory) LookupSymlink(target path.Parser) (virtual.LinkableLeaf, error) {
	if f.e.inject(faultSymlink) {
		return nil, errSymlink
	}
	return f.base.LookupSymlink(target)
}

// --- lazily fetched directory contents --------------------------------------

type leafKind int

const (
	lkFile leafKind = iota
	lkExecFile
	lkSymlink
)

// lazySpec describes the initial contents of one directory. The leaves are
// created when the directory is materialised by the code under test.
type lazySpec struct {
	id       int
	children []*lazyChild
	fetched  bool
	fetches  int
	failures int
	// node is the model node this specification belongs to (C13 only).
	node *mNode
}

type lazyChild struct {
	name   string
	sub    *lazySpec // directory if non-nil
	kind   leafKind
	size   int
	target string
	leaf   virtual.LinkableLeaf // set when created
}

type simFetcher struct {
	e    *env
	spec *lazySpec
}

func (f *simFetcher) VirtualApply(data any) bool { return false }

func (f *simFetcher) FetchContents(fileReadMonitorFactory virtual.FileReadMonitorFactory) (map[path.Component]virtual.InitialChild, error) {
	e := f.e
	e.k.Probe("lazy_fetch_called")
	f.spec.fetches++
	if f.spec.fetched {
		e.k.Violate(e.prop+"/fetch-after-success", "FetchContents was called again on a directory whose contents had already been fetched successfully")
	}
	if e.parkFetch && !e.k.IsController() {
		e.k.Yield("fetch")
		e.k.Yield("fetch")
	}
	if e.inject(faultFetch) {
		f.spec.failures++
		return nil, errFetch
	}
	children, err := e.buildChildren(f.spec)
	if err != nil {
		return nil, err
	}
	f.spec.fetched = true
	return children, nil
}

// buildChildren turns a specification into the map CreateChildren and
// FetchContents deal in. Leaves are created with fault injection bypassed:
// they are inputs of the call, not part of it.
func (e *env) buildChildren(spec *lazySpec) (map[path.Component]virtual.InitialChild, error) {
	e.bypass++
	defer func() { e.bypass-- }()
	children := map[path.Component]virtual.InitialChild{}
	for _, c := range spec.children {
		if c.sub != nil {
			children[comp(c.name)] = virtual.InitialChild{}.FromDirectory(&simFetcher{e: e, spec: c.sub})
			continue
		}
		var leaf virtual.LinkableLeaf
		var err error
		switch c.kind {
		case lkSymlink:
			leaf, err = e.symlinks.LookupSymlink(path.UNIXFormat.NewParser(c.target))
		default:
			leaf, err = e.files.NewFile(pool.ZeroHoleSource, c.kind == lkExecFile, uint64(c.size), 0)
		}
		if err != nil {
			panic(harness("cannot create initial leaf: " + err.Error()))
		}
		c.leaf = leaf
		children[comp(c.name)] = virtual.InitialChild{}.FromLeaf(leaf)
	}
	return children, nil
}

func comp(s string) path.Component { return path.MustNewComponent(s) }

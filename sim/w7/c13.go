package w7

import (
	"bytes"
	"fmt"
	"sort"
	"strings"
	"syscall"

	"github.com/buildbarn/bb-remote-execution/pkg/filesystem/virtual"
	"github.com/buildbarn/bb-remote-execution/pkg/verifsim/simrun"
	"github.com/buildbarn/bb-remote-execution/pkg/verifsim/simsync"
	"github.com/buildbarn/bb-storage/pkg/filesystem"
	"github.com/buildbarn/bb-storage/pkg/filesystem/path"
	"github.com/hanwen/go-fuse/v2/fuse"
)

// C13: one sequential driver issues operations; each one is executed on the
// real tree, then on the model, and everything the call returned is compared.

var names = []string{"a", "b", "c", "A", "B", ".hid", ".Hid"}

const baseMask = virtual.AttributesMaskFileType | virtual.AttributesMaskLinkCount | virtual.AttributesMaskSizeBytes | virtual.AttributesMaskPermissions

func runC13(r *simrun.Run) {
	e := newEnv(r, "C13", true)
	w := &c13{e: e, k: e.k, t: e.t, modified: map[*mNode]bool{}, lazyBefore: map[*mNode]bool{}}
	for i, root := range e.roots {
		w.newDir(i, nil, root)
	}
	if e.cfg.fuseFront {
		w.setupFUSE()
	}
	nOps := 20 + e.t.Choice(61)
	if r.Tier == "thorough" {
		nOps *= 2
	}
	actor := e.k.Spawn("driver", func() { w.drive(nOps) })
	e.k.Run(400000)
	r.Count("c13_operations", w.ops)
	r.Count("c13_successful_mutations", w.mutations)
	r.Count("c13_error_returns", w.errors)
	if w.f != nil {
		r.Count("c13_fuse_requests", w.f.requests)
		r.Count("c13_fuse_entry_notifications", w.f.entryNotifies)
	}
	r.State(fmt.Sprintf("dirs=%d/leaves=%d/sessions=%d", len(w.dirs), len(w.leaves), len(w.sessions)))
	if e.k.Failed() {
		return
	}
	if !actor.Done() {
		lw, bl, sp := e.k.Stuck()
		e.k.Violate("C14/call-never-returned", fmt.Sprintf("%s: the call never returned although nothing else is running: lock-waiters=%v blocked=%v parked=%v held=%v", w.desc, lw, bl, sp, e.k.HeldLocks()))
		return
	}
	r.NonTrivial = w.ops >= 20 && w.mutations >= 3 && w.errors >= 1
}

func (w *c13) drive(n int) {
	w.desc = "initial audit"
	w.beginOp()
	w.audit()
	for i := 0; i < n; i++ {
		w.k.Yield("op")
		w.step()
		if i%10 == 9 {
			w.desc = "tree comparison after " + w.desc
			w.compareAll()
		}
	}
	w.k.Yield("final")
	w.desc = "final tree comparison"
	w.compareAll()
	if w.f != nil {
		w.desc = "FORGET of every lookup the kernel holds"
		w.forgetAll()
		w.k.Probe("c13_fuse_run_completed")
	}
}

func (w *c13) logOp(format string, args ...interface{}) {
	w.desc = fmt.Sprintf(format, args...)
	if w.e.armed != faultNone {
		w.desc += " [" + faultNames[w.e.armed] + " armed]"
	}
	w.e.r.Logf("op%d %s", w.ops, w.desc)
	w.k.Annotate("op%d %s", w.ops, w.desc)
}

func (w *c13) result(op string, got string) {
	w.lastResult = got
	w.k.Probe("c13:" + op + ":" + got)
	w.k.Annotate("  -> %s", got)
	if got != "OK" && got != "nil" {
		w.errors++
	}
}

func (w *c13) beginOp() {
	for d := range w.modified {
		delete(w.modified, d)
	}
	for d := range w.lazyBefore {
		delete(w.lazyBefore, d)
	}
	for _, d := range w.dirs {
		if d.lazy != nil {
			w.lazyBefore[d] = true
		}
	}
	w.ci = w.ci[:0]
	w.lastResult = "(nothing yet)"
}

func (w *c13) endOp() {
	w.e.armed = faultNone
	if held := w.k.HeldLocks(); len(held) > 0 {
		w.k.Violate("C14/mutex-held-at-idle", fmt.Sprintf("%s: the call has returned %s but %d simulated mutex(es) are still held: %v", w.desc, w.lastResult, len(held), held))
		panic(simsync.Poison{})
	}
	if len(w.modified) > 0 {
		w.mutations++
	}
	w.bindUnbound()
	w.audit()
	w.forget()
}

// audit reads the change counter of every directory the driver knows and
// checks it against what the operation did according to the model.
func (w *c13) audit() {
	prev := map[*mNode]uint64{}
	for _, d := range w.dirs {
		var a virtual.Attributes
		d.dir.VirtualGetAttributes(ctx, virtual.AttributesMaskChangeID, &a)
		now := a.GetChangeID()
		prev[d] = d.change
		switch {
		case d.fresh:
			d.fresh = false
		case w.lazyBefore[d]:
			// Materialising initial contents may or may not count.
			if now < d.change {
				w.fail("change-counter", "the change counter of %s went backwards: %d -> %d", d, d.change, now)
			}
		case w.modified[d]:
			if now <= d.change {
				w.fail("change-counter", "the contents of %s were modified but its change counter did not increase: %d -> %d", d, d.change, now)
			}
		default:
			if now != d.change {
				w.fail("change-counter", "the contents of %s were not modified but its change counter moved: %d -> %d", d, d.change, now)
			}
		}
		d.change = now
	}
	for _, c := range w.ci {
		before, ok := prev[c.d]
		if !ok {
			continue
		}
		if c.info.After != c.d.change || (!w.lazyBefore[c.d] && c.info.Before != before) || c.info.Before > c.info.After {
			w.fail("change-info", "%s ChangeInfo of %s is {before=%d after=%d} but the directory's change counter was %d before and is %d after the call", c.what, c.d, c.info.Before, c.info.After, before, c.d.change)
		}
	}
	if len(w.held()) > 0 {
		w.k.Violate("C14/mutex-held-at-idle", fmt.Sprintf("%s: VirtualGetAttributes has returned but simulated mutexes are still held: %v", w.desc, w.held()))
		panic(simsync.Poison{})
	}
}

func (w *c13) held() []string { return w.k.HeldLocks() }

func (w *c13) attached(n *mNode) bool {
	for _, d := range w.dirs {
		for _, en := range d.entries {
			if en.node == n {
				return true
			}
		}
	}
	return false
}

// forget drops handles of removed, unreachable objects beyond a few, to
// keep runs bounded.
func (w *c13) forget() {
	if len(w.dirs) > 12 {
		kept := w.dirs[:0]
		spare := 3
		for _, d := range w.dirs {
			drop := d.deleted && d.id > 2 && !w.attached(d)
			for _, s := range w.sessions {
				if s.d == d {
					drop = false
				}
			}
			if drop && spare > 0 {
				spare--
				drop = false
			}
			if !drop {
				kept = append(kept, d)
			} else if d.fuseID != 0 {
				w.f.rfs.Forget(d.fuseID, d.nlookup)
			}
		}
		w.dirs = kept
	}
	if len(w.leaves) > 16 {
		kept := w.leaves[:0]
		spare := 3
		for _, n := range w.leaves {
			drop := n.nlink == 0
			if drop && spare > 0 {
				spare--
				drop = false
			}
			if !drop {
				kept = append(kept, n)
			} else if n.fuseID != 0 {
				w.f.rfs.Forget(n.fuseID, n.nlookup)
			}
		}
		w.leaves = kept
	}
}

// --- choosing --------------------------------------------------------------

func (w *c13) pickDir() *mNode {
	var live, dead []*mNode
	for _, d := range w.dirs {
		if d.deleted {
			dead = append(dead, d)
		} else {
			live = append(live, d)
		}
	}
	if len(live) == 0 || (len(dead) > 0 && w.t.Bool(1, 5)) {
		return pick(w.t, dead)
	}
	if w.f != nil && w.t.Bool(2, 3) {
		// Prefer the hierarchy the front end is mounted on.
		var mounted []*mNode
		for _, d := range live {
			if d.fs == 0 {
				mounted = append(mounted, d)
			}
		}
		if len(mounted) > 0 {
			return pick(w.t, mounted)
		}
	}
	return pick(w.t, live)
}

// pickDirWhere prefers directories satisfying pred (three times out of four).
func (w *c13) pickDirWhere(pred func(*mNode) bool) *mNode {
	var cands []*mNode
	for _, d := range w.dirs {
		if pred(d) {
			cands = append(cands, d)
		}
	}
	if len(cands) == 0 || w.t.Bool(1, 4) {
		return w.pickDir()
	}
	return pick(w.t, cands)
}

func nonEmpty(d *mNode) bool { return len(d.entries) > 0 || d.lazy != nil }

func isLazy(d *mNode) bool { return d.lazy != nil }

// pickName returns a name, preferring (if asked to) names that exist in d.
func (w *c13) pickName(d *mNode, preferExisting bool) string {
	if preferExisting && len(d.entries) > 0 && w.t.Bool(2, 3) {
		name := pick(w.t, d.entries).name
		if w.e.cfg.caseInsensitive && w.t.Bool(1, 4) {
			if up := strings.ToUpper(name); up != name {
				return up
			}
			return strings.ToLower(name)
		}
		return name
	}
	return pick(w.t, names)
}

func (w *c13) step() {
	t := w.t
	w.beginOp()
	if w.e.cfg.faults && t.Bool(1, 4) {
		w.e.armed = pick(t, []faultKind{faultFetch, faultAlloc, faultSymlink, faultTruncate, faultFetch})
	}
	w.ops++
	weights := []int{10, 10, 8, 6, 6, 14, 10, 12, 2, 4, 3, 2, 2, 2, 3, 3, 2, 6, 4, 2, 0}
	if w.f != nil {
		weights[20] = 3
		weights[7] = 18
	}
	kind := t.Weighted(weights)
	var d *mNode
	switch {
	case w.e.armed == faultFetch:
		d = w.pickDirWhere(isLazy)
	case kind == 0 || kind == 5 || kind == 6 || kind == 14 || kind == 15:
		d = w.pickDirWhere(nonEmpty)
	default:
		d = w.pickDir()
	}
	switch kind {
	case 0:
		w.opLookup(d, w.pickName(d, true))
	case 1:
		w.opOpen(d, w.pickName(d, t.Bool(1, 2)))
	case 2:
		w.opMkdir(d, w.pickName(d, false))
	case 3:
		w.opMknod(d, w.pickName(d, false))
	case 4:
		w.opLink(d, w.pickName(d, false))
	case 5:
		w.opRename(d)
	case 6:
		w.opVRemove(d, w.pickName(d, true))
	case 7:
		w.opReadDir()
	case 8:
		w.opGetAttributes(d)
	case 9:
		w.opWrite()
	case 10:
		w.opRead()
	case 11:
		w.opLookupChild(d, w.pickName(d, true))
	case 12:
		w.opLookupAll(d)
	case 13:
		w.opWReadDir(d)
	case 14:
		w.opWRemove(d, w.pickName(d, true))
	case 15:
		w.opRemoveAll(d, w.pickName(d, true))
	case 16:
		w.opRemoveAllChildren(d)
	case 17:
		w.opCreateChildren(d)
	case 18:
		w.opCreateAndEnter(d, w.pickName(d, t.Bool(1, 2)))
	case 19:
		w.opFilter(d)
	case 20:
		w.opForget()
	}
	w.endOp()
}

// --- comparing -------------------------------------------------------------

func (w *c13) expectStatus(op string, got, want virtual.Status) {
	w.result(op, stName(got))
	if got != want {
		w.fail("status", "returned %s, the reference hierarchy says %s", stName(got), stName(want))
	}
}

func (w *c13) expectErr(op string, got, want error) {
	w.result(op, errName(got))
	if got != want {
		w.fail("status", "returned error %s, the reference hierarchy says %s", errName(got), errName(want))
	}
}

func (w *c13) checkChild(child virtual.DirectoryChild, n *mNode) {
	dir, leaf := child.GetPair()
	if n.kind == kDir {
		if pd, ok := dir.(virtual.PrepopulatedDirectory); ok && n.dir == nil {
			n.dir = pd // first sight
		}
		if dir != virtual.Directory(n.dir) {
			w.fail("wrong-object", "the name resolves to a different object than the directory %s last put there (leaf=%v)", n, leaf != nil)
		}
	} else if leaf != virtual.Leaf(n.leaf) {
		w.fail("wrong-object", "the name resolves to a different object than the %s last put there (directory=%v)", n, dir != nil)
	}
}

func (w *c13) checkAttrs(a *virtual.Attributes, n *mNode, mask virtual.AttributesMask) {
	if ft := a.GetFileType(); ft != n.kind.fileType() {
		w.fail("attributes", "file type is %s, expected %s for %s", fileTypeNames[ft], kindNames[n.kind], n)
	}
	wantLinks := uint32(n.nlink)
	switch n.kind {
	case kDir:
		wantLinks = virtual.ImplicitDirectoryLinkCount
	case kSymlink:
		wantLinks = virtual.StatelessLeafLinkCount
	}
	if lc := a.GetLinkCount(); lc != wantLinks {
		w.fail("attributes", "link count of %s is %d, expected %d", n, lc, wantLinks)
	}
	if n.kind == kFile {
		if sz, ok := a.GetSizeBytes(); !ok || sz != uint64(len(n.data)) {
			w.fail("attributes", "size of %s is %d (present=%v), expected %d", n, sz, ok, len(n.data))
		}
		want := virtual.PermissionsRead | virtual.PermissionsWrite
		if n.exec {
			want |= virtual.PermissionsExecute
		}
		if p, ok := a.GetPermissions(); !ok || p != want {
			w.fail("attributes", "permissions of %s are %#o, expected %#o", n, p, want)
		}
	}
	if n.kind == kDir && mask&virtual.AttributesMaskChangeID != 0 && !n.fresh {
		if c := a.GetChangeID(); c != n.change && !w.lazyBefore[n] {
			w.fail("change-counter", "change counter of %s reported as %d through its parent, but it is %d", n, c, n.change)
		}
	}
}

func (w *c13) maskChoice() virtual.AttributesMask {
	if w.t.Bool(1, 2) {
		return baseMask | virtual.AttributesMaskChangeID
	}
	return baseMask
}

// --- kernel-facing operations ----------------------------------------------

func (w *c13) modelLookup(d *mNode, name string) (virtual.Status, *mEntry) {
	if !w.need(d) {
		return virtual.StatusErrIO, nil
	}
	if en := w.find(d, name); en != nil {
		return virtual.StatusOK, en
	}
	return virtual.StatusErrNoEnt, nil
}

func (w *c13) opLookup(d *mNode, name string) {
	mask := w.maskChoice()
	if fd := w.fuseDir(d); fd != 0 {
		w.fuseLookup(d, fd, name)
		return
	}
	w.logOp("VirtualLookup(%s, %q, changeID=%v)", d, name, mask&virtual.AttributesMaskChangeID != 0)
	var out virtual.Attributes
	child, st := d.dir.VirtualLookup(ctx, comp(name), mask, &out)
	w.adopt()
	want, en := w.modelLookup(d, name)
	w.expectStatus("VirtualLookup", st, want)
	if st == virtual.StatusOK {
		w.checkChild(child, en.node)
		w.checkAttrs(&out, en.node, mask)
	}
}

// modelOpen is open(2) with O_CREAT (create), without O_EXCL (existing != nil)
// and O_TRUNC.
func (w *c13) modelOpen(d *mNode, name string, create bool, existing *virtual.OpenExistingOptions, exec bool, size int, perms bool) (virtual.Status, virtual.AttributesMask, *mNode, bool) {
	want := virtual.StatusOK
	var wantRespected virtual.AttributesMask
	var node *mNode
	created := false
	if !w.need(d) {
		want = virtual.StatusErrIO
	} else if en := w.find(d, name); en != nil {
		node = en.node
		switch {
		case existing == nil:
			want = virtual.StatusErrExist
		case node.kind == kDir:
			want = virtual.StatusErrIsDir
		case node.kind != kFile:
			want = virtual.StatusErrSymlink
		case existing.Truncate && w.e.armed == faultTruncate:
			want = virtual.StatusErrIO
		default:
			wantRespected = existing.ToAttributesMask()
			if existing.Truncate {
				node.data = nil
				w.k.Probe("c13_open_truncate")
			}
		}
	} else {
		switch {
		case d.deleted || !create:
			want = virtual.StatusErrNoEnt
		case w.e.armed == faultAlloc:
			want = virtual.StatusErrIO
		default:
			created = true
			node = w.newLeaf(kFile, nil)
			node.exec = exec
			if size > 0 {
				node.data = make([]byte, size)
			}
			w.attach(d, name, node)
			if perms {
				wantRespected |= virtual.AttributesMaskPermissions
			}
			if size >= 0 {
				wantRespected |= virtual.AttributesMaskSizeBytes
			}
		}
	}
	return want, wantRespected, node, created
}

func (w *c13) opOpen(d *mNode, name string) {
	t := w.t
	share := pick(t, []virtual.ShareMask{virtual.ShareMaskRead, virtual.ShareMaskWrite, virtual.ShareMaskRead | virtual.ShareMaskWrite})
	var create *virtual.Attributes
	var existing *virtual.OpenExistingOptions
	exec, size, perms := false, -1, false
	mode := t.Choice(4)
	if mode != 2 && (mode != 3 || t.Bool(1, 2)) {
		create = &virtual.Attributes{}
		if perms = t.Bool(2, 3); perms {
			exec = t.Bool(1, 3)
			p := virtual.PermissionsRead | virtual.PermissionsWrite
			if exec {
				p |= virtual.PermissionsExecute
			}
			create.SetPermissions(p)
		}
		if size = pick(t, []int{-1, 0, 5}); size >= 0 {
			create.SetSizeBytes(uint64(size))
		}
	}
	if mode != 1 {
		existing = &virtual.OpenExistingOptions{Truncate: mode == 3}
	}
	if fd := w.fuseDir(d); fd != 0 {
		w.fuseOpen(d, fd, name, share, create != nil, existing, perms && exec)
		return
	}
	w.logOp("VirtualOpenChild(%s, %q, create=%v(exec=%v size=%d) existing=%v truncate=%v)", d, name, create != nil, exec, size, existing != nil, mode == 3)
	var out virtual.Attributes
	leaf, respected, ci, st := d.dir.VirtualOpenChild(ctx, comp(name), share, create, existing, baseMask, &out)
	w.adopt()

	want, wantRespected, node, created := w.modelOpen(d, name, create != nil, existing, exec, size, perms)
	w.expectStatus("VirtualOpenChild", st, want)
	if st != virtual.StatusOK {
		return
	}
	if created {
		ll, ok := leaf.(virtual.LinkableLeaf)
		if !ok {
			w.fail("wrong-object", "created file is not a linkable leaf")
		}
		node.leaf = ll
	} else if leaf != virtual.Leaf(node.leaf) {
		w.fail("wrong-object", "opened a different object than the %s last put there", node)
	}
	if respected != wantRespected {
		w.fail("attributes", "respected attributes mask is %#x, expected %#x", respected, wantRespected)
	}
	w.checkAttrs(&out, node, baseMask)
	w.ci = append(w.ci, ciCheck{"the", d, ci})
	leaf.VirtualClose(share)
}

func (w *c13) modelMkdir(d *mNode, name string) (virtual.Status, *mNode) {
	switch {
	case !w.need(d):
		return virtual.StatusErrIO, nil
	case d.deleted:
		w.k.Probe("c13_create_in_removed_directory_refused")
		return virtual.StatusErrNoEnt, nil
	case w.find(d, name) != nil:
		return virtual.StatusErrExist, nil
	}
	node := w.newDir(d.fs, nil, nil)
	w.attach(d, name, node)
	return virtual.StatusOK, node
}

func (w *c13) opMkdir(d *mNode, name string) {
	if fd := w.fuseDir(d); fd != 0 {
		w.fuseMkdir(d, fd, name)
		return
	}
	w.logOp("VirtualMkdir(%s, %q)", d, name)
	var out virtual.Attributes
	dir, ci, st := d.dir.VirtualMkdir(ctx, comp(name), &virtual.Attributes{}, baseMask|virtual.AttributesMaskChangeID, &out)
	w.adopt()
	want, node := w.modelMkdir(d, name)
	w.expectStatus("VirtualMkdir", st, want)
	if st != virtual.StatusOK {
		return
	}
	pd, ok := dir.(virtual.PrepopulatedDirectory)
	if !ok {
		w.fail("wrong-object", "created directory has an unexpected type")
	}
	node.dir = pd
	w.checkAttrs(&out, node, baseMask)
	w.ci = append(w.ci, ciCheck{"the", d, ci})
}

func (w *c13) modelMknod(d *mNode, name string, ft filesystem.FileType, target string) (virtual.Status, *mNode) {
	want := virtual.StatusOK
	var node *mNode
	switch {
	case !w.need(d):
		want = virtual.StatusErrIO
	case d.deleted:
		want = virtual.StatusErrNoEnt
	case w.find(d, name) != nil:
		want = virtual.StatusErrExist
	case ft == filesystem.FileTypeFIFO:
		node = w.newLeaf(kFifo, nil)
	case ft == filesystem.FileTypeSocket:
		node = w.newLeaf(kSocket, nil)
	case ft == filesystem.FileTypeSymlink:
		if w.e.armed == faultSymlink {
			want = virtual.StatusErrIO
		} else {
			node = w.newLeaf(kSymlink, nil)
			node.target = target
		}
	default:
		want = virtual.StatusErrPerm
	}
	if node != nil {
		w.attach(d, name, node)
	}
	return want, node
}

func (w *c13) opMknod(d *mNode, name string) {
	ft := pick(w.t, []filesystem.FileType{filesystem.FileTypeSymlink, filesystem.FileTypeFIFO, filesystem.FileTypeSymlink, filesystem.FileTypeSocket, filesystem.FileTypeBlockDevice, filesystem.FileTypeCharacterDevice})
	attrs := (&virtual.Attributes{}).SetFileType(ft)
	target := ""
	if ft == filesystem.FileTypeSymlink {
		target = w.e.newTarget()
		attrs.SetSymlinkTarget(path.UNIXFormat.NewParser(target))
	}
	if fd := w.fuseDir(d); fd != 0 {
		w.fuseMknod(d, fd, name, ft, target)
		return
	}
	w.logOp("VirtualMknod(%s, %q, %s %s)", d, name, fileTypeNames[ft], target)
	var out virtual.Attributes
	leaf, ci, st := d.dir.VirtualMknod(ctx, comp(name), attrs, baseMask, &out)
	w.adopt()
	want, node := w.modelMknod(d, name, ft, target)
	w.expectStatus("VirtualMknod", st, want)
	if st != virtual.StatusOK {
		return
	}
	ll, ok := leaf.(virtual.LinkableLeaf)
	if !ok {
		w.fail("wrong-object", "created node is not a linkable leaf")
	}
	node.leaf = ll
	w.checkAttrs(&out, node, baseMask)
	w.ci = append(w.ci, ciCheck{"the", d, ci})
}

// plainLeaf is a leaf of a kind that cannot be linked into the tree.
type plainLeaf struct{ virtual.Leaf }

func (w *c13) modelLink(d *mNode, name string, n *mNode) virtual.Status {
	switch {
	case !w.need(d):
		return virtual.StatusErrIO
	case d.deleted:
		return virtual.StatusErrNoEnt
	case w.find(d, name) != nil:
		return virtual.StatusErrExist
	case n.nlink == 0:
		w.k.Probe("c13_link_of_removed_file_refused")
		return virtual.StatusErrStale
	}
	n.nlink++
	w.attach(d, name, n)
	if n.nlink > 1 {
		w.k.Probe("c13_hard_link_created")
	}
	return virtual.StatusOK
}

func (w *c13) opLink(d *mNode, name string) {
	var cands []*mNode
	for _, n := range w.leaves {
		// Whether a removed symbolic link can be linked again is
		// not something a POSIX hierarchy has an opinion about.
		if n.leaf != nil && (n.nlink > 0 || n.kind != kSymlink) {
			cands = append(cands, n)
		}
	}
	if len(cands) == 0 || w.t.Bool(1, 20) {
		w.logOp("VirtualLink(%s, %q, <leaf of a foreign kind>)", d, name)
		var out virtual.Attributes
		_, st := d.dir.VirtualLink(ctx, comp(name), plainLeaf{}, baseMask, &out)
		w.adopt()
		w.expectStatus("VirtualLink", st, virtual.StatusErrXDev)
		return
	}
	n := pick(w.t, cands)
	if fd := w.fuseDir(d); fd != 0 && n.fuseID != 0 {
		w.fuseLink(d, fd, name, n)
		return
	}
	w.logOp("VirtualLink(%s, %q, %s)", d, name, n)
	var out virtual.Attributes
	ci, st := d.dir.VirtualLink(ctx, comp(name), n.leaf, baseMask, &out)
	w.adopt()
	want := w.modelLink(d, name, n)
	w.expectStatus("VirtualLink", st, want)
	if st == virtual.StatusOK {
		w.checkAttrs(&out, n, baseMask)
		w.ci = append(w.ci, ciCheck{"the", d, ci})
	}
}

func (w *c13) modelRename(dOld *mNode, oldName string, dNew *mNode, newName string) virtual.Status {
	want := virtual.StatusOK
	kase := ""
	if !w.need(dOld) || !w.need(dNew) {
		want, kase = virtual.StatusErrIO, "fetch-failed"
	} else if newEn := w.find(dNew, newName); newEn != nil {
		oldEn := w.find(dOld, oldName)
		switch {
		case oldEn == nil:
			want, kase = virtual.StatusErrNoEnt, "no-source"
		case newEn.node.kind == kDir:
			switch {
			case oldEn.node.kind != kDir:
				want, kase = virtual.StatusErrIsDir, "leaf-onto-directory"
			case oldEn.node == newEn.node:
				kase = "directory-onto-itself"
			case dOld.fs != dNew.fs:
				want, kase = virtual.StatusErrXDev, "cross-device"
			case !w.need(newEn.node):
				want, kase = virtual.StatusErrIO, "fetch-failed"
			case !w.deletable(newEn.node):
				want, kase = virtual.StatusErrNotEmpty, "directory-onto-non-empty-directory"
			default:
				kase = "directory-onto-empty-directory"
				moved := oldEn.node
				w.detach(dOld, oldEn)
				w.detach(dNew, newEn)
				w.markDeleted(newEn.node)
				w.attach(dNew, newName, moved)
			}
		default:
			switch {
			case oldEn.node.kind == kDir:
				want, kase = virtual.StatusErrNotDir, "directory-onto-leaf"
			case oldEn.node == newEn.node:
				kase = "leaf-onto-its-own-link"
				if oldEn != newEn {
					kase = "leaf-onto-other-link-of-same-file"
				}
			default:
				kase = "leaf-onto-leaf"
				moved := oldEn.node
				w.detach(dOld, oldEn)
				w.detach(dNew, newEn)
				w.unlink(newEn.node)
				w.attach(dNew, newName, moved)
			}
		}
	} else {
		oldEn := w.find(dOld, oldName)
		switch {
		case dNew.deleted:
			want, kase = virtual.StatusErrNoEnt, "into-removed-directory"
		case oldEn == nil:
			want, kase = virtual.StatusErrNoEnt, "no-source"
		case oldEn.node.kind == kDir && dOld.fs != dNew.fs:
			want, kase = virtual.StatusErrXDev, "cross-device"
		default:
			kase = "to-free-name"
			if dOld != dNew {
				kase = "to-free-name-in-other-directory"
			}
			moved := oldEn.node
			w.detach(dOld, oldEn)
			w.attach(dNew, newName, moved)
		}
	}
	w.k.Probe("c13_rename:" + kase)
	return want
}

func (w *c13) opRename(dOld *mNode) {
	t := w.t
	oldName := w.pickName(dOld, true)
	dNew := dOld
	if t.Bool(1, 2) {
		dNew = w.pickDir()
	}
	newName := w.pickName(dNew, t.Bool(1, 2))
	// POSIX forbids moving a directory into itself; the code under test
	// documents that it does not check this (TODO in VirtualRename), so
	// such requests are not issued.
	if dOld.lazy == nil {
		if en := w.find(dOld, oldName); en != nil && en.node.kind == kDir && w.isBelow(dNew, en.node) {
			w.k.Probe("c13_rename_into_own_subtree_not_issued")
			w.opLookup(dOld, oldName)
			return
		}
	}
	if fo, fn := w.fuseDir(dOld), w.fuseDir(dNew); fo != 0 && fn != 0 {
		w.fuseRename(dOld, fo, oldName, dNew, fn, newName)
		return
	}
	w.logOp("VirtualRename(%s, %q -> %s, %q)", dOld, oldName, dNew, newName)
	ciOld, ciNew, st := dOld.dir.VirtualRename(ctx, comp(oldName), dNew.dir, comp(newName))
	w.adopt()

	want := w.modelRename(dOld, oldName, dNew, newName)
	w.expectStatus("VirtualRename", st, want)
	if st == virtual.StatusOK {
		w.ci = append(w.ci, ciCheck{"the source", dOld, ciOld}, ciCheck{"the target", dNew, ciNew})
	}
}

func (w *c13) modelVRemove(d *mNode, name string, flags [2]bool) virtual.Status {
	want := virtual.StatusOK
	if !w.need(d) {
		want = virtual.StatusErrIO
	} else if en := w.find(d, name); en == nil {
		want = virtual.StatusErrNoEnt
	} else if en.node.kind == kDir {
		switch {
		case !flags[0]:
			want = virtual.StatusErrPerm
		case !w.need(en.node):
			want = virtual.StatusErrIO
		case !w.deletable(en.node):
			want = virtual.StatusErrNotEmpty
		default:
			if len(en.node.entries) > 0 {
				w.k.Probe("c13_rmdir_with_hidden_files")
			}
			w.markDeleted(en.node)
			w.detach(d, en)
		}
	} else if !flags[1] {
		want = virtual.StatusErrNotDir
	} else {
		w.unlink(en.node)
		w.detach(d, en)
	}
	return want
}

func (w *c13) opVRemove(d *mNode, name string) {
	flags := pick(w.t, [][2]bool{{true, true}, {true, false}, {false, true}, {true, true}})
	if fd := w.fuseDir(d); fd != 0 && flags[0] != flags[1] {
		w.fuseRemove(d, fd, name, flags)
		return
	}
	w.logOp("VirtualRemove(%s, %q, removeDirectory=%v removeLeaf=%v)", d, name, flags[0], flags[1])
	ci, st := d.dir.VirtualRemove(ctx, comp(name), flags[0], flags[1])
	w.adopt()
	want := w.modelVRemove(d, name, flags)
	w.expectStatus("VirtualRemove", st, want)
	if st == virtual.StatusOK {
		w.ci = append(w.ci, ciCheck{"the", d, ci})
	}
}

func (w *c13) opGetAttributes(d *mNode) {
	if fd := w.fuseDir(d); fd != 0 {
		w.fuseGetAttr(d, fd)
		return
	}
	w.logOp("VirtualGetAttributes(%s)", d)
	var out virtual.Attributes
	d.dir.VirtualGetAttributes(ctx, baseMask|virtual.AttributesMaskChangeID, &out)
	w.adopt()
	w.result("VirtualGetAttributes", "OK")
	w.checkAttrs(&out, d, baseMask|virtual.AttributesMaskChangeID)
}

// --- paginated listings ------------------------------------------------------

type reported struct {
	cookie uint64
	name   string
	child  virtual.DirectoryChild
	ft     filesystem.FileType
	change uint64
	// FUSE pages only.
	ino   uint64
	entry *fuse.EntryOut
}

type pageReporter struct {
	max       int
	mask      virtual.AttributesMask
	got       []reported
	truncated bool
}

func (r *pageReporter) ReportEntry(nextCookie uint64, name path.Component, child virtual.DirectoryChild, attributes *virtual.Attributes) bool {
	if len(r.got) >= r.max {
		r.truncated = true
		return false
	}
	rep := reported{cookie: nextCookie, name: name.String(), child: child, ft: attributes.GetFileType()}
	if d, _ := child.GetPair(); d != nil && r.mask&virtual.AttributesMaskChangeID != 0 {
		rep.change = attributes.GetChangeID()
	}
	r.got = append(r.got, rep)
	return true
}

func containsInt(xs []int, x int) bool {
	for _, y := range xs {
		if x == y {
			return true
		}
	}
	return false
}

func (w *c13) opReadDir() {
	t := w.t
	var s *session
	isNew := false
	recIdx := 0
	if len(w.sessions) > 0 && !(len(w.sessions) < 3 && t.Bool(1, 4)) {
		s = pick(t, w.sessions)
		recIdx = len(s.recs) - 1
		if t.Bool(1, 4) {
			// Resume from any cookie returned earlier.
			if len(s.recs) > 1 {
				recIdx = 1 + t.Choice(len(s.recs)-1)
			}
			if recIdx != len(s.recs)-1 {
				w.k.Probe("c13_listing_resumed_from_older_cookie")
			}
		}
	} else {
		isNew = true
		w.sessSeq++
		s = &session{id: w.sessSeq, d: w.pickDirWhere(func(d *mNode) bool { return len(d.entries) >= 2 }), page: 1 + t.Choice(3), mask: w.maskChoice(), alive: map[int]string{}}
		s.recs = []cookieRec{{}}
		if w.fuseDir(s.d) != 0 {
			s.fuse, s.plus = true, t.Bool(1, 2)
			s.page = pick(t, []int{1, 2, 3, 1, 2, 40})
		}
	}
	rec := s.recs[recIdx]
	d := s.d
	rep := &pageReporter{max: s.page, mask: s.mask}
	if s.fuse {
		w.logOp("FUSE ReadDir(%s, offset=%d, buffer for %d entries, plus=%v) [listing %d, %d pages so far]", d, rec.cookie, s.page, s.plus, s.id, s.pages)
		list, st := w.fusePage(s, rec.cookie)
		w.adopt()
		// A reply buffer that "." and ".." fill up can be produced
		// without looking at the directory.
		pseudo := 0
		if rec.cookie < 2 {
			pseudo = 2 - int(rec.cookie)
		}
		if d.lazy != nil && pseudo >= s.page && st == fuse.OK {
			w.k.Probe("c13_fuse_page_of_dot_entries_only")
		} else if !w.need(d) {
			w.expectErrno("ReadDir", st, virtual.StatusErrIO)
			return
		}
		w.expectErrno("ReadDir", st, virtual.StatusOK)
		rep.got, rep.truncated = list.got, list.truncated
		if isNew {
			s.alive[eidDot], s.alive[eidDotDot] = ".", ".."
		}
	} else {
		w.logOp("VirtualReadDir(%s, cookie=%d, page of %d, changeID=%v) [listing %d, %d pages so far]", d, rec.cookie, s.page, s.mask&virtual.AttributesMaskChangeID != 0, s.id, s.pages)
		st := d.dir.VirtualReadDir(ctx, rec.cookie, s.mask, rep)
		w.adopt()
		if !w.need(d) {
			w.expectStatus("VirtualReadDir", st, virtual.StatusErrIO)
			return
		}
		w.expectStatus("VirtualReadDir", st, virtual.StatusOK)
	}
	if isNew {
		for _, en := range d.entries {
			if w.listed(en) {
				s.alive[en.eid] = en.name
			}
		}
		w.sessions = append(w.sessions, s)
	}
	seen := append([]int(nil), rec.seen...)
	lastOffset := rec.cookie
	for _, r := range rep.got {
		if s.fuse {
			// The kernel resumes a listing at the offset of the last
			// entry it consumed, so offsets have to increase.
			if r.cookie <= lastOffset {
				w.fail("readdir-duplicate", "the listing of %s resumed at offset %d reports %q with offset %d after offset %d: offsets must increase", d, rec.cookie, r.name, r.cookie, lastOffset)
			}
			lastOffset = r.cookie
			if r.name == "." || r.name == ".." {
				eid := eidDot
				if r.name == ".." {
					eid = eidDotDot
				}
				if r.ft != filesystem.FileTypeDirectory {
					w.fail("attributes", "the listing reports %q as %s", r.name, fileTypeNames[r.ft])
				}
				if containsInt(seen, eid) {
					w.fail("readdir-duplicate", "the listing of %s resumed at offset %d reports %q although the pages leading to that offset had reported it already", d, rec.cookie, r.name)
				}
				seen = append(seen, eid)
				s.recs = append(s.recs, cookieRec{cookie: r.cookie, seen: append([]int(nil), seen...)})
				continue
			}
		}
		en := w.find(d, r.name)
		if en == nil || en.name != r.name || !w.listed(en) {
			w.fail("readdir-phantom", "the listing reports %q, which does not exist (or is hidden) in %s", r.name, d)
		}
		if s.fuse {
			if ino := w.inoOf(en.node); ino == 0 {
				en.node.ino = r.ino // first sight; verified when the object gets bound
			} else if r.ino != ino {
				w.fail("wrong-object", "the listing reports %q with inode number %d, but the %s last put there has %d", r.name, r.ino, en.node, ino)
			}
			if r.entry != nil {
				w.fuseEntry(r.entry, en.node, "the READDIRPLUS entry of "+r.name)
			}
		} else {
			w.checkChild(r.child, en.node)
		}
		if r.ft != en.node.kind.fileType() {
			w.fail("attributes", "the listing reports %q as %s, expected %s", r.name, fileTypeNames[r.ft], kindNames[en.node.kind])
		}
		if !s.fuse && en.node.kind == kDir && s.mask&virtual.AttributesMaskChangeID != 0 && !en.node.fresh && !w.lazyBefore[en.node] && r.change != en.node.change {
			w.fail("change-counter", "the listing reports change counter %d for %s, but it is %d", r.change, en.node, en.node.change)
		}
		if containsInt(seen, en.eid) {
			w.fail("readdir-duplicate", "the listing of %s resumed from cookie %d reports %q although the pages leading to that cookie had reported it already", d, rec.cookie, r.name)
		}
		seen = append(seen, en.eid)
		s.recs = append(s.recs, cookieRec{cookie: r.cookie, seen: append([]int(nil), seen...)})
	}
	w.k.Annotate("  page: %d entries, truncated=%v", len(rep.got), rep.truncated)
	s.pages++
	if !rep.truncated {
		// The listing reached the end: everything that existed all
		// the time has to have been reported.
		var missing []string
		for eid, name := range s.alive {
			if !containsInt(seen, eid) {
				missing = append(missing, name)
			}
		}
		if len(missing) > 0 {
			sort.Strings(missing)
			w.fail("readdir-missing", "the listing of %s reached the end after %d pages without ever reporting %q, which existed from the first page to the last", d, s.pages, missing)
		}
		w.k.Probe("c13_listing_completed")
		if s.pages > 1 {
			w.k.Probe("c13_listing_completed_multi_page")
			if s.mutated {
				w.k.Probe("c13_listing_completed_with_mutation_between_pages")
			}
		}
		w.dropSession(s)
	} else if s.pages >= 10 {
		w.dropSession(s)
	}
}

func (w *c13) dropSession(s *session) {
	for i, x := range w.sessions {
		if x == s {
			w.sessions = append(w.sessions[:i:i], w.sessions[i+1:]...)
			return
		}
	}
}

// --- file contents -------------------------------------------------------------

func (w *c13) liveFile() *mNode {
	var cands []*mNode
	for _, n := range w.leaves {
		if n.kind == kFile && n.nlink > 0 && n.leaf != nil {
			cands = append(cands, n)
		}
	}
	if len(cands) == 0 {
		return nil
	}
	return pick(w.t, cands)
}

func (w *c13) opWrite() {
	n := w.liveFile()
	if n == nil {
		w.opGetAttributes(w.pickDir())
		return
	}
	w.writeSeq++
	token := []byte(fmt.Sprintf("<%d>", w.writeSeq))
	off := len(n.data)
	if off > 40 || w.t.Bool(1, 3) {
		off = 0
	}
	if n.fuseID != 0 && w.f != nil {
		w.logOp("FUSE Open+Write+Release %q at offset %d of %s", token, off, n)
		w.fuseWrite(n, token, off)
		if end := off + len(token); end > len(n.data) {
			n.data = append(n.data, make([]byte, end-len(n.data))...)
		}
		copy(n.data[off:], token)
		return
	}
	w.logOp("write %q at offset %d of %s", token, off, n)
	var out virtual.Attributes
	if st := n.leaf.VirtualOpenSelf(ctx, virtual.ShareMaskWrite, &virtual.OpenExistingOptions{}, baseMask, &out); st != virtual.StatusOK {
		w.fail("status", "VirtualOpenSelf of a linked regular file returned %s", stName(st))
	}
	nw, st := n.leaf.VirtualWrite(ctx, token, uint64(off))
	n.leaf.VirtualClose(virtual.ShareMaskWrite)
	w.result("write", stName(st))
	if st != virtual.StatusOK || nw != len(token) {
		w.fail("status", "VirtualWrite returned %d, %s", nw, stName(st))
	}
	if end := off + len(token); end > len(n.data) {
		n.data = append(n.data, make([]byte, end-len(n.data))...)
	}
	copy(n.data[off:], token)
}

func (w *c13) opRead() {
	n := w.liveFile()
	if n == nil {
		w.opGetAttributes(w.pickDir())
		return
	}
	if n.fuseID != 0 && w.f != nil {
		w.logOp("FUSE Open+Read+Release %s", n)
		w.fuseRead(n)
		return
	}
	w.logOp("read %s", n)
	w.checkData(n)
	w.result("read", "OK")
}

func (w *c13) checkData(n *mNode) {
	buf := make([]byte, 128)
	nr, eof, st := n.leaf.VirtualRead(ctx, buf, 0)
	if st != virtual.StatusOK || !eof || !bytes.Equal(buf[:nr], n.data) {
		w.fail("file-contents", "%s reads back %q (eof=%v, %s), expected %q; all its links must show what was last written through any of them", n, buf[:nr], eof, stName(st), n.data)
	}
	if n.nlink > 1 {
		w.k.Probe("c13_hard_linked_file_contents_compared")
	}
}

// --- worker-facing operations ------------------------------------------------

func (w *c13) opLookupChild(d *mNode, name string) {
	w.logOp("LookupChild(%s, %q)", d, name)
	child, err := d.dir.LookupChild(comp(name))
	w.adopt()
	var want error
	var en *mEntry
	if !w.need(d) {
		want = errFetch
	} else if en = w.find(d, name); en == nil {
		want = syscall.ENOENT
	}
	w.expectErr("LookupChild", err, want)
	if err == nil {
		dir, leaf := child.GetPair()
		if en.node.kind == kDir && en.node.dir == nil {
			en.node.dir = dir // first sight
		}
		if en.node.kind == kDir && dir != en.node.dir || en.node.kind != kDir && leaf != en.node.leaf {
			w.fail("wrong-object", "the name resolves to a different object than the %s last put there", en.node)
		}
	}
}

func (w *c13) compareLookupAll(d *mNode) {
	w.bindUnbound()
	dirs, leaves, err := d.dir.LookupAllChildren()
	if err != nil {
		w.fail("status", "LookupAllChildren(%s) returned %v", d, err)
	}
	wantDirs := w.sortedEntries(d, func(en *mEntry) bool { return en.node.kind == kDir })
	wantLeaves := w.sortedEntries(d, func(en *mEntry) bool { return en.node.kind != kDir && w.listed(en) })
	var gotNames, wantNames []string
	ok := len(dirs) == len(wantDirs) && len(leaves) == len(wantLeaves)
	for _, x := range dirs {
		gotNames = append(gotNames, x.Name.String()+"/")
	}
	for _, x := range leaves {
		gotNames = append(gotNames, x.Name.String())
	}
	for _, x := range wantDirs {
		wantNames = append(wantNames, x.name+"/")
	}
	for _, x := range wantLeaves {
		wantNames = append(wantNames, x.name)
	}
	if ok {
		for i, x := range dirs {
			ok = ok && x.Name.String() == wantDirs[i].name && x.Child == wantDirs[i].node.dir
		}
		for i, x := range leaves {
			ok = ok && x.Name.String() == wantLeaves[i].name && x.Child == wantLeaves[i].node.leaf
		}
	}
	if !ok {
		w.fail("contents", "LookupAllChildren(%s) returns %q, the reference hierarchy holds %q (or the same names resolve to other objects)", d, gotNames, wantNames)
	}
}

func (w *c13) opLookupAll(d *mNode) {
	w.logOp("LookupAllChildren(%s)", d)
	if d.lazy != nil && w.e.armed == faultFetch {
		_, _, err := d.dir.LookupAllChildren()
		w.expectErr("LookupAllChildren", err, errFetch)
		return
	}
	// The call is made by compareLookupAll, after which a lazy
	// directory has been materialised.
	if d.lazy != nil {
		_, _, err := d.dir.LookupAllChildren()
		w.adopt()
		if err != nil || !w.need(d) {
			w.fail("status", "LookupAllChildren returned %v", err)
		}
	}
	w.compareLookupAll(d)
	w.result("LookupAllChildren", "nil")
}

func (w *c13) compareWReadDir(d *mNode) {
	infos, err := d.dir.ReadDir()
	if err != nil {
		w.fail("status", "ReadDir(%s) returned %v", d, err)
	}
	want := w.sortedEntries(d, w.listed)
	var got, wantS []string
	for _, fi := range infos {
		got = append(got, fmt.Sprintf("%s:%s:x=%v", fi.Name(), fileTypeNames[fi.Type()], fi.IsExecutable()))
	}
	for _, en := range want {
		n := en.node
		x := n.kind == kFile && n.exec || n.kind == kSymlink
		wantS = append(wantS, fmt.Sprintf("%s:%s:x=%v", en.name, kindNames[n.kind], x))
	}
	if strings.Join(got, " ") != strings.Join(wantS, " ") {
		w.fail("contents", "ReadDir(%s) returns %q, the reference hierarchy holds %q", d, got, wantS)
	}
}

func (w *c13) opWReadDir(d *mNode) {
	w.logOp("ReadDir(%s)", d)
	if d.lazy != nil {
		_, err := d.dir.ReadDir()
		w.adopt()
		if w.e.armed == faultFetch {
			w.expectErr("ReadDir", err, errFetch)
			return
		}
		if err != nil || !w.need(d) {
			w.fail("status", "ReadDir returned %v", err)
		}
	}
	w.compareWReadDir(d)
	w.result("ReadDir", "nil")
}

// modelRemove is Remove(): unlink a leaf or remove an empty directory.
func (w *c13) modelRemove(d *mNode, name string) error {
	if !w.need(d) {
		return errFetch
	}
	en := w.find(d, name)
	if en == nil {
		return syscall.ENOENT
	}
	if en.node.kind == kDir {
		if !w.need(en.node) {
			return errFetch
		}
		if !w.deletable(en.node) {
			return syscall.ENOTEMPTY
		}
		w.markDeleted(en.node)
	} else {
		w.unlink(en.node)
	}
	w.detach(d, en)
	return nil
}

func (w *c13) opWRemove(d *mNode, name string) {
	w.logOp("Remove(%s, %q)", d, name)
	err := d.dir.Remove(comp(name))
	w.adopt()
	w.expectErr("Remove", err, w.modelRemove(d, name))
}

func (w *c13) opRemoveAll(d *mNode, name string) {
	w.logOp("RemoveAll(%s, %q)", d, name)
	err := d.dir.RemoveAll(comp(name))
	w.adopt()
	var want error
	if !w.need(d) {
		want = errFetch
	} else if en := w.find(d, name); en == nil {
		want = syscall.ENOENT
	} else {
		if en.node.kind == kDir && len(en.node.entries) > 0 {
			w.k.Probe("c13_removeall_of_non_empty_subtree")
		}
		w.detach(d, en)
		w.removeNode(en.node)
	}
	w.expectErr("RemoveAll", err, want)
}

func (w *c13) opRemoveAllChildren(d *mNode) {
	deleteSelf := w.t.Bool(1, 3)
	if d.id <= 2 && deleteSelf && w.t.Bool(2, 3) {
		deleteSelf = false // keep the roots most of the time
	}
	w.logOp("RemoveAllChildren(%s, forbidNewChildren=%v)", d, deleteSelf)
	err := d.dir.RemoveAllChildren(deleteSelf)
	w.adopt()
	w.removeChildren(d, deleteSelf)
	w.expectErr("RemoveAllChildren", err, nil)
}

func (w *c13) newSpec(depth int) *lazySpec {
	t := w.t
	w.e.specSeq++
	spec := &lazySpec{id: w.e.specSeq}
	n := t.Choice(4)
	used := map[string]bool{}
	for i := 0; i < n; i++ {
		name := pick(t, names)
		if used[strings.ToLower(name)] {
			continue
		}
		used[strings.ToLower(name)] = true
		c := &lazyChild{name: name}
		switch k := t.Weighted([]int{4, 2, 2, 3}); {
		case k == 3 && depth < 2:
			c.sub = w.newSpec(depth + 1)
		case k == 2:
			c.kind, c.target = lkSymlink, w.e.newTarget()
		case k == 1:
			c.kind, c.size = lkExecFile, 3
		default:
			c.kind, c.size = lkFile, t.Choice(2)*4
		}
		spec.children = append(spec.children, c)
	}
	return spec
}

func (s *lazySpec) String() string {
	var parts []string
	for _, c := range s.children {
		switch {
		case c.sub != nil:
			parts = append(parts, c.name+"/"+c.sub.String())
		case c.kind == lkSymlink:
			parts = append(parts, c.name+"@")
		case c.kind == lkExecFile:
			parts = append(parts, c.name+"*")
		default:
			parts = append(parts, c.name)
		}
	}
	return "{" + strings.Join(parts, " ") + "}"
}

func (w *c13) opCreateChildren(d *mNode) {
	overwrite := w.t.Bool(1, 2)
	spec := w.newSpec(0)
	w.logOp("CreateChildren(%s, %s, overwrite=%v)", d, spec, overwrite)
	children, _ := w.e.buildChildren(spec)
	err := d.dir.CreateChildren(children, overwrite)
	w.adopt()
	var want error
	if !w.need(d) {
		want = errFetch
	} else if d.deleted {
		want = syscall.ENOENT
	} else {
		if !overwrite {
			for _, c := range spec.children {
				if w.find(d, c.name) != nil {
					want = syscall.EEXIST
				}
			}
		}
		if want == nil {
			for _, c := range spec.children {
				if en := w.find(d, c.name); en != nil {
					w.k.Probe("c13_createchildren_overwrote_entry")
					w.detach(d, en)
					w.removeNode(en.node)
				}
			}
			for _, c := range spec.children {
				if c.sub != nil {
					w.attach(d, c.name, w.newDir(d.fs, c.sub, nil))
				} else {
					w.attach(d, c.name, w.leafFromSpec(c))
				}
			}
		}
	}
	w.expectErr("CreateChildren", err, want)
	if err != nil {
		// The caller keeps ownership of what was not taken.
		for _, c := range spec.children {
			if c.leaf != nil {
				c.leaf.Unlink()
			}
		}
	}
}

func (w *c13) opCreateAndEnter(d *mNode, name string) {
	if w.e.avoidKnown && d.deleted {
		w.k.Probe("c13_known_defect_avoided")
		w.opLookupChild(d, name)
		return
	}
	w.logOp("CreateAndEnterPrepopulatedDirectory(%s, %q)", d, name)
	child, err := d.dir.CreateAndEnterPrepopulatedDirectory(comp(name))
	w.adopt()
	var want error
	var node *mNode
	if !w.need(d) {
		want = errFetch
	} else if en := w.find(d, name); en != nil {
		if en.node.kind == kDir {
			node = en.node
		} else {
			w.k.Probe("c13_createandenter_replaced_leaf")
			w.detach(d, en)
			w.unlink(en.node)
			node = w.newDir(d.fs, nil, nil)
			w.attach(d, name, node)
		}
	} else if d.deleted {
		want = syscall.ENOENT
		w.k.Probe("c13_createandenter_in_removed_directory")
	} else {
		node = w.newDir(d.fs, nil, nil)
		w.attach(d, name, node)
	}
	w.expectErr("CreateAndEnterPrepopulatedDirectory", err, want)
	if err == nil {
		if node.dir == nil {
			node.dir = child // first sight
		} else if child != node.dir {
			w.fail("wrong-object", "entered a different directory than the %s last put there", node)
		}
	}
}

// --- FilterChildren ------------------------------------------------------------

type filterItem struct {
	d  *mNode
	en *mEntry
}

type filterVisit struct {
	leaf     virtual.LinkableLeaf
	spec     *lazySpec
	decision int
	err      error
	later    virtual.ChildRemover
}

const (
	fKeep = iota
	fRemoveNow
	fRemoveLater
	fStop
)

func (w *c13) collectFilter(x *mNode, leaves map[virtual.LinkableLeaf][]filterItem, lazies map[*lazySpec]*mNode, visited map[*mNode]bool) {
	if visited[x] {
		return
	}
	visited[x] = true
	if x.lazy != nil {
		lazies[x.lazy] = x
		return
	}
	for _, en := range x.entries {
		if en.node.kind == kDir {
			w.collectFilter(en.node, leaves, lazies, visited)
		} else {
			leaves[en.node.leaf] = append(leaves[en.node.leaf], filterItem{x, en})
		}
	}
}

func (w *c13) opFilter(d *mNode) {
	t := w.t
	decisions := make([]int, 7)
	for i := range decisions {
		decisions[i] = t.Weighted([]int{5, 3, 2, 1})
	}
	w.logOp("FilterChildren(%s, decisions=%v)", d, decisions)
	leaves := map[virtual.LinkableLeaf][]filterItem{}
	lazies := map[*lazySpec]*mNode{}
	w.collectFilter(d, leaves, lazies, map[*mNode]bool{})
	multi := map[virtual.LinkableLeaf]bool{}
	for l, items := range leaves {
		if len(items) > 1 {
			multi[l] = true
		}
	}
	nodeOf := map[virtual.LinkableLeaf]*mNode{}
	for _, n := range w.leaves {
		if n.leaf != nil {
			nodeOf[n.leaf] = n
		}
	}

	var visits []*filterVisit
	stopped := false
	err := d.dir.FilterChildren(func(node virtual.InitialChild, remove virtual.ChildRemover) bool {
		fetcher, leaf := node.GetPair()
		v := &filterVisit{}
		key := 0
		if fetcher != nil {
			sf, ok := fetcher.(*simFetcher)
			if !ok {
				// A directory that was created empty and never
				// looked at since; nothing identifies it.
				return true
			}
			v.spec = sf.spec
			key = sf.spec.id
		} else {
			v.leaf = leaf
			if n := nodeOf[leaf]; n != nil {
				key = n.id
			}
		}
		v.decision = decisions[key%len(decisions)]
		if v.leaf != nil && (multi[v.leaf] || nodeOf[v.leaf] == nil) && v.decision != fStop {
			// Which of several links the remover refers to is
			// not observable; leave such files alone.
			v.decision = fKeep
		}
		visits = append(visits, v)
		switch v.decision {
		case fRemoveNow:
			v.err = remove()
		case fRemoveLater:
			v.later = remove
		case fStop:
			stopped = true
			return false
		}
		return true
	})
	w.adopt()
	w.expectErr("FilterChildren", err, nil)

	// Replay what was visited on the model, in the order it happened.
	apply := func(v *filterVisit, got error) {
		if v.spec != nil {
			x := lazies[v.spec]
			w.removeChildren(x, false)
			if got != nil {
				w.fail("status", "the remover of a not yet materialised directory returned %v", got)
			}
			w.k.Probe("c13_filter_removed_lazy_directory")
			return
		}
		it := leaves[v.leaf][0]
		if want := w.modelRemove(it.d, it.en.name); got != want {
			w.fail("status", "the remover of %q in %s returned %v, the reference hierarchy says %v", it.en.name, it.d, got, want)
		}
		w.k.Probe("c13_filter_removed_leaf")
	}
	seenLeaf := map[virtual.LinkableLeaf]int{}
	seenSpec := map[*lazySpec]bool{}
	for _, v := range visits {
		if v.spec != nil {
			if lazies[v.spec] == nil || seenSpec[v.spec] {
				w.fail("filter-unexpected-child", "FilterChildren visited a not yet materialised directory that is not below %s, or visited it twice", d)
			}
			seenSpec[v.spec] = true
		} else {
			seenLeaf[v.leaf]++
			if seenLeaf[v.leaf] > len(leaves[v.leaf]) {
				w.fail("filter-unexpected-child", "FilterChildren visited %s more often than it is linked below %s (%d links)", nodeOf[v.leaf], d, len(leaves[v.leaf]))
			}
		}
		if v.decision == fRemoveNow {
			apply(v, v.err)
		}
	}
	for _, v := range visits {
		if v.later != nil {
			apply(v, v.later())
			w.adopt()
		}
	}
	if stopped {
		w.k.Probe("c13_filter_stopped_early")
		return
	}
	for _, x := range w.dirs {
		if spec := x.lazy; spec != nil && lazies[spec] == x && !seenSpec[spec] {
			w.fail("filter-missed-child", "FilterChildren(%s) did not visit the not yet materialised directory %s", d, x)
		}
	}
	for _, n := range w.leaves {
		l := n.leaf
		items := leaves[l]
		need := 0
		for _, it := range items {
			if w.listed(it.en) {
				need++
			}
		}
		if seenLeaf[l] < need {
			w.fail("filter-missed-child", "FilterChildren(%s) visited %s %d times, but it has %d visible links below that directory", d, nodeOf[l], seenLeaf[l], need)
		}
	}
}

// --- whole-tree comparison -------------------------------------------------------

func (w *c13) compareAll() {
	w.beginOp()
	w.k.Probe("c13_full_tree_comparison")
	for _, d := range w.dirs {
		if d.lazy != nil {
			continue
		}
		w.compareLookupAll(d)
		w.compareWReadDir(d)
		for _, name := range names {
			var out virtual.Attributes
			child, st := d.dir.VirtualLookup(ctx, comp(name), baseMask, &out)
			en := w.find(d, name)
			if en == nil {
				if st != virtual.StatusErrNoEnt {
					w.fail("contents", "VirtualLookup(%s, %q) returns %s, but the reference hierarchy has no such entry", d, name, stName(st))
				}
				continue
			}
			if st != virtual.StatusOK {
				w.fail("contents", "VirtualLookup(%s, %q) returns %s, but the reference hierarchy holds %s there", d, name, stName(st), en.node)
			}
			w.checkChild(child, en.node)
			w.checkAttrs(&out, en.node, baseMask)
			if en.node.kind == kFile {
				w.checkData(en.node)
			}
		}
		// A complete listing in one page.
		rep := &pageReporter{max: 1000, mask: baseMask}
		if st := d.dir.VirtualReadDir(ctx, 0, baseMask, rep); st != virtual.StatusOK {
			w.fail("status", "VirtualReadDir(%s) returned %s", d, stName(st))
		}
		var got, want []string
		for _, r := range rep.got {
			got = append(got, r.name)
		}
		for _, en := range d.entries {
			if w.listed(en) {
				want = append(want, en.name)
			}
		}
		sort.Strings(got)
		sort.Strings(want)
		if strings.Join(got, "\x00") != strings.Join(want, "\x00") {
			w.fail("contents", "VirtualReadDir(%s) lists %q, the reference hierarchy holds %q", d, got, want)
		}
	}
	w.adopt()
	w.audit()
}

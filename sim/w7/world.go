// Package w7 is the virtual file system world: a real
// InMemoryPrepopulatedDirectory hierarchy (with LockPile, pool-backed files
// and NFS- or FUSE-style handle allocators) driven
//
//   - for C13 by one sequential driver whose every result, status code,
//     ChangeInfo, change counter and listing page is compared with a reference
//     POSIX-style tree, and
//   - for C14 by 1-4 concurrent callers that interleave at every lock
//     acquisition, under kernel-level oracles: no simulated mutex is held by a
//     caller whose call has returned, no deadlock, every call returns.
package w7

import (
	"context"
	"os"
	"sort"
	"strings"
	"time"

	"github.com/buildbarn/bb-remote-execution/pkg/filesystem/virtual"
	"github.com/buildbarn/bb-remote-execution/pkg/verifsim/simenv"
	"github.com/buildbarn/bb-remote-execution/pkg/verifsim/simrun"
	"github.com/buildbarn/bb-remote-execution/pkg/verifsim/simsync"
	"github.com/buildbarn/bb-storage/pkg/filesystem"
	"github.com/buildbarn/bb-storage/pkg/filesystem/path"
)

var startTime = time.Unix(1700000000, 0).UTC()

var ctx = context.Background()

func harness(msg string) simsync.HarnessError { return simsync.HarnessError{Msg: "w7: " + msg} }

type config struct {
	caseInsensitive bool
	hidden          bool
	nfs             bool
	reverseSort     bool
	faults          bool
	namedAttrs      bool
	fuseFront       bool
}

// env is the part of the world shared by both properties: configuration,
// seams and the real constructors.
type env struct {
	r    *simrun.Run
	k    *simsync.Kernel
	t    *simsync.Tape
	prop string
	cfg  config

	clock       *simenv.SimClock
	pool        *memPool
	logger      *errLogger
	rng         *seqRNG
	handles     virtual.StatefulHandleAllocator
	files       virtual.FileAllocator
	symlinks    virtual.SymlinkFactory // never fails (used for inputs)
	attrFactory virtual.NamedAttributesFactory
	roots       []virtual.PrepopulatedDirectory

	// Fault injection. In sequential mode one fault kind is armed for the
	// duration of one operation; in concurrent mode every fallible seam
	// call is a fault ticket of the kernel.
	sequential bool
	armed      faultKind
	bypass     int
	// parkFetch makes FetchContents park twice, so that a directory's lock
	// stays held for a while during its first exploration.
	parkFetch bool
	specSeq   int
	targetSeq int

	// avoidKnown makes the workload stay away from the one call that is
	// known to leave a lock behind (see meta.json), so that everything
	// else can still be explored: W7_AVOID=createenter-deleted.
	avoidKnown bool
}

func (e *env) inject(kind faultKind) bool {
	if e.bypass > 0 {
		return false
	}
	if e.sequential {
		if e.armed == kind {
			e.k.FaultsFired[faultNames[kind]]++
			return true
		}
		return false
	}
	if !e.cfg.faults || !e.k.FaultsOn || e.k.IsController() {
		return false
	}
	return e.k.SeamW("io:"+faultNames[kind], 10, 3, "ok", faultNames[kind]) == 1
}

func pick[T any](t *simsync.Tape, xs []T) T { return xs[t.Choice(len(xs))] }

func hiddenMatcher(s string) bool { return strings.HasPrefix(s, ".h") }

func noDefaultAttributes(requested virtual.AttributesMask, attributes *virtual.Attributes) {}

type reverseSorter struct{ sort.Interface }

func (r reverseSorter) Less(i, j int) bool { return r.Interface.Less(j, i) }

func newEnv(r *simrun.Run, prop string, sequential bool) *env {
	return newEnvWith(r, prop, sequential, nil)
}

// newEnvWith is newEnv with a last word on the configuration drawn from the
// tape (the draws themselves are the same for every caller).
func newEnvWith(r *simrun.Run, prop string, sequential bool, adjust func(*config)) *env {
	e := &env{r: r, k: r.K, t: r.T, prop: prop, sequential: sequential}
	t := e.t
	// Value 0 of every choice is the plain configuration: case sensitive,
	// nothing hidden, NFS handles, sorted initial contents, no faults.
	e.cfg.caseInsensitive = t.Bool(1, 3)
	e.cfg.hidden = t.Bool(1, 2)
	e.cfg.nfs = !t.Bool(1, 3)
	e.cfg.reverseSort = t.Bool(1, 3)
	e.cfg.faults = t.Bool(1, 2)
	if prop == "C14" {
		e.cfg.namedAttrs = t.Bool(1, 3)
	}
	if prop == "C13" && sequential {
		// One sequential run in three goes through the FUSE front end,
		// which comes with the FUSE handle allocator.
		if e.cfg.fuseFront = t.Bool(1, 3); e.cfg.fuseFront {
			e.cfg.nfs = false
		}
	}
	if adjust != nil {
		adjust(&e.cfg)
	}
	e.avoidKnown = strings.Contains(os.Getenv("W7_AVOID"), "createenter-deleted")

	e.clock = simenv.NewSimClock(e.k, startTime)
	e.pool = &memPool{e: e}
	e.logger = &errLogger{e: e}
	e.rng = &seqRNG{}
	if e.cfg.nfs {
		e.handles = virtual.NewNFSHandleAllocator(e.rng)
	} else {
		e.handles = virtual.NewFUSEHandleAllocator(e.rng)
	}
	e.symlinks = virtual.NewHandleAllocatingSymlinkFactory(virtual.NewBaseSymlinkFactory(noDefaultAttributes), e.handles.New(), path.UNIXFormat)
	var naf virtual.NamedAttributesFactory = virtual.NoNamedAttributesFactory
	if e.cfg.namedAttrs {
		attrFiles := virtual.NewHandleAllocatingFileAllocator(
			virtual.NewPoolBackedFileAllocator(e.pool, e.logger, noDefaultAttributes, virtual.InNamedAttributeDirectoryNamedAttributesFactory),
			e.handles)
		naf = virtual.NewInMemoryNamedAttributesFactory(attrFiles, e.symlinks, e.logger, e.handles, e.clock)
	}
	e.attrFactory = naf
	e.files = virtual.NewHandleAllocatingFileAllocator(
		virtual.NewPoolBackedFileAllocator(e.pool, e.logger, noDefaultAttributes, naf),
		e.handles)
	var sorter virtual.Sorter = sort.Sort
	if e.cfg.reverseSort {
		sorter = func(data sort.Interface) { sort.Sort(reverseSorter{data}) }
	}
	matcher := virtual.StringMatcher(func(string) bool { return false })
	if e.cfg.hidden {
		matcher = hiddenMatcher
	}
	var normalizer virtual.ComponentNormalizer = virtual.CaseSensitiveComponentNormalizer
	if e.cfg.caseInsensitive {
		normalizer = virtual.CaseInsensitiveComponentNormalizer
	}
	// Two independent hierarchies ("file systems") sharing the allocators,
	// so that cross-device renames can be issued.
	for i := 0; i < 2; i++ {
		e.roots = append(e.roots, virtual.NewInMemoryPrepopulatedDirectory(
			e.files, &faultySymlinkFactory{e: e, base: e.symlinks}, e.logger, e.handles, sorter, matcher, e.clock, normalizer, noDefaultAttributes, naf))
	}
	r.Logf("config: caseInsensitive=%v hiddenPattern=%v handles=%s reverseSort=%v faults=%v namedAttrs=%v fuseFrontEnd=%v", e.cfg.caseInsensitive, e.cfg.hidden, map[bool]string{true: "nfs", false: "fuse"}[e.cfg.nfs], e.cfg.reverseSort, e.cfg.faults, e.cfg.namedAttrs, e.cfg.fuseFront)
	return e
}

func (e *env) norm(name string) string {
	if e.cfg.caseInsensitive {
		return strings.ToLower(name)
	}
	return name
}

func (e *env) isHidden(name string) bool { return e.cfg.hidden && hiddenMatcher(name) }

func (e *env) newTarget() string {
	e.targetSeq++
	return "target/" + itoa(e.targetSeq)
}

func itoa(n int) string {
	if n == 0 {
		return "0"
	}
	var b [20]byte
	i := len(b)
	neg := n < 0
	if neg {
		n = -n
	}
	for n > 0 {
		i--
		b[i] = byte('0' + n%10)
		n /= 10
	}
	if neg {
		i--
		b[i] = '-'
	}
	return string(b[i:])
}

var statusNames = map[virtual.Status]string{
	virtual.StatusOK: "OK", virtual.StatusErrAccess: "EACCES", virtual.StatusErrBadHandle: "EBADHANDLE", virtual.StatusErrExist: "EEXIST",
	virtual.StatusErrInval: "EINVAL", virtual.StatusErrIO: "EIO", virtual.StatusErrIsDir: "EISDIR", virtual.StatusErrNoEnt: "ENOENT",
	virtual.StatusErrNotDir: "ENOTDIR", virtual.StatusErrNotEmpty: "ENOTEMPTY", virtual.StatusErrNXIO: "ENXIO", virtual.StatusErrPerm: "EPERM",
	virtual.StatusErrROFS: "EROFS", virtual.StatusErrStale: "ESTALE", virtual.StatusErrSymlink: "ESYMLINK", virtual.StatusErrWrongType: "EWRONGTYPE",
	virtual.StatusErrXDev: "EXDEV", virtual.StatusErrNameTooLong: "ENAMETOOLONG",
}

func stName(s virtual.Status) string {
	if n, ok := statusNames[s]; ok {
		return n
	}
	return "status#" + itoa(int(s))
}

func errName(err error) string {
	if err == nil {
		return "nil"
	}
	return err.Error()
}

var fileTypeNames = map[filesystem.FileType]string{
	filesystem.FileTypeRegularFile: "file", filesystem.FileTypeDirectory: "dir", filesystem.FileTypeSymlink: "symlink",
	filesystem.FileTypeBlockDevice: "blockdev", filesystem.FileTypeCharacterDevice: "chardev", filesystem.FileTypeFIFO: "fifo", filesystem.FileTypeSocket: "socket",
}

// World is the entry point registered for C13 and C14.
func World(prop string) simrun.World {
	return func(r *simrun.Run) {
		switch prop {
		case "C13":
			// Some runs (5 in 48) use the concurrent callers of the C14 world
			// instead of the sequential driver: listings then overlap
			// with renames and removals (lock back-off and re-seek inside
			// VirtualReadDir), and each listing call is checked for going
			// backwards.
			//
			// 10 runs in 48 use the presence configuration
			// (c13conc.go): concurrent callers under an oracle that knows
			// which names are certainly bound or unbound during a call.
			//
			// One run in six uses the linearizability configuration
			// (c13lin.go): a short concurrent history whose every answer is
			// recorded and checked against the sequential model by
			// porcupine. (Values 0-7 mean what they meant when this was
			// Choice(8), so older replay files keep their configuration.)
			choice := r.T.Weighted([]int{5, 5, 5, 5, 5, 5, 5, 5, 8})
			switch os.Getenv("W7_C13") { // for experiments and triage only
			case "callers":
				choice = 0
			case "presence":
				choice = 1
			case "sequential":
				choice = 3
			case "linearizable":
				choice = 8
			}
			switch choice {
			case 0:
				runC14(r)
			case 1, 2:
				runPresence(r)
			case 8:
				runLinearizable(r)
			default:
				runC13(r)
			}
		case "C14":
			runC14(r)
		default:
			panic(harness("no such property " + prop))
		}
	}
}

package w7

import (
	"bytes"
	"fmt"
	"syscall"
	"time"
	"unsafe"

	"github.com/buildbarn/bb-remote-execution/pkg/filesystem/virtual"
	vfuse "github.com/buildbarn/bb-remote-execution/pkg/filesystem/virtual/fuse"
	"github.com/buildbarn/bb-storage/pkg/filesystem"
	"github.com/hanwen/go-fuse/v2/fuse"
)

// FUSE front end of the C13 driver. One sequential run in three puts the real
// SimpleRawFileSystem (inside the DefaultAttributesInjectingRawFileSystem, as
// mounted by bb_worker) on top of the first hierarchy and plays the part of
// the kernel: kernel-facing operations are issued as FUSE requests on node
// IDs whenever the "kernel" knows the objects involved, errno values,
// fuse.Attr/EntryOut contents and READDIR/READDIRPLUS pages are compared with
// the same reference tree, and the lookup counts the kernel would hold are
// kept so that every FORGET is exact.

const (
	fuseEntryValid   = 7 * time.Second
	fuseAttrValid    = 3 * time.Second
	fuseDefaultAtime = 1111
)

type fuseFront struct {
	rfs           vfuse.RawFileSystem
	entryNotifies int
	requests      int
}

// fuseServer receives the invalidations the file system sends to the kernel.
type fuseServer struct{ f *fuseFront }

func (s fuseServer) DeleteNotify(parent, child uint64, name string) fuse.Status { return fuse.OK }
func (s fuseServer) EntryNotify(parent uint64, name string) fuse.Status {
	s.f.entryNotifies++
	return fuse.OK
}
func (s fuseServer) InodeNotify(node uint64, off, length int64) fuse.Status { return fuse.OK }
func (s fuseServer) InodeRetrieveCache(node uint64, offset int64, dest []byte) (int, fuse.Status) {
	return 0, fuse.OK
}
func (s fuseServer) InodeNotifyStoreCache(node uint64, offset int64, data []byte) fuse.Status {
	return fuse.OK
}

func (w *c13) setupFUSE() {
	e := w.e
	alloc, ok := e.handles.(*virtual.FUSEStatefulHandleAllocator)
	if !ok {
		panic(harness("the FUSE front end needs the FUSE handle allocator"))
	}
	f := &fuseFront{}
	f.rfs = vfuse.NewDefaultAttributesInjectingRawFileSystem(
		vfuse.NewSimpleRawFileSystem(e.roots[0], alloc.RegisterRemovalNotifier, vfuse.AllowAuthenticator),
		fuseEntryValid, fuseAttrValid,
		&fuse.Attr{Atime: fuseDefaultAtime, Ctime: fuseDefaultAtime, Mtime: fuseDefaultAtime})
	f.rfs.Init(fuseServer{f})
	w.f = f
	root := w.dirs[0]
	root.fuseID = fuse.FUSE_ROOT_ID
	root.nlookup = 1
}

func hdr(id uint64) fuse.InHeader { return fuse.InHeader{NodeId: id} }

// errnoOf is the errno a POSIX caller expects for each outcome of the
// reference hierarchy (kept apart from the translation table under test).
func errnoOf(s virtual.Status) fuse.Status {
	switch s {
	case virtual.StatusOK:
		return fuse.OK
	case virtual.StatusErrExist:
		return fuse.Status(syscall.EEXIST)
	case virtual.StatusErrIO:
		return fuse.Status(syscall.EIO)
	case virtual.StatusErrIsDir:
		return fuse.Status(syscall.EISDIR)
	case virtual.StatusErrNoEnt:
		return fuse.Status(syscall.ENOENT)
	case virtual.StatusErrNotDir:
		return fuse.Status(syscall.ENOTDIR)
	case virtual.StatusErrNotEmpty:
		return fuse.Status(syscall.ENOTEMPTY)
	case virtual.StatusErrPerm:
		return fuse.Status(syscall.EPERM)
	case virtual.StatusErrStale:
		return fuse.Status(syscall.ESTALE)
	case virtual.StatusErrXDev:
		return fuse.Status(syscall.EXDEV)
	case virtual.StatusErrSymlink:
		return fuse.Status(syscall.EOPNOTSUPP)
	}
	panic(harness("no errno for " + stName(s)))
}

func errnoName(s fuse.Status) string {
	if s == fuse.OK {
		return "OK"
	}
	return s.String()
}

func (w *c13) expectErrno(op string, got fuse.Status, want virtual.Status) {
	w.f.requests++
	w.result("fuse."+op, errnoName(got))
	if got != errnoOf(want) {
		w.fail("status", "FUSE %s returned %s, the reference hierarchy says %s (%s)", op, errnoName(got), errnoName(errnoOf(want)), stName(want))
	}
}

// directIno asks the object itself for its inode number.
func (w *c13) directIno(n *mNode) uint64 {
	var a virtual.Attributes
	if n.kind == kDir {
		n.dir.VirtualGetAttributes(ctx, virtual.AttributesMaskInodeNumber, &a)
	} else {
		n.leaf.VirtualGetAttributes(ctx, virtual.AttributesMaskInodeNumber, &a)
	}
	return a.GetInodeNumber()
}

func (w *c13) bound(n *mNode) bool {
	if n.kind == kDir {
		return n.dir != nil
	}
	return n.leaf != nil
}

// inoOf returns the inode number of a node, 0 if nobody has seen it yet.
func (w *c13) inoOf(n *mNode) uint64 {
	if n.ino == 0 && w.bound(n) {
		n.ino = w.directIno(n)
	}
	return n.ino
}

func (w *c13) checkFuseAttr(a *fuse.Attr, n *mNode, what string) {
	var mode uint32
	var size uint64
	nlink := uint32(n.nlink)
	switch n.kind {
	case kDir:
		mode, nlink = syscall.S_IFDIR|0o777, virtual.ImplicitDirectoryLinkCount
	case kFile:
		mode, size = syscall.S_IFREG|0o666, uint64(len(n.data))
		if n.exec {
			mode |= 0o111
		}
	case kSymlink:
		mode, size, nlink = syscall.S_IFLNK|0o777, uint64(len(n.target)), virtual.StatelessLeafLinkCount
	case kFifo:
		mode = syscall.S_IFIFO | 0o666
	case kSocket:
		mode = syscall.S_IFSOCK | 0o666
	}
	if a.Mode != mode || a.Nlink != nlink || a.Size != size {
		w.fail("attributes", "%s of %s: mode=%#o nlink=%d size=%d, expected mode=%#o nlink=%d size=%d", what, n, a.Mode, a.Nlink, a.Size, mode, nlink, size)
	}
	if ino := w.inoOf(n); ino != 0 && a.Ino != ino {
		w.fail("wrong-object", "%s carries inode number %d, but the %s last put there has inode number %d", what, a.Ino, n, ino)
	}
	if a.Atime != fuseDefaultAtime {
		w.fail("attributes", "%s of %s: the default access time was not kept (%d)", what, n, a.Atime)
	}
}

// fuseEntry checks a fuse.EntryOut against the node the model has at that
// place and does what the kernel does with it: remember the node ID and
// count the lookup.
func (w *c13) fuseEntry(out *fuse.EntryOut, n *mNode, what string) {
	if out.NodeId == 0 || out.NodeId != out.Ino {
		w.fail("attributes", "%s: node ID %d and inode number %d", what, out.NodeId, out.Ino)
	}
	if n.ino == 0 && !w.bound(n) {
		n.ino = out.Ino // first sight; verified when the object gets bound
	}
	w.checkFuseAttr(&out.Attr, n, what)
	if out.EntryValid != uint64(fuseEntryValid/time.Second) || out.AttrValid != uint64(fuseAttrValid/time.Second) {
		w.fail("attributes", "%s: entry/attribute validity %d/%d s, configured %s/%s", what, out.EntryValid, out.AttrValid, fuseEntryValid, fuseAttrValid)
	}
	if n.fuseID != 0 && n.fuseID != out.NodeId {
		w.fail("wrong-object", "%s: node ID changed from %d to %d", what, n.fuseID, out.NodeId)
	}
	n.fuseID = out.NodeId
	n.nlookup++
}

// fuseDir returns the node ID under which the kernel knows d, looking it up
// from its parent if necessary; 0 means the operation has to be issued
// directly (no front end, other hierarchy, not reachable, or by choice).
func (w *c13) fuseDir(d *mNode) uint64 {
	if w.f == nil || w.t.Bool(1, 8) {
		return 0
	}
	return w.fuseResolve(d, 0)
}

func (w *c13) fuseResolve(n *mNode, depth int) uint64 {
	if n.fuseID != 0 || depth > 5 {
		return n.fuseID
	}
	for _, p := range w.dirs {
		if p.lazy != nil || p.dir == nil {
			continue
		}
		for _, en := range p.entries {
			if en.node != n {
				continue
			}
			pid := w.fuseResolve(p, depth+1)
			if pid == 0 {
				continue
			}
			saved := w.desc
			w.desc = fmt.Sprintf("FUSE Lookup(%s, %q) to learn the node ID", p, en.name)
			w.k.Annotate("%s", w.desc)
			var out fuse.EntryOut
			st := w.f.rfs.Lookup(nil, &fuse.InHeader{NodeId: pid}, en.name, &out)
			w.expectErrno("Lookup", st, virtual.StatusOK)
			w.fuseEntry(&out, n, "the reply")
			w.desc = saved
			return n.fuseID
		}
	}
	return 0
}

func (w *c13) fuseLookup(d *mNode, fd uint64, name string) {
	w.logOp("FUSE Lookup(%s, %q)", d, name)
	var out fuse.EntryOut
	st := w.f.rfs.Lookup(nil, &fuse.InHeader{NodeId: fd}, name, &out)
	w.adopt()
	want, en := w.modelLookup(d, name)
	w.expectErrno("Lookup", st, want)
	if st == fuse.OK {
		w.fuseEntry(&out, en.node, "the reply")
	}
}

func accessFlags(share virtual.ShareMask) uint32 {
	switch share {
	case virtual.ShareMaskRead:
		return syscall.O_RDONLY
	case virtual.ShareMaskWrite:
		return syscall.O_WRONLY
	}
	return syscall.O_RDWR
}

func (w *c13) fuseOpen(d *mNode, fd uint64, name string, share virtual.ShareMask, create bool, existing *virtual.OpenExistingOptions, exec bool) {
	flags := accessFlags(share)
	if existing == nil {
		flags |= syscall.O_EXCL
	} else if existing.Truncate {
		flags |= syscall.O_TRUNC
	}
	if create {
		mode := uint32(0o644)
		if exec {
			mode = 0o755
		}
		w.logOp("FUSE Create(%s, %q, flags=%#x, mode=%#o)", d, name, flags, mode)
		var out fuse.CreateOut
		st := w.f.rfs.Create(nil, &fuse.CreateIn{InHeader: hdr(fd), Flags: flags | syscall.O_CREAT, Mode: mode}, name, &out)
		w.adopt()
		want, _, node, _ := w.modelOpen(d, name, true, existing, exec, -1, true)
		w.expectErrno("Create", st, want)
		if st == fuse.OK {
			w.fuseEntry(&out.EntryOut, node, "the reply")
			w.f.rfs.Release(nil, &fuse.ReleaseIn{InHeader: hdr(node.fuseID), Flags: flags})
		}
		return
	}
	// Without O_CREAT the kernel looks the name up and opens the node.
	w.logOp("FUSE Lookup(%s, %q) + Open(flags=%#x)", d, name, flags)
	var out fuse.EntryOut
	st := w.f.rfs.Lookup(nil, &fuse.InHeader{NodeId: fd}, name, &out)
	w.adopt()
	want, en := w.modelLookup(d, name)
	w.expectErrno("Lookup", st, want)
	if st != fuse.OK {
		return
	}
	n := en.node
	w.fuseEntry(&out, n, "the reply")
	if n.kind != kFile {
		// The kernel opens directories with OPENDIR and handles
		// symbolic links and special files itself.
		return
	}
	wantOpen := virtual.StatusOK
	switch {
	case existing.Truncate && w.e.armed == faultTruncate:
		wantOpen = virtual.StatusErrIO
	case existing.Truncate:
		n.data = nil
		w.k.Probe("c13_open_truncate")
	}
	st = w.f.rfs.Open(nil, &fuse.OpenIn{InHeader: hdr(n.fuseID), Flags: flags}, &fuse.OpenOut{})
	w.expectErrno("Open", st, wantOpen)
	if st == fuse.OK {
		w.f.rfs.Release(nil, &fuse.ReleaseIn{InHeader: hdr(n.fuseID), Flags: flags})
	}
}

func (w *c13) fuseMkdir(d *mNode, fd uint64, name string) {
	w.logOp("FUSE Mkdir(%s, %q)", d, name)
	var out fuse.EntryOut
	st := w.f.rfs.Mkdir(nil, &fuse.MkdirIn{InHeader: hdr(fd), Mode: 0o755}, name, &out)
	w.adopt()
	want, node := w.modelMkdir(d, name)
	w.expectErrno("Mkdir", st, want)
	if st == fuse.OK {
		w.fuseEntry(&out, node, "the reply")
	}
}

func (w *c13) fuseMknod(d *mNode, fd uint64, name string, ft filesystem.FileType, target string) {
	var out fuse.EntryOut
	var st fuse.Status
	op := "Mknod"
	switch ft {
	case filesystem.FileTypeSymlink:
		op = "Symlink"
		w.logOp("FUSE Symlink(%s, %q -> %s)", d, name, target)
		st = w.f.rfs.Symlink(nil, &fuse.InHeader{NodeId: fd}, target, name, &out)
	default:
		mode := map[filesystem.FileType]uint32{
			filesystem.FileTypeFIFO: syscall.S_IFIFO, filesystem.FileTypeSocket: syscall.S_IFSOCK,
			filesystem.FileTypeBlockDevice: syscall.S_IFBLK, filesystem.FileTypeCharacterDevice: syscall.S_IFCHR,
		}[ft] | 0o644
		w.logOp("FUSE Mknod(%s, %q, %s)", d, name, fileTypeNames[ft])
		st = w.f.rfs.Mknod(nil, &fuse.MknodIn{InHeader: hdr(fd), Mode: mode}, name, &out)
	}
	w.adopt()
	if ft == filesystem.FileTypeBlockDevice || ft == filesystem.FileTypeCharacterDevice {
		// Refused whatever the directory holds.
		w.expectErrno(op, st, virtual.StatusErrPerm)
		return
	}
	want, node := w.modelMknod(d, name, ft, target)
	w.expectErrno(op, st, want)
	if st == fuse.OK {
		w.fuseEntry(&out, node, "the reply")
	}
}

func (w *c13) fuseLink(d *mNode, fd uint64, name string, n *mNode) {
	w.logOp("FUSE Link(%s, %q, %s)", d, name, n)
	var out fuse.EntryOut
	st := w.f.rfs.Link(nil, &fuse.LinkIn{InHeader: hdr(fd), Oldnodeid: n.fuseID}, name, &out)
	w.adopt()
	want := w.modelLink(d, name, n)
	w.expectErrno("Link", st, want)
	if st == fuse.OK {
		w.fuseEntry(&out, n, "the reply")
	}
}

func (w *c13) fuseRename(dOld *mNode, fo uint64, oldName string, dNew *mNode, fn uint64, newName string) {
	w.logOp("FUSE Rename(%s, %q -> %s, %q)", dOld, oldName, dNew, newName)
	st := w.f.rfs.Rename(nil, &fuse.RenameIn{InHeader: hdr(fo), Newdir: fn}, oldName, newName)
	w.adopt()
	w.expectErrno("Rename", st, w.modelRename(dOld, oldName, dNew, newName))
}

func (w *c13) fuseRemove(d *mNode, fd uint64, name string, flags [2]bool) {
	var st fuse.Status
	op := "Unlink"
	if flags[0] {
		op = "Rmdir"
		w.logOp("FUSE Rmdir(%s, %q)", d, name)
		st = w.f.rfs.Rmdir(nil, &fuse.InHeader{NodeId: fd}, name)
	} else {
		w.logOp("FUSE Unlink(%s, %q)", d, name)
		st = w.f.rfs.Unlink(nil, &fuse.InHeader{NodeId: fd}, name)
	}
	w.adopt()
	w.expectErrno(op, st, w.modelVRemove(d, name, flags))
}

func (w *c13) fuseGetAttr(d *mNode, fd uint64) {
	w.logOp("FUSE GetAttr(%s)", d)
	var out fuse.AttrOut
	st := w.f.rfs.GetAttr(nil, &fuse.GetAttrIn{InHeader: hdr(fd)}, &out)
	w.adopt()
	w.expectErrno("GetAttr", st, virtual.StatusOK)
	w.checkFuseAttr(&out.Attr, d, "the reply")
	if out.AttrValid != uint64(fuseAttrValid/time.Second) {
		w.fail("attributes", "attribute validity %d s, configured %s", out.AttrValid, fuseAttrValid)
	}
}

// fuseWrite and fuseRead go through Open/Write|Read/Release on the node ID.
func (w *c13) fuseWrite(n *mNode, token []byte, off int) {
	if st := w.f.rfs.Open(nil, &fuse.OpenIn{InHeader: hdr(n.fuseID), Flags: syscall.O_WRONLY}, &fuse.OpenOut{}); st != fuse.OK {
		w.fail("status", "FUSE Open of a linked regular file returned %s", errnoName(st))
	}
	nw, st := w.f.rfs.Write(nil, &fuse.WriteIn{InHeader: hdr(n.fuseID), Offset: uint64(off), Size: uint32(len(token))}, token)
	w.f.rfs.Release(nil, &fuse.ReleaseIn{InHeader: hdr(n.fuseID), Flags: syscall.O_WRONLY})
	w.expectErrno("Write", st, virtual.StatusOK)
	if int(nw) != len(token) {
		w.fail("status", "FUSE Write wrote %d of %d bytes", nw, len(token))
	}
}

func (w *c13) fuseRead(n *mNode) {
	if st := w.f.rfs.Open(nil, &fuse.OpenIn{InHeader: hdr(n.fuseID), Flags: syscall.O_RDONLY}, &fuse.OpenOut{}); st != fuse.OK {
		w.fail("status", "FUSE Open of a linked regular file returned %s", errnoName(st))
	}
	buf := make([]byte, 128)
	res, st := w.f.rfs.Read(nil, &fuse.ReadIn{InHeader: hdr(n.fuseID), Offset: 0, Size: uint32(len(buf))}, buf)
	w.f.rfs.Release(nil, &fuse.ReleaseIn{InHeader: hdr(n.fuseID), Flags: syscall.O_RDONLY})
	w.expectErrno("Read", st, virtual.StatusOK)
	data, _ := res.Bytes(buf)
	if !bytes.Equal(data, n.data) {
		w.fail("file-contents", "%s reads back %q through FUSE, expected %q", n, data, n.data)
	}
}

// opForget makes the kernel drop a node (or some of its lookups).
func (w *c13) opForget() {
	var cands []*mNode
	for _, n := range append(append([]*mNode(nil), w.dirs...), w.leaves...) {
		if n.fuseID == 0 || n.fuseID == fuse.FUSE_ROOT_ID {
			continue
		}
		busy := false
		for _, s := range w.sessions {
			busy = busy || s.d == n
		}
		if !busy {
			cands = append(cands, n)
		}
	}
	if len(cands) == 0 {
		w.opGetAttributes(w.dirs[0])
		return
	}
	n := pick(w.t, cands)
	count := n.nlookup
	if count > 1 && w.t.Bool(1, 3) {
		count--
	}
	w.logOp("FUSE Forget(%s, %d of %d lookups)", n, count, n.nlookup)
	w.f.rfs.Forget(n.fuseID, count)
	w.f.requests++
	n.nlookup -= count
	if n.nlookup == 0 {
		n.fuseID = 0
	}
	w.result("fuse.Forget", "OK")
}

// forgetAll returns every lookup the kernel holds; the front end panics if it
// counted fewer.
func (w *c13) forgetAll() {
	for _, n := range append(append([]*mNode(nil), w.dirs...), w.leaves...) {
		if n.fuseID != 0 && n.fuseID != fuse.FUSE_ROOT_ID {
			w.f.rfs.Forget(n.fuseID, n.nlookup)
			n.fuseID, n.nlookup = 0, 0
		}
	}
}

// --- READDIR / READDIRPLUS ---------------------------------------------------

const (
	fuseDirentBytes = 32 // 24 byte header + name of up to 8 bytes, padded
	eidDot          = -1
	eidDotDot       = -2
)

var fuseEntryOutBytes = int(unsafe.Sizeof(fuse.EntryOut{}))

// fuseList is the reply buffer of one READDIR(PLUS) request: a real
// fuse.DirEntryList of limited size, with a record of what went in.
type fuseList struct {
	inner     *fuse.DirEntryList
	got       []reported
	truncated bool
}

func modeType(mode uint32) filesystem.FileType {
	switch mode & syscall.S_IFMT {
	case syscall.S_IFDIR:
		return filesystem.FileTypeDirectory
	case syscall.S_IFREG:
		return filesystem.FileTypeRegularFile
	case syscall.S_IFLNK:
		return filesystem.FileTypeSymlink
	case syscall.S_IFIFO:
		return filesystem.FileTypeFIFO
	case syscall.S_IFSOCK:
		return filesystem.FileTypeSocket
	}
	return filesystem.FileTypeOther
}

func (l *fuseList) AddDirEntry(e fuse.DirEntry) bool {
	if !l.inner.AddDirEntry(e) {
		l.truncated = true
		return false
	}
	l.got = append(l.got, reported{cookie: e.Off, name: e.Name, ft: modeType(e.Mode), ino: e.Ino})
	return true
}

func (l *fuseList) AddDirLookupEntry(e fuse.DirEntry) *fuse.EntryOut {
	out := l.inner.AddDirLookupEntry(e)
	if out == nil {
		l.truncated = true
		return nil
	}
	l.got = append(l.got, reported{cookie: e.Off, name: e.Name, ft: modeType(e.Mode), ino: e.Ino, entry: out})
	return out
}

// fusePage issues one READDIR or READDIRPLUS request resumed at offset with a
// reply buffer that holds exactly `entries` entries.
func (w *c13) fusePage(s *session, offset uint64) (*fuseList, fuse.Status) {
	per := fuseDirentBytes
	if s.plus {
		per += fuseEntryOutBytes
	}
	buf := make([]byte, per*s.page)
	l := &fuseList{inner: fuse.NewDirEntryList(buf, offset)}
	in := &fuse.ReadIn{InHeader: hdr(s.d.fuseID), Offset: offset, Size: uint32(len(buf))}
	if s.plus {
		return l, w.f.rfs.ReadDirPlus(nil, in, l)
	}
	return l, w.f.rfs.ReadDir(nil, in, l)
}

package w7

import (
	"fmt"
	"sort"
	"strings"

	"github.com/buildbarn/bb-remote-execution/pkg/filesystem/virtual"
)

// Sequential model of the linearizability configuration of C13 (c13lin.go).
//
// The state is a value: the live directories by identity, each with a map
// from name to entry (kind and identity of the object bound there) and what
// is known about its change counter. A directory that was removed is simply
// absent; every call on it then behaves as the sequential reference of
// model.go does for a removed directory. linStep never changes the state it
// is given: it copies the outer map, and the directories it changes, before
// writing. States are compared by value (linEqual).
//
// The semantics, and in particular the order in which simultaneously
// applicable errors are reported, are those of model.go (modelLookup,
// modelOpen, modelMkdir, modelMknod, modelLink, modelRename, modelVRemove,
// and opCreateChildren for the bulk creation).

type linOpKind int

const (
	lLookup linOpKind = iota
	lList
	lMkdir
	lOpen
	lLink
	lRename
	lRemove
	lSymlink
	lCreateChildren
)

var linOpNames = []string{"VirtualLookup", "VirtualReadDir", "VirtualMkdir", "VirtualOpenChild", "VirtualLink", "VirtualRename", "VirtualRemove", "VirtualMknod", "CreateChildren"}

// Open modes.
const (
	openCreateExclusive = iota
	openExisting
	openCreateOrExisting
)

type linIn struct {
	op    linOpKind
	dir   int    // identity of the directory object the call is made on
	name  string // name the call is about (source name of a rename)
	dir2  int    // rename: target directory
	name2 string // rename: target name
	mode  int    // open mode
	// remove flavours
	rmDir, rmLeaf bool
	// link: identity of the file; CreateChildren: identity of the leaf given (0 for a directory)
	leaf int
	// CreateChildren: the one child, and the overwrite flag
	childKind nodeKind
	childFull bool // a directory that will not be empty
	overwrite bool
	locked    bool // lookup asks for attributes that need the child directory's lock
}

type linOut struct {
	res string // status or errno name, "OK" for success
	// Lookups and creations: what the name resolved to or what was made.
	kind  nodeKind
	id    int // 0: identity not compared (directories in bulk mode)
	nlink int // -1: not compared
	// Listings: the names, sorted, joined with ",".
	names string
	// ChangeInfo of the directory (ci) and, for renames, of the target
	// directory (ci2); only meaningful when res is "OK" and hasCI.
	hasCI   bool
	ci, ci2 virtual.ChangeInfo
}

type linEnt struct {
	kind nodeKind
	id   int  // 0 for directories whose identity is not tracked (bulk mode)
	full bool // untracked directory that is not empty
}

// linDir is one live directory. chg is its change counter if exact, else a
// value the counter is known to be larger than.
type linDir struct {
	ents  map[string]linEnt
	chg   uint64
	exact bool
}

type linState struct {
	dirs map[int]*linDir
}

func (d *linDir) clone() *linDir {
	n := &linDir{ents: make(map[string]linEnt, len(d.ents)+1), chg: d.chg, exact: d.exact}
	for k, v := range d.ents {
		n.ents[k] = v
	}
	return n
}

func linEqual(a, b interface{}) bool {
	x, y := a.(*linState), b.(*linState)
	if x == y {
		return true
	}
	if len(x.dirs) != len(y.dirs) {
		return false
	}
	for id, dx := range x.dirs {
		dy := y.dirs[id]
		if dy == nil || dx.chg != dy.chg || dx.exact != dy.exact || len(dx.ents) != len(dy.ents) {
			return false
		}
		for name, ex := range dx.ents {
			if ey, ok := dy.ents[name]; !ok || ex != ey {
				return false
			}
		}
	}
	return true
}

func (s *linState) String() string {
	ids := make([]int, 0, len(s.dirs))
	for id := range s.dirs {
		ids = append(ids, id)
	}
	sort.Ints(ids)
	var sb strings.Builder
	for i, id := range ids {
		if i > 0 {
			sb.WriteString(" ")
		}
		d := s.dirs[id]
		fmt.Fprintf(&sb, "D%d{", id)
		names := make([]string, 0, len(d.ents))
		for n := range d.ents {
			names = append(names, n)
		}
		sort.Strings(names)
		for j, n := range names {
			if j > 0 {
				sb.WriteString(" ")
			}
			fmt.Fprintf(&sb, "%s->%s", n, d.ents[n])
		}
		if d.exact {
			fmt.Fprintf(&sb, "}chg=%d", d.chg)
		} else {
			fmt.Fprintf(&sb, "}chg>%d", d.chg)
		}
	}
	return sb.String()
}

func (e linEnt) String() string {
	switch {
	case e.kind == kDir && e.id != 0:
		return fmt.Sprintf("D%d", e.id)
	case e.kind == kDir && e.full:
		return "dir(not empty)"
	case e.kind == kDir:
		return "dir(empty)"
	}
	return fmt.Sprintf("%s#%d", kindNames[e.kind], e.id)
}

// links counts the names bound to the leaf with the given identity.
func (s *linState) links(id int) int {
	n := 0
	for _, d := range s.dirs {
		for _, e := range d.ents {
			if e.kind != kDir && e.id == id {
				n++
			}
		}
	}
	return n
}

// linStepper applies one call to a state, copying on write.
type linStepper struct {
	old *linState
	cur *linState // == old until the first write
}

func (x *linStepper) dir(id int) *linDir { return x.cur.dirs[id] }

func (x *linStepper) fork() {
	if x.cur == x.old {
		n := &linState{dirs: make(map[int]*linDir, len(x.old.dirs)+1)}
		for id, d := range x.old.dirs {
			n.dirs[id] = d
		}
		x.cur = n
	}
}

// mut returns a private copy of the directory for writing.
func (x *linStepper) mut(id int) *linDir {
	x.fork()
	d := x.cur.dirs[id]
	if d == x.old.dirs[id] {
		d = d.clone()
		x.cur.dirs[id] = d
	}
	return d
}

func (x *linStepper) addDir(id int) {
	x.fork()
	x.cur.dirs[id] = &linDir{ents: map[string]linEnt{}, exact: true}
}

func (x *linStepper) dropDir(id int) {
	x.fork()
	delete(x.cur.dirs, id)
}

// deletable: the directory bound by e has no entries.
func (x *linStepper) deletable(e linEnt) bool {
	if e.id == 0 {
		return !e.full
	}
	d := x.dir(e.id)
	return d == nil || len(d.ents) == 0
}

// --- change counters ----------------------------------------------------------

// chgMutate: a call that holds the directory's lock from reading the counter
// to the modification reports exactly the counter before, and a larger one
// after.
func chgMutate(d *linDir, ci virtual.ChangeInfo) bool {
	if d.exact && ci.Before != d.chg || !d.exact && ci.Before <= d.chg || ci.After <= ci.Before {
		return false
	}
	d.chg, d.exact = ci.After, true
	return true
}

// chgSame: a call that reports the counter without modifying the directory.
func chgSame(d *linDir, ci virtual.ChangeInfo) bool {
	if ci.Before != ci.After || d.exact && ci.After != d.chg || !d.exact && ci.After <= d.chg {
		return false
	}
	d.chg, d.exact = ci.After, true
	return true
}

// chgRename: VirtualRename reads "before" ahead of waiting for the lock of
// the directory it may replace, so that value may be older than the state the
// rename acted on; only "after" is exact.
func chgRename(d *linDir, ci virtual.ChangeInfo, modified bool) bool {
	if ci.Before > ci.After {
		return false
	}
	if modified || !d.exact {
		if ci.After <= d.chg {
			return false
		}
	} else if ci.After != d.chg {
		return false
	}
	d.chg, d.exact = ci.After, true
	return true
}

// --- the step function ----------------------------------------------------------

type linModel struct {
	bulk      bool
	steps     int
	budget    int
	exhausted bool
	panicked  string
}

func (m *linModel) step(state, input, output interface{}) (ok bool, next interface{}) {
	m.steps++
	if m.steps > m.budget {
		// Give up: everything fails from here on, the caller looks at
		// exhausted and reports "unknown".
		m.exhausted = true
		return false, state
	}
	defer func() {
		if r := recover(); r != nil {
			if m.panicked == "" {
				m.panicked = fmt.Sprint(r)
			}
			ok, next = false, state
		}
	}()
	op := input.(*linOp)
	x := &linStepper{old: state.(*linState)}
	x.cur = x.old
	if !m.apply(x, &op.in, &op.out) {
		return false, state
	}
	return true, x.cur
}

func (m *linModel) apply(x *linStepper, in *linIn, out *linOut) bool {
	d := x.dir(in.dir) // nil: the directory has been removed
	failed := func(res string) bool { return out.res == res }
	switch in.op {
	case lLookup:
		if d == nil {
			return failed("ENOENT")
		}
		e, ok := d.ents[in.name]
		if !ok {
			return failed("ENOENT")
		}
		return out.res == "OK" && m.sameObject(x, e, out)

	case lList:
		if out.res != "OK" {
			return false
		}
		if d == nil {
			return out.names == ""
		}
		names := make([]string, 0, len(d.ents))
		for n := range d.ents {
			names = append(names, n)
		}
		sort.Strings(names)
		return out.names == strings.Join(names, ",")

	case lMkdir:
		switch {
		case d == nil:
			return failed("ENOENT")
		case has(d, in.name):
			return failed("EEXIST")
		case out.res != "OK" || out.kind != kDir:
			return false
		}
		e := linEnt{kind: kDir}
		if !m.bulk {
			if out.id == 0 || x.dir(out.id) != nil {
				return false // not a new object
			}
			e.id = out.id
			x.addDir(out.id)
		}
		nd := x.mut(in.dir)
		nd.ents[in.name] = e
		return !out.hasCI || chgMutate(nd, out.ci)

	case lOpen:
		if d == nil {
			return failed("ENOENT")
		}
		if e, ok := d.ents[in.name]; ok {
			switch {
			case in.mode == openCreateExclusive:
				return failed("EEXIST")
			case e.kind == kDir:
				return failed("EISDIR")
			case e.kind != kFile:
				return failed("ESYMLINK")
			}
			if out.res != "OK" || !m.sameObject(x, e, out) {
				return false
			}
			if !out.hasCI {
				return true
			}
			if d.exact {
				// Nothing to learn: the state stays as it is.
				return out.ci.Before == out.ci.After && out.ci.After == d.chg
			}
			return chgSame(x.mut(in.dir), out.ci)
		}
		if in.mode == openExisting {
			return failed("ENOENT")
		}
		if out.res != "OK" || out.kind != kFile || out.id == 0 || x.cur.links(out.id) != 0 {
			return false
		}
		if out.nlink >= 0 && out.nlink != 1 {
			return false
		}
		nd := x.mut(in.dir)
		nd.ents[in.name] = linEnt{kind: kFile, id: out.id}
		return !out.hasCI || chgMutate(nd, out.ci)

	case lLink:
		switch {
		case d == nil:
			return failed("ENOENT")
		case has(d, in.name):
			return failed("EEXIST")
		}
		n := x.cur.links(in.leaf)
		if n == 0 {
			return failed("ESTALE")
		}
		if out.res != "OK" || out.nlink >= 0 && out.nlink != n+1 {
			return false
		}
		nd := x.mut(in.dir)
		nd.ents[in.name] = linEnt{kind: kFile, id: in.leaf}
		return !out.hasCI || chgMutate(nd, out.ci)

	case lSymlink:
		switch {
		case d == nil:
			return failed("ENOENT")
		case has(d, in.name):
			return failed("EEXIST")
		case out.res != "OK" || out.kind != kSymlink || out.id == 0 || x.cur.links(out.id) != 0:
			return false
		}
		nd := x.mut(in.dir)
		nd.ents[in.name] = linEnt{kind: kSymlink, id: out.id}
		return !out.hasCI || chgMutate(nd, out.ci)

	case lRemove:
		if d == nil {
			return failed("ENOENT")
		}
		e, ok := d.ents[in.name]
		switch {
		case !ok:
			return failed("ENOENT")
		case e.kind == kDir && !in.rmDir:
			return failed("EPERM")
		case e.kind == kDir && !x.deletable(e):
			return failed("ENOTEMPTY")
		case e.kind != kDir && !in.rmLeaf:
			return failed("ENOTDIR")
		case out.res != "OK":
			return false
		}
		if e.kind == kDir && e.id != 0 {
			x.dropDir(e.id)
		}
		nd := x.mut(in.dir)
		delete(nd.ents, in.name)
		return !out.hasCI || chgMutate(nd, out.ci)

	case lRename:
		return m.rename(x, in, out)

	case lCreateChildren:
		if d == nil {
			return failed("ENOENT")
		}
		old, exists := d.ents[in.name]
		if exists && !in.overwrite {
			return failed("EEXIST")
		}
		if out.res != "OK" {
			return false
		}
		if exists && old.kind == kDir && old.id != 0 {
			// Replacing a tracked directory removes a whole subtree, which
			// the code under test does after it has released the
			// directory's lock: not an atomic step. The workload never asks
			// for it.
			panic("CreateChildren with overwrite over a tracked directory")
		}
		e := linEnt{kind: in.childKind, id: in.leaf, full: in.childFull}
		if in.childKind == kDir && !m.bulk {
			panic("CreateChildren with a directory outside bulk mode")
		}
		nd := x.mut(in.dir)
		nd.ents[in.name] = e
		nd.exact = false // modified, by an amount the call does not report
		return true
	}
	panic("unknown call kind")
}

func has(d *linDir, name string) bool { _, ok := d.ents[name]; return ok }

// sameObject: the call found the object the model has under the name.
func (m *linModel) sameObject(x *linStepper, e linEnt, out *linOut) bool {
	if out.kind != e.kind {
		return false
	}
	if e.kind == kDir && e.id == 0 {
		return true // identities of directories are not tracked in bulk mode
	}
	if out.id != e.id {
		return false
	}
	if e.kind == kFile && out.nlink >= 0 && out.nlink != x.cur.links(e.id) {
		return false
	}
	return true
}

func (m *linModel) rename(x *linStepper, in *linIn, out *linOut) bool {
	failed := func(res string) bool { return out.res == res }
	dOld, dNew := x.dir(in.dir), x.dir(in.dir2)
	var oldE, newE linEnt
	var oldOK, newOK bool
	if dOld != nil {
		oldE, oldOK = dOld.ents[in.name]
	}
	if dNew != nil {
		newE, newOK = dNew.ents[in.name2]
	}
	sameSlot := in.dir == in.dir2 && in.name == in.name2
	modified := false
	if newOK {
		switch {
		case !oldOK:
			return failed("ENOENT")
		case newE.kind == kDir:
			switch {
			case oldE.kind != kDir:
				return failed("EISDIR")
			case sameSlot:
				// A directory has one name only: the same object.
			case !x.deletable(newE):
				return failed("ENOTEMPTY")
			default:
				modified = true
			}
		default:
			switch {
			case oldE.kind == kDir:
				return failed("ENOTDIR")
			case oldE.id == newE.id:
				// Another (or the same) name of the same leaf: no effect.
			default:
				modified = true
			}
		}
	} else {
		switch {
		case dNew == nil:
			return failed("ENOENT")
		case !oldOK:
			return failed("ENOENT")
		default:
			modified = true
		}
	}
	if out.res != "OK" {
		return false
	}
	if modified {
		if newOK && newE.kind == kDir && newE.id != 0 {
			x.dropDir(newE.id)
		}
		delete(x.mut(in.dir).ents, in.name)
		x.mut(in.dir2).ents[in.name2] = oldE
	}
	if !out.hasCI {
		return true
	}
	if in.dir == in.dir2 {
		return out.ci.After == out.ci2.After && out.ci.Before <= out.ci.After && m.renameCounter(x, in.dir, out.ci2, modified)
	}
	return m.renameCounter(x, in.dir, out.ci, modified) && m.renameCounter(x, in.dir2, out.ci2, modified)
}

func (m *linModel) renameCounter(x *linStepper, id int, ci virtual.ChangeInfo, modified bool) bool {
	if d := x.dir(id); !modified && d.exact {
		// Nothing to learn: the state stays as it is.
		return ci.Before <= ci.After && ci.After == d.chg
	}
	return chgRename(x.mut(id), ci, modified)
}

// --- describing calls -------------------------------------------------------------

func (in *linIn) String() string {
	switch in.op {
	case lLookup:
		return fmt.Sprintf("VirtualLookup(D%d, %q, lockedAttributes=%v)", in.dir, in.name, in.locked)
	case lList:
		return fmt.Sprintf("VirtualReadDir(D%d, cookie=0, to the end)", in.dir)
	case lMkdir:
		return fmt.Sprintf("VirtualMkdir(D%d, %q)", in.dir, in.name)
	case lOpen:
		return fmt.Sprintf("VirtualOpenChild(D%d, %q, %s)", in.dir, in.name, []string{"create exclusively", "open existing", "create or open existing"}[in.mode])
	case lLink:
		return fmt.Sprintf("VirtualLink(D%d, %q, file#%d)", in.dir, in.name, in.leaf)
	case lRename:
		return fmt.Sprintf("VirtualRename(D%d, %q -> D%d, %q)", in.dir, in.name, in.dir2, in.name2)
	case lRemove:
		return fmt.Sprintf("VirtualRemove(D%d, %q, removeDirectory=%v, removeLeaf=%v)", in.dir, in.name, in.rmDir, in.rmLeaf)
	case lSymlink:
		return fmt.Sprintf("VirtualMknod(D%d, %q, symlink)", in.dir, in.name)
	case lCreateChildren:
		return fmt.Sprintf("CreateChildren(D%d, {%q: %s}, overwrite=%v)", in.dir, in.name, linEnt{kind: in.childKind, id: in.leaf, full: in.childFull}, in.overwrite)
	}
	return "?"
}

func (in *linIn) opName() string { return linOpNames[in.op] }

func (out *linOut) describe(in *linIn) string {
	s := out.res
	if out.res != "OK" {
		return s
	}
	switch in.op {
	case lLookup, lMkdir, lOpen, lSymlink:
		s += " " + linEnt{kind: out.kind, id: out.id}.String()
		if out.kind == kDir && out.id == 0 {
			s = out.res + " a directory"
		}
		if out.nlink >= 0 {
			s += fmt.Sprintf(" nlink=%d", out.nlink)
		}
	case lLink:
		if out.nlink >= 0 {
			s += fmt.Sprintf(" nlink=%d", out.nlink)
		}
	case lList:
		s += " [" + out.names + "]"
	}
	if out.hasCI {
		if in.op == lRename {
			s += fmt.Sprintf(" source{%d->%d} target{%d->%d}", out.ci.Before, out.ci.After, out.ci2.Before, out.ci2.After)
		} else {
			s += fmt.Sprintf(" change{%d->%d}", out.ci.Before, out.ci.After)
		}
	}
	return s
}

// mutates: the call (given its result) changed the entries of a directory.
func (op *linOp) mutated() []int {
	if op.out.res != "OK" {
		return nil
	}
	switch op.in.op {
	case lMkdir, lLink, lRemove, lSymlink, lCreateChildren:
		return []int{op.in.dir}
	case lOpen:
		if op.out.hasCI && op.out.ci.After != op.out.ci.Before {
			return []int{op.in.dir}
		}
	case lRename:
		if op.out.hasCI && op.out.ci2.After == op.out.ci2.Before && op.out.ci.After == op.out.ci.Before {
			return nil
		}
		if op.in.dir == op.in.dir2 {
			return []int{op.in.dir}
		}
		return []int{op.in.dir, op.in.dir2}
	}
	return nil
}

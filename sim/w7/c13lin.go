package w7

import (
	"fmt"
	"os"
	"sort"
	"strings"
	"syscall"

	"github.com/anishathalye/porcupine"
	"github.com/buildbarn/bb-remote-execution/pkg/filesystem/virtual"
	"github.com/buildbarn/bb-remote-execution/pkg/verifsim/simrun"
	"github.com/buildbarn/bb-remote-execution/pkg/verifsim/simsync"
	"github.com/buildbarn/bb-storage/pkg/filesystem"
	"github.com/buildbarn/bb-storage/pkg/filesystem/path"
)

// Linearizability configuration of C13: 2-4 callers issue at most 24 calls
// in total on a small universe (names a, b, c; a few directories), every
// Lock/TryLock/RLock of the code under test being a scheduling point. Every
// call is recorded with an invoke and a return stamp from one event counter,
// its input and its complete answer; after the run the history is handed to
// porcupine together with the sequential model of c13linmodel.go. A history
// for which no order of the calls exists that respects real time (a call that
// returned before another was invoked comes first) and in which every call
// gives the answer the sequential POSIX-style reference gives, is reported as
// C13/not-linearizable.
//
// Two variants, chosen per run:
//
//   tree  the fixed directories D1 (the root), D2 (somewhere below the root
//         under one of the names a, b, c, holding a file "k" that no call
//         ever names, so it is never empty and never removed) and D3 (root/"q",
//         a name no call ever uses), plus every directory a caller has made or
//         looked up itself. Identities of all objects, link counts of regular
//         files (as seen by lookups and opens) and ChangeInfo are compared.
//         Calls on directories that have meanwhile been removed are part of the
//         workload. CreateChildren never overwrites here.
//
//   bulk  D1 and D3 only; directories below them are anonymous (they are either
//         empty or hold one file nobody names) and calls are never made on
//         them, except for unjudged lookups whose only purpose is to keep
//         such a directory's lock busy. That makes CreateChildren with
//         overwrite an atomic step as far as anybody can tell (the subtree it
//         detaches is torn down after the directory's lock has been released,
//         but nobody can look at it), so it is part of the mix: a name that is
//         replaced stays bound at every instant. No hard links, no link counts.
//
// What is deliberately left out: listings that request attributes needing
// child directory locks (VirtualReadDir documents that it releases the lock
// of the listed directory to wait for them: such a listing is not one atomic
// step), RemoveAll and RemoveAllChildren (subtrees are torn down after the
// lock was released), CreateChildren with overwrite where the replaced
// subtree could be looked at, hard links to symbolic links (whether a removed
// symbolic link can be linked again depends on the handle allocator), the
// link count reported by VirtualLink itself (read after the link was made,
// not atomically with it), named attributes, injected faults, renames of a
// directory into a directory that is not one of the fixed ones, and renames
// from elsewhere into D2 (both so that no directory can end up inside itself,
// whatever the interleaving).

var linNames = []string{"a", "b", "c"}

type linOp struct {
	caller   int
	n        int
	in       linIn
	out      linOut
	inv, ret int64
	returned bool
	backoffs int
}

func (op *linOp) String() string {
	return fmt.Sprintf("caller%d #%d [invoke %d, return %d] %s = %s", op.caller, op.n, op.inv, op.ret, &op.in, op.out.describe(&op.in))
}

type linWorld struct {
	e    *env
	r    *simrun.Run
	k    *simsync.Kernel
	t    *simsync.Tape
	bulk bool

	seq      int64 // the one event counter: advanced at every invoke and return
	ops      []*linOp
	issued   int // judged calls drawn so far (some may not have been invoked yet)
	maxTotal int

	ids     map[interface{}]int
	nextID  int
	dirObj  map[int]virtual.PrepopulatedDirectory
	leafObj map[int]virtual.Leaf
	fixed   []int // directories that calls name without having looked them up
	d2      int   // identity of the fixed directory that lives under a, b or c (tree variant)
	init    *linState
	// regular files and (tree variant) non-fixed directories of the initial tree
	initFiles, initDirs []int

	callers  []*linCaller
	stopping bool
	overlap  bool
	track    map[string]*lockTrack
	noise    int
}

type linCaller struct {
	w     *linWorld
	idx   int
	name  string
	actor *simsync.Actor
	cur   *linOp
	curD  string // description of an unjudged call in progress
	n     int
	dirs  []int // tree: directories this caller has made or looked up
	files []int // regular files this caller has made, opened or looked up
	// bulk: anonymous directories this caller has looked up
	noiseDirs []virtual.PrepopulatedDirectory
}

func runLinearizable(r *simrun.Run) {
	t := r.T
	nCallers := 2 + t.Choice(3)
	perCaller := 3 + t.Choice(5)
	bulk := t.Bool(1, 3)
	switch os.Getenv("W7_LIN") { // for experiments and triage only
	case "tree":
		bulk = false
	case "bulk":
		bulk = true
	}
	e := newEnvWith(r, "C13", false, func(c *config) {
		c.hidden, c.faults, c.namedAttrs = false, false, false
	})
	e.parkFetch = bulk
	w := &linWorld{e: e, r: r, k: e.k, t: t, bulk: bulk, maxTotal: 24,
		ids: map[interface{}]int{}, dirObj: map[int]virtual.PrepopulatedDirectory{}, leafObj: map[int]virtual.Leaf{}, track: map[string]*lockTrack{}}
	w.build()
	variant := "tree"
	if bulk {
		variant = "bulk"
	}
	r.Logf("linearizability configuration (%s): %d callers, %d calls each, at most %d in total; initial state %s", variant, nCallers, perCaller, w.maxTotal, w.init)
	for i := 0; i < nCallers; i++ {
		c := &linCaller{w: w, idx: i, name: fmt.Sprintf("caller%d", i)}
		// Every caller knows the objects of the initial tree, as if it had
		// looked them up before the history begins.
		c.files = append(c.files, w.initFiles...)
		c.dirs = append(c.dirs, w.initDirs...)
		c.actor = e.k.Spawn(c.name, func() { c.loop(perCaller) })
		w.callers = append(w.callers, c)
		w.track[c.name] = &lockTrack{}
	}
	e.k.AfterStep = w.afterStep
	idle := e.k.Run(6000)
	if !e.k.Failed() && !(idle && !w.allDone()) {
		e.k.Note("drain: no new calls")
		w.stopping = true
		idle = e.k.Run(60000)
	}
	returned := 0
	for _, op := range w.ops {
		if op.returned {
			returned++
		}
	}
	r.Count("lin_calls_returned", returned)
	r.Count("lin_unjudged_lock_holding_lookups", w.noise)
	if e.k.Failed() {
		return
	}
	if !w.allDone() {
		// A call that never returns is C14's business; the history is not
		// judged then (an unfinished call may or may not have taken effect).
		lw, bl, sp := e.k.Stuck()
		rule, what := "C14/call-never-returned", "calls are still in progress after the step budget of the drain phase"
		if idle {
			rule, what = "C14/deadlock", "no caller can make progress"
		}
		var parts []string
		for _, c := range w.callers {
			if c.cur != nil {
				parts = append(parts, c.name+": "+c.cur.in.String())
			} else if c.curD != "" {
				parts = append(parts, c.name+": "+c.curD)
			}
		}
		e.k.Violate(rule, fmt.Sprintf("%s; calls in progress: %s; lock-waiters=%v blocked=%v parked=%v held=%v", what, strings.Join(parts, "; "), lw, bl, sp, e.k.HeldLocks()))
		return
	}
	if held := e.k.HeldLocks(); len(held) > 0 {
		e.k.Violate("C14/mutex-held-at-idle", fmt.Sprintf("all callers have finished but simulated mutexes are still held: %v", held))
		return
	}
	checked := w.judge()
	r.State(fmt.Sprintf("linearizable/%s/callers=%d/overlap=%v", variant, nCallers, w.overlap))
	r.NonTrivial = checked && returned >= 6 && w.overlap
}

func (w *linWorld) allDone() bool {
	for _, c := range w.callers {
		if !c.actor.Done() {
			return false
		}
	}
	return true
}

func (w *linWorld) stamp() int64 { w.seq++; return w.seq }

func (w *linWorld) idOf(obj interface{}) int {
	if id, ok := w.ids[obj]; ok {
		return id
	}
	w.nextID++
	w.ids[obj] = w.nextID
	return w.nextID
}

func (w *linWorld) regDir(d virtual.PrepopulatedDirectory) int {
	id := w.idOf(d)
	w.dirObj[id] = d
	return id
}

func (w *linWorld) regLeaf(l virtual.Leaf) int {
	id := w.idOf(l)
	w.leafObj[id] = l
	return id
}

func changeOf(d virtual.PrepopulatedDirectory) uint64 {
	var a virtual.Attributes
	d.VirtualGetAttributes(ctx, virtual.AttributesMaskChangeID, &a)
	return a.GetChangeID()
}

// build makes the initial tree from the controller goroutine and the model
// state that describes it.
func (w *linWorld) build() {
	e, t := w.e, w.t
	root := e.roots[0]
	st := &linState{dirs: map[int]*linDir{}}
	d1 := w.regDir(root)
	st.dirs[d1] = &linDir{ents: map[string]linEnt{}}
	fixedObjs := []virtual.PrepopulatedDirectory{root}

	newLeaf := func(kind nodeKind) (virtual.LinkableLeaf, int) {
		spec := &lazySpec{children: []*lazyChild{{name: "x", kind: lkFile, size: 1}}}
		if kind == kSymlink {
			spec.children[0].kind, spec.children[0].target = lkSymlink, e.newTarget()
		}
		_, _ = e.buildChildren(spec)
		l := spec.children[0].leaf
		return l, w.regLeaf(l)
	}
	attachLeaf := func(dir virtual.PrepopulatedDirectory, dirID int, name string, kind nodeKind) int {
		l, id := newLeaf(kind)
		mustNil(dir.CreateChildren(map[path.Component]virtual.InitialChild{comp(name): virtual.InitialChild{}.FromLeaf(l)}, false), "initial tree")
		st.dirs[dirID].ents[name] = linEnt{kind: kind, id: id}
		return id
	}

	if w.bulk {
		// D1 = root, D3 = root/"q"; below them anonymous directories.
		q, err := root.CreateAndEnterPrepopulatedDirectory(comp("q"))
		mustNil(err, "initial tree")
		w.nextID++ // keep the numbering of the tree variant: D3 is "q"
		d3 := w.regDir(q)
		st.dirs[d3] = &linDir{ents: map[string]linEnt{}}
		st.dirs[d1].ents["q"] = linEnt{kind: kDir, id: d3}
		fixedObjs = append(fixedObjs, q)
		w.fixed = []int{d1, d3}
		for i, dir := range fixedObjs {
			id := w.fixed[i]
			for _, name := range linNames {
				switch t.Weighted([]int{3, 3, 1, 2, 4}) {
				case 1:
					attachLeaf(dir, id, name, kFile)
				case 2:
					attachLeaf(dir, id, name, kSymlink)
				case 3:
					mustNil(dir.CreateChildren(map[path.Component]virtual.InitialChild{comp(name): w.anonDir(false)}, false), "initial tree")
					st.dirs[id].ents[name] = linEnt{kind: kDir}
				case 4:
					mustNil(dir.CreateChildren(map[path.Component]virtual.InitialChild{comp(name): w.anonDir(true)}, false), "initial tree")
					st.dirs[id].ents[name] = linEnt{kind: kDir, full: true}
				}
			}
		}
	} else {
		// D1 = root, D2 = root/<a, b or c> holding "k", D3 = root/"q".
		d2name := pick(t, linNames)
		p, err := root.CreateAndEnterPrepopulatedDirectory(comp(d2name))
		mustNil(err, "initial tree")
		d2 := w.regDir(p)
		st.dirs[d2] = &linDir{ents: map[string]linEnt{}}
		st.dirs[d1].ents[d2name] = linEnt{kind: kDir, id: d2}
		q, err := root.CreateAndEnterPrepopulatedDirectory(comp("q"))
		mustNil(err, "initial tree")
		d3 := w.regDir(q)
		st.dirs[d3] = &linDir{ents: map[string]linEnt{}}
		st.dirs[d1].ents["q"] = linEnt{kind: kDir, id: d3}
		fixedObjs = append(fixedObjs, p, q)
		w.fixed = []int{d1, d2, d3}
		w.d2 = d2
		files := []int{attachLeaf(p, d2, "k", kFile)}
		defer func() { w.initFiles = files }()
		for i, dir := range fixedObjs {
			id := w.fixed[i]
			for _, name := range linNames {
				if has(st.dirs[id], name) {
					continue
				}
				switch t.Weighted([]int{5, 3, 1, 2, 2}) {
				case 1:
					files = append(files, attachLeaf(dir, id, name, kFile))
				case 2:
					attachLeaf(dir, id, name, kSymlink)
				case 3:
					sub, err := dir.CreateAndEnterPrepopulatedDirectory(comp(name))
					mustNil(err, "initial tree")
					sid := w.regDir(sub)
					w.initDirs = append(w.initDirs, sid)
					st.dirs[sid] = &linDir{ents: map[string]linEnt{}}
					st.dirs[id].ents[name] = linEnt{kind: kDir, id: sid}
				case 4:
					// A second name for a file that is already there.
					if len(files) == 0 {
						continue
					}
					fid := pick(t, files)
					l := w.leafObj[fid].(virtual.LinkableLeaf)
					if s := l.Link(); s != virtual.StatusOK {
						panic(harness("initial tree: cannot link: " + stName(s)))
					}
					mustNil(dir.CreateChildren(map[path.Component]virtual.InitialChild{comp(name): virtual.InitialChild{}.FromLeaf(l)}, false), "initial tree")
					st.dirs[id].ents[name] = linEnt{kind: kFile, id: fid}
				}
			}
		}
	}
	ids := make([]int, 0, len(st.dirs))
	for id := range st.dirs {
		ids = append(ids, id)
	}
	sort.Ints(ids)
	for _, id := range ids {
		st.dirs[id].chg, st.dirs[id].exact = changeOf(w.dirObj[id]), true
	}
	if held := e.k.HeldLocks(); len(held) > 0 {
		panic(harness(fmt.Sprintf("initial tree: locks still held: %v", held)))
	}
	w.init = st
}

// anonDir is the initial contents of a directory nobody will make calls on
// (bulk variant): empty, or one file.
func (w *linWorld) anonDir(full bool) virtual.InitialChild {
	w.e.specSeq++
	spec := &lazySpec{id: w.e.specSeq}
	if full {
		spec.children = []*lazyChild{{name: "k", kind: lkFile, size: 1}}
	}
	return virtual.InitialChild{}.FromDirectory(&simFetcher{e: w.e, spec: spec})
}

// --- callers ------------------------------------------------------------------------

func (c *linCaller) loop(maxOps int) {
	w := c.w
	for c.n = 0; c.n < maxOps; c.n++ {
		w.k.Yield("next")
		if w.stopping || w.issued >= w.maxTotal {
			return
		}
		c.call()
	}
}

// invoke stamps the call and makes it part of the history. The caller is the
// only goroutine running (it was resumed by the controller and has not parked
// since), so the counter needs no lock and its values do not depend on the Go
// scheduler.
func (c *linCaller) invoke(in linIn) *linOp {
	w := c.w
	op := &linOp{caller: c.idx, n: c.n, in: in, out: linOut{nlink: -1}}
	op.inv = w.stamp()
	w.ops = append(w.ops, op)
	c.cur = op
	w.r.Logf("%s #%d %s", c.name, c.n, &op.in)
	w.k.Annotate("%s #%d invokes %s (event %d)", c.name, c.n, &op.in, op.inv)
	return op
}

// returned stamps the return; it is called right after the call under test
// came back, before anything else that could park.
func (c *linCaller) returned(op *linOp, res string) {
	w := c.w
	op.ret = w.stamp()
	op.returned = true
	op.out.res = res
	c.cur = nil
	w.k.Probe("lin:" + op.in.opName() + ":" + res)
	suffix := " held by " + c.name
	for _, h := range w.k.HeldLocks() {
		if strings.HasSuffix(h, suffix) {
			w.k.Violate("C14/mutex-held-at-idle", fmt.Sprintf("%s: the call has returned %s but a simulated mutex is still held: %s", &op.in, res, h))
			panic(simsync.Poison{})
		}
	}
}

func (c *linCaller) done(op *linOp) {
	c.w.k.Annotate("%s #%d returned %s (event %d)", c.name, c.n, op.out.describe(&op.in), op.ret)
}

type linReporter struct{ names []string }

func (r *linReporter) ReportEntry(nextCookie uint64, name path.Component, child virtual.DirectoryChild, attributes *virtual.Attributes) bool {
	r.names = append(r.names, name.String())
	return true
}

// identify fills in what a call found or made.
func (c *linCaller) identify(op *linOp, dir virtual.Directory, leaf virtual.Leaf, attrs *virtual.Attributes, withLinks bool) {
	w := c.w
	if dir != nil {
		op.out.kind = kDir
		pd, ok := dir.(virtual.PrepopulatedDirectory)
		if !ok {
			panic(harness("a directory of an unexpected type was returned"))
		}
		if w.bulk {
			if _, fixed := w.ids[interface{}(pd)]; !fixed {
				c.noiseDirs = append(c.noiseDirs, pd)
				if len(c.noiseDirs) > 4 {
					c.noiseDirs = c.noiseDirs[1:]
				}
			}
			return
		}
		op.out.id = w.regDir(pd)
		for _, f := range w.fixed {
			if f == op.out.id {
				return
			}
		}
		for _, x := range c.dirs {
			if x == op.out.id {
				return
			}
		}
		c.dirs = append(c.dirs, op.out.id)
		return
	}
	op.out.id = w.regLeaf(leaf)
	switch ft := attrs.GetFileType(); ft {
	case filesystem.FileTypeRegularFile:
		op.out.kind = kFile
		if withLinks && !w.bulk {
			op.out.nlink = int(attrs.GetLinkCount())
		}
		for _, x := range c.files {
			if x == op.out.id {
				return
			}
		}
		c.files = append(c.files, op.out.id)
	case filesystem.FileTypeSymlink:
		op.out.kind = kSymlink
	default:
		panic(harness("a leaf of an unexpected type was returned: " + fileTypeNames[ft]))
	}
}

func (c *linCaller) pickDir() int {
	w := c.w
	if !w.bulk && len(c.dirs) > 0 && w.t.Bool(2, 5) {
		return pick(w.t, c.dirs)
	}
	return pick(w.t, w.fixed)
}

// renameTarget: the target directory of a rename is always one of the fixed
// directories, and D2 only for renames within D2. Fixed directories are
// never inside a directory that a caller made, D3 never moves and D2 only
// moves between D1 and D3, so no rename can put a directory inside itself,
// whatever the other callers are doing.
func (c *linCaller) renameTarget(src int) int {
	w := c.w
	var cands []int
	for _, f := range w.fixed {
		if f == w.d2 && src != w.d2 {
			continue
		}
		cands = append(cands, f)
		if f == src {
			cands = append(cands, f) // renames within one directory are half of the mix
		}
	}
	return pick(w.t, cands)
}

// call draws one call with all its parameters from the tape (the caller was
// just resumed) and performs it.
func (c *linCaller) call() {
	w := c.w
	t := w.t
	e := w.e
	dir := c.pickDir()
	d := w.dirObj[dir]
	name := pick(t, linNames)
	//               lookup list mkdir open link rename remove symlink createChildren noise
	weights := []int{14, 8, 8, 12, 10, 18, 12, 5, 4, 0}
	if w.bulk {
		weights = []int{14, 8, 6, 8, 0, 14, 10, 3, 16, 10}
	}
	if len(c.files) == 0 {
		weights[4] = 0
	}
	if len(c.noiseDirs) == 0 {
		weights[9] = 0
	}
	kind := t.Weighted(weights)
	if weights[kind] == 0 {
		// Only a replayed tape that was cut down can ask for this.
		kind = 0
	}
	if kind != 9 {
		w.issued++
	}
	switch kind {
	case 0:
		mask := baseMask
		locked := t.Bool(1, 2)
		if locked {
			mask = lockedMask
		}
		op := c.invoke(linIn{op: lLookup, dir: dir, name: name, locked: locked})
		var out virtual.Attributes
		child, st := d.VirtualLookup(ctx, comp(name), mask, &out)
		c.returned(op, stName(st))
		if st == virtual.StatusOK {
			cd, cl := child.GetPair()
			c.identify(op, cd, cl, &out, true)
		}
		c.done(op)
	case 1:
		op := c.invoke(linIn{op: lList, dir: dir})
		rep := &linReporter{}
		st := d.VirtualReadDir(ctx, 0, baseMask, rep)
		c.returned(op, stName(st))
		sort.Strings(rep.names)
		op.out.names = strings.Join(rep.names, ",")
		c.done(op)
	case 2:
		op := c.invoke(linIn{op: lMkdir, dir: dir, name: name})
		var out virtual.Attributes
		child, ci, st := d.VirtualMkdir(ctx, comp(name), &virtual.Attributes{}, lockedMask, &out)
		c.returned(op, stName(st))
		if st == virtual.StatusOK {
			op.out.hasCI, op.out.ci = true, ci
			c.identify(op, child, nil, &out, false)
		}
		c.done(op)
	case 3:
		mode := t.Choice(3)
		var create *virtual.Attributes
		var existing *virtual.OpenExistingOptions
		if mode != openExisting {
			create = (&virtual.Attributes{}).SetPermissions(virtual.PermissionsRead | virtual.PermissionsWrite)
		}
		if mode != openCreateExclusive {
			existing = &virtual.OpenExistingOptions{}
		}
		op := c.invoke(linIn{op: lOpen, dir: dir, name: name, mode: mode})
		var out virtual.Attributes
		share := virtual.ShareMaskRead
		leaf, _, ci, st := d.VirtualOpenChild(ctx, comp(name), share, create, existing, baseMask, &out)
		c.returned(op, stName(st))
		if st == virtual.StatusOK {
			op.out.hasCI, op.out.ci = true, ci
			c.identify(op, nil, leaf, &out, true)
			leaf.VirtualClose(share)
		}
		c.done(op)
	case 4:
		fid := pick(t, c.files)
		op := c.invoke(linIn{op: lLink, dir: dir, name: name, leaf: fid})
		var out virtual.Attributes
		ci, st := d.VirtualLink(ctx, comp(name), w.leafObj[fid], baseMask, &out)
		c.returned(op, stName(st))
		if st == virtual.StatusOK {
			op.out.hasCI, op.out.ci = true, ci
		}
		c.done(op)
	case 5:
		dir2 := c.renameTarget(dir)
		name2 := pick(t, linNames)
		op := c.invoke(linIn{op: lRename, dir: dir, name: name, dir2: dir2, name2: name2})
		ci, ci2, st := d.VirtualRename(ctx, comp(name), w.dirObj[dir2], comp(name2))
		c.returned(op, stName(st))
		if st == virtual.StatusOK {
			op.out.hasCI, op.out.ci, op.out.ci2 = true, ci, ci2
		}
		c.done(op)
	case 6:
		flags := pick(t, [][2]bool{{true, true}, {true, false}, {false, true}})
		op := c.invoke(linIn{op: lRemove, dir: dir, name: name, rmDir: flags[0], rmLeaf: flags[1]})
		ci, st := d.VirtualRemove(ctx, comp(name), flags[0], flags[1])
		c.returned(op, stName(st))
		if st == virtual.StatusOK {
			op.out.hasCI, op.out.ci = true, ci
		}
		c.done(op)
	case 7:
		attrs := (&virtual.Attributes{}).SetFileType(filesystem.FileTypeSymlink)
		attrs.SetSymlinkTarget(path.UNIXFormat.NewParser(e.newTarget()))
		op := c.invoke(linIn{op: lSymlink, dir: dir, name: name})
		var out virtual.Attributes
		leaf, ci, st := d.VirtualMknod(ctx, comp(name), attrs, baseMask, &out)
		c.returned(op, stName(st))
		if st == virtual.StatusOK {
			op.out.hasCI, op.out.ci = true, ci
			c.identify(op, nil, leaf, &out, false)
		}
		c.done(op)
	case 8:
		// The worker-facing bulk creation, with one child. The child is made
		// before the call is invoked: it is an input.
		in := linIn{op: lCreateChildren, dir: dir, name: name}
		childClass := 0 // a leaf; the tree variant creates nothing else this way
		if w.bulk {
			in.overwrite = t.Bool(3, 4)
			childClass = t.Weighted([]int{3, 1, 2})
		}
		var child virtual.InitialChild
		var leaf virtual.LinkableLeaf
		switch childClass {
		case 0:
			spec := &lazySpec{children: []*lazyChild{{name: name, kind: lkFile, size: 1}}}
			if in.childKind = kFile; t.Bool(1, 3) {
				in.childKind = kSymlink
				spec.children[0].kind, spec.children[0].target = lkSymlink, e.newTarget()
			}
			// Creating the leaf takes locks of the handle allocator, i.e.
			// parks: nothing is drawn from the tape after this point.
			_, _ = e.buildChildren(spec)
			leaf = spec.children[0].leaf
			in.leaf = w.regLeaf(leaf)
			child = virtual.InitialChild{}.FromLeaf(leaf)
		case 1:
			in.childKind = kDir
			child = w.anonDir(false)
		case 2:
			in.childKind, in.childFull = kDir, true
			child = w.anonDir(true)
		}
		op := c.invoke(in)
		err := d.CreateChildren(map[path.Component]virtual.InitialChild{comp(name): child}, in.overwrite)
		c.returned(op, linErrName(err))
		if err != nil && leaf != nil {
			leaf.Unlink()
		}
		c.done(op)
	case 9:
		// Not part of the history: look up the file inside an anonymous
		// directory, which keeps that directory's lock for a while (and
		// fetches its contents first, if nobody has yet).
		nd := pick(t, c.noiseDirs)
		mask := baseMask
		if t.Bool(1, 2) {
			mask = lockedMask
		}
		c.curD = "VirtualLookup(<anonymous directory>, \"k\") [not judged]"
		w.k.Annotate("%s #%d %s", c.name, c.n, c.curD)
		var out virtual.Attributes
		_, st := nd.VirtualLookup(ctx, comp("k"), mask, &out)
		c.curD = ""
		w.noise++
		w.k.Probe("lin:unjudged-lookup:" + stName(st))
	}
}

func linErrName(err error) string {
	switch {
	case err == nil:
		return "OK"
	case errnoIs(err, syscall.ENOENT):
		return "ENOENT"
	case errnoIs(err, syscall.EEXIST):
		return "EEXIST"
	}
	return err.Error()
}

// afterStep: overlap and LockPile back-off detection (as in the presence
// configuration).
func (w *linWorld) afterStep() {
	k := w.k
	busy := 0
	for _, c := range w.callers {
		if c.cur != nil && !c.actor.Done() {
			busy++
		}
	}
	if busy >= 2 && !w.overlap {
		w.overlap = true
		k.Probe("lin_runs_with_overlapping_calls")
	}
	a := k.LastActor
	if a == nil {
		return
	}
	tr := w.track[a.Name]
	if tr == nil {
		return
	}
	n := 0
	suffix := " held by " + a.Name
	for _, h := range k.HeldLocks() {
		if strings.HasSuffix(h, suffix) {
			n++
		}
	}
	switch {
	case strings.HasPrefix(k.LastKey, "trylock "):
		tr.tryPending = tr.heldPrev >= 1 && n == 0 && a.Parked() && !a.ParkedAtSeam()
	case strings.HasPrefix(k.LastKey, "lock "):
		if tr.tryPending {
			for _, c := range w.callers {
				if c.name == a.Name && c.cur != nil {
					c.cur.backoffs++
					k.Probe("lin_judged_call_backed_off_for_busy_lock")
				}
			}
			k.Annotate("%s: waited for a busy lock with everything else released (LockPile back-off)", a.Name)
		}
		tr.tryPending = false
	default:
		tr.tryPending = false
	}
	tr.heldPrev = n
}

// --- judging the history ---------------------------------------------------------------

// judge hands the history to porcupine. It runs on the controller goroutine
// after every caller has finished; no clock is involved: instead of a
// timeout the model counts its steps and gives up (result "unknown", never a
// violation) beyond a budget.
func (w *linWorld) judge() bool {
	if len(w.ops) == 0 {
		return false
	}
	history := make([]porcupine.Operation, 0, len(w.ops))
	for _, op := range w.ops {
		if !op.returned {
			panic(harness("every caller has finished but a call has no return stamp"))
		}
		history = append(history, porcupine.Operation{ClientId: op.caller, Input: op, Call: op.inv, Output: op, Return: op.ret})
	}
	check := func(verbose bool) (porcupine.CheckResult, porcupine.LinearizationInfo, *linModel) {
		m := &linModel{bulk: w.bulk, budget: 400000}
		model := porcupine.Model{
			Init:  func() interface{} { return w.init },
			Step:  m.step,
			Equal: linEqual,
		}
		var res porcupine.CheckResult
		var info porcupine.LinearizationInfo
		if verbose {
			res, info = porcupine.CheckOperationsVerbose(model, history, 0)
		} else if porcupine.CheckOperations(model, history) {
			res = porcupine.Ok
		} else {
			res = porcupine.Illegal
		}
		if m.panicked != "" {
			panic(harness("the sequential model panicked: " + m.panicked))
		}
		if m.exhausted {
			res = porcupine.Unknown
		}
		return res, info, m
	}
	res, _, m := check(false)
	w.r.Count("lin_model_steps", m.steps)
	w.k.Probe("linearizable-history-checked")
	w.probeShape()
	switch res {
	case porcupine.Ok:
		return true
	case porcupine.Unknown:
		w.k.Probe("linearizability-unknown")
		return false
	}
	// Not linearizable: once more, collecting the longest order found.
	res, info, _ := check(true)
	if res != porcupine.Illegal {
		w.k.Probe("linearizability-unknown")
		return false
	}
	w.k.Violate("C13/not-linearizable", w.explain(info))
	return true
}

func overlaps(a, b *linOp) bool { return a.inv < b.ret && b.inv < a.ret }

func (w *linWorld) probeShape() {
	mutOverlap, crossOverlap := false, false
	for i, a := range w.ops {
		ma := a.mutated()
		cross := a.in.op == lRename && a.in.dir != a.in.dir2 && len(ma) > 0
		for j, b := range w.ops {
			if i == j || !overlaps(a, b) {
				continue
			}
			if cross {
				crossOverlap = true
			}
			if j < i {
				continue
			}
			for _, x := range ma {
				for _, y := range b.mutated() {
					if x == y {
						mutOverlap = true
					}
				}
			}
		}
	}
	if mutOverlap {
		w.k.Probe("lin-overlapping-mutations")
	}
	if crossOverlap {
		w.k.Probe("lin-cross-directory-rename-overlapped")
	}
}

// explain prints the history and the longest order of calls the search could
// justify, for a human to triage.
func (w *linWorld) explain(info porcupine.LinearizationInfo) string {
	var sb strings.Builder
	variant := "tree"
	if w.bulk {
		variant = "bulk"
	}
	fmt.Fprintf(&sb, "no order of these %d calls that respects real time (a call that returned before another was invoked comes first) gives every call the answer the sequential POSIX-style reference gives (%s variant).\ninitial state: %s\nhistory, by invocation (D<n> = directory object n; events are numbered by one counter):\n", len(w.ops), variant, w.init)
	for i, op := range w.ops {
		fmt.Fprintf(&sb, "  [%d] %s", i, op)
		if op.backoffs > 0 {
			fmt.Fprintf(&sb, "  (waited %d time(s) for a busy lock with all its locks released)", op.backoffs)
		}
		sb.WriteString("\n")
	}
	var best []int
	for _, part := range info.PartialLinearizations() {
		for _, lin := range part {
			if len(lin) > len(best) || len(lin) == len(best) && lessInts(lin, best) {
				best = lin
			}
		}
	}
	if len(best) > 0 {
		in := map[int]bool{}
		fmt.Fprintf(&sb, "longest justifiable order (%d of %d calls):", len(best), len(w.ops))
		for _, i := range best {
			in[i] = true
			fmt.Fprintf(&sb, " [%d]", i)
		}
		// State the model is in after that order.
		m := &linModel{bulk: w.bulk, budget: 1 << 30}
		var st interface{} = w.init
		for _, i := range best {
			if i >= 0 && i < len(w.ops) {
				_, st = m.step(st, w.ops[i], w.ops[i])
			}
		}
		fmt.Fprintf(&sb, "\nstate after it: %s\nnot placed:", st.(*linState))
		for i := range w.ops {
			if !in[i] {
				fmt.Fprintf(&sb, " [%d]", i)
			}
		}
	}
	return sb.String()
}

func lessInts(a, b []int) bool {
	for i := range a {
		if i >= len(b) || a[i] != b[i] {
			return i < len(b) && a[i] < b[i]
		}
	}
	return false
}

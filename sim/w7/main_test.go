package w7

import (
	"testing"

	"github.com/buildbarn/bb-remote-execution/pkg/verifsim/simrun"
)

func TestSim(t *testing.T) {
	simrun.Main(t, map[string]simrun.World{"C13": World("C13"), "C14": World("C14")})
}

package w9

import (
	"context"
	"encoding/binary"
	"fmt"
	"io"
	"sync"

	"github.com/buildbarn/bb-remote-execution/pkg/filesystem/pool"
	"github.com/buildbarn/bb-remote-execution/pkg/filesystem/virtual"
	"github.com/buildbarn/bb-remote-execution/pkg/verifsim/simsync"
	"github.com/buildbarn/bb-storage/pkg/filesystem"
)

// ---------------------------------------------------------------------------
// Deterministic random number generators handed to the code under test.
// ---------------------------------------------------------------------------

// splitmix is a deterministic random.SingleThreadedGenerator. Every user
// (NFSv4.0 program, NFSv4.1 program) gets its own instance; they are only
// used under the respective program's lock, so the sequence of draws is a
// function of the schedule.
type splitmix struct{ s uint64 }

func (g *splitmix) Uint64() uint64 {
	g.s += 0x9e3779b97f4a7c15
	z := g.s
	z = (z ^ (z >> 30)) * 0xbf58476d1ce4e5b9
	z = (z ^ (z >> 27)) * 0x94d049bb133111eb
	return z ^ (z >> 31)
}
func (g *splitmix) Uint32() uint32                     { return uint32(g.Uint64() >> 32) }
func (g *splitmix) Float64() float64                   { return float64(g.Uint64()>>11) / (1 << 53) }
func (g *splitmix) Int64N(n int64) int64               { return int64(g.Uint64() % uint64(n)) }
func (g *splitmix) IntN(n int) int                     { return int(g.Uint64() % uint64(n)) }
func (g *splitmix) Shuffle(n int, swap func(i, j int)) {}
func (g *splitmix) Read(p []byte) (int, error) {
	for i := 0; i < len(p); i += 8 {
		var b [8]byte
		binary.LittleEndian.PutUint64(b[:], g.Uint64())
		copy(p[i:], b[:])
	}
	return len(p), nil
}

// handleRNG feeds the NFS handle allocator: the n-th draw is base+n, so the
// harness knows the file handle of the n-th file that gets created (all
// files are created in the single root directory, under its lock).
type handleRNG struct{ n uint64 }

const handleBase = 0x5eed000000000000

func (g *handleRNG) Uint64() uint64 {
	g.n++
	return handleBase + g.n
}
func (g *handleRNG) Uint32() uint32                     { return uint32(g.Uint64()) }
func (g *handleRNG) Float64() float64                   { return 0 }
func (g *handleRNG) Int64N(n int64) int64               { return 0 }
func (g *handleRNG) IntN(n int) int                     { return 0 }
func (g *handleRNG) Shuffle(n int, swap func(i, j int)) {}
func (g *handleRNG) Read(p []byte) (int, error) {
	panic(simsync.HarnessError{Msg: "handle allocator unexpectedly called Read()"})
}

// fhOfLeaf returns the file handle of the i-th (0-based) file created. Draw 1
// is the root directory.
func fhOfLeaf(i int) []byte {
	var b [8]byte
	binary.LittleEndian.PutUint64(b[:], handleBase+2+uint64(i))
	return b[:]
}

func leafOfFH(fh []byte) (int, bool) {
	if len(fh) != 8 {
		return 0, false
	}
	v := binary.LittleEndian.Uint64(fh)
	if v < handleBase+2 || v > handleBase+2+1000 {
		return 0, false
	}
	return int(v - handleBase - 2), true
}

// ---------------------------------------------------------------------------
// In-memory file pool (backing store of the real pool-backed files).
// ---------------------------------------------------------------------------

type memPool struct{ w *world }

type memFile struct {
	data   []byte
	closed bool
}

func (p *memPool) NewFile(holeSource pool.HoleSource, size uint64) (filesystem.FileReadWriter, error) {
	return &memFile{data: make([]byte, size)}, nil
}

func (f *memFile) ReadAt(p []byte, off int64) (int, error) {
	if f.closed {
		panic("memFile: read after the backing file was released")
	}
	if off >= int64(len(f.data)) {
		return 0, io.EOF
	}
	n := copy(p, f.data[off:])
	if n < len(p) {
		return n, io.EOF
	}
	return n, nil
}

func (f *memFile) WriteAt(p []byte, off int64) (int, error) {
	if f.closed {
		panic("memFile: write after the backing file was released")
	}
	if end := off + int64(len(p)); end > int64(len(f.data)) {
		f.data = append(f.data, make([]byte, end-int64(len(f.data)))...)
	}
	copy(f.data[off:], p)
	return len(p), nil
}

func (f *memFile) Truncate(size int64) error {
	if f.closed {
		panic("memFile: truncate after the backing file was released")
	}
	if size <= int64(len(f.data)) {
		f.data = f.data[:size]
	} else {
		f.data = append(f.data, make([]byte, size-int64(len(f.data)))...)
	}
	return nil
}

func (f *memFile) Sync() error { return nil }
func (f *memFile) Len() (int64, error) {
	return int64(len(f.data)), nil
}

func (f *memFile) Close() error {
	if f.closed {
		panic("memFile: backing file released twice")
	}
	f.closed = true
	return nil
}

func (f *memFile) GetNextRegionOffset(off int64, regionType filesystem.RegionType) (int64, error) {
	if off >= int64(len(f.data)) {
		return 0, io.EOF
	}
	if regionType == filesystem.Data {
		return off, nil
	}
	return int64(len(f.data)), nil
}

// ---------------------------------------------------------------------------
// Instrumented leaves.
// ---------------------------------------------------------------------------

const (
	bitR = 0
	bitW = 1
)

var bitName = [2]string{"read", "write"}

// countingLeaf wraps the real pool-backed file and counts how often each
// access bit was opened and closed. The NFS handle allocator's leaf wraps
// this one, so every call made by the NFS programs passes through here.
type countingLeaf struct {
	virtual.LinkableLeaf
	a  *countingAllocator
	id int

	// Protected by a.mu.
	opens    [2]int
	closes   [2]int
	unlinked bool
	ioActive int
	ioDone   int
}

type countingAllocator struct {
	w    *world
	base virtual.FileAllocator

	mu     sync.Mutex
	leaves []*countingLeaf
}

func (a *countingAllocator) NewFile(holeSource pool.HoleSource, isExecutable bool, size uint64, shareAccess virtual.ShareMask) (virtual.LinkableLeaf, error) {
	a.w.park("leaf-new")
	inner, err := a.base.NewFile(holeSource, isExecutable, size, shareAccess)
	if err != nil {
		return nil, err
	}
	a.mu.Lock()
	l := &countingLeaf{LinkableLeaf: inner, a: a, id: len(a.leaves)}
	a.leaves = append(a.leaves, l)
	l.count(&l.opens, shareAccess)
	a.mu.Unlock()
	return l, nil
}

func (l *countingLeaf) count(c *[2]int, m virtual.ShareMask) {
	if m&virtual.ShareMaskRead != 0 {
		c[bitR]++
	}
	if m&virtual.ShareMaskWrite != 0 {
		c[bitW]++
	}
}

func (l *countingLeaf) VirtualOpenSelf(ctx context.Context, shareAccess virtual.ShareMask, options *virtual.OpenExistingOptions, requested virtual.AttributesMask, attributes *virtual.Attributes) virtual.Status {
	l.a.w.park("leaf-open")
	s := l.LinkableLeaf.VirtualOpenSelf(ctx, shareAccess, options, requested, attributes)
	if s == virtual.StatusOK {
		l.a.mu.Lock()
		l.count(&l.opens, shareAccess)
		l.a.mu.Unlock()
	}
	return s
}

func (l *countingLeaf) VirtualClose(shareAccess virtual.ShareMask) {
	l.a.w.park("leaf-close")
	l.a.mu.Lock()
	l.count(&l.closes, shareAccess)
	over := l.closes[bitR] > l.opens[bitR] || l.closes[bitW] > l.opens[bitW]
	l.a.mu.Unlock()
	if over {
		// Do not forward: the real file would panic with a less
		// specific message. The oracle reports the imbalance.
		return
	}
	l.LinkableLeaf.VirtualClose(shareAccess)
}

// checkOpenDuringIO: while data is being read or written the file must be
// open for that access (the server clones the share reservation, or opens
// the file temporarily, for the duration of the I/O).
func (l *countingLeaf) checkOpenDuringIO(bit int) {
	l.a.mu.Lock()
	cnt := l.opens[bit] - l.closes[bit]
	l.a.mu.Unlock()
	if cnt < 1 {
		l.a.w.violate("io-on-closed-file", fmt.Sprintf("file#%d (handle %x) is being accessed for %s while it is not open for that access (opened %d, closed %d)", l.id, fhOfLeaf(l.id), bitName[bit], l.opens[bit], l.closes[bit]))
	}
}

func (l *countingLeaf) VirtualRead(ctx context.Context, buf []byte, offset uint64) (int, bool, virtual.Status) {
	l.ioBegin()
	l.a.w.parkIO("leaf-read")
	l.checkOpenDuringIO(bitR)
	n, eof, s := l.LinkableLeaf.VirtualRead(ctx, buf, offset)
	l.ioEnd()
	return n, eof, s
}

func (l *countingLeaf) VirtualWrite(ctx context.Context, buf []byte, offset uint64) (int, virtual.Status) {
	l.ioBegin()
	l.a.w.parkIO("leaf-write")
	l.checkOpenDuringIO(bitW)
	n, s := l.LinkableLeaf.VirtualWrite(ctx, buf, offset)
	l.ioEnd()
	return n, s
}

func (l *countingLeaf) VirtualSetAttributes(ctx context.Context, in *virtual.Attributes, requested virtual.AttributesMask, out *virtual.Attributes) virtual.Status {
	l.ioBegin()
	l.a.w.parkIO("leaf-setattr")
	s := l.LinkableLeaf.VirtualSetAttributes(ctx, in, requested, out)
	l.ioEnd()
	return s
}

func (l *countingLeaf) ioBegin() {
	l.a.mu.Lock()
	l.ioActive++
	l.a.mu.Unlock()
}

func (l *countingLeaf) ioEnd() {
	l.a.mu.Lock()
	l.ioActive--
	l.ioDone++
	l.a.mu.Unlock()
}

func (l *countingLeaf) Unlink() {
	l.a.mu.Lock()
	l.unlinked = true
	l.a.mu.Unlock()
	l.LinkableLeaf.Unlink()
}

// snapshot returns a copy of the counters of all leaves.
type leafSnap struct {
	opens, closes [2]int
	unlinked      bool
	ioActive      int
}

func (a *countingAllocator) snapshot() []leafSnap {
	a.mu.Lock()
	defer a.mu.Unlock()
	out := make([]leafSnap, len(a.leaves))
	for i, l := range a.leaves {
		out[i] = leafSnap{opens: l.opens, closes: l.closes, unlinked: l.unlinked, ioActive: l.ioActive}
	}
	return out
}

type quietLogger struct{}

func (quietLogger) Log(err error) {}

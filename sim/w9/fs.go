package w9

import (
	"bytes"
	"context"
	"encoding/binary"
	"fmt"
	"io"
	"sync"

	"github.com/buildbarn/bb-remote-execution/pkg/filesystem/pool"
	"github.com/buildbarn/bb-remote-execution/pkg/filesystem/virtual"
	"github.com/buildbarn/bb-remote-execution/pkg/verifsim/simsync"
	"github.com/buildbarn/bb-storage/pkg/filesystem"
	"github.com/buildbarn/bb-storage/pkg/filesystem/path"
)

// ---------------------------------------------------------------------------
// Deterministic random number generators handed to the code under test.
// ---------------------------------------------------------------------------

// splitmix is a deterministic random.SingleThreadedGenerator. Every user
// (NFSv4.0 program, NFSv4.1 program) gets its own instance; they are only
// used under the respective program's lock, so the sequence of draws is a
// function of the schedule.
type splitmix struct{ s uint64 }

func (g *splitmix) Uint64() uint64 {
	g.s += 0x9e3779b97f4a7c15
	z := g.s
	z = (z ^ (z >> 30)) * 0xbf58476d1ce4e5b9
	z = (z ^ (z >> 27)) * 0x94d049bb133111eb
	return z ^ (z >> 31)
}
func (g *splitmix) Uint32() uint32                     { return uint32(g.Uint64() >> 32) }
func (g *splitmix) Float64() float64                   { return float64(g.Uint64()>>11) / (1 << 53) }
func (g *splitmix) Int64N(n int64) int64               { return int64(g.Uint64() % uint64(n)) }
func (g *splitmix) IntN(n int) int                     { return int(g.Uint64() % uint64(n)) }
func (g *splitmix) Shuffle(n int, swap func(i, j int)) {}
func (g *splitmix) Read(p []byte) (int, error) {
	for i := 0; i < len(p); i += 8 {
		var b [8]byte
		binary.LittleEndian.PutUint64(b[:], g.Uint64())
		copy(p[i:], b[:])
	}
	return len(p), nil
}

// handleRNG feeds the NFS handle allocator: the n-th draw is base+n, so the
// harness knows the file handle of the n-th file that gets created (all
// files are created in the single root directory, under its lock).
type handleRNG struct{ n uint64 }

const handleBase = 0x5eed000000000000

func (g *handleRNG) Uint64() uint64 {
	g.n++
	return handleBase + g.n
}
func (g *handleRNG) Uint32() uint32                     { return uint32(g.Uint64()) }
func (g *handleRNG) Float64() float64                   { return 0 }
func (g *handleRNG) Int64N(n int64) int64               { return 0 }
func (g *handleRNG) IntN(n int) int                     { return 0 }
func (g *handleRNG) Shuffle(n int, swap func(i, j int)) {}
func (g *handleRNG) Read(p []byte) (int, error) {
	panic(simsync.HarnessError{Msg: "handle allocator unexpectedly called Read()"})
}

// Draws of the handle allocator's generator: 1 = root directory, 2 = the
// resolvable allocator of the blob files, 3... = pool-backed files in the
// order of their creation.
const firstPoolDraw = 3

// fhOfLeaf returns the file handle that file#i must have. For a pool-backed
// file that is the 8 byte handle made from the draw at its creation; for a
// blob file the handle made of the resolvable allocator's prefix and the
// identifiers of group and file. Beyond the files created so far: the handle
// the next pool-backed files will get.
func (w *world) fhOfLeaf(i int) []byte {
	a := w.alloc
	a.mu.Lock()
	defer a.mu.Unlock()
	if i < len(a.leaves) {
		return a.leaves[i].fh
	}
	return poolFH(a.npool + i - len(a.leaves))
}

func poolFH(k int) []byte {
	var b [8]byte
	binary.LittleEndian.PutUint64(b[:], handleBase+firstPoolDraw+uint64(k))
	return b[:]
}

// leafOfFH: which file does a handle designate, according to the model?
func (w *world) leafOfFH(fh []byte) (int, bool) {
	a := w.alloc
	a.mu.Lock()
	defer a.mu.Unlock()
	i, ok := a.byFH[string(fh)]
	return i, ok
}

// ---------------------------------------------------------------------------
// In-memory file pool (backing store of the real pool-backed files).
// ---------------------------------------------------------------------------

type memPool struct{ w *world }

type memFile struct {
	data   []byte
	closed bool
}

func (p *memPool) NewFile(holeSource pool.HoleSource, size uint64) (filesystem.FileReadWriter, error) {
	return &memFile{data: make([]byte, size)}, nil
}

func (f *memFile) ReadAt(p []byte, off int64) (int, error) {
	if f.closed {
		panic("memFile: read after the backing file was released")
	}
	if off >= int64(len(f.data)) {
		return 0, io.EOF
	}
	n := copy(p, f.data[off:])
	if n < len(p) {
		return n, io.EOF
	}
	return n, nil
}

func (f *memFile) WriteAt(p []byte, off int64) (int, error) {
	if f.closed {
		panic("memFile: write after the backing file was released")
	}
	if end := off + int64(len(p)); end > int64(len(f.data)) {
		f.data = append(f.data, make([]byte, end-int64(len(f.data)))...)
	}
	copy(f.data[off:], p)
	return len(p), nil
}

func (f *memFile) Truncate(size int64) error {
	if f.closed {
		panic("memFile: truncate after the backing file was released")
	}
	if size <= int64(len(f.data)) {
		f.data = f.data[:size]
	} else {
		f.data = append(f.data, make([]byte, size-int64(len(f.data)))...)
	}
	return nil
}

func (f *memFile) Sync() error { return nil }
func (f *memFile) Len() (int64, error) {
	return int64(len(f.data)), nil
}

func (f *memFile) Close() error {
	if f.closed {
		panic("memFile: backing file released twice")
	}
	f.closed = true
	return nil
}

func (f *memFile) GetNextRegionOffset(off int64, regionType filesystem.RegionType) (int64, error) {
	if off >= int64(len(f.data)) {
		return 0, io.EOF
	}
	if regionType == filesystem.Data {
		return off, nil
	}
	return int64(len(f.data)), nil
}

// ---------------------------------------------------------------------------
// Instrumented leaves.
// ---------------------------------------------------------------------------

const (
	bitR = 0
	bitW = 1
)

var bitName = [2]string{"read", "write"}

// countingLeaf wraps the real pool-backed file and counts how often each
// access bit was opened and closed. The NFS handle allocator's leaf wraps
// this one, so every call made by the NFS programs passes through here.
type countingLeaf struct {
	virtual.LinkableLeaf
	a    *countingAllocator
	id   int
	fh   []byte    // the handle this file must have
	blob *blobFile // nil for pool-backed files

	// Protected by a.mu.
	opens    [2]int
	closes   [2]int
	unlinked bool
	ioActive int
	ioDone   int
}

type countingAllocator struct {
	w    *world
	base virtual.FileAllocator

	mu     sync.Mutex
	leaves []*countingLeaf
	byFH   map[string]int
	npool  int // pool-backed files created so far
}

func (a *countingAllocator) NewFile(holeSource pool.HoleSource, isExecutable bool, size uint64, shareAccess virtual.ShareMask) (virtual.LinkableLeaf, error) {
	a.w.park("leaf-new")
	inner, err := a.base.NewFile(holeSource, isExecutable, size, shareAccess)
	if err != nil {
		return nil, err
	}
	a.mu.Lock()
	l := &countingLeaf{LinkableLeaf: inner, a: a, id: len(a.leaves), fh: poolFH(a.npool)}
	a.npool++
	a.leaves = append(a.leaves, l)
	a.byFH[string(l.fh)] = l.id
	l.count(&l.opens, shareAccess)
	a.mu.Unlock()
	return l, nil
}

func (l *countingLeaf) count(c *[2]int, m virtual.ShareMask) {
	if m&virtual.ShareMaskRead != 0 {
		c[bitR]++
	}
	if m&virtual.ShareMaskWrite != 0 {
		c[bitW]++
	}
}

func (l *countingLeaf) VirtualOpenSelf(ctx context.Context, shareAccess virtual.ShareMask, options *virtual.OpenExistingOptions, requested virtual.AttributesMask, attributes *virtual.Attributes) virtual.Status {
	l.a.w.park("leaf-open")
	s := l.LinkableLeaf.VirtualOpenSelf(ctx, shareAccess, options, requested, attributes)
	if s == virtual.StatusOK {
		l.a.mu.Lock()
		l.count(&l.opens, shareAccess)
		l.a.mu.Unlock()
	}
	return s
}

func (l *countingLeaf) VirtualClose(shareAccess virtual.ShareMask) {
	l.a.w.park("leaf-close")
	l.a.mu.Lock()
	l.count(&l.closes, shareAccess)
	over := l.closes[bitR] > l.opens[bitR] || l.closes[bitW] > l.opens[bitW]
	l.a.mu.Unlock()
	if over {
		// Do not forward: the real file would panic with a less
		// specific message. The oracle reports the imbalance.
		return
	}
	l.LinkableLeaf.VirtualClose(shareAccess)
}

// checkOpenDuringIO: while data is being read or written the file must be
// open for that access (the server clones the share reservation, or opens
// the file temporarily, for the duration of the I/O).
func (l *countingLeaf) checkOpenDuringIO(bit int) {
	l.a.mu.Lock()
	cnt := l.opens[bit] - l.closes[bit]
	l.a.mu.Unlock()
	if cnt < 1 {
		l.a.w.violate("io-on-closed-file", fmt.Sprintf("file#%d (handle %x) is being accessed for %s while it is not open for that access (opened %d, closed %d)", l.id, l.fh, bitName[bit], l.opens[bit], l.closes[bit]))
	}
}

func (l *countingLeaf) VirtualRead(ctx context.Context, buf []byte, offset uint64) (int, bool, virtual.Status) {
	l.ioBegin()
	l.a.w.parkIO("leaf-read")
	l.checkOpenDuringIO(bitR)
	n, eof, s := l.LinkableLeaf.VirtualRead(ctx, buf, offset)
	l.ioEnd()
	return n, eof, s
}

func (l *countingLeaf) VirtualWrite(ctx context.Context, buf []byte, offset uint64) (int, virtual.Status) {
	l.ioBegin()
	l.a.w.parkIO("leaf-write")
	l.checkOpenDuringIO(bitW)
	n, s := l.LinkableLeaf.VirtualWrite(ctx, buf, offset)
	l.ioEnd()
	return n, s
}

func (l *countingLeaf) VirtualSetAttributes(ctx context.Context, in *virtual.Attributes, requested virtual.AttributesMask, out *virtual.Attributes) virtual.Status {
	l.ioBegin()
	l.a.w.parkIO("leaf-setattr")
	s := l.LinkableLeaf.VirtualSetAttributes(ctx, in, requested, out)
	l.ioEnd()
	return s
}

func (l *countingLeaf) ioBegin() {
	l.a.mu.Lock()
	l.ioActive++
	l.a.mu.Unlock()
}

func (l *countingLeaf) ioEnd() {
	l.a.mu.Lock()
	l.ioActive--
	l.ioDone++
	l.a.mu.Unlock()
}

func (l *countingLeaf) Unlink() {
	l.a.mu.Lock()
	l.unlinked = true
	l.a.mu.Unlock()
	l.LinkableLeaf.Unlink()
}

// snapshot returns a copy of the counters of all leaves.
type leafSnap struct {
	opens, closes [2]int
	unlinked      bool
	ioActive      int
}

func (a *countingAllocator) snapshot() []leafSnap {
	a.mu.Lock()
	defer a.mu.Unlock()
	out := make([]leafSnap, len(a.leaves))
	for i, l := range a.leaves {
		out[i] = leafSnap{opens: l.opens, closes: l.closes, unlinked: l.unlinked, ioActive: l.ioActive}
	}
	return out
}

type quietLogger struct{}

func (quietLogger) Log(err error) {}

// ---------------------------------------------------------------------------
// Blob files: read-only files whose NFS file handles are resolvable, i.e. are
// made of identifiers from which the file can be found again, allocated
// through two nested resolvable handle allocators the way production code
// nests them (instance name -> digest -> ...):
//
//	handleAllocator.New().AsResolvableAllocator(resolve)        level 1
//	  .New(ByteSliceID(group)).AsResolvableAllocator(nil)        level 2, one per group, kept
//	    .New(ByteSliceID(id)).AsLinkableLeaf(file)               every time the file is looked up
// ---------------------------------------------------------------------------

type blobFile struct {
	group, id string
	name      string // name in the root directory
	content   []byte
}

var blobSpecs = []struct{ group, id string }{
	{"blob", "a"}, {"blob", "b"},
	{"g", "xy"}, {"g", "zz9"},
	{"long-group-id", "q"}, {"long-group-id", "r"},
	{"grp", "child-with-a-long-identifier"}, {"grp", "k"},
}

func (f *blobFile) VirtualGetAttributes(ctx context.Context, requested virtual.AttributesMask, attributes *virtual.Attributes) {
	attributes.SetChangeID(0)
	attributes.SetFileType(filesystem.FileTypeRegularFile)
	attributes.SetHasNamedAttributes(false)
	attributes.SetIsInNamedAttributeDirectory(false)
	attributes.SetSizeBytes(uint64(len(f.content)))
	attributes.SetPermissions(virtual.PermissionsRead)
}

func (f *blobFile) VirtualSetAttributes(ctx context.Context, in *virtual.Attributes, requested virtual.AttributesMask, out *virtual.Attributes) virtual.Status {
	if _, ok := in.GetSizeBytes(); ok {
		return virtual.StatusErrAccess
	}
	if _, ok := in.GetOwnerUserID(); ok {
		return virtual.StatusErrPerm
	}
	if _, ok := in.GetOwnerGroupID(); ok {
		return virtual.StatusErrPerm
	}
	f.VirtualGetAttributes(ctx, requested, out)
	return virtual.StatusOK
}

func (f *blobFile) VirtualApply(data any) bool { return false }

func (f *blobFile) VirtualOpenNamedAttributes(ctx context.Context, createDirectory bool, requested virtual.AttributesMask, attributes *virtual.Attributes) (virtual.Directory, virtual.Status) {
	return nil, virtual.StatusErrAccess
}

func (f *blobFile) VirtualAllocate(ctx context.Context, off, size uint64) virtual.Status {
	return virtual.StatusErrWrongType
}

func (f *blobFile) VirtualSeek(ctx context.Context, offset uint64, regionType filesystem.RegionType) (*uint64, virtual.Status) {
	if offset >= uint64(len(f.content)) {
		return nil, virtual.StatusErrNXIO
	}
	if regionType == filesystem.Data {
		return &offset, virtual.StatusOK
	}
	end := uint64(len(f.content))
	return &end, virtual.StatusOK
}

func (f *blobFile) VirtualOpenSelf(ctx context.Context, shareAccess virtual.ShareMask, options *virtual.OpenExistingOptions, requested virtual.AttributesMask, attributes *virtual.Attributes) virtual.Status {
	if shareAccess&^virtual.ShareMaskRead != 0 || options.Truncate {
		return virtual.StatusErrAccess
	}
	f.VirtualGetAttributes(ctx, requested, attributes)
	return virtual.StatusOK
}

func (f *blobFile) VirtualRead(ctx context.Context, buf []byte, offset uint64) (int, bool, virtual.Status) {
	buf, eof := virtual.BoundReadToFileSize(buf, offset, uint64(len(f.content)))
	copy(buf, f.content[min(offset, uint64(len(f.content))):])
	return len(buf), eof, virtual.StatusOK
}

func (f *blobFile) VirtualClose(shareAccess virtual.ShareMask) {}

func (f *blobFile) VirtualWrite(ctx context.Context, buf []byte, offset uint64) (int, virtual.Status) {
	return 0, virtual.StatusErrAccess
}

func (f *blobFile) Link() virtual.Status { return virtual.StatusOK }
func (f *blobFile) Unlink()              {}

// blobs builds the blob files and knows how to find them again.
type blobs struct {
	w      *world
	level1 virtual.ResolvableHandleAllocator
	level2 map[string]virtual.ResolvableHandleAllocator // by group
	leaves map[string]*countingLeaf                     // by group + "/" + id
}

// blobFH: the handle a blob file must have.
func blobFH(group, id string) []byte {
	var b bytes.Buffer
	var p [8]byte
	binary.LittleEndian.PutUint64(p[:], handleBase+2)
	b.Write(p[:])
	virtual.ByteSliceID(group).WriteTo(&b)
	virtual.ByteSliceID(id).WriteTo(&b)
	return b.Bytes()
}

// lookup hands out the file in the form in which it goes into a directory
// or is returned by the handle resolver: decorated with its file handle.
func (bs *blobs) lookup(group, id string) (virtual.LinkableLeaf, bool) {
	l, ok := bs.leaves[group+"/"+id]
	if !ok {
		return nil, false
	}
	return bs.level2[group].New(virtual.ByteSliceID(id)).AsLinkableLeaf(l), true
}

// resolve is the handle resolver of level 1: the rest of the handle holds the
// identifiers of the group and of the file.
func (bs *blobs) resolve(r io.ByteReader) (virtual.DirectoryChild, virtual.Status) {
	readID := func() (string, bool) {
		n, err := binary.ReadUvarint(r)
		if err != nil || n > 64 {
			return "", false
		}
		b := make([]byte, n)
		for i := range b {
			c, err := r.ReadByte()
			if err != nil {
				return "", false
			}
			b[i] = c
		}
		return string(b), true
	}
	group, ok1 := readID()
	id, ok2 := readID()
	if _, err := r.ReadByte(); !ok1 || !ok2 || err == nil {
		return virtual.DirectoryChild{}, virtual.StatusErrBadHandle
	}
	bs.w.k.Probe("blob-handle-resolved-again")
	leaf, ok := bs.lookup(group, id)
	if !ok {
		return virtual.DirectoryChild{}, virtual.StatusErrStale
	}
	return virtual.DirectoryChild{}.FromLeaf(leaf), virtual.StatusOK
}

// newBlobs creates the blob files (they become file#0...) and returns them as
// the initial contents of the root directory.
func newBlobs(w *world, handleAllocator virtual.StatefulHandleAllocator) (*blobs, map[path.Component]virtual.InitialChild) {
	bs := &blobs{w: w, level2: map[string]virtual.ResolvableHandleAllocator{}, leaves: map[string]*countingLeaf{}}
	bs.level1 = handleAllocator.New().AsResolvableAllocator(bs.resolve)
	children := map[path.Component]virtual.InitialChild{}
	a := w.alloc
	for i, spec := range blobSpecs {
		if _, ok := bs.level2[spec.group]; !ok {
			bs.level2[spec.group] = bs.level1.New(virtual.ByteSliceID(spec.group)).AsResolvableAllocator(nil)
		}
		f := &blobFile{group: spec.group, id: spec.id, name: fmt.Sprintf("b%d", i), content: []byte(fmt.Sprintf("blob %s/%s: contents of file#%d", spec.group, spec.id, i))}
		l := &countingLeaf{LinkableLeaf: f, a: a, id: len(a.leaves), fh: blobFH(spec.group, spec.id), blob: f}
		a.leaves = append(a.leaves, l)
		a.byFH[string(l.fh)] = l.id
		bs.leaves[spec.group+"/"+spec.id] = l
		w.blobNames = append(w.blobNames, f.name)
	}
	for _, spec := range blobSpecs {
		leaf, _ := bs.lookup(spec.group, spec.id)
		children[path.MustNewComponent(bs.leaves[spec.group+"/"+spec.id].blob.name)] = virtual.InitialChild{}.FromLeaf(leaf)
	}
	return bs, children
}

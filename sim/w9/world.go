// Package w9 is the NFSv4 world: the real NFSv4.0 and NFSv4.1 programs, the
// real OpenedFilesPool, NFS handle allocator, InMemoryPrepopulatedDirectory
// and pool-backed files, driven by simulated NFS clients over a simulated
// transport (duplication, reordering, loss of requests and replies) under a
// simulated clock, with oracles for properties C18 and C19.
package w9

import (
	"bytes"
	"context"
	"fmt"
	"os"
	"sort"
	"strings"
	"sync"
	"time"

	"github.com/buildbarn/bb-remote-execution/pkg/filesystem/virtual"
	nfs "github.com/buildbarn/bb-remote-execution/pkg/filesystem/virtual/nfsv4"
	"github.com/buildbarn/bb-remote-execution/pkg/verifsim/simenv"
	"github.com/buildbarn/bb-remote-execution/pkg/verifsim/simrun"
	"github.com/buildbarn/bb-remote-execution/pkg/verifsim/simsync"
	"github.com/buildbarn/bb-storage/pkg/filesystem/path"
	"github.com/buildbarn/go-xdr/pkg/protocols/nfsv4"
)

var startTime = time.Unix(1700000000, 0).UTC()

const (
	enforcedLease  = 120 * time.Second
	announcedLease = 60 * time.Second
	slotsPerSess   = 3
)

var stateIDPrefix = [4]byte{0x9a, 0x40, 0x11, 0x07}

type world struct {
	r     *simrun.Run
	k     *simsync.Kernel
	t     *simsync.Tape
	prop  string
	clock *simenv.SimClock

	root      virtual.PrepopulatedDirectory
	pool      *nfs.OpenedFilesPool
	prog40    nfsv4.Nfs4Program
	prog41    nfsv4.Nfs4Program
	alloc     *countingAllocator
	names     []string // names of pool-backed files (created, removed and created again by clients)
	blobs     *blobs
	blobNames []string // names of the blob files (never removed)

	clients []*client
	reqs    []*request

	obsMu  sync.Mutex
	obsQ   []obs
	obsSeq map[string]int

	inflight int // deliveries in flight (all clients)

	// Configuration of this run (drawn from the tape).
	faultFree       bool
	dupOn           bool // transport may duplicate requests
	lossOn          bool // transport may lose requests and replies
	leafParks       bool // leaf callbacks are park points
	timePressure    int  // 0 none, 1 small jumps, 2 jumps around/past the lease
	vanishOn        bool
	noInflightDup41 bool // env switch VERIF_W9_AVOID=dup41: known finding in nfs41 opSequence
	setattrAnon     bool // env switch VERIF_W9_SETATTR_ANON=1
	noFreeLocked    bool // env switch VERIF_W9_AVOID=freelocked: known finding in nfs41 opFreeStateID

	c14       bool // the run is made on behalf of property C14 (see violate)
	otherRule bool // (C14 runs) a rule of another property fired; counted once

	stopping bool // lanes stop issuing new requests
	flushing bool // duplicate actors deliver whatever is queued, without delay
	exiting  bool // duplicate actors leave

	// Statistics for the non-triviality rule.
	opensOK        int
	fullCloses     int
	dupsCompared   int
	overlaps       int
	quiescentExact int
	prevCnt        [][2]int
	expiredNotes   []string // leases that certainly expired mid-run (see expireCertainly)
}

// Rules that belong to C19 whatever property is being checked; everything
// else is a C18 rule.
var c19Rules = map[string]bool{
	"reply-mismatch": true, "inflight-duplicate-never-completes": true, "misordered-accepted": true,
	"false-retry-answered": true, "effect-not-once": true, "in-order-create-session-rejected": true,
}

func (w *world) violate(short, msg string) {
	if w.c14 {
		// The same histories also decide C14 for the NFSv4 programs: only
		// the kernel-level rules (a call that never returns, a mutex left
		// held, a panic) count, under C14's name.
		switch short {
		case "call-never-returned", "inflight-duplicate-never-completes":
			w.k.Violate("C14/call-never-returned", "[NFSv4 programs] "+msg)
		case "lock-leaked":
			w.k.Violate("C14/mutex-held-at-idle", "[NFSv4 programs] "+msg)
		default:
			// Counted only; the run goes on to its drain phase, which is
			// where calls that never return show.
			if !w.otherRule {
				w.r.Count("other_property_rule:"+short, 1)
			}
			w.otherRule = true
		}
		return
	}
	if c19Rules[short] || (short == "call-never-returned" && w.prop == "C19") {
		// In a C19 run a request (retransmissions included) that never gets
		// its reply is C19's concern.
		w.k.Violate("C19/"+short, msg)
	} else {
		w.k.Violate("C18/"+short, msg)
	}
}

func (w *world) now() time.Time { return w.clock.Global() }

// park is a scheduling point inside a leaf callback.
func (w *world) park(label string) {
	if w.leafParks {
		w.k.SeamW(label, 6, 0)
	}
}

// parkIO is a scheduling point inside an I/O callback; the low weight keeps
// I/O in flight for a while.
func (w *world) parkIO(label string) {
	if w.leafParks {
		w.k.SeamW(label, 3, 0)
	}
}

func pick[T any](t *simsync.Tape, xs []T) T { return xs[t.Choice(len(xs))] }

func harness(format string, args ...interface{}) {
	panic(simsync.HarnessError{Msg: fmt.Sprintf(format, args...)})
}

func newWorld(r *simrun.Run, prop string) *world {
	w := &world{r: r, k: r.K, t: r.T, prop: prop, obsSeq: map[string]int{}}
	t := w.t
	w.clock = simenv.NewSimClock(w.k, startTime)

	// Per-run configuration. Value 0 is the benign default.
	w.faultFree = t.Weighted([]int{4, 1}) == 1
	w.leafParks = t.Weighted([]int{1, 5}) == 1
	w.timePressure = t.Weighted([]int{3, 3, 2})
	w.lossOn = !w.faultFree
	w.vanishOn = !w.faultFree
	switch prop {
	case "C19":
		w.dupOn = !w.faultFree
	default:
		// C18: retransmissions only after a lost reply (sequential).
		w.dupOn = false
	}
	if w.faultFree {
		w.timePressure = 0
	}
	w.setattrAnon = os.Getenv("VERIF_W9_SETATTR_ANON") != "0"
	// Known findings can be steered around, so that the rest of the state
	// space stays checkable: VERIF_W9_AVOID=dup41,freelocked
	for _, a := range strings.Split(os.Getenv("VERIF_W9_AVOID"), ",") {
		switch a {
		case "dup41":
			w.noInflightDup41 = true
		case "freelocked":
			w.noFreeLocked = true
		}
	}

	handleAllocator := virtual.NewNFSHandleAllocator(&handleRNG{})
	defaultAttributesSetter := func(requested virtual.AttributesMask, attributes *virtual.Attributes) {}
	w.alloc = &countingAllocator{
		w:    w,
		byFH: map[string]int{},
		base: virtual.NewPoolBackedFileAllocator(&memPool{w: w}, quietLogger{}, defaultAttributesSetter, virtual.NoNamedAttributesFactory),
	}
	w.root = virtual.NewInMemoryPrepopulatedDirectory(
		virtual.NewHandleAllocatingFileAllocator(w.alloc, handleAllocator),
		virtual.NewErrorSymlinkFactory(fmt.Errorf("no symlinks in this world")),
		quietLogger{},
		handleAllocator,
		sort.Sort,
		func(string) bool { return false },
		w.clock,
		virtual.CaseSensitiveComponentNormalizer,
		defaultAttributesSetter,
		virtual.NoNamedAttributesFactory,
	)
	w.pool = nfs.NewOpenedFilesPool(handleAllocator.ResolveHandle)
	w.prog40 = nfs.NewNFS40Program(
		w.root, w.pool, &splitmix{s: 40}, nfsv4.Verifier4{0x40, 1, 2, 3, 4, 5, 6, 7}, stateIDPrefix,
		w.clock, enforcedLease, announcedLease, path.UNIXFormat, nil,
	)
	w.prog41 = nfs.NewNFS41Program(
		w.root, w.pool,
		nfsv4.ServerOwner4{SoMinorId: 1, SoMajorId: []byte("w9")}, []byte("w9-scope"),
		&nfsv4.ChannelAttrs4{CaMaxrequestsize: 1 << 20, CaMaxresponsesize: 1 << 20, CaMaxresponsesizeCached: 1 << 16, CaMaxoperations: 8, CaMaxrequests: slotsPerSess},
		&splitmix{s: 41}, nfsv4.Verifier4{0x41, 1, 2, 3, 4, 5, 6, 7},
		w.clock, enforcedLease, announcedLease, path.UNIXFormat, nil,
	)

	// Files. Some exist from the start (created and closed again by the
	// controller), the others are created by clients.
	w.names = []string{"f0", "f1", "f2"}
	// Blob files (read-only, resolvable file handles) are file#0... and
	// sit in the root directory under the names b0...
	var blobChildren map[path.Component]virtual.InitialChild
	w.blobs, blobChildren = newBlobs(w, handleAllocator)
	if err := w.root.CreateChildren(blobChildren, false); err != nil {
		harness("cannot place blob files: %v", err)
	}
	nb := len(blobSpecs)
	pre := 1 + t.Choice(3)
	for i := 0; i < pre; i++ {
		var attrs virtual.Attributes
		leaf, _, _, s := w.root.VirtualOpenChild(context.Background(), path.MustNewComponent(w.names[i]), virtual.ShareMaskWrite, (&virtual.Attributes{}).SetPermissions(virtual.PermissionsRead|virtual.PermissionsWrite), nil, virtual.AttributesMaskFileHandle, &attrs)
		if s != virtual.StatusOK {
			harness("cannot precreate file: %v", s)
		}
		if !bytes.Equal(attrs.GetFileHandle(), w.fhOfLeaf(nb+i)) {
			harness("file handle prediction failed: leaf %d has handle %x, predicted %x", nb+i, attrs.GetFileHandle(), w.fhOfLeaf(nb+i))
		}
		leaf.VirtualWrite(context.Background(), []byte(fmt.Sprintf("initial contents of %s", w.names[i])), 0)
		leaf.VirtualClose(virtual.ShareMaskWrite)
	}
	r.Logf("config: prop=%s faultFree=%v dup=%v loss=%v leafParks=%v timePressure=%d precreated=%d avoid=%q", prop, w.faultFree, w.dupOn, w.lossOn, w.leafParks, w.timePressure, pre, os.Getenv("VERIF_W9_AVOID"))
	return w
}

// ---------------------------------------------------------------------------
// Observations posted by actors, processed by the controller after each step.
// ---------------------------------------------------------------------------

type obsKind int

const (
	obsStart obsKind = iota
	obsEnd
)

type obs struct {
	actor string
	seq   int
	kind  obsKind
	d     *delivery
}

func (w *world) post(actor string, kind obsKind, d *delivery) {
	w.obsMu.Lock()
	w.obsSeq[actor]++
	w.obsQ = append(w.obsQ, obs{actor: actor, seq: w.obsSeq[actor], kind: kind, d: d})
	w.obsMu.Unlock()
}

func (w *world) drainObs() []obs {
	w.obsMu.Lock()
	q := w.obsQ
	w.obsQ = nil
	w.obsMu.Unlock()
	sort.SliceStable(q, func(i, j int) bool {
		if q[i].actor != q[j].actor {
			return q[i].actor < q[j].actor
		}
		return q[i].seq < q[j].seq
	})
	return q
}

func (w *world) afterStep() {
	for _, o := range w.drainObs() {
		switch o.kind {
		case obsStart:
			w.onStart(o.d)
		case obsEnd:
			w.onEnd(o.d)
		}
		if w.k.Failed() {
			return
		}
	}
	w.checkLeaves(false)
}

// ---------------------------------------------------------------------------
// Transport: deliveries of requests to the server.
// ---------------------------------------------------------------------------

type delivery struct {
	req         *request
	n           int // 0 = first transmission by the lane, >0 duplicates / retransmissions
	actor       string
	start       time.Time
	startStep   int
	res         *nfsv4.Compound4res
	bytes       []byte // XDR of the complete reply
	done        bool
	overlap     bool // another delivery of the same request was in flight at the same time
	stale       bool // a later request of the same sequence chain had started before this one ended
	ioStart     ioExpect
	holderStart string
	clEpoch     int
	clBusy      bool
}

func cloneArgs(a *nfsv4.Compound4args) *nfsv4.Compound4args {
	var buf bytes.Buffer
	if _, err := a.WriteTo(&buf); err != nil {
		harness("cannot marshal request: %v", err)
	}
	var b nfsv4.Compound4args
	if _, err := b.ReadFrom(&buf); err != nil {
		harness("cannot unmarshal request: %v", err)
	}
	return &b
}

// deliver hands one copy of the request to the server, on the calling actor.
func (w *world) deliver(req *request, actor string) *delivery {
	d := &delivery{req: req, actor: actor, start: w.now(), startStep: w.k.Step}
	w.post(actor, obsStart, d)
	prog := w.prog40
	if req.cl.minor == 1 {
		prog = w.prog41
	}
	res, err := prog.NfsV4Nfsproc4Compound(context.Background(), cloneArgs(req.args))
	if err != nil {
		harness("compound returned error %v", err)
	}
	d.res = res
	var buf bytes.Buffer
	if _, err := res.WriteTo(&buf); err != nil {
		harness("cannot marshal reply: %v", err)
	}
	d.bytes = buf.Bytes()
	w.post(actor, obsEnd, d)
	return d
}

// lossSeam is a park point of a lane at which the transport may lose the
// message (only while losses are allowed).
func (w *world) lossSeam(label, fault string, allowed bool) bool {
	if allowed && w.lossOn && !w.stopping {
		return w.k.SeamW(label, 10, 1, "ok", fault) == 1
	}
	w.k.SeamW(label, 10, 0, "ok")
	return false
}

// send is the lane's way of issuing a request: transmission, possibly lost
// request or reply followed by retransmission of the identical request.
func (ln *lane) send(req *request) {
	w := ln.w
	ln.cur = req
	defer func() { ln.cur = nil }()
	for attempt := 0; ; attempt++ {
		if w.lossSeam("send", "request-lost", attempt < 2) {
			continue
		}
		ln.retx = false
		w.deliver(req, ln.name)
		if w.lossSeam("recv", "reply-lost", attempt < 2) {
			w.k.Probe("retransmit-after-lost-reply")
			ln.retx = true
			continue
		}
		if req.canonical == nil {
			// This copy was answered from the reply cache while the copy
			// that is being evaluated has not returned yet.
			w.k.SeamWhen("await-evaluated-copy", func() bool { return req.canonical != nil })
		}
		return
	}
}

// dupLoop is the body of a duplicate-delivery actor of a client.
func (c *client) dupLoop(name string) {
	w := c.w
	for {
		w.k.SeamWhen("dup-next", func() bool { return len(c.dupQueue) > 0 || w.exiting })
		if len(c.dupQueue) == 0 {
			if w.exiting {
				return
			}
			continue
		}
		i := w.t.Choice(len(c.dupQueue))
		req := c.dupQueue[i]
		c.dupQueue = append(c.dupQueue[:i:i], c.dupQueue[i+1:]...)
		// When is this copy delivered? 0: now (before, during or right after
		// the original, whatever the schedule makes of it); 1: after the
		// original completed; 2, 3: after the lane issued 1 or 2 later
		// requests.
		when := w.t.Weighted([]int{5, 2, 2, 1})
		if w.flushing {
			when = 0
		}
		if req.cl.minor == 1 && w.noInflightDup41 {
			// Known finding switch: never let two copies of one NFSv4.1
			// request be in flight at the same time.
			w.k.SeamWhen("dup-wait-alone", func() bool { return req.canonical != nil && req.inflight == 0 })
		} else {
			switch when {
			case 1:
				w.k.SeamWhen("dup-wait-done", func() bool { return req.canonical != nil || w.flushing })
			case 2, 3:
				target := req.ln.issued + when - 1
				w.k.SeamWhen("dup-wait-later", func() bool { return req.ln.issued >= target || w.flushing })
			}
		}
		req.queued--
		w.deliver(req, name)
		w.k.Yield("dup-ret")
	}
}

// ---------------------------------------------------------------------------
// Controller events: the clock.
// ---------------------------------------------------------------------------

func (w *world) events() []simsync.Event {
	if w.timePressure == 0 || w.stopping {
		return nil
	}
	adv := func(d time.Duration, weight int) simsync.Event {
		return simsync.Event{Key: fmt.Sprintf("advance %v", d), Weight: weight, Fire: func() { w.clock.Advance(d) }}
	}
	evs := []simsync.Event{adv(time.Second, 2)}
	// A lane is in a quiet-but-renewing period: let time pass in steps
	// shorter than the lease.
	for _, c := range w.clients {
		for _, ln := range c.lanes {
			if ln.quietWait && !w.copiesPending() {
				evs = append(evs, adv(quietStep, 6))
				goto quietDone
			}
		}
	}
quietDone:
	// A client has gone silent while the server still holds its state: let
	// time pass in steps that the other clients survive by renewing.
	if len(evs) == 1 && !w.copiesPending() {
		for _, c := range w.clients {
			if c.registered && c.silent() {
				evs = append(evs, adv(quietStep, 3))
				break
			}
		}
	}
	if w.timePressure >= 2 && !w.copiesPending() {
		evs = append(evs, adv(50*time.Second, 1), adv(enforcedLease+time.Second, 1))
	}
	return evs
}

// copiesPending reports whether a retransmission or duplicate is queued or in
// flight. While that is so, the clock only moves in small steps: a transport
// that delivers a copy of a request more than a lease time late makes the
// server (legitimately) treat it as a new request, which the client model
// does not want to reason about.
func (w *world) copiesPending() bool {
	for _, c := range w.clients {
		if len(c.dupQueue) > 0 {
			return true
		}
		for _, ln := range c.lanes {
			if ln.retx {
				return true
			}
			// An NFSv4.0 OPEN that may still be retransmitted: evaluated
			// again after its (unconfirmed or idle) open-owner was
			// collected it would be a new request.
			if ln.cur != nil && ln.cur.cl.minor == 0 && ln.cur.kind == kOpen {
				return true
			}
		}
	}
	for _, req := range w.reqs {
		if req.queued > 0 || (req.inflight > 0 && len(req.deliveries) > 1) {
			return true
		}
	}
	return false
}

// ---------------------------------------------------------------------------
// One run.
// ---------------------------------------------------------------------------

func (w *world) run() {
	t := w.t
	k := w.k
	nc := 1 + t.Choice(4)
	for i := 0; i < nc; i++ {
		w.clients = append(w.clients, newClient(w, i))
	}
	k.AddSource(w.events)
	k.AfterStep = w.afterStep

	budget := 400 + 200*t.Choice(6)
	if w.r.Tier == "thorough" {
		budget *= 2
	}
	k.Run(budget)
	if k.Failed() {
		return
	}
	w.drain()
}

func (w *world) allLanesDone() bool {
	for _, c := range w.clients {
		for _, ln := range c.lanes {
			if !ln.actor.Done() {
				return false
			}
		}
	}
	return true
}

func (w *world) allDupsIdle() bool {
	for _, c := range w.clients {
		if len(c.dupQueue) > 0 {
			return false
		}
	}
	return w.inflight == 0
}

func (w *world) drain() {
	k := w.k
	k.Note("drain: no new requests, no more transport faults")
	k.FaultsOn = false
	w.stopping = true
	w.flushing = true
	for i := 0; i < 60 && !(w.allLanesDone() && w.allDupsIdle()); i++ {
		if k.Run(100) {
			break
		}
		if k.Failed() {
			return
		}
	}
	if k.Failed() {
		return
	}
	k.Note("drain: duplicate actors leave")
	w.exiting = true
	for i := 0; i < 20; i++ {
		if k.Run(100) {
			break
		}
		if k.Failed() {
			return
		}
	}
	if k.Failed() {
		return
	}
	lockWaiters, blocked, seam := k.Stuck()
	if len(lockWaiters)+len(blocked)+len(seam) > 0 {
		// Which requests never got their reply?
		var pending []string
		dup41 := false
		for _, req := range w.reqs {
			for _, d := range req.deliveries {
				if !d.done {
					pending = append(pending, fmt.Sprintf("%s delivery#%d by %s of request#%d [%s]", req.cl.name, d.n, d.actor, req.id, req.desc))
					if req.cl.minor == 1 && d.overlap {
						dup41 = true
					}
				}
			}
		}
		if dup41 && len(lockWaiters) == 0 {
			w.violate("inflight-duplicate-never-completes", fmt.Sprintf("a retransmission that arrived while the original request was still being processed never returned (NFSv4.1 slot): pending=%v blocked=%v parked=%v held=%v", pending, blocked, seam, k.HeldLocks()))
		} else {
			w.violate("call-never-returned", fmt.Sprintf("after all clients stopped and the transport drained, these COMPOUND calls have not returned: pending=%v lock-waiters=%v blocked=%v parked=%v held=%v", pending, lockWaiters, blocked, seam, k.HeldLocks()))
		}
		return
	}
	if held := k.HeldLocks(); len(held) > 0 {
		w.violate("lock-leaked", fmt.Sprintf("all calls returned but locks are still held: %v", held))
		return
	}
	// Everything is quiet: exact accounting of what the clients still hold.
	w.checkLeaves(true)
	if k.Failed() {
		return
	}
	w.finalExpiry()
}

// poke makes both programs process expirations without creating any state.
func (w *world) poke() {
	ctx := context.Background()
	if _, err := w.prog40.NfsV4Nfsproc4Compound(ctx, &nfsv4.Compound4args{Argarray: []nfsv4.NfsArgop4{
		&nfsv4.NfsArgop4_OP_RENEW{Oprenew: nfsv4.Renew4args{Clientid: 0xdead}},
	}}); err != nil {
		harness("poke: %v", err)
	}
	if _, err := w.prog41.NfsV4Nfsproc4Compound(ctx, &nfsv4.Compound4args{Minorversion: 1, Argarray: []nfsv4.NfsArgop4{
		&nfsv4.NfsArgop4_OP_DESTROY_SESSION{OpdestroySession: nfsv4.DestroySession4args{DsaSessionid: [16]byte{0xde, 0xad}}},
	}}); err != nil {
		harness("poke: %v", err)
	}
}

// finalExpiry lets every lease expire and checks that nothing is retained.
func (w *world) finalExpiry() {
	k := w.k
	k.Note("drain: all leases expire")
	before := w.alloc.snapshot()
	hadOpen := false
	for _, l := range before {
		if l.opens != l.closes {
			hadOpen = true
		}
	}
	w.clock.Advance(2*enforcedLease + time.Second)
	w.poke()
	w.poke()
	if hadOpen {
		k.Probe("expiry-with-open-files")
	}
	for i, l := range w.alloc.snapshot() {
		for b := 0; b < 2; b++ {
			if l.opens[b] != l.closes[b] {
				w.violate("not-closed-after-expiry", fmt.Sprintf("after every lease expired, file#%d (handle %x) has been opened for %s %d times but closed %d times", i, w.fhOfLeaf(i), bitName[b], l.opens[b], l.closes[b]))
				return
			}
		}
	}
	for _, p := range []struct {
		name string
		prog nfsv4.Nfs4Program
	}{{"NFSv4.0", w.prog40}, {"NFSv4.1", w.prog41}} {
		counts := nfs.VerifStateCounts(p.prog)
		var bad []string
		for _, key := range sortedKeys(counts) {
			if counts[key] != 0 {
				bad = append(bad, fmt.Sprintf("%s=%d", key, counts[key]))
			}
		}
		if len(bad) > 0 {
			w.violate("records-retained", fmt.Sprintf("after every lease expired the %s program still retains records: %v", p.name, bad))
			return
		}
	}
	if files, uses := w.pool.VerifCount(); files != 0 || uses != 0 {
		w.violate("pool-retained", fmt.Sprintf("after every lease expired the opened files pool still holds %d files (use count %d)", files, uses))
	}
}

func sortedKeys[V any](m map[string]V) []string {
	out := make([]string, 0, len(m))
	for k := range m {
		out = append(out, k)
	}
	sort.Strings(out)
	return out
}

// WorldC14 runs the C18 histories on behalf of C14 (every call returns, no
// mutex is left held, nothing panics) for the NFSv4.0 and NFSv4.1 programs.
func WorldC14() simrun.World {
	return func(r *simrun.Run) {
		w := newWorld(r, "C18")
		w.c14 = true
		w.run()
		r.SimTime = w.now().Sub(startTime)
		w.finish()
	}
}

// World is the entry point registered for properties C18 and C19.
func World(prop string) simrun.World {
	return func(r *simrun.Run) {
		w := newWorld(r, prop)
		w.run()
		r.SimTime = w.now().Sub(startTime)
		w.finish()
	}
}

func (w *world) finish() {
	r := w.r
	faults := 0
	for _, n := range w.k.FaultsFired {
		faults += n
	}
	switch w.prop {
	case "C19":
		r.NonTrivial = w.opensOK > 0 && w.dupsCompared > 0
	default:
		r.NonTrivial = w.opensOK > 0 && w.fullCloses > 0 && (w.overlaps > 0 || faults > 0)
	}
	r.Count("requests", len(w.reqs))
	nd := 0
	for _, req := range w.reqs {
		nd += len(req.deliveries)
	}
	r.Count("deliveries", nd)
	r.Count("opens-ok", w.opensOK)
	r.Count("leaf-full-closes", w.fullCloses)
	r.Count("duplicates-compared", w.dupsCompared)
	r.Count("quiescent-exact-checks", w.quiescentExact)
	r.State(fmt.Sprintf("c%d/o%d/d%d", len(w.clients), min(w.opensOK, 6), min(w.dupsCompared, 6)))
}

package w9

import (
	"bytes"
	"encoding/binary"
	"fmt"

	"github.com/buildbarn/go-xdr/pkg/protocols/nfsv4"
)

// apply updates the model from the canonical (first completed) reply to a
// request and checks that reply against what the model allows.
func (w *world) apply(req *request, d *delivery) {
	c := req.cl
	res := d.res
	switch req.kind {
	case kSetClientID, kSetClientIDConfirm, kExchangeID, kCreateSession, kDestroySession, kDestroyClientID:
	default:
		if req.clEpoch != c.epoch {
			// The client's record was replaced or dropped after this
			// request was built. Either the request was evaluated before
			// that (and its effects went with the old record) or after
			// (and it was refused, carrying the old client/session ID).
			w.k.Probe("reply-after-client-record-was-replaced")
			return
		}
	}
	if c.minor == 1 && req.sess != nil {
		if !w.applySequence(req, d) {
			return
		}
	}
	base := req.base
	st := func(i int) (nfsv4.Nfsstat4, bool) { return statusAt(res, base+i) }
	switch req.kind {
	case kSetClientID:
		if r, ok := res.Resarray[0].(*nfsv4.NfsResop4_OP_SETCLIENTID); ok {
			if okr, ok := r.Opsetclientid.(*nfsv4.Setclientid4res_NFS4_OK); ok {
				c.hasPend, c.pendID, c.pendVerf, c.pendBoot = true, okr.Resok4.Clientid, okr.Resok4.SetclientidConfirm, req.boot
			}
		}
	case kSetClientIDConfirm:
		s, _ := st(0)
		switch s {
		case nfsv4.NFS4_OK:
			if c.deadIDs[req.clID] {
				// A copy of an older SETCLIENTID_CONFIRM that was evaluated
				// before the record it confirmed was replaced (it was still
				// closing the files of the record it had replaced itself)
				// and whose reply arrives only now: the server removes a
				// confirmed record when a newer one is confirmed, so this
				// reply says nothing about the present.
				w.k.Probe("late-reply-of-confirm-for-replaced-record")
				return
			}
			if !c.registered || c.id != req.clID {
				if c.registered {
					c.markDead(c.id)
					w.k.Probe("reregistration-replaces-client-record")
					if w.clientHoldsOpens(c) {
						w.k.Probe("reregistration-with-open-files")
					}
				}
				c.dropState()
				c.registered, c.id, c.regBoot = true, req.clID, req.boot
			}
			w.renew(c, d)
		case nfsv4.NFS4ERR_DELAY:
			w.k.Probe("reregistration-delayed-by-inflight-requests")
		case nfsv4.NFS4ERR_STALE_CLIENTID:
			if c.hasPend && c.pendID == req.clID {
				c.hasPend = false
			}
		}
	case kExchangeID:
		if r, ok := res.Resarray[0].(*nfsv4.NfsResop4_OP_EXCHANGE_ID); ok {
			if okr, ok := r.OpexchangeId.(*nfsv4.ExchangeId4res_NFS4_OK); ok {
				if okr.EirResok4.EirFlags&nfsv4.EXCHGID4_FLAG_CONFIRMED_R == 0 {
					c.hasPend, c.pendID, c.pendBoot, c.pendCsSeq = true, okr.EirResok4.EirClientid, req.boot, okr.EirResok4.EirSequenceid
				} else if c.registered && c.id == okr.EirResok4.EirClientid {
					c.hasPend = false
				}
			}
		}
	case kCreateSession:
		w.applyCreateSession(req, d)
	case kDestroySession:
		s, _ := st(0)
		if s == nfsv4.NFS4_OK {
			if req.destroy.alive && c.sessionsMade > 0 {
				c.sessionsMade--
			}
			req.destroy.alive = false
			for i, x := range c.oldSessions {
				if x == req.destroy {
					c.oldSessions = append(c.oldSessions[:i:i], c.oldSessions[i+1:]...)
					break
				}
			}
			w.k.Probe("session-destroyed")
		}
	case kDestroyClientID:
		s, _ := st(0)
		if s == nfsv4.NFS4_OK && (!c.registered || c.id != req.clID) {
			// Late reply of a copy that was evaluated before the client
			// registered anew.
			w.k.Probe("late-reply-of-destroy-clientid")
		} else if s == nfsv4.NFS4_OK {
			c.markDead(c.id)
			if w.clientHoldsOpens(c) {
				w.violate("client-destroyed-with-state", fmt.Sprintf("%s request#%d: DESTROY_CLIENTID succeeded although the client still has open state", c.name, req.id))
			}
			c.dropState()
			c.registered, c.hasPend, c.sess = false, false, nil
			w.k.Probe("clientid-destroyed")
		}
	case kOpen:
		w.applyOpen(req, d)
	case kOpenConfirm:
		s, ev := st(1)
		if !ev {
			s, _ = st(0)
		}
		if w.seqProbe(req, d, s, ev) {
			return
		}
		o := req.o
		if ev && transactionCompletes(s) {
			w.advance(o, req, d)
		}
		if ev && s == nfsv4.NFS4_OK {
			r := res.Resarray[base+1].(*nfsv4.NfsResop4_OP_OPEN_CONFIRM).OpopenConfirm.(*nfsv4.OpenConfirm4res_NFS4_OK)
			o.confirmed = true
			o.recreated = false
			if of := o.files[string(req.fh)]; of != nil {
				of.sid = r.Resok4.OpenStateid
			}
			w.k.Probe("open-confirmed")
		} else {
			w.checkNotRefused(req, d, s, "OPEN_CONFIRM")
			if s == nfsv4.NFS4ERR_BAD_STATEID && w.ownerMaybeGone(o) {
				o.dropAll()
			}
		}
	case kClose:
		s, ev := st(1)
		if !ev {
			s, _ = st(0)
		}
		if w.seqProbe(req, d, s, ev) {
			return
		}
		o := req.o
		if c.minor == 0 && ev && transactionCompletes(s) {
			w.advance(o, req, d)
		}
		if ev && s == nfsv4.NFS4_OK {
			if of := o.files[string(req.fh)]; of != nil && of == req.of {
				if len(of.locks) > 0 {
					w.k.Probe("close-releases-lock-state")
				}
				if w.leafIOActive(of.leaf) {
					w.k.Probe("close-while-io-in-flight")
				}
				o.dropFile(of)
			}
			w.k.Probe("close-ok")
		} else {
			w.checkNotRefused(req, d, s, "CLOSE")
		}
	case kOpenDowngrade:
		s, ev := st(1)
		if !ev {
			s, _ = st(0)
		}
		o := req.o
		if c.minor == 0 && ev && transactionCompletes(s) {
			w.advance(o, req, d)
		}
		if ev && s == nfsv4.NFS4_OK {
			r := res.Resarray[base+1].(*nfsv4.NfsResop4_OP_OPEN_DOWNGRADE).OpopenDowngrade.(*nfsv4.OpenDowngrade4res_NFS4_OK)
			if of := o.files[string(req.fh)]; of != nil && of == req.of {
				of.access = req.access
				of.sid = r.Resok4.OpenStateid
			}
			w.k.Probe("downgrade-ok")
		} else {
			w.checkNotRefused(req, d, s, "OPEN_DOWNGRADE")
		}
	case kLockNew, kLockExist:
		w.applyLock(req, d)
	case kLockU:
		s, ev := st(1)
		if !ev {
			s, _ = st(0)
		}
		lf := req.lf
		if c.minor == 0 && ev && transactionCompletes(s) {
			req.lo.seq = req.lseq
			w.renew(c, d)
		}
		if ev && s == nfsv4.NFS4_OK {
			r := res.Resarray[base+1].(*nfsv4.NfsResop4_OP_LOCKU).Oplocku.(*nfsv4.Locku4res_NFS4_OK)
			if w.lockFileAlive(lf) {
				lf.sid = r.LockStateid
				if req.access == 1 {
					lf.ranges = nil
				} else if len(lf.ranges) > 0 && lf.ranges[0] == req.offset {
					lf.ranges = lf.ranges[1:]
				}
			}
			w.k.Probe("locku-ok")
		} else {
			w.checkNotRefused(req, d, s, "LOCKU")
		}
	case kLockT:
		s, ev := st(1)
		if c.minor == 0 && ev && (s == nfsv4.NFS4_OK || s == nfsv4.NFS4ERR_DENIED) {
			w.renew(c, d)
		}
	case kReleaseLockOwner:
		s, _ := st(0)
		switch s {
		case nfsv4.NFS4_OK:
			w.renew(c, d)
			n := 0
			for _, o := range c.allOwners() {
				for _, of := range o.sortedFiles() {
					for _, lf := range append([]*lockFile(nil), of.locks...) {
						if lf.lo == req.lo {
							of.removeLock(lf)
							n++
						}
					}
				}
			}
			if n > 0 {
				w.k.Probe("release-lockowner-frees-lock-state")
			}
		case nfsv4.NFS4ERR_LOCKS_HELD:
			w.renew(c, d)
			w.k.Probe("release-lockowner-locks-held")
		case nfsv4.NFS4ERR_STALE_CLIENTID:
			w.clientUnknown(req, d, "RELEASE_LOCKOWNER")
		}
	case kFreeStateID:
		s, _ := st(0)
		lf := req.lf
		switch s {
		case nfsv4.NFS4_OK:
			if w.lockFileAlive(lf) {
				if len(lf.ranges) > 0 {
					w.k.Probe("free-stateid-with-locks-held-ok")
				}
				lf.of.removeLock(lf)
			}
			w.k.Probe("free-stateid-ok")
		case nfsv4.NFS4ERR_LOCKS_HELD:
			w.k.Probe("free-stateid-locks-held")
		default:
			if w.lockFileAlive(lf) && lf.lo.inflight == 0 {
				w.checkNotRefused(req, d, s, "FREE_STATEID")
			}
		}
	case kIO:
		w.applyIO(req, d)
	case kRenew:
		if c.minor == 1 {
			return // SEQUENCE did it all
		}
		s, _ := st(0)
		switch s {
		case nfsv4.NFS4_OK:
			w.renew(c, d)
		case nfsv4.NFS4ERR_STALE_CLIENTID:
			w.clientUnknown(req, d, "RENEW")
		}
	case kRemove:
		if s, ev := st(1); ev && s == nfsv4.NFS4_OK {
			w.k.Probe("remove-ok")
		}
	case kBlobCheck:
		w.applyBlobCheck(req, d)
	case kCurSid:
		w.applyOpen(req, d)
		if !w.k.Failed() {
			w.applyCurSid(req, d)
		}
	case kProbeFH:
		s, _ := st(0)
		leaf, ok := w.leafOfFH(req.fh)
		if !ok || req.probe != "" {
			return
		}
		// A file that is open (by anybody, certainly, and already when
		// this request was sent) must be reachable.
		if s != nfsv4.NFS4_OK {
			if who := w.definiteStableHolder(leaf); who != "" && who == d.holderStart {
				w.violate("open-file-unreachable", fmt.Sprintf("%s request#%d: PUTFH of handle %x (file#%d) failed with %s although the file is open: %s", c.name, req.id, req.fh, leaf, statName(s), who))
			}
		} else if leaf < w.nLeaves() && w.alloc.snapshot()[leaf].unlinked {
			w.k.Probe("putfh-of-unlinked-open-file-ok")
		}
	}
}

func (c *client) noteOther(sid nfsv4.Stateid4) {
	if c.minor == 1 {
		if k := binary.LittleEndian.Uint64(sid.Other[:8]); k > c.hwmOther {
			c.hwmOther = k
		}
	}
}

func (w *world) nLeaves() int {
	w.alloc.mu.Lock()
	defer w.alloc.mu.Unlock()
	return len(w.alloc.leaves)
}

func (w *world) leafIOActive(leaf int) bool {
	s := w.alloc.snapshot()
	return leaf < len(s) && s[leaf].ioActive > 0
}

func (w *world) clientHoldsOpens(c *client) bool {
	for _, o := range c.allOwners() {
		if len(o.files) > 0 {
			return true
		}
	}
	return false
}

func (w *world) lockFileAlive(lf *lockFile) bool {
	if lf == nil || lf.of == nil {
		return false
	}
	if lf.of.o.files[string(lf.of.fh)] != lf.of {
		return false
	}
	for _, x := range lf.of.locks {
		if x == lf {
			return true
		}
	}
	return false
}

// definiteStableHolder names a client that certainly still has the file open.
func (w *world) definiteStableHolder(leaf int) string {
	for _, c := range w.clients {
		if !w.leaseCertain(c) || c.clientInflight > 0 {
			continue
		}
		for _, o := range c.allOwners() {
			if o.inflight > 0 || w.ownerMaybeGone(o) {
				continue
			}
			for _, of := range o.sortedFiles() {
				if of.leaf == leaf {
					return fmt.Sprintf("%s owner %s state %x.%d", c.name, o.key, of.sid.Other, of.sid.Seqid)
				}
			}
		}
	}
	return ""
}

// advance records that the server accepted the open-owner sequence ID of the
// request (NFSv4.0) and renewed the lease on its behalf.
func (w *world) advance(o *owner, req *request, d *delivery) {
	if req.cl.minor != 0 {
		return
	}
	o.seq = req.seq
	o.lastKind = req.kind
	o.lastUseStart = d.start
	w.renew(req.cl, d)
}

// clientUnknown handles "the server does not know this client ID".
func (w *world) clientUnknown(req *request, d *delivery, what string) {
	c := req.cl
	if req.clID != c.id || !c.registered || req.clEpoch != c.epoch {
		return // the request carried an ID that was replaced meanwhile
	}
	if w.validContext(req, d) {
		w.violate("client-expired-early", fmt.Sprintf("%s request#%d [%s]: %s says the client is unknown although its lease was renewed %v ago (lease %v)", c.name, req.id, req.desc, what, w.now().Sub(c.lastRenewStart), enforcedLease))
		return
	}
	if c.clientInflight > 0 || d.clBusy {
		return
	}
	w.k.Probe("client-found-expired")
	c.markDead(c.id)
	c.dropState()
	c.registered, c.hasPend, c.sess = false, false, nil
}

// seqProbe evaluates requests that had to be rejected because of their
// sequence ID (NFSv4.0). Returns true if the request was such a probe.
func (w *world) seqProbe(req *request, d *delivery, s nfsv4.Nfsstat4, evaluated bool) bool {
	if req.probe == "" || req.cl.minor != 0 {
		return false
	}
	if !evaluated {
		return true
	}
	if !transactionCompletes(s) {
		w.k.Probe(req.probe + "-request-rejected")
		return true
	}
	// The server accepted the sequence ID. That is only legitimate if it
	// may have forgotten the open-owner (or the whole client) meanwhile, in
	// which case this is an ordinary request to it.
	if req.clEpoch != req.cl.epoch || !w.leaseCertain(req.cl) || w.ownerMaybeGone(req.o) || req.cl.clientInflight > 0 || d.clBusy {
		w.k.Probe("probe-accepted-after-owner-was-forgotten")
		req.probe = ""
		req.replay = true
		return false
	}
	switch req.probe {
	case "misordered":
		w.violate("misordered-accepted", fmt.Sprintf("%s request#%d [%s] carries a sequence ID that is neither the next one nor a retransmission, yet it was executed: %s", req.cl.name, req.id, req.desc, describeReply(d.res)))
	default:
		w.violate("false-retry-answered", fmt.Sprintf("%s request#%d [%s] reuses the sequence ID of the previous request with different content, yet it was answered %s", req.cl.name, req.id, req.desc, describeReply(d.res)))
	}
	return true
}

// applySequence handles the SEQUENCE result of an NFSv4.1 request. It
// returns false if nothing after SEQUENCE was evaluated.
func (w *world) applySequence(req *request, d *delivery) bool {
	c := req.cl
	s := req.sess
	st, _ := statusAt(d.res, 0)
	if req.probe != "" {
		if st != nfsv4.NFS4_OK {
			w.k.Probe(req.probe + "-request-rejected")
			return false
		}
		if req.clEpoch != c.epoch || !s.alive || c.sess != s || c.clientInflight > 0 || d.clBusy || !w.leaseCertain(c) {
			// Not held against the server; but it evaluated the request,
			// so it is an ordinary request from here on.
			w.k.Probe("probe-accepted-after-owner-was-forgotten")
			req.probe = ""
			req.replay = true
			s.slotSeq[req.slot] = req.slotSeq
			s.slotLast[req.slot] = req
			w.renew(c, d)
			return true
		}
		if req.probe == "misordered" {
			w.violate("misordered-accepted", fmt.Sprintf("%s request#%d [%s] carries a slot sequence ID that is neither the next one nor a retransmission (last executed %d), yet it was executed: %s", c.name, req.id, req.desc, s.slotSeq[req.slot], describeReply(d.res)))
		} else {
			last := s.slotLast[req.slot]
			w.violate("false-retry-answered", fmt.Sprintf("%s request#%d [%s] reuses slot %d sequence %d of request#%d [%s] with different operations, yet it was answered %s", c.name, req.id, req.desc, req.slot, req.slotSeq, last.id, last.desc, describeReply(d.res)))
		}
		return false
	}
	if st == nfsv4.NFS4_OK {
		s.slotSeq[req.slot] = req.slotSeq
		s.slotLast[req.slot] = req
		w.renew(c, d)
		return true
	}
	if req.kind == kTooManyOps {
		// Refused before the slot was occupied: the sequence ID is not
		// consumed (but the server has thrown away the slot's cached reply).
		if st == nfsv4.NFS4ERR_TOO_MANY_OPS {
			w.k.Probe("too-many-operations-refused")
		}
		return false
	}
	// SEQUENCE failed.
	if s.alive && c.sess == s {
		if w.validContext(req, d) {
			w.violate("valid-state-refused", fmt.Sprintf("%s request#%d [%s]: SEQUENCE on the client's current session, next sequence ID of the slot, was refused with %s although the lease was renewed %v ago (lease %v)", c.name, req.id, req.desc, statName(st), w.now().Sub(c.lastRenewStart), enforcedLease))
			return false
		}
		if st == nfsv4.NFS4ERR_BADSESSION && c.clientInflight == 0 && !d.clBusy && req.clEpoch == c.epoch {
			// The session is gone: the lease expired (the model could not
			// exclude that). All state went with it.
			w.k.Probe("client-found-expired")
			c.markDead(c.id)
			c.dropState()
			c.registered, c.hasPend, c.sess = false, false, nil
		}
	}
	return false
}

func (w *world) applyCreateSession(req *request, d *delivery) {
	c := req.cl
	s, _ := statusAt(d.res, 0)
	if req.probe == "" {
		c.delayedCS = nil
		if s == nfsv4.NFS4ERR_DELAY {
			c.delayedCS = req
		}
	}
	if req.probe != "" {
		if s == nfsv4.NFS4_OK && req.clEpoch == c.epoch && w.leaseCertain(c) && c.clientInflight <= 0 && !d.clBusy {
			w.violate("misordered-accepted", fmt.Sprintf("%s request#%d [%s] carries a CREATE_SESSION sequence ID that is neither the next one nor a retransmission, yet it was executed", c.name, req.id, req.desc))
		}
		return
	}
	switch s {
	case nfsv4.NFS4_OK:
		if c.deadIDs[req.clID] {
			// Late reply of a copy evaluated before the record it
			// confirmed was replaced or destroyed.
			w.k.Probe("late-reply-of-confirm-for-replaced-record")
			return
		}
		r := d.res.Resarray[0].(*nfsv4.NfsResop4_OP_CREATE_SESSION).OpcreateSession.(*nfsv4.CreateSession4res_NFS4_OK)
		if !c.registered || c.id != req.clID {
			if c.registered {
				c.markDead(c.id)
				w.k.Probe("reregistration-replaces-client-record")
				if w.clientHoldsOpens(c) {
					w.k.Probe("reregistration-with-open-files")
				}
			}
			c.dropState()
			c.oldSessions = nil
			c.sess = nil
			c.registered, c.id, c.regBoot = true, req.clID, req.boot
			c.hasPend = false
		}
		if c.sess != nil && c.sess.alive {
			c.oldSessions = append(c.oldSessions, c.sess)
		}
		c.sess = &session{id: r.CsrResok4.CsrSessionid, alive: true}
		c.sessionsMade++
		c.csSeq = req.csSeq + 1
		w.renew(c, d)
		w.k.Probe("session-created")
	case nfsv4.NFS4ERR_DELAY:
		w.k.Probe("reregistration-delayed-by-inflight-requests")
	case nfsv4.NFS4ERR_STALE_CLIENTID:
		if c.registered && c.id == req.clID {
			w.clientUnknown(req, d, "CREATE_SESSION")
		} else if c.hasPend && c.pendID == req.clID {
			c.hasPend = false
		}
	default:
		if c.registered && c.id == req.clID {
			w.checkNotRefused(req, d, s, "CREATE_SESSION")
		} else if c.hasPend && c.pendID == req.clID && s == nfsv4.NFS4ERR_SEQ_MISORDERED && !d.stale && w.validContext(req, d) {
			// The first CREATE_SESSION of a record that EXCHANGE_ID just
			// handed out, carrying the sequence ID that reply announced
			// (possibly sent again after NFS4ERR_DELAY, which must not
			// consume the sequence ID): answering it from a replay cache
			// that holds no reply of this request gives it another
			// request's reply.
			w.violate("in-order-create-session-rejected", fmt.Sprintf("%s request#%d [%s]: CREATE_SESSION for the client record EXCHANGE_ID handed out, with the sequence ID it announced (%d), was answered NFS4ERR_SEQ_MISORDERED (delivery %d); reply %s", c.name, req.id, req.desc, req.csSeq, d.n, describeReply(d.res)))
		}
	}
}

func (w *world) applyOpen(req *request, d *delivery) {
	c := req.cl
	o := req.o
	base := req.base
	s, ev := statusAt(d.res, base+1)
	if !ev {
		s, _ = statusAt(d.res, base)
	}
	if w.seqProbe(req, d, s, ev) {
		return
	}
	if !ev {
		return
	}
	if c.minor == 0 {
		if !transactionCompletes(s) {
			if s == nfsv4.NFS4ERR_STALE_CLIENTID {
				w.clientUnknown(req, d, "OPEN")
			} else {
				w.checkNotRefused(req, d, s, "OPEN")
			}
			return
		}
		wasMaybeGone := w.ownerMaybeGone(o)
		if s == nfsv4.NFS4_OK {
			o.recreated = false
		} else if wasMaybeGone {
			o.recreated = true
		}
		needsConfirm := false
		if s == nfsv4.NFS4_OK {
			needsConfirm = d.res.Resarray[base+1].(*nfsv4.NfsResop4_OP_OPEN).Opopen.(*nfsv4.Open4res_NFS4_OK).Resok4.Rflags&nfsv4.OPEN4_RESULT_CONFIRM != 0
		}
		if !o.confirmed || needsConfirm {
			// The server reinitialised the unconfirmed open-owner
			// before evaluating this OPEN (or had forgotten the
			// open-owner and created it afresh).
			if len(o.files) > 0 {
				w.k.Probe("open-reinitialises-unconfirmed-owner")
			}
			o.dropAll()
			o.confirmed = false
		}
		w.advance(o, req, d)
	}
	if s != nfsv4.NFS4_OK {
		w.checkNotRefused(req, d, s, "OPEN")
		return
	}
	r := d.res.Resarray[base+1].(*nfsv4.NfsResop4_OP_OPEN).Opopen.(*nfsv4.Open4res_NFS4_OK)
	fhSt, fhEv := statusAt(d.res, base+2)
	if !fhEv || fhSt != nfsv4.NFS4_OK {
		harness("GETFH after a successful OPEN failed")
	}
	fh := d.res.Resarray[base+2].(*nfsv4.NfsResop4_OP_GETFH).Opgetfh.(*nfsv4.Getfh4res_NFS4_OK).Resok4.Object
	if bl := w.blobByName(req.name); bl != nil && req.of == nil && !bytes.Equal(fh, bl.fh) {
		w.violate("wrong-file-handle", fmt.Sprintf("%s request#%d [%s]: OPEN of %s (file#%d) returned file handle %x, but that file's handle is %x (%s)", c.name, req.id, req.desc, req.name, bl.id, fh, bl.fh, w.describeFH(fh)))
		return
	}
	leaf, ok := w.leafOfFH(fh)
	if !ok || leaf >= w.nLeaves() {
		harness("OPEN returned file handle %x that does not belong to any file created so far", fh)
	}
	w.opensOK++
	w.k.Probe("open-ok")
	if c.minor == 0 {
		o.confirmed = r.Resok4.Rflags&nfsv4.OPEN4_RESULT_CONFIRM == 0
	}
	of := o.files[string(fh)]
	if of == nil {
		of = &openFile{o: o, fh: append([]byte(nil), fh...), leaf: leaf}
		o.files[string(fh)] = of
	} else {
		w.k.Probe("open-upgrades-existing-state")
		if of.sid.Other != r.Resok4.Stateid.Other {
			w.violate("upgrade-new-stateid", fmt.Sprintf("%s request#%d [%s]: the open-owner already had this file open with state %x but OPEN returned another state %x", c.name, req.id, req.desc, of.sid.Other, r.Resok4.Stateid.Other))
		}
	}
	of.access |= req.access
	of.sid = r.Resok4.Stateid
	c.noteOther(of.sid)
	if w.alloc.snapshot()[leaf].unlinked {
		w.k.Probe("open-of-unlinked-file")
	}
}

func (w *world) applyLock(req *request, d *delivery) {
	c := req.cl
	base := req.base
	s, ev := statusAt(d.res, base+1)
	if !ev {
		s, _ = statusAt(d.res, base)
		w.checkNotRefused(req, d, s, "PUTFH before LOCK")
		return
	}
	lo := req.lo
	if c.minor == 0 {
		if req.kind == kLockNew {
			if transactionCompletes(s) {
				w.advance(req.o, req, d)
				if s == nfsv4.NFS4_OK || s == nfsv4.NFS4ERR_DENIED {
					lo.seq = req.lseq
				}
			}
		} else if transactionCompletes(s) {
			lo.seq = req.lseq
			w.renew(c, d)
		}
	}
	switch s {
	case nfsv4.NFS4_OK:
		r := d.res.Resarray[base+1].(*nfsv4.NfsResop4_OP_LOCK).Oplock.(*nfsv4.Lock4res_NFS4_OK)
		sid := r.Resok4.LockStateid
		of := req.of
		if of.o.files[string(of.fh)] != of {
			return // the open file went away meanwhile (client record replaced)
		}
		var lf *lockFile
		for _, x := range of.locks {
			if x.sid.Other == sid.Other {
				lf = x
			}
		}
		if lf == nil {
			lf = &lockFile{lo: lo, of: of, access: of.access}
			of.locks = append(of.locks, lf)
			lo.nfiles++
			w.k.Probe("lock-state-created")
		}
		lf.sid = sid
		c.noteOther(sid)
		lf.ranges = append(lf.ranges, req.offset)
		w.k.Probe("lock-ok")
	case nfsv4.NFS4ERR_DENIED:
		w.k.Probe("lock-denied")
		if req.kind == kLockExist {
			w.k.Probe("lock-denied-existing-lock-owner")
		}
	default:
		w.checkNotRefused(req, d, s, "LOCK")
	}
}

var _ = bytes.Equal

func (w *world) blobByName(name string) *countingLeaf {
	if w.blobs == nil || name == "" {
		return nil
	}
	for _, l := range w.blobs.leaves {
		if l.blob.name == name {
			return l
		}
	}
	return nil
}

func (w *world) describeFH(fh []byte) string {
	if leaf, ok := w.leafOfFH(fh); ok {
		return fmt.Sprintf("the handle of file#%d", leaf)
	}
	return "no file's handle"
}

// applyBlobCheck: a blob file looked up by name must have the handle made of
// its identifiers, whatever was allocated or resolved since; that handle must
// lead to the file; reading through either must return the file's contents.
func (w *world) applyBlobCheck(req *request, d *delivery) {
	c := req.cl
	bl := req.blob
	base := req.base
	if req.name != "" {
		// PUTROOTFH LOOKUP GETFH READ
		if st, ev := statusAt(d.res, base+1); !ev || st != nfsv4.NFS4_OK {
			if ev {
				w.violate("blob-not-found", fmt.Sprintf("%s request#%d [%s]: LOOKUP failed with %s", c.name, req.id, req.desc, statName(st)))
			}
			return
		}
		if st, ev := statusAt(d.res, base+2); !ev || st != nfsv4.NFS4_OK {
			return
		}
		fh := d.res.Resarray[base+2].(*nfsv4.NfsResop4_OP_GETFH).Opgetfh.(*nfsv4.Getfh4res_NFS4_OK).Resok4.Object
		if !bytes.Equal(fh, bl.fh) {
			w.violate("wrong-file-handle", fmt.Sprintf("%s request#%d [%s]: LOOKUP of %s (file#%d) + GETFH returned file handle %x, but that file's handle is %x (%s)", c.name, req.id, req.desc, req.name, bl.id, fh, bl.fh, w.describeFH(fh)))
			return
		}
		w.k.Probe("blob-lookup-returned-the-right-handle")
		w.checkReadData(req, d, base+3, bl.fh)
		return
	}
	// PUTFH READ
	if st, ev := statusAt(d.res, base); ev && st != nfsv4.NFS4_OK {
		w.violate("handle-not-resolvable", fmt.Sprintf("%s request#%d [%s]: PUTFH of the handle of file#%d (%s) failed with %s", c.name, req.id, req.desc, bl.id, bl.blob.name, statName(st)))
		return
	}
	w.k.Probe("blob-handle-led-to-a-file")
	w.checkReadData(req, d, base+1, bl.fh)
}

// applyCurSid evaluates the operation that used the special "current
// stateid" at the end of a COMPOUND (RFC 8881 section 16.2.3.1.2): OPEN makes
// its state ID the current one, SAVEFH/RESTOREFH save and restore it along
// with the file handle, PUTFH (any operation that sets the current file
// handle without yielding a state ID) voids it.
func (w *world) applyCurSid(req *request, d *delivery) {
	c := req.cl
	base := req.base
	if st, ev := statusAt(d.res, base+1); !ev || st != nfsv4.NFS4_OK {
		return
	}
	if st, ev := statusAt(d.res, base+2); !ev || st != nfsv4.NFS4_OK {
		return
	}
	fh := d.res.Resarray[base+2].(*nfsv4.NfsResop4_OP_GETFH).Opgetfh.(*nfsv4.Getfh4res_NFS4_OK).Resok4.Object
	of := req.o.files[string(fh)]
	last := len(req.args.Argarray) - 1
	st, ev := statusAt(d.res, last)
	if of == nil || !ev {
		return
	}
	valid := req.curVariant == 0 || req.curVariant == 3
	if !valid {
		if st == nfsv4.NFS4_OK {
			w.violate("current-stateid-survives-putfh", fmt.Sprintf("%s request#%d [%s]: the state ID that OPEN issued for file#%d was still honoured as the current stateid after the current file handle had been replaced: %s succeeded; reply %s", c.name, req.id, req.desc, of.leaf, req.curOp, describeReply(d.res)))
			return
		}
		w.k.Probe("current-stateid-void-after-putfh")
		return
	}
	switch req.curOp {
	case "READ":
		switch {
		case of.access&1 != 0 && st != nfsv4.NFS4_OK:
			w.violate("valid-stateid-refused", fmt.Sprintf("%s request#%d [%s]: READ with the current stateid right after OPEN of file#%d for reading failed with %s; reply %s", c.name, req.id, req.desc, of.leaf, statName(st), describeReply(d.res)))
		case of.access&1 == 0 && st == nfsv4.NFS4_OK:
			w.violate("stateid-honoured-wrongly", fmt.Sprintf("%s request#%d [%s]: READ with the current stateid succeeded although file#%d is not open for reading by this open-owner", c.name, req.id, req.desc, of.leaf))
		case st == nfsv4.NFS4_OK:
			w.k.Probe("current-stateid-read-ok")
			w.checkReadData(req, d, last, of.fh)
		}
	case "CLOSE":
		if st != nfsv4.NFS4_OK {
			w.violate("valid-stateid-refused", fmt.Sprintf("%s request#%d [%s]: CLOSE with the current stateid right after OPEN of file#%d failed with %s; reply %s", c.name, req.id, req.desc, of.leaf, statName(st), describeReply(d.res)))
			return
		}
		w.k.Probe("current-stateid-close-ok")
		req.o.dropFile(of)
	}
}

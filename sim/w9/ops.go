package w9

import (
	"encoding/binary"
	"fmt"
	"time"

	"github.com/buildbarn/go-xdr/pkg/protocols/nfsv4"
)

// ---------------------------------------------------------------------------
// Clients and lanes.
// ---------------------------------------------------------------------------

func newClient(w *world, idx int) *client {
	t := w.t
	c := &client{w: w, idx: idx, name: fmt.Sprintf("c%d", idx), minor: uint32(t.Choice(2))}
	c.longID = []byte(fmt.Sprintf("client-%d", idx))
	c.boot = 1
	nl := 1 + t.Choice(2)
	for i := 0; i < nl; i++ {
		ln := &lane{w: w, cl: c, idx: i, name: fmt.Sprintf("c%d.l%d", idx, i), maxOps: 6 + t.Choice(20), gidx: idx*2 + i}
		for j := 0; j < 2; j++ {
			ln.owners = append(ln.owners, &owner{cl: c, ln: ln, key: []byte(fmt.Sprintf("%s.o%d", ln.name, j)), files: map[string]*openFile{}})
		}
		// One lock-owner per open-owner: a lock-owner is only ever used
		// through one open-owner (as the Linux client does). Using one
		// lock-owner on one file through two open-owners is C20's subject.
		for j := 0; j < 2; j++ {
			ln.lockOwners = append(ln.lockOwners, &lockOwner{cl: c, ln: ln, key: []byte(fmt.Sprintf("%s.k%d", ln.name, j))})
		}
		c.lanes = append(c.lanes, ln)
	}
	if w.vanishOn && t.Bool(1, 4) {
		// This client goes silent early, with whatever it holds.
		c.silentAfter = 3 + t.Choice(6)
	}
	w.r.Logf("%s: NFSv4.%d, %d lanes, silent after %d", c.name, c.minor, nl, c.silentAfter)
	for _, ln := range c.lanes {
		ln := ln
		ln.actor = w.k.Spawn(ln.name, ln.loop)
	}
	if w.dupOn {
		for i := 0; i < 2; i++ {
			name := fmt.Sprintf("c%d.dup%d", idx, i)
			w.k.Spawn(name, func() { c.dupLoop(name) })
		}
	}
	return c
}

func (ln *lane) loop() {
	w := ln.w
	c := ln.cl
	for n := 0; n < ln.maxOps; n++ {
		w.k.Yield("next")
		if w.stopping {
			return
		}
		if !c.registered && ln.idx != 0 {
			w.k.SeamWhen("wait-registered", func() bool { return c.registered || w.stopping })
			if w.stopping {
				return
			}
		}
		req, quit := ln.choose()
		if c.silentAfter > 0 && ln.issued >= c.silentAfter {
			req, quit = nil, true
		}
		if quit {
			w.k.FaultsFired["client-lane-vanishes"]++
			w.r.Logf("%s vanishes", ln.name)
			return
		}
		if req == nil {
			continue
		}
		ln.issued++
		if w.dupOn && req.probe == "" && req.kind != kReleaseLockOwner && req.kind != kTooManyOps {
			nd := w.t.Weighted([]int{6, 3, 1})
			for i := 0; i < nd; i++ {
				c.dupQueue = append(c.dupQueue, req)
				req.queued++
			}
		}
		ln.send(req)
		if ln.quiet > 0 {
			ln.quietPeriod()
		}
	}
}

const quietStep = enforcedLease/2 + time.Second

// quietPeriod: after closing one of several files of an open-owner the lane
// sends nothing on behalf of that open-owner for longer than the lease time,
// while it keeps the client's lease alive (RENEW at intervals shorter than the
// lease, now and then a READ with the state ID of a file that is still open).
// Whatever the open-owner still has open must survive that.
func (ln *lane) quietPeriod() {
	w := ln.w
	c := ln.cl
	w.k.Probe("quiet-period-after-partial-close")
	for ln.quiet > 0 && !w.stopping {
		ln.quiet--
		target := w.now().Add(quietStep)
		ln.quietWait = true
		w.k.SeamWhen("quiet-wait", func() bool { return !w.now().Before(target) || w.stopping })
		ln.quietWait = false
		if w.stopping || !c.registered || (c.minor == 1 && (c.sess == nil || !c.sess.alive)) {
			break
		}
		read := w.t.Bool(1, 3)
		ln.issued++
		ln.send(ln.reqRenew())
		if of := ln.quietOf; read && of != nil && of.o.files[string(of.fh)] == of && !w.stopping && c.registered && (c.minor == 0 || (c.sess != nil && c.sess.alive)) {
			ln.issued++
			ln.send(ln.reqIO(of.fh, of.sid, 0, "open state kept through a quiet period"))
		}
	}
	ln.quiet = 0
	ln.quietOf = nil
}

// ---------------------------------------------------------------------------
// Building compounds.
// ---------------------------------------------------------------------------

func opPutRootFH() nfsv4.NfsArgop4 { return &nfsv4.NfsArgop4_OP_PUTROOTFH{} }
func opGetFH() nfsv4.NfsArgop4     { return &nfsv4.NfsArgop4_OP_GETFH{} }
func opPutFH(fh []byte) nfsv4.NfsArgop4 {
	return &nfsv4.NfsArgop4_OP_PUTFH{Opputfh: nfsv4.Putfh4args{Object: append([]byte(nil), fh...)}}
}

// finish wraps the operations into a COMPOUND of the client's minor version;
// for NFSv4.1 it prepends SEQUENCE on the lane's slot.
func (ln *lane) finish(req *request, ops ...nfsv4.NfsArgop4) *request {
	c := ln.cl
	w := ln.w
	if c.minor == 0 {
		req.args = &nfsv4.Compound4args{Tag: fmt.Sprintf("r%d", req.id), Minorversion: 0, Argarray: ops}
		return req
	}
	s := c.sess
	if s == nil {
		harness("sequenced request without a session")
	}
	req.sess = s
	req.slot = uint32(ln.idx)
	req.base = 1
	req.replay = true
	switch req.probe {
	case "misordered":
		req.slotSeq = s.slotSeq[req.slot] + 2 + uint32(w.t.Choice(2))*0xfffffffc // +2 or -2
		req.noChain = true
	case "false-retry":
		req.slotSeq = s.slotSeq[req.slot]
		req.noChain = true
		req.replay = false
	default:
		req.slotSeq = s.slotSeq[req.slot] + 1
	}
	req.cache = w.t.Bool(2, 3)
	seq := &nfsv4.NfsArgop4_OP_SEQUENCE{Opsequence: nfsv4.Sequence4args{
		SaSessionid: s.id, SaSequenceid: req.slotSeq, SaSlotid: req.slot, SaHighestSlotid: slotsPerSess - 1, SaCachethis: req.cache,
	}}
	req.args = &nfsv4.Compound4args{Tag: fmt.Sprintf("r%d", req.id), Minorversion: 1, Argarray: append([]nfsv4.NfsArgop4{seq}, ops...)}
	req.desc = fmt.Sprintf("SEQUENCE(slot %d seq %d cache=%v) %s", req.slot, req.slotSeq, req.cache, req.desc)
	return req
}

func accessName(a uint32) string { return [...]string{"-", "R", "W", "RW"}[a&3] }

func fattrSize(size uint64) nfsv4.Fattr4 {
	var b [8]byte
	binary.BigEndian.PutUint64(b[:], size)
	return nfsv4.Fattr4{Attrmask: []uint32{1 << nfsv4.FATTR4_SIZE}, AttrVals: b[:]}
}

func fattrMode(mode uint32) nfsv4.Fattr4 {
	var b [4]byte
	binary.BigEndian.PutUint32(b[:], mode)
	return nfsv4.Fattr4{Attrmask: []uint32{0, 1 << (nfsv4.FATTR4_MODE - 32)}, AttrVals: b[:]}
}

// nextSeq returns the open-owner sequence ID for the next request (NFSv4.0).
func (o *owner) nextSeq() uint32 {
	if o.seq == 0xffffffff {
		return 1
	}
	return o.seq + 1
}

func (lo *lockOwner) nextSeq() uint32 {
	if lo.seq == 0xffffffff {
		return 1
	}
	return lo.seq + 1
}

// seqFor sets the open-owner sequence ID of a request according to its probe
// type (NFSv4.0 only).
func (ln *lane) seqFor(req *request, o *owner) uint32 {
	req.o = o
	if ln.cl.minor != 0 {
		return 0
	}
	req.replay = true
	switch req.probe {
	case "misordered":
		req.seq = o.seq + 2 + uint32(ln.w.t.Choice(2))*0xfffffffc
		req.noChain = true
		req.replay = false
	case "false-retry":
		req.seq = o.seq
		req.noChain = true
		req.replay = false
	default:
		req.seq = o.nextSeq()
	}
	return req.seq
}

func (ln *lane) reqOpen(o *owner, name string, access uint32, how int, previous *openFile) *request {
	w := ln.w
	c := ln.cl
	req := w.newRequest(ln, kOpen)
	req.name, req.access = name, access
	seq := ln.seqFor(req, o)
	var openhow nfsv4.Openflag4
	howName := ""
	switch how {
	case 0:
		openhow, howName = &nfsv4.Openflag4_default{Opentype: nfsv4.OPEN4_NOCREATE}, "nocreate"
	case 1:
		openhow, howName = &nfsv4.Openflag4_OPEN4_CREATE{How: &nfsv4.Createhow4_UNCHECKED4{Createattrs: fattrMode(0o644)}}, "unchecked"
	case 2:
		openhow, howName = &nfsv4.Openflag4_OPEN4_CREATE{How: &nfsv4.Createhow4_UNCHECKED4{Createattrs: fattrSize(0)}}, "unchecked+truncate"
	case 3:
		openhow, howName = &nfsv4.Openflag4_OPEN4_CREATE{How: &nfsv4.Createhow4_GUARDED4{Createattrs: fattrMode(0o600)}}, "guarded"
	default:
		openhow, howName = &nfsv4.Openflag4_OPEN4_CREATE{How: &nfsv4.Createhow4_EXCLUSIVE4{Createverf: nfsv4.Verifier4{1, 2, 3, byte(req.id)}}}, "exclusive"
	}
	args := nfsv4.Open4args{
		Seqid: seq, ShareAccess: access, ShareDeny: 0,
		Owner:   nfsv4.StateOwner4{Clientid: c.id, Owner: o.key},
		Openhow: openhow,
	}
	req.seqOpIdx = 1
	req.valid = req.probe == ""
	if c.minor == 0 && req.probe == "" {
		// Every OPEN: the open-owner may be unconfirmed at the server
		// without the client knowing (collected while idle and created
		// afresh by this very request).
		o.guard = req
	}
	var first nfsv4.NfsArgop4
	if previous != nil {
		args.Claim = &nfsv4.OpenClaim4_CLAIM_PREVIOUS{DelegateType: nfsv4.OPEN_DELEGATE_NONE}
		first = opPutFH(previous.fh)
		req.of = previous
		req.fh = previous.fh
		req.desc = fmt.Sprintf("OPEN owner=%s seq=%d claim=PREVIOUS file#%d access=%s %s", o.key, seq, previous.leaf, accessName(access), howName)
		if c.minor == 1 && ln.w.t.Bool(1, 2) {
			args.Claim = &nfsv4.OpenClaim4_CLAIM_FH{}
			req.desc = fmt.Sprintf("OPEN owner=%s claim=FH file#%d access=%s %s", o.key, previous.leaf, accessName(access), howName)
		} else if ln.w.t.Bool(1, 4) {
			// Reclaim of a delegation: the servers never hand out
			// delegations, so this is refused (NFS4ERR_RECLAIM_BAD) after
			// the file was already opened on behalf of the request; the
			// refusal must give that open back.
			dt := nfsv4.OPEN_DELEGATE_READ
			if ln.w.t.Bool(1, 2) {
				dt = nfsv4.OPEN_DELEGATE_WRITE
			}
			args.Claim = &nfsv4.OpenClaim4_CLAIM_PREVIOUS{DelegateType: dt}
			req.valid = false
			req.desc += fmt.Sprintf(" delegate-type=%d (never granted)", dt)
			ln.w.k.Probe("open-reclaim-of-delegation")
		}
	} else {
		args.Claim = &nfsv4.OpenClaim4_CLAIM_NULL{File: name}
		first = opPutRootFH()
		req.desc = fmt.Sprintf("OPEN owner=%s seq=%d claim=NULL name=%s access=%s %s", o.key, seq, name, accessName(access), howName)
	}
	if req.probe != "" {
		req.desc = req.probe + " probe: " + req.desc
	}
	return ln.finish(req, first, &nfsv4.NfsArgop4_OP_OPEN{Opopen: args}, opGetFH())
}

func (ln *lane) reqOpenConfirm(of *openFile) *request {
	req := ln.w.newRequest(ln, kOpenConfirm)
	req.of, req.fh = of, of.fh
	seq := ln.seqFor(req, of.o)
	req.seqOpIdx = 1
	req.valid = true
	req.desc = fmt.Sprintf("OPEN_CONFIRM owner=%s seq=%d file#%d", of.o.key, seq, of.leaf)
	return ln.finish(req, opPutFH(of.fh), &nfsv4.NfsArgop4_OP_OPEN_CONFIRM{OpopenConfirm: nfsv4.OpenConfirm4args{OpenStateid: of.sid, Seqid: seq}})
}

func (ln *lane) reqClose(of *openFile, sid nfsv4.Stateid4) *request {
	req := ln.w.newRequest(ln, kClose)
	req.of, req.fh = of, of.fh
	seq := ln.seqFor(req, of.o)
	req.seqOpIdx = 1
	req.valid = req.probe == "" && sid == of.sid
	req.sid = sid
	req.desc = fmt.Sprintf("CLOSE owner=%s seq=%d file#%d stateid=%x.%d", of.o.key, seq, of.leaf, sid.Other, sid.Seqid)
	if req.probe != "" {
		req.desc = req.probe + " probe: " + req.desc
	}
	return ln.finish(req, opPutFH(of.fh), &nfsv4.NfsArgop4_OP_CLOSE{Opclose: nfsv4.Close4args{Seqid: seq, OpenStateid: sid}})
}

func (ln *lane) reqDowngrade(of *openFile, access uint32) *request {
	req := ln.w.newRequest(ln, kOpenDowngrade)
	req.of, req.fh, req.access = of, of.fh, access
	seq := ln.seqFor(req, of.o)
	req.seqOpIdx = 1
	req.valid = true
	req.desc = fmt.Sprintf("OPEN_DOWNGRADE owner=%s seq=%d file#%d to %s", of.o.key, seq, of.leaf, accessName(access))
	return ln.finish(req, opPutFH(of.fh), &nfsv4.NfsArgop4_OP_OPEN_DOWNGRADE{OpopenDowngrade: nfsv4.OpenDowngrade4args{OpenStateid: of.sid, Seqid: seq, ShareAccess: access}})
}

func (ln *lane) lockRange(lo *lockOwner) uint64 {
	lo.nextRange++
	return uint64(ln.gidx)*1000 + (lo.nextRange%8)*10
}

// contend: with probability 1/2 the lock request goes for one of three
// overlapping 20 byte ranges that the lock-owners of all lanes of all clients
// compete for, mostly exclusively, so that requests get denied; otherwise for a range of the lane's own.
func (ln *lane) contend(of *openFile, lo *lockOwner) (offset, length uint64, lt nfsv4.NfsLockType4) {
	t := ln.w.t
	lt = nfsv4.READ_LT
	own := 2
	if of.leaf == 0 {
		own = 1
	}
	if t.Bool(own, 4) {
		if of.access&2 != 0 && t.Bool(1, 2) {
			lt = nfsv4.WRITE_LT
		}
		return ln.lockRange(lo), 10, lt
	}
	// (The server does not tie the lock type to the access the file was
	// opened with, so exclusive locks contend on read-only files too.)
	if t.Bool(2, 3) {
		lt = nfsv4.WRITE_LT
	}
	return 9000 + uint64(t.Choice(3))*10, 20, lt
}

// pickHot prefers file#0, on which the lock-owners of all clients meet.
func (ln *lane) pickHot(files []*openFile) *openFile {
	t := ln.w.t
	var hot []*openFile
	for _, of := range files {
		if of.leaf == 0 {
			hot = append(hot, of)
		}
	}
	if len(hot) > 0 && t.Bool(2, 3) {
		return pick(t, hot)
	}
	return pick(t, files)
}

func (ln *lane) reqLockNew(of *openFile, lo *lockOwner) *request {
	c := ln.cl
	req := ln.w.newRequest(ln, kLockNew)
	req.of, req.fh, req.lo = of, of.fh, lo
	seq := ln.seqFor(req, of.o)
	if c.minor == 0 {
		req.lseq = lo.nextSeq()
	}
	req.seqOpIdx = 1
	req.valid = true
	var length uint64
	var lt nfsv4.NfsLockType4
	req.offset, length, lt = ln.contend(of, lo)
	req.desc = fmt.Sprintf("LOCK new lock-owner=%s open-owner=%s open-seq=%d lock-seq=%d file#%d range=%d+%d type=%d", lo.key, of.o.key, seq, req.lseq, of.leaf, req.offset, length, lt)
	return ln.finish(req, opPutFH(of.fh), &nfsv4.NfsArgop4_OP_LOCK{Oplock: nfsv4.Lock4args{
		Locktype: lt, Offset: req.offset, Length: length,
		Locker: &nfsv4.Locker4_TRUE{OpenOwner: nfsv4.OpenToLockOwner4{
			OpenSeqid: seq, OpenStateid: of.sid, LockSeqid: req.lseq,
			LockOwner: nfsv4.StateOwner4{Clientid: c.id, Owner: lo.key},
		}},
	}})
}

func (ln *lane) reqLockExist(lf *lockFile) *request {
	c := ln.cl
	req := ln.w.newRequest(ln, kLockExist)
	req.lf, req.of, req.fh, req.lo = lf, lf.of, lf.of.fh, lf.lo
	if c.minor == 0 {
		req.lseq = lf.lo.nextSeq()
		req.replay = true
	}
	req.seqOpIdx = 1
	req.valid = true
	var length uint64
	var lt nfsv4.NfsLockType4
	req.offset, length, lt = ln.contend(lf.of, lf.lo)
	req.desc = fmt.Sprintf("LOCK lock-owner=%s lock-seq=%d file#%d stateid=%x.%d range=%d+%d type=%d", lf.lo.key, req.lseq, lf.of.leaf, lf.sid.Other, lf.sid.Seqid, req.offset, length, lt)
	return ln.finish(req, opPutFH(lf.of.fh), &nfsv4.NfsArgop4_OP_LOCK{Oplock: nfsv4.Lock4args{
		Locktype: lt, Offset: req.offset, Length: length,
		Locker: &nfsv4.Locker4_FALSE{LockOwner: nfsv4.ExistLockOwner4{LockStateid: lf.sid, LockSeqid: req.lseq}},
	}})
}

func (ln *lane) reqLockU(lf *lockFile, all bool) *request {
	c := ln.cl
	req := ln.w.newRequest(ln, kLockU)
	req.lf, req.of, req.fh, req.lo = lf, lf.of, lf.of.fh, lf.lo
	if c.minor == 0 {
		req.lseq = lf.lo.nextSeq()
		req.replay = true
	}
	req.seqOpIdx = 1
	req.valid = true
	off, length := uint64(0), uint64(0xffffffffffffffff)
	if !all && len(lf.ranges) > 0 {
		off, length = lf.ranges[0], 10
	}
	req.offset = off
	req.access = 0
	if all {
		req.access = 1
	}
	req.desc = fmt.Sprintf("LOCKU lock-owner=%s lock-seq=%d file#%d stateid=%x.%d range=%d+%d", lf.lo.key, req.lseq, lf.of.leaf, lf.sid.Other, lf.sid.Seqid, off, length)
	return ln.finish(req, opPutFH(lf.of.fh), &nfsv4.NfsArgop4_OP_LOCKU{Oplocku: nfsv4.Locku4args{
		Locktype: nfsv4.READ_LT, Seqid: req.lseq, LockStateid: lf.sid, Offset: off, Length: length,
	}})
}

func (ln *lane) reqLockT(fh []byte, lo *lockOwner) *request {
	req := ln.w.newRequest(ln, kLockT)
	req.fh = fh
	req.desc = fmt.Sprintf("LOCKT lock-owner=%s handle=%x", lo.key, fh)
	return ln.finish(req, opPutFH(fh), &nfsv4.NfsArgop4_OP_LOCKT{Oplockt: nfsv4.Lockt4args{
		Locktype: nfsv4.WRITE_LT, Offset: 0, Length: 0xffffffffffffffff, Owner: nfsv4.StateOwner4{Clientid: ln.cl.id, Owner: lo.key},
	}})
}

func (ln *lane) reqReleaseLockOwner(lo *lockOwner) *request {
	req := ln.w.newRequest(ln, kReleaseLockOwner)
	req.lo = lo
	req.desc = fmt.Sprintf("RELEASE_LOCKOWNER lock-owner=%s", lo.key)
	return ln.finish(req, &nfsv4.NfsArgop4_OP_RELEASE_LOCKOWNER{OpreleaseLockowner: nfsv4.ReleaseLockowner4args{LockOwner: nfsv4.StateOwner4{Clientid: ln.cl.id, Owner: lo.key}}})
}

func (ln *lane) reqFreeStateID(lf *lockFile) *request {
	req := ln.w.newRequest(ln, kFreeStateID)
	req.lf, req.of, req.lo = lf, lf.of, lf.lo
	req.valid = true
	req.desc = fmt.Sprintf("FREE_STATEID lock-owner=%s file#%d stateid=%x.%d held-ranges=%d", lf.lo.key, lf.of.leaf, lf.sid.Other, lf.sid.Seqid, len(lf.ranges))
	return ln.finish(req, &nfsv4.NfsArgop4_OP_FREE_STATEID{OpfreeStateid: nfsv4.FreeStateid4args{FsaStateid: lf.sid}})
}

func (ln *lane) reqIO(fh []byte, sid nfsv4.Stateid4, op int, how string) *request {
	if op == 2 && isSpecialStateID(sid) && !ln.w.setattrAnon {
		// SETATTR with a special state ID goes to the leaf without opening
		// it. Through a handle that NFSv4.0's two-phase CLOSE keeps
		// resolvable this reaches a pool-backed file that was already
		// released (nil pointer dereference in virtualTruncate): outside
		// C18/C19, reported separately; enable with VERIF_W9_SETATTR_ANON=1.
		op = 1
	}
	req := ln.w.newRequest(ln, kIO)
	req.fh, req.sid = fh, sid
	var ioop nfsv4.NfsArgop4
	switch op {
	case 0:
		req.ioNeed, req.ioOp = 1, "READ"
		ioop = &nfsv4.NfsArgop4_OP_READ{Opread: nfsv4.Read4args{Stateid: sid, Offset: 0, Count: 64}}
	case 1:
		req.ioNeed, req.ioOp = 2, "WRITE"
		ioop = &nfsv4.NfsArgop4_OP_WRITE{Opwrite: nfsv4.Write4args{Stateid: sid, Offset: uint64(req.id % 16), Stable: nfsv4.FILE_SYNC4, Data: []byte(fmt.Sprintf("w%d.", req.id))}}
	default:
		req.ioNeed, req.ioOp = 2, "SETATTR(size)"
		ioop = &nfsv4.NfsArgop4_OP_SETATTR{Opsetattr: nfsv4.Setattr4args{Stateid: sid, ObjAttributes: fattrSize(uint64(req.id % 32))}}
	}
	req.desc = fmt.Sprintf("%s handle=%x stateid=%x.%d (%s)", req.ioOp, fh, sid.Other, sid.Seqid, how)
	return ln.finish(req, opPutFH(fh), ioop)
}

func (ln *lane) reqRenew() *request {
	req := ln.w.newRequest(ln, kRenew)
	req.valid = true
	if ln.cl.minor == 1 {
		req.desc = "(lease renewal)"
		return ln.finish(req)
	}
	req.desc = fmt.Sprintf("RENEW clientid=%x", ln.cl.id)
	return ln.finish(req, &nfsv4.NfsArgop4_OP_RENEW{Oprenew: nfsv4.Renew4args{Clientid: ln.cl.id}})
}

func (ln *lane) reqRemove(name string) *request {
	req := ln.w.newRequest(ln, kRemove)
	req.name = name
	req.desc = "REMOVE " + name
	return ln.finish(req, opPutRootFH(), &nfsv4.NfsArgop4_OP_REMOVE{Opremove: nfsv4.Remove4args{Target: name}})
}

func (ln *lane) reqProbeFH(fh []byte) *request {
	req := ln.w.newRequest(ln, kProbeFH)
	req.fh = fh
	req.desc = fmt.Sprintf("PUTFH %x + GETATTR", fh)
	return ln.finish(req, opPutFH(fh), &nfsv4.NfsArgop4_OP_GETATTR{Opgetattr: nfsv4.Getattr4args{AttrRequest: []uint32{1 << nfsv4.FATTR4_SIZE}}})
}

func (ln *lane) reqBlobCheck(bl *countingLeaf, byName bool) *request {
	req := ln.w.newRequest(ln, kBlobCheck)
	req.blob = bl
	req.fh = bl.fh
	read := &nfsv4.NfsArgop4_OP_READ{Opread: nfsv4.Read4args{Offset: 0, Count: 64}}
	if byName {
		req.name = bl.blob.name
		req.desc = fmt.Sprintf("PUTROOTFH LOOKUP %s GETFH READ(anonymous)", req.name)
		return ln.finish(req, opPutRootFH(), &nfsv4.NfsArgop4_OP_LOOKUP{Oplookup: nfsv4.Lookup4args{Objname: req.name}}, opGetFH(), read)
	}
	req.desc = fmt.Sprintf("PUTFH %x (file#%d) READ(anonymous)", bl.fh, bl.id)
	return ln.finish(req, opPutFH(bl.fh), read)
}

var currentStateID = nfsv4.Stateid4{Seqid: 1}

// reqCurSid: an NFSv4.1 COMPOUND in which OPEN is followed, possibly after
// operations that replace, save or restore the current file handle, by an
// operation that refers to the open state as "the current stateid".
//
//	0: OPEN a, op                            (acts on a's state)
//	1: OPEN a, PUTFH b, op                   (the current stateid is void)
//	2: OPEN a, PUTFH a, op                   (void as well)
//	3: OPEN a, SAVEFH, PUTFH b, RESTOREFH, op (restored along with the handle)
//	4: OPEN a, PUTFH b, SAVEFH, RESTOREFH, op (what was saved was void)
func (ln *lane) reqCurSid() *request {
	w := ln.w
	t := w.t
	c := ln.cl
	req := w.newRequest(ln, kCurSid)
	o := pick(t, ln.owners)
	req.o = o
	blob := t.Bool(1, 2)
	if blob {
		req.name = pick(t, w.blobNames)
		req.access = 1
	} else {
		req.name = pick(t, w.names)
		req.access = uint32(1 + t.Choice(3))
	}
	req.curVariant = t.Weighted([]int{3, 4, 2, 2, 2})
	if req.curVariant == 2 && !blob {
		req.curVariant = 1
	}
	req.curOp = "READ"
	if t.Bool(1, 3) {
		req.curOp = "CLOSE"
	}
	other := w.fhOfLeaf(t.Choice(max(1, w.nLeaves())))
	if req.curVariant == 2 {
		other = w.blobByName(req.name).fh
	}
	var final nfsv4.NfsArgop4
	if req.curOp == "READ" {
		final = &nfsv4.NfsArgop4_OP_READ{Opread: nfsv4.Read4args{Stateid: currentStateID, Offset: 0, Count: 64}}
	} else {
		final = &nfsv4.NfsArgop4_OP_CLOSE{Opclose: nfsv4.Close4args{OpenStateid: currentStateID}}
	}
	ops := []nfsv4.NfsArgop4{opPutRootFH(), &nfsv4.NfsArgop4_OP_OPEN{Opopen: nfsv4.Open4args{
		ShareAccess: req.access, Owner: nfsv4.StateOwner4{Clientid: c.id, Owner: o.key},
		Openhow: &nfsv4.Openflag4_default{Opentype: nfsv4.OPEN4_NOCREATE}, Claim: &nfsv4.OpenClaim4_CLAIM_NULL{File: req.name},
	}}, opGetFH()}
	how := ""
	switch req.curVariant {
	case 1, 2:
		ops = append(ops, opPutFH(other))
		how = fmt.Sprintf("PUTFH %x", other)
	case 3:
		ops = append(ops, &nfsv4.NfsArgop4_OP_SAVEFH{}, opPutFH(other), &nfsv4.NfsArgop4_OP_RESTOREFH{})
		how = fmt.Sprintf("SAVEFH PUTFH %x RESTOREFH", other)
	case 4:
		ops = append(ops, opPutFH(other), &nfsv4.NfsArgop4_OP_SAVEFH{}, &nfsv4.NfsArgop4_OP_RESTOREFH{})
		how = fmt.Sprintf("PUTFH %x SAVEFH RESTOREFH", other)
	}
	ops = append(ops, final)
	req.valid = true
	req.desc = fmt.Sprintf("OPEN owner=%s name=%s access=%s nocreate; %s; %s(current stateid)", o.key, req.name, accessName(req.access), how, req.curOp)
	return ln.finish(req, ops...)
}

// --- client-level requests ---------------------------------------------------

func (c *client) verifier() nfsv4.Verifier4 {
	var v nfsv4.Verifier4
	binary.BigEndian.PutUint32(v[:], c.boot)
	v[7] = byte(c.idx)
	return v
}

func (ln *lane) reqSetClientID() *request {
	c := ln.cl
	req := ln.w.newRequest(ln, kSetClientID)
	req.desc = fmt.Sprintf("SETCLIENTID id=%s boot=%d", c.longID, c.boot)
	req.args = &nfsv4.Compound4args{Tag: fmt.Sprintf("r%d", req.id), Argarray: []nfsv4.NfsArgop4{
		&nfsv4.NfsArgop4_OP_SETCLIENTID{Opsetclientid: nfsv4.Setclientid4args{
			Client:   nfsv4.NfsClientId4{Verifier: c.verifier(), Id: c.longID},
			Callback: nfsv4.CbClient4{CbProgram: 1, CbLocation: nfsv4.Netaddr4{NaRNetid: "tcp", NaRAddr: "127.0.0.1.0.1"}},
		}},
	}}
	return req
}

func (ln *lane) reqSetClientIDConfirm() *request {
	c := ln.cl
	req := ln.w.newRequest(ln, kSetClientIDConfirm)
	req.clientLevel = true
	req.clID = c.pendID
	req.boot = c.pendBoot
	req.desc = fmt.Sprintf("SETCLIENTID_CONFIRM clientid=%x boot=%d", c.pendID, c.pendBoot)
	req.args = &nfsv4.Compound4args{Tag: fmt.Sprintf("r%d", req.id), Argarray: []nfsv4.NfsArgop4{
		&nfsv4.NfsArgop4_OP_SETCLIENTID_CONFIRM{OpsetclientidConfirm: nfsv4.SetclientidConfirm4args{Clientid: c.pendID, SetclientidConfirm: c.pendVerf}},
	}}
	return req
}

func (ln *lane) reqExchangeID() *request {
	c := ln.cl
	req := ln.w.newRequest(ln, kExchangeID)
	req.desc = fmt.Sprintf("EXCHANGE_ID owner=%s boot=%d", c.longID, c.boot)
	req.args = &nfsv4.Compound4args{Tag: fmt.Sprintf("r%d", req.id), Minorversion: 1, Argarray: []nfsv4.NfsArgop4{
		&nfsv4.NfsArgop4_OP_EXCHANGE_ID{OpexchangeId: nfsv4.ExchangeId4args{
			EiaClientowner:  nfsv4.ClientOwner4{CoVerifier: c.verifier(), CoOwnerid: c.longID},
			EiaFlags:        nfsv4.EXCHGID4_FLAG_USE_NON_PNFS,
			EiaStateProtect: &nfsv4.StateProtect4A_SP4_NONE{},
		}},
	}}
	return req
}

func (ln *lane) reqCreateSession(clientID uint64, seq uint32, probe string) *request {
	c := ln.cl
	if r := c.delayedCS; probe == "" && r != nil && r.clID == clientID && r.csSeq == seq && r.ln == ln && r.clEpoch == c.epoch {
		// The same request again (the server does not cache NFS4ERR_DELAY).
		return r
	}
	req := ln.w.newRequest(ln, kCreateSession)
	req.clientLevel = true
	req.replay = true
	req.clID = clientID
	req.csSeq = seq
	req.probe = probe
	req.valid = probe == ""
	if probe != "" {
		req.noChain = true
		req.replay = false
	}
	req.boot = c.pendBoot
	req.desc = fmt.Sprintf("CREATE_SESSION clientid=%x seq=%d", clientID, seq)
	if probe != "" {
		req.desc = probe + " probe: " + req.desc
	}
	attrs := nfsv4.ChannelAttrs4{CaMaxrequestsize: 1 << 16, CaMaxresponsesize: 1 << 16, CaMaxresponsesizeCached: 1 << 12, CaMaxoperations: 8, CaMaxrequests: slotsPerSess}
	req.args = &nfsv4.Compound4args{Tag: fmt.Sprintf("r%d", req.id), Minorversion: 1, Argarray: []nfsv4.NfsArgop4{
		&nfsv4.NfsArgop4_OP_CREATE_SESSION{OpcreateSession: nfsv4.CreateSession4args{
			CsaClientid: clientID, CsaSequence: seq, CsaFlags: nfsv4.CREATE_SESSION4_FLAG_PERSIST,
			CsaForeChanAttrs: attrs, CsaBackChanAttrs: attrs, CsaCbProgram: 1,
		}},
	}}
	return req
}

func (ln *lane) reqDestroySession(s *session) *request {
	req := ln.w.newRequest(ln, kDestroySession)
	req.clientLevel = true
	req.sess = nil
	req.desc = fmt.Sprintf("DESTROY_SESSION %x", s.id[:4])
	req.destroy = s
	req.args = &nfsv4.Compound4args{Tag: fmt.Sprintf("r%d", req.id), Minorversion: 1, Argarray: []nfsv4.NfsArgop4{
		&nfsv4.NfsArgop4_OP_DESTROY_SESSION{OpdestroySession: nfsv4.DestroySession4args{DsaSessionid: s.id}},
	}}
	return req
}

func (ln *lane) reqDestroyClientID() *request {
	c := ln.cl
	req := ln.w.newRequest(ln, kDestroyClientID)
	req.clientLevel = true
	req.desc = fmt.Sprintf("DESTROY_CLIENTID %x", c.id)
	req.args = &nfsv4.Compound4args{Tag: fmt.Sprintf("r%d", req.id), Minorversion: 1, Argarray: []nfsv4.NfsArgop4{
		&nfsv4.NfsArgop4_OP_DESTROY_CLIENTID{OpdestroyClientid: nfsv4.DestroyClientid4args{DcaClientid: c.id}},
	}}
	return req
}

// ---------------------------------------------------------------------------
// Choosing the next request of a lane.
// ---------------------------------------------------------------------------

type cand struct {
	weight int
	build  func() *request
}

func (ln *lane) openFiles(confirmedOnly bool) []*openFile {
	var out []*openFile
	for _, o := range ln.owners {
		if confirmedOnly && ln.cl.minor == 0 && !o.confirmed {
			continue
		}
		if confirmedOnly && o.guarded() {
			continue
		}
		out = append(out, o.sortedFiles()...)
	}
	return out
}

func (ln *lane) lockFiles() []*lockFile {
	var out []*lockFile
	for _, of := range ln.openFiles(false) {
		out = append(out, of.locks...)
	}
	return out
}

// anyOpenFiles returns open files of all clients of the given minor version.
func (w *world) anyOpenFiles(minor uint32) []*openFile {
	var out []*openFile
	for _, c := range w.clients {
		if c.minor != minor {
			continue
		}
		for _, o := range c.allOwners() {
			out = append(out, o.sortedFiles()...)
		}
	}
	return out
}

func (ln *lane) choose() (req *request, quit bool) {
	w := ln.w
	t := w.t
	c := ln.cl

	// Registration.
	if !c.registered || (c.minor == 1 && (c.sess == nil || !c.sess.alive)) {
		if ln.idx != 0 {
			return nil, false
		}
		if c.minor == 0 {
			if !c.hasPend || c.pendBoot != c.boot {
				return ln.reqSetClientID(), false
			}
			return ln.reqSetClientIDConfirm(), false
		}
		if c.registered && c.regBoot == c.boot {
			// Session was lost or destroyed; the client record may still be there.
			return ln.reqCreateSession(c.id, c.csSeq, ""), false
		}
		if !c.hasPend || c.pendBoot != c.boot {
			return ln.reqExchangeID(), false
		}
		return ln.reqCreateSession(c.pendID, c.pendCsSeq, ""), false
	}
	// A reboot is in progress: finish it.
	if ln.idx == 0 && c.regBoot != c.boot {
		if c.minor == 0 {
			if !c.hasPend || c.pendBoot != c.boot {
				return ln.reqSetClientID(), false
			}
			return ln.reqSetClientIDConfirm(), false
		}
		if !c.hasPend || c.pendBoot != c.boot {
			return ln.reqExchangeID(), false
		}
		return ln.reqCreateSession(c.pendID, c.pendCsSeq, ""), false
	}
	// Lease in doubt: find out.
	if !w.leaseCertain(c) {
		return ln.reqRenew(), false
	}

	var cs []cand
	add := func(weight int, build func() *request) {
		if weight > 0 {
			cs = append(cs, cand{weight, build})
		}
	}
	files := ln.openFiles(true)
	locks := ln.lockFiles()
	loOf := func(o *owner) *lockOwner {
		for j, x := range ln.owners {
			if x == o {
				return ln.lockOwners[j]
			}
		}
		return ln.lockOwners[0]
	}

	// NFSv4.0: opens that still need OPEN_CONFIRM.
	if c.minor == 0 {
		for _, o := range ln.owners {
			if !o.confirmed && len(o.files) > 0 && !o.guarded() {
				of := o.sortedFiles()[0]
				weight := 30
				if w.dupOn {
					weight = 1000
				}
				add(weight, func() *request { return ln.reqOpenConfirm(of) })
			}
		}
	}
	// OPEN.
	add(12, func() *request {
		var os []*owner
		for _, o := range ln.owners {
			if o.guarded() {
				continue
			}
			if c.minor == 0 && w.dupOn && !o.confirmed && len(o.files) > 0 {
				// With duplicates around, a new OPEN on an unconfirmed
				// open-owner would make a late duplicate of the old one
				// look like a new request (RFC 7530 section 16.18.5).
				continue
			}
			os = append(os, o)
		}
		if len(os) == 0 {
			return nil
		}
		o := pick(t, os)
		access := uint32(1 + t.Choice(3))
		how := t.Weighted([]int{5, 3, 1, 2, 1})
		if c.minor == 1 && how == 4 {
			how = 3
		}
		if fs := o.sortedFiles(); len(fs) > 0 && (c.minor == 1 || o.confirmed) && t.Bool(1, 4) {
			h := 0
			if t.Bool(1, 4) {
				h = 2
			}
			return ln.reqOpen(o, "", access, h, pick(t, fs))
		}
		if t.Bool(1, 5) {
			// The file everybody meets on (and contends for locks on).
			return ln.reqOpen(o, w.blobNames[0], 1, 0, nil)
		}
		if t.Bool(1, 3) {
			// A blob file (read-only).
			if t.Bool(3, 4) {
				access = 1
			}
			return ln.reqOpen(o, pick(t, w.blobNames), access, how, nil)
		}
		return ln.reqOpen(o, pick(t, w.names), access, how, nil)
	})
	// Blob files: the handle by name, the file by handle.
	add(4, func() *request { return ln.reqBlobCheck(w.blobByName(pick(t, w.blobNames)), t.Bool(1, 2)) })
	if c.minor == 1 {
		add(5, func() *request { return ln.reqCurSid() })
	}
	if len(files) > 0 {
		add(7, func() *request {
			of := pick(t, files)
			if others := of.o.sortedFiles(); len(others) >= 2 && w.timePressure > 0 && t.Bool(1, 2) {
				// Close one of several files of this open-owner, then keep
				// quiet (but renewing) for longer than the lease time.
				for _, x := range others {
					if x != of {
						ln.quietOf = x
					}
				}
				ln.quiet = 2 + t.Choice(2)
			}
			return ln.reqClose(of, of.sid)
		})
		add(3, func() *request {
			of := pick(t, files)
			if of.access != 3 {
				return nil
			}
			return ln.reqDowngrade(of, uint32(1+t.Choice(2)))
		})
		add(5, func() *request {
			of := ln.pickHot(files)
			lo := loOf(of.o)
			for _, lf := range of.locks {
				if lf.lo == lo && c.minor == 0 {
					return ln.reqLockExist(lf)
				}
			}
			return ln.reqLockNew(of, lo)
		})
	}
	if len(locks) > 0 {
		add(6, func() *request {
			var hot []*lockFile
			for _, lf := range locks {
				if lf.of.leaf == 0 {
					hot = append(hot, lf)
				}
			}
			if len(hot) > 0 && t.Bool(2, 3) {
				return ln.reqLockExist(pick(t, hot))
			}
			return ln.reqLockExist(pick(t, locks))
		})
		add(4, func() *request { return ln.reqLockU(pick(t, locks), t.Bool(1, 2)) })
		if c.minor == 1 {
			add(4, func() *request {
				lf := pick(t, locks)
				if w.noFreeLocked && len(lf.ranges) > 0 {
					return ln.reqLockU(lf, true)
				}
				return ln.reqFreeStateID(lf)
			})
		}
	}
	if c.minor == 0 {
		add(2, func() *request { return ln.reqReleaseLockOwner(pick(t, ln.lockOwners)) })
	}
	add(1, func() *request { return ln.reqLockT(w.fhOfLeaf(t.Choice(max(1, w.nLeaves()))), pick(t, ln.lockOwners)) })
	// I/O.
	add(12, func() *request { return ln.chooseIO() })
	add(1, func() *request { return ln.reqRenew() })
	add(2, func() *request { return ln.reqRemove(pick(t, w.names)) })
	add(2, func() *request { return ln.reqProbeFH(w.fhOfLeaf(t.Choice(max(1, w.nLeaves())))) })
	// Requests that must be rejected.
	add(3, func() *request { return ln.chooseProbe() })
	// Client re-registers under a new boot verifier ("reboot"), or tears
	// its session down.
	if ln.idx == 0 {
		add(1, func() *request {
			c.boot++
			w.k.Probe("client-reboots")
			w.r.Logf("%s reboots (boot %d)", c.name, c.boot)
			if c.minor == 0 {
				return ln.reqSetClientID()
			}
			return ln.reqExchangeID()
		})
		if c.minor == 1 {
			add(1, func() *request { return ln.reqCreateSession(c.id, c.csSeq, "") })
			add(1, func() *request {
				if len(c.oldSessions) > 0 && t.Bool(2, 3) {
					s := c.oldSessions[0]
					return ln.reqDestroySession(s)
				}
				return ln.reqDestroySession(c.sess)
			})
			add(1, func() *request { return ln.reqDestroyClientID() })
		}
	}
	if c.minor == 1 {
		// More operations than the session allows: refused as a whole,
		// the slot stays usable.
		add(2, func() *request {
			req := w.newRequest(ln, kTooManyOps)
			req.desc = "PUTROOTFH + 8 x GETFH (more than ca_maxoperations)"
			ops := []nfsv4.NfsArgop4{opPutRootFH()}
			for i := 0; i < 8; i++ {
				ops = append(ops, opGetFH())
			}
			ln.finish(req, ops...)
			req.replay = false
			return req
		})
	}
	vanish := 0
	if w.vanishOn {
		vanish = 1
	}
	weights := make([]int, 0, len(cs)+1)
	for _, x := range cs {
		weights = append(weights, x.weight)
	}
	weights = append(weights, vanish)
	i := t.Weighted(weights)
	if i == len(cs) {
		return nil, true
	}
	return cs[i].build(), false
}

func (ln *lane) chooseIO() *request {
	w := ln.w
	t := w.t
	c := ln.cl
	op := t.Weighted([]int{5, 4, 1})
	own := ln.openFiles(false)
	all := w.anyOpenFiles(c.minor)
	nLeaves := max(1, w.nLeaves())
	variant := t.Weighted([]int{10, 2, 2, 2, 2, 3, 1, 1, 2})
	switch {
	case variant == 0 && len(own) > 0:
		of := pick(t, own)
		return ln.reqIO(of.fh, of.sid, op, "own open state")
	case variant == 1 && len(own) > 0:
		of := pick(t, own)
		sid := of.sid
		if sid.Seqid > 1 {
			sid.Seqid--
			return ln.reqIO(of.fh, sid, op, "old sequence")
		}
		sid.Seqid += 3
		return ln.reqIO(of.fh, sid, op, "future sequence")
	case variant == 2 && len(own) > 0:
		of := pick(t, own)
		return ln.reqIO(w.fhOfLeaf(t.Choice(nLeaves)), of.sid, op, "own state, arbitrary file")
	case variant == 3 && len(all) > 0:
		of := pick(t, all)
		return ln.reqIO(of.fh, of.sid, op, "state of "+string(of.o.key))
	case variant == 4 && len(ln.lockFiles()) > 0:
		lf := pick(t, ln.lockFiles())
		return ln.reqIO(lf.of.fh, lf.sid, op, "own lock state")
	case variant == 5:
		var sid nfsv4.Stateid4
		how := "anonymous state ID"
		if t.Bool(1, 2) {
			for i := range sid.Other {
				sid.Other[i] = 0xff
			}
			sid.Seqid = 0xffffffff
			how = "READ bypass state ID"
		}
		return ln.reqIO(w.fhOfLeaf(t.Choice(nLeaves)), sid, op, how)
	case variant == 6:
		var sid nfsv4.Stateid4
		copy(sid.Other[:], stateIDPrefix[:])
		binary.BigEndian.PutUint64(sid.Other[4:], 0x1234567800000000+uint64(t.Choice(1000)))
		sid.Seqid = 1
		if c.minor == 1 {
			sid.Other = [12]byte{}
			binary.LittleEndian.PutUint64(sid.Other[:], uint64(20+t.Choice(5)))
		}
		return ln.reqIO(w.fhOfLeaf(t.Choice(nLeaves)), sid, op, "made-up state ID")
	case variant == 7 && c.minor == 0:
		sid := nfsv4.Stateid4{Seqid: 1, Other: [12]byte{1, 2, 3, 4, 5, 6, 7, 8, 9, 10, 11, 12}}
		return ln.reqIO(w.fhOfLeaf(t.Choice(nLeaves)), sid, op, "state ID of another server instance")
	case variant == 8 && len(all) > 0:
		// Any state on any file handle.
		of := pick(t, all)
		return ln.reqIO(w.fhOfLeaf(t.Choice(nLeaves)), of.sid, op, "state of "+string(of.o.key)+", arbitrary file")
	}
	if len(own) > 0 {
		of := pick(t, own)
		return ln.reqIO(of.fh, of.sid, op, "own open state")
	}
	return ln.reqIO(w.fhOfLeaf(t.Choice(nLeaves)), nfsv4.Stateid4{}, op, "anonymous state ID")
}

// chooseProbe builds a request that the server must reject: a sequence ID
// that is out of order, or a reused sequence ID with different content.
func (ln *lane) chooseProbe() *request {
	w := ln.w
	t := w.t
	c := ln.cl
	files := ln.openFiles(true)
	kind := "misordered"
	if t.Bool(1, 2) {
		kind = "false-retry"
	}
	if c.minor == 1 {
		s := c.sess
		slot := uint32(ln.idx)
		last := s.slotLast[slot]
		if kind == "false-retry" && (last == nil || s.slotSeq[slot] == 0) {
			kind = "misordered"
		}
		var req *request
		if kind == "false-retry" {
			// Same slot and sequence ID as the last request, other operations.
			// The first operation differs from the last request's, so that
			// the server can tell even if it did not cache that reply.
			req = w.newRequest(ln, kProbeFH)
			req.probe = kind
			if len(last.args.Argarray) > 1 {
				if _, isRoot := last.args.Argarray[1].(*nfsv4.NfsArgop4_OP_PUTROOTFH); isRoot {
					req.desc = "false-retry probe: PUTFH GETFH"
					return ln.finish(req, opPutFH(w.fhOfLeaf(0)), opGetFH())
				}
			}
			req.desc = "false-retry probe: PUTROOTFH GETFH"
			return ln.finish(req, opPutRootFH(), opGetFH())
		}
		if len(files) > 0 && t.Bool(1, 2) {
			of := pick(t, files)
			req = w.newRequest(ln, kClose)
			req.probe = kind
			req.of, req.fh, req.o = of, of.fh, of.o
			req.desc = fmt.Sprintf("misordered probe: CLOSE file#%d", of.leaf)
			return ln.finish(req, opPutFH(of.fh), &nfsv4.NfsArgop4_OP_CLOSE{Opclose: nfsv4.Close4args{OpenStateid: of.sid}})
		}
		req = w.newRequest(ln, kOpen)
		req.probe = kind
		req.o = ln.owners[0]
		req.name = w.names[0]
		req.access = 1
		req.desc = "misordered probe: OPEN " + req.name
		return ln.finish(req, opPutRootFH(), &nfsv4.NfsArgop4_OP_OPEN{Opopen: nfsv4.Open4args{
			ShareAccess: 1, Owner: nfsv4.StateOwner4{Clientid: c.id, Owner: req.o.key},
			Openhow: &nfsv4.Openflag4_default{Opentype: nfsv4.OPEN4_NOCREATE}, Claim: &nfsv4.OpenClaim4_CLAIM_NULL{File: req.name},
		}}, opGetFH())
	}
	// NFSv4.0: needs a confirmed open-owner whose last request is known.
	var os []*owner
	for _, o := range ln.owners {
		if o.confirmed && o.seq != 0 && o.lastKind != kNone && !o.guarded() {
			os = append(os, o)
		}
	}
	if len(os) == 0 {
		return nil
	}
	o := pick(t, os)
	fs := o.sortedFiles()
	if kind == "false-retry" {
		// Reuse the last sequence ID for an operation of another type, or
		// for the same type with another state ID.
		if len(fs) == 0 {
			return nil
		}
		of := pick(t, fs)
		req := w.newRequest(ln, kClose)
		req.probe = kind
		ln.seqFor(req, o)
		return ln.closeWith(req, of)
	}
	if len(fs) > 0 && t.Bool(1, 2) {
		req := w.newRequest(ln, kClose)
		req.probe = kind
		ln.seqFor(req, o)
		return ln.closeWith(req, pick(t, fs))
	}
	req := w.newRequest(ln, kOpen)
	req.probe = kind
	seq := ln.seqFor(req, o)
	req.name = pick(t, w.names)
	req.access = 1
	req.seqOpIdx = 1
	req.desc = fmt.Sprintf("%s probe: OPEN owner=%s seq=%d (last accepted %d) name=%s", kind, o.key, seq, o.seq, req.name)
	return ln.finish(req, opPutRootFH(), &nfsv4.NfsArgop4_OP_OPEN{Opopen: nfsv4.Open4args{
		Seqid: seq, ShareAccess: 1, Owner: nfsv4.StateOwner4{Clientid: c.id, Owner: o.key},
		Openhow: &nfsv4.Openflag4_default{Opentype: nfsv4.OPEN4_NOCREATE}, Claim: &nfsv4.OpenClaim4_CLAIM_NULL{File: req.name},
	}}, opGetFH())
}

func (ln *lane) closeWith(req *request, of *openFile) *request {
	req.of, req.fh = of, of.fh
	req.seqOpIdx = 1
	req.sid = of.sid
	req.desc = fmt.Sprintf("%s probe: CLOSE owner=%s seq=%d (last accepted %d, last op %s) file#%d", req.probe, of.o.key, req.seq, of.o.seq, kindName[of.o.lastKind], of.leaf)
	return ln.finish(req, opPutFH(of.fh), &nfsv4.NfsArgop4_OP_CLOSE{Opclose: nfsv4.Close4args{Seqid: req.seq, OpenStateid: of.sid}})
}

#!/usr/bin/env python3
"""Mutation catalogue used for the sensitivity experiments of world w9 (C18/C19).

Usage: cp -a /repo /var/tmp/scr-w9-mut; python3 mutants.py <id>...; then
  VERIF_REPO=/var/tmp/scr-w9-mut VERIF_NPROC=4 VERIF_QUICK_S=20 /verif/check C18|C19 quick
Every invocation first restores the three NFS files of the scratch copy from /repo.
M* break C18, N* break C19 (run those with VERIF_W9_AVOID=dup41 while the in-flight
duplicate finding is unfixed; N7 without it), FIX repairs nfs41_program.go:723.
"""
import sys, shutil
D='/var/tmp/scr-w9-mut/pkg/filesystem/virtual/nfsv4/'
S='/repo/pkg/filesystem/virtual/nfsv4/'
for f in ['nfs40_program.go','nfs41_program.go','opened_files_pool.go']:
    shutil.copy(S+f, D+f)
M={
 # --- C18 ---
 'M1': ('nfs40_program.go', '''	delete(oofs.lockOwnerFiles, los)
	oofs.downgradeShareAccess(&lofs.shareAccess, 0, ll)
''', '''	delete(oofs.lockOwnerFiles, los)
'''),
 'M2': ('nfs41_program.go', '''	clonedShareAccess := oofs.shareCount.clone(shareAccess)
	return oofs.openedFile.GetLeaf(), func() {
		var ll leavesToClose
		cis.lock.Lock()''', '''	clonedShareAccess := shareAccess
	return oofs.openedFile.GetLeaf(), func() {
		var ll leavesToClose
		cis.lock.Lock()'''),
 'M3': ('nfs40_program.go', '''	if overlap := oofs.shareCount.upgrade(&oofs.shareAccess, shareAccess); overlap != 0 {
		// As there is overlap between the share access masks,
		// the file is opened redundantly. Close it.
		ll.leaves = append(ll.leaves, leafToClose{
			leaf:        leaf,
			shareAccess: overlap,
		})
	}
	oofs.stateID.seqID = nextSeqID(oofs.stateID.seqID)''', '''	oofs.shareCount.upgrade(&oofs.shareAccess, shareAccess)
	oofs.stateID.seqID = nextSeqID(oofs.stateID.seqID)'''),
 'M4': ('opened_files_pool.go', '''	if of.useCount.decrease() {
		delete(ofp.filesByHandle, string(of.handle))
	}''', '''	of.useCount.decrease()'''),
 'M6': ('nfs40_program.go', '''	if !bytes.Equal(s.currentFileHandle.handle, oofs.openedFile.GetHandle()) {
		return nil, nfsv4.NFS4ERR_BAD_STATEID
	}
	if !oofs.openOwner.confirmed && !allowUnconfirmed {''', '''	if !oofs.openOwner.confirmed && !allowUnconfirmed {'''),
 'M7': ('nfs41_program.go', '''		minimumLastSeen := p.now.Add(-p.enforcedLeaseTime)''', '''		minimumLastSeen := p.now.Add(-p.enforcedLeaseTime / 4)'''),
 'M8': ('nfs41_program.go', '''	oofs.downgradeShareAccess(&oofs.shareAccess, 0, ll)

	// We no longer need to guarantee that the filehandle remains''', '''	// We no longer need to guarantee that the filehandle remains'''),
 # --- C19 ---
 'N1': ('nfs40_program.go', '''	if lastResponse := oos.lastResponse; lastResponse != nil && seqID == oos.lastSeqID {
		// Replay of the last request, meaning we should return''', '''	if lastResponse := oos.lastResponse; false && lastResponse != nil && seqID == oos.lastSeqID {
		// Replay of the last request, meaning we should return'''),
 'N2': ('nfs40_program.go', '''		if seqID != nextSeqID(oos.lastSeqID) {
			return nil, nil, nfsv4.NFS4ERR_BAD_SEQID
		}
	} else {
		switch policy {''', '''		if seqID < oos.lastSeqID {
			return nil, nil, nfsv4.NFS4ERR_BAD_SEQID
		}
	} else {
		switch policy {'''),
 'N3': ('nfs41_program.go', '''			if opNum := res.GetResop(); opNum != argArray[i].GetArgop() && opNum != nfsv4.OP_ILLEGAL {
				return sequenceCompoundResultSeqFalseRetry
			}''', '''			_, _ = i, res'''),
 'N5': ('nfs41_program.go', '''	case cis.lastSequenceID:
		// Replay of the previous CREATE_SESSION request.
		return cis.lastCreateSessionResponse
	case cis.lastSequenceID + 1:''', '''	case cis.lastSequenceID, cis.lastSequenceID + 1:'''),
 'N6': ('nfs40_program.go', '''	oofs.removeStart(p, ll)
	oofs.stateID.seqID = nextSeqID(oofs.stateID.seqID)

	return &nfsv4.Close4res_NFS4_OK{
		OpenStateid: p.externalizeStateID(oofs.stateID),
	}, oofs''', '''	oofs.removeStart(p, ll)
	oofs.stateID.seqID = nextSeqID(oofs.stateID.seqID)
	res := &nfsv4.Close4res_NFS4_OK{
		OpenStateid: p.externalizeStateID(oofs.stateID),
	}
	oofs.removeFinalize(p)
	return res, nil'''),
 'N7': ('nfs41_program.go', '''		if slot.currentSequenceWaiters != nil {
			ch := make(chan compoundResult, 1)
			slot.currentSequenceWaiters = append(slot.currentSequenceWaiters)
			p.leave()
			return <-ch
		}
''', ''''''),
}
FIX=[('nfs41_program.go','slot.currentSequenceWaiters = append(slot.currentSequenceWaiters)','slot.currentSequenceWaiters = append(slot.currentSequenceWaiters, ch)')]
def sub(f,old,new):
    s=open(D+f).read()
    assert s.count(old)==1, (f, old[:40], s.count(old))
    open(D+f,'w').write(s.replace(old,new))
for m in sys.argv[1:]:
    if m=='FIX':
        for f,old,new in FIX: sub(f,old,new)
    else:
        f,old,new=M[m]; sub(f,old,new)
    print('applied',m)

package w9

import (
	"bytes"
	"encoding/binary"
	"fmt"
	"sort"
	"time"

	nfs "github.com/buildbarn/bb-remote-execution/pkg/filesystem/virtual/nfsv4"
	"github.com/buildbarn/bb-remote-execution/pkg/verifsim/simsync"
	"github.com/buildbarn/go-xdr/pkg/protocols/nfsv4"
)

// ---------------------------------------------------------------------------
// Client-side records. The model is omniscient: it is updated from the first
// completed reply to every request (the "canonical" reply), whether or not
// the transport delivered that reply to the client.
// ---------------------------------------------------------------------------

type client struct {
	// uncertain: see invalidateUnanswered.
	uncertain bool
	w         *world
	idx       int
	name      string
	minor     uint32

	longID []byte
	boot   uint32 // boot counter used for the client verifier

	registered bool   // the server has a confirmed record for this client (per model)
	id         uint64 // client ID of that record
	regBoot    uint32

	// Unconfirmed record (SETCLIENTID / EXCHANGE_ID done, not confirmed yet).
	hasPend     bool
	pendID      uint64
	pendVerf    nfsv4.Verifier4
	pendBoot    uint32
	csSeq       uint32 // NFSv4.1: sequence ID of the next CREATE_SESSION of the confirmed record
	pendCsSeq   uint32 // ... of the unconfirmed record
	oldSessions []*session
	delayedCS   *request // CREATE_SESSION that was answered NFS4ERR_DELAY: to be sent again as is

	sess     *session // NFSv4.1: current session
	csLatest int

	lanes    []*lane
	dupQueue []*request

	lastRenewStart time.Time
	clientInflight int // deliveries of client-level requests in flight
	inflightAll    int
	lastEnd        time.Time // when the last delivery that may have renewed this client's lease returned
	silentAfter    int       // the client stops sending after so many requests per lane (0: never)
	sessionsMade   int       // NFSv4.1: sessions created minus sessions destroyed (upper bound of what the server holds)
	hwmOther       uint64    // NFSv4.1: highest state ID counter value seen in a reply (state IDs are allocated in sequence per client record)
	epoch          int       // bumped whenever the client's record is replaced or dropped
	// deadIDs: client IDs whose confirmed record the server has removed
	// (replaced by a newer confirmation, or found expired). IDs are random
	// and never handed out again.
	deadIDs map[uint64]bool
}

type session struct {
	id         nfsv4.Sessionid4
	alive      bool
	slotSeq    [slotsPerSess]uint32
	slotLatest [slotsPerSess]int
	slotLast   [slotsPerSess]*request // last request executed on the slot
}

type lane struct {
	w     *world
	cl    *client
	idx   int
	name  string
	actor *simsync.Actor

	owners     []*owner
	lockOwners []*lockOwner
	issued     int
	maxOps     int
	retx       bool      // about to retransmit after a lost reply
	cur        *request  // request being sent (until its reply was accepted)
	quiet      int       // quiet-but-renewing period: remaining rounds
	quietOf    *openFile // file that stays open during the quiet period
	quietWait  bool      // waiting for the clock to advance
	gidx       int       // global lane index (byte ranges of locks are disjoint per lane)
}

type owner struct {
	cl  *client
	ln  *lane
	key []byte

	seq       uint32 // NFSv4.0: last sequence ID the server accepted
	confirmed bool
	files     map[string]*openFile // by file handle

	inflight     int
	chainLatest  int
	lastUseStart time.Time
	lastKind     opKind   // kind of the last request whose sequence ID the server accepted
	guard        *request // NFSv4.0: last OPEN sent on behalf of the open-owner
	// recreated: the server may have collected the idle open-owner and
	// created it afresh (unconfirmed) for an OPEN that failed, so that the
	// reply did not say whether confirmation is needed.
	recreated bool
}

// outstanding counts copies of the request that are queued or in flight.
func (req *request) outstanding() int {
	return req.inflight + req.queued
}

// guarded: with duplicates around, nothing else may be sent on behalf of an
// open-owner while copies of an OPEN sent for it are still under way (it may be
// unconfirmed at the server, known to the client or not, e.g. collected while
// idle): the server treats any OPEN for an unconfirmed
// open-owner as a new request (RFC 7530 section 16.18.5), so a late copy would
// silently replace the state created meanwhile.
func (o *owner) guarded() bool {
	return o.cl.w.dupOn && o.cl.minor == 0 && o.guard != nil && o.guard.outstanding() > 0
}

type openFile struct {
	o      *owner
	fh     []byte
	leaf   int
	sid    nfsv4.Stateid4
	access uint32 // bit 0 read, bit 1 write
	locks  []*lockFile
}

type lockOwner struct {
	cl  *client
	ln  *lane
	key []byte

	seq         uint32
	nfiles      int
	inflight    int
	chainLatest int
	nextRange   uint64
}

type lockFile struct {
	lo     *lockOwner
	of     *openFile
	sid    nfsv4.Stateid4
	access uint32
	ranges []uint64 // offsets (length 10 each) this lock file believes to hold
}

func (o *owner) sortedFiles() []*openFile {
	keys := make([]string, 0, len(o.files))
	for k := range o.files {
		keys = append(keys, k)
	}
	sort.Strings(keys)
	out := make([]*openFile, 0, len(keys))
	for _, k := range keys {
		out = append(out, o.files[k])
	}
	return out
}

func (of *openFile) removeLock(lf *lockFile) {
	for i, x := range of.locks {
		if x == lf {
			of.locks = append(of.locks[:i:i], of.locks[i+1:]...)
			lf.lo.nfiles--
			return
		}
	}
}

// dropFile removes an open file and its lock files from the model.
func (o *owner) dropFile(of *openFile) {
	for _, lf := range of.locks {
		lf.lo.nfiles--
	}
	of.locks = nil
	delete(o.files, string(of.fh))
}

func (o *owner) dropAll() {
	for _, of := range o.sortedFiles() {
		o.dropFile(of)
	}
}

// dropState forgets everything the server held for this client.
func (c *client) dropState() {
	for _, ln := range c.lanes {
		for _, o := range ln.owners {
			o.dropAll()
			o.confirmed = false
		}
		for _, lo := range ln.lockOwners {
			lo.nfiles = 0
		}
	}
	c.epoch++
	c.hwmOther = 0
	// A new record starts from a clean slate (see invalidateUnanswered).
	c.uncertain = false
}

func (c *client) markDead(id uint64) {
	if c.deadIDs == nil {
		c.deadIDs = map[uint64]bool{}
	}
	c.deadIDs[id] = true
}

// silent: every lane of the client has stopped sending.
func (c *client) silent() bool {
	for _, ln := range c.lanes {
		if !ln.actor.Done() {
			return false
		}
	}
	return true
}

func (c *client) allOwners() []*owner {
	var out []*owner
	for _, ln := range c.lanes {
		out = append(out, ln.owners...)
	}
	return out
}

// ---------------------------------------------------------------------------
// Lease model.
// ---------------------------------------------------------------------------

// leaseCertain reports whether the server cannot have expired the client's
// record yet: the last request that renewed the lease was *sent* no longer
// than the enforced lease time ago (the server notes the time when it
// finishes processing, which is not earlier).
func (w *world) leaseCertain(c *client) bool {
	return c.registered && w.now().Sub(c.lastRenewStart) <= enforcedLease
}

// renew credits a lease renewal to the client. The reply in hand may be a
// replay of a cached reply, which renews nothing; the copy that was evaluated
// was sent no earlier than the first copy of the request.
func (w *world) renew(c *client, d *delivery) {
	t := d.start
	if first := d.req.deliveries[0].start; first.Before(t) {
		t = first
	}
	if t.After(c.lastRenewStart) {
		c.lastRenewStart = t
	}
}

// ownerMaybeGone: NFSv4.0 garbage collects open-owners that are unconfirmed
// (or have no open files) and have not been used for the lease time.
func (w *world) ownerMaybeGone(o *owner) bool {
	return o.cl.minor == 0 && (o.recreated || ((!o.confirmed || len(o.files) == 0) && w.now().Sub(o.lastUseStart) > enforcedLease))
}

// ---------------------------------------------------------------------------
// Requests.
// ---------------------------------------------------------------------------

type opKind int

const (
	kNone opKind = iota
	kSetClientID
	kSetClientIDConfirm
	kExchangeID
	kCreateSession
	kDestroySession
	kDestroyClientID
	kOpen
	kOpenConfirm
	kOpenDowngrade
	kClose
	kLockNew
	kLockExist
	kLockU
	kLockT
	kReleaseLockOwner
	kFreeStateID
	kIO
	kRenew
	kRemove
	kProbeFH
	kTooManyOps
	kBlobCheck
	kCurSid
)

var kindName = map[opKind]string{
	kSetClientID: "SETCLIENTID", kSetClientIDConfirm: "SETCLIENTID_CONFIRM", kExchangeID: "EXCHANGE_ID", kCreateSession: "CREATE_SESSION",
	kDestroySession: "DESTROY_SESSION", kDestroyClientID: "DESTROY_CLIENTID", kOpen: "OPEN", kOpenConfirm: "OPEN_CONFIRM",
	kOpenDowngrade: "OPEN_DOWNGRADE", kClose: "CLOSE", kLockNew: "LOCK(new)", kLockExist: "LOCK", kLockU: "LOCKU", kLockT: "LOCKT",
	kReleaseLockOwner: "RELEASE_LOCKOWNER", kFreeStateID: "FREE_STATEID", kIO: "IO", kRenew: "RENEW", kRemove: "REMOVE", kProbeFH: "PUTFH", kTooManyOps: "(too many operations)", kBlobCheck: "LOOKUP/PUTFH+READ", kCurSid: "OPEN+(current stateid)",
}

type request struct {
	id   int
	cl   *client
	ln   *lane
	kind opKind
	desc string
	args *nfsv4.Compound4args
	base int // index of the first operation after SEQUENCE (NFSv4.1) or 0

	// Targets.
	o    *owner
	lo   *lockOwner
	of   *openFile
	lf   *lockFile
	name string
	fh   []byte

	access  uint32
	seq     uint32 // NFSv4.0 open-owner sequence ID used, 0 if none
	lseq    uint32 // NFSv4.0 lock-owner sequence ID used, 0 if none
	clID    uint64
	boot    uint32
	sess    *session
	destroy *session
	slot    uint32
	slotSeq uint32
	cache   bool
	csSeq   uint32
	offset  uint64 // lock range

	sid    nfsv4.Stateid4 // state ID presented by I/O
	ioNeed uint32
	ioOp   string

	curOp      string // kCurSid: operation that uses the current stateid ("READ", "CLOSE")
	curVariant int    // kCurSid: what happens between OPEN and that operation (see reqCurSid)
	blob       *countingLeaf

	probe       string // "", "misordered", "false-retry": requests that must be rejected
	valid       bool   // built from current state: must not be refused for state reasons
	clientLevel bool   // replaces or destroys client records
	replay      bool   // retransmissions must be answered from the reply cache
	seqOpIdx    int    // NFSv4.0: index of the operation carrying the sequence ID
	noChain     bool   // does not advance a sequence chain

	clEpoch int
	built   time.Time

	deliveries       []*delivery
	queued           int         // copies handed to the duplicate actors, not yet delivered
	early            []*delivery // replays that returned before the evaluated copy
	canonical        *delivery
	inflight         int
	epochAtCanonical int
}

func (w *world) newRequest(ln *lane, kind opKind) *request {
	req := &request{id: len(w.reqs) + 1, cl: ln.cl, ln: ln, kind: kind, seqOpIdx: -1, clEpoch: ln.cl.epoch, built: w.now(), clID: ln.cl.id, boot: ln.cl.boot}
	w.reqs = append(w.reqs, req)
	return req
}

// statusAt returns the status of the i-th result of a reply, and whether
// that operation was evaluated at all.
func statusAt(res *nfsv4.Compound4res, i int) (nfsv4.Nfsstat4, bool) {
	if i < 0 || i >= len(res.Resarray) {
		return 0, false
	}
	var buf bytes.Buffer
	if _, err := res.Resarray[i].WriteTo(&buf); err != nil {
		harness("cannot marshal result: %v", err)
	}
	b := buf.Bytes()
	if len(b) < 8 {
		harness("short result")
	}
	return nfsv4.Nfsstat4(int32(uint32(b[4])<<24 | uint32(b[5])<<16 | uint32(b[6])<<8 | uint32(b[7]))), true
}

// prefixBytes returns the XDR of the first n results of a reply.
func prefixBytes(res *nfsv4.Compound4res, n int) []byte {
	var buf bytes.Buffer
	for i := 0; i < n && i < len(res.Resarray); i++ {
		res.Resarray[i].WriteTo(&buf)
	}
	return buf.Bytes()
}

func statName(st nfsv4.Nfsstat4) string {
	switch st {
	case nfsv4.NFS4_OK:
		return "OK"
	case nfsv4.NFS4ERR_BAD_SEQID:
		return "BAD_SEQID"
	case nfsv4.NFS4ERR_BAD_STATEID:
		return "BAD_STATEID"
	case nfsv4.NFS4ERR_OLD_STATEID:
		return "OLD_STATEID"
	case nfsv4.NFS4ERR_STALE_CLIENTID:
		return "STALE_CLIENTID"
	case nfsv4.NFS4ERR_STALE_STATEID:
		return "STALE_STATEID"
	case nfsv4.NFS4ERR_STALE:
		return "STALE"
	case nfsv4.NFS4ERR_EXPIRED:
		return "EXPIRED"
	case nfsv4.NFS4ERR_NOENT:
		return "NOENT"
	case nfsv4.NFS4ERR_EXIST:
		return "EXIST"
	case nfsv4.NFS4ERR_DENIED:
		return "DENIED"
	case nfsv4.NFS4ERR_DELAY:
		return "DELAY"
	case nfsv4.NFS4ERR_OPENMODE:
		return "OPENMODE"
	case nfsv4.NFS4ERR_LOCKS_HELD:
		return "LOCKS_HELD"
	case nfsv4.NFS4ERR_BADSESSION:
		return "BADSESSION"
	case nfsv4.NFS4ERR_SEQ_MISORDERED:
		return "SEQ_MISORDERED"
	case nfsv4.NFS4ERR_SEQ_FALSE_RETRY:
		return "SEQ_FALSE_RETRY"
	case nfsv4.NFS4ERR_RETRY_UNCACHED_REP:
		return "RETRY_UNCACHED_REP"
	case nfsv4.NFS4ERR_CLIENTID_BUSY:
		return "CLIENTID_BUSY"
	case nfsv4.NFS4ERR_RECLAIM_BAD:
		return "RECLAIM_BAD"
	case nfsv4.NFS4ERR_INVAL:
		return "INVAL"
	}
	return fmt.Sprintf("status(%d)", int32(st))
}

// describeReply renders a reply as the list of operation statuses.
func describeReply(res *nfsv4.Compound4res) string {
	s := "["
	for i := range res.Resarray {
		st, _ := statusAt(res, i)
		if i > 0 {
			s += " "
		}
		s += fmt.Sprintf("op%d:%s", int(res.Resarray[i].GetResop()), statName(st))
	}
	return s + "]"
}

// transactionCompletes mirrors RFC 7530 section 9.1.7: for these errors the
// owner's sequence ID is not advanced and nothing is cached.
func transactionCompletes(st nfsv4.Nfsstat4) bool {
	switch st {
	case nfsv4.NFS4ERR_STALE_CLIENTID, nfsv4.NFS4ERR_STALE_STATEID, nfsv4.NFS4ERR_BAD_STATEID, nfsv4.NFS4ERR_BAD_SEQID,
		nfsv4.NFS4ERR_BADXDR, nfsv4.NFS4ERR_RESOURCE, nfsv4.NFS4ERR_NOFILEHANDLE, nfsv4.NFS4ERR_MOVED:
		return false
	}
	return true
}

// stateRefusal: statuses that say "I do not know / no longer honour this
// state", which a request built from valid, current state must never get.
func stateRefusal(st nfsv4.Nfsstat4) bool {
	switch st {
	case nfsv4.NFS4ERR_BAD_SEQID, nfsv4.NFS4ERR_BAD_STATEID, nfsv4.NFS4ERR_OLD_STATEID, nfsv4.NFS4ERR_STALE_CLIENTID,
		nfsv4.NFS4ERR_STALE_STATEID, nfsv4.NFS4ERR_EXPIRED, nfsv4.NFS4ERR_STALE, nfsv4.NFS4ERR_BADSESSION,
		nfsv4.NFS4ERR_SEQ_MISORDERED, nfsv4.NFS4ERR_SEQ_FALSE_RETRY, nfsv4.NFS4ERR_ADMIN_REVOKED, nfsv4.NFS4ERR_BADSLOT,
		nfsv4.NFS4ERR_RECLAIM_BAD, nfsv4.NFS4ERR_NOFILEHANDLE, nfsv4.NFS4ERR_BADHANDLE, nfsv4.NFS4ERR_OPENMODE:
		return true
	}
	return false
}

// ---------------------------------------------------------------------------
// Delivery bookkeeping.
// ---------------------------------------------------------------------------

func (w *world) onStart(d *delivery) {
	req := d.req
	c := req.cl
	d.n = len(req.deliveries)
	if req.inflight > 0 {
		d.overlap = true
		for _, o := range req.deliveries {
			if !o.done {
				o.overlap = true
			}
		}
		w.k.Probe("duplicate-while-original-in-flight")
		w.overlaps++
	} else if w.inflight > 0 {
		w.overlaps++
	}
	if d.n > 0 {
		if req.canonical != nil {
			w.k.Probe("duplicate-after-completion")
		}
		w.k.FaultsFired["retransmission-delivered"]++
	}
	req.deliveries = append(req.deliveries, d)
	req.inflight++
	w.inflight++
	c.inflightAll++
	d.clEpoch = c.epoch
	d.clBusy = c.clientInflight > 0
	if req.clientLevel {
		c.clientInflight++
	}
	if req.o != nil {
		req.o.inflight++
	}
	if req.lo != nil {
		req.lo.inflight++
	}
	if !req.noChain {
		if req.o != nil && req.seq != 0 && req.o.chainLatest < req.id {
			req.o.chainLatest = req.id
		}
		if req.lo != nil && (req.lseq != 0 || req.kind == kReleaseLockOwner) && req.lo.chainLatest < req.id {
			req.lo.chainLatest = req.id
		}
		if req.sess != nil && req.kind != kCreateSession && req.sess.slotLatest[req.slot] < req.id {
			req.sess.slotLatest[req.slot] = req.id
		}
		if req.kind == kCreateSession && c.csLatest < req.id {
			c.csLatest = req.id
		}
	}
	if req.kind == kIO {
		d.ioStart = w.ioExpectation(req, 1) // this delivery is counted as in flight already
	}
	if req.kind == kProbeFH {
		if leaf, ok := w.leafOfFH(req.fh); ok {
			d.holderStart = w.definiteStableHolder(leaf)
		}
	}
	w.k.Annotate("t=%v %s -> %s#%d.%d %s", w.now().Sub(startTime), d.actor, c.name, req.id, d.n, req.desc)
}

func (req *request) chainMoved() bool {
	if req.o != nil && req.seq != 0 && req.o.chainLatest > req.id {
		return true
	}
	if (req.kind == kLockExist || req.kind == kLockU) && req.of != nil && req.of.o.chainLatest > req.id {
		// The open-owner moved on: it may have closed the file, which
		// removes the lock state this request refers to.
		return true
	}
	if req.lo != nil && req.lseq != 0 && req.lo.chainLatest > req.id {
		return true
	}
	if req.sess != nil && req.kind != kCreateSession && req.sess.slotLatest[req.slot] > req.id {
		return true
	}
	if req.kind == kCreateSession && req.cl.csLatest > req.id {
		return true
	}
	return false
}

func (w *world) onEnd(d *delivery) {
	req := d.req
	c := req.cl
	d.done = true
	req.inflight--
	w.inflight--
	c.inflightAll--
	if req.clientLevel {
		c.clientInflight--
	}
	if req.o != nil {
		req.o.inflight--
	}
	if req.lo != nil {
		req.lo.inflight--
	}
	d.stale = req.chainMoved()
	w.k.Annotate("t=%v %s <- %s#%d.%d %s", w.now().Sub(startTime), d.actor, c.name, req.id, d.n, describeReply(d.res))
	c.lastEnd = w.now()
	if c.minor == 0 && req.kind == kIO && !isSpecialStateID(req.sid) {
		// NFSv4.0 I/O with a regular state ID renews the lease of whichever
		// client owns the state.
		for _, x := range w.clients {
			if x.minor == 0 {
				x.lastEnd = w.now()
			}
		}
	}
	defer w.expireCertainly(d)
	if req.canonical == nil && w.replayedOpenArtifact(req, d) {
		// The copy that is being evaluated has not returned yet; this one
		// was answered from the reply cache and does not tell which file
		// was opened. Wait for the other one.
		w.k.Probe("replay-returned-before-the-evaluated-copy")
		req.early = append(req.early, d)
		return
	}
	if req.canonical == nil || !req.replay {
		// Requests without replay semantics are evaluated afresh every
		// time a copy arrives; every reply is a first-hand account.
		defer func() {
			early := req.early
			req.early = nil
			for _, e := range early {
				if !w.k.Failed() {
					w.compareDup(req, e)
				}
			}
		}()
		req.canonical = d
		w.r.Logf("%s#%d %s -> %s", c.name, req.id, req.desc, describeReply(d.res))
		w.apply(req, d)
		req.epochAtCanonical = c.epoch
	} else {
		w.compareDup(req, d)
	}
}

// replayedOpenArtifact: NFSv4.0 OPEN by name, answered OK from the reply
// cache: the GETFH that follows reports the directory, not the file.
func (w *world) replayedOpenArtifact(req *request, d *delivery) bool {
	if req.cl.minor != 0 || req.kind != kOpen || req.of != nil || req.inflight == 0 {
		return false
	}
	if st, ev := statusAt(d.res, 1); !ev || st != nfsv4.NFS4_OK {
		return false
	}
	if st, ev := statusAt(d.res, 2); !ev || st != nfsv4.NFS4_OK {
		return false
	}
	fh := d.res.Resarray[2].(*nfsv4.NfsResop4_OP_GETFH).Opgetfh.(*nfsv4.Getfh4res_NFS4_OK).Resok4.Object
	_, isLeaf := w.leafOfFH(fh)
	return !isLeaf
}

// entersProgram: the request makes the server program look at its list of
// idle clients (and reclaim those whose lease expired) whatever else it does.
func (req *request) entersProgram() bool {
	if req.cl.minor == 1 {
		return true
	}
	switch req.kind {
	case kRenew, kSetClientID, kSetClientIDConfirm, kReleaseLockOwner:
		return true
	}
	return false
}

// expireCertainly: delivery d was sent, to the same server program, later than
// one lease time after the last moment at which client x can have renewed its
// lease, and x has been silent since. The server reclaims expired clients
// whenever a request enters the program, so x's record, sessions, opens and
// locks are gone now: the model drops them, and the accounting (files still
// open, sessions retained) holds the server to that from here on.
func (w *world) expireCertainly(d *delivery) {
	if !d.req.entersProgram() {
		return
	}
	if d.req.cl.minor == 0 {
		// NFSv4.0 I/O with a regular state ID keeps the owning client (any
		// client) out of the idle list while it is under way.
		for _, r := range w.reqs {
			if r.inflight > 0 && r.kind == kIO && r.cl.minor == 0 && !isSpecialStateID(r.sid) {
				return
			}
		}
	}
	for _, x := range w.clients {
		if x == d.req.cl || x.minor != d.req.cl.minor || x.inflightAll > 0 || (!x.registered && !x.hasPend && x.sessionsMade == 0) {
			continue
		}
		if x.lastEnd.IsZero() || !d.start.After(x.lastEnd.Add(enforcedLease)) {
			continue
		}
		w.k.Probe("lease-certainly-expired-mid-run")
		if w.clientHoldsOpens(x) {
			w.k.Probe("lease-certainly-expired-mid-run-with-open-files")
		}
		w.expiredNotes = append(w.expiredNotes, fmt.Sprintf("%s silent since t=%v, reclaimable from t=%v, %s request#%d entered the program at t=%v or later", x.name, x.lastEnd.Sub(startTime), x.lastEnd.Add(enforcedLease).Sub(startTime), d.req.cl.name, d.req.id, d.start.Sub(startTime)))
		if x.registered {
			x.markDead(x.id)
		}
		x.dropState()
		x.registered, x.hasPend, x.sess, x.oldSessions, x.sessionsMade = false, false, nil, nil, 0
	}
}

// cmpBytes returns the part of a reply that the replay cache must reproduce.
func (req *request) cmpBytes(d *delivery) []byte {
	if req.cl.minor == 0 && req.seqOpIdx >= 0 {
		return prefixBytes(d.res, req.seqOpIdx+1)
	}
	return d.bytes
}

// invalidateUnanswered: the model of client c has just changed through a
// reply that arrived late (an evaluated copy overtaken by a copy that was
// refused). Requests that were built before, on the older belief, and have not
// been answered yet must not be held against the server.
func (w *world) invalidateUnanswered(c *client) {
	// The late reply may also have removed state that requests built from now
	// on still refer to through objects created earlier (lock state of a file
	// whose CLOSE was applied late): from here on refusals of this client's
	// requests are no longer held against the server. Rare (see the probe
	// evaluated-copy-returned-after-session-was-destroyed).
	c.uncertain = true
	for _, r := range w.reqs {
		if r.cl == c && r.canonical == nil {
			r.valid = false
		}
	}
}

// compareDup checks the reply to a retransmission against the canonical one.
func (w *world) compareDup(req *request, d *delivery) {
	if !req.replay {
		return
	}
	can := req.canonical
	c := req.cl
	w.dupsCompared++
	if bytes.Equal(req.cmpBytes(can), req.cmpBytes(d)) {
		w.k.Probe("retransmission-same-reply")
		if st, ev := statusAt(can.res, req.base+1); ev && st == nfsv4.NFS4ERR_DENIED {
			switch req.kind {
			case kLockExist:
				w.k.Probe("denied-lock-of-existing-lock-owner-retransmitted-same-reply")
			case kLockNew:
				w.k.Probe("denied-first-lock-retransmitted-same-reply")
			}
		}
		if d.overlap {
			w.k.Probe("inflight-duplicate-got-original-result")
		}
		if c.minor == 0 && !bytes.Equal(can.bytes, d.bytes) {
			// Informational: operations after the replayed one were
			// evaluated again (e.g. GETFH after a replayed OPEN).
			w.k.Probe("info-ops-after-replayed-op-differ")
		}
		return
	}
	// The replies differ. Which differences does the protocol allow?
	last := len(d.res.Resarray) - 1
	lastSt, _ := statusAt(d.res, last)
	canLast, _ := statusAt(can.res, len(can.res.Resarray)-1)
	canSeq, _ := statusAt(can.res, 0)
	dSeq, _ := statusAt(d.res, 0)
	switch {
	case c.minor == 1 && req.sess != nil && !req.sess.alive && canSeq == nfsv4.NFS4ERR_BADSESSION && dSeq == nfsv4.NFS4_OK:
		// The copy that returned first found the session destroyed; this
		// one had entered the session before that and was evaluated.
		w.k.Probe("evaluated-copy-returned-after-session-was-destroyed")
		req.canonical = d
		w.apply(req, d)
		req.epochAtCanonical = c.epoch
		w.invalidateUnanswered(c)
		return
	case req.kind == kCreateSession && can.res.Status != nfsv4.NFS4_OK && !d.stale:
		// CREATE_SESSION only caches successful replies (e.g. after
		// NFS4ERR_DELAY the same request is simply evaluated again).
		w.k.Probe("create-session-retried-after-failure")
		req.canonical = d
		w.apply(req, d)
		req.epochAtCanonical = c.epoch
		return
	case d.stale && d.res.Status != nfsv4.NFS4_OK && w.isStaleRejection(req, d, lastSt):
		w.k.Probe("stale-duplicate-rejected")
		return
	case c.epoch != req.epochAtCanonical || c.epoch != req.clEpoch || c.clientInflight > 0 || d.clBusy || !w.leaseCertain(c) || w.now().Sub(can.start) > enforcedLease:
		// The client's record was replaced, dropped or may have expired
		// (or its unused open-owner may have been collected) since the
		// original was answered: the server may legitimately treat the
		// copy as a new request.
		w.k.Probe("retransmission-after-state-was-dropped")
		if d.res.Status == nfsv4.NFS4_OK && c.epoch == req.epochAtCanonical && c.epoch == req.clEpoch && c.clientInflight == 0 && !d.clBusy {
			req.valid = false
			req.canonical = d
			w.apply(req, d)
			req.epochAtCanonical = c.epoch
		}
		return
	case c.minor == 1 && req.sess != nil && (!req.sess.alive || c.sess != req.sess) && d.res.Status == nfsv4.NFS4ERR_BADSESSION:
		w.k.Probe("retransmission-on-destroyed-session")
		return
	case c.minor == 1 && !req.cache && req.kind != kCreateSession && isUncachedReplay(can, d):
		w.k.Probe("uncached-replay-answered-RETRY_UNCACHED_REP")
		return
	case c.minor == 0 && (len(can.res.Resarray)-1 < req.seqOpIdx || !transactionCompletes(canLast)) && d.res.Status != nfsv4.NFS4_OK:
		// (the first copy failed before or without the server caching anything)
		w.k.Probe("retransmission-of-uncached-failure")
		return
	}
	w.violate("reply-mismatch", fmt.Sprintf("%s request#%d [%s] was retransmitted (delivery %d by %s, stale=%v, overlapped=%v); the first reply was %s but this copy was answered %s", c.name, req.id, req.desc, d.n, d.actor, d.stale, d.overlap, describeReply(can.res), describeReply(d.res)))
}

func (w *world) isStaleRejection(req *request, d *delivery, lastSt nfsv4.Nfsstat4) bool {
	if req.cl.minor == 1 {
		st, _ := statusAt(d.res, 0)
		if req.kind == kCreateSession {
			return st == nfsv4.NFS4ERR_SEQ_MISORDERED || st == nfsv4.NFS4ERR_STALE_CLIENTID
		}
		return st == nfsv4.NFS4ERR_SEQ_MISORDERED || st == nfsv4.NFS4ERR_BADSESSION
	}
	switch lastSt {
	case nfsv4.NFS4ERR_BAD_SEQID, nfsv4.NFS4ERR_BAD_STATEID, nfsv4.NFS4ERR_OLD_STATEID, nfsv4.NFS4ERR_STALE_CLIENTID:
		return len(d.res.Resarray)-1 <= req.seqOpIdx
	case nfsv4.NFS4ERR_STALE:
		// PUTFH: the file was closed (and unlinked) meanwhile.
		return len(d.res.Resarray)-1 < req.seqOpIdx
	}
	return false
}

// isUncachedReplay: the server did not cache the reply because the client
// did not ask for it; the documented answer is the SEQUENCE result followed
// by NFS4ERR_RETRY_UNCACHED_REP for the second operation.
func isUncachedReplay(can, d *delivery) bool {
	if len(d.res.Resarray) != 2 || len(can.res.Resarray) < 2 {
		return false
	}
	if !bytes.Equal(prefixBytes(can.res, 1), prefixBytes(d.res, 1)) {
		return false
	}
	st, _ := statusAt(d.res, 1)
	return st == nfsv4.NFS4ERR_RETRY_UNCACHED_REP && d.res.Resarray[1].GetResop() == can.res.Resarray[1].GetResop()
}

// validContext reports whether a request that was built from current, valid
// state can be held to that: nothing replaced the client's record meanwhile
// and the lease cannot have expired.
func (w *world) validContext(req *request, d *delivery) bool {
	c := req.cl
	if !req.valid || req.clEpoch != c.epoch || d.clEpoch != c.epoch || d.clBusy || c.clientInflight > 0 || c.uncertain {
		return false
	}
	if !w.leaseCertain(c) {
		return false
	}
	// A copy of an earlier request of this client is still being evaluated
	// by the server although the copy that was answered first was refused at
	// the session level (e.g. its session had just been destroyed): its
	// effects are not in the client's model, so refusals prove nothing.
	for _, r := range w.reqs {
		if r.cl == c && r != req && r.inflight > 0 && r.canonical != nil {
			if st, _ := statusAt(r.canonical.res, 0); st != nfsv4.NFS4_OK {
				w.k.Probe("refusal-while-refused-request-still-in-flight")
				return false
			}
		}
	}
	if req.o != nil && w.ownerMaybeGone(req.o) {
		return false
	}
	return true
}

func (w *world) checkNotRefused(req *request, d *delivery, st nfsv4.Nfsstat4, what string) {
	if stateRefusal(st) && w.validContext(req, d) {
		w.violate("valid-state-refused", fmt.Sprintf("%s request#%d [%s]: %s was refused with %s although it used the current state the server issued, in sequence, and the client's lease was renewed %v ago (lease %v); reply %s", req.cl.name, req.id, req.desc, what, statName(st), w.now().Sub(req.cl.lastRenewStart), enforcedLease, describeReply(d.res)))
	}
}

// ---------------------------------------------------------------------------
// Leaves: open/close accounting.
// ---------------------------------------------------------------------------

type holder struct {
	desc string
}

func (w *world) checkLeaves(final bool) {
	snap := w.alloc.snapshot()
	n := len(snap)
	for i, l := range snap {
		for b := 0; b < 2; b++ {
			if l.closes[b] > l.opens[b] {
				w.violate("closed-more-than-opened", fmt.Sprintf("file#%d (handle %x) was closed for %s %d times but opened only %d times", i, w.fhOfLeaf(i), bitName[b], l.closes[b], l.opens[b]))
				return
			}
		}
	}
	lo := make([][2]int, n)
	hi := make([][2]int, n)
	need := make([][2]string, n)
	var holders []string
	for _, c := range w.clients {
		certain := w.leaseCertain(c)
		for _, o := range c.allOwners() {
			for _, of := range o.sortedFiles() {
				if of.leaf >= n {
					harness("model refers to file#%d which was never created", of.leaf)
				}
				definite := certain && !w.ownerMaybeGone(o)
				oStable := o.inflight == 0 && c.clientInflight == 0
				held := of.access
				req := uint32(0)
				if oStable {
					req = of.access
				}
				for _, lf := range of.locks {
					held |= lf.access
					if oStable && lf.lo.inflight == 0 {
						req |= lf.access
					}
				}
				for b := 0; b < 2; b++ {
					if held&(1<<b) == 0 {
						continue
					}
					hi[of.leaf][b]++
					if definite {
						lo[of.leaf][b]++
						if req&(1<<b) != 0 && need[of.leaf][b] == "" {
							need[of.leaf][b] = fmt.Sprintf("%s owner %s state %x.%d", c.name, o.key, of.sid.Other, of.sid.Seqid)
						}
					}
				}
				if final {
					holders = append(holders, fmt.Sprintf("%s/%s:file#%d:access=%d+locks=%d definite=%v", c.name, o.key, of.leaf, of.access, len(of.locks), definite))
				}
			}
		}
	}
	for i, l := range snap {
		for b := 0; b < 2; b++ {
			cnt := l.opens[b] - l.closes[b]
			if need[i][b] != "" && cnt < 1 {
				w.violate("closed-while-entitled", fmt.Sprintf("file#%d (handle %x) is fully closed for %s (opened %d, closed %d) although %s still entitles its client to that access and the client's lease cannot have expired", i, w.fhOfLeaf(i), bitName[b], l.opens[b], l.closes[b], need[i][b]))
				return
			}
		}
	}
	if len(w.prevCnt) < n {
		w.prevCnt = append(w.prevCnt, make([][2]int, n-len(w.prevCnt))...)
	}
	for i, l := range snap {
		for b := 0; b < 2; b++ {
			cnt := l.opens[b] - l.closes[b]
			if w.prevCnt[i][b] > 0 && cnt == 0 {
				w.fullCloses++
			}
			w.prevCnt[i][b] = cnt
		}
	}
	if w.inflight != 0 {
		return
	}
	// Nothing is being processed: the number of times every file is open
	// must be exactly what the clients' state amounts to.
	w.quiescentExact++
	for i, l := range snap {
		for b := 0; b < 2; b++ {
			cnt := l.opens[b] - l.closes[b]
			if cnt < lo[i][b] || cnt > hi[i][b] {
				short := "open-count-mismatch"
				if w.prop == "C19" {
					short = "effect-not-once"
				}
				if cnt > hi[i][b] && len(w.expiredNotes) > 0 {
					w.violate("not-closed-after-expiry", fmt.Sprintf("no request is in flight; file#%d (handle %x) is open for %s %d times (opened %d, closed %d) although the state of clients whose lease cannot have expired amounts to at most %d opens; leases that certainly expired and had to be reclaimed: %v; holders: %v", i, w.fhOfLeaf(i), bitName[b], cnt, l.opens[b], l.closes[b], hi[i][b], w.expiredNotes, w.describeHolders()))
					return
				}
				w.violate(short, fmt.Sprintf("no request is in flight; file#%d (handle %x) is open for %s %d times (opened %d, closed %d) but the state the server handed out and has not released amounts to between %d and %d opens; holders: %v", i, w.fhOfLeaf(i), bitName[b], cnt, l.opens[b], l.closes[b], lo[i][b], hi[i][b], w.describeHolders()))
				return
			}
		}
	}
	_ = holders
	// Sessions: the server cannot hold more than the clients created and did
	// not destroy; clients whose lease certainly expired count for nothing.
	bound := 0
	for _, c := range w.clients {
		if c.minor == 1 {
			bound += c.sessionsMade
		}
	}
	if n := nfs.VerifStateCounts(w.prog41)["sessions"]; n > bound {
		w.violate("records-retained", fmt.Sprintf("no request is in flight; the NFSv4.1 program holds %d sessions although the clients whose lease cannot have expired created (and did not destroy) at most %d; leases that certainly expired and had to be reclaimed: %v", n, bound, w.expiredNotes))
	}
}

func (w *world) describeHolders() []string {
	var out []string
	for _, c := range w.clients {
		for _, o := range c.allOwners() {
			for _, of := range o.sortedFiles() {
				la := uint32(0)
				for _, lf := range of.locks {
					la |= lf.access
				}
				out = append(out, fmt.Sprintf("%s/%s:file#%d access=%d lock-access=%d confirmed=%v leaseCertain=%v", c.name, o.key, of.leaf, of.access, la, o.confirmed, w.leaseCertain(c)))
			}
		}
	}
	return out
}

// ---------------------------------------------------------------------------
// I/O with state IDs.
// ---------------------------------------------------------------------------

type ioExpect struct {
	known bool   // the model can tell
	mayOK bool   // success is acceptable
	must  bool   // success is required
	why   string // explanation
	fp    string // fingerprint of the state the verdict rests on
}

// key: a verdict only counts if it is the same, resting on the same state in
// the same condition, when the request is sent and when it has returned.
func (e ioExpect) key() string {
	return fmt.Sprintf("%v/%v/%v/%s/%s", e.known, e.mayOK, e.must, e.why, e.fp)
}

func isSpecialStateID(s nfsv4.Stateid4) bool {
	var zero, ones [12]byte
	for i := range ones {
		ones[i] = 0xff
	}
	return s.Other == zero || s.Other == ones
}

// ioExpectation says what READ/WRITE/SETATTR with the request's state ID on
// the request's file handle must result in, according to the model right now.
func (w *world) ioExpectation(req *request, own int) ioExpect {
	s := req.sid
	if isSpecialStateID(s) {
		return ioExpect{known: true, mayOK: true, why: "special state ID"}
	}
	c := req.cl
	var candidates []*client
	if c.minor == 0 {
		for _, x := range w.clients {
			if x.minor == 0 {
				candidates = append(candidates, x)
			}
		}
	} else {
		candidates = []*client{c}
		if c.inflightAll > own || c.clientInflight > 0 {
			// State IDs of NFSv4.1 are small per-client counters ("state
			// #n of whoever asks"): another request of this client that is
			// in flight (on another lane, or a copy under way) may be
			// creating the very ID. own: how many of the deliveries counted
			// in flight are this request's own.
			return ioExpect{why: "client busy"}
		}
	}
	for _, x := range candidates {
		for _, o := range x.allOwners() {
			for _, of := range o.sortedFiles() {
				var access uint32
				var cur nfsv4.Stateid4
				var what string
				busy := o.inflight > 0 || x.clientInflight > 0
				if of.sid.Other == s.Other {
					access, cur, what = of.access, of.sid, "open"
				} else {
					found := false
					for _, lf := range of.locks {
						if lf.sid.Other == s.Other {
							access, cur, what = lf.access, lf.sid, "lock"
							busy = busy || lf.lo.inflight > 0
							found = true
						}
					}
					if !found {
						continue
					}
				}
				if busy {
					return ioExpect{why: "state busy"}
				}
				fp := fmt.Sprintf("%x.%d/%d/%v", cur.Other, cur.Seqid, access, o.confirmed)
				if !w.leaseCertain(x) || w.ownerMaybeGone(o) {
					return ioExpect{known: true, mayOK: true, why: "lease may have expired", fp: fp}
				}
				if c.minor == 0 && !o.confirmed {
					return ioExpect{known: true, why: "open-owner not confirmed", fp: fp}
				}
				if !bytes.Equal(of.fh, req.fh) {
					return ioExpect{known: true, why: "state ID of another file", fp: fp}
				}
				if s.Seqid != cur.Seqid && !(c.minor == 1 && s.Seqid == 0) {
					return ioExpect{known: true, why: "state ID sequence is not the current one", fp: fp}
				}
				if req.ioNeed&^access != 0 {
					return ioExpect{known: true, why: "access not granted by this " + what + " state", fp: fp}
				}
				return ioExpect{known: true, mayOK: true, must: true, why: fmt.Sprintf("current %s state of %s/%s with access %d", what, x.name, o.key, access), fp: fp}
			}
		}
	}
	if c.minor == 1 {
		// State IDs of a client record are handed out in sequence: one that
		// lies beyond the last one seen may come into being (and go again)
		// while this request is under way.
		if k := binary.LittleEndian.Uint64(s.Other[:8]); k > c.hwmOther {
			return ioExpect{known: true, why: "no such state", fp: "not handed out yet"}
		}
	}
	return ioExpect{known: true, why: "no such state"}
}

func (w *world) applyIO(req *request, d *delivery) {
	res := d.res
	putSt, _ := statusAt(res, req.base)
	ioSt, evaluated := statusAt(res, req.base+1)
	c := req.cl
	// (I/O with a regular state ID renews the lease of the client that owns
	// the state, which need not be the sender; the model does not count on
	// it.)
	end := w.ioExpectation(req, 0) // this delivery is no longer counted as in flight
	if !d.ioStart.known || !end.known || d.ioStart.key() != end.key() || d.clEpoch != c.epoch {
		switch {
		case !d.ioStart.known:
			w.k.Probe("io-unpredictable:" + d.ioStart.why)
		case !end.known:
			w.k.Probe("io-unpredictable:" + end.why)
		default:
			w.k.Probe("io-unpredictable:expectation changed meanwhile")
		}
		return
	}
	ok := evaluated && ioSt == nfsv4.NFS4_OK
	st := ioSt
	if !evaluated {
		st = putSt
	}
	switch {
	case ok && !end.mayOK:
		w.violate("stateid-honoured-wrongly", fmt.Sprintf("%s request#%d [%s] succeeded although: %s", c.name, req.id, req.desc, end.why))
	case !ok && end.must:
		if !evaluated {
			w.violate("open-file-unreachable", fmt.Sprintf("%s request#%d [%s]: PUTFH of handle %x failed with %s although the file is open (%s)", c.name, req.id, req.desc, req.fh, statName(putSt), end.why))
		} else {
			w.violate("valid-stateid-refused", fmt.Sprintf("%s request#%d [%s] failed with %s although it used the %s and the lease is valid", c.name, req.id, req.desc, statName(st), end.why))
		}
	case ok && end.must:
		w.k.Probe("io-with-valid-stateid-ok")
		w.checkReadData(req, d, req.base+1, req.fh)
		if leaf, okl := w.leafOfFH(req.fh); okl && leaf < len(w.alloc.leaves) && w.alloc.snapshot()[leaf].unlinked {
			w.k.Probe("io-on-unlinked-open-file-ok")
		}
	case !ok && !end.mayOK:
		w.k.Probe("io-refused:" + end.why)
	}
}

var _ = time.Second

// checkReadData: a successful READ (result i of the reply) of a file whose
// contents never change must return that file's contents.
func (w *world) checkReadData(req *request, d *delivery, i int, fh []byte) {
	if i >= len(d.res.Resarray) {
		return
	}
	r, ok := d.res.Resarray[i].(*nfsv4.NfsResop4_OP_READ)
	if !ok {
		return
	}
	okr, ok := r.Opread.(*nfsv4.Read4res_NFS4_OK)
	if !ok {
		return
	}
	leaf, ok := w.leafOfFH(fh)
	if !ok {
		return
	}
	w.alloc.mu.Lock()
	l := w.alloc.leaves[leaf]
	w.alloc.mu.Unlock()
	if l.blob == nil {
		return
	}
	want := l.blob.content
	if len(want) > 64 {
		want = want[:64]
	}
	if !bytes.Equal(okr.Resok4.Data, want) {
		w.violate("read-wrong-file", fmt.Sprintf("%s request#%d [%s]: READ through handle %x, which designates file#%d (%s), returned %q instead of that file's contents %q", req.cl.name, req.id, req.desc, fh, leaf, l.blob.name, okr.Resok4.Data, want))
		return
	}
	w.k.Probe("blob-read-returned-the-right-file")
}

package w9

import (
	"testing"

	"github.com/buildbarn/bb-remote-execution/pkg/verifsim/simrun"
)

func TestSim(t *testing.T) {
	simrun.Main(t, map[string]simrun.World{"C18": World("C18"), "C19": World("C19"), "C14": WorldC14()})
}

package w10

import (
	"testing"

	"github.com/buildbarn/bb-remote-execution/pkg/verifsim/simrun"
)

func TestSim(t *testing.T) {
	simrun.Main(t, map[string]simrun.World{
		"C12": WorldC12(),
		"C14": WorldC14(),
		"C16": WorldC16(),
		"C17": WorldC17(),
	})
}

package w10

// World for property C16: writable files created inside the build directory
// live exactly as long as they are referenced (directory entries, open
// descriptors, frozen readers / uploads in progress), their backing pool file
// is released exactly once at that moment, operations through stale handles
// fail cleanly, and the digest reported by an upload equals the digest of the
// bytes the CAS received.
//
// Real: InMemoryPrepopulatedDirectory, VirtualBuildDirectory (InstallHooks,
// UploadFile), HandleAllocatingFileAllocator, PoolBackedFileAllocator, FUSE or
// NFS handle allocator. Stubs: file pool, CAS, clock, RNG.

import (
	"bytes"
	"context"
	"fmt"
	"github.com/buildbarn/bb-remote-execution/pkg/proto/outputpathpersistency"
	"io"
	"sort"
	"strings"

	remoteexecution "github.com/bazelbuild/remote-apis/build/bazel/remote/execution/v2"
	"github.com/buildbarn/bb-remote-execution/pkg/builder"
	"github.com/buildbarn/bb-remote-execution/pkg/filesystem/pool"
	"github.com/buildbarn/bb-remote-execution/pkg/filesystem/virtual"
	bazeloutputservicerev2 "github.com/buildbarn/bb-remote-execution/pkg/proto/bazeloutputservice/rev2"
	"github.com/buildbarn/bb-remote-execution/pkg/verifsim/simenv"
	"github.com/buildbarn/bb-remote-execution/pkg/verifsim/simrun"
	"github.com/buildbarn/bb-remote-execution/pkg/verifsim/simsync"
	"github.com/buildbarn/bb-storage/pkg/digest"
	"github.com/buildbarn/bb-storage/pkg/filesystem"
	"github.com/buildbarn/bb-storage/pkg/filesystem/path"
	"github.com/buildbarn/bb-storage/pkg/util"
	"google.golang.org/grpc/codes"
	"google.golang.org/grpc/status"
)

var bg = context.Background()

const (
	maskR  = virtual.ShareMaskRead
	maskW  = virtual.ShareMaskWrite
	maskRW = virtual.ShareMaskRead | virtual.ShareMaskWrite
)

func maskString(m virtual.ShareMask) string {
	switch m {
	case maskR:
		return "R"
	case maskW:
		return "W"
	case maskRW:
		return "RW"
	}
	return fmt.Sprintf("mask%d", m)
}

// mfile is the reference model of one pool-backed file.
type mfile struct {
	id   int
	leaf virtual.LinkableLeaf
	pf   *simFile
	fh   []byte // NFS file handle

	// Holders whose acquisition completed and whose release has not
	// completed: directory entries and direct links (links), share-mask
	// bits of open descriptors, frozen readers and uploads in their Put.
	held  int
	links int
	// In-flight operations that will drop / may add a holder.
	releasing int
	relLinks  int
	acquiring int
	acqLinks  int
	inflight  []*acq
	linkEpoch int

	// Writers (W bits) whose open completed and whose close did not start.
	frozenActive int

	versions [][]byte
}

func (f *mfile) ver() int         { return len(f.versions) - 1 }
func (f *mfile) cur() []byte      { return f.versions[len(f.versions)-1] }
func (f *mfile) String() string   { return fmt.Sprintf("file#%d", f.id) }
func (f *mfile) push(data []byte) { f.versions = append(f.versions, data) }

func (f *mfile) counts() string {
	return fmt.Sprintf("held=%d(links=%d) releasing=%d acquiring=%d frozen=%d closed=%v", f.held, f.links, f.releasing, f.acquiring, f.frozenActive, f.pf.closed)
}

// note propagates "the file may be dead now" to operations in flight.
func (f *mfile) note() {
	for _, a := range f.inflight {
		if a.link {
			if f.links-f.relLinks <= 0 {
				a.maybeDead = true
			}
		} else if f.held-f.releasing <= 0 {
			a.maybeDead = true
		}
	}
}

// acq is an in-flight operation that tries to add a holder.
type acq struct {
	f    *mfile
	link bool
	// surelyDead: the file had no holder and no other acquirer when the
	// operation started, so it must fail. maybeDead: at some instant during
	// the operation every holder was released or being released, so it may
	// fail.
	surelyDead bool
	maybeDead  bool
}

type pendingKind int

const (
	opWrite pendingKind = iota + 1
	opTruncate
	opOpenTrunc
	opAllocate
)

// pendingOp is the storage mutation an actor's current call is entitled to.
type pendingOp struct {
	kind    pendingKind
	f       *mfile
	buf     []byte
	off     int64
	size    int64
	applied bool
}

type uploadOp struct {
	f         *mfile
	a         *acq
	fn        digest.Function
	verAtCall int
	inPut     bool
	putDone   bool
	rec       *putRecord
	putErr    error
}

type delay struct {
	owner  string
	ch     chan struct{}
	closed bool
	waited bool
}

type c16 struct {
	base
	clock  *simenv.SimClock
	cas    *fakeCAS
	pool   *simPool
	logger *recLogger
	nfs    *virtual.NFSStatefulHandleAllocator
	root   virtual.PrepopulatedDirectory
	dirs   [2]virtual.PrepopulatedDirectory
	vbds   [2]builder.BuildDirectory
	names  [2]map[string]*mfile
	files  []*mfile

	clients  []*c16client
	pending  map[string]*pendingOp
	uploads  map[string]*uploadOp
	delays   []*delay
	nsBusy   bool
	stopping bool
	cleaning bool
	maxOps   int
	maxFiles int
	seq      int

	delayWeight int

	// statistics
	uploadsOK, uploadsFailed, released, staleOps, overlaps int
}

type desc struct {
	f    *mfile
	mask virtual.ShareMask
}

type frozenRd struct {
	f   *mfile
	rd  filesystem.FileReader
	ver int
}

type c16client struct {
	w      *c16
	idx    int
	name   string
	actor  *simsync.Actor
	descs  []*desc
	frozen []*frozenRd
	dlinks []*mfile
	ops    int
}

var (
	c16Names  = []string{"a", "b", "c"}
	c16Masks  = []virtual.ShareMask{maskR, maskW, maskRW}
	digestFns = []digest.Function{
		digest.MustNewFunction("w10", remoteexecution.DigestFunction_SHA256),
		digest.MustNewFunction("w10", remoteexecution.DigestFunction_SHA256),
		digest.MustNewFunction("w10", remoteexecution.DigestFunction_MD5),
	}
)

func noDefaultAttributes(requested virtual.AttributesMask, attributes *virtual.Attributes) {}

func noHiddenFiles(string) bool { return false }

// newTree builds the root directory the way bb_worker does.
func newTree(useNFS bool, clk *simenv.SimClock) (virtual.PrepopulatedDirectory, virtual.StatefulHandleAllocator, *virtual.NFSStatefulHandleAllocator, virtual.SymlinkFactory) {
	var ha virtual.StatefulHandleAllocator
	var nfs *virtual.NFSStatefulHandleAllocator
	rng := &seqRNG{state: 42}
	if useNFS {
		nfs = virtual.NewNFSHandleAllocator(rng)
		ha = nfs
	} else {
		ha = virtual.NewFUSEHandleAllocator(rng)
	}
	root := virtual.NewInMemoryPrepopulatedDirectory(
		virtual.NewHandleAllocatingFileAllocator(
			virtual.NewPoolBackedFileAllocator(pool.EmptyFilePool, util.DefaultErrorLogger, noDefaultAttributes, virtual.NoNamedAttributesFactory),
			ha,
		),
		virtual.NewErrorSymlinkFactory(status.Error(codes.PermissionDenied, "Symlink outside build directory")),
		util.DefaultErrorLogger,
		ha,
		sort.Sort,
		noHiddenFiles,
		clk,
		virtual.CaseSensitiveComponentNormalizer,
		noDefaultAttributes,
		virtual.NoNamedAttributesFactory,
	)
	symlinkFactory := virtual.NewHandleAllocatingSymlinkFactory(virtual.NewBaseSymlinkFactory(noDefaultAttributes), ha.New(), path.UNIXFormat)
	return root, ha, nfs, symlinkFactory
}

func newC16(r *simrun.Run) *c16 {
	w := &c16{base: base{r: r, k: r.K, t: r.T, prop: "C16", faulted: map[string]bool{}}}
	t := w.t
	w.clock = simenv.NewSimClock(w.k, startTime)
	w.cas = newFakeCAS(&w.base)
	w.pool = newSimPool(&w.base)
	w.logger = &recLogger{b: &w.base}
	w.pending = map[string]*pendingOp{}
	w.uploads = map[string]*uploadOp{}

	useNFS := t.Bool(1, 2)
	w.faultFree = t.Bool(1, 3)
	w.cas.putWeight = pick(t, []int{10, 30, 4})
	w.delayWeight = pick(t, []int{2, 1, 6})
	w.maxOps = 8 + t.Choice(24)
	w.maxFiles = 2 + t.Choice(4)
	// Half of the runs also interleave between individual atomic operations
	// (FUSE link counts, quota counters): simrewrite's AtomicPoint calls
	// become scheduling points.
	w.k.AtomicPoints = t.Bool(1, 2)

	root, ha, nfs, symlinkFactory := newTree(useNFS, w.clock)
	w.root, w.nfs = root, nfs
	vbd := builder.NewVirtualBuildDirectory(root, nil, w.cas, symlinkFactory, nil, ha, noDefaultAttributes, w.clock)
	vbd.InstallHooks(w.pool, w.logger)
	if err := vbd.Mkdir(path.MustNewComponent("d"), 0o777); err != nil {
		harness("Mkdir: %v", err)
	}
	sub, err := vbd.EnterBuildDirectory(path.MustNewComponent("d"))
	if err != nil {
		harness("EnterBuildDirectory: %v", err)
	}
	child, err := root.LookupChild(path.MustNewComponent("d"))
	if err != nil {
		harness("LookupChild: %v", err)
	}
	subDir, _ := child.GetPair()
	w.dirs = [2]virtual.PrepopulatedDirectory{root, subDir}
	w.vbds = [2]builder.BuildDirectory{vbd, sub}
	w.names = [2]map[string]*mfile{{}, {}}

	w.pool.onWrite = w.onPoolWrite
	w.pool.onTruncate = w.onPoolTruncate
	w.pool.onClose = w.onPoolClose
	w.cas.onPutStart = w.onPutStart
	w.cas.onPutRelease = w.onPutRelease
	w.cas.onPutEnd = w.onPutEnd

	r.Logf("config: handles=%s faultFree=%v putWeight=%d delayWeight=%d maxOps=%d maxFiles=%d", map[bool]string{true: "NFS", false: "FUSE"}[useNFS], w.faultFree, w.cas.putWeight, w.delayWeight, w.maxOps, w.maxFiles)
	return w
}

// ---------------------------------------------------------------------------
// Model bookkeeping
// ---------------------------------------------------------------------------

func (w *c16) beginAcq(f *mfile, link bool) *acq {
	a := &acq{f: f, link: link}
	if link {
		a.surelyDead = f.links == 0 && f.acqLinks == 0
		a.maybeDead = f.links-f.relLinks <= 0
		f.acqLinks++
		f.linkEpoch++
	} else {
		a.surelyDead = f.held == 0 && f.acquiring == 0
		a.maybeDead = f.held-f.releasing <= 0
	}
	if f.acquiring+f.releasing > 0 {
		w.overlaps++
	}
	f.acquiring++
	f.inflight = append(f.inflight, a)
	return a
}

// endAcq completes an acquiring operation that obtained units holders.
func (w *c16) endAcq(a *acq, units int) {
	f := a.f
	for i, x := range f.inflight {
		if x == a {
			f.inflight = append(f.inflight[:i:i], f.inflight[i+1:]...)
			break
		}
	}
	f.acquiring--
	if a.link {
		f.acqLinks--
		f.linkEpoch++
		if units > 0 {
			f.links++
		}
	}
	f.held += units
	f.note()
	w.checkReleased(f, "an operation that tried to add a reference returned")
}

func (w *c16) beginRel(f *mfile, link bool, units int) {
	if f.acquiring+f.releasing > 0 {
		w.overlaps++
	}
	f.releasing += units
	if link {
		f.relLinks++
		f.linkEpoch++
	}
	f.note()
}

// endRel completes a release of units holders, done of which really went.
func (w *c16) endRel(f *mfile, link bool, units, done int) {
	f.releasing -= units
	if link {
		f.relLinks--
		f.linkEpoch++
		f.links -= done
	}
	f.held -= done
	if f.held < 0 || f.links < 0 {
		harness("model of %s went negative: %s", f, f.counts())
	}
	f.note()
	w.checkReleased(f, "an operation that dropped a reference returned")
}

// checkReleased: at the moment the last holder is gone (and nobody is in the
// middle of adding or dropping one) the pool file must have been closed.
func (w *c16) checkReleased(f *mfile, when string) {
	if f.held == 0 && f.acquiring == 0 && f.releasing == 0 && !f.pf.closed {
		w.violate("C16/not-released", fmt.Sprintf("%s has no directory entry, descriptor, frozen reader or upload left after %s, but its pool file #%d was not closed (%s)", f, when, f.pf.id, f.counts()))
	}
}

func (w *c16) onPoolClose(sf *simFile, actor string) {
	f, _ := sf.owner.(*mfile)
	if f == nil {
		// Created and released inside one call: only legal if the
		// creation failed after allocating, which no path does.
		w.violate("C16/released-while-referenced", fmt.Sprintf("pool file #%d closed by %s before its creation returned", sf.id, actor))
		return
	}
	if w.cleaning {
		return
	}
	if f.held-f.releasing > 0 {
		w.violate("C16/released-while-referenced", fmt.Sprintf("pool file #%d of %s was closed by %s while references remain that nobody is dropping (%s)", sf.id, f, actor, f.counts()))
	}
	w.released++
	w.k.Probe("backing-file-released")
	w.k.Annotate("%s: pool file #%d closed by %s (%s)", f, sf.id, actor, f.counts())
}

func (w *c16) checkFrozen(f *mfile, actor, what string) {
	if f.frozenActive > 0 {
		w.violate("C16/mutated-while-frozen", fmt.Sprintf("%s by %s reached the storage of %s while %d frozen reader(s)/upload(s) hold it frozen", what, actor, f, f.frozenActive))
	}
}

func (w *c16) onPoolWrite(sf *simFile, actor string, p []byte, off int64, n int) {
	f, _ := sf.owner.(*mfile)
	po := w.pending[actor]
	if f == nil || po == nil || po.kind != opWrite || po.f != f || po.applied || !bytes.Equal(po.buf, p) || po.off != off {
		w.violate("C16/unexpected-storage-mutation", fmt.Sprintf("WriteAt(%q, %d) on pool file #%d during a call of %s that did not ask for it (pending=%+v)", p, off, sf.id, actor, po))
		return
	}
	w.checkFrozen(f, actor, fmt.Sprintf("WriteAt(%q, %d)", p, off))
	po.applied = true
	if n > 0 {
		data := append([]byte(nil), f.cur()...)
		if end := int(off) + n; end > len(data) {
			data = append(data, make([]byte, end-len(data))...)
		}
		copy(data[off:], p[:n])
		f.push(data)
	}
}

func (w *c16) onPoolTruncate(sf *simFile, actor string, size int64) {
	f, _ := sf.owner.(*mfile)
	po := w.pending[actor]
	ok := f != nil && po != nil && po.f == f && !po.applied
	if ok {
		switch po.kind {
		case opTruncate, opOpenTrunc:
			ok = po.size == size
		case opAllocate:
			ok = po.size == size && int64(len(f.cur())) < size
		default:
			ok = false
		}
	}
	if !ok {
		w.violate("C16/unexpected-storage-mutation", fmt.Sprintf("Truncate(%d) on pool file #%d during a call of %s that did not ask for it (pending=%+v)", size, sf.id, actor, po))
		return
	}
	w.checkFrozen(f, actor, fmt.Sprintf("Truncate(%d)", size))
	po.applied = true
	data := append([]byte(nil), f.cur()...)
	if int(size) <= len(data) {
		data = data[:size]
	} else {
		data = append(data, make([]byte, int(size)-len(data))...)
	}
	f.push(data)
}

func (w *c16) onPutStart(actor string, d digest.Digest) {
	u := w.uploads[actor]
	if u == nil {
		harness("Put by %s without an upload in flight", actor)
	}
	f := u.f
	u.inPut = true
	// From here on the buffer handed to the CAS holds the file frozen.
	f.held++
	f.frozenActive++
	for _, name := range sortedKeys(w.pending) {
		if po := w.pending[name]; po != nil && po.f == f && name != actor {
			w.k.Probe("upload-parked-with-writer-waiting")
		}
	}
}

func (w *c16) onPutRelease(actor string) {
	u := w.uploads[actor]
	u.f.frozenActive--
	w.beginRel(u.f, false, 1)
}

func (w *c16) onPutEnd(actor string, rec *putRecord, err error) {
	u := w.uploads[actor]
	u.putDone = true
	u.rec = rec
	u.putErr = err
	w.endRel(u.f, false, 1, 1)
}

func sortedKeys[V any](m map[string]V) []string {
	out := make([]string, 0, len(m))
	for k := range m {
		out = append(out, k)
	}
	sort.Strings(out)
	return out
}

func digestOf(fn digest.Function, data []byte) digest.Digest {
	g := fn.NewGenerator(int64(len(data)))
	g.Write(data)
	return g.Sum()
}

// digestInWindow reports whether d is the digest of one of the versions the
// file had between version from and now.
func digestInWindow(f *mfile, from int, fn digest.Function, d digest.Digest) bool {
	for v := from; v <= f.ver(); v++ {
		if digestOf(fn, f.versions[v]) == d {
			return true
		}
	}
	return false
}

// ---------------------------------------------------------------------------
// Clients
// ---------------------------------------------------------------------------

func (c *c16client) setPending(po *pendingOp) *pendingOp {
	c.w.pending[c.name] = po
	return po
}

func (c *c16client) clearPending() { delete(c.w.pending, c.name) }

func (c *c16client) plan() *poolPlan { return c.w.pool.plan(c.name) }

// consumed reports whether a planned fault fired (it was armed and the pool
// used it up), and disarms it.
func consumed(armed bool, flag *bool) bool {
	fired := armed && !*flag
	*flag = false
	return fired
}

func (c *c16client) loop() {
	w := c.w
	for c.ops = 0; c.ops < w.maxOps; c.ops++ {
		w.k.Yield("next")
		if w.stopping {
			break
		}
		c.step()
	}
	c.cleanup()
}

func (c *c16client) cleanup() {
	w := c.w
	for len(c.frozen) > 0 {
		w.k.Yield("cleanup")
		c.closeFrozen(0)
	}
	for len(c.descs) > 0 {
		w.k.Yield("cleanup")
		c.closeDesc(0, c.descs[0].mask)
	}
	for len(c.dlinks) > 0 {
		w.k.Yield("cleanup")
		c.directUnlink(0)
	}
}

func (c *c16client) holds(f *mfile) bool {
	for _, d := range c.descs {
		if d.f == f {
			return true
		}
	}
	for _, l := range c.dlinks {
		if l == f {
			return true
		}
	}
	return false
}

func (c *c16client) holdsFrozen(f *mfile) bool {
	for _, fr := range c.frozen {
		if fr.f == f {
			return true
		}
	}
	return false
}

func (c *c16client) descsWith(bit virtual.ShareMask) []int {
	var out []int
	for i, d := range c.descs {
		if d.mask&bit != 0 {
			out = append(out, i)
		}
	}
	return out
}

func (c *c16client) step() {
	w := c.w
	t := w.t
	hasFrozen := len(c.frozen) > 0
	type option struct {
		weight int
		fn     func()
	}
	var opts []option
	add := func(weight int, cond bool, fn func()) {
		if cond && weight > 0 {
			opts = append(opts, option{weight, fn})
		}
	}
	nfiles := len(w.files)
	wr := c.descsWith(maskW)
	rd := c.descsWith(maskR)
	// A client that holds a frozen reader never waits for anything a
	// freeze can block (that would be a deadlock of the harness's making).
	add(10, !hasFrozen, c.nsOpen)
	add(4, !hasFrozen && nfiles > 0, c.nsLink)
	add(8, !hasFrozen && nfiles > 0, c.nsRemove)
	add(3, !hasFrozen && nfiles > 0, c.nsRename)
	add(3, !hasFrozen && nfiles > 0, c.nsUpload)
	add(6, nfiles > 0, func() { c.openSelf(hasFrozen) })
	add(8, len(c.descs) > 0, func() {
		i := t.Choice(len(c.descs))
		m := c.descs[i].mask
		if m == maskRW {
			m = pick(t, []virtual.ShareMask{maskRW, maskW, maskR})
		}
		c.closeDesc(i, m)
	})
	add(10, !hasFrozen && len(wr) > 0, func() { c.write(c.descs[pick(t, wr)].f) })
	add(6, len(rd) > 0, func() { c.read(c.descs[pick(t, rd)].f) })
	add(3, !hasFrozen && len(c.descs)+len(c.dlinks) > 0, c.truncate)
	add(2, !hasFrozen && len(wr) > 0, func() { c.allocate(c.descs[pick(t, wr)].f) })
	add(2, len(c.descs) > 0, c.misc)
	add(3, nfiles > 0, c.getattr)
	add(3, nfiles > 0, c.directLink)
	add(3, len(c.dlinks) > 0, func() { c.directUnlink(t.Choice(len(c.dlinks))) })
	add(6, nfiles > 0, c.upload)
	add(4, nfiles > 0, c.openFrozen)
	add(6, hasFrozen, c.readFrozen)
	add(5, hasFrozen, func() { c.closeFrozen(t.Choice(len(c.frozen))) })
	add(3, nfiles > 0, c.stat)
	add(2, nfiles > 0, c.persist)
	add(1, nfiles > 0 && w.nfs != nil, c.resolve)
	if len(opts) == 0 {
		return
	}
	weights := make([]int, len(opts))
	for i, o := range opts {
		weights[i] = o.weight
	}
	opts[t.Weighted(weights)].fn()
}

func (c *c16client) anyFile() *mfile { return pick(c.w.t, c.w.files) }

func (c *c16client) faults() bool { return !c.w.faultFree && c.w.k.FaultsOn }

func (c *c16client) logf(format string, args ...interface{}) {
	msg := fmt.Sprintf("%s: "+format, append([]interface{}{c.name}, args...)...)
	c.w.r.Logf("%s", msg)
	c.w.k.Annotate("%s", msg)
}

// gate serialises operations that change or depend on the name space, so
// that the model knows exactly which file a name denotes. Operations through
// file handles run concurrently with them.
func (c *c16client) gate() {
	w := c.w
	w.k.SeamWhen("ns-gate", func() bool { return !w.nsBusy })
	w.nsBusy = true
}

func (c *c16client) ungate() { c.w.nsBusy = false }

func comp(name string) path.Component { return path.MustNewComponent(name) }

// --- name space operations ---------------------------------------------------

func (c *c16client) nsOpen() {
	w := c.w
	t := w.t
	c.gate()
	defer c.ungate()
	di := t.Choice(2)
	name := pick(t, c16Names)
	mask := pick(t, c16Masks)
	present := w.names[di][name]
	var createAttrs *virtual.Attributes
	var existing *virtual.OpenExistingOptions
	exec := false
	initial := uint64(0)
	switch t.Weighted([]int{5, 3, 3}) {
	case 0:
		createAttrs = &virtual.Attributes{}
		existing = &virtual.OpenExistingOptions{Truncate: t.Bool(1, 4)}
	case 1:
		createAttrs = &virtual.Attributes{}
	case 2:
		existing = &virtual.OpenExistingOptions{Truncate: t.Bool(1, 3)}
	}
	if createAttrs != nil {
		if present == nil && len(w.files) >= w.maxFiles {
			// Enough files; turn this into a plain open.
			createAttrs = nil
			if existing == nil {
				existing = &virtual.OpenExistingOptions{}
			}
		} else {
			exec = t.Bool(1, 3)
			perm := virtual.PermissionsRead | virtual.PermissionsWrite
			if exec {
				perm |= virtual.PermissionsExecute
			}
			createAttrs.SetPermissions(perm)
			if t.Bool(1, 4) {
				initial = uint64(1 + t.Choice(6))
				createAttrs.SetSizeBytes(initial)
			}
		}
	}
	requested := virtual.AttributesMaskSizeBytes | virtual.AttributesMaskLinkCount
	if w.nfs != nil {
		requested |= virtual.AttributesMaskFileHandle
	}
	var out virtual.Attributes
	switch {
	case present == nil && createAttrs == nil:
		c.logf("open %d/%s %s (no create) -> expect ENOENT", di, name, maskString(mask))
		_, _, _, s := w.dirs[di].VirtualOpenChild(bg, comp(name), mask, nil, existing, requested, &out)
		if s != virtual.StatusErrNoEnt {
			w.violate("C16/unexpected-status", fmt.Sprintf("%s: opening the non-existent name %d/%s without create returned status %d", c.name, di, name, s))
		}
	case present == nil:
		pl := c.plan()
		if c.faults() && t.Bool(1, 12) {
			pl.failNewFile = true
		}
		armed := pl.failNewFile
		delete(w.pool.lastBy, c.name)
		c.logf("create %d/%s %s exec=%v size=%d", di, name, maskString(mask), exec, initial)
		leaf, _, _, s := w.dirs[di].VirtualOpenChild(bg, comp(name), mask, createAttrs, existing, requested, &out)
		fired := consumed(armed, &pl.failNewFile)
		if fired {
			if s != virtual.StatusErrIO {
				w.violate("C16/unexpected-status", fmt.Sprintf("%s: create of %d/%s with a failing file pool returned status %d", c.name, di, name, s))
			}
			return
		}
		if s != virtual.StatusOK {
			w.violate("C16/unexpected-status", fmt.Sprintf("%s: create of %d/%s returned status %d", c.name, di, name, s))
			return
		}
		pf := w.pool.lastBy[c.name]
		ll, ok := leaf.(virtual.LinkableLeaf)
		if pf == nil || !ok {
			harness("create returned no pool file / a non linkable leaf %T", leaf)
		}
		f := &mfile{id: len(w.files), leaf: ll, pf: pf, links: 1, held: 1 + int(mask.Count())}
		f.push(make([]byte, initial))
		pf.owner = f
		if w.nfs != nil {
			f.fh = append([]byte(nil), out.GetFileHandle()...)
		}
		w.files = append(w.files, f)
		w.names[di][name] = f
		c.descs = append(c.descs, &desc{f: f, mask: mask})
		if pf.closed {
			w.violate("C16/released-while-referenced", fmt.Sprintf("%s was released during its own creation", f))
		}
		if sz, _ := out.GetSizeBytes(); sz != initial {
			w.violate("C16/contents", fmt.Sprintf("%s created with size %d reports size %d", f, initial, sz))
		}
		w.k.Annotate("%s created %s as %d/%s mask=%s", c.name, f, di, name, maskString(mask))
	case existing == nil:
		c.logf("create-exclusive %d/%s (exists) -> expect EEXIST", di, name)
		_, _, _, s := w.dirs[di].VirtualOpenChild(bg, comp(name), mask, createAttrs, nil, requested, &out)
		if s != virtual.StatusErrExist {
			w.violate("C16/unexpected-status", fmt.Sprintf("%s: exclusive create of the existing name %d/%s returned status %d", c.name, di, name, s))
		}
	default:
		f := present
		if existing.Truncate && c.holdsFrozen(f) {
			existing.Truncate = false
		}
		c.logf("open %d/%s=%s %s trunc=%v", di, name, f, maskString(mask), existing.Truncate)
		c.doOpen(f, mask, existing.Truncate, fmt.Sprintf("open of %d/%s", di, name), func(o *virtual.OpenExistingOptions, out *virtual.Attributes) virtual.Status {
			_, _, _, s := w.dirs[di].VirtualOpenChild(bg, comp(name), mask, createAttrs, o, requested, out)
			return s
		})
	}
}

// doOpen runs an open of an existing file (by name or by handle) and judges
// its outcome.
func (c *c16client) doOpen(f *mfile, mask virtual.ShareMask, trunc bool, what string, call func(o *virtual.OpenExistingOptions, out *virtual.Attributes) virtual.Status) {
	w := c.w
	a := w.beginAcq(f, false)
	var po *pendingOp
	pl := c.plan()
	if trunc {
		po = c.setPending(&pendingOp{kind: opOpenTrunc, f: f, size: 0})
		if c.faults() && w.t.Bool(1, 10) {
			pl.failTruncate = true
		}
		if f.frozenActive > 0 {
			w.k.Probe("writer-started-during-freeze")
		}
	}
	var out virtual.Attributes
	armed := pl.failTruncate
	s := call(&virtual.OpenExistingOptions{Truncate: trunc}, &out)
	c.clearPending()
	fired := consumed(armed, &pl.failTruncate)
	units := 0
	if s == virtual.StatusOK {
		units = int(mask.Count())
	}
	w.endAcq(a, units)
	switch {
	case s == virtual.StatusOK:
		c.descs = append(c.descs, &desc{f: f, mask: mask})
		if a.surelyDead {
			w.violate("C16/dead-file-revived", fmt.Sprintf("%s: %s succeeded although %s had lost its last reference before the call", c.name, what, f))
		}
		if trunc && (po == nil || !po.applied) {
			w.violate("C16/contents", fmt.Sprintf("%s: %s with truncation succeeded without truncating the storage of %s", c.name, what, f))
		}
		if f.pf.closed {
			w.violate("C16/released-while-referenced", fmt.Sprintf("%s: %s succeeded on %s whose storage is already released", c.name, what, f))
		}
	case s == virtual.StatusErrStale:
		w.staleOps++
		w.k.Probe("open-stale")
		if !a.maybeDead {
			w.violate("C16/spurious-stale", fmt.Sprintf("%s: %s failed with ESTALE although %s was referenced throughout the call (%s)", c.name, what, f, f.counts()))
		}
	case s == virtual.StatusErrIO && fired:
	default:
		w.violate("C16/unexpected-status", fmt.Sprintf("%s: %s of %s returned status %d (fault fired: %v)", c.name, what, f, s, fired))
	}
}

func (c *c16client) openSelf(hasFrozen bool) {
	w := c.w
	t := w.t
	f := c.anyFile()
	mask := pick(t, c16Masks)
	trunc := !hasFrozen && t.Bool(1, 5)
	c.logf("open-by-handle %s %s trunc=%v (%s)", f, maskString(mask), trunc, f.counts())
	c.doOpen(f, mask, trunc, "open by handle", func(o *virtual.OpenExistingOptions, out *virtual.Attributes) virtual.Status {
		return f.leaf.VirtualOpenSelf(bg, mask, o, virtual.AttributesMaskSizeBytes, out)
	})
}

func (c *c16client) closeDesc(i int, m virtual.ShareMask) {
	w := c.w
	d := c.descs[i]
	f := d.f
	c.logf("close %s %s of %s", f, maskString(m), maskString(d.mask))
	units := int(m.Count())
	w.beginRel(f, false, units)
	f.leaf.VirtualClose(m)
	d.mask &^= m
	if d.mask == 0 {
		c.descs = append(c.descs[:i:i], c.descs[i+1:]...)
	}
	w.endRel(f, false, units, units)
}

func (c *c16client) nsLink() {
	w := c.w
	t := w.t
	c.gate()
	defer c.ungate()
	di := t.Choice(2)
	name := pick(t, c16Names)
	f := c.anyFile()
	present := w.names[di][name]
	var out virtual.Attributes
	if present != nil {
		c.logf("link %s as %d/%s (exists) -> expect EEXIST", f, di, name)
		if _, s := w.dirs[di].VirtualLink(bg, comp(name), f.leaf, 0, &out); s != virtual.StatusErrExist {
			w.violate("C16/unexpected-status", fmt.Sprintf("%s: link onto the existing name %d/%s returned status %d", c.name, di, name, s))
		}
		return
	}
	c.logf("link %s as %d/%s (%s)", f, di, name, f.counts())
	a := w.beginAcq(f, true)
	_, s := w.dirs[di].VirtualLink(bg, comp(name), f.leaf, virtual.AttributesMaskLinkCount, &out)
	units := 0
	if s == virtual.StatusOK {
		units = 1
		w.names[di][name] = f
	}
	w.endAcq(a, units)
	c.judgeLink(a, s, fmt.Sprintf("link as %d/%s", di, name))
}

func (c *c16client) judgeLink(a *acq, s virtual.Status, what string) {
	w := c.w
	f := a.f
	switch s {
	case virtual.StatusOK:
		w.k.Probe("link-ok")
		if a.surelyDead {
			w.violate("C16/dead-file-revived", fmt.Sprintf("%s: %s succeeded although %s had no link left before the call", c.name, what, f))
		}
		if f.pf.closed {
			w.violate("C16/released-while-referenced", fmt.Sprintf("%s: %s succeeded on %s whose storage is already released", c.name, what, f))
		}
	case virtual.StatusErrStale:
		w.staleOps++
		w.k.Probe("link-stale")
		if !a.maybeDead {
			w.violate("C16/spurious-stale", fmt.Sprintf("%s: %s failed with ESTALE although %s kept a link throughout the call (%s)", c.name, what, f, f.counts()))
		}
	default:
		w.violate("C16/unexpected-status", fmt.Sprintf("%s: %s of %s returned status %d", c.name, what, f, s))
	}
}

func (c *c16client) directLink() {
	w := c.w
	f := c.anyFile()
	c.logf("direct Link() %s (%s)", f, f.counts())
	a := w.beginAcq(f, true)
	s := f.leaf.Link()
	units := 0
	if s == virtual.StatusOK {
		units = 1
		c.dlinks = append(c.dlinks, f)
	}
	w.endAcq(a, units)
	c.judgeLink(a, s, "direct Link()")
}

func (c *c16client) directUnlink(i int) {
	w := c.w
	f := c.dlinks[i]
	c.logf("direct Unlink() %s (%s)", f, f.counts())
	c.dlinks = append(c.dlinks[:i:i], c.dlinks[i+1:]...)
	w.beginRel(f, true, 1)
	f.leaf.Unlink()
	w.endRel(f, true, 1, 1)
}

func (c *c16client) nsRemove() {
	w := c.w
	t := w.t
	c.gate()
	defer c.ungate()
	di := t.Choice(2)
	name := pick(t, c16Names)
	variant := t.Choice(4)
	f := w.names[di][name]
	c.logf("remove %d/%s=%v variant=%d", di, name, f, variant)
	if f != nil {
		w.beginRel(f, true, 1)
	}
	var ok, noent bool
	var desc string
	switch variant {
	case 0, 1:
		_, s := w.dirs[di].VirtualRemove(bg, comp(name), variant == 1, true)
		ok, noent, desc = s == virtual.StatusOK, s == virtual.StatusErrNoEnt, fmt.Sprintf("status %d", s)
	case 2:
		err := w.dirs[di].Remove(comp(name))
		ok, noent, desc = err == nil, err != nil && strings.Contains(err.Error(), "no such file"), fmt.Sprint(err)
	case 3:
		err := w.dirs[di].RemoveAll(comp(name))
		ok, noent, desc = err == nil, err != nil && strings.Contains(err.Error(), "no such file"), fmt.Sprint(err)
	}
	if f != nil {
		units := 0
		if ok {
			units = 1
			delete(w.names[di], name)
		}
		w.endRel(f, true, 1, units)
		if !ok {
			w.violate("C16/unexpected-status", fmt.Sprintf("%s: removing %d/%s (%s) failed: %s", c.name, di, name, f, desc))
		}
	} else if !noent {
		w.violate("C16/unexpected-status", fmt.Sprintf("%s: removing the non-existent name %d/%s returned %s", c.name, di, name, desc))
	}
}

func (c *c16client) nsRename() {
	w := c.w
	t := w.t
	c.gate()
	defer c.ungate()
	type ent struct {
		di   int
		name string
	}
	var present []ent
	for di := 0; di < 2; di++ {
		for _, n := range c16Names {
			if w.names[di][n] != nil {
				present = append(present, ent{di, n})
			}
		}
	}
	if len(present) == 0 {
		return
	}
	old := pick(t, present)
	ndi := t.Choice(2)
	nname := pick(t, c16Names)
	f := w.names[old.di][old.name]
	target := w.names[ndi][nname]
	c.logf("rename %d/%s=%s -> %d/%s=%v", old.di, old.name, f, ndi, nname, target)
	replaced := target != nil && target != f
	if replaced {
		w.beginRel(target, true, 1)
	}
	_, _, s := w.dirs[old.di].VirtualRename(bg, comp(old.name), w.dirs[ndi], comp(nname))
	if s == virtual.StatusOK && target != f {
		delete(w.names[old.di], old.name)
		w.names[ndi][nname] = f
	}
	if replaced {
		units := 0
		if s == virtual.StatusOK {
			units = 1
			w.k.Probe("rename-replaced-file")
		}
		w.endRel(target, true, 1, units)
	}
	if s != virtual.StatusOK {
		w.violate("C16/unexpected-status", fmt.Sprintf("%s: rename %d/%s -> %d/%s returned status %d", c.name, old.di, old.name, ndi, nname, s))
	}
}

// --- data operations -----------------------------------------------------------

func (c *c16client) payload() []byte {
	w := c.w
	w.seq++
	return []byte(fmt.Sprintf("<%s%d>", c.name[len(c.name)-1:], w.seq) + strings.Repeat("=", w.t.Choice(5)))
}

func (c *c16client) write(f *mfile) {
	w := c.w
	t := w.t
	buf := c.payload()
	size := int64(len(f.cur()))
	off := pick(t, []int64{0, size / 2, size, size + 3})
	po := c.setPending(&pendingOp{kind: opWrite, f: f, buf: buf, off: off})
	pl := c.plan()
	if c.faults() && t.Bool(1, 10) {
		pl.failWrite = true
		pl.shortWrite = pick(t, []int{0, len(buf) / 2})
	}
	short := pl.shortWrite
	armed := pl.failWrite
	if f.frozenActive > 0 {
		w.k.Probe("writer-started-during-freeze")
	}
	c.logf("write %s %q@%d (frozen=%d)", f, buf, off, f.frozenActive)
	n, s := f.leaf.VirtualWrite(bg, buf, uint64(off))
	c.clearPending()
	fired := consumed(armed, &pl.failWrite)
	switch {
	case fired:
		if s != virtual.StatusErrIO || n != short {
			w.violate("C16/unexpected-status", fmt.Sprintf("%s: write to %s with a failing pool (short=%d) returned n=%d status %d", c.name, f, short, n, s))
		}
	case s != virtual.StatusOK || n != len(buf) || !po.applied:
		w.violate("C16/contents", fmt.Sprintf("%s: write of %q at %d to %s returned n=%d status %d (stored: %v)", c.name, buf, off, f, n, s, po.applied))
	}
}

// expectRead computes what a read of n bytes at off must return for data.
func expectRead(data []byte, off uint64, n int) ([]byte, bool) {
	if off >= uint64(len(data)) {
		return nil, true
	}
	rest := data[off:]
	if n >= len(rest) {
		return rest, true
	}
	return rest[:n], false
}

func (c *c16client) read(f *mfile) {
	w := c.w
	t := w.t
	size := len(f.cur())
	off := uint64(pick(t, []int{0, size / 2, size, size + 2}))
	buf := make([]byte, pick(t, []int{64, 1, 4}))
	from := f.ver()
	pl := c.plan()
	if c.faults() && t.Bool(1, 12) {
		pl.failRead = true
	}
	armed := pl.failRead
	n, eof, s := f.leaf.VirtualRead(bg, buf, off)
	fired := consumed(armed, &pl.failRead)
	if fired {
		if s != virtual.StatusErrIO {
			w.violate("C16/unexpected-status", fmt.Sprintf("%s: read of %s with a failing pool returned status %d", c.name, f, s))
		}
		return
	}
	if s != virtual.StatusOK {
		w.violate("C16/contents", fmt.Sprintf("%s: read of %s at %d returned status %d", c.name, f, off, s))
		return
	}
	for v := from; v <= f.ver(); v++ {
		want, wantEOF := expectRead(f.versions[v], off, len(buf))
		if bytes.Equal(want, buf[:n]) && wantEOF == eof {
			return
		}
	}
	w.violate("C16/contents", fmt.Sprintf("%s: read of %s at %d (len %d) returned %q eof=%v, which matches none of the contents the file had during the call (versions %d..%d, latest %q)", c.name, f, off, len(buf), buf[:n], eof, from, f.ver(), f.cur()))
}

func (c *c16client) heldFiles() []*mfile {
	var out []*mfile
	seen := map[*mfile]bool{}
	for _, d := range c.descs {
		if !seen[d.f] {
			seen[d.f] = true
			out = append(out, d.f)
		}
	}
	for _, l := range c.dlinks {
		if !seen[l] {
			seen[l] = true
			out = append(out, l)
		}
	}
	return out
}

func (c *c16client) truncate() {
	w := c.w
	t := w.t
	f := pick(t, c.heldFiles())
	cur := int64(len(f.cur()))
	size := pick(t, []int64{0, cur / 2, cur, cur + 5})
	po := c.setPending(&pendingOp{kind: opTruncate, f: f, size: size})
	pl := c.plan()
	if c.faults() && t.Bool(1, 10) {
		pl.failTruncate = true
	}
	if f.frozenActive > 0 {
		w.k.Probe("writer-started-during-freeze")
	}
	c.logf("truncate %s to %d (frozen=%d)", f, size, f.frozenActive)
	var in, out virtual.Attributes
	in.SetSizeBytes(uint64(size))
	armed := pl.failTruncate
	s := f.leaf.VirtualSetAttributes(bg, &in, virtual.AttributesMaskSizeBytes, &out)
	c.clearPending()
	fired := consumed(armed, &pl.failTruncate)
	switch {
	case fired:
		if s != virtual.StatusErrIO {
			w.violate("C16/unexpected-status", fmt.Sprintf("%s: truncate of %s with a failing pool returned status %d", c.name, f, s))
		}
	case s != virtual.StatusOK || !po.applied:
		w.violate("C16/contents", fmt.Sprintf("%s: truncate of %s to %d returned status %d (stored: %v)", c.name, f, size, s, po.applied))
	default:
		if sz, _ := out.GetSizeBytes(); int64(sz) != size {
			w.violate("C16/contents", fmt.Sprintf("%s: truncate of %s to %d reports size %d", c.name, f, size, sz))
		}
	}
}

func (c *c16client) allocate(f *mfile) {
	w := c.w
	t := w.t
	cur := int64(len(f.cur()))
	off := pick(t, []int64{0, cur, cur + 2})
	n := int64(1 + t.Choice(4))
	from := f.ver()
	c.setPending(&pendingOp{kind: opAllocate, f: f, size: off + n})
	pl := c.plan()
	if c.faults() && t.Bool(1, 10) {
		pl.failTruncate = true
	}
	c.logf("allocate %s [%d,+%d)", f, off, n)
	armed := pl.failTruncate
	s := f.leaf.VirtualAllocate(bg, uint64(off), uint64(n))
	c.clearPending()
	fired := consumed(armed, &pl.failTruncate)
	if fired {
		if s != virtual.StatusErrIO {
			w.violate("C16/unexpected-status", fmt.Sprintf("%s: allocate on %s with a failing pool returned status %d", c.name, f, s))
		}
		return
	}
	if s != virtual.StatusOK {
		w.violate("C16/contents", fmt.Sprintf("%s: allocate on %s returned status %d", c.name, f, s))
		return
	}
	for v := from; v <= f.ver(); v++ {
		if int64(len(f.versions[v])) >= off+n {
			return
		}
	}
	w.violate("C16/contents", fmt.Sprintf("%s: allocate [%d,+%d) on %s succeeded but the file never was that large (now %d bytes)", c.name, off, n, f, len(f.cur())))
}

// misc issues calls that must not disturb anything: seek and chmod.
func (c *c16client) misc() {
	w := c.w
	t := w.t
	f := pick(t, c.descs).f
	if t.Bool(1, 2) {
		f.leaf.VirtualSeek(bg, uint64(t.Choice(len(f.cur())+2)), pick(t, []filesystem.RegionType{filesystem.Data, filesystem.Hole}))
		return
	}
	var in, out virtual.Attributes
	perm := virtual.PermissionsRead | virtual.PermissionsWrite
	if t.Bool(1, 2) {
		perm |= virtual.PermissionsExecute
	}
	in.SetPermissions(perm)
	if s := f.leaf.VirtualSetAttributes(bg, &in, virtual.AttributesMaskPermissions, &out); s != virtual.StatusOK {
		w.violate("C16/unexpected-status", fmt.Sprintf("%s: chmod of %s returned status %d", c.name, f, s))
	}
}

func (c *c16client) getattr() {
	w := c.w
	f := c.anyFile()
	from := f.ver()
	epoch := f.linkEpoch
	quiet := f.acqLinks+f.relLinks == 0
	alive := f.held-f.releasing > 0
	var out virtual.Attributes
	f.leaf.VirtualGetAttributes(bg, virtual.AttributesMaskSizeBytes|virtual.AttributesMaskLinkCount|virtual.AttributesMaskChangeID|virtual.AttributesMaskFileType|virtual.AttributesMaskPermissions, &out)
	if out.GetFileType() != filesystem.FileTypeRegularFile {
		w.violate("C16/contents", fmt.Sprintf("%s: %s reports file type %d", c.name, f, out.GetFileType()))
	}
	if quiet && epoch == f.linkEpoch {
		if lc := out.GetLinkCount(); int(lc) != f.links {
			w.violate("C16/link-count", fmt.Sprintf("%s: %s reports link count %d while it has %d directory entries/direct links and no link operation is in flight", c.name, f, lc, f.links))
		}
	}
	if alive {
		sz, _ := out.GetSizeBytes()
		for v := from; v <= f.ver(); v++ {
			if uint64(len(f.versions[v])) == sz {
				return
			}
		}
		w.violate("C16/contents", fmt.Sprintf("%s: %s reports size %d, which it did not have during the call (now %d)", c.name, f, sz, len(f.cur())))
	}
}

func (c *c16client) resolve() {
	w := c.w
	f := c.anyFile()
	epoch := f.linkEpoch
	quiet := f.acqLinks+f.relLinks == 0
	links := f.links
	child, s := w.nfs.ResolveHandle(bytes.NewBuffer(append([]byte(nil), f.fh...)))
	if !quiet || epoch != f.linkEpoch {
		return
	}
	if links == 0 {
		w.k.Probe("resolve-unlinked-handle")
		if s != virtual.StatusErrStale {
			w.violate("C16/handle-resolution", fmt.Sprintf("%s: the handle of %s, which has no link left, resolved with status %d instead of ESTALE", c.name, f, s))
		}
		return
	}
	_, leaf := child.GetPair()
	if s != virtual.StatusOK || leaf != virtual.Leaf(f.leaf) {
		w.violate("C16/handle-resolution", fmt.Sprintf("%s: the handle of %s (%d links) resolved with status %d to %T", c.name, f, links, s, leaf))
	}
}

// --- uploads and frozen readers ---------------------------------------------------

func (c *c16client) newDelay() *delay {
	w := c.w
	d := &delay{owner: c.name, ch: make(chan struct{})}
	if w.t.Bool(1, 6) {
		close(d.ch)
		d.closed = true
		w.k.Probe("delay-already-expired")
	}
	w.delays = append(w.delays, d)
	return d
}

func (c *c16client) dropDelay(d *delay) {
	w := c.w
	for i, x := range w.delays {
		if x == d {
			w.delays = append(w.delays[:i:i], w.delays[i+1:]...)
		}
	}
}

func (c *c16client) upload() {
	f := c.anyFile()
	fn := pick(c.w.t, digestFns)
	c.logf("upload %s fn=%s (%s)", f, fn.GetEnumValue(), f.counts())
	c.doUpload(f, fn, "upload by handle", func(d *delay) (digest.Digest, error) {
		p := virtual.ApplyUploadFile{Context: bg, ContentAddressableStorage: c.w.cas, DigestFunction: fn, WritableFileUploadDelay: d.ch}
		if !f.leaf.VirtualApply(&p) {
			harness("leaf does not handle ApplyUploadFile")
		}
		return p.Digest, p.Err
	})
}

func (c *c16client) nsUpload() {
	w := c.w
	t := w.t
	c.gate()
	defer c.ungate()
	di := t.Choice(2)
	name := pick(t, c16Names)
	fn := pick(t, digestFns)
	f := w.names[di][name]
	if f == nil {
		d := c.newDelay()
		_, err := w.vbds[di].UploadFile(bg, comp(name), fn, d.ch)
		c.dropDelay(d)
		if err == nil {
			w.violate("C16/unexpected-status", fmt.Sprintf("%s: UploadFile of the non-existent name %d/%s succeeded", c.name, di, name))
		}
		return
	}
	c.logf("UploadFile %d/%s=%s fn=%s (%s)", di, name, f, fn.GetEnumValue(), f.counts())
	c.doUpload(f, fn, fmt.Sprintf("UploadFile(%d/%s)", di, name), func(d *delay) (digest.Digest, error) {
		return w.vbds[di].UploadFile(bg, comp(name), fn, d.ch)
	})
}

func (c *c16client) planReadFault() *poolPlan {
	pl := c.plan()
	if c.faults() && c.w.t.Bool(1, 14) {
		pl.failRead = true
	}
	return pl
}

func (c *c16client) doUpload(f *mfile, fn digest.Function, what string, call func(d *delay) (digest.Digest, error)) {
	w := c.w
	d := c.newDelay()
	pl := c.planReadFault()
	a := w.beginAcq(f, false)
	u := &uploadOp{f: f, a: a, fn: fn, verAtCall: f.ver()}
	w.uploads[c.name] = u
	w.faulted[c.name] = false
	armed := pl.failRead
	dg, err := call(d)
	delete(w.uploads, c.name)
	c.dropDelay(d)
	readFault := consumed(armed, &pl.failRead)
	faulted := w.faulted[c.name] || readFault
	if u.inPut && !u.putDone {
		harness("upload returned while the CAS still holds the buffer")
	}
	w.endAcq(a, 0)
	if d.closed {
		w.k.Probe("upload-delay-expired")
	}
	if err == nil {
		w.uploadsOK++
		w.k.Probe("upload-ok")
		if u.verAtCall != f.ver() {
			w.k.Probe("upload-contents-changed-during-call")
		}
		switch {
		case a.surelyDead:
			w.violate("C16/dead-file-revived", fmt.Sprintf("%s: %s succeeded although %s had lost its last reference before the call", c.name, what, f))
		case u.rec == nil || u.putErr != nil:
			w.violate("C16/upload-digest-mismatch", fmt.Sprintf("%s: %s of %s reported digest %s but the CAS never completed a Put for it", c.name, what, f, dg))
		case u.rec.digest != dg || !u.rec.hashOK:
			w.violate("C16/upload-digest-mismatch", fmt.Sprintf("%s: %s of %s reported digest %s; the CAS was given digest %s and received %d bytes %q whose checksum matches: %v", c.name, what, f, dg, u.rec.digest, len(u.rec.received), u.rec.received, u.rec.hashOK))
		case !digestInWindow(f, u.verAtCall, fn, dg):
			w.violate("C16/upload-stale-digest", fmt.Sprintf("%s: %s of %s reported digest %s (bytes %q), which is not the digest of any contents the file had during the call (versions %d..%d, latest %q)", c.name, what, f, dg, u.rec.received, u.verAtCall, f.ver(), f.cur()))
		}
		return
	}
	w.uploadsFailed++
	switch {
	case faulted:
		w.k.Probe("upload-failed-by-fault")
	case status.Code(err) == codes.NotFound && a.maybeDead && !u.inPut:
		w.staleOps++
		w.k.Probe("upload-stale")
	default:
		w.violate("C16/upload-failed", fmt.Sprintf("%s: %s of %s failed without an injected fault while the file was referenced: %v (%s)", c.name, what, f, err, f.counts()))
	}
}

func (c *c16client) openFrozen() {
	w := c.w
	f := c.anyFile()
	d := c.newDelay()
	c.logf("open-read-frozen %s (%s)", f, f.counts())
	a := w.beginAcq(f, false)
	p := virtual.ApplyOpenReadFrozen{WritableFileDelay: d.ch}
	if !f.leaf.VirtualApply(&p) {
		harness("leaf does not handle ApplyOpenReadFrozen")
	}
	c.dropDelay(d)
	if p.Err == nil {
		c.frozen = append(c.frozen, &frozenRd{f: f, rd: p.Reader, ver: f.ver()})
		f.frozenActive++
		w.endAcq(a, 1)
		w.k.Probe("frozen-reader-opened")
		if a.surelyDead {
			w.violate("C16/dead-file-revived", fmt.Sprintf("%s: frozen open succeeded although %s had lost its last reference before the call", c.name, f))
		}
		return
	}
	w.endAcq(a, 0)
	if status.Code(p.Err) == codes.NotFound && a.maybeDead {
		w.staleOps++
		w.k.Probe("frozen-open-stale")
		return
	}
	w.violate("C16/spurious-stale", fmt.Sprintf("%s: frozen open of %s failed although it was referenced throughout the call: %v (%s)", c.name, f, p.Err, f.counts()))
}

func (c *c16client) readFrozen() {
	w := c.w
	t := w.t
	fr := pick(t, c.frozen)
	want := fr.f.versions[fr.ver]
	if fr.f.ver() != fr.ver {
		w.violate("C16/mutated-while-frozen", fmt.Sprintf("%s: the contents of %s changed (version %d -> %d) while a frozen reader is open", c.name, fr.f, fr.ver, fr.f.ver()))
		return
	}
	if t.Bool(1, 4) {
		if n, err := fr.rd.Len(); err != nil || int(n) != len(want) {
			w.violate("C16/frozen-read", fmt.Sprintf("%s: frozen reader of %s reports length %d/%v, want %d", c.name, fr.f, n, err, len(want)))
		}
		return
	}
	if len(want) == 0 {
		return
	}
	off := t.Choice(len(want))
	buf := make([]byte, 1+t.Choice(len(want)-off))
	n, err := fr.rd.ReadAt(buf, int64(off))
	if (err != nil && err != io.EOF) || n != len(buf) || !bytes.Equal(buf, want[off:off+n]) {
		w.violate("C16/frozen-read", fmt.Sprintf("%s: frozen reader of %s returned %q/%v at %d, want %q", c.name, fr.f, buf[:n], err, off, want[off:off+len(buf)]))
	}
	w.k.Probe("frozen-read")
}

func (c *c16client) closeFrozen(i int) {
	w := c.w
	fr := c.frozen[i]
	c.frozen = append(c.frozen[:i:i], c.frozen[i+1:]...)
	c.logf("close frozen reader of %s", fr.f)
	if fr.f.ver() != fr.ver {
		w.violate("C16/mutated-while-frozen", fmt.Sprintf("%s: the contents of %s changed (version %d -> %d) while a frozen reader was open", c.name, fr.f, fr.ver, fr.f.ver()))
	}
	fr.f.frozenActive--
	w.beginRel(fr.f, false, 1)
	fr.rd.Close()
	w.endRel(fr.f, false, 1, 1)
}

func (c *c16client) stat() {
	w := c.w
	f := c.anyFile()
	fn := pick(w.t, digestFns)
	from := f.ver()
	pl := c.planReadFault()
	a := w.beginAcq(f, false)
	p := virtual.ApplyGetBazelOutputServiceStat{DigestFunction: &fn}
	armed := pl.failRead
	if !f.leaf.VirtualApply(&p) {
		harness("leaf does not handle ApplyGetBazelOutputServiceStat")
	}
	readFault := consumed(armed, &pl.failRead)
	w.endAcq(a, 0)
	if p.Err != nil {
		switch {
		case readFault:
		case status.Code(p.Err) == codes.NotFound && a.maybeDead:
			w.staleOps++
			w.k.Probe("stat-stale")
		default:
			w.violate("C16/spurious-stale", fmt.Sprintf("%s: stat of %s failed although it was referenced throughout the call: %v", c.name, f, p.Err))
		}
		return
	}
	if a.surelyDead {
		w.violate("C16/dead-file-revived", fmt.Sprintf("%s: stat succeeded although %s had lost its last reference before the call", c.name, f))
		return
	}
	loc := p.Stat.GetFile().GetLocator()
	if loc == nil {
		w.k.Probe("stat-without-digest")
		return
	}
	var fl bazeloutputservicerev2.FileArtifactLocator
	if err := loc.UnmarshalTo(&fl); err != nil {
		w.violate("C16/upload-stale-digest", fmt.Sprintf("%s: stat of %s returned an unreadable locator: %v", c.name, f, err))
		return
	}
	dg, err := fn.NewDigestFromProto(fl.Digest)
	if err != nil || !digestInWindow(f, from, fn, dg) {
		w.violate("C16/upload-stale-digest", fmt.Sprintf("%s: stat of %s reported digest %v (%v), which is not the digest of any contents the file had during the call (versions %d..%d, latest %q)", c.name, f, fl.Digest, err, from, f.ver(), f.cur()))
		return
	}
	w.k.Probe("stat-digest-checked")
}

// persist asks a file to describe itself for the output path persistency
// state file (what bb_clientd does for every file when a build ends, while
// other threads may still be using the file): a file whose digest is known is
// listed with that digest, any other file is left out. The call must return
// whatever else is going on, and a digest it reports must be the digest of
// contents the file had during the call.
func (c *c16client) persist() {
	w := c.w
	f := c.anyFile()
	from := f.ver()
	p := virtual.ApplyAppendOutputPathPersistencyDirectoryNode{Directory: &outputpathpersistency.Directory{}, Name: path.MustNewComponent("persisted")}
	if !f.leaf.VirtualApply(&p) {
		harness("leaf does not handle ApplyAppendOutputPathPersistencyDirectoryNode")
	}
	if len(p.Directory.Files) == 0 {
		w.k.Probe("persist-without-digest")
		return
	}
	got := p.Directory.Files[0].Digest
	for v := from; v <= f.ver(); v++ {
		for _, fn := range digestFns {
			if want := digestOf(fn, f.versions[v]).GetProto(); want.Hash == got.GetHash() && want.SizeBytes == got.GetSizeBytes() {
				w.k.Probe("persist-digest-checked")
				return
			}
		}
	}
	w.violate("C16/upload-stale-digest", fmt.Sprintf("%s: the persistency entry of %s carries digest %v, which is not the digest of any contents the file had during the call (versions %d..%d, latest %q)", c.name, f, got, from, f.ver(), f.cur()))
}

// ---------------------------------------------------------------------------
// Controller
// ---------------------------------------------------------------------------

func (w *c16) events() []simsync.Event {
	var evs []simsync.Event
	for _, d := range w.delays {
		if d.closed {
			continue
		}
		a := w.k.Actor(d.owner)
		if a == nil || !a.Blocked() {
			continue
		}
		d := d
		weight := w.delayWeight
		if w.stopping {
			weight = 100
		}
		if !d.waited {
			d.waited = true
			w.k.Probe("upload-waits-for-writers")
		}
		evs = append(evs, simsync.Event{Key: "expire-delay " + d.owner, Weight: weight, Fire: func() {
			d.closed = true
			close(d.ch)
			w.k.FaultsFired["writable-file-delay-expired"]++
		}})
	}
	return evs
}

func (w *c16) allDone() bool {
	for _, c := range w.clients {
		if !c.actor.Done() {
			return false
		}
	}
	return true
}

func (w *c16) run() {
	t := w.t
	k := w.k
	nc := 2 + t.Choice(3)
	for i := 0; i < nc; i++ {
		c := &c16client{w: w, idx: i, name: fmt.Sprintf("client%d", i)}
		c.actor = k.Spawn(c.name, c.loop)
		w.clients = append(w.clients, c)
	}
	k.AddSource(w.events)
	budget := 200 + 100*t.Choice(6)
	if w.r.Tier == "thorough" {
		budget *= 2
	}
	k.Run(budget)
	if k.Failed() {
		return
	}
	// Drain: no new operations, no faults, every delay expires, every
	// client closes what it holds.
	k.Note("drain")
	k.FaultsOn = false
	w.stopping = true
	for i := 0; i < 40 && !w.allDone(); i++ {
		k.Run(50)
		if k.Failed() {
			return
		}
	}
	lockWaiters, blocked, parked := k.Stuck()
	if len(lockWaiters)+len(blocked)+len(parked) > 0 {
		w.violate("C16/call-never-returned", fmt.Sprintf("after every delay expired and every client closed what it could, these calls have still not returned: lock-waiters=%v blocked=%v parked=%v held-locks=%v", lockWaiters, blocked, parked, k.HeldLocks()))
		return
	}
	if held := k.HeldLocks(); len(held) > 0 {
		w.violate("C16/lock-held-at-idle", fmt.Sprintf("all calls returned but locks are still held: %v", held))
		return
	}
	w.finalChecks()
}

func (w *c16) finalChecks() {
	for _, f := range w.files {
		if f.acquiring != 0 || f.releasing != 0 || f.frozenActive != 0 || f.held != f.links {
			harness("model of %s not quiescent at the end: %s", f, f.counts())
		}
		if f.pf.closed != (f.held == 0) {
			w.violate("C16/not-released", fmt.Sprintf("at the end %s: %s", f, f.counts()))
			return
		}
	}
	// The worker cleans the build directory: every remaining file loses
	// its directory entries.
	w.cleaning = true
	if err := w.root.RemoveAllChildren(true); err != nil {
		w.violate("C16/unexpected-status", fmt.Sprintf("RemoveAllChildren: %v", err))
		return
	}
	for _, f := range w.files {
		if !f.pf.closed || f.pf.closeCount != 1 {
			w.violate("C16/not-released", fmt.Sprintf("after the build directory was emptied %s still holds its pool file (closed=%v, Close calls=%d)", f, f.pf.closed, f.pf.closeCount))
			return
		}
		if w.nfs != nil {
			if _, s := w.nfs.ResolveHandle(bytes.NewBuffer(append([]byte(nil), f.fh...))); s != virtual.StatusErrStale {
				w.violate("C16/handle-resolution", fmt.Sprintf("after the build directory was emptied the handle of %s still resolves (status %d)", f, s))
				return
			}
		}
	}
	if w.pool.open != 0 {
		w.violate("C16/not-released", fmt.Sprintf("%d pool files remain open at the end", w.pool.open))
	}
}

func (w *c16) finish() {
	r := w.r
	r.Count("files_created", len(w.files))
	r.Count("files_released_during_run", w.released)
	r.Count("uploads_ok", w.uploadsOK)
	r.Count("uploads_failed", w.uploadsFailed)
	r.Count("stale_operations", w.staleOps)
	r.Count("overlapping_reference_operations", w.overlaps)
	r.Count("cas_puts", len(w.cas.puts))
	r.Count("errors_logged", w.logger.n)
	versions := 0
	for _, f := range w.files {
		versions += len(f.versions)
	}
	r.Count("content_versions", versions)
	r.State(fmt.Sprintf("files=%d released=%d uploads=%d stale=%d", len(w.files), w.released, min(w.uploadsOK, 3), min(w.staleOps, 3)))
	r.NonTrivial = w.uploadsOK > 0 && w.released > 0 && w.k.MaxParked >= 2
}

// WorldC16 is the entry point for property C16.
// WorldC14 runs the C16 histories on behalf of C14 (no lock left behind, every
// call returns) for the pool-backed file allocator.
func WorldC14() simrun.World {
	return func(r *simrun.Run) {
		w := newC16(r)
		w.c14 = true
		w.run()
		r.SimTime = 0
		w.finish()
	}
}

func WorldC16() simrun.World {
	return func(r *simrun.Run) {
		w := newC16(r)
		w.run()
		r.SimTime = 0
		w.finish()
	}
}

package w10

import (
	"bytes"
	"fmt"

	"github.com/buildbarn/bb-remote-execution/pkg/builder"
	"github.com/buildbarn/bb-remote-execution/pkg/filesystem/virtual"
	"github.com/buildbarn/bb-remote-execution/pkg/verifsim/simsync"
	"github.com/buildbarn/bb-storage/pkg/filesystem"
	"github.com/buildbarn/bb-storage/pkg/filesystem/path"
)

// walker is an actor exploring (and, for the owner, editing) one action's
// input root.
type walker struct {
	w     *c17
	a     *action
	name  string
	owner bool
	actor *simsync.Actor
}

type cursor struct {
	m    *mnode
	d    virtual.PrepopulatedDirectory
	path string
}

func (x *walker) logf(format string, args ...interface{}) {
	msg := fmt.Sprintf("%s: "+format, append([]interface{}{x.name}, args...)...)
	x.w.r.Logf("%s", msg)
	x.w.k.Annotate("%s", msg)
}

func (x *walker) pre() { x.w.faulted[x.name] = false }

// judge classifies the outcome of a call that needs the contents of the
// directory dirNode. It returns true if the call succeeded as it had to.
func (x *walker) judge(where string, dirNode *mnode, failed bool, detail string) bool {
	w := x.w
	if dirNode.broken != "" {
		if !failed {
			w.violate("C17/malformed-accepted", fmt.Sprintf("%s: %s succeeded although the directory is dir#%d, which cannot be loaded (%s): %s", x.name, where, dirNode.dagID, dirNode.broken, detail))
			return false
		}
		w.brokenSeen++
		w.k.Probe("unloadable-directory-reported-as-error")
		w.k.Annotate("%s: %s failed as it must (dir#%d: %s): %s", x.name, where, dirNode.dagID, dirNode.broken, detail)
		return false
	}
	if failed {
		if w.faulted[x.name] {
			w.k.Annotate("%s: %s failed because of the injected fault: %s", x.name, where, detail)
			w.faulted[x.name] = false
			w.faultedOps++
			dirNode.faultedOnce = true
			w.k.Probe("storage-fault-surfaced-as-error")
			return false
		}
		w.violate("C17/unexpected-error", fmt.Sprintf("%s: %s failed on a well-formed directory without any injected fault: %s", x.name, where, detail))
		return false
	}
	if !dirNode.loaded {
		dirNode.loaded = true
		w.dirsLoaded++
		if dirNode.faultedOnce {
			w.k.Probe("retry-after-fault-succeeded")
		}
		w.visitedDag[dirNode.dagID]++
		if w.visitedDag[dirNode.dagID] == 2 {
			w.k.Probe("shared-subtree-loaded-at-two-places")
		}
		if len(dirNode.children) == 0 {
			w.k.Probe("empty-directory-loaded")
		}
	}
	return true
}

func (x *walker) bdOf(c *cursor) builder.BuildDirectory {
	w := x.w
	return builder.NewVirtualBuildDirectory(c.d, w.fetcher, w.cas, w.symlinks, nil, w.ha, noDefaultAttributes, w.clock)
}

func childDirs(n *mnode) []string {
	var out []string
	for _, name := range n.names() {
		if n.children[name].kind == mDir {
			out = append(out, name)
		}
	}
	return out
}

func childrenOfKind(n *mnode, kinds ...mkind) []string {
	var out []string
	for _, name := range n.names() {
		for _, k := range kinds {
			if n.children[name].kind == k {
				out = append(out, name)
			}
		}
	}
	return out
}

// descend walks from the action's root along a drawn path and returns the
// directory reached (nil if a call on the way failed).
func (x *walker) descend(maxDepth int) *cursor {
	w := x.w
	t := w.t
	cur := &cursor{m: x.a.model, d: x.a.dir, path: x.a.name}
	depth := t.Choice(maxDepth + 1)
	for i := 0; i < depth; i++ {
		if cur.m.broken != "" {
			break
		}
		dirs := childDirs(cur.m)
		if len(dirs) == 0 {
			break
		}
		name := pick(t, dirs)
		child := cur.m.children[name]
		where := fmt.Sprintf("lookup of %s/%s", cur.path, name)
		var d virtual.PrepopulatedDirectory
		x.pre()
		if t.Bool(1, 2) {
			var attrs virtual.Attributes
			dc, s := cur.d.VirtualLookup(bg, comp(name), w.lookupMask(t.Bool(1, 3)), &attrs)
			if !x.judge(where, cur.m, s != virtual.StatusOK, fmt.Sprintf("status %d", s)) {
				return nil
			}
			vd, _ := dc.GetPair()
			w.checkNode(x.name, where, child, vd != nil, &attrs)
			if vd == nil {
				return nil
			}
			d = vd.(virtual.PrepopulatedDirectory)
		} else {
			pc, err := cur.d.LookupChild(comp(name))
			if !x.judge(where, cur.m, err != nil, fmt.Sprint(err)) {
				return nil
			}
			pd, _ := pc.GetPair()
			if pd == nil {
				w.violate("C17/tree-mismatch", fmt.Sprintf("%s: %s: expected %s, found a non-directory", x.name, where, describeNode(child)))
				return nil
			}
			d = pd
		}
		cur = &cursor{m: child, d: d, path: cur.path + "/" + name}
		if i >= 2 {
			w.k.Probe("depth-3-or-more")
		}
	}
	return cur
}

// --- exploration ---------------------------------------------------------------

func (x *walker) explore() {
	w := x.w
	t := w.t
	a := x.a
	a.lockShared(true)
	defer a.unlockShared()
	if !a.merged {
		return
	}
	cur := x.descend(5)
	if cur == nil {
		return
	}
	op := t.Weighted([]int{5, 3, 2, 5, 5, 4, 3})
	x.w.k.Annotate("%s: at %s (%s): %s", x.name, cur.path, describeNode(cur.m), [...]string{"VirtualReadDir", "ReadDir", "LookupAllChildren", "lookup one name", "read a file", "try to alter an input file", "worker-side call"}[op])
	switch op {
	case 0:
		x.virtualReadDir(cur)
	case 1:
		x.prepopReadDir(cur)
	case 2:
		x.lookupAll(cur)
	case 3:
		x.lookupOne(cur)
	case 4:
		x.readFile(cur)
	case 5:
		x.mutateAttempt(cur)
	case 6:
		x.workerSide(cur)
	}
}

func (x *walker) compareNames(where string, cur *cursor, got map[string]bool) bool {
	w := x.w
	want := map[string]bool{}
	for name := range cur.m.children {
		want[name] = true
	}
	a, b := sortedNames(want), sortedNames(got)
	if fmt.Sprint(a) != fmt.Sprint(b) {
		w.violate("C17/tree-mismatch", fmt.Sprintf("%s: %s lists %q, expected %q", x.name, where, b, a))
		return false
	}
	return true
}

func (x *walker) virtualReadDir(cur *cursor) {
	w := x.w
	t := w.t
	where := "VirtualReadDir of " + cur.path
	mask := w.lookupMask(t.Bool(1, 3))
	col := &collector{limit: t.Choice(3)}
	x.pre()
	s := cur.d.VirtualReadDir(bg, 0, mask, col)
	if !x.judge(where, cur.m, s != virtual.StatusOK, fmt.Sprintf("status %d", s)) {
		return
	}
	if col.limit > 0 && len(col.entries) == col.limit {
		// Resume after the last entry reported.
		rest := &collector{}
		if s := cur.d.VirtualReadDir(bg, col.entries[len(col.entries)-1].next, mask, rest); s != virtual.StatusOK {
			x.judge(where, cur.m, true, fmt.Sprintf("status %d on the second page", s))
			return
		}
		col.entries = append(col.entries, rest.entries...)
		w.k.Probe("paged-listing")
	}
	got := map[string]bool{}
	for _, e := range col.entries {
		if got[e.name] {
			w.violate("C17/tree-mismatch", fmt.Sprintf("%s: %s reports %q twice", x.name, where, e.name))
			return
		}
		got[e.name] = true
	}
	if !x.compareNames(where, cur, got) {
		return
	}
	for _, e := range col.entries {
		d, _ := e.child.GetPair()
		attrs := e.attrs
		w.checkNode(x.name, where+" entry "+e.name, cur.m.children[e.name], d != nil, &attrs)
	}
	w.k.Probe("directory-listing-checked")
}

func (x *walker) prepopReadDir(cur *cursor) {
	w := x.w
	where := "ReadDir of " + cur.path
	x.pre()
	infos, err := cur.d.ReadDir()
	if !x.judge(where, cur.m, err != nil, fmt.Sprint(err)) {
		return
	}
	got := map[string]bool{}
	for _, fi := range infos {
		got[fi.Name().String()] = true
	}
	if !x.compareNames(where, cur, got) {
		return
	}
	for i := range infos {
		x.checkFileInfo(where, cur.m.children[infos[i].Name().String()], &infos[i])
	}
	w.k.Probe("directory-listing-checked")
}

func (x *walker) checkFileInfo(where string, n *mnode, fi *filesystem.FileInfo) {
	w := x.w
	w.checks++
	want := filesystem.FileTypeRegularFile
	switch n.kind {
	case mDir:
		want = filesystem.FileTypeDirectory
	case mSymlink:
		want = filesystem.FileTypeSymlink
	}
	if fi.Type() != want || (n.kind == mCAS && fi.IsExecutable() != n.exec) {
		w.violate("C17/tree-mismatch", fmt.Sprintf("%s: %s entry %s: expected %s, found type %d executable=%v", x.name, where, fi.Name(), describeNode(n), fi.Type(), fi.IsExecutable()))
	}
}

func (x *walker) lookupAll(cur *cursor) {
	w := x.w
	where := "LookupAllChildren of " + cur.path
	x.pre()
	dirs, leaves, err := cur.d.LookupAllChildren()
	if !x.judge(where, cur.m, err != nil, fmt.Sprint(err)) {
		return
	}
	got := map[string]bool{}
	for _, d := range dirs {
		got[d.Name.String()] = true
		if n := cur.m.children[d.Name.String()]; n != nil && n.kind != mDir {
			w.violate("C17/tree-mismatch", fmt.Sprintf("%s: %s reports %s as a directory, expected %s", x.name, where, d.Name, describeNode(n)))
			return
		}
	}
	for _, l := range leaves {
		got[l.Name.String()] = true
		if n := cur.m.children[l.Name.String()]; n != nil && n.kind == mDir {
			w.violate("C17/tree-mismatch", fmt.Sprintf("%s: %s reports %s as a leaf, expected %s", x.name, where, l.Name, describeNode(n)))
			return
		}
	}
	x.compareNames(where, cur, got)
}

var absentNames = []string{"absent", "A", "x.TXT"}

func (x *walker) lookupOne(cur *cursor) {
	w := x.w
	t := w.t
	names := append(cur.m.names(), pick(t, absentNames))
	name := pick(t, names)
	n := cur.m.children[name]
	where := fmt.Sprintf("lookup of %s/%s", cur.path, name)
	var attrs virtual.Attributes
	x.pre()
	dc, s := cur.d.VirtualLookup(bg, comp(name), w.lookupMask(t.Bool(1, 3)), &attrs)
	if n == nil {
		if !x.judge(where, cur.m, s != virtual.StatusOK && s != virtual.StatusErrNoEnt, fmt.Sprintf("status %d", s)) {
			return
		}
		if s != virtual.StatusErrNoEnt {
			w.violate("C17/tree-mismatch", fmt.Sprintf("%s: %s found something, but the tree has no such entry", x.name, where))
		}
		return
	}
	if !x.judge(where, cur.m, s != virtual.StatusOK, fmt.Sprintf("status %d", s)) {
		return
	}
	d, _ := dc.GetPair()
	w.checkNode(x.name, where, n, d != nil, &attrs)
}

func (x *walker) readFile(cur *cursor) {
	w := x.w
	t := w.t
	files := childrenOfKind(cur.m, mCAS, mLocal)
	if cur.m.broken == "" && len(files) == 0 {
		return
	}
	name := "a"
	if len(files) > 0 {
		name = pick(t, files)
	}
	n := cur.m.children[name]
	where := fmt.Sprintf("open of %s/%s", cur.path, name)
	var attrs virtual.Attributes
	x.pre()
	leaf, _, _, s := cur.d.VirtualOpenChild(bg, comp(name), maskR, nil, &virtual.OpenExistingOptions{}, virtual.AttributesMaskSizeBytes, &attrs)
	if !x.judge(where, cur.m, s != virtual.StatusOK, fmt.Sprintf("status %d", s)) {
		return
	}
	x.verifyContents(fmt.Sprintf("%s/%s", cur.path, name), n, leaf, pick(t, []int{64, 7, 1}))
	leaf.VirtualClose(maskR)
}

// verifyContents reads a regular file and compares with the model.
func (x *walker) verifyContents(where string, n *mnode, leaf virtual.Leaf, piece int) {
	w := x.w
	want := n.content
	if n.kind == mCAS {
		want = n.blob.data
	}
	x.pre()
	got, s := readLeaf(leaf, len(want), piece)
	if s != virtual.StatusOK {
		if w.faulted[x.name] {
			w.faulted[x.name] = false
			w.faultedOps++
			w.k.Probe("storage-fault-surfaced-as-error")
			return
		}
		w.violate("C17/unexpected-error", fmt.Sprintf("%s: reading %s (%s) failed with status %d without an injected fault", x.name, where, describeNode(n), s))
		return
	}
	if !bytes.Equal(got, want) {
		w.violate("C17/content-mismatch", fmt.Sprintf("%s: %s (%s) reads as %q, expected %q", x.name, where, describeNode(n), got, want))
		return
	}
	w.fileReads++
	w.k.Probe("file-contents-checked")
}

// mutateAttempt tries every way of altering a CAS-backed file. All must be
// refused, and the bytes must be unchanged afterwards.
func (x *walker) mutateAttempt(cur *cursor) {
	w := x.w
	t := w.t
	files := childrenOfKind(cur.m, mCAS)
	if cur.m.broken != "" || len(files) == 0 {
		return
	}
	name := pick(t, files)
	n := cur.m.children[name]
	where := fmt.Sprintf("%s/%s", cur.path, name)
	var attrs virtual.Attributes
	x.pre()
	dc, s := cur.d.VirtualLookup(bg, comp(name), w.lookupMask(false), &attrs)
	if !x.judge("lookup of "+where, cur.m, s != virtual.StatusOK, fmt.Sprintf("status %d", s)) {
		return
	}
	_, leaf := dc.GetPair()
	if leaf == nil {
		w.violate("C17/tree-mismatch", fmt.Sprintf("%s: %s: expected %s, found a directory", x.name, where, describeNode(n)))
		return
	}
	puts := len(w.cas.puts)
	var what string
	var st virtual.Status
	var out virtual.Attributes
	switch t.Choice(8) {
	case 0:
		what = "open for writing"
		st = leaf.VirtualOpenSelf(bg, maskW, &virtual.OpenExistingOptions{}, 0, &out)
	case 1:
		what = "open for reading and writing"
		st = leaf.VirtualOpenSelf(bg, maskRW, &virtual.OpenExistingOptions{}, 0, &out)
	case 2:
		what = "open for reading with truncation"
		st = leaf.VirtualOpenSelf(bg, maskR, &virtual.OpenExistingOptions{Truncate: true}, 0, &out)
	case 3:
		what = "open by name for writing"
		_, _, _, st = cur.d.VirtualOpenChild(bg, comp(name), maskW, nil, &virtual.OpenExistingOptions{}, 0, &out)
	case 4:
		what = "open by name (create or truncate)"
		var create virtual.Attributes
		create.SetPermissions(virtual.PermissionsRead | virtual.PermissionsWrite)
		_, _, _, st = cur.d.VirtualOpenChild(bg, comp(name), maskR, &create, &virtual.OpenExistingOptions{Truncate: true}, 0, &out)
	case 5:
		what = "truncate to zero"
		var in virtual.Attributes
		in.SetSizeBytes(0)
		st = leaf.VirtualSetAttributes(bg, &in, virtual.AttributesMaskSizeBytes, &out)
	case 6:
		what = "extend"
		var in virtual.Attributes
		in.SetSizeBytes(uint64(len(n.blob.data) + 10))
		st = leaf.VirtualSetAttributes(bg, &in, virtual.AttributesMaskSizeBytes, &out)
	case 7:
		what = "allocate"
		st = leaf.VirtualAllocate(bg, 0, uint64(len(n.blob.data)+4))
	}
	x.logf("attempt to %s %s -> status %d", what, where, st)
	if st == virtual.StatusOK {
		w.violate("C17/input-file-mutable", fmt.Sprintf("%s: attempt to %s the input file %s (%s) was not refused", x.name, what, where, describeNode(n)))
		return
	}
	w.refused++
	w.k.Probe("input-file-mutation-refused")
	if len(w.cas.puts) != puts {
		w.violate("C17/cas-input-altered", fmt.Sprintf("%s: attempt to %s %s made the CAS receive a Put", x.name, what, where))
		return
	}
	if !bytes.Equal(w.cas.blobs[casKey(n.blob.digest)], n.blob.data) {
		w.violate("C17/cas-input-altered", fmt.Sprintf("%s: after the attempt to %s %s the CAS holds different bytes for blob%d", x.name, what, where, n.blob.id))
		return
	}
	// The bytes seen through the file system are unchanged.
	if s := leaf.VirtualOpenSelf(bg, maskR, &virtual.OpenExistingOptions{}, 0, &out); s != virtual.StatusOK {
		w.violate("C17/unexpected-error", fmt.Sprintf("%s: opening the input file %s for reading failed with status %d", x.name, where, s))
		return
	}
	x.verifyContents(where, n, leaf, 64)
	leaf.VirtualClose(maskR)
}

// workerSide uses the calls bb_worker itself makes on a build directory.
func (x *walker) workerSide(cur *cursor) {
	w := x.w
	t := w.t
	names := cur.m.names()
	if cur.m.broken == "" && len(names) == 0 {
		return
	}
	name := "a"
	if len(names) > 0 {
		name = pick(t, names)
	}
	n := cur.m.children[name]
	bd := x.bdOf(cur)
	where := fmt.Sprintf("%s/%s", cur.path, name)
	x.pre()
	switch {
	case n != nil && n.kind == mSymlink && t.Bool(1, 2):
		tp, err := bd.Readlink(comp(name))
		if !x.judge("Readlink of "+where, cur.m, err != nil, fmt.Sprint(err)) {
			return
		}
		if got, err := parserString(tp); err != nil || got != expectedTarget(n.target) {
			w.violate("C17/tree-mismatch", fmt.Sprintf("%s: Readlink of %s returned %q (%v), expected %q", x.name, where, got, err, n.target))
		}
		w.checks++
	case n != nil && n.kind == mCAS && t.Bool(1, 2):
		puts := len(w.cas.puts)
		dg, err := bd.UploadFile(bg, comp(name), c17fn, nil)
		if !x.judge("UploadFile of "+where, cur.m, err != nil, fmt.Sprint(err)) {
			return
		}
		if dg != n.blob.digest || len(w.cas.puts) != puts {
			w.violate("C17/tree-mismatch", fmt.Sprintf("%s: UploadFile of the input file %s returned %s (Puts: %d), expected its own digest %s and no upload", x.name, where, dg, len(w.cas.puts)-puts, n.blob.digest))
		}
		w.checks++
	default:
		fi, err := bd.Lstat(comp(name))
		if !x.judge("Lstat of "+where, cur.m, err != nil, fmt.Sprint(err)) {
			return
		}
		x.checkFileInfo("Lstat of "+where, n, &fi)
	}
}

// --- local edits (owner only) ----------------------------------------------------

var freshNames = []string{"new1", "new2", "a", "b", "c", "lib"}

func freshName(t *simsync.Tape, n *mnode) (string, bool) {
	for try := 0; try < 4; try++ {
		name := pick(t, freshNames)
		if n.children[name] == nil {
			return name, true
		}
	}
	return "", false
}

// editResult judges a local modification that needs the contents of parent
// (and, for rmdir, of child) and is expected to succeed otherwise.
func (x *walker) editResult(what string, failed bool, detail string, needs ...*mnode) bool {
	w := x.w
	for _, n := range needs {
		if n.broken != "" {
			return x.judge(what, n, failed, detail)
		}
	}
	if failed {
		if w.faulted[x.name] {
			w.faulted[x.name] = false
			w.faultedOps++
			for _, n := range needs {
				n.faultedOnce = true
			}
			w.k.Probe("storage-fault-surfaced-as-error")
			return false
		}
		w.violate("C17/local-edit-failed", fmt.Sprintf("%s: %s failed without an injected fault: %s", x.name, what, detail))
		return false
	}
	for _, n := range needs {
		x.judge(what, n, false, detail)
	}
	w.edits++
	return true
}

func (x *walker) edit() {
	w := x.w
	t := w.t
	a := x.a
	a.lockExclusive()
	defer a.unlockExclusive()
	cur := x.descend(3)
	if cur == nil {
		return
	}
	m := cur.m
	leaves := childrenOfKind(m, mCAS, mSymlink, mLocal)
	switch t.Weighted([]int{4, 2, 3, 4, 3, 3, 2, 2, 2}) {
	case 0: // remove a leaf
		if len(leaves) == 0 {
			return
		}
		name := pick(t, leaves)
		what := fmt.Sprintf("remove %s/%s", cur.path, name)
		x.logf("%s", what)
		x.pre()
		var failed bool
		var detail string
		if t.Bool(1, 2) {
			_, s := cur.d.VirtualRemove(bg, comp(name), false, true)
			failed, detail = s != virtual.StatusOK, fmt.Sprintf("status %d", s)
		} else {
			err := cur.d.Remove(comp(name))
			failed, detail = err != nil, fmt.Sprint(err)
		}
		if x.editResult(what, failed, detail, m) {
			delete(m.children, name)
			w.k.Probe("edit-removed-leaf")
		}
	case 1: // rmdir of an empty directory
		var empties []string
		for _, name := range childDirs(m) {
			if c := m.children[name]; len(c.children) == 0 {
				empties = append(empties, name)
			}
		}
		if len(empties) == 0 {
			return
		}
		name := pick(t, empties)
		child := m.children[name]
		what := fmt.Sprintf("rmdir %s/%s", cur.path, name)
		x.logf("%s (%s)", what, describeNode(child))
		x.pre()
		_, s := cur.d.VirtualRemove(bg, comp(name), true, false)
		if x.editResult(what, s != virtual.StatusOK, fmt.Sprintf("status %d", s), m, child) {
			delete(m.children, name)
			child.removed = true
			w.k.Probe("edit-removed-directory")
		}
	case 2: // recursive removal of anything
		names := m.names()
		if len(names) == 0 {
			return
		}
		name := pick(t, names)
		what := fmt.Sprintf("RemoveAll %s/%s", cur.path, name)
		x.logf("%s (%s)", what, describeNode(m.children[name]))
		x.pre()
		err := cur.d.RemoveAll(comp(name))
		if x.editResult(what, err != nil, fmt.Sprint(err), m) {
			m.children[name].removed = true
			delete(m.children, name)
			w.k.Probe("edit-removed-subtree")
		}
	case 3: // create a local file
		name, ok := freshName(t, m)
		if !ok {
			return
		}
		w.seq++
		content := []byte(fmt.Sprintf("local-%d", w.seq))
		what := fmt.Sprintf("create %s/%s", cur.path, name)
		x.logf("%s", what)
		var create, out virtual.Attributes
		create.SetPermissions(virtual.PermissionsRead | virtual.PermissionsWrite)
		x.pre()
		leaf, _, _, s := cur.d.VirtualOpenChild(bg, comp(name), maskW, &create, nil, 0, &out)
		if !x.editResult(what, s != virtual.StatusOK, fmt.Sprintf("status %d", s), m) {
			return
		}
		if n, s := leaf.VirtualWrite(bg, content, 0); s != virtual.StatusOK || n != len(content) {
			w.violate("C17/local-edit-failed", fmt.Sprintf("%s: writing the new file %s/%s returned n=%d status %d", x.name, cur.path, name, n, s))
		}
		leaf.VirtualClose(maskW)
		m.children[name] = &mnode{kind: mLocal, content: content}
		w.k.Probe("edit-created-file")
	case 4: // rename a leaf over another leaf (replace)
		if len(leaves) < 2 {
			return
		}
		from := pick(t, leaves)
		to := pick(t, leaves)
		if from == to {
			return
		}
		what := fmt.Sprintf("rename %s/%s over %s", cur.path, from, to)
		x.logf("%s (%s over %s)", what, describeNode(m.children[from]), describeNode(m.children[to]))
		x.pre()
		_, _, s := cur.d.VirtualRename(bg, comp(from), cur.d, comp(to))
		if x.editResult(what, s != virtual.StatusOK, fmt.Sprintf("status %d", s), m) {
			if sameIdentity(m.children[from], m.children[to], w.nfs()) {
				w.k.Probe("edit-rename-onto-same-object")
			} else {
				m.children[to] = m.children[from]
				delete(m.children, from)
				w.k.Probe("edit-replaced-leaf")
			}
		}
	case 5: // rename anything to a fresh name, here or in the input root
		names := m.names()
		if len(names) == 0 {
			return
		}
		from := pick(t, names)
		target, tpath := m, cur
		if t.Bool(1, 3) {
			target, tpath = a.model, &cursor{m: a.model, d: a.dir, path: a.name}
		}
		to, ok := freshName(t, target)
		if !ok {
			return
		}
		what := fmt.Sprintf("rename %s/%s to %s/%s", cur.path, from, tpath.path, to)
		x.logf("%s (%s)", what, describeNode(m.children[from]))
		x.pre()
		_, _, s := cur.d.VirtualRename(bg, comp(from), tpath.d, comp(to))
		if x.editResult(what, s != virtual.StatusOK, fmt.Sprintf("status %d", s), m, target) {
			n := m.children[from]
			delete(m.children, from)
			target.children[to] = n
			if n.kind == mDir {
				w.k.Probe("edit-moved-directory")
			} else {
				w.k.Probe("edit-moved-leaf")
			}
		}
	case 6: // mkdir
		name, ok := freshName(t, m)
		if !ok {
			return
		}
		what := fmt.Sprintf("mkdir %s/%s", cur.path, name)
		x.logf("%s", what)
		var create, out virtual.Attributes
		x.pre()
		_, _, s := cur.d.VirtualMkdir(bg, comp(name), &create, 0, &out)
		if x.editResult(what, s != virtual.StatusOK, fmt.Sprintf("status %d", s), m) {
			m.children[name] = &mnode{kind: mDir, children: map[string]*mnode{}, loaded: true, dagID: -1}
		}
	case 7: // hard link to an input file
		files := childrenOfKind(m, mCAS)
		name, ok := freshName(t, m)
		if len(files) == 0 || !ok {
			return
		}
		from := pick(t, files)
		what := fmt.Sprintf("link %s/%s as %s", cur.path, from, name)
		x.logf("%s", what)
		var attrs, out virtual.Attributes
		x.pre()
		dc, s := cur.d.VirtualLookup(bg, comp(from), w.lookupMask(false), &attrs)
		if !x.editResult("lookup for "+what, s != virtual.StatusOK, fmt.Sprintf("status %d", s), m) {
			return
		}
		_, leaf := dc.GetPair()
		_, s = cur.d.VirtualLink(bg, comp(name), leaf, 0, &out)
		if x.editResult(what, s != virtual.StatusOK, fmt.Sprintf("status %d", s), m) {
			m.children[name] = m.children[from]
			w.k.Probe("edit-linked-input-file")
		}
	case 8: // symlink
		name, ok := freshName(t, m)
		if !ok {
			return
		}
		target := pick(t, symlinkTargets)
		what := fmt.Sprintf("symlink %s/%s -> %s", cur.path, name, target)
		x.logf("%s", what)
		var create, out virtual.Attributes
		create.SetFileType(filesystem.FileTypeSymlink)
		create.SetSymlinkTarget(path.UNIXFormat.NewParser(target))
		x.pre()
		_, _, s := cur.d.VirtualMknod(bg, comp(name), &create, 0, &out)
		if x.editResult(what, s != virtual.StatusOK, fmt.Sprintf("status %d", s), m) {
			m.children[name] = &mnode{kind: mSymlink, target: target}
		}
	}
}

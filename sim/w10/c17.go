package w10

// World for property C17: the lazily populated input root presents exactly
// the tree named by the input root digest, malformed directories surface as
// errors, and CAS-backed files cannot be altered.
//
// Real: VirtualBuildDirectory.MergeDirectoryContents, CASInitialContentsFetcher,
// BlobAccessCASFileFactory, StatelessHandleAllocatingCASFileFactory,
// DecomposedDirectoryWalker, BlobAccessDirectoryFetcher, CachingDirectoryFetcher,
// InMemoryPrepopulatedDirectory, handle allocators, symlink factories,
// PoolBackedFileAllocator (for local edits). Stubs: CAS, file pool, clock, RNG.

import (
	"bytes"
	"fmt"
	"sort"

	"github.com/buildbarn/bb-remote-execution/pkg/builder"
	"github.com/buildbarn/bb-remote-execution/pkg/cas"
	"github.com/buildbarn/bb-remote-execution/pkg/filesystem/virtual"
	"github.com/buildbarn/bb-remote-execution/pkg/verifsim/simenv"
	"github.com/buildbarn/bb-remote-execution/pkg/verifsim/simrun"
	"github.com/buildbarn/bb-remote-execution/pkg/verifsim/simsync"
	"github.com/buildbarn/bb-storage/pkg/digest"
	"github.com/buildbarn/bb-storage/pkg/eviction"
	"github.com/buildbarn/bb-storage/pkg/filesystem"
	"github.com/buildbarn/bb-storage/pkg/filesystem/path"
)

type c17 struct {
	base
	clock    *simenv.SimClock
	cas      *fakeCAS
	pool     *simPool
	logger   *recLogger
	nfsAlloc *virtual.NFSStatefulHandleAllocator
	ha       virtual.StatefulHandleAllocator
	fetcher  cas.DirectoryFetcher
	symlinks virtual.SymlinkFactory
	root     virtual.PrepopulatedDirectory
	vbd      builder.BuildDirectory
	g        *dag
	actions  []*action
	actors   []*simsync.Actor
	stopping bool
	maxOps   int
	seq      int
	// naive: the input roots are materialised by NaiveBuildDirectory into
	// an in-memory directory instead of being loaded lazily.
	naive       bool
	nv          *naiveShared
	allowBroken bool
	// NFS file handles of stateless leaves seen anywhere.
	handles map[string]string

	// statistics
	checks, dirsLoaded, brokenSeen, edits, refused, faultedOps, fileReads int
	mergesReturned, mergeErrors                                           int
	visitedDag                                                            map[int]int
}

// action is one build action's input root.
type action struct {
	w       *c17
	idx     int
	name    string
	dir     virtual.PrepopulatedDirectory
	bd      builder.BuildDirectory
	rootDag *dagDir
	model   *mnode
	merged  bool
	naive   *naiveState
	// gate: explorers share, edits are exclusive.
	readers int
	writer  bool
}

func (w *c17) nfs() bool { return w.nfsAlloc != nil }

func newC17(r *simrun.Run, c12 bool) *c17 {
	w := &c17{base: base{r: r, k: r.K, t: r.T, prop: "C17", faulted: map[string]bool{}}, handles: map[string]string{}, visitedDag: map[int]int{}}
	t := w.t
	w.clock = simenv.NewSimClock(w.k, startTime)
	w.cas = newFakeCAS(&w.base)
	w.pool = newSimPool(&w.base)
	w.logger = &recLogger{b: &w.base}
	useNFS := t.Bool(1, 2)
	w.faultFree = t.Bool(1, 3)
	allowBroken := t.Bool(3, 4)
	w.allowBroken = allowBroken
	w.maxOps = 6 + t.Choice(20)
	w.naive = t.Bool(1, 4)
	if c12 {
		// On behalf of C12 only the naive configuration is of interest,
		// with walks that fail while downloads are in flight.
		w.c12 = true
		w.naive = true
		w.allowBroken, allowBroken = true, true
	}

	root, ha, nfs, symlinkFactory := newTree(useNFS, w.clock)
	w.root, w.ha, w.nfsAlloc, w.symlinks = root, ha, nfs, symlinkFactory
	w.fetcher = cas.NewBlobAccessDirectoryFetcher(w.cas, 1<<16, 1<<20)
	cache := t.Choice(3)
	switch cache {
	case 1:
		w.fetcher = cas.NewCachingDirectoryFetcher(w.fetcher, digest.KeyWithoutInstance, 2+t.Choice(3), 1<<20, eviction.NewLRUSet[cas.CachingDirectoryFetcherKey]())
	case 2:
		w.fetcher = cas.NewCachingDirectoryFetcher(w.fetcher, digest.KeyWithoutInstance, 1000, 1<<20, eviction.NewFIFOSet[cas.CachingDirectoryFetcherKey]())
	}
	w.vbd = builder.NewVirtualBuildDirectory(root, w.fetcher, w.cas, symlinkFactory, nil, ha, noDefaultAttributes, w.clock)
	w.vbd.InstallHooks(w.pool, w.logger)
	r.Logf("config: naive=%v handles=%s faultFree=%v brokenAllowed=%v directoryCache=%d maxOps=%d", w.naive, map[bool]string{true: "NFS", false: "FUSE"}[useNFS], w.faultFree, allowBroken, cache, w.maxOps)

	w.g = generateDAG(t, w.cas, allowBroken, c12, r.Logf)
	if w.naive {
		w.setupNaiveShared()
	}
	na := 1 + t.Choice(2)
	for i := 0; i < na; i++ {
		a := &action{w: w, idx: i, name: fmt.Sprintf("action%d", i)}
		// Most of the time the last (largest) directory is the root.
		if t.Bool(2, 3) {
			a.rootDag = w.g.dirs[len(w.g.dirs)-1]
		} else {
			a.rootDag = pick(t, w.g.dirs)
		}
		a.model = &mnode{kind: mDir, children: map[string]*mnode{}}
		w.actions = append(w.actions, a)
		if w.naive {
			w.setupNaive(a)
			continue
		}
		if err := w.vbd.Mkdir(comp(a.name), 0o777); err != nil {
			harness("Mkdir: %v", err)
		}
		bd, err := w.vbd.EnterBuildDirectory(comp(a.name))
		if err != nil {
			harness("EnterBuildDirectory: %v", err)
		}
		child, err := root.LookupChild(comp(a.name))
		if err != nil {
			harness("LookupChild: %v", err)
		}
		a.bd = bd
		a.dir, _ = child.GetPair()
		r.Logf("%s: input root dir#%d %s", a.name, a.rootDag.id, shortDigest(a.rootDag.digest))
	}
	return w
}

// --- gates ----------------------------------------------------------------------

func (a *action) lockShared(needMerged bool) {
	k := a.w.k
	k.SeamWhen("tree-shared "+a.name, func() bool { return !a.writer && (a.merged || !needMerged || a.w.stopping) })
	a.readers++
}

func (a *action) unlockShared() { a.readers-- }

func (a *action) lockExclusive() {
	k := a.w.k
	k.SeamWhen("tree-exclusive "+a.name, func() bool { return !a.writer && a.readers == 0 })
	a.writer = true
}

func (a *action) unlockExclusive() { a.writer = false }

// --- helpers ----------------------------------------------------------------------

func parserString(p path.Parser) (string, error) {
	b, sw := path.EmptyBuilder.Join(path.VoidScopeWalker)
	if err := path.Resolve(p, sw); err != nil {
		return "", err
	}
	return b.GetUNIXString(), nil
}

func expectedTarget(target string) string {
	s, err := parserString(path.UNIXFormat.NewParser(target))
	if err != nil {
		harness("symlink target %q does not resolve: %v", target, err)
	}
	return s
}

func (w *c17) lookupMask(withChangeID bool) virtual.AttributesMask {
	m := virtual.AttributesMaskFileType | virtual.AttributesMaskPermissions | virtual.AttributesMaskSizeBytes | virtual.AttributesMaskSymlinkTarget | virtual.AttributesMaskInodeNumber | virtual.AttributesMaskLinkCount
	if w.nfs() {
		m |= virtual.AttributesMaskFileHandle
	}
	if withChangeID {
		m |= virtual.AttributesMaskChangeID
	}
	return m
}

// checkNode compares what the file system reports for one directory entry
// with the model.
func (w *c17) checkNode(who, where string, n *mnode, isDir bool, attrs *virtual.Attributes) {
	w.checks++
	ft := attrs.GetFileType()
	fail := func(format string, args ...interface{}) {
		w.violate("C17/tree-mismatch", fmt.Sprintf("%s: %s: expected %s, but ", who, where, describeNode(n))+fmt.Sprintf(format, args...))
	}
	switch n.kind {
	case mDir:
		if !isDir || ft != filesystem.FileTypeDirectory {
			fail("found a non-directory (type %d)", ft)
		}
		return
	case mSymlink:
		if isDir || ft != filesystem.FileTypeSymlink {
			fail("found type %d (directory: %v)", ft, isDir)
			return
		}
		tp, ok := attrs.GetSymlinkTarget()
		if !ok {
			fail("no symlink target reported")
			return
		}
		got, err := parserString(tp)
		if err != nil || got != expectedTarget(n.target) {
			fail("found target %q (%v)", got, err)
		}
		w.k.Probe("symlink-target-checked")
	case mCAS, mLocal:
		if isDir || ft != filesystem.FileTypeRegularFile {
			fail("found type %d (directory: %v)", ft, isDir)
			return
		}
		size := uint64(len(n.content))
		if n.kind == mCAS {
			size = uint64(len(n.blob.data))
		}
		if sz, ok := attrs.GetSizeBytes(); !ok || sz != size {
			fail("found size %d", sz)
		}
		if n.kind == mCAS {
			perm, ok := attrs.GetPermissions()
			if !ok || (perm&virtual.PermissionsExecute != 0) != n.exec {
				fail("found permissions %d", perm)
			}
			if n.exec {
				w.k.Probe("executable-file-checked")
			}
		}
	}
	if w.nfs() && (n.kind == mCAS || n.kind == mSymlink) {
		w.handles[string(attrs.GetFileHandle())] = describeNode(n)
	}
}

func describeNode(n *mnode) string {
	if n == nil {
		return "nothing"
	}
	switch n.kind {
	case mDir:
		if n.broken != "" {
			return fmt.Sprintf("directory dir#%d (unloadable: %s)", n.dagID, n.broken)
		}
		return fmt.Sprintf("directory with %d entries %v", len(n.children), n.names())
	case mCAS:
		return fmt.Sprintf("input file blob%d (%d bytes, executable=%v)", n.blob.id, len(n.blob.data), n.exec)
	case mSymlink:
		return fmt.Sprintf("symlink to %q", n.target)
	}
	return fmt.Sprintf("local file %q", n.content)
}

type dirEntry struct {
	name  string
	child virtual.DirectoryChild
	attrs virtual.Attributes
	next  uint64
}

type collector struct {
	entries []dirEntry
	limit   int
}

func (c *collector) ReportEntry(nextCookie uint64, name path.Component, child virtual.DirectoryChild, attributes *virtual.Attributes) bool {
	if c.limit > 0 && len(c.entries) >= c.limit {
		return false
	}
	c.entries = append(c.entries, dirEntry{name: name.String(), child: child, attrs: *attributes, next: nextCookie})
	return true
}

func sortedNames(m map[string]bool) []string {
	out := make([]string, 0, len(m))
	for k := range m {
		out = append(out, k)
	}
	sort.Strings(out)
	return out
}

// readAll reads a leaf's contents through VirtualRead in pieces.
func readLeaf(leaf virtual.Leaf, size int, piece int) ([]byte, virtual.Status) {
	var out []byte
	buf := make([]byte, piece)
	for off := 0; ; {
		n, eof, s := leaf.VirtualRead(bg, buf, uint64(off))
		if s != virtual.StatusOK {
			return out, s
		}
		out = append(out, buf[:n]...)
		off += n
		if eof || n == 0 || off > size+piece {
			return out, virtual.StatusOK
		}
	}
}

// ---------------------------------------------------------------------------
// Actors and controller
// ---------------------------------------------------------------------------

func (x *walker) merge() {
	w := x.w
	a := x.a
	defer func() { a.merged = true }()
	for try := 0; try < 12; try++ {
		if try > 0 {
			w.k.Yield("merge-retry")
		}
		x.pre()
		err := a.bd.MergeDirectoryContents(bg, w.logger, a.rootDag.digest, nil)
		x.logf("MergeDirectoryContents dir#%d -> %v", a.rootDag.id, err)
		if a.rootDag.broken != "" {
			if err == nil {
				w.violate("C17/malformed-accepted", fmt.Sprintf("%s: MergeDirectoryContents succeeded for input root dir#%d, which cannot be loaded (%s)", x.name, a.rootDag.id, a.rootDag.broken))
			} else {
				w.brokenSeen++
				w.k.Probe("unloadable-input-root-rejected")
			}
			return
		}
		if err == nil {
			a.model = expand(a.rootDag)
			a.model.loaded = true
			w.dirsLoaded++
			w.visitedDag[a.rootDag.id]++
			if try > 0 {
				w.k.Probe("retry-after-fault-succeeded")
			}
			return
		}
		if !w.faulted[x.name] {
			w.violate("C17/unexpected-error", fmt.Sprintf("%s: MergeDirectoryContents of the well-formed dir#%d failed without an injected fault: %v", x.name, a.rootDag.id, err))
			return
		}
		w.faultedOps++
		w.k.Probe("storage-fault-surfaced-as-error")
	}
	harness("input root could not be merged in 12 attempts")
}

func (x *walker) loop() {
	w := x.w
	if x.owner {
		x.merge()
	}
	for n := 0; n < w.maxOps; n++ {
		w.k.Yield("next")
		if w.stopping || w.k.Failed() {
			return
		}
		if x.owner && w.t.Bool(1, 3) {
			x.edit()
		} else {
			x.explore()
		}
	}
}

func (w *c17) run() {
	t := w.t
	k := w.k
	for _, a := range w.actions {
		n := 2 + t.Choice(2)
		if w.naive {
			n = 1
		}
		for i := 0; i < n; i++ {
			x := &walker{w: w, a: a, owner: i == 0}
			if x.owner {
				x.name = a.name + "-owner"
			} else {
				x.name = fmt.Sprintf("%s-explorer%d", a.name, i)
			}
			if w.naive {
				x.actor = k.Spawn(x.name, x.naiveLoop)
			} else {
				x.actor = k.Spawn(x.name, x.loop)
			}
			w.actors = append(w.actors, x.actor)
		}
	}
	if w.naive {
		k.AddSource(w.naiveEvents)
	}
	budget := 200 + 100*t.Choice(6)
	if w.r.Tier == "thorough" {
		budget *= 2
	}
	k.Run(budget)
	if k.Failed() {
		return
	}
	k.Note("drain")
	k.FaultsOn = false
	w.stopping = true
	for i := 0; i < 400; i++ {
		done := true
		for _, a := range w.actors {
			if !a.Done() {
				done = false
			}
		}
		if done {
			break
		}
		k.Run(50)
		if k.Failed() {
			return
		}
	}
	lockWaiters, blocked, parked := k.Stuck()
	if len(lockWaiters)+len(blocked)+len(parked) > 0 {
		w.violate("C17/call-never-returned", fmt.Sprintf("with faults off these calls have still not returned: lock-waiters=%v blocked=%v parked=%v held-locks=%v", lockWaiters, blocked, parked, k.HeldLocks()))
		return
	}
	if held := k.HeldLocks(); len(held) > 0 {
		w.violate("C17/lock-held-at-idle", fmt.Sprintf("all calls returned but locks are still held: %v", held))
		return
	}
	w.finalChecks()
}

// finalChecks walks every action's tree completely (fault free): whatever
// was not edited locally must equal the DAG, whatever failed transiently
// before must load now.
func (w *c17) finalChecks() {
	x := &walker{w: w, name: "ctl"}
	if w.naive {
		w.checkCache("at the end")
		for _, b := range w.g.blobs {
			if !bytes.Equal(w.cas.blobs[casKey(b.digest)], b.data) {
				w.violate("C17/cas-input-altered", fmt.Sprintf("blob%d changed in the CAS", b.id))
			}
		}
		return
	}
	for _, a := range w.actions {
		x.a = a
		budget := 60
		queue := []*cursor{{m: a.model, d: a.dir, path: a.name}}
		for len(queue) > 0 && budget > 0 && !w.k.Failed() {
			cur := queue[0]
			queue = queue[1:]
			budget--
			x.virtualReadDir(cur)
			if cur.m.broken != "" || w.k.Failed() {
				continue
			}
			for _, name := range cur.m.names() {
				n := cur.m.children[name]
				switch n.kind {
				case mDir:
					pc, err := cur.d.LookupChild(comp(name))
					if err != nil {
						w.violate("C17/unexpected-error", fmt.Sprintf("final walk: LookupChild %s/%s: %v", cur.path, name, err))
						return
					}
					pd, _ := pc.GetPair()
					if pd == nil {
						w.violate("C17/tree-mismatch", fmt.Sprintf("final walk: %s/%s: expected %s, found a leaf", cur.path, name, describeNode(n)))
						return
					}
					queue = append(queue, &cursor{m: n, d: pd, path: cur.path + "/" + name})
				case mCAS, mLocal:
					var attrs virtual.Attributes
					leaf, _, _, s := cur.d.VirtualOpenChild(bg, comp(name), maskR, nil, &virtual.OpenExistingOptions{}, 0, &attrs)
					if s != virtual.StatusOK {
						w.violate("C17/unexpected-error", fmt.Sprintf("final walk: open of %s/%s (%s) returned status %d", cur.path, name, describeNode(n), s))
						return
					}
					x.verifyContents(cur.path+"/"+name, n, leaf, 64)
					leaf.VirtualClose(maskR)
				}
			}
		}
	}
	if w.k.Failed() {
		return
	}
	// Inputs in the CAS are what they were.
	for _, b := range w.g.blobs {
		if !bytes.Equal(w.cas.blobs[casKey(b.digest)], b.data) {
			w.violate("C17/cas-input-altered", fmt.Sprintf("blob%d changed in the CAS", b.id))
			return
		}
	}
	// The worker cleans up: every leaf that was ever created for these
	// trees must lose its last link, also those created by directory
	// loads that failed half way.
	if err := w.root.RemoveAllChildren(true); err != nil {
		w.violate("C17/unexpected-error", fmt.Sprintf("RemoveAllChildren: %v", err))
		return
	}
	if w.nfs() {
		keys := make([]string, 0, len(w.handles))
		for h := range w.handles {
			keys = append(keys, h)
		}
		sort.Strings(keys)
		for _, h := range keys {
			if _, s := w.nfsAlloc.ResolveHandle(bytes.NewBuffer([]byte(h))); s != virtual.StatusErrStale {
				w.violate("C17/leaf-leaked", fmt.Sprintf("after all trees were removed the file handle of %s still resolves (status %d): a leaf created while loading a directory was never unlinked", w.handles[h], s))
				return
			}
		}
		w.r.Count("handles_checked_stale", len(keys))
	}
	if w.pool.open != 0 {
		w.violate("C17/leaf-leaked", fmt.Sprintf("%d local files remain open after all trees were removed", w.pool.open))
	}
}

func (w *c17) finish() {
	r := w.r
	r.Count("checks", w.checks)
	r.Count("directories_loaded", w.dirsLoaded)
	r.Count("unloadable_directory_errors", w.brokenSeen)
	r.Count("local_edits", w.edits)
	r.Count("mutation_attempts_refused", w.refused)
	r.Count("operations_failed_by_fault", w.faultedOps)
	r.Count("file_reads_checked", w.fileReads)
	r.Count("cas_gets", w.cas.gets)
	r.Count("dag_directories", len(w.g.dirs))
	nbroken := 0
	for _, d := range w.g.dirs {
		if d.broken != "" {
			nbroken++
		}
	}
	r.Count("dag_directories_unloadable", nbroken)
	if w.naive {
		r.Count("naive_runs", 1)
	}
	r.State(fmt.Sprintf("naive=%v dirs=%d broken=%d actions=%d loaded=%d edits=%d", w.naive, len(w.g.dirs), nbroken, len(w.actions), min(w.dirsLoaded, 8), min(w.edits, 4)))
	if w.naive {
		r.Count("naive_merges_returned", w.mergesReturned)
		r.Count("naive_merges_returned_with_error", w.mergeErrors)
	}
	if w.c12 {
		r.NonTrivial = w.k.MaxParked >= 2 && w.mergeErrors > 0 && w.mergesReturned >= 2
		return
	}
	if w.naive {
		r.NonTrivial = w.k.MaxParked >= 2 && (w.dirsLoaded >= 2 && w.checks >= 5 || w.brokenSeen > 0 || w.faultedOps > 0)
		return
	}
	r.NonTrivial = w.dirsLoaded >= 2 && w.checks >= 5 && (w.brokenSeen > 0 || w.edits > 0 || w.faultedOps > 0 || w.refused > 0)
}

// WorldC12 runs the naive input root histories on behalf of C12: when
// MergeDirectoryContents has returned, nothing of it may still be writing
// into the action's build directory.
func WorldC12() simrun.World {
	return func(r *simrun.Run) {
		w := newC17(r, true)
		w.run()
		w.finish()
	}
}

// WorldC17 is the entry point for property C17.
func WorldC17() simrun.World {
	return func(r *simrun.Run) {
		w := newC17(r, false)
		w.run()
		w.finish()
	}
}

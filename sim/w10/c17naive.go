package w10

// Naive configuration of the C17 world: the input root is materialised by
// the real builder.NaiveBuildDirectory.MergeDirectoryContents into an
// in-memory filesystem.Directory (the simulator's, not the host's), through
// the real DirectoryFetcher stack and a fake cas.FileFetcher with fault
// tickets. The errgroup goroutines the real code starts are adopted as actors
// when they first reach one of the fakes.

import (
	"bytes"
	"context"
	"fmt"
	"io"
	"os"
	"runtime"
	"sort"
	"strconv"
	"sync"
	"syscall"
	"time"

	remoteexecution "github.com/bazelbuild/remote-apis/build/bazel/remote/execution/v2"
	"github.com/buildbarn/bb-remote-execution/pkg/builder"
	"github.com/buildbarn/bb-remote-execution/pkg/cas"
	"github.com/buildbarn/bb-remote-execution/pkg/verifsim/simsync"
	"github.com/buildbarn/bb-storage/pkg/digest"
	"github.com/buildbarn/bb-storage/pkg/eviction"
	"github.com/buildbarn/bb-storage/pkg/filesystem"
	"github.com/buildbarn/bb-storage/pkg/filesystem/path"
	"golang.org/x/sync/semaphore"
	"google.golang.org/grpc/codes"
	"google.golang.org/grpc/status"
)

// ---------------------------------------------------------------------------
// In-memory filesystem.Directory
// ---------------------------------------------------------------------------

type memKind int

const (
	memDirectory memKind = iota
	memFile
	memSymlink
)

type memNode struct {
	kind     memKind
	children map[string]*memNode
	data     []byte
	exec     bool
	target   string
	// writable: the permission bits allow writing (honoured by the opens
	// of this fake). nlink: number of directory entries of a file.
	writable bool
	nlink    int
}

// memObserver is told about the events of the hard-link cache.
type memObserver interface {
	observe(event string)
}

type memFS struct {
	mu      *sync.Mutex // shared by all file systems of one world
	root    *memNode
	handles int // directory handles opened and not closed
	cache   bool
	obs     memObserver
}

// memDir is a handle to a directory of a memFS.
type memDir struct {
	fs     *memFS
	node   *memNode
	path   string
	closed bool
}

func newMemFS(mu *sync.Mutex) *memFS {
	return &memFS{mu: mu, root: &memNode{kind: memDirectory, children: map[string]*memNode{}}}
}

func (fs *memFS) observe(event string) {
	if fs.obs != nil {
		fs.obs.observe(event)
	}
}

// asMemDir finds the in-memory directory behind a filesystem.Directory.
func asMemDir(d filesystem.Directory) *memDir {
	switch v := d.(type) {
	case *memDir:
		return v
	case *filesystem.ReferenceCountedDirectoryCloser:
		return asMemDir(v.DirectoryCloser)
	}
	unexpectedCall(fmt.Sprintf("a call with a foreign directory of type %T", d))
	return nil
}

func (fs *memFS) rootDir(path string) *memDir { return &memDir{fs: fs, node: fs.root, path: path} }

func unexpectedCall(what string) {
	panic(simsync.HarnessError{Msg: "in-memory directory: unexpected call of " + what})
}

func (d *memDir) EnterDirectory(name path.Component) (filesystem.DirectoryCloser, error) {
	d.fs.mu.Lock()
	defer d.fs.mu.Unlock()
	c, ok := d.node.children[name.String()]
	if !ok {
		return nil, syscall.ENOENT
	}
	if c.kind != memDirectory {
		return nil, syscall.ENOTDIR
	}
	d.fs.handles++
	return &memDir{fs: d.fs, node: c, path: d.path + "/" + name.String()}, nil
}

func (d *memDir) Close() error {
	d.fs.mu.Lock()
	defer d.fs.mu.Unlock()
	if d.closed {
		return status.Error(codes.Internal, "directory handle closed twice")
	}
	d.closed = true
	d.fs.handles--
	return nil
}

func (d *memDir) Mkdir(name path.Component, perm os.FileMode) error {
	d.fs.mu.Lock()
	defer d.fs.mu.Unlock()
	if _, ok := d.node.children[name.String()]; ok {
		return syscall.EEXIST
	}
	d.node.children[name.String()] = &memNode{kind: memDirectory, children: map[string]*memNode{}}
	return nil
}

func (d *memDir) Symlink(oldName path.Parser, newName path.Component) error {
	target, err := parserString(oldName)
	if err != nil {
		return err
	}
	d.fs.mu.Lock()
	defer d.fs.mu.Unlock()
	if _, ok := d.node.children[newName.String()]; ok {
		return syscall.EEXIST
	}
	d.node.children[newName.String()] = &memNode{kind: memSymlink, target: target}
	return nil
}

var (
	createPlain = filesystem.CreateExcl(0o444)
	createExec  = filesystem.CreateExcl(0o555)
)

type memAppender struct {
	fs   *memFS
	node *memNode
}

func (a *memAppender) Write(p []byte) (int, error) {
	a.fs.mu.Lock()
	a.node.data = append(a.node.data, p...)
	a.fs.mu.Unlock()
	return len(p), nil
}
func (a *memAppender) Close() error { return nil }
func (a *memAppender) Sync() error  { return nil }

var createOwn = filesystem.CreateExcl(0o644)

func (d *memDir) OpenAppend(name path.Component, creationMode filesystem.CreationMode) (filesystem.FileAppender, error) {
	d.fs.mu.Lock()
	defer d.fs.mu.Unlock()
	c, exists := d.node.children[name.String()]
	if creationMode == filesystem.DontCreate {
		// An attempt to write to an existing file: the permission bits
		// decide.
		switch {
		case !exists:
			return nil, syscall.ENOENT
		case c.kind != memFile:
			return nil, syscall.EISDIR
		case !c.writable:
			return nil, syscall.EACCES
		}
		return &memAppender{fs: d.fs, node: c}, nil
	}
	if creationMode != createPlain && creationMode != createExec && creationMode != createOwn {
		unexpectedCall("OpenAppend with an unexpected creation mode")
	}
	if exists {
		d.fs.observe("download-destination-exists")
		return nil, syscall.EEXIST
	}
	n := &memNode{kind: memFile, exec: creationMode == createExec, writable: creationMode == createOwn, nlink: 1}
	d.node.children[name.String()] = n
	return &memAppender{fs: d.fs, node: n}, nil
}

type memReader struct{ data []byte }

func (r *memReader) ReadAt(p []byte, off int64) (int, error) {
	if off >= int64(len(r.data)) {
		return 0, io.EOF
	}
	n := copy(p, r.data[off:])
	if n < len(p) {
		return n, io.EOF
	}
	return n, nil
}
func (r *memReader) Close() error        { return nil }
func (r *memReader) Len() (int64, error) { return int64(len(r.data)), nil }
func (r *memReader) GetNextRegionOffset(off int64, regionType filesystem.RegionType) (int64, error) {
	return 0, io.EOF
}

func (d *memDir) OpenRead(name path.Component) (filesystem.FileReader, error) {
	d.fs.mu.Lock()
	defer d.fs.mu.Unlock()
	c, ok := d.node.children[name.String()]
	if !ok {
		return nil, syscall.ENOENT
	}
	if c.kind != memFile {
		return nil, syscall.EISDIR
	}
	return &memReader{data: append([]byte(nil), c.data...)}, nil
}

func (d *memDir) info(name path.Component, c *memNode) filesystem.FileInfo {
	switch c.kind {
	case memDirectory:
		return filesystem.NewFileInfo(name, filesystem.FileTypeDirectory, false)
	case memSymlink:
		return filesystem.NewFileInfo(name, filesystem.FileTypeSymlink, false)
	}
	return filesystem.NewFileInfo(name, filesystem.FileTypeRegularFile, c.exec)
}

func (d *memDir) Lstat(name path.Component) (filesystem.FileInfo, error) {
	d.fs.mu.Lock()
	defer d.fs.mu.Unlock()
	c, ok := d.node.children[name.String()]
	if !ok {
		return filesystem.FileInfo{}, syscall.ENOENT
	}
	return d.info(name, c), nil
}

func (d *memDir) ReadDir() ([]filesystem.FileInfo, error) {
	d.fs.mu.Lock()
	defer d.fs.mu.Unlock()
	names := make([]string, 0, len(d.node.children))
	for n := range d.node.children {
		names = append(names, n)
	}
	sort.Strings(names)
	var out []filesystem.FileInfo
	for _, n := range names {
		out = append(out, d.info(path.MustNewComponent(n), d.node.children[n]))
	}
	return out, nil
}

func (d *memDir) Readlink(name path.Component) (path.Parser, error) {
	d.fs.mu.Lock()
	defer d.fs.mu.Unlock()
	c, ok := d.node.children[name.String()]
	if !ok {
		return nil, syscall.ENOENT
	}
	if c.kind != memSymlink {
		return nil, syscall.EINVAL
	}
	return path.UNIXFormat.NewParser(c.target), nil
}

func (d *memDir) Remove(name path.Component) error {
	d.fs.mu.Lock()
	defer d.fs.mu.Unlock()
	c, ok := d.node.children[name.String()]
	if !ok {
		return syscall.ENOENT
	}
	if c.kind == memDirectory && len(c.children) > 0 {
		return syscall.ENOTEMPTY
	}
	delete(d.node.children, name.String())
	c.nlink--
	if d.fs.cache {
		d.fs.observe("hardlink-cache-eviction")
	}
	return nil
}

func (d *memDir) RemoveAll(name path.Component) error {
	d.fs.mu.Lock()
	defer d.fs.mu.Unlock()
	delete(d.node.children, name.String())
	return nil
}

func (d *memDir) RemoveAllChildren() error {
	d.fs.mu.Lock()
	defer d.fs.mu.Unlock()
	d.node.children = map[string]*memNode{}
	return nil
}

func (d *memDir) Chtimes(name path.Component, atime, mtime time.Time) error {
	d.fs.mu.Lock()
	defer d.fs.mu.Unlock()
	if _, ok := d.node.children[name.String()]; !ok {
		return syscall.ENOENT
	}
	return nil
}

func (d *memDir) Sync() error                                       { return nil }
func (d *memDir) IsWritable() (bool, error)                         { return true, nil }
func (d *memDir) IsWritableChild(name path.Component) (bool, error) { return true, nil }

func (d *memDir) OpenReadWrite(name path.Component, creationMode filesystem.CreationMode) (filesystem.FileReadWriter, error) {
	unexpectedCall("OpenReadWrite")
	return nil, nil
}

func (d *memDir) OpenWrite(name path.Component, creationMode filesystem.CreationMode) (filesystem.FileWriter, error) {
	unexpectedCall("OpenWrite")
	return nil, nil
}

func (d *memDir) Link(oldName path.Component, newDirectory filesystem.Directory, newName path.Component) error {
	nd := asMemDir(newDirectory)
	d.fs.mu.Lock()
	defer d.fs.mu.Unlock()
	c, ok := d.node.children[oldName.String()]
	if !ok {
		return syscall.ENOENT
	}
	if c.kind != memFile {
		return syscall.EPERM
	}
	if _, exists := nd.node.children[newName.String()]; exists {
		switch {
		case d.fs.cache:
			d.fs.observe("hardlink-destination-exists")
		case nd.fs.cache:
			d.fs.observe("hardlink-cache-entry-exists")
		}
		return syscall.EEXIST
	}
	nd.node.children[newName.String()] = c
	c.nlink++
	switch {
	case d.fs.cache:
		d.fs.observe("hardlink-cache-hit")
	case nd.fs.cache:
		d.fs.observe("hardlink-cache-insert")
	}
	return nil
}

func (d *memDir) Clonefile(oldName path.Component, newDirectory filesystem.Directory, newName path.Component) error {
	unexpectedCall("Clonefile")
	return nil
}

func (d *memDir) Mknod(name path.Component, perm os.FileMode, deviceNumber filesystem.DeviceNumber) error {
	unexpectedCall("Mknod")
	return nil
}

func (d *memDir) Rename(oldName path.Component, newDirectory filesystem.Directory, newName path.Component) error {
	unexpectedCall("Rename")
	return nil
}

func (d *memDir) Apply(arg interface{}) error {
	unexpectedCall("Apply")
	return nil
}

func (d *memDir) Mount(mountpoint path.Component, source, fstype string) error {
	unexpectedCall("Mount")
	return nil
}

func (d *memDir) Unmount(mountpoint path.Component) error {
	unexpectedCall("Unmount")
	return nil
}

// ---------------------------------------------------------------------------
// Adoption of the errgroup goroutines
// ---------------------------------------------------------------------------

func curGoid() int64 {
	var buf [64]byte
	n := runtime.Stack(buf[:], false)
	s := buf[10:n] // after "goroutine "
	i := 0
	for i < len(s) && s[i] >= '0' && s[i] <= '9' {
		i++
	}
	id, _ := strconv.ParseInt(string(s[:i]), 10, 64)
	return id
}

// naiveShared is what the actions of one naive run have in common: the file
// systems' lock, the hard-link cache and the file fetcher stack.
type naiveShared struct {
	w        *c17
	memMu    sync.Mutex
	cacheFS  *memFS
	hardlink bool
	maxFiles int
	maxSize  int64
	plant    bool
	fetcher  cas.FileFetcher

	gmu  sync.Mutex
	goNS map[int64]*naiveState
}

func (nv *naiveShared) observe(event string) { nv.w.k.Probe(event) }

func (nv *naiveShared) stateOfCaller() *naiveState {
	nv.gmu.Lock()
	defer nv.gmu.Unlock()
	ns := nv.goNS[curGoid()]
	if ns == nil {
		unexpectedCall("the base file fetcher by a goroutine that did not come through an action's fetcher")
	}
	return ns
}

// naiveState is the per-action state of the naive configuration.
type naiveState struct {
	a  *action
	fs *memFS
	bd builder.BuildDirectory

	mu         sync.Mutex
	attempt    int
	prefix     string
	names      map[string]int
	live       []*simsync.Actor
	mainGoids  map[int64]bool
	mainName   string
	fetchFails int // GetFile calls of this attempt that returned an error
	injected   int // of which by an injected fault
	dirFaults  int // injected directory fetch faults of this attempt
	canceled   int // GetFile calls that returned because the group was cancelled
	parkedMax  int
	parkedNow  int

	// gen counts the merges started; returnedGen is the last one that has
	// returned to its caller. inFlight are the downloads (GetFile calls)
	// of the current merge that have not returned yet.
	gen         int
	returnedGen int
	inFlight    int
	ownerGoid   int64
	semWeight   int64
	// Cancellation by the caller of MergeDirectoryContents.
	merging   bool
	cancel    context.CancelFunc
	cancelled bool
	owner     *walker
}

func (ns *naiveState) adopt(name string) *simsync.Actor {
	ns.mu.Lock()
	full := ns.prefix + name
	n := ns.names[full]
	ns.names[full]++
	ns.mu.Unlock()
	if n > 0 {
		full = fmt.Sprintf("%s#%d", full, n)
	}
	act := ns.a.w.k.AdoptCurrent(full)
	ns.mu.Lock()
	ns.live = append(ns.live, act)
	ns.mu.Unlock()
	return act
}

// adoptingDirectoryFetcher sits in front of the real fetcher stack and makes
// the goroutine that walks the directories an actor before it reaches the
// first simulated mutex.
type adoptingDirectoryFetcher struct {
	ns   *naiveState
	base cas.DirectoryFetcher
}

func (f *adoptingDirectoryFetcher) GetDirectory(ctx context.Context, d digest.Digest) (*remoteexecution.Directory, error) {
	ns := f.ns
	gid := curGoid()
	ns.mu.Lock()
	known := ns.mainGoids[gid]
	ns.mainGoids[gid] = true
	ns.mu.Unlock()
	if !known && gid != ns.ownerGoid {
		// (If the walk runs on the caller's goroutine it is an actor
		// already.)
		ns.adopt("walk")
	}
	w := ns.a.w
	me := w.me()
	w.faulted[me] = false
	dir, err := f.base.GetDirectory(ctx, d)
	ns.mu.Lock()
	if err != nil && w.faulted[me] {
		ns.dirFaults++
	}
	inFlight := ns.inFlight
	ns.mu.Unlock()
	if err != nil && inFlight > 0 {
		w.k.Probe("walk-failed-with-downloads-in-flight")
	}
	return dir, err
}

func (f *adoptingDirectoryFetcher) GetTreeRootDirectory(ctx context.Context, treeDigest digest.Digest) (*remoteexecution.Directory, error) {
	unexpectedCall("GetTreeRootDirectory")
	return nil, nil
}

func (f *adoptingDirectoryFetcher) GetTreeChildDirectory(ctx context.Context, treeDigest, childDigest digest.Digest) (*remoteexecution.Directory, error) {
	unexpectedCall("GetTreeChildDirectory")
	return nil, nil
}

// adoptingFileFetcher is the file fetcher an action's NaiveBuildDirectory
// sees. It makes the download goroutine an actor (the real
// HardlinkingFileFetcher takes simulated mutexes right away) and keeps the
// books of the attempt.
type adoptingFileFetcher struct {
	ns   *naiveState
	base cas.FileFetcher
}

func (ff *adoptingFileFetcher) GetFile(ctx context.Context, d digest.Digest, directory filesystem.Directory, name path.Component, isExecutable bool) (err error) {
	ns := ff.ns
	w := ns.a.w
	nv := w.nv
	full := asMemDir(directory).path + "/" + name.String()
	x := ""
	if isExecutable {
		x = "*"
	}
	act := ns.adopt(fmt.Sprintf("get %s %s%s", full, shortDigest(d), x))
	gid := curGoid()
	nv.gmu.Lock()
	nv.goNS[gid] = ns
	nv.gmu.Unlock()
	ns.mu.Lock()
	myGen := ns.gen
	ns.inFlight++
	ns.mu.Unlock()
	defer func() {
		nv.gmu.Lock()
		delete(nv.goNS, gid)
		nv.gmu.Unlock()
		ns.mu.Lock()
		if ns.gen == myGen {
			ns.inFlight--
		}
		if err != nil {
			ns.fetchFails++
			if status.Code(err) == codes.Canceled && ctx.Err() != nil {
				ns.canceled++
			}
		}
		ns.mu.Unlock()
		w.k.Retire(act)
	}()
	// Every download starts at a park point of its own, so that the
	// goroutine never runs alongside the one that started it.
	ns.mu.Lock()
	ns.parkedNow++
	if ns.parkedNow > ns.parkedMax {
		ns.parkedMax = ns.parkedNow
	}
	ns.mu.Unlock()
	w.k.Yield("file-fetch " + full)
	ns.mu.Lock()
	ns.parkedNow--
	late := ns.returnedGen >= myGen
	ns.mu.Unlock()
	if late {
		w.violate("C17/download-outlives-merge", fmt.Sprintf("the download of %s goes on after the MergeDirectoryContents call that started it has returned to its caller", full))
	}
	return ff.base.GetFile(ctx, d, directory, name, isExecutable)
}

// naiveFileFetcher materialises a blob of the fake CAS as a file, the way
// BlobAccessFileFetcher does, with fault tickets. It is the base of the
// real HardlinkingFileFetcher (or used directly).
type naiveFileFetcher struct{ nv *naiveShared }

func (ff *naiveFileFetcher) GetFile(ctx context.Context, d digest.Digest, directory filesystem.Directory, name path.Component, isExecutable bool) (err error) {
	nv := ff.nv
	w := nv.w
	ns := nv.stateOfCaller()
	full := asMemDir(directory).path + "/" + name.String()
	injected := func() {
		ns.mu.Lock()
		ns.injected++
		ns.mu.Unlock()
	}
	opt := w.k.SeamW("download "+full, 40, w.faultWeight(), "ok", "file-unavailable", "file-not-found", "file-canceled", "file-partial", "file-partial-left-behind")
	if cerr := ctx.Err(); cerr != nil {
		return status.FromContextError(cerr).Err()
	}
	switch opt {
	case 1:
		injected()
		return status.Error(codes.Unavailable, "injected file fetch failure")
	case 2:
		injected()
		return status.Error(codes.NotFound, "injected: blob not found")
	case 3:
		injected()
		return status.Error(codes.Canceled, "injected: the connection to storage is closing")
	}
	data, ok := w.cas.blobs[casKey(d)]
	if !ok {
		return status.Errorf(codes.NotFound, "blob %s not found", d)
	}
	mode := createPlain
	if isExecutable {
		mode = createExec
	}
	f, err := directory.OpenAppend(name, mode)
	if err != nil {
		return err
	}
	defer f.Close()
	if opt >= 4 {
		injected()
		f.Write(data[:len(data)/2])
		if opt == 4 {
			directory.Remove(name)
		}
		return status.Error(codes.Unavailable, "injected file fetch failure after a partial write")
	}
	if _, err := f.Write(data); err != nil {
		directory.Remove(name)
		return err
	}
	t := filesystem.DeterministicFileModificationTimestamp
	if err := directory.Chtimes(name, t, t); err != nil {
		directory.Remove(name)
		return err
	}
	return nil
}

// ---------------------------------------------------------------------------
// World part
// ---------------------------------------------------------------------------

// treeSize is the number of nodes of the tree a DAG directory expands to.
func treeSize(d *dagDir) int {
	if d.broken != "" {
		return 1
	}
	n := 1 + len(d.files) + len(d.symlinks)
	for _, s := range d.dirs {
		n += treeSize(s.child)
	}
	return n
}

// reachableBroken returns the first unloadable directory reachable from d.
func reachableBroken(d *dagDir) *dagDir {
	if d.broken != "" {
		return d
	}
	for _, s := range d.dirs {
		if b := reachableBroken(s.child); b != nil {
			return b
		}
	}
	return nil
}

func (w *c17) smallRoots(limit int) []*dagDir {
	var small []*dagDir
	for _, d := range w.g.dirs {
		if treeSize(d) <= limit {
			small = append(small, d)
		}
	}
	return small
}

// setupNaiveShared creates the file fetcher stack all actions of the run use,
// like the worker threads of one bb_worker do.
func (w *c17) setupNaiveShared() {
	t := w.t
	nv := &naiveShared{w: w, goNS: map[int64]*naiveState{}}
	w.nv = nv
	nv.hardlink = t.Bool(2, 3)
	nv.plant = t.Bool(1, 3)
	var fetcher cas.FileFetcher = &naiveFileFetcher{nv: nv}
	if nv.hardlink {
		nv.cacheFS = newMemFS(&nv.memMu)
		nv.cacheFS.cache = true
		nv.cacheFS.obs = nv
		nv.maxFiles = 1 + t.Choice(3)
		nv.maxSize = pick(t, []int64{1000, 60, 25})
		var set eviction.Set[string]
		if t.Bool(1, 2) {
			set = eviction.NewLRUSet[string]()
		} else {
			set = eviction.NewFIFOSet[string]()
		}
		fetcher = cas.NewHardlinkingFileFetcher(fetcher, nv.cacheFS.rootDir("cache"), nv.maxFiles, nv.maxSize, set)
	}
	nv.fetcher = fetcher
	w.r.Logf("naive: hardlinking cache=%v maxFiles=%d maxSize=%d pre-existing destinations=%v", nv.hardlink, nv.maxFiles, nv.maxSize, nv.plant)
}

func (w *c17) setupNaive(a *action) {
	t := w.t
	nv := w.nv
	// Keep the eagerly materialised trees small.
	if treeSize(a.rootDag) > 60 {
		small := w.smallRoots(60)
		a.rootDag = small[len(small)-1-t.Choice(min(3, len(small)))]
	}
	ns := &naiveState{a: a, fs: newMemFS(&nv.memMu)}
	ns.fs.obs = nv
	// A download semaphore that can block is only used where no download
	// can fail: a failing download cancels the group while the walking
	// goroutine is being woken by the semaphore, and which of the two it
	// notices first is decided by the Go scheduler, not by the simulator.
	weight := int64(1000)
	if w.faultFree && !w.allowBroken && !nv.plant {
		weight = pick(t, []int64{1000, 1, 2})
	}
	ns.bd = builder.NewNaiveBuildDirectory(
		ns.fs.rootDir(a.name),
		&adoptingDirectoryFetcher{ns: ns, base: w.fetcher},
		&adoptingFileFetcher{ns: ns, base: nv.fetcher},
		semaphore.NewWeighted(weight),
		w.cas,
	)
	ns.semWeight = weight
	a.naive = ns
	w.r.Logf("%s: naive build directory, first input root dir#%d (%d nodes), download concurrency %d", a.name, a.rootDag.id, treeSize(a.rootDag), weight)
}

// checkCache verifies the hard-link cache: within its limits, and every entry
// holds exactly the CAS bytes its name stands for, read-only.
func (w *c17) checkCache(who string) {
	nv := w.nv
	if !nv.hardlink {
		return
	}
	nv.memMu.Lock()
	defer nv.memMu.Unlock()
	names := make([]string, 0, len(nv.cacheFS.root.children))
	total := int64(0)
	for name, n := range nv.cacheFS.root.children {
		names = append(names, name)
		total += int64(len(n.data))
	}
	sort.Strings(names)
	if len(names) > nv.maxFiles || (total > nv.maxSize && len(names) > 1) {
		w.violate("C17/cache-over-limit", fmt.Sprintf("%s: the hard-link cache holds %d files / %d bytes, limits are %d files / %d bytes: %q", who, len(names), total, nv.maxFiles, nv.maxSize, names))
		return
	}
	for _, name := range names {
		n := nv.cacheFS.root.children[name]
		if len(name) < 2 {
			harness("cache entry %q", name)
		}
		key, suffix := name[:len(name)-2], name[len(name)-2:]
		want, ok := w.cas.blobs[key]
		if !ok || !bytes.Equal(want, n.data) || n.exec != (suffix == "+x") || n.writable {
			w.violate("C17/cache-content", fmt.Sprintf("%s: cache entry %q holds %q (executable=%v writable=%v), the CAS holds %q for that digest", who, name, n.data, n.exec, n.writable, want))
			return
		}
		w.checks++
	}
	if len(names) > 0 {
		w.k.Probe("hardlink-cache-verified")
	}
}

// actionPhase is what a build action may do to its own copy of the input
// root: attempts to write to input files must fail (their permission bits are
// all that protects the bytes shared through hard links), replacing an input
// file by an own file must not touch the shared bytes.
func (x *walker) actionPhase() {
	w := x.w
	t := w.t
	a := x.a
	root := a.naive.fs.rootDir(a.name)
	files := childrenOfKind(a.model, mCAS)
	if len(files) == 0 {
		return
	}
	name := pick(t, files)
	n := a.model.children[name]
	if f, err := root.OpenAppend(comp(name), filesystem.DontCreate); err == nil {
		f.Write([]byte("scribble"))
		f.Close()
		w.violate("C17/input-file-mutable", fmt.Sprintf("%s: the input file %s/%s (%s) could be opened for writing through the build directory; the bytes are shared with the hard-link cache and other actions", x.name, a.name, name, describeNode(n)))
		return
	}
	w.refused++
	w.k.Probe("input-file-mutation-refused")
	if t.Bool(1, 2) {
		// Replace it by a file of the action's own.
		if err := root.Remove(comp(name)); err != nil {
			harness("Remove: %v", err)
		}
		f, err := root.OpenAppend(comp(name), createOwn)
		if err != nil {
			harness("OpenAppend: %v", err)
		}
		f.Write([]byte("the action's own output"))
		f.Close()
		w.edits++
		w.k.Probe("edit-replaced-leaf")
	}
}

func (x *walker) naiveLoop() {
	w := x.w
	t := w.t
	a := x.a
	ns := a.naive
	nv := w.nv
	rounds := 1 + t.Choice(4)
	small := w.smallRoots(40)
	for round := 0; round < rounds && !w.k.Failed(); round++ {
		if round > 0 {
			w.k.Yield("next-action")
			if w.stopping {
				return
			}
			// The next action on this worker thread: another input root
			// in a clean build directory.
			if len(small) > 0 {
				a.rootDag = pick(t, small)
			}
			ns.fs.root.children = map[string]*memNode{}
		}
		planted := ""
		if nv.plant && a.rootDag.broken == "" && t.Bool(1, 2) {
			// Something already sits where an input has to go.
			var names []string
			for _, f := range a.rootDag.files {
				names = append(names, f.name)
			}
			if len(names) > 0 {
				planted = pick(t, names)
				ns.fs.root.children[planted] = &memNode{kind: memFile, data: []byte("left behind by somebody else"), writable: true, nlink: 1}
			}
		}
		x.logf("round %d: input root dir#%d (%d nodes), pre-existing destination %q", round, a.rootDag.id, treeSize(a.rootDag), planted)
		if !x.naiveMerge(round, planted) {
			return
		}
		w.checkCache(x.name)
	}
}

// naiveMerge materialises the current input root, retrying after failures
// that are explained by faults or by a pre-existing destination. It returns
// false if the walker has to stop.
func (x *walker) naiveMerge(round int, planted string) bool {
	w := x.w
	a := x.a
	ns := a.naive
	broken := reachableBroken(a.rootDag)
	faultedAttempts := 0
	for attempt := 0; ; attempt++ {
		if attempt >= 40 {
			harness("naive merge did not succeed in 40 attempts")
		}
		if faultedAttempts >= 3 {
			// Enough failures: wait until the storage has calmed down.
			w.k.SeamWhen("merge-retry-when-calm", func() bool { return !w.k.FaultsOn })
		} else if attempt > 0 {
			w.k.Yield("merge-retry")
		}
		if attempt > 0 {
			// The worker would throw the build directory away.
			ns.fs.root.children = map[string]*memNode{}
		}
		ns.mu.Lock()
		ns.attempt = attempt
		ns.prefix = fmt.Sprintf("%s/r%d.%d/", x.name, round, attempt)
		ns.names = map[string]int{}
		ns.live = nil
		ns.mainGoids = map[int64]bool{}
		ns.fs.handles = 0
		ns.fetchFails, ns.injected, ns.dirFaults, ns.canceled, ns.parkedMax, ns.parkedNow = 0, 0, 0, 0, 0, 0
		ns.gen++
		ns.inFlight = 0
		ns.ownerGoid = curGoid()
		ns.owner = x
		ctx, cancel := context.WithCancel(bg)
		ns.cancel, ns.cancelled, ns.merging = cancel, false, true
		ns.mu.Unlock()
		err := ns.bd.MergeDirectoryContents(ctx, w.logger, a.rootDag.digest, nil)
		ns.mu.Lock()
		ns.merging = false
		ns.returnedGen = ns.gen
		stillInFlight := ns.inFlight
		cancelledByCaller := ns.cancelled
		ns.mu.Unlock()
		cancel()
		w.mergesReturned++
		if err != nil {
			w.mergeErrors++
			w.k.Probe("naive-merge-returned-error")
		}
		if stillInFlight > 0 {
			// Whatever is still running will write into a directory its
			// action has already given up (and that is being removed).
			w.violate("C17/download-outlives-merge", fmt.Sprintf("%s: MergeDirectoryContents of dir#%d returned (%v) while %d of the file downloads it started are still in flight: %v", x.name, a.rootDag.id, err, stillInFlight, parkedNames(ns.live)))
			return false
		}
		for _, act := range ns.live {
			w.k.Retire(act)
		}
		x.logf("naive MergeDirectoryContents dir#%d attempt %d -> %v (failed downloads %d, injected %d, directory faults %d, cancelled %d, max parallel %d)", a.rootDag.id, attempt, err, ns.fetchFails, ns.injected, ns.dirFaults, ns.canceled, ns.parkedMax)
		if ns.parkedMax >= 2 {
			w.k.Probe("naive-parallel-downloads")
		}
		if ns.canceled > 0 {
			w.k.Probe("naive-download-cancelled-by-sibling-failure")
		}
		if err == nil {
			switch {
			case broken != nil:
				w.violate("C17/malformed-accepted", fmt.Sprintf("%s: MergeDirectoryContents (naive) succeeded although dir#%d below the input root cannot be loaded (%s); tree now:\n%s", x.name, broken.id, broken.broken, dumpMem(ns.fs.root, "  ")))
				return false
			case ns.fetchFails+ns.dirFaults > 0:
				w.violate("C17/fetch-failure-swallowed", fmt.Sprintf("%s: MergeDirectoryContents (naive) reported success although %d file download(s) and %d directory fetch(es) failed; tree now:\n%s", x.name, ns.fetchFails, ns.dirFaults, dumpMem(ns.fs.root, "  ")))
				return false
			}
			if ns.fs.handles != 0 {
				w.r.Count("naive_directory_handles_left_open", ns.fs.handles)
			}
			// Also with a pre-existing destination success is fine, as
			// long as the right contents are there now.
			a.model = expand(a.rootDag)
			x.compareNaive()
			if w.k.Failed() {
				return false
			}
			w.k.Probe("naive-merge-ok")
			if attempt > 0 {
				w.k.Probe("retry-after-fault-succeeded")
			}
			x.actionPhase()
			return !w.k.Failed()
		}
		switch {
		case broken != nil:
			w.brokenSeen++
			w.k.Probe("unloadable-input-root-rejected")
			return true
		case cancelledByCaller:
			faultedAttempts++
			w.k.Probe("naive-merge-cancelled-by-caller")
		case planted != "":
			// The attempt started with a foreign file at a destination;
			// the next one starts in a clean directory.
			planted = ""
			w.k.Probe("pre-existing-destination-rejected")
		case ns.injected+ns.dirFaults > 0:
			faultedAttempts++
			w.faultedOps++
			w.k.Probe("storage-fault-surfaced-as-error")
		default:
			w.violate("C17/unexpected-error", fmt.Sprintf("%s: MergeDirectoryContents (naive) of the well-formed dir#%d failed without an injected fault: %v", x.name, a.rootDag.id, err))
			return false
		}
	}
}

func parkedNames(actors []*simsync.Actor) []string {
	var out []string
	for _, a := range actors {
		if !a.Done() {
			out = append(out, a.Name+"@"+a.TicketLabel())
		}
	}
	sort.Strings(out)
	return out
}

// naiveEvents lets the caller of a merge cancel it while it waits for the
// merge to return (the action was cancelled while fetching inputs).
func (w *c17) naiveEvents() []simsync.Event {
	if w.faultFree || !w.k.FaultsOn {
		return nil
	}
	var evs []simsync.Event
	for _, a := range w.actions {
		ns := a.naive
		if ns == nil || !ns.merging || ns.cancelled || ns.semWeight != 1000 || ns.owner == nil || !ns.owner.actor.Blocked() {
			continue
		}
		weight := 1
		if w.c12 {
			weight = 3
		}
		evs = append(evs, simsync.Event{Key: "cancel-merge " + a.name, Weight: weight, Fire: func() {
			ns.mu.Lock()
			ns.cancelled = true
			ns.mu.Unlock()
			w.k.FaultsFired["merge-cancelled-by-caller"]++
			ns.cancel()
		}})
	}
	return evs
}

func dumpMem(n *memNode, indent string) string {
	var sb bytes.Buffer
	names := make([]string, 0, len(n.children))
	for k := range n.children {
		names = append(names, k)
	}
	sort.Strings(names)
	for _, name := range names {
		c := n.children[name]
		switch c.kind {
		case memDirectory:
			fmt.Fprintf(&sb, "%s%s/\n%s", indent, name, dumpMem(c, indent+"  "))
		case memSymlink:
			fmt.Fprintf(&sb, "%s%s -> %s\n", indent, name, c.target)
		default:
			fmt.Fprintf(&sb, "%s%s %q exec=%v\n", indent, name, c.data, c.exec)
		}
	}
	return sb.String()
}

// compareNaive walks the materialised tree through the filesystem.Directory
// interface and compares it with the model.
func (x *walker) compareNaive() {
	w := x.w
	a := x.a
	type item struct {
		m    *mnode
		d    filesystem.Directory
		path string
	}
	queue := []item{{a.model, a.naive.fs.rootDir(a.name), a.name}}
	for len(queue) > 0 && !w.k.Failed() {
		it := queue[0]
		queue = queue[1:]
		w.dirsLoaded++
		infos, err := it.d.ReadDir()
		if err != nil {
			harness("ReadDir: %v", err)
		}
		got := map[string]bool{}
		for _, fi := range infos {
			got[fi.Name().String()] = true
		}
		want := map[string]bool{}
		for name := range it.m.children {
			want[name] = true
		}
		if g, e := sortedNames(got), sortedNames(want); fmt.Sprint(g) != fmt.Sprint(e) {
			w.violate("C17/tree-mismatch", fmt.Sprintf("%s: after a successful MergeDirectoryContents (naive) %s contains %q, expected %q", x.name, it.path, g, e))
			return
		}
		for i := range infos {
			name := infos[i].Name()
			n := it.m.children[name.String()]
			where := "naive " + it.path + "/" + name.String()
			x.checkFileInfo(where, n, &infos[i])
			switch n.kind {
			case mDir:
				if infos[i].Type() != filesystem.FileTypeDirectory {
					return
				}
				c, err := it.d.EnterDirectory(name)
				if err != nil {
					harness("EnterDirectory: %v", err)
				}
				queue = append(queue, item{n, c, it.path + "/" + name.String()})
			case mSymlink:
				tp, err := it.d.Readlink(name)
				if err != nil {
					return
				}
				if got, err := parserString(tp); err != nil || got != expectedTarget(n.target) {
					w.violate("C17/tree-mismatch", fmt.Sprintf("%s: %s is a symlink to %q (%v), expected %q", x.name, where, got, err, n.target))
					return
				}
				w.k.Probe("symlink-target-checked")
			case mCAS:
				r, err := it.d.OpenRead(name)
				if err != nil {
					return
				}
				size, _ := r.Len()
				data := make([]byte, size)
				r.ReadAt(data, 0)
				if !bytes.Equal(data, n.blob.data) {
					w.violate("C17/content-mismatch", fmt.Sprintf("%s: %s contains %q, expected %q", x.name, where, data, n.blob.data))
					return
				}
				w.fileReads++
				w.k.Probe("file-contents-checked")
			}
		}
	}
}

package w10

// Generator of Directory DAGs for the C17 world, and the reference model of
// the tree an action must see.

import (
	"fmt"
	"sort"
	"strings"

	remoteexecution "github.com/bazelbuild/remote-apis/build/bazel/remote/execution/v2"
	"github.com/buildbarn/bb-remote-execution/pkg/verifsim/simsync"
	"github.com/buildbarn/bb-storage/pkg/digest"
	"google.golang.org/protobuf/proto"
)

var c17fn = digest.MustNewFunction("w10", remoteexecution.DigestFunction_SHA256)

type blob struct {
	id     int
	data   []byte
	digest digest.Digest
}

type dagFile struct {
	name string
	blob *blob
	exec bool
}

type dagSymlink struct{ name, target string }

type dagSub struct {
	name  string
	child *dagDir
}

// dagDir is one Directory message of the generated input.
type dagDir struct {
	id       int
	files    []dagFile
	symlinks []dagSymlink
	dirs     []dagSub
	// broken is non-empty if the directory must surface as an error:
	// malformed message (invalid/duplicate name, bad digest) or a blob that
	// cannot be fetched (missing, corrupt, not a Directory).
	broken string
	digest digest.Digest
	depth  int
}

type dag struct {
	blobs []*blob
	dirs  []*dagDir
}

var (
	dagNames       = []string{"a", "b", "c", "lib", "x.txt", "Long Name", "ü", "-", "a.b"}
	invalidNames   = []string{"", ".", "..", "a/b", "nul\x00x", "/"}
	symlinkTargets = []string{"a", "a/b", "../a", "/x/y", "."}
	badDigests     = []*remoteexecution.Digest{
		nil,
		{Hash: "abc", SizeBytes: 3},
		{Hash: strings.Repeat("G", 64), SizeBytes: 3},
		{Hash: strings.Repeat("AB", 32), SizeBytes: 3},
		{Hash: strings.Repeat("ab", 32), SizeBytes: -1},
		{Hash: strings.Repeat("ab", 16), SizeBytes: 1},
	}
)

func mustMarshal(m proto.Message) []byte {
	data, err := proto.MarshalOptions{Deterministic: true}.Marshal(m)
	if err != nil {
		harness("marshal: %v", err)
	}
	return data
}

// generateDAG draws a DAG of directories bottom-up and stores it in the CAS.
func generateDAG(t *simsync.Tape, cas *fakeCAS, allowBroken, manyBroken bool, logf func(string, ...interface{})) *dag {
	g := &dag{}
	nb := 2 + t.Choice(4)
	for i := 0; i < nb; i++ {
		var data []byte
		if i > 0 {
			data = []byte(fmt.Sprintf("blob-%d:%s", i, strings.Repeat("*", t.Choice(30))))
		}
		b := &blob{id: i, data: data, digest: digestOf(c17fn, data)}
		g.blobs = append(g.blobs, b)
		cas.store(b.digest, b.data, true)
	}
	nd := 3 + t.Choice(8)
	brokenBudget := 0
	if allowBroken {
		brokenBudget = t.Choice(4)
		if manyBroken {
			brokenBudget = 1 + t.Choice(3)
		}
	}
	for i := 0; i < nd; i++ {
		d := &dagDir{id: i}
		used := map[string]bool{}
		freshName := func() (string, bool) {
			for try := 0; try < 6; try++ {
				n := pick(t, dagNames)
				if !used[n] {
					used[n] = true
					return n, true
				}
			}
			return "", false
		}
		// Child directories: earlier directories only (a DAG), chained
		// so that deep nesting occurs.
		if i > 0 {
			nsub := t.Choice(4)
			for j := 0; j < nsub; j++ {
				var child *dagDir
				if j == 0 && t.Bool(2, 3) {
					child = g.dirs[i-1]
				} else {
					child = pick(t, g.dirs)
				}
				if child.depth >= 5 {
					continue
				}
				if n, ok := freshName(); ok {
					d.dirs = append(d.dirs, dagSub{n, child})
					if child.depth+1 > d.depth {
						d.depth = child.depth + 1
					}
				}
			}
		}
		nf := t.Choice(4)
		for j := 0; j < nf; j++ {
			if n, ok := freshName(); ok {
				d.files = append(d.files, dagFile{n, pick(t, g.blobs), t.Bool(1, 3)})
			}
		}
		ns := t.Choice(3)
		for j := 0; j < ns; j++ {
			if n, ok := freshName(); ok {
				d.symlinks = append(d.symlinks, dagSymlink{n, pick(t, symlinkTargets)})
			}
		}
		msg := &remoteexecution.Directory{}
		for _, s := range d.dirs {
			msg.Directories = append(msg.Directories, &remoteexecution.DirectoryNode{Name: s.name, Digest: s.child.digest.GetProto()})
		}
		for _, f := range d.files {
			msg.Files = append(msg.Files, &remoteexecution.FileNode{Name: f.name, Digest: f.blob.digest.GetProto(), IsExecutable: f.exec})
		}
		for _, s := range d.symlinks {
			msg.Symlinks = append(msg.Symlinks, &remoteexecution.SymlinkNode{Name: s.name, Target: s.target})
		}
		// Malformations. The model keeps the well-formed listing only to
		// describe the directory; a broken directory has no contents.
		storeMode := "ok"
		if brokenBudget > 0 && t.Bool(1, 3) {
			brokenBudget--
			kind := t.Choice(10)
			anyName := func() string {
				var all []string
				for _, s := range d.dirs {
					all = append(all, s.name)
				}
				for _, f := range d.files {
					all = append(all, f.name)
				}
				for _, s := range d.symlinks {
					all = append(all, s.name)
				}
				if len(all) == 0 {
					return ""
				}
				return pick(t, all)
			}
			someDigest := g.blobs[0].digest.GetProto()
			insertFile := func(n *remoteexecution.FileNode) {
				pos := t.Choice(len(msg.Files) + 1)
				msg.Files = append(msg.Files[:pos:pos], append([]*remoteexecution.FileNode{n}, msg.Files[pos:]...)...)
			}
			switch kind {
			case 0:
				d.broken = "invalid file name"
				insertFile(&remoteexecution.FileNode{Name: pick(t, invalidNames), Digest: someDigest})
			case 1:
				d.broken = "invalid directory name"
				dg := someDigest
				if len(g.dirs) > 0 {
					dg = g.dirs[0].digest.GetProto()
				}
				msg.Directories = append(msg.Directories, &remoteexecution.DirectoryNode{Name: pick(t, invalidNames), Digest: dg})
			case 2:
				d.broken = "invalid symlink name"
				msg.Symlinks = append(msg.Symlinks, &remoteexecution.SymlinkNode{Name: pick(t, invalidNames), Target: "a"})
			case 3:
				if n := anyName(); n != "" {
					d.broken = "duplicate name (file)"
					insertFile(&remoteexecution.FileNode{Name: n, Digest: someDigest, IsExecutable: t.Bool(1, 2)})
				}
			case 4:
				if n := anyName(); n != "" {
					d.broken = "duplicate name (symlink)"
					msg.Symlinks = append(msg.Symlinks, &remoteexecution.SymlinkNode{Name: n, Target: "elsewhere"})
				}
			case 5:
				if n := anyName(); n != "" && len(g.dirs) > 0 {
					d.broken = "duplicate name (directory)"
					msg.Directories = append(msg.Directories, &remoteexecution.DirectoryNode{Name: n, Digest: g.dirs[0].digest.GetProto()})
				}
			case 6:
				d.broken = "bad file digest"
				insertFile(&remoteexecution.FileNode{Name: "zz-bad", Digest: pick(t, badDigests)})
			case 7:
				d.broken = "bad directory digest"
				msg.Directories = append(msg.Directories, &remoteexecution.DirectoryNode{Name: "zz-bad", Digest: pick(t, badDigests)})
			case 8:
				storeMode = pick(t, []string{"missing", "corrupt", "garbage"})
				d.broken = "blob " + storeMode
				// Make the message unique, so that no well-formed
				// directory or file shares its digest.
				msg.Symlinks = append(msg.Symlinks, &remoteexecution.SymlinkNode{Name: fmt.Sprintf("zz-unique-%d", i), Target: "x"})
			case 9:
				// A reference whose size is zero but whose hash is not
				// that of the empty blob: no such object can exist.
				storeMode = "zero-size"
				d.broken = "blob zero-size reference with a non-empty hash"
				msg.Symlinks = append(msg.Symlinks, &remoteexecution.SymlinkNode{Name: fmt.Sprintf("zz-unique-%d", i), Target: "x"})
			}
		}
		data := mustMarshal(msg)
		switch storeMode {
		case "garbage":
			data = []byte(fmt.Sprintf("\xff\xff\xffnot a Directory message %d", i))
		}
		d.digest = digestOf(c17fn, data)
		if storeMode == "zero-size" {
			d.digest = digest.MustNewDigest("w10", remoteexecution.DigestFunction_SHA256, d.digest.GetHashString(), 0)
		}
		switch storeMode {
		case "missing", "zero-size":
		case "corrupt":
			bad := append([]byte(nil), data...)
			if len(bad) == 0 {
				bad = []byte{1}
			} else {
				bad[len(bad)/2] ^= 0x5a
			}
			cas.store(d.digest, bad, true)
		default:
			cas.store(d.digest, data, true)
		}
		g.dirs = append(g.dirs, d)
		logf("dag dir#%d %s depth=%d broken=%q dirs=%v files=%v symlinks=%v", d.id, shortDigest(d.digest), d.depth, d.broken, describeSubs(d), describeFiles(d), d.symlinks)
	}
	return g
}

func describeSubs(d *dagDir) []string {
	var out []string
	for _, s := range d.dirs {
		out = append(out, fmt.Sprintf("%s->#%d", s.name, s.child.id))
	}
	return out
}

func describeFiles(d *dagDir) []string {
	var out []string
	for _, f := range d.files {
		x := ""
		if f.exec {
			x = "*"
		}
		out = append(out, fmt.Sprintf("%s=blob%d%s", f.name, f.blob.id, x))
	}
	return out
}

// ---------------------------------------------------------------------------
// Model of what an action sees
// ---------------------------------------------------------------------------

type mkind int

const (
	mDir mkind = iota
	mCAS
	mSymlink
	mLocal
)

func (k mkind) String() string { return [...]string{"dir", "cas-file", "symlink", "local-file"}[k] }

// mnode is a node of the expected tree. Directory nodes are per position;
// leaf nodes may be shared between names (hard links).
type mnode struct {
	kind     mkind
	children map[string]*mnode
	broken   string
	removed  bool
	dagID    int
	// loaded: the real directory was accessed successfully at least once;
	// faultedOnce: an access failed because of an injected storage fault.
	loaded      bool
	faultedOnce bool
	// CAS file
	blob *blob
	exec bool
	// symlink
	target string
	// local file
	content []byte
}

func (n *mnode) names() []string {
	out := make([]string, 0, len(n.children))
	for k := range n.children {
		out = append(out, k)
	}
	sort.Strings(out)
	return out
}

// expand builds the expected tree below a DAG directory.
func expand(d *dagDir) *mnode {
	n := &mnode{kind: mDir, children: map[string]*mnode{}, broken: d.broken, dagID: d.id}
	if d.broken != "" {
		return n
	}
	for _, s := range d.dirs {
		n.children[s.name] = expand(s.child)
	}
	for _, f := range d.files {
		n.children[f.name] = &mnode{kind: mCAS, blob: f.blob, exec: f.exec}
	}
	for _, s := range d.symlinks {
		n.children[s.name] = &mnode{kind: mSymlink, target: s.target}
	}
	return n
}

// sameIdentity tells whether the file system treats two leaves as one object
// (rename of one over the other is then a no-op): hard links always, and with
// the NFS handle allocator also stateless leaves with equal identifiers.
func sameIdentity(a, b *mnode, nfs bool) bool {
	if a == b {
		return true
	}
	if !nfs || a.kind != b.kind {
		return false
	}
	switch a.kind {
	case mCAS:
		return a.blob == b.blob && a.exec == b.exec
	case mSymlink:
		return a.target == b.target
	}
	return false
}

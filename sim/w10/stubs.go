// Package w10 holds two worlds around the virtual file system's files:
//
//   - C16: writable (pool-backed) files live exactly as long as they are
//     referenced, and uploads match what the CAS received.
//   - C17: the lazily loaded input root is exactly the requested tree and
//     CAS-backed files are immutable.
//
// This file contains the simulator-owned stubs both worlds share: a fake
// Content Addressable Storage, an instrumented file pool, an error logger and
// a deterministic random number generator.
package w10

import (
	"context"
	"encoding/hex"
	"fmt"
	"io"
	"time"

	remoteexecution "github.com/bazelbuild/remote-apis/build/bazel/remote/execution/v2"
	"github.com/buildbarn/bb-remote-execution/pkg/filesystem/pool"
	"github.com/buildbarn/bb-remote-execution/pkg/verifsim/simrun"
	"github.com/buildbarn/bb-remote-execution/pkg/verifsim/simsync"
	"github.com/buildbarn/bb-storage/pkg/blobstore/buffer"
	"github.com/buildbarn/bb-storage/pkg/blobstore/slicing"
	"github.com/buildbarn/bb-storage/pkg/digest"
	"github.com/buildbarn/bb-storage/pkg/filesystem"
	"google.golang.org/grpc/codes"
	"google.golang.org/grpc/status"
)

var startTime = time.Unix(1700000000, 0).UTC()

func pick[T any](t *simsync.Tape, xs []T) T { return xs[t.Choice(len(xs))] }

func harness(format string, args ...interface{}) {
	panic(simsync.HarnessError{Msg: fmt.Sprintf(format, args...)})
}

// base is what both worlds have in common.
type base struct {
	r    *simrun.Run
	k    *simsync.Kernel
	t    *simsync.Tape
	prop string
	// c14: the run is made on behalf of property C14 (see violate).
	c14 bool
	// c12: the run is made on behalf of property C12 (see violate).
	c12 bool
	// faultFree disables every fault option for the whole run.
	faultFree bool
	// faulted records, per actor name, that a storage fault was injected
	// into a call made by that actor since the actor last cleared it.
	faulted map[string]bool
}

func (b *base) faultWeight() int {
	if b.faultFree || !b.k.FaultsOn {
		return 0
	}
	return 1
}

// violate reports a violation of the property this run checks; rules of the
// other property are only counted.
func (b *base) violate(rule, msg string) {
	if b.c14 {
		// The same histories also decide C14 for the file allocator: only
		// the kernel-level rules (a call that never returns, a mutex left
		// held, a panic) count, under C14's name.
		switch rule {
		case "C16/call-never-returned", "C17/call-never-returned":
			b.k.Violate("C14/call-never-returned", "[pool-backed files] "+msg)
		case "C16/lock-held-at-idle", "C17/lock-held-at-idle":
			b.k.Violate("C14/mutex-held-at-idle", "[pool-backed files] "+msg)
		default:
			if len(rule) > 6 && rule[:6] == "panic:" {
				b.k.Violate(rule, msg)
			} else {
				b.r.Count("other_property_rule:"+rule, 1)
			}
		}
		return
	}
	if b.c12 {
		// The naive input root histories also decide one rule of C12
		// (nothing of an ended action is still being written).
		switch {
		case rule == "C17/download-outlives-merge":
			b.k.Violate("C12/download-outlives-merge", msg)
		case len(rule) > 6 && rule[:6] == "panic:":
			b.k.Violate(rule, msg)
		default:
			b.r.Count("other_property_rule:"+rule, 1)
		}
		return
	}
	if len(rule) > 4 && rule[:4] == b.prop+"/" || (len(rule) > 6 && rule[:6] == "panic:") {
		b.k.Violate(rule, msg)
		return
	}
	b.r.Count("other_property_rule:"+rule, 1)
}

func (b *base) me() string {
	if b.k.IsController() {
		return "ctl"
	}
	return b.k.Me().Name
}

// ---------------------------------------------------------------------------
// Deterministic RNG for the handle allocators (inode numbers).
// ---------------------------------------------------------------------------

type seqRNG struct{ state uint64 }

func (r *seqRNG) Uint64() uint64 {
	r.state += 0x9e3779b97f4a7c15
	z := r.state
	z = (z ^ (z >> 30)) * 0xbf58476d1ce4e5b9
	z = (z ^ (z >> 27)) * 0x94d049bb133111eb
	return z ^ (z >> 31)
}
func (r *seqRNG) Uint32() uint32       { return uint32(r.Uint64() >> 32) }
func (r *seqRNG) Float64() float64     { return float64(r.Uint64()>>11) / (1 << 53) }
func (r *seqRNG) Int64N(n int64) int64 { return int64(r.Uint64() % uint64(n)) }
func (r *seqRNG) IntN(n int) int       { return int(r.Uint64() % uint64(n)) }
func (r *seqRNG) IsThreadSafe()        {}
func (r *seqRNG) Read(p []byte) (int, error) {
	for i := range p {
		p[i] = byte(r.Uint64())
	}
	return len(p), nil
}
func (r *seqRNG) Shuffle(n int, swap func(i, j int)) {
	for i := n - 1; i > 0; i-- {
		swap(i, r.IntN(i+1))
	}
}

// ---------------------------------------------------------------------------
// Error logger
// ---------------------------------------------------------------------------

type recLogger struct {
	b *base
	n int
}

func (l *recLogger) Log(err error) {
	l.n++
	l.b.k.Annotate("errorLogger: %v", err)
}

// ---------------------------------------------------------------------------
// Fake Content Addressable Storage
// ---------------------------------------------------------------------------

type putRecord struct {
	actor    string
	digest   digest.Digest
	received []byte
	hashOK   bool
}

// fakeCAS implements blobstore.BlobAccess. Get serves whatever bytes were
// stored under the digest's key (validated against the digest by the real
// buffer layer); Put drains the buffer in pieces, at park points, and records
// the checksum of the bytes it actually received.
type fakeCAS struct {
	b     *base
	blobs map[string][]byte // key: digest key without instance name
	// protected marks blobs that are inputs: nothing may ever alter them.
	protected map[string]bool
	puts      []*putRecord
	gets      int
	// putWeight is the weight of the event that lets a parked Put proceed
	// (small = uploads stay parked for long).
	putWeight int
	// Hooks for the C16 world.
	onPutStart   func(actor string, d digest.Digest)
	onPutRelease func(actor string)
	onPutEnd     func(actor string, rec *putRecord, err error)
}

func newFakeCAS(b *base) *fakeCAS {
	return &fakeCAS{b: b, blobs: map[string][]byte{}, protected: map[string]bool{}, putWeight: 10}
}

func casKey(d digest.Digest) string { return d.GetKey(digest.KeyWithoutInstance) }

func shortDigest(d digest.Digest) string {
	h := d.GetHashString()
	if len(h) > 6 {
		h = h[:6]
	}
	return fmt.Sprintf("%s/%d", h, d.GetSizeBytes())
}

func (c *fakeCAS) store(d digest.Digest, data []byte, protect bool) {
	k := casKey(d)
	c.blobs[k] = data
	if protect {
		c.protected[k] = true
	}
}

func (c *fakeCAS) Get(ctx context.Context, d digest.Digest) buffer.Buffer {
	b := c.b
	c.gets++
	opt := b.k.SeamW("cas-get "+shortDigest(d), 10, b.faultWeight(), "ok", "cas-get-unavailable")
	if err := ctx.Err(); err != nil {
		return buffer.NewBufferFromError(status.FromContextError(err).Err())
	}
	if opt == 1 {
		b.faulted[b.me()] = true
		return buffer.NewBufferFromError(status.Error(codes.Unavailable, "injected CAS failure"))
	}
	data, ok := c.blobs[casKey(d)]
	if !ok {
		return buffer.NewBufferFromError(status.Errorf(codes.NotFound, "blob %s not found", d))
	}
	return buffer.NewCASBufferFromByteSlice(d, data, buffer.UserProvided)
}

func (c *fakeCAS) GetFromComposite(ctx context.Context, parentDigest, childDigest digest.Digest, slicer slicing.BlobSlicer) buffer.Buffer {
	return buffer.NewBufferFromError(status.Error(codes.Unimplemented, "not used"))
}

func (c *fakeCAS) Put(ctx context.Context, d digest.Digest, buf buffer.Buffer) error {
	b := c.b
	actor := b.me()
	if c.onPutStart != nil {
		c.onPutStart(actor, d)
	}
	rec := &putRecord{actor: actor, digest: d}
	// done releases the buffer (which is what unfreezes an uploaded file)
	// and reports the outcome.
	done := func(release func(), err error) error {
		if c.onPutRelease != nil {
			c.onPutRelease(actor)
		}
		release()
		if c.onPutEnd != nil {
			c.onPutEnd(actor, rec, err)
		}
		return err
	}
	// The upload stays parked here until the controller lets it proceed.
	opt := b.k.SeamW("cas-put "+shortDigest(d), c.putWeight, b.faultWeight(), "ok", "cas-put-error", "cas-put-error-midway")
	chunk := 0
	if !b.k.IsController() {
		chunk = []int{0, 1, 3, 8}[b.t.Choice(4)]
	}
	if opt == 1 {
		b.faulted[actor] = true
		return done(buf.Discard, status.Error(codes.Unavailable, "injected CAS Put failure"))
	}
	r := buf.ToReader()
	closeReader := func() { r.Close() }
	var received []byte
	var readErr error
	if chunk == 0 {
		received, readErr = io.ReadAll(r)
	} else {
		p := make([]byte, chunk)
		for {
			n, err := r.Read(p)
			received = append(received, p[:n]...)
			if err == io.EOF {
				break
			}
			if err != nil {
				readErr = err
				break
			}
			if opt == 2 && len(received) >= chunk {
				break
			}
		}
	}
	rec.received = received
	if opt == 2 {
		b.faulted[actor] = true
		return done(closeReader, status.Error(codes.Unavailable, "injected CAS Put failure after a partial read"))
	}
	if readErr != nil {
		return done(closeReader, readErr)
	}
	// What did we actually get?
	h := d.NewHasher(int64(len(received)))
	h.Write(received)
	rec.hashOK = hex.EncodeToString(h.Sum(nil)) == d.GetHashString() && int64(len(received)) == d.GetSizeBytes()
	c.puts = append(c.puts, rec)
	key := casKey(d)
	if old, ok := c.blobs[key]; ok && c.protected[key] && string(old) != string(received) {
		b.violate("C17/cas-input-altered", fmt.Sprintf("Put of %s by %s would replace the %d input bytes stored under that digest by %d different bytes", d, actor, len(old), len(received)))
	} else if !ok {
		c.blobs[key] = received
	}
	return done(closeReader, nil)
}

func (c *fakeCAS) FindMissing(ctx context.Context, digests digest.Set) (digest.Set, error) {
	return digest.EmptySet, status.Error(codes.Unimplemented, "not used")
}

func (c *fakeCAS) GetCapabilities(ctx context.Context, instanceName digest.InstanceName) (*remoteexecution.ServerCapabilities, error) {
	return nil, status.Error(codes.Unimplemented, "not used")
}

// ---------------------------------------------------------------------------
// Instrumented file pool
// ---------------------------------------------------------------------------

// poolPlan is the fault an actor planned (at its last park point) for the
// next pool operation issued on its behalf.
type poolPlan struct {
	failNewFile  bool
	failTruncate bool
	failRead     bool
	// failWrite: the write stores only shortWrite bytes and reports an error.
	failWrite  bool
	shortWrite int
}

type simPool struct {
	b     *base
	files []*simFile
	plans map[string]*poolPlan
	// lastBy is the file most recently created on behalf of an actor.
	lastBy map[string]*simFile
	open   int
	// hooks
	onWrite    func(f *simFile, actor string, p []byte, off int64, n int)
	onTruncate func(f *simFile, actor string, size int64)
	onClose    func(f *simFile, actor string)
	onUse      func(f *simFile, actor, what string)
}

func newSimPool(b *base) *simPool {
	return &simPool{b: b, plans: map[string]*poolPlan{}, lastBy: map[string]*simFile{}}
}

func (p *simPool) plan(actor string) *poolPlan {
	pl := p.plans[actor]
	if pl == nil {
		pl = &poolPlan{}
		p.plans[actor] = pl
	}
	return pl
}

func (p *simPool) NewFile(holeSource pool.HoleSource, size uint64) (filesystem.FileReadWriter, error) {
	actor := p.b.me()
	if pl := p.plan(actor); pl.failNewFile {
		pl.failNewFile = false
		p.b.k.FaultsFired["pool-newfile-error"]++
		p.b.faulted[actor] = true
		return nil, status.Error(codes.ResourceExhausted, "injected file pool failure")
	}
	f := &simFile{p: p, id: len(p.files), data: make([]byte, size), createdBy: actor}
	p.files = append(p.files, f)
	p.lastBy[actor] = f
	p.open++
	return f, nil
}

type simFile struct {
	p          *simPool
	id         int
	data       []byte
	closed     bool
	closeCount int
	createdBy  string
	owner      interface{} // world specific model object
}

func (f *simFile) use(what string) bool {
	if f.closed {
		f.p.b.k.Violate(f.p.b.prop+"/use-after-release", fmt.Sprintf("%s on pool file #%d by %s after its Close()", what, f.id, f.p.b.me()))
		return false
	}
	if f.p.onUse != nil {
		f.p.onUse(f, f.p.b.me(), what)
	}
	return true
}

func (f *simFile) ReadAt(p []byte, off int64) (int, error) {
	if !f.use("ReadAt") {
		return 0, status.Error(codes.Internal, "file closed")
	}
	actor := f.p.b.me()
	if pl := f.p.plan(actor); pl.failRead {
		pl.failRead = false
		f.p.b.k.FaultsFired["pool-read-error"]++
		f.p.b.faulted[actor] = true
		return 0, status.Error(codes.Internal, "injected read failure")
	}
	if off < 0 {
		return 0, status.Error(codes.InvalidArgument, "negative offset")
	}
	if off >= int64(len(f.data)) {
		return 0, io.EOF
	}
	n := copy(p, f.data[off:])
	if n < len(p) {
		return n, io.EOF
	}
	return n, nil
}

func (f *simFile) WriteAt(p []byte, off int64) (int, error) {
	if !f.use("WriteAt") {
		return 0, status.Error(codes.Internal, "file closed")
	}
	actor := f.p.b.me()
	n := len(p)
	var err error
	if pl := f.p.plan(actor); pl.failWrite {
		pl.failWrite = false
		f.p.b.k.FaultsFired["pool-write-error"]++
		f.p.b.faulted[actor] = true
		if pl.shortWrite < n {
			n = pl.shortWrite
		}
		err = status.Error(codes.Internal, "injected write failure")
	}
	if n > 0 {
		if end := int(off) + n; end > len(f.data) {
			f.data = append(f.data, make([]byte, end-len(f.data))...)
		}
		copy(f.data[off:], p[:n])
	}
	if f.p.onWrite != nil {
		f.p.onWrite(f, actor, p, off, n)
	}
	return n, err
}

func (f *simFile) Truncate(size int64) error {
	if !f.use("Truncate") {
		return status.Error(codes.Internal, "file closed")
	}
	actor := f.p.b.me()
	if pl := f.p.plan(actor); pl.failTruncate {
		pl.failTruncate = false
		f.p.b.k.FaultsFired["pool-truncate-error"]++
		f.p.b.faulted[actor] = true
		return status.Error(codes.Internal, "injected truncate failure")
	}
	if int(size) <= len(f.data) {
		f.data = f.data[:size:size]
	} else {
		f.data = append(f.data, make([]byte, int(size)-len(f.data))...)
	}
	if f.p.onTruncate != nil {
		f.p.onTruncate(f, actor, size)
	}
	return nil
}

func (f *simFile) Close() error {
	f.closeCount++
	if f.closed {
		f.p.b.k.Violate(f.p.b.prop+"/released-twice", fmt.Sprintf("Close() of pool file #%d called %d times (last by %s)", f.id, f.closeCount, f.p.b.me()))
		return nil
	}
	f.closed = true
	f.p.open--
	if f.p.onClose != nil {
		f.p.onClose(f, f.p.b.me())
	}
	return nil
}

func (f *simFile) Sync() error { return nil }

func (f *simFile) Len() (int64, error) {
	f.use("Len")
	return int64(len(f.data)), nil
}

func (f *simFile) GetNextRegionOffset(off int64, regionType filesystem.RegionType) (int64, error) {
	if !f.use("GetNextRegionOffset") {
		return 0, status.Error(codes.Internal, "file closed")
	}
	if off >= int64(len(f.data)) {
		return 0, io.EOF
	}
	switch regionType {
	case filesystem.Data:
		return off, nil
	default:
		return int64(len(f.data)), nil
	}
}

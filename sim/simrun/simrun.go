// Package simrun is the per-process run loop shared by all worlds: seeds,
// bubbles, result collection, replay and minimisation.
package simrun

import (
	"encoding/json"
	"fmt"
	"hash/fnv"
	"os"
	"regexp"
	"runtime/debug"
	"sort"
	"strconv"
	"strings"
	"testing"
	"testing/synctest"
	"time"

	"github.com/buildbarn/bb-remote-execution/pkg/verifsim/simsync"
)

// Run is what a world gets to work with for one simulated execution.
type Run struct {
	K    *simsync.Kernel
	T    *simsync.Tape
	Prop string
	Tier string
	// Counters are summed over all runs of the process.
	Counters map[string]int
	// States collects world-specific abstract states visited.
	States map[string]struct{}
	// NonTrivial must be set by the world when the run met the property's
	// non-triviality rule.
	NonTrivial bool
	SimTime    time.Duration
	// Sample is a short human-readable description of the run (workload).
	Sample []string
}

// Count adds to a per-process counter.
func (r *Run) Count(name string, n int) { r.Counters[name] += n }

// State records an abstract state.
func (r *Run) State(s string) { r.States[s] = struct{}{} }

// Logf appends to the run's sample log (bounded).
func (r *Run) Logf(format string, args ...interface{}) {
	if len(r.Sample) < 400 {
		r.Sample = append(r.Sample, fmt.Sprintf(format, args...))
	}
}

// World builds the system under test, drives r.K and evaluates the oracles
// of one property, reporting failures through r.K.Violate.
type World func(r *Run)

// Result of one run.
type Result struct {
	Seed       int64               `json:"seed"`
	Index      int                 `json:"index"`
	Tape       []uint32            `json:"tape"`
	Violations []simsync.Violation `json:"violations,omitempty"`
	Harness    string              `json:"harness_error,omitempty"`
	Trace      []string            `json:"trace,omitempty"`
	Sample     []string            `json:"sample,omitempty"`
	Steps      int                 `json:"steps"`
	Hash       uint64              `json:"hash"`
	NonTrivial bool                `json:"non_trivial"`
}

// KnownFinding is an entry of /verif/known_findings.json.
type KnownFinding struct {
	Property    string `json:"property"`
	Rule        string `json:"rule"`
	MsgPattern  string `json:"msg_pattern"`
	Description string `json:"description"`
	re          *regexp.Regexp
}

// ProcessOutput is what one worker process reports to the driver.
type ProcessOutput struct {
	Prop          string         `json:"prop"`
	Runs          int            `json:"runs"`
	NonTrivial    int            `json:"non_trivial"`
	Hashes        []uint64       `json:"hashes"` // distinct non-trivial trace hashes (capped)
	HashesCapped  bool           `json:"hashes_capped"`
	Steps         int            `json:"steps"`
	SimTimeS      float64        `json:"sim_time_s"`
	Counters      map[string]int `json:"counters"`
	Faults        map[string]int `json:"faults"`
	Probes        map[string]int `json:"probes"`
	States        []string       `json:"states"`
	Failure       *Result        `json:"failure,omitempty"`
	Known         map[string]int `json:"known,omitempty"`
	HarnessError  string         `json:"harness_error,omitempty"`
	Samples       []Result       `json:"samples,omitempty"`
	WallS         float64        `json:"wall_s"`
	OrderSens     int            `json:"order_sensitive"`
	LeakedBubbles int            `json:"leaked_bubbles"`
}

func seedFor(base int64, prop string, i int) int64 {
	h := fnv.New64a()
	fmt.Fprintf(h, "%d/%s/%d", base, prop, i)
	return int64(h.Sum64() >> 1)
}

func envInt(name string, def int) int {
	if v := os.Getenv(name); v != "" {
		if n, err := strconv.Atoi(v); err == nil {
			return n
		}
	}
	return def
}

var leaked int

// panicRaisedBySystem reports whether the innermost non-runtime frame below
// the panic in a stack dump belongs to the repository under test rather than
// to the simulator or a world.
func panicRaisedBySystem(stack string) bool {
	lines := strings.Split(stack, "\n")
	seenPanic := false
	for _, l := range lines {
		if strings.HasPrefix(l, "\t") || l == "" {
			continue
		}
		if !seenPanic {
			seenPanic = strings.HasPrefix(l, "panic(")
			continue
		}
		if strings.HasPrefix(l, "runtime.") || strings.HasPrefix(l, "panic(") {
			continue
		}
		return strings.HasPrefix(l, "github.com/buildbarn/bb-remote-execution/") && !strings.Contains(l, "/pkg/verifsim/")
	}
	return false
}

// Exec runs one world once inside a fresh bubble.
func Exec(t *testing.T, w World, prop, tier string, tape *simsync.Tape, trace bool, counters map[string]int, states map[string]struct{}) (res Result, k *simsync.Kernel, run *Run) {
	func() {
		defer func() {
			if r := recover(); r != nil {
				msg := fmt.Sprint(r)
				if strings.Contains(msg, "deadlock") || strings.Contains(msg, "blocked goroutines") {
					leaked++
					return
				}
				if he, ok := r.(simsync.HarnessError); ok {
					res.Harness = he.Msg
					return
				}
				res.Harness = "panic outside actors: " + msg
			}
		}()
		synctest.Test(t, func(t *testing.T) {
			k = simsync.NewKernel(tape)
			k.TraceOn = trace
			run = &Run{K: k, T: tape, Prop: prop, Tier: tier, Counters: counters, States: states}
			defer func() {
				// A panic on the controller goroutine must not leave the
				// bubble: testing's runner would turn it into a process
				// exit. Harness errors and anything else become a harness
				// error of this run (exit 2 in the driver).
				r := recover()
				if r != nil {
					if he, ok := r.(simsync.HarnessError); ok {
						res.Harness = he.Msg
					} else if st := string(debug.Stack()); panicRaisedBySystem(st) {
						// The controller called into the system under test
						// (an oracle reading state back, an end-of-run call)
						// and the system's own code panicked.
						msg := fmt.Sprint(r)
						k.Violate("panic:"+strings.SplitN(msg, "\n", 2)[0], fmt.Sprintf("code of the system under test panicked while called from the controller goroutine: %s\n%s", msg, st))
					} else {
						res.Harness = fmt.Sprintf("panic on the controller goroutine: %v\n%s", r, st)
					}
				}
				func() {
					defer func() {
						if r2 := recover(); r2 != nil && res.Harness == "" {
							res.Harness = fmt.Sprintf("panic during teardown: %v", r2)
						}
					}()
					k.Teardown()
				}()
				k.Close()
			}()
			w(run)
		})
	}()
	if k != nil {
		res.Violations = k.Violations
		if he := k.HarnessErr(); he != nil && res.Harness == "" {
			res.Harness = he.Msg
		}
		res.Trace = k.Trace
		res.Steps = k.Step
		res.Hash = k.TraceHash()
	}
	if run != nil {
		res.NonTrivial = run.NonTrivial
		res.Sample = run.Sample
	}
	res.Tape = tape.Rec
	return
}

func loadKnown(prop string) []KnownFinding {
	path := os.Getenv("VERIF_KNOWN")
	if path == "" {
		return nil
	}
	data, err := os.ReadFile(path)
	if err != nil {
		return nil
	}
	var file struct {
		Findings []KnownFinding `json:"findings"`
	}
	if json.Unmarshal(data, &file) != nil {
		return nil
	}
	var out []KnownFinding
	for _, f := range file.Findings {
		if f.Property == prop {
			f.re = regexp.MustCompile(f.MsgPattern)
			out = append(out, f)
		}
	}
	return out
}

func matchKnown(known []KnownFinding, v simsync.Violation) string {
	for _, f := range known {
		if f.Rule == v.Rule && f.re.MatchString(v.Msg) {
			return f.Rule + " " + f.Description
		}
	}
	return ""
}

func writeJSON(path string, v interface{}) {
	data, err := json.MarshalIndent(v, "", " ")
	if err != nil {
		panic(err)
	}
	if err := os.WriteFile(path, data, 0o644); err != nil {
		panic(err)
	}
}

// Main is called from each world package's single test function.
func Main(t *testing.T, worlds map[string]World) {
	prop := os.Getenv("VERIF_PROP")
	w, ok := worlds[prop]
	if !ok {
		t.Skipf("no world for VERIF_PROP=%q in this binary", prop)
		return
	}
	tier := os.Getenv("VERIF_TIER")
	if tier == "" {
		tier = "quick"
	}
	out := os.Getenv("VERIF_OUT")
	switch os.Getenv("VERIF_MODE") {
	case "replay":
		replay(t, w, prop, tier, out)
	case "minimise":
		minimise(t, w, prop, tier, out)
	case "hashes":
		hashes(t, w, prop, tier, out)
	case "one":
		// Debugging aid: execute exactly one run index with tracing.
		base := int64(envInt("VERIF_SEED", 1))
		i := envInt("VERIF_RUN_INDEX", 0)
		res, _, _ := Exec(t, w, prop, tier, simsync.NewTape(seedFor(base, prop, i)), true, map[string]int{}, map[string]struct{}{})
		res.Index = i
		writeJSON(out, res)
	default:
		explore(t, w, prop, tier, out)
	}
}

func explore(t *testing.T, w World, prop, tier, out string) {
	base := int64(envInt("VERIF_SEED", 1))
	proc := envInt("VERIF_PROC", 0)
	nproc := envInt("VERIF_NPROC", 1)
	budget := time.Duration(envInt("VERIF_BUDGET_S", 10)) * time.Second
	maxRuns := envInt("VERIF_MAX_RUNS", 1<<30)
	known := loadKnown(prop)
	po := ProcessOutput{Prop: prop, Counters: map[string]int{}, Faults: map[string]int{}, Probes: map[string]int{}, Known: map[string]int{}}
	states := map[string]struct{}{}
	hashes := map[uint64]struct{}{}
	start := time.Now()
	const hashCap = 200000
	for i := proc; po.Runs < maxRuns; i += nproc {
		if time.Since(start) > budget {
			break
		}
		seed := seedFor(base, prop, i)
		tape := simsync.NewTape(seed)
		res, k, run := Exec(t, w, prop, tier, tape, false, po.Counters, states)
		res.Seed, res.Index = seed, i
		po.Runs++
		if res.Harness != "" {
			po.HarnessError = fmt.Sprintf("run %d seed %d: %s", i, seed, res.Harness)
			break
		}
		if k != nil {
			po.Steps += k.Step
			for f, n := range k.FaultsFired {
				po.Faults[f] += n
			}
			for p, n := range k.Probes {
				po.Probes[p] += n
			}
		}
		if run != nil {
			po.SimTimeS += run.SimTime.Seconds()
		}
		if res.NonTrivial {
			po.NonTrivial++
			if len(hashes) < hashCap {
				hashes[res.Hash] = struct{}{}
			} else {
				po.HashesCapped = true
			}
		}
		if len(res.Violations) > 0 {
			if kf := matchKnown(known, res.Violations[0]); kf != "" {
				po.Known[kf]++
				continue
			}
			// Re-run with tracing for the report.
			rt := simsync.NewReplayTape(res.Tape)
			res2, _, _ := Exec(t, w, prop, tier, rt, true, map[string]int{}, map[string]struct{}{})
			res.Trace = res2.Trace
			if len(res2.Violations) == 0 || res2.Violations[0].Rule != res.Violations[0].Rule {
				res.Sample = append(res.Sample, "WARNING: in-process replay did not reproduce the same rule")
			}
			po.Failure = &res
			break
		}
		if len(po.Samples) < 2 && res.NonTrivial && proc == 0 {
			rt := simsync.NewReplayTape(res.Tape)
			res2, _, _ := Exec(t, w, prop, tier, rt, true, map[string]int{}, map[string]struct{}{})
			res2.Seed, res2.Index = seed, i
			res2.Tape = nil
			if len(res2.Trace) > 300 {
				res2.Trace = append(res2.Trace[:300], "...")
			}
			po.Samples = append(po.Samples, res2)
		}
	}
	for h := range hashes {
		po.Hashes = append(po.Hashes, h)
	}
	for s := range states {
		po.States = append(po.States, s)
	}
	sort.Strings(po.States)
	po.WallS = time.Since(start).Seconds()
	po.OrderSens = simsync.OrderSensitive
	po.LeakedBubbles = leaked
	if out != "" {
		writeJSON(out, po)
	}
}

// ReplayFile is the on-disk replay artefact.
type ReplayFile struct {
	Property  string   `json:"property"`
	Rule      string   `json:"rule"`
	Message   string   `json:"message"`
	Seed      int64    `json:"seed"`
	Tier      string   `json:"tier"`
	Tape      []uint32 `json:"tape"`
	Trace     []string `json:"trace"`
	Sample    []string `json:"sample"`
	Minimised bool     `json:"minimised"`
	RepoRev   string   `json:"repo_rev,omitempty"`
	GoVersion string   `json:"go_version,omitempty"`
}

func replay(t *testing.T, w World, prop, tier, out string) {
	var rf ReplayFile
	data, err := os.ReadFile(os.Getenv("VERIF_REPLAY"))
	if err != nil {
		t.Fatal(err)
	}
	if err := json.Unmarshal(data, &rf); err != nil {
		t.Fatal(err)
	}
	if rf.Tier != "" {
		tier = rf.Tier
	}
	res, _, _ := Exec(t, w, prop, tier, simsync.NewReplayTape(rf.Tape), true, map[string]int{}, map[string]struct{}{})
	if out != "" {
		writeJSON(out, res)
	}
}

// minimise shrinks the tape of VERIF_REPLAY while the same rule fires.
func minimise(t *testing.T, w World, prop, tier, out string) {
	var rf ReplayFile
	data, err := os.ReadFile(os.Getenv("VERIF_REPLAY"))
	if err != nil {
		t.Fatal(err)
	}
	if err := json.Unmarshal(data, &rf); err != nil {
		t.Fatal(err)
	}
	if rf.Tier != "" {
		tier = rf.Tier
	}
	deadline := time.Now().Add(time.Duration(envInt("VERIF_BUDGET_S", 60)) * time.Second)
	tries := 0
	fails := func(tape []uint32) (bool, Result) {
		tries++
		res, _, _ := Exec(t, w, prop, tier, simsync.NewReplayTape(tape), false, map[string]int{}, map[string]struct{}{})
		return res.Harness == "" && len(res.Violations) > 0 && res.Violations[0].Rule == rf.Rule, res
	}
	cur := append([]uint32(nil), rf.Tape...)
	if ok, res := fails(cur); ok {
		// Use the tape as actually consumed (drops unread tail).
		if len(res.Tape) < len(cur) {
			cur = append([]uint32(nil), res.Tape...)
		}
	} else {
		rf.Sample = append(rf.Sample, "minimiser: original tape did not reproduce in-process")
		writeJSON(out, rf)
		return
	}
	// Phase 1: truncate tail (0 = benign default afterwards).
	for n := len(cur) / 2; n >= 1 && time.Now().Before(deadline); {
		if len(cur)-n >= 0 {
			cand := cur[:len(cur)-n]
			if ok, _ := fails(cand); ok {
				cur = append([]uint32(nil), cand...)
				if n > len(cur) {
					n = len(cur)
				}
				continue
			}
		}
		n /= 2
	}
	// Phase 2: ddmin-style chunk deletion.
	for chunk := len(cur) / 2; chunk >= 1 && time.Now().Before(deadline); chunk /= 2 {
		for i := 0; i+chunk <= len(cur) && time.Now().Before(deadline); {
			cand := append(append([]uint32(nil), cur[:i]...), cur[i+chunk:]...)
			if ok, _ := fails(cand); ok {
				cur = cand
			} else {
				i += chunk
			}
		}
	}
	// Phase 3: lower entries towards 0.
	for i := 0; i < len(cur) && time.Now().Before(deadline); i++ {
		if cur[i] == 0 {
			continue
		}
		for _, v := range []uint32{0, cur[i] / 2, cur[i] - 1} {
			if v >= cur[i] {
				continue
			}
			cand := append([]uint32(nil), cur...)
			cand[i] = v
			if ok, _ := fails(cand); ok {
				cur = cand
				break
			}
		}
	}
	for len(cur) > 0 && cur[len(cur)-1] == 0 {
		cand := cur[:len(cur)-1]
		if ok, _ := fails(cand); !ok {
			break
		}
		cur = cand
	}
	res, _, _ := Exec(t, w, prop, tier, simsync.NewReplayTape(cur), true, map[string]int{}, map[string]struct{}{})
	rf.Sample = append(res.Sample, fmt.Sprintf("minimiser: %d -> %d tape entries in %d executions", len(rf.Tape), len(cur), tries))
	rf.Tape = cur
	rf.Trace = res.Trace
	if len(res.Violations) > 0 {
		rf.Message = res.Violations[0].Msg
	}
	rf.Minimised = true
	writeJSON(out, rf)
}

// hashes runs a fixed set of seeds and writes one line per run with the
// decision-trace hash; used by the determinism self-test.
func hashes(t *testing.T, w World, prop, tier, out string) {
	base := int64(envInt("VERIF_SEED", 1))
	n := envInt("VERIF_MAX_RUNS", 100)
	var sb strings.Builder
	for i := 0; i < n; i++ {
		seed := seedFor(base, prop, i)
		res, _, _ := Exec(t, w, prop, tier, simsync.NewTape(seed), false, map[string]int{}, map[string]struct{}{})
		rule := ""
		if len(res.Violations) > 0 {
			rule = res.Violations[0].Rule
		}
		fmt.Fprintf(&sb, "%d %d %x %d %d %s %s\n", i, seed, res.Hash, res.Steps, len(res.Tape), rule, res.Harness)
	}
	if err := os.WriteFile(out, []byte(sb.String()), 0o644); err != nil {
		t.Fatal(err)
	}
}

// Package simsync is the deterministic simulation kernel: it owns every mutex
// of the code under test (after simrewrite replaced sync.Mutex/RWMutex), every
// park point ("ticket") of every actor, and the choice tape. One controller
// goroutine decides, at quiescence, which single enabled event happens next.
package simsync

import (
	"fmt"
	"hash/fnv"
	"runtime"
	"sort"
	"strconv"
	"strings"
	"sync"
	"testing/synctest"
)

// K is the kernel of the run currently executing in this process (nil
// outside simulation, in which case the simulated mutexes fall back to real
// ones).
var K *Kernel

// Poison is the panic value used to unwind actors when a run is torn down.
type Poison struct{}

// HarnessError is a panic value that denotes a defect of the harness itself
// (never reported as a violation; exit code 2).
type HarnessError struct{ Msg string }

func (e HarnessError) Error() string { return "harness: " + e.Msg }

// Violation is a property violation detected by the kernel or an oracle.
type Violation struct {
	Rule string // e.g. "C14/deadlock" or "panic:Invalid queue indices"
	Msg  string
	Step int
}

type ticketKind int

const (
	tSeam ticketKind = iota
	tLock
	tRLock
	tTryLock
	tLockDrain
)

// Ticket is a park point of an actor.
type Ticket struct {
	kind    ticketKind
	mu      *Mutex
	rw      *RWMutex
	Label   string
	Options []string // for seams: option 0 = normal, others = faults
	// Weights of the non-zero options, relative to the kernel default.
	FaultWeight int
	// When, if set, gates the ticket: it is enabled only while When() is true.
	When func() bool
	// Weight of the normal resume event (default 10).
	Weight int
}

// Actor is a goroutine running code under test, known to the kernel.
type Actor struct {
	Name     string
	goid     int64
	ticket   *Ticket
	done     bool
	started  bool
	resume   chan int
	childSeq map[string]int
	allocSeq uint64
	// Tags set by the harness, e.g. what the actor is doing now.
	Tag string
	// Prio is used by the PCT strategy.
	Prio int
	// adopted goroutines are never poisoned at teardown.
	adopted bool
}

// Parked reports whether the actor is waiting at a ticket.
func (a *Actor) Parked() bool { return a.ticket != nil }

// Done reports whether the actor's function has returned.
func (a *Actor) Done() bool { return a.done }

// TicketLabel returns the label of the ticket the actor is parked at.
func (a *Actor) TicketLabel() string {
	if a.ticket == nil {
		return ""
	}
	return a.ticket.Label
}

// ParkedAtSeam reports whether the actor is parked at a seam ticket.
func (a *Actor) ParkedAtSeam() bool { return a.ticket != nil && a.ticket.kind == tSeam }

// Event is one thing the controller can decide to do next.
type Event struct {
	Key    string
	Weight int
	Fire   func()
}

// Kernel is the state of one simulated run.
type Kernel struct {
	mu         sync.Mutex
	Tape       *Tape
	actors     map[int64]*Actor
	names      map[string]*Actor
	controller int64
	sources    []func() []Event
	TraceOn    bool
	Trace      []string
	hash       uint64
	Step       int
	Violations []Violation
	poisoned   bool
	held       map[interface{}]string // mutex -> holder description
	// FaultsOn gates fault options on seam tickets.
	FaultsOn bool
	// Stats
	FaultsFired map[string]int
	Probes      map[string]int
	LockParks   int
	SeamParks   int
	MaxParked   int
	// Strategy: 0 = weighted random, 1 = PCT-like priorities.
	Strategy      int
	pctChangeAt   map[int]bool
	tagSeq        map[uintptr]tagVal
	tagMu         sync.Mutex
	tagKeep       []interface{}
	ctlAlloc      uint64
	AfterStep     func()
	harnessErr    *HarnessError
	StopRequested bool
	// AtomicPoints turns the AtomicPoint calls inserted by simrewrite into
	// scheduling points (interleavings between individual atomic operations).
	AtomicPoints bool
	AtomicParks  int
	rr           int
	// LastActor is the actor resumed by the most recent step (nil for
	// controller-only events); LastKey is that step's event key.
	LastActor *Actor
	LastKey   string
}

type tagVal struct {
	actor string
	seq   uint64
}

// NewKernel creates a kernel and installs it as the current one.
func NewKernel(tape *Tape) *Kernel {
	k := &Kernel{
		Tape:        tape,
		actors:      map[int64]*Actor{},
		names:       map[string]*Actor{},
		held:        map[interface{}]string{},
		FaultsOn:    true,
		FaultsFired: map[string]int{},
		Probes:      map[string]int{},
		tagSeq:      map[uintptr]tagVal{},
		hash:        14695981039346656037,
	}
	k.controller = goid()
	K = k
	return k
}

// Close uninstalls the kernel.
func (k *Kernel) Close() {
	if K == k {
		K = nil
	}
}

func goid() int64 {
	var buf [64]byte
	n := runtime.Stack(buf[:], false)
	// "goroutine 123 ["
	s := buf[10:n]
	i := 0
	for i < len(s) && s[i] >= '0' && s[i] <= '9' {
		i++
	}
	id, _ := strconv.ParseInt(string(s[:i]), 10, 64)
	return id
}

// Me returns the actor of the calling goroutine, or nil for the controller.
func (k *Kernel) Me() *Actor {
	g := goid()
	if g == k.controller {
		return nil
	}
	k.mu.Lock()
	a := k.actors[g]
	k.mu.Unlock()
	if a == nil {
		panic(HarnessError{fmt.Sprintf("goroutine %d is not a registered actor\n%s", g, stack())})
	}
	return a
}

// IsController reports whether the caller is the controller goroutine.
func (k *Kernel) IsController() bool { return goid() == k.controller }

func stack() string {
	buf := make([]byte, 8192)
	n := runtime.Stack(buf, false)
	return string(buf[:n])
}

// Spawn starts a new top-level actor.
func (k *Kernel) Spawn(name string, fn func()) *Actor {
	k.mu.Lock()
	if _, ok := k.names[name]; ok {
		k.mu.Unlock()
		panic(HarnessError{"duplicate actor name " + name})
	}
	a := &Actor{Name: name, resume: make(chan int), childSeq: map[string]int{}}
	k.names[name] = a
	k.mu.Unlock()
	go k.runActor(a, fn)
	return a
}

func (k *Kernel) runActor(a *Actor, fn func()) {
	a.goid = goid()
	k.mu.Lock()
	k.actors[a.goid] = a
	a.started = true
	k.mu.Unlock()
	defer func() {
		r := recover()
		k.mu.Lock()
		a.done = true
		a.ticket = nil
		delete(k.actors, a.goid)
		k.mu.Unlock()
		if r == nil {
			return
		}
		switch v := r.(type) {
		case Poison:
		case HarnessError:
			k.mu.Lock()
			if k.harnessErr == nil {
				k.harnessErr = &v
			}
			k.mu.Unlock()
		default:
			msg := fmt.Sprint(r)
			k.Violate("panic:"+firstLine(msg), fmt.Sprintf("actor %s panicked: %s\n%s", a.Name, msg, stack()))
		}
	}()
	// Every actor starts parked, so that nothing runs before the
	// controller says so.
	k.park(a, &Ticket{kind: tSeam, Label: "start"})
	fn()
}

func firstLine(s string) string {
	if i := strings.IndexByte(s, '\n'); i >= 0 {
		s = s[:i]
	}
	if len(s) > 120 {
		s = s[:120]
	}
	return s
}

// AdoptCurrent registers the calling goroutine, which was started by a
// library on behalf of the code under test (e.g. an errgroup worker), as an
// actor with the given unique, deterministic name. The goroutine counts as
// running; its first park point should follow at once. An adopted goroutine
// has no recover frame of the kernel below it: the world must let it run to
// completion (and call Retire) before the run is torn down.
func (k *Kernel) AdoptCurrent(name string) *Actor {
	id := goid()
	a := &Actor{Name: name, goid: id, started: true, resume: make(chan int), childSeq: map[string]int{}, adopted: true}
	k.mu.Lock()
	defer k.mu.Unlock()
	if _, dup := k.names[name]; dup {
		panic(HarnessError{"duplicate actor name " + name})
	}
	if _, dup := k.actors[id]; dup {
		panic(HarnessError{"goroutine adopted twice: " + name})
	}
	k.names[name] = a
	k.actors[id] = a
	return a
}

// Retire marks an adopted goroutine as finished.
func (k *Kernel) Retire(a *Actor) {
	k.mu.Lock()
	if !a.done {
		a.done = true
		a.ticket = nil
		delete(k.actors, a.goid)
	}
	k.mu.Unlock()
}

// Go is what simrewrite turns `go func(){...}()` statements of the code under
// test into: the child gets a deterministic name derived from its parent.
func Go(site string, fn func()) {
	k := K
	if k == nil {
		go fn()
		return
	}
	var parent string
	g := goid()
	k.mu.Lock()
	var pa *Actor
	if g != k.controller {
		pa = k.actors[g]
	}
	if pa == nil {
		parent = "ctl"
		if k.names["ctl"] == nil {
			k.names["ctl"] = &Actor{Name: "ctl", childSeq: map[string]int{}, done: true}
		}
		pa = k.names["ctl"]
	} else {
		parent = pa.Name
	}
	n := pa.childSeq[site]
	pa.childSeq[site] = n + 1
	k.mu.Unlock()
	k.Spawn(fmt.Sprintf("%s/%s#%d", parent, site, n), fn)
}

func (k *Kernel) park(a *Actor, t *Ticket) int {
	k.mu.Lock()
	if k.poisoned {
		k.mu.Unlock()
		panic(Poison{})
	}
	if a.ticket != nil {
		k.mu.Unlock()
		panic(HarnessError{"actor " + a.Name + " parks twice"})
	}
	a.ticket = t
	if t.kind == tSeam {
		k.SeamParks++
	} else {
		k.LockParks++
	}
	k.mu.Unlock()
	v := <-a.resume
	if v < 0 {
		panic(Poison{})
	}
	return v
}

// Seam parks the calling actor at a named seam. options[0] is the normal
// outcome, further options are faults the controller may choose instead while
// fault injection is on. Returns the chosen option index. Called by the
// controller goroutine it returns 0 immediately.
func (k *Kernel) Seam(label string, options ...string) int {
	if k.IsController() {
		return 0
	}
	a := k.Me()
	return k.park(a, &Ticket{kind: tSeam, Label: label, Options: options})
}

// SeamWhen parks the calling actor until the controller resumes it, which it
// may only do while when() is true.
func (k *Kernel) SeamWhen(label string, when func() bool) {
	if k.IsController() {
		return
	}
	a := k.Me()
	k.park(a, &Ticket{kind: tSeam, Label: label, When: when})
}

// SeamW is Seam with explicit weights for the normal event and for each fault.
func (k *Kernel) SeamW(label string, weight, faultWeight int, options ...string) int {
	if k.IsController() {
		return 0
	}
	a := k.Me()
	if faultWeight <= 0 && len(options) > 1 {
		options = options[:1]
	}
	return k.park(a, &Ticket{kind: tSeam, Label: label, Options: options, Weight: weight, FaultWeight: faultWeight})
}

// AtomicPoint is inserted by simrewrite before every statement of the code
// under test that calls a method of a sync/atomic type. It is a scheduling
// point only in runs whose world set Kernel.AtomicPoints, and only for
// goroutines that are actors; otherwise it does nothing.
func AtomicPoint() {
	k := K
	if k == nil || !k.AtomicPoints {
		return
	}
	g := goid()
	if g == k.controller {
		return
	}
	k.mu.Lock()
	a := k.actors[g]
	k.mu.Unlock()
	if a == nil {
		return
	}
	k.AtomicParks++
	k.park(a, &Ticket{kind: tSeam, Label: "atomic"})
}

// Yield is a seam without fault options.
func (k *Kernel) Yield(label string) { k.Seam(label) }

// Violate records a violation; the run stops at the next controller step.
func (k *Kernel) Violate(rule, msg string) {
	k.mu.Lock()
	k.Violations = append(k.Violations, Violation{Rule: rule, Msg: msg, Step: k.Step})
	k.mu.Unlock()
}

// Failed reports whether a violation has been recorded.
func (k *Kernel) Failed() bool {
	k.mu.Lock()
	defer k.mu.Unlock()
	return len(k.Violations) > 0 || k.harnessErr != nil
}

// HarnessErr returns a harness error raised inside an actor, if any.
func (k *Kernel) HarnessErr() *HarnessError { return k.harnessErr }

// Probe counts a "this rare condition was hit" event.
func (k *Kernel) Probe(name string) {
	k.mu.Lock()
	k.Probes[name]++
	k.mu.Unlock()
}

// AddSource registers a world-specific source of controller events.
func (k *Kernel) AddSource(f func() []Event) { k.sources = append(k.sources, f) }

// Actors returns all actors sorted by name.
func (k *Kernel) Actors() []*Actor {
	k.mu.Lock()
	defer k.mu.Unlock()
	out := make([]*Actor, 0, len(k.names))
	for _, a := range k.names {
		out = append(out, a)
	}
	sort.Slice(out, func(i, j int) bool { return out[i].Name < out[j].Name })
	return out
}

// Actor returns the actor with the given name.
func (k *Kernel) Actor(name string) *Actor {
	k.mu.Lock()
	defer k.mu.Unlock()
	return k.names[name]
}

// Blocked reports whether the actor is blocked inside the code under test
// (neither parked, done nor unstarted). Only meaningful at quiescence.
func (a *Actor) Blocked() bool { return a.started && !a.done && a.ticket == nil }

// TreeQuiet reports whether every actor whose name is prefix or starts with
// prefix+"/" is blocked, done, or parked at a seam whose label has one of the
// given prefixes. Used for the context rule.
func (k *Kernel) TreeQuiet(prefix string, seamPrefixes ...string) bool {
	for _, a := range k.Actors() {
		if a.Name != prefix && !strings.HasPrefix(a.Name, prefix+"/") {
			continue
		}
		if a.done || a.Blocked() {
			continue
		}
		if !a.started {
			return false
		}
		ok := false
		if a.ticket != nil && a.ticket.kind == tSeam {
			for _, p := range seamPrefixes {
				if strings.HasPrefix(a.ticket.Label, p) {
					ok = true
				}
			}
		}
		if !ok {
			return false
		}
	}
	return true
}

func (k *Kernel) ticketEnabled(t *Ticket) bool {
	if t.When != nil && !t.When() {
		return false
	}
	switch t.kind {
	case tLock:
		if t.mu != nil {
			return t.mu.holder == ""
		}
		return t.rw.wHeld == ""
	case tLockDrain:
		return t.rw.readers == 0
	case tRLock:
		return t.rw.wHeld == ""
	}
	return true
}

func (k *Kernel) ticketKey(a *Actor, t *Ticket) string {
	switch t.kind {
	case tLock, tLockDrain:
		return "lock " + a.Name
	case tRLock:
		return "rlock " + a.Name
	case tTryLock:
		return "trylock " + a.Name
	}
	return "go " + a.Name + " @" + t.Label
}

// collect builds the canonical list of enabled events.
func (k *Kernel) collect() []Event {
	var evs []Event
	actors := k.Actors()
	parked := 0
	for _, a := range actors {
		t := a.ticket
		if t == nil || a.done {
			continue
		}
		parked++
		if !k.ticketEnabled(t) {
			continue
		}
		a := a
		w := 10
		if t.Weight > 0 {
			w = t.Weight
		}
		if k.Strategy == 1 {
			w = a.Prio
		}
		evs = append(evs, Event{Key: k.ticketKey(a, t), Weight: w, Fire: func() { k.resume(a, 0) }})
		if t.kind == tSeam && k.FaultsOn {
			for i := 1; i < len(t.Options); i++ {
				i := i
				fw := t.FaultWeight
				if fw == 0 {
					fw = 1
				}
				evs = append(evs, Event{
					Key:    "fault " + a.Name + " @" + t.Label + " =" + t.Options[i],
					Weight: fw,
					Fire: func() {
						k.FaultsFired[t.Options[i]]++
						k.resume(a, i)
					},
				})
			}
		}
	}
	if parked > k.MaxParked {
		k.MaxParked = parked
	}
	for _, s := range k.sources {
		evs = append(evs, s()...)
	}
	return evs
}

func (k *Kernel) resume(a *Actor, opt int) {
	k.mu.Lock()
	k.LastActor = a
	t := a.ticket
	a.ticket = nil
	switch t.kind {
	case tLock:
		if t.mu != nil {
			t.mu.holder = a.Name
			k.held[t.mu] = a.Name
		} else {
			t.rw.wHeld = a.Name
			if t.rw.readers == 0 {
				t.rw.writer = a.Name
				k.held[t.rw] = a.Name
			}
		}
	case tLockDrain:
		t.rw.writer = a.Name
		k.held[t.rw] = a.Name
	case tRLock:
		t.rw.readers++
		k.held[t.rw] = "readers"
	}
	k.mu.Unlock()
	a.resume <- opt
}

// HeldLocks returns a description of every simulated mutex currently held.
func (k *Kernel) HeldLocks() []string {
	k.mu.Lock()
	defer k.mu.Unlock()
	var out []string
	for m, h := range k.held {
		out = append(out, fmt.Sprintf("%T held by %s", m, h))
	}
	sort.Strings(out)
	return out
}

// Run executes controller steps until nothing is enabled, a violation is
// recorded, StopRequested is set or maxSteps is reached. It returns true if it
// stopped because nothing was enabled.
func (k *Kernel) Run(maxSteps int) bool {
	for n := 0; n < maxSteps; n++ {
		synctest.Wait()
		if k.Failed() || k.StopRequested {
			return false
		}
		evs := k.collect()
		if len(evs) == 0 {
			return true
		}
		w := make([]int, len(evs))
		for i := range evs {
			w[i] = evs[i].Weight
			if w[i] <= 0 {
				w[i] = 1
			}
		}
		ev := evs[k.Tape.Weighted(w)]
		k.record(ev.Key)
		k.LastActor = nil
		k.LastKey = ev.Key
		k.Step++
		ev.Fire()
		if k.AfterStep != nil {
			synctest.Wait()
			if k.Failed() {
				return false
			}
			k.AfterStep()
		}
	}
	synctest.Wait()
	return false
}

// RunFair executes controller steps without consulting the tape: among the
// enabled events those of the lowest class (as given by class(key); negative =
// never) are taken round-robin. Used for end-of-run protocols, whose outcome
// must not depend on the tape (a minimised or exhausted tape would otherwise
// be able to starve somebody and fake a "call never returned").
func (k *Kernel) RunFair(maxSteps int, class func(key string) int) bool {
	for n := 0; n < maxSteps; n++ {
		synctest.Wait()
		if k.Failed() || k.StopRequested {
			return false
		}
		evs := k.collect()
		best := -1
		var cand []Event
		for _, ev := range evs {
			c := class(ev.Key)
			if c < 0 {
				continue
			}
			if best < 0 || c < best {
				best, cand = c, cand[:0]
			}
			if c == best {
				cand = append(cand, ev)
			}
		}
		if len(cand) == 0 {
			return true
		}
		ev := cand[k.rr%len(cand)]
		k.rr++
		k.record(ev.Key)
		k.LastActor = nil
		k.LastKey = ev.Key
		k.Step++
		ev.Fire()
		if k.AfterStep != nil {
			synctest.Wait()
			if k.Failed() {
				return false
			}
			k.AfterStep()
		}
	}
	synctest.Wait()
	return false
}

func (k *Kernel) record(key string) {
	h := fnv.New64a()
	h.Write([]byte(key))
	k.hash = (k.hash ^ h.Sum64()) * 1099511628211
	if k.TraceOn {
		k.Trace = append(k.Trace, fmt.Sprintf("%d %s", k.Step, key))
	}
}

// Note adds a line to the decision trace (and to the trace hash) without
// being a decision.
func (k *Kernel) Note(s string) {
	k.mu.Lock()
	k.record("  # " + s)
	k.mu.Unlock()
}

// Annotate adds a line to the decision trace when tracing is on; it never
// influences the run or its hash.
func (k *Kernel) Annotate(format string, args ...interface{}) {
	if k.TraceOn {
		k.Trace = append(k.Trace, "      | "+fmt.Sprintf(format, args...))
	}
}

// TraceHash returns the hash of all decisions taken so far.
func (k *Kernel) TraceHash() uint64 { return k.hash }

// Stuck describes actors that are not done: those parked at lock tickets
// (deadlock candidates) and those blocked inside the code under test.
func (k *Kernel) Stuck() (lockWaiters, blocked, seamParked []string) {
	for _, a := range k.Actors() {
		if a.done {
			continue
		}
		switch {
		case a.ticket == nil:
			blocked = append(blocked, a.Name+"["+a.Tag+"]")
		case a.ticket.kind == tSeam:
			seamParked = append(seamParked, a.Name+"@"+a.ticket.Label)
		default:
			lockWaiters = append(lockWaiters, a.Name+"["+a.Tag+"]")
		}
	}
	return
}

// Teardown poisons every parked actor so that its goroutine exits.
func (k *Kernel) Teardown() {
	k.mu.Lock()
	k.poisoned = true
	var parked []*Actor
	for _, a := range k.names {
		if a.ticket != nil && !a.done && !a.adopted {
			parked = append(parked, a)
		}
	}
	k.mu.Unlock()
	for _, a := range parked {
		a.ticket = nil
		a.resume <- -1
	}
	synctest.Wait()
}

// Tag gives a freshly allocated object a deterministic identity
// (allocating actor, per-actor sequence number) so that maps keyed by
// pointers can be iterated in a reproducible order.
func tagOf(p uintptr) (tagVal, bool) {
	k := K
	if k == nil {
		return tagVal{}, false
	}
	k.tagMu.Lock()
	v, ok := k.tagSeq[p]
	k.tagMu.Unlock()
	return v, ok
}

func registerTag(p uintptr, keep interface{}) {
	k := K
	if k == nil {
		return
	}
	g := goid()
	name := "ctl"
	var seq uint64
	k.mu.Lock()
	if a := k.actors[g]; a != nil {
		name = a.Name
		a.allocSeq++
		seq = a.allocSeq
	} else {
		k.ctlAlloc++
		seq = k.ctlAlloc
	}
	k.mu.Unlock()
	k.tagMu.Lock()
	k.tagSeq[p] = tagVal{name, seq}
	k.tagKeep = append(k.tagKeep, keep)
	k.tagMu.Unlock()
}

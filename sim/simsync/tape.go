package simsync

import "math/rand"

// Tape is the single source of every choice made during one simulated run.
// In generation mode values are drawn from a PRNG seeded with the run seed and
// recorded; in replay mode they are read back from a recorded tape (0 once the
// tape is exhausted, which is always the benign default).
type Tape struct {
	rng       *rand.Rand
	Rec       []uint32
	replay    []uint32
	pos       int
	Replaying bool
}

// NewTape creates a tape in generation mode.
func NewTape(seed int64) *Tape {
	return &Tape{rng: rand.New(rand.NewSource(seed))}
}

// NewReplayTape creates a tape that replays the given values.
func NewReplayTape(values []uint32) *Tape {
	return &Tape{replay: values, Replaying: true}
}

func (t *Tape) next(n int, draw func() int) int {
	if n <= 1 {
		// Forced choices are not recorded: keeps tapes short and makes
		// minimisation more effective.
		return 0
	}
	var v int
	if t.Replaying {
		if t.pos < len(t.replay) {
			v = int(t.replay[t.pos] % uint32(n))
		}
		t.pos++
	} else {
		v = draw()
	}
	t.Rec = append(t.Rec, uint32(v))
	return v
}

// Choice returns a value in [0, n).
func (t *Tape) Choice(n int) int {
	return t.next(n, func() int { return t.rng.Intn(n) })
}

// Weighted returns an index into weights, drawn proportionally to the
// weights in generation mode.
func (t *Tape) Weighted(weights []int) int {
	return t.next(len(weights), func() int {
		total := 0
		for _, w := range weights {
			total += w
		}
		if total <= 0 {
			return 0
		}
		r := t.rng.Intn(total)
		for i, w := range weights {
			if r < w {
				return i
			}
			r -= w
		}
		return len(weights) - 1
	})
}

// Bool returns true with probability num/den.
func (t *Tape) Bool(num, den int) bool {
	return t.Weighted([]int{den - num, num}) == 1
}

// Exhausted reports whether a replay tape has been read past its end.
func (t *Tape) Exhausted() bool { return t.Replaying && t.pos >= len(t.replay) }

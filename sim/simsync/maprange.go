package simsync

import (
	"cmp"
	"fmt"
	"reflect"
	"sort"
)

// Tag records a deterministic identity for a freshly allocated object.
// simrewrite wraps `&T{...}` composite literals of package-local struct types
// with it.
func Tag[T any](p *T) *T {
	if K != nil && p != nil {
		registerTag(reflect.ValueOf(p).Pointer(), p)
	}
	return p
}

// Keys returns the keys of m in a deterministic order. simrewrite turns
// `for k, v := range m` over a map into iteration over Keys(m) with a
// presence re-check, which is one of the orders Go itself may pick.
func Keys[M ~map[K2]V, K2 comparable, V any](m M) []K2 {
	keys := make([]K2, 0, len(m))
	for k := range m {
		keys = append(keys, k)
	}
	if len(keys) < 2 {
		return keys
	}
	sort.Slice(keys, func(i, j int) bool { return lessAny(reflect.ValueOf(keys[i]), reflect.ValueOf(keys[j])) })
	return keys
}

// OrderSensitive counts comparisons between two untagged pointers (their
// relative order is not reproducible).
var OrderSensitive int

func lessAny(a, b reflect.Value) bool { return cmpAny(a, b) < 0 }

func cmpAny(a, b reflect.Value) int {
	switch a.Kind() {
	case reflect.Int, reflect.Int8, reflect.Int16, reflect.Int32, reflect.Int64:
		return cmp.Compare(a.Int(), b.Int())
	case reflect.Uint, reflect.Uint8, reflect.Uint16, reflect.Uint32, reflect.Uint64, reflect.Uintptr:
		return cmp.Compare(a.Uint(), b.Uint())
	case reflect.String:
		return cmp.Compare(a.String(), b.String())
	case reflect.Float32, reflect.Float64:
		return cmp.Compare(a.Float(), b.Float())
	case reflect.Bool:
		x, y := 0, 0
		if a.Bool() {
			x = 1
		}
		if b.Bool() {
			y = 1
		}
		return x - y
	case reflect.Pointer, reflect.UnsafePointer, reflect.Chan:
		pa, pb := a.Pointer(), b.Pointer()
		if pa == pb {
			return 0
		}
		ta, oka := tagOf(pa)
		tb, okb := tagOf(pb)
		if !oka && !okb {
			OrderSensitive++
			return cmp.Compare(pa, pb)
		}
		if !oka {
			return -1
		}
		if !okb {
			return 1
		}
		if c := cmp.Compare(ta.actor, tb.actor); c != 0 {
			return c
		}
		return cmp.Compare(ta.seq, tb.seq)
	case reflect.Struct:
		for i := 0; i < a.NumField(); i++ {
			if c := cmpAny(a.Field(i), b.Field(i)); c != 0 {
				return c
			}
		}
		return 0
	case reflect.Array:
		for i := 0; i < a.Len(); i++ {
			if c := cmpAny(a.Index(i), b.Index(i)); c != 0 {
				return c
			}
		}
		return 0
	case reflect.Interface:
		if a.IsNil() || b.IsNil() {
			x, y := 0, 0
			if !a.IsNil() {
				x = 1
			}
			if !b.IsNil() {
				y = 1
			}
			return x - y
		}
		ea, eb := a.Elem(), b.Elem()
		if ea.Type() != eb.Type() {
			return cmp.Compare(ea.Type().String(), eb.Type().String())
		}
		return cmpAny(ea, eb)
	}
	return cmp.Compare(fmt.Sprint(a.Interface()), fmt.Sprint(b.Interface()))
}

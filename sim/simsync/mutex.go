package simsync

import (
	"sync"
)

// Mutex replaces sync.Mutex in the scratch copy of the code under test.
// While a kernel is installed, Lock is a park point that is enabled only
// while the mutex is free; without a kernel it is a plain sync.Mutex.
type Mutex struct {
	real   sync.Mutex
	holder string
}

func unlockPanic() { panic("sync: unlock of unlocked mutex") }

// Lock acquires the mutex.
func (m *Mutex) Lock() {
	k := K
	if k == nil {
		m.real.Lock()
		return
	}
	if k.IsController() {
		k.mu.Lock()
		if m.holder != "" {
			k.mu.Unlock()
			panic(HarnessError{"controller would block on a mutex held by " + m.holder})
		}
		m.holder = "ctl"
		k.held[m] = "ctl"
		k.mu.Unlock()
		return
	}
	a := k.Me()
	k.park(a, &Ticket{kind: tLock, mu: m})
}

// TryLock is a scheduling point followed by an atomic attempt.
func (m *Mutex) TryLock() bool {
	k := K
	if k == nil {
		return m.real.TryLock()
	}
	if !k.IsController() {
		a := k.Me()
		k.park(a, &Ticket{kind: tTryLock, mu: m})
	}
	k.mu.Lock()
	defer k.mu.Unlock()
	if m.holder != "" {
		return false
	}
	name := "ctl"
	if g := goid(); g != k.controller {
		name = k.actors[g].Name
	}
	m.holder = name
	k.held[m] = name
	return true
}

// Unlock releases the mutex. As with sync.Mutex, the unlocking goroutine
// need not be the locking one.
func (m *Mutex) Unlock() {
	k := K
	if k == nil {
		m.real.Unlock()
		return
	}
	k.mu.Lock()
	if m.holder == "" {
		k.mu.Unlock()
		unlockPanic()
	}
	m.holder = ""
	delete(k.held, m)
	k.mu.Unlock()
}

// Held reports whether the mutex is held (simulation only).
func (m *Mutex) Held() bool {
	k := K
	if k == nil {
		return false
	}
	k.mu.Lock()
	defer k.mu.Unlock()
	return m.holder != ""
}

// RWMutex replaces sync.RWMutex.
//
// Writer preference is modelled as sync.RWMutex implements it: a writer first
// takes the writers' inner mutex and announces itself (wHeld), which blocks
// every RLock that arrives from then on, and then waits for the readers that
// were already inside to leave. A goroutine that read-locks a mutex it already
// holds for reading therefore deadlocks as soon as a writer announced itself
// in between, exactly as with the real primitive.
type RWMutex struct {
	real    sync.RWMutex
	writer  string
	wHeld   string
	readers int
}

// Lock acquires the write lock.
func (m *RWMutex) Lock() {
	k := K
	if k == nil {
		m.real.Lock()
		return
	}
	if k.IsController() {
		k.mu.Lock()
		if m.writer != "" || m.wHeld != "" || m.readers != 0 {
			k.mu.Unlock()
			panic(HarnessError{"controller would block on a rwmutex"})
		}
		m.writer, m.wHeld = "ctl", "ctl"
		k.held[m] = "ctl"
		k.mu.Unlock()
		return
	}
	a := k.Me()
	// Phase one: the inner mutex and the announcement (at once the whole
	// acquisition when no reader is inside).
	k.park(a, &Ticket{kind: tLock, rw: m})
	k.mu.Lock()
	acquired := m.writer == a.Name
	k.mu.Unlock()
	if !acquired {
		// Phase two: wait for the readers that were inside to leave.
		k.park(a, &Ticket{kind: tLockDrain, rw: m})
	}
}

// TryLock attempts to acquire the write lock.
func (m *RWMutex) TryLock() bool {
	k := K
	if k == nil {
		return m.real.TryLock()
	}
	if !k.IsController() {
		a := k.Me()
		k.park(a, &Ticket{kind: tTryLock, rw: m})
	}
	k.mu.Lock()
	defer k.mu.Unlock()
	if m.writer != "" || m.wHeld != "" || m.readers != 0 {
		return false
	}
	name := "ctl"
	if g := goid(); g != k.controller {
		name = k.actors[g].Name
	}
	m.writer, m.wHeld = name, name
	k.held[m] = name
	return true
}

// Unlock releases the write lock.
func (m *RWMutex) Unlock() {
	k := K
	if k == nil {
		m.real.Unlock()
		return
	}
	k.mu.Lock()
	if m.writer == "" {
		k.mu.Unlock()
		panic("sync: Unlock of unlocked RWMutex")
	}
	m.writer, m.wHeld = "", ""
	delete(k.held, m)
	k.mu.Unlock()
}

// RLock acquires a read lock.
func (m *RWMutex) RLock() {
	k := K
	if k == nil {
		m.real.RLock()
		return
	}
	if k.IsController() {
		k.mu.Lock()
		if m.writer != "" {
			k.mu.Unlock()
			panic(HarnessError{"controller would block on a rwmutex"})
		}
		m.readers++
		k.held[m] = "readers"
		k.mu.Unlock()
		return
	}
	a := k.Me()
	k.park(a, &Ticket{kind: tRLock, rw: m})
}

// TryRLock attempts to acquire a read lock.
func (m *RWMutex) TryRLock() bool {
	k := K
	if k == nil {
		return m.real.TryRLock()
	}
	if !k.IsController() {
		a := k.Me()
		k.park(a, &Ticket{kind: tTryLock, rw: m})
	}
	k.mu.Lock()
	defer k.mu.Unlock()
	if m.writer != "" || m.wHeld != "" {
		return false
	}
	m.readers++
	k.held[m] = "readers"
	return true
}

// RUnlock releases a read lock.
func (m *RWMutex) RUnlock() {
	k := K
	if k == nil {
		m.real.RUnlock()
		return
	}
	k.mu.Lock()
	if m.readers <= 0 {
		k.mu.Unlock()
		panic("sync: RUnlock of unlocked RWMutex")
	}
	m.readers--
	if m.readers == 0 {
		delete(k.held, m)
	}
	k.mu.Unlock()
}

// RLocker returns a Locker that uses RLock/RUnlock.
func (m *RWMutex) RLocker() sync.Locker { return (*rlocker)(m) }

type rlocker RWMutex

func (r *rlocker) Lock()   { (*RWMutex)(r).RLock() }
func (r *rlocker) Unlock() { (*RWMutex)(r).RUnlock() }

// Held reports whether the lock is held in any mode (simulation only).
func (m *RWMutex) Held() bool {
	k := K
	if k == nil {
		return false
	}
	k.mu.Lock()
	defer k.mu.Unlock()
	return m.writer != "" || m.readers != 0
}

package w5

import (
	"context"
	"strconv"
	"strings"
	"sync"
	"time"

	"github.com/buildbarn/bb-remote-execution/pkg/verifsim/simenv"
	"github.com/buildbarn/bb-remote-execution/pkg/verifsim/simsync"
	"github.com/buildbarn/bb-storage/pkg/clock"
)

// recClock is the base clock handed to SuspendableClock: simenv.SimClock
// plus bookkeeping of the timers created through it, so that the world knows
// for every delivery how late it was (the oracle accounts for exactly that).
type recClock struct {
	w   *world
	sim *simenv.SimClock

	mu       sync.Mutex
	bySeq    map[int]*simenv.SimTimer
	perOwner map[string]int
}

var _ clock.Clock = (*recClock)(nil)

func newRecClock(w *world, sim *simenv.SimClock) *recClock {
	return &recClock{w: w, sim: sim, bySeq: map[int]*simenv.SimTimer{}, perOwner: map[string]int{}}
}

func (c *recClock) Now() time.Time { return c.sim.Now() }

func (c *recClock) NewContextWithTimeout(parent context.Context, d time.Duration) (context.Context, context.CancelFunc) {
	return c.sim.NewContextWithTimeout(parent, d)
}

func (c *recClock) NewTimer(d time.Duration) (clock.Timer, <-chan time.Time) {
	t, ch := c.sim.NewTimer(d)
	st := t.(*simenv.SimTimer)
	c.mu.Lock()
	c.bySeq[st.Seq] = st
	c.perOwner[st.Owner]++
	n := c.perOwner[st.Owner]
	c.mu.Unlock()
	if n >= 2 && strings.Contains(st.Owner, "/") {
		// A goroutine of the clock arms a second base timer: the re-arm
		// loop compensated a suspension.
		c.w.k.Probe("rearm")
	}
	return t, ch
}

func (c *recClock) NewTicker(d time.Duration) (clock.Ticker, <-chan time.Time) {
	return c.sim.NewTicker(d)
}

func seqOfKey(key string) int {
	i := strings.LastIndexByte(key, '#')
	if i < 0 {
		panic(simsync.HarnessError{Msg: "clock event key without sequence number: " + key})
	}
	n, err := strconv.Atoi(key[i+1:])
	if err != nil {
		panic(simsync.HarnessError{Msg: "clock event key without sequence number: " + key})
	}
	return n
}

// wrapTimerDelivery tells the oracle about the delivery (owner, stamp,
// lateness) before it happens.
func (c *recClock) wrapTimerDelivery(e simsync.Event) simsync.Event {
	seq := seqOfKey(e.Key)
	c.mu.Lock()
	st := c.bySeq[seq]
	c.mu.Unlock()
	if st == nil {
		panic(simsync.HarnessError{Msg: "delivery of a timer that was not created through recClock: " + e.Key})
	}
	fire := e.Fire
	e.Fire = func() {
		late := c.sim.Global().Sub(st.Deadline)
		c.w.orc.onTimerDelivered(st.Owner, st.Deadline, late)
		fire()
	}
	return e
}

func (c *recClock) wrapCtxDeadline(e simsync.Event) simsync.Event {
	key := e.Key
	owner := strings.TrimPrefix(key[:strings.LastIndexByte(key, '#')], "ctx-deadline ")
	fire := e.Fire
	e.Fire = func() {
		c.w.orc.onCtxDeadline(owner)
		fire()
	}
	return e
}

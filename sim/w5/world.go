// Package w5 is the suspendable-clock world (property C11): the real
// SuspendableClock, SuspendingBlobAccess and SuspendingDirectoryFetcher run
// over the simulated base clock. "Action" actors hold execution-timeout
// contexts exactly like LocalBuildExecutor does, "reader" actors stall on
// storage (directly with Suspend/Resume, or through the two decorators in
// front of a parking fake CAS), "timer users" hold suspendable timers. The
// oracle integrates the recorded stall timeline independently and compares.
package w5

import (
	"fmt"
	"strings"
	"time"

	re_blobstore "github.com/buildbarn/bb-remote-execution/pkg/blobstore"
	"github.com/buildbarn/bb-remote-execution/pkg/cas"
	re_clock "github.com/buildbarn/bb-remote-execution/pkg/clock"
	"github.com/buildbarn/bb-remote-execution/pkg/verifsim/simenv"
	"github.com/buildbarn/bb-remote-execution/pkg/verifsim/simrun"
	"github.com/buildbarn/bb-remote-execution/pkg/verifsim/simsync"
	"github.com/buildbarn/bb-storage/pkg/blobstore"
)

var startTime = time.Unix(1700000000, 0).UTC()

type world struct {
	r    *simrun.Run
	k    *simsync.Kernel
	t    *simsync.Tape
	prop string

	sim *simenv.SimClock
	rc  *recClock
	sc  *re_clock.SuspendableClock
	ba  blobstore.BlobAccess
	df  cas.DirectoryFetcher

	maxSusp   time.Duration
	threshold time.Duration
	// late: the controller may let time run past timer deadlines before it
	// delivers them (scheduling latency). Otherwise delivery is exact.
	late bool
	// faultFree: no storage errors, no parent cancellations, exact delivery.
	faultFree bool
	stopping  bool
	// everLate: the late configuration was on at some point of this run.
	everLate bool
	// faultFree0: the run was configured fault-free (faultFree itself is
	// also switched on by the drain phase).
	faultFree0 bool

	actions []*action
	readers []*reader
	tusers  []*timerUser
	byActor map[string]*reader

	orc *oracles
}

func pick[T any](t *simsync.Tape, xs []T) T { return xs[t.Choice(len(xs))] }

func (w *world) violate(rule, msg string) {
	if strings.HasPrefix(rule, w.prop+"/") || strings.HasPrefix(rule, "panic:") {
		w.k.Violate(rule, msg)
		return
	}
	w.r.Count("other_property_rule:"+rule, 1)
}

func rootOf(name string) string {
	if i := strings.IndexByte(name, '/'); i >= 0 {
		return name[:i]
	}
	return name
}

func newWorld(r *simrun.Run, prop string) *world {
	w := &world{r: r, k: r.K, t: r.T, prop: prop, byActor: map[string]*reader{}}
	t := w.t
	w.sim = simenv.NewSimClock(w.k, startTime)
	w.rc = newRecClock(w, w.sim)

	w.faultFree = t.Bool(1, 4)
	w.late = !w.faultFree && t.Bool(1, 2)
	w.everLate = w.late
	w.faultFree0 = w.faultFree
	w.threshold = pick(t, []time.Duration{100 * time.Millisecond, time.Second, time.Nanosecond, 500 * time.Millisecond})
	w.maxSusp = pick(t, []time.Duration{time.Hour, 4 * time.Second, 10 * time.Second, time.Second, 0})

	w.sc = re_clock.NewSuspendableClock(w.rc, w.maxSusp, w.threshold)
	w.ba = re_blobstore.NewSuspendingBlobAccess(&fakeCAS{w}, w.sc)
	w.df = cas.NewSuspendingDirectoryFetcher(&fakeDirectoryFetcher{w}, w.sc)
	w.orc = newOracles(w)
	r.Logf("config: threshold=%s maxSuspension=%s lateDelivery=%v faultFree=%v", w.threshold, w.maxSusp, w.late, w.faultFree)
	return w
}

// durations a timeout may take.
var timeouts = []time.Duration{5 * time.Second, 2 * time.Second, 10 * time.Second, time.Second, 30 * time.Second}

// stallChoices are the stall / hold / idle durations readers draw from; the
// threshold-relative ones are added per world.
func (w *world) stallChoices() []time.Duration {
	return []time.Duration{
		time.Second, 100 * time.Millisecond, 300 * time.Millisecond, 2 * time.Second, 5 * time.Second, 0,
		w.threshold, w.threshold - time.Nanosecond, w.threshold + time.Nanosecond, time.Nanosecond, 20 * time.Second, 900 * time.Millisecond,
	}
}

// stall parks the calling actor until simulated time has advanced by d (or
// the run is being drained).
func (w *world) stall(label string, d time.Duration) {
	target := w.sim.Global().Add(d)
	if d > 0 {
		w.sim.AddWake(target)
	}
	w.k.SeamWhen(label, func() bool { return w.stopping || !w.sim.Global().Before(target) })
}

// frozen reports whether simulated time must not advance now: some actor is
// inside one of the clock's (short, non-blocking) critical sections or waits
// for it, or a freshly started goroutine has not run yet. This makes every
// Suspend/Resume/creation call happen at one exact instant, so that the
// oracle's timeline is exact; what the implementation can observe of timer
// latency is modelled by the clock running past a deadline before delivery.
func (w *world) frozen() bool {
	if len(w.k.HeldLocks()) > 0 {
		return true
	}
	lockWaiters, _, seam := w.k.Stuck()
	if len(lockWaiters) > 0 {
		return true
	}
	for _, s := range seam {
		if strings.HasSuffix(s, "@start") {
			return true
		}
	}
	return false
}

func isDeliveryKey(key string) bool {
	return strings.HasPrefix(key, "timer ") || strings.HasPrefix(key, "ctx-deadline ")
}

// deliverableDue reports whether the clock has a due timer or context
// deadline it could deliver right now.
func (w *world) deliverableDue() bool {
	for _, e := range w.sim.ClockEvents(1, 0, nil, nil) {
		if isDeliveryKey(e.Key) {
			return true
		}
	}
	return false
}

// events is the world's controller event source.
func (w *world) events() []simsync.Event {
	var out []simsync.Event
	frozen := w.frozen()
	var jumps []simenv.Jump
	wa := 5
	if frozen {
		wa = 0
	} else if w.late {
		jumps = []simenv.Jump{{D: 100 * time.Millisecond, Weight: 3}, {D: time.Second, Weight: 3}, {D: 4 * time.Second, Weight: 1}, {D: time.Nanosecond, Weight: 1}, {D: w.threshold, Weight: 1}}
	}
	due := !frozen && w.deliverableDue()
	if due && w.late {
		// Something is due: let it become a little late sometimes, but
		// not by leaps.
		wa = 0
		jumps = []simenv.Jump{{D: 100 * time.Millisecond, Weight: 2}, {D: time.Second, Weight: 1}, {D: time.Nanosecond, Weight: 1}, {D: w.threshold, Weight: 1}}
	}
	evs := w.sim.ClockEvents(12, wa, nil, jumps)
	for _, e := range evs {
		e := e
		switch {
		case strings.HasPrefix(e.Key, "timer "):
			out = append(out, w.rc.wrapTimerDelivery(e))
		case strings.HasPrefix(e.Key, "ctx-deadline "):
			out = append(out, w.rc.wrapCtxDeadline(e))
		default:
			// A clock advance. With exact delivery, time stands still
			// while something is due.
			if !w.late && (due || w.sim.HasDue()) {
				// Also when the due timer cannot be delivered yet because
				// its owner is parked somewhere: it must not become late.
				continue
			}
			out = append(out, e)
		}
	}
	for _, a := range w.actions {
		out = append(out, a.events()...)
	}
	return out
}

func (w *world) roots() []*simsync.Actor {
	var out []*simsync.Actor
	for _, a := range w.actions {
		out = append(out, a.actor)
	}
	for _, rd := range w.readers {
		out = append(out, rd.actor)
	}
	for _, u := range w.tusers {
		out = append(out, u.actor)
	}
	return out
}

func (w *world) allDone() bool {
	for _, a := range w.k.Actors() {
		if !a.Done() {
			return false
		}
	}
	return true
}

func (w *world) run() {
	t := w.t
	k := w.k
	na := 1 + t.Choice(2)
	nr := 1 + t.Choice(3)
	nu := t.Choice(2)
	for i := 0; i < na; i++ {
		w.actions = append(w.actions, newAction(w, fmt.Sprintf("act%d", i), 2+t.Choice(3), false))
	}
	for i := 0; i < nr; i++ {
		w.readers = append(w.readers, newReader(w, i, 3+t.Choice(8)))
	}
	for i := 0; i < nu; i++ {
		w.tusers = append(w.tusers, newTimerUser(w, i, 1+t.Choice(3)))
	}
	w.r.Logf("actors: %d actions, %d readers, %d timer users", na, nr, nu)
	k.AddSource(w.events)
	k.AfterStep = w.orc.afterStep

	budget := 200 + 60*t.Choice(6)
	if w.r.Tier == "thorough" {
		budget *= 3
	}
	k.Run(budget)
	if k.Failed() {
		return
	}
	w.drain()
}

// drain: no new operations, no faults, exact timer delivery; everything that
// is in flight must finish (storage calls return, timeouts fire). Then a
// probe action checks that no suspension leaked.
func (w *world) drain() {
	k := w.k
	k.Note("drain: faults off, exact delivery, actors finish")
	k.FaultsOn = false
	w.stopping = true
	w.late = false
	w.faultFree = true
	if !w.runToEnd() {
		return
	}
	k.Note("drain: probe")
	w.actions = append(w.actions, newAction(w, "probe", 1, true))
	if !w.runToEnd() {
		return
	}
	w.orc.finalChecks()
}

func (w *world) runToEnd() bool {
	k := w.k
	for i := 0; i < 60; i++ {
		quiet := k.Run(100)
		if k.Failed() {
			return false
		}
		if w.allDone() {
			return true
		}
		if quiet {
			lockWaiters, blocked, seam := k.Stuck()
			w.violate("C11/call-never-returned", fmt.Sprintf("storage stalls ended, no faults, all timers delivered and nothing is enabled any more, but these calls have not returned: lock-waiters=%v blocked=%v parked=%v held=%v; %s", lockWaiters, blocked, seam, k.HeldLocks(), w.orc.describeLive()))
			return false
		}
	}
	panic(simsync.HarnessError{Msg: "drain did not converge within its step bound: " + w.orc.describeLive()})
}

// World is the entry point registered for property C11.
func World(prop string) simrun.World {
	return func(r *simrun.Run) {
		w := newWorld(r, prop)
		w.run()
		r.SimTime = w.sim.Global().Sub(startTime)
		w.orc.finish()
	}
}

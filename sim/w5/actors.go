package w5

import (
	"context"
	"crypto/sha256"
	"encoding/hex"
	"fmt"
	"io"
	"time"

	remoteexecution "github.com/bazelbuild/remote-apis/build/bazel/remote/execution/v2"
	re_clock "github.com/buildbarn/bb-remote-execution/pkg/clock"
	"github.com/buildbarn/bb-remote-execution/pkg/verifsim/simsync"
	"github.com/buildbarn/bb-storage/pkg/blobstore/buffer"
	"github.com/buildbarn/bb-storage/pkg/blobstore/slicing"
	"github.com/buildbarn/bb-storage/pkg/clock"
	"github.com/buildbarn/bb-storage/pkg/digest"
	"google.golang.org/grpc/codes"
	"google.golang.org/grpc/status"
)

// --- action: holds an execution-timeout context like LocalBuildExecutor -----

type action struct {
	w     *world
	name  string
	n     int
	probe bool
	actor *simsync.Actor

	// Read by the controller at quiescence only.
	phase        string // "", "running", "cancelling"
	cur          *ctxRec
	hasFinish    bool
	finishAt     time.Time
	finishCh     chan struct{}
	parentCancel context.CancelFunc
	// parentMayCancel: the worker may abandon this action (fault).
	parentMayCancel bool
}

func newAction(w *world, name string, n int, probe bool) *action {
	a := &action{w: w, name: name, n: n, probe: probe}
	a.actor = w.k.Spawn(name, a.run)
	return a
}

func (a *action) run() {
	w, k, t := a.w, a.w.k, a.w.t
	for i := 0; i < a.n; i++ {
		k.Yield("act-next")
		if w.stopping && !a.probe {
			return
		}
		d := time.Second
		var idle, work time.Duration
		hasFinish := false
		parentMayCancel := false
		if !a.probe {
			d = pick(t, timeouts)
			idle = pick(t, []time.Duration{0, time.Second, 300 * time.Millisecond, 3 * time.Second})
			parentMayCancel = t.Bool(1, 4)
			if t.Choice(3) != 0 {
				hasFinish = true
				work = pick(t, []time.Duration{d / 2, d - w.threshold, d - w.threshold - time.Nanosecond, d - time.Nanosecond, d, d + time.Second, 2 * d, d + w.maxSusp - time.Nanosecond, 100 * time.Millisecond})
				if work < 0 {
					work = 0
				}
			}
		}
		if idle > 0 {
			w.stall("act-idle", idle)
		}

		// The following mirrors LocalBuildExecutor.Execute: derive the run
		// context from the clock, run, cancel, wait for Done, read the
		// unsuspended duration.
		parent, pcancel := context.WithCancel(context.Background())
		rec := w.orc.newCtx(a, d)
		ctx, cancel := w.sc.NewContextWithTimeout(parent, d)
		w.orc.setCtx(rec, ctx)
		a.finishCh = make(chan struct{})
		a.hasFinish = hasFinish
		if hasFinish {
			a.finishAt = rec.t0.Add(work)
			w.sim.AddWake(a.finishAt)
		}
		a.parentCancel = pcancel
		a.parentMayCancel = parentMayCancel
		a.cur = rec
		a.phase = "running"
		w.r.Logf("%s: context#%d timeout=%s created at +%s finish=%v work=%s", a.name, rec.id, d, rec.t0.Sub(startTime), hasFinish, work)

		select {
		case <-ctx.Done():
			// Killed by the timeout (or the parent).
		case <-a.finishCh:
			// The command finished by itself.
			w.orc.setCancelRequested(rec)
		}
		a.phase = "cancelling"
		cancel()
		<-ctx.Done()
		err := ctx.Err()
		val, ok := ctx.Value(re_clock.UnsuspendedDurationKey{}).(time.Duration)
		w.orc.setActorView(rec, err, val, ok)
		pcancel()
		a.phase = ""
	}
}

func (a *action) events() []simsync.Event {
	if a.phase != "running" || !a.actor.Blocked() || a.cur == nil || a.cur.closed() {
		return nil
	}
	w := a.w
	var evs []simsync.Event
	if a.hasFinish && !w.sim.Global().Before(a.finishAt) {
		evs = append(evs, simsync.Event{Key: "finish " + a.name, Weight: 10, Fire: func() { close(a.finishCh) }})
	}
	rec := a.cur
	if a.parentMayCancel && !w.faultFree && !w.stopping && w.k.FaultsOn && !rec.parentCancelled {
		evs = append(evs, simsync.Event{Key: "parent-cancel " + a.name, Weight: 1, Fire: func() {
			w.k.FaultsFired["parent-cancel"]++
			rec.parentCancelled = true
			if rec.hasStamp {
				w.k.Probe("cancel-races-expiry")
			}
			a.parentCancel()
		}})
	}
	return evs
}

// --- reader: stalls on storage ------------------------------------------------

const (
	opDirect = iota
	opGet
	opGetDiscard
	opGetReadAt
	opGetFromComposite
	opPut
	opFindMissing
	opGetCapabilities
	opGetDirectory
	opGetTreeRootDirectory
	opGetTreeChildDirectory
	numOps
)

var opNames = []string{"Suspend/Resume", "Get+ToByteSlice", "Get+Discard", "Get+ReadAt", "GetFromComposite", "Put", "FindMissing", "GetCapabilities", "GetDirectory", "GetTreeRootDirectory", "GetTreeChildDirectory"}

const (
	failNone      = iota
	failImmediate // the storage call itself fails
	failRead      // the returned buffer fails while being read
	failChecksum  // the returned buffer yields corrupted data
)

type readerOp struct {
	kind           int
	stall1, stall2 time.Duration
	fail           int
	nested         bool
}

type reader struct {
	w     *world
	idx   int
	name  string
	n     int
	actor *simsync.Actor
	cur   *readerOp
	data  []byte
	dg    digest.Digest
}

func newReader(w *world, idx, n int) *reader {
	rd := &reader{w: w, idx: idx, name: fmt.Sprintf("rd%d", idx), n: n}
	rd.data = []byte(fmt.Sprintf("blob of reader %d in world w5", idx))
	sum := sha256.Sum256(rd.data)
	df := digest.MustNewFunction("w5", remoteexecution.DigestFunction_SHA256)
	d, err := df.NewDigest(hex.EncodeToString(sum[:]), int64(len(rd.data)))
	if err != nil {
		panic(simsync.HarnessError{Msg: err.Error()})
	}
	rd.dg = d
	w.byActor[rd.name] = rd
	rd.actor = w.k.Spawn(rd.name, rd.run)
	return rd
}

func (rd *reader) run() {
	w, k, t := rd.w, rd.w.k, rd.w.t
	for i := 0; i < rd.n; i++ {
		k.Yield("rd-next")
		if w.stopping {
			return
		}
		choices := w.stallChoices()
		op := &readerOp{}
		if t.Bool(1, 2) {
			op.kind = 1 + t.Choice(numOps-1)
		}
		op.stall1 = pick(t, choices)
		op.stall2 = pick(t, choices)
		op.nested = t.Bool(1, 3)
		idle := pick(t, choices)
		if !w.faultFree && t.Bool(1, 3) {
			op.fail = 1 + t.Choice(3)
		}
		rd.cur = op
		if idle > 0 {
			w.stall("rd-idle", idle)
		}
		rd.do(op)
	}
}

func (rd *reader) do(op *readerOp) {
	w := rd.w
	ctx := context.Background()
	if op.fail != failNone {
		w.k.FaultsFired["storage-error"]++
	}
	w.orc.stallBegin(rd.name, opNames[op.kind])
	var err error
	ended := false
	// returned is called when a Get call has returned its buffer. A buffer
	// that is already in its final (error) state has nothing left to
	// transfer: the storage stall is over at that instant, no matter when
	// the consumer looks at the buffer. A streaming buffer keeps the worker
	// stalled until it has been consumed or discarded.
	returned := func() {
		if op.fail == failImmediate {
			w.orc.stallEnd(rd.name, opNames[op.kind], errInjected)
			ended = true
		}
	}
	switch op.kind {
	case opDirect:
		w.sc.Suspend()
		w.stall("rd-hold", op.stall1)
		if op.nested {
			w.k.Probe("nested-suspend")
			w.sc.Suspend()
			w.stall("rd-hold-nested", op.stall2)
			w.sc.Resume()
			w.k.Yield("rd-hold-after")
		}
		w.sc.Resume()
	case opGet, opGetFromComposite:
		var b buffer.Buffer
		if op.kind == opGet {
			b = w.ba.Get(ctx, rd.dg)
		} else {
			b = w.ba.GetFromComposite(ctx, rd.dg, rd.dg, nil)
		}
		returned()
		if op.nested {
			// The consumer is slow to start reading.
			w.k.Yield("rd-before-read")
		}
		var data []byte
		data, err = b.ToByteSlice(1 << 20)
		if err == nil && string(data) != string(rd.data) {
			panic(simsync.HarnessError{Msg: "fake CAS returned wrong data"})
		}
	case opGetDiscard:
		b := w.ba.Get(ctx, rd.dg)
		returned()
		w.k.Yield("rd-before-discard")
		b.Discard()
	case opGetReadAt:
		b := w.ba.Get(ctx, rd.dg)
		returned()
		var p [4]byte
		_, err = b.ReadAt(p[:], 2)
	case opPut:
		err = w.ba.Put(ctx, rd.dg, buffer.NewValidatedBufferFromByteSlice(rd.data))
	case opFindMissing:
		_, err = w.ba.FindMissing(ctx, rd.dg.ToSingletonSet())
	case opGetCapabilities:
		_, err = w.ba.GetCapabilities(ctx, rd.dg.GetInstanceName())
	case opGetDirectory:
		_, err = w.df.GetDirectory(ctx, rd.dg)
	case opGetTreeRootDirectory:
		_, err = w.df.GetTreeRootDirectory(ctx, rd.dg)
	case opGetTreeChildDirectory:
		_, err = w.df.GetTreeChildDirectory(ctx, rd.dg, rd.dg)
	}
	if !ended {
		w.orc.stallEnd(rd.name, opNames[op.kind], err)
	}
	if op.kind != opDirect && op.kind != opGetDiscard {
		if (err != nil) != (op.fail != failNone) {
			panic(simsync.HarnessError{Msg: fmt.Sprintf("%s: planned failure %d but storage call %s returned %v", rd.name, op.fail, opNames[op.kind], err)})
		}
		if err != nil {
			w.k.Probe("storage-error-path")
		}
	}
}

// --- fake storage behind the decorators -------------------------------------

func (w *world) plan() *readerOp {
	rd := w.byActor[w.k.Me().Name]
	if rd == nil || rd.cur == nil {
		panic(simsync.HarnessError{Msg: "storage call from an actor that is not a reader"})
	}
	return rd.cur
}

func (w *world) me() *reader { return w.byActor[w.k.Me().Name] }

var errInjected = status.Error(codes.Unavailable, "injected storage failure")

type fakeCAS struct{ w *world }

func (f *fakeCAS) get(label string, d digest.Digest) buffer.Buffer {
	op := f.w.plan()
	f.w.stall(label, op.stall1)
	if op.fail == failImmediate {
		return buffer.NewBufferFromError(errInjected)
	}
	return buffer.NewCASBufferFromReader(d, &parkReader{w: f.w, op: op, data: f.w.me().data}, buffer.UserProvided)
}

func (f *fakeCAS) Get(ctx context.Context, d digest.Digest) buffer.Buffer {
	return f.get("cas-get", d)
}

func (f *fakeCAS) GetFromComposite(ctx context.Context, parentDigest, childDigest digest.Digest, slicer slicing.BlobSlicer) buffer.Buffer {
	return f.get("cas-get-composite", childDigest)
}

func (f *fakeCAS) simple(label string) error {
	op := f.w.plan()
	f.w.stall(label, op.stall1)
	if op.fail != failNone {
		return errInjected
	}
	return nil
}

func (f *fakeCAS) Put(ctx context.Context, d digest.Digest, b buffer.Buffer) error {
	b.Discard()
	return f.simple("cas-put")
}

func (f *fakeCAS) FindMissing(ctx context.Context, digests digest.Set) (digest.Set, error) {
	return digest.EmptySet, f.simple("cas-find-missing")
}

func (f *fakeCAS) GetCapabilities(ctx context.Context, instanceName digest.InstanceName) (*remoteexecution.ServerCapabilities, error) {
	if err := f.simple("cas-get-capabilities"); err != nil {
		return nil, err
	}
	return &remoteexecution.ServerCapabilities{}, nil
}

// parkReader is the body of a blob: reading it takes simulated time and may
// fail or yield corrupted data.
type parkReader struct {
	w     *world
	op    *readerOp
	data  []byte
	off   int
	began bool
}

func (r *parkReader) Read(p []byte) (int, error) {
	if !r.began {
		r.began = true
		r.w.stall("cas-read", r.op.stall2)
		switch r.op.fail {
		case failRead:
			return 0, status.Error(codes.Internal, "injected read failure")
		case failChecksum:
			r.data = append([]byte("X"), r.data[1:]...)
		}
	}
	if r.off >= len(r.data) {
		return 0, io.EOF
	}
	n := copy(p, r.data[r.off:])
	r.off += n
	return n, nil
}

func (r *parkReader) Close() error { return nil }

type fakeDirectoryFetcher struct{ w *world }

func (f *fakeDirectoryFetcher) fetch(label string) (*remoteexecution.Directory, error) {
	op := f.w.plan()
	f.w.stall(label, op.stall1)
	if op.fail != failNone {
		return nil, errInjected
	}
	return &remoteexecution.Directory{}, nil
}

func (f *fakeDirectoryFetcher) GetDirectory(ctx context.Context, directoryDigest digest.Digest) (*remoteexecution.Directory, error) {
	return f.fetch("df-get-directory")
}

func (f *fakeDirectoryFetcher) GetTreeRootDirectory(ctx context.Context, treeDigest digest.Digest) (*remoteexecution.Directory, error) {
	return f.fetch("df-get-tree-root")
}

func (f *fakeDirectoryFetcher) GetTreeChildDirectory(ctx context.Context, treeDigest, childDigest digest.Digest) (*remoteexecution.Directory, error) {
	return f.fetch("df-get-tree-child")
}

// --- timer user: holds a suspendable timer -----------------------------------

type timerUser struct {
	w     *world
	name  string
	n     int
	actor *simsync.Actor
	// waiting is true while the actor is blocked receiving from the timer
	// channel (read by the controller at quiescence).
	waiting bool
}

func newTimerUser(w *world, idx, n int) *timerUser {
	u := &timerUser{w: w, name: fmt.Sprintf("tu%d", idx), n: n}
	u.actor = w.k.Spawn(u.name, u.run)
	return u
}

func (u *timerUser) run() {
	w, k, t := u.w, u.w.k, u.w.t
	for i := 0; i < u.n; i++ {
		k.Yield("tu-next")
		if w.stopping {
			return
		}
		d := pick(t, timeouts)
		idle := pick(t, []time.Duration{0, time.Second, 2 * time.Second})
		stopAfter := time.Duration(-1)
		if t.Bool(1, 3) {
			stopAfter = pick(t, []time.Duration{d / 2, d - time.Nanosecond, d, d + time.Second, 100 * time.Millisecond})
		}
		if idle > 0 {
			w.stall("tu-idle", idle)
		}
		rec := w.orc.newTimer(u, d)
		var timer clock.Timer
		var ch <-chan time.Time
		timer, ch = w.sc.NewTimer(d)
		w.orc.setTimer(rec, ch)
		w.r.Logf("%s: timer#%d d=%s created at +%s stopAfter=%s", u.name, rec.id, d, rec.t0.Sub(startTime), stopAfter)
		if stopAfter < 0 {
			// Wait for it to fire.
			u.waiting = true
			v := <-ch
			u.waiting = false
			w.orc.timerFired(rec, v)
			timer.Stop()
			continue
		}
		// Do something else for a while, then stop the timer.
		w.stall("tu-busy", stopAfter)
		stopped := timer.Stop()
		w.orc.timerStopped(rec, stopped)
	}
}

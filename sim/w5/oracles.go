package w5

import (
	"context"
	"fmt"
	"strings"
	"sync"
	"time"

	re_clock "github.com/buildbarn/bb-remote-execution/pkg/clock"
	"github.com/buildbarn/bb-remote-execution/pkg/verifsim/simsync"
)

// The oracle's model is a timeline of storage-stall intervals recorded by the
// readers themselves (begin = instant the storage call / Suspend was issued,
// end = instant its result had been consumed / Resume returned). From it
// U(a,b) = the amount of time in [a,b] during which no stall was in progress
// is integrated independently of the clock under test.

type tlEvent struct {
	at    time.Time
	delta int
	what  string
}

// ctxRec is one execution-timeout context.
type ctxRec struct {
	id   int
	root string
	act  *action
	d    time.Duration
	t0   time.Time
	ctx  context.Context

	// Latenesses of the base-timer deliveries to this context's re-arm
	// loop, and the stamp of a delivery the loop has not finished
	// processing yet.
	lates    []time.Duration
	hasStamp bool
	stamp    time.Time

	cancelRequested bool
	parentCancelled bool
	deadlineFired   bool

	seenDone    bool
	tDone       time.Time
	doneStamp   time.Time
	doneHasStmp bool
	doneLates   time.Duration
	evaluated   bool
	err         error
	val         time.Duration

	actorSeen bool
	aErr      error
	aVal      time.Duration
	aOK       bool
}

func (c *ctxRec) closed() bool {
	if c.ctx == nil {
		return false
	}
	select {
	case <-c.ctx.Done():
		return true
	default:
		return false
	}
}

// timerRec is one suspendable timer.
type timerRec struct {
	id   int
	root string
	user *timerUser
	d    time.Duration
	t0   time.Time
	ch   <-chan time.Time

	lates    []time.Duration
	maxFired bool

	fired      bool
	tFired     time.Time
	firedLates time.Duration
	stopped    bool
	stopResult bool
	evaluated  bool
}

type oracles struct {
	w  *world
	mu sync.Mutex

	timeline []tlEvent
	count    int
	notes    []string

	ctxs      []*ctxRec
	liveCtx   map[string]*ctxRec
	timers    []*timerRec
	liveTimer map[string]*timerRec

	compensated    int
	settledChecks  int
	ctxEvaluated   int
	timerEvaluated int
	stalls         int
}

func newOracles(w *world) *oracles {
	return &oracles{w: w, liveCtx: map[string]*ctxRec{}, liveTimer: map[string]*timerRec{}}
}

func rel(t time.Time) string { return "+" + t.Sub(startTime).String() }

func (o *oracles) note(format string, args ...interface{}) {
	if !o.w.k.TraceOn {
		return
	}
	o.mu.Lock()
	o.notes = append(o.notes, fmt.Sprintf(format, args...))
	o.mu.Unlock()
}

// --- timeline ------------------------------------------------------------------

func (o *oracles) stallBegin(who, what string) {
	now := o.w.sim.Global()
	o.mu.Lock()
	if o.count > 0 {
		o.w.k.Probe("overlapping-stalls")
	}
	o.count++
	o.stalls++
	o.timeline = append(o.timeline, tlEvent{now, +1, who + " begins " + what})
	o.mu.Unlock()
	o.note("%s %s: stall begins (%s)", rel(now), who, what)
}

func (o *oracles) stallEnd(who, what string, err error) {
	now := o.w.sim.Global()
	o.mu.Lock()
	o.count--
	o.timeline = append(o.timeline, tlEvent{now, -1, who + " ends " + what})
	o.mu.Unlock()
	o.note("%s %s: stall ends (%s) err=%v", rel(now), who, what, err)
}

// unsuspended integrates the model: time in [from,to] without any stall.
func (o *oracles) unsuspended(from, to time.Time) time.Duration {
	var total time.Duration
	count := 0
	cur := from
	for _, e := range o.timeline {
		if e.at.After(to) {
			break
		}
		if e.at.After(cur) {
			if count == 0 {
				total += e.at.Sub(cur)
			}
			cur = e.at
		}
		count += e.delta
	}
	if to.After(cur) && count == 0 {
		total += to.Sub(cur)
	}
	return total
}

func (o *oracles) timelineSince(t0 time.Time) string {
	var sb strings.Builder
	n := 0
	for _, e := range o.timeline {
		if e.at.Before(t0) {
			n += e.delta
		}
	}
	fmt.Fprintf(&sb, "stalls in progress at creation: %d; then:", n)
	shown := 0
	for _, e := range o.timeline {
		if e.at.Before(t0) {
			continue
		}
		if shown == 40 {
			sb.WriteString(" ...")
			break
		}
		fmt.Fprintf(&sb, " [t0+%s %s]", e.at.Sub(t0), e.what)
		shown++
	}
	return sb.String()
}

// --- records ---------------------------------------------------------------------

func (o *oracles) newCtx(a *action, d time.Duration) *ctxRec {
	root := a.name
	o.mu.Lock()
	defer o.mu.Unlock()
	c := &ctxRec{id: len(o.ctxs), root: root, act: a, d: d, t0: o.w.sim.Global()}
	o.ctxs = append(o.ctxs, c)
	o.liveCtx[root] = c
	return c
}

func (o *oracles) setCtx(c *ctxRec, ctx context.Context) {
	o.mu.Lock()
	c.ctx = ctx
	o.mu.Unlock()
}

func (o *oracles) setCancelRequested(c *ctxRec) {
	o.mu.Lock()
	c.cancelRequested = true
	if c.hasStamp {
		o.w.k.Probe("cancel-races-expiry")
	}
	o.mu.Unlock()
	o.note("%s %s: command of context#%d finished by itself, cancelling", rel(o.w.sim.Global()), c.root, c.id)
}

func (o *oracles) setActorView(c *ctxRec, err error, val time.Duration, ok bool) {
	o.mu.Lock()
	c.actorSeen, c.aErr, c.aVal, c.aOK = true, err, val, ok
	o.mu.Unlock()
}

func (o *oracles) newTimer(u *timerUser, d time.Duration) *timerRec {
	root := u.name
	o.mu.Lock()
	defer o.mu.Unlock()
	t := &timerRec{id: len(o.timers), root: root, user: u, d: d, t0: o.w.sim.Global()}
	o.timers = append(o.timers, t)
	o.liveTimer[root] = t
	return t
}

func (o *oracles) setTimer(t *timerRec, ch <-chan time.Time) {
	o.mu.Lock()
	t.ch = ch
	o.mu.Unlock()
}

func lastTwo(l []time.Duration) time.Duration {
	var s time.Duration
	for i := len(l) - 2; i < len(l); i++ {
		if i >= 0 {
			s += l[i]
		}
	}
	return s
}

func (o *oracles) timerFired(t *timerRec, v time.Time) {
	o.mu.Lock()
	if !t.fired {
		t.fired = true
		t.tFired = o.w.sim.Global()
		t.firedLates = lastTwo(t.lates)
	}
	o.mu.Unlock()
}

func (o *oracles) timerStopped(t *timerRec, result bool) {
	o.mu.Lock()
	t.stopped = true
	t.stopResult = result
	o.mu.Unlock()
	if result {
		o.w.k.Probe("timer-stopped-before-firing")
	}
}

// onTimerDelivered is called by the controller right before it delivers a
// base timer that is due.
func (o *oracles) onTimerDelivered(owner string, stamp time.Time, late time.Duration) {
	k := o.w.k
	root := rootOf(owner)
	if late > 0 {
		if !o.w.everLate {
			panic(simsync.HarnessError{Msg: fmt.Sprintf("exact-delivery configuration delivered a timer of %s %s late", owner, late)})
		}
		k.Probe("late-delivery")
	}
	o.mu.Lock()
	defer o.mu.Unlock()
	if o.count > 0 {
		k.Probe("expiry-while-suspended")
	}
	if owner == root {
		// Created by a timer user itself: the maximum-suspension timer.
		if t := o.liveTimer[root]; t != nil {
			t.maxFired = true
		}
		return
	}
	if c := o.liveCtx[root]; c != nil && !c.seenDone {
		c.lates = append(c.lates, late)
		c.hasStamp, c.stamp = true, stamp
		return
	}
	if t := o.liveTimer[root]; t != nil && !t.fired {
		t.lates = append(t.lates, late)
	}
}

func (o *oracles) onCtxDeadline(owner string) {
	o.mu.Lock()
	defer o.mu.Unlock()
	if c := o.liveCtx[rootOf(owner)]; c != nil {
		c.deadlineFired = true
	}
}

// --- per-step monitor ---------------------------------------------------------

func (o *oracles) treeBusy(root string) bool {
	for _, a := range o.w.k.Actors() {
		if strings.HasPrefix(a.Name, root+"/") && !a.Done() && !a.Blocked() {
			return true
		}
	}
	return false
}

func (o *oracles) afterStep() {
	w, k := o.w, o.w.k
	if k.TraceOn {
		o.mu.Lock()
		notes := o.notes
		o.notes = nil
		o.mu.Unlock()
		for _, n := range notes {
			k.Annotate("%s", n)
		}
	}
	now := w.sim.Global()
	lockFree := len(k.HeldLocks()) == 0
	settled := lockFree && !w.frozen() && !w.deliverableDue()
	if settled {
		o.settledChecks++
	}
	wallBound := func(d time.Duration) time.Duration { return d + w.maxSusp }

	for _, c := range o.ctxs {
		a := c.act
		if c.ctx == nil || c.evaluated {
			continue
		}
		if !c.seenDone && c.closed() {
			c.seenDone = true
			c.tDone = now
			c.doneHasStmp, c.doneStamp = c.hasStamp, c.stamp
			c.doneLates = lastTwo(c.lates)
		}
		if c.seenDone {
			if lockFree {
				c.err = c.ctx.Err()
				v, ok := c.ctx.Value(re_clock.UnsuspendedDurationKey{}).(time.Duration)
				if !ok {
					w.violate("C11/unsuspended-duration", fmt.Sprintf("context#%d of %s: Value(UnsuspendedDurationKey) is not a duration", c.id, c.root))
					return
				}
				c.val = v
				c.evaluated = true
				o.evalCtx(c)
			}
			continue
		}
		if c.hasStamp && !o.treeBusy(c.root) {
			// The re-arm loop has processed the delivery and waits again.
			c.hasStamp = false
		}
		if settled && a.cur == c && a.phase == "running" && a.actor.Blocked() {
			u := o.unsuspended(c.t0, now)
			var lastLate time.Duration
			if n := len(c.lates); n > 0 {
				lastLate = c.lates[n-1]
			}
			if wall := now.Sub(c.t0); wall >= wallBound(c.d) {
				w.violate("C11/wall-bound", fmt.Sprintf("context#%d of %s (timeout %s, maximum suspension %s, created %s) is still not done at %s, %s after its creation, although every due timer has been delivered and processed; %s", c.id, c.root, c.d, w.maxSusp, rel(c.t0), rel(now), wall, o.timelineSince(c.t0)))
				return
			}
			if u >= c.d+lastLate {
				w.violate("C11/timeout-not-fired", fmt.Sprintf("context#%d of %s (timeout %s, threshold %s, created %s) is still not done at %s although the command has run unsuspended for %s (last timer delivery was %s late) and every due timer has been delivered and processed; %s", c.id, c.root, c.d, w.threshold, rel(c.t0), rel(now), u, lastLate, o.timelineSince(c.t0)))
				return
			}
		}
	}

	for _, t := range o.timers {
		u := t.user
		if t.ch == nil || t.evaluated {
			continue
		}
		if !t.fired && len(t.ch) > 0 {
			t.fired = true
			t.tFired = now
			t.firedLates = lastTwo(t.lates)
		}
		if t.fired {
			t.evaluated = true
			o.evalTimer(t)
			continue
		}
		if t.stopped {
			continue
		}
		if settled && o.liveTimer[u.name] == t && u.waiting && u.actor.Blocked() {
			un := o.unsuspended(t.t0, now)
			var lastLate time.Duration
			if n := len(t.lates); n > 0 {
				lastLate = t.lates[n-1]
			}
			if wall := now.Sub(t.t0); wall >= wallBound(t.d) {
				w.violate("C11/timer-wall-bound", fmt.Sprintf("timer#%d of %s (%s, maximum suspension %s, created %s) has not fired at %s, %s after its creation, although every due base timer has been delivered; %s", t.id, t.root, t.d, w.maxSusp, rel(t.t0), rel(now), wall, o.timelineSince(t.t0)))
				return
			}
			if un >= t.d+lastLate {
				w.violate("C11/timer-not-fired", fmt.Sprintf("timer#%d of %s (%s, threshold %s, created %s) has not fired at %s although %s of unsuspended time have passed (last delivery %s late); %s", t.id, t.root, t.d, w.threshold, rel(t.t0), rel(now), un, lastLate, o.timelineSince(t.t0)))
				return
			}
		}
	}
}

func (o *oracles) evalCtx(c *ctxRec) {
	w, k := o.w, o.w.k
	o.ctxEvaluated++
	u := o.unsuspended(c.t0, c.tDone)
	wall := c.tDone.Sub(c.t0)
	bound := c.d + w.maxSusp
	desc := fmt.Sprintf("context#%d of %s (timeout %s, threshold %s, maximum suspension %s, created %s) became done at %s with %v: wall time %s, unsuspended time per the stall timeline %s, Value(UnsuspendedDurationKey)=%s, cancel requested by the command=%v, parent cancelled=%v", c.id, c.root, c.d, w.threshold, w.maxSusp, rel(c.t0), rel(c.tDone), c.err, wall, u, c.val, c.cancelRequested, c.parentCancelled)
	k.Annotate("%s", desc)
	switch c.err {
	case context.DeadlineExceeded:
		if wall < bound {
			if u <= c.d-w.threshold {
				w.violate("C11/early-cancel", desc+fmt.Sprintf(": cancelled by the timeout although the command had only run %s of its %s (and the wall-clock bound %s was not reached); %s", u, c.d, bound, o.timelineSince(c.t0)))
				return
			}
			if u > c.d+c.doneLates {
				w.violate("C11/late-cancel", desc+fmt.Sprintf(": the timeout fired only after %s of unsuspended time, more than the timeout plus the timer-delivery lateness the simulator injected (%s); %s", u, c.doneLates, o.timelineSince(c.t0)))
				return
			}
			k.Probe("deadline-by-unsuspended-time")
			if wall > c.d {
				k.Probe("deadline-compensated")
			}
			if u < c.d {
				k.Probe("deadline-within-threshold")
			}
		} else {
			k.Probe("deadline-by-wall-bound")
		}
	case context.Canceled:
		if !c.cancelRequested && !c.parentCancelled {
			w.violate("C11/spurious-cancel", desc+": nobody cancelled it; "+o.timelineSince(c.t0))
			return
		}
		if c.parentCancelled {
			k.Probe("parent-cancelled")
		} else {
			k.Probe("finished-in-budget")
			if wall > c.d {
				// Without compensation this command would have been killed.
				k.Probe("finish-saved-by-compensation")
			}
		}
	default:
		w.violate("C11/done-without-cause", desc+": Done() is closed but Err() is neither DeadlineExceeded nor Canceled")
		return
	}
	// The reported virtual execution duration.
	lo, hi := u, u
	if c.err == context.DeadlineExceeded && c.doneHasStmp && c.doneStamp.Before(c.tDone) {
		// The expiry was delivered late; the implementation evaluates the
		// clock at the stamp the timer carries.
		s := c.doneStamp
		if s.Before(c.t0) {
			s = c.t0
		}
		lo = o.unsuspended(c.t0, s)
	}
	if c.val < lo || c.val > hi {
		w.violate("C11/unsuspended-duration", desc+fmt.Sprintf(": the reported duration must lie in [%s, %s]; %s", lo, hi, o.timelineSince(c.t0)))
		return
	}
	if u < wall {
		o.compensated++
	}
	w.r.State(fmt.Sprintf("ctx err=%v compensated=%v rearmed=%v late=%v cancelReq=%v", c.err, u < wall, len(c.lates) > 1, c.doneLates > 0, c.cancelRequested))
}

func (o *oracles) evalTimer(t *timerRec) {
	w, k := o.w, o.w.k
	o.timerEvaluated++
	u := o.unsuspended(t.t0, t.tFired)
	wall := t.tFired.Sub(t.t0)
	bound := t.d + w.maxSusp
	desc := fmt.Sprintf("timer#%d of %s (%s, threshold %s, maximum suspension %s, created %s) fired at %s: wall time %s, unsuspended time per the stall timeline %s", t.id, t.root, t.d, w.threshold, w.maxSusp, rel(t.t0), rel(t.tFired), wall, u)
	k.Annotate("%s", desc)
	if wall < bound {
		if u <= t.d-w.threshold {
			w.violate("C11/timer-early", desc+": fired too early; "+o.timelineSince(t.t0))
			return
		}
		if u > t.d+t.firedLates {
			w.violate("C11/timer-late", desc+fmt.Sprintf(": fired later than its duration plus the injected delivery lateness (%s); %s", t.firedLates, o.timelineSince(t.t0)))
			return
		}
		k.Probe("timer-fired-by-unsuspended-time")
		if wall > t.d {
			k.Probe("timer-compensated")
		}
	} else {
		k.Probe("timer-fired-by-wall-bound")
	}
	if u < wall {
		o.compensated++
	}
	w.r.State(fmt.Sprintf("timer compensated=%v rearmed=%v", u < wall, len(t.lates) > 1))
}

func (o *oracles) describeLive() string {
	var sb strings.Builder
	now := o.w.sim.Global()
	for _, c := range o.ctxs {
		if !c.evaluated {
			fmt.Fprintf(&sb, "context#%d of %s timeout=%s created %s done=%v unsuspended-so-far=%s; ", c.id, c.root, c.d, rel(c.t0), c.seenDone, o.unsuspended(c.t0, now))
		}
	}
	for _, t := range o.timers {
		if !t.evaluated && !t.stopped {
			fmt.Fprintf(&sb, "timer#%d of %s d=%s created %s unsuspended-so-far=%s; ", t.id, t.root, t.d, rel(t.t0), o.unsuspended(t.t0, now))
		}
	}
	fmt.Fprintf(&sb, "now %s, stalls in progress %d", rel(now), o.count)
	return sb.String()
}

// finalChecks runs after the drain phase: every actor has returned.
func (o *oracles) finalChecks() {
	w := o.w
	if o.count != 0 {
		panic(simsync.HarnessError{Msg: fmt.Sprintf("%d stalls still in progress after all readers returned", o.count)})
	}
	for _, c := range o.ctxs {
		if c.ctx == nil {
			continue
		}
		if !c.evaluated {
			w.violate("C11/call-never-returned", fmt.Sprintf("context#%d of %s was never observed done", c.id, c.root))
			return
		}
		if c.actorSeen && (c.aErr != c.err || !c.aOK || c.aVal != c.val) {
			w.violate("C11/unsuspended-duration", fmt.Sprintf("context#%d of %s: the executor read Err()=%v Value=%s, the monitor read Err()=%v Value=%s after Done", c.id, c.root, c.aErr, c.aVal, c.err, c.val))
			return
		}
	}
}

func (o *oracles) finish() {
	r := o.w.r
	r.Count("contexts", len(o.ctxs))
	r.Count("contexts_evaluated", o.ctxEvaluated)
	r.Count("timers", len(o.timers))
	r.Count("timers_evaluated", o.timerEvaluated)
	r.Count("stall_intervals", o.stalls)
	r.Count("settled_points_checked", o.settledChecks)
	r.Count("outcomes_with_compensation", o.compensated)
	switch {
	case o.w.faultFree0:
		r.Count("runs_fault_free_exact", 1)
	case o.w.everLate:
		r.Count("runs_late_delivery", 1)
	default:
		r.Count("runs_faults_exact", 1)
	}
	r.NonTrivial = o.compensated > 0
}
